/-
Proofs/RegularizationSplitFrom.lean — `reg_split_from`: on well-formed cross-point tables (every row
non-empty and shorter than the array width) it never raises, and row `k` afterwards represents the
vector `e_{k/4} − Σ_l w_kl e_{m_kl}`: the negated interpolation weights with `+1` on the row's own
pixel (added in place when the pixel is already among the row's indices, appended otherwise).
-/
import Proofs.RegularizationSplit

namespace Model
open Mat Spec

variable {α : Type}

/-! ### the inner loop on one row -/

/-- weights row after the inner loop: `+1` at every position `j < k` whose index is the pixel -/
def bumpRow [Add α] [One α] (pix : Int) (mrow : List Int) (k : Nat) (wrow : List α) : List α :=
  (List.range k).foldl
    (fun w j => if mrow.getD j 0 == pix then w.modify j (fun e => e + 1) else w) wrow

/-- the flag after the inner loop: the pixel occurs among the first `k` indices -/
def hasPix (pix : Int) (mrow : List Int) (k : Nat) : Bool :=
  (List.range k).any fun j => mrow.getD j 0 == pix

theorem bumpRow_succ [Add α] [One α] (pix : Int) (mrow : List Int) (k : Nat) (wrow : List α) :
    bumpRow pix mrow (k + 1) wrow
      = if mrow.getD k 0 == pix then (bumpRow pix mrow k wrow).modify k (fun e => e + 1)
        else bumpRow pix mrow k wrow := by
  simp [bumpRow, List.range_succ, List.foldl_append]

theorem hasPix_succ (pix : Int) (mrow : List Int) (k : Nat) :
    hasPix pix mrow (k + 1) = (hasPix pix mrow k || (mrow.getD k 0 == pix)) := by
  simp [hasPix, List.range_succ, List.any_append]

theorem splitRowLoop_spec [Add α] [One α] (maxJ : Nat) (pix : Int) (mrow : List Int) (size : Nat)
    (wrow : List α) (j0 : Option Nat) (h : size ≤ maxJ) :
    Impl.splitRowLoop maxJ pix mrow size wrow j0
      = (bumpRow pix mrow size wrow, hasPix pix mrow size,
          if size = 0 then j0 else some (size - 1), false) := by
  unfold Impl.splitRowLoop
  induction size with
  | zero => simp [bumpRow, hasPix]
  | succ k ih =>
    rw [List.range_succ, List.foldl_append, ih (by omega)]
    have hk : ¬ (k ≥ maxJ) := by omega
    simp only [List.foldl_cons, List.foldl_nil, Bool.false_eq_true, if_false, bumpRow_succ,
      hasPix_succ, Nat.add_sub_cancel, Nat.succ_ne_zero, decide_eq_false hk]
    cases (mrow.getD k 0 == pix) <;> simp

theorem bumpRow_length [Add α] [One α] (pix : Int) (mrow : List Int) (k : Nat) (wrow : List α) :
    (bumpRow pix mrow k wrow).length = wrow.length := by
  induction k with
  | zero => simp [bumpRow]
  | succ k ih =>
    rw [bumpRow_succ]
    split <;> simp [ih]

theorem bumpRow_getD [AddMonoid α] [One α] (pix : Int) (mrow : List Int) (k : Nat) (wrow : List α)
    (j : Nat) (hj : j < wrow.length) :
    (bumpRow pix mrow k wrow).getD j 0
      = wrow.getD j 0 + (if j < k ∧ mrow.getD j 0 = pix then 1 else 0) := by
  induction k with
  | zero => simp [bumpRow]
  | succ k ih =>
    rw [bumpRow_succ]
    have hlen := bumpRow_length pix mrow k wrow
    by_cases hhit : mrow.getD k 0 = pix
    · have hb : (mrow.getD k 0 == pix) = true := by simpa using hhit
      rw [if_pos hb]
      simp only [List.getD_eq_getElem?_getD, List.getElem?_modify] at ih ⊢
      have hj' : j < (bumpRow pix mrow k wrow).length := by rw [hlen]; exact hj
      rw [List.getElem?_eq_getElem hj'] at ih ⊢
      simp only [Option.map_eq_map, Option.map_some, Option.getD_some] at ih ⊢
      by_cases hkj : k = j
      · subst hkj
        simp only [if_true, ih, Nat.lt_irrefl, false_and, if_false, add_zero, Nat.lt_succ_self,
          true_and]
        have : mrow[k]?.getD 0 = pix := by simpa [List.getD_eq_getElem?_getD] using hhit
        simp [this]
      · have h1 : (j < k + 1 ∧ mrow[j]?.getD 0 = pix) ↔ (j < k ∧ mrow[j]?.getD 0 = pix) := by
          constructor
          · rintro ⟨a, b⟩; exact ⟨by omega, b⟩
          · rintro ⟨a, b⟩; exact ⟨by omega, b⟩
        simp only [hkj, if_false, ih, h1]
    · have hb : ¬ ((mrow.getD k 0 == pix) = true) := by simpa using hhit
      rw [if_neg hb, ih]
      have h1 : (j < k + 1 ∧ mrow.getD j 0 = pix) ↔ (j < k ∧ mrow.getD j 0 = pix) := by
        constructor
        · rintro ⟨a, b⟩
          refine ⟨?_, b⟩
          by_contra hc
          have : j = k := by omega
          subst this
          exact hhit b
        · rintro ⟨a, b⟩; exact ⟨by omega, b⟩
      simp only [h1]

theorem hasPix_iff (pix : Int) (mrow : List Int) (k : Nat) :
    hasPix pix mrow k = true ↔ ∃ j, j < k ∧ mrow.getD j 0 = pix := by
  simp [hasPix, List.any_eq_true]

end Model

namespace Model
open Mat Spec

variable {α : Type}

/-! ### list helpers -/

theorem getD_set_eq {β : Type} (l : List β) (k : Nat) (v d : β) (hk : k < l.length) :
    (l.set k v).getD k d = v := by
  simp [List.getD_eq_getElem?_getD, hk]

theorem getD_set_ne {β : Type} (l : List β) (k i : Nat) (v d : β) (h : k ≠ i) :
    (l.set k v).getD i d = l.getD i d := by
  simp [List.getD_eq_getElem?_getD, h]

theorem getD_modify_eq {β : Type} (l : List β) (k : Nat) (f : β → β) (d : β) (hk : k < l.length) :
    (l.modify k f).getD k d = f (l.getD k d) := by
  simp [List.getD_eq_getElem?_getD, List.getElem?_eq_getElem hk]

theorem getD_modify_ne {β : Type} (l : List β) (k i : Nat) (f : β → β) (d : β) (h : k ≠ i) :
    (l.modify k f).getD i d = l.getD i d := by
  simp only [List.getD_eq_getElem?_getD, List.getElem?_modify]
  cases l[i]? <;> simp [h]

/-! ### the outer loop -/

/-- well-formed cross-point tables: `R` rows, arrays of width `width`, every row non-empty and with
    room for one more entry (so `j >= max_j` never fires) -/
structure SplitWF (t : Impl.SplitTables α) (R width : Nat) : Prop where
  hm : t.mappings.length = R
  hs : t.sizes.length = R
  hw : t.weights.length = R
  hsize : ∀ i, i < R → 1 ≤ t.sizes.getD i 0 ∧ t.sizes.getD i 0 + 1 ≤ width
  hrowm : ∀ i, i < R → (t.mappings.getD i []).length = width
  hroww : ∀ i, i < R → (t.weights.getD i []).length = width

/-- the pixel a cross-point row belongs to -/
def pixI (i : Nat) : Int := ((i / 4 : Nat) : Int)

/-- row `i` of the three arrays after `reg_split_from` -/
def resM (t : Impl.SplitTables α) (i : Nat) : List Int :=
  if hasPix (pixI i) (t.mappings.getD i []) (t.sizes.getD i 0) then t.mappings.getD i []
  else (t.mappings.getD i []).set (t.sizes.getD i 0) (pixI i)

def resS (t : Impl.SplitTables α) (i : Nat) : Nat :=
  if hasPix (pixI i) (t.mappings.getD i []) (t.sizes.getD i 0) then t.sizes.getD i 0
  else t.sizes.getD i 0 + 1

def resW [Neg α] [Add α] [One α] (t : Impl.SplitTables α) (i : Nat) : List α :=
  if hasPix (pixI i) (t.mappings.getD i []) (t.sizes.getD i 0) then
    bumpRow (pixI i) (t.mappings.getD i []) (t.sizes.getD i 0)
      ((t.weights.getD i []).map fun v => -v)
  else
    (bumpRow (pixI i) (t.mappings.getD i []) (t.sizes.getD i 0)
      ((t.weights.getD i []).map fun v => -v)).set (t.sizes.getD i 0) 1

/-- loop invariant after `k` rows -/
structure SplitInv [Neg α] [Add α] [One α] (t : Impl.SplitTables α) (R k : Nat)
    (s : Impl.SplitState α) : Prop where
  hr : s.raised = false
  hu : s.unbound = false
  hm : s.t.mappings.length = R
  hs : s.t.sizes.length = R
  hw : s.t.weights.length = R
  rm : ∀ i, i < R → s.t.mappings.getD i [] = if i < k then resM t i else t.mappings.getD i []
  rs : ∀ i, i < R → s.t.sizes.getD i 0 = if i < k then resS t i else t.sizes.getD i 0
  rw : ∀ i, i < R → s.t.weights.getD i []
        = if i < k then resW t i else (t.weights.getD i []).map fun v => -v

theorem splitStep_inv [Neg α] [Add α] [One α] (t : Impl.SplitTables α) (R width : Nat)
    (hwf : SplitWF t R width) (k : Nat) (hk : k < R) (s : Impl.SplitState α)
    (hinv : SplitInv t R k s) :
    SplitInv t R (k + 1) (Impl.splitStep (width - 1) s k) := by
  obtain ⟨h1, h2⟩ := hwf.hsize k hk
  have hM := hinv.rm k hk
  have hS := hinv.rs k hk
  have hW := hinv.rw k hk
  simp only [Nat.lt_irrefl, if_false] at hM hS hW
  have hspec := splitRowLoop_spec (α := α) (width - 1) (pixI k) (t.mappings.getD k [])
    (t.sizes.getD k 0) ((t.weights.getD k []).map fun v => -v) s.j (by omega)
  have hne : ¬ (t.sizes.getD k 0 = 0) := by omega
  unfold Impl.splitStep
  simp only [hinv.hr, hinv.hu, Bool.or_self, Bool.false_eq_true, if_false, hM, hS, hW]
  have hpix : ((k / 4 : Nat) : Int) = pixI k := rfl
  rw [hpix, hspec]
  simp only [Bool.false_eq_true, if_false, hne]
  have hkm : k < s.t.mappings.length := by rw [hinv.hm]; exact hk
  have hks : k < s.t.sizes.length := by rw [hinv.hs]; exact hk
  have hkw : k < s.t.weights.length := by rw [hinv.hw]; exact hk
  cases hhas : hasPix (pixI k) (t.mappings.getD k []) (t.sizes.getD k 0) with
  | true =>
    simp only [if_true]
    refine ⟨rfl, rfl, hinv.hm, hinv.hs, by simp [hinv.hw], ?_, ?_, ?_⟩
    · intro i hi
      rw [hinv.rm i hi]
      by_cases hik : i = k
      · subst hik; simp only [Nat.lt_irrefl, if_false, Nat.lt_succ_self, if_true, resM, hhas]
      · have : (i < k + 1) ↔ (i < k) := by omega
        simp only [this]
    · intro i hi
      rw [hinv.rs i hi]
      by_cases hik : i = k
      · subst hik; simp only [Nat.lt_irrefl, if_false, Nat.lt_succ_self, if_true, resS, hhas]
      · have : (i < k + 1) ↔ (i < k) := by omega
        simp only [this]
    · intro i hi
      by_cases hik : i = k
      · subst hik
        simp only [getD_set_eq _ _ _ _ hkw, Nat.lt_succ_self, if_true, resW, hhas]
      · rw [getD_set_ne _ _ _ _ _ (fun h => hik h.symm), hinv.rw i hi]
        have : (i < k + 1) ↔ (i < k) := by omega
        simp only [this]
  | false =>
    simp only [Bool.false_eq_true, if_false]
    have hj1 : t.sizes.getD k 0 - 1 + 1 = t.sizes.getD k 0 := by omega
    refine ⟨rfl, rfl, by simp [hinv.hm], by simp [hinv.hs], by simp [hinv.hw], ?_, ?_, ?_⟩
    · intro i hi
      by_cases hik : i = k
      · subst hik
        simp only [getD_modify_eq _ _ _ _ hkm, Nat.lt_succ_self, if_true, resM, hhas, hM, hj1,
          Bool.false_eq_true, if_false]
      · rw [getD_modify_ne _ _ _ _ _ (fun h => hik h.symm), hinv.rm i hi]
        have : (i < k + 1) ↔ (i < k) := by omega
        simp only [this]
    · intro i hi
      by_cases hik : i = k
      · subst hik
        simp only [getD_modify_eq _ _ _ _ hks, Nat.lt_succ_self, if_true, resS, hhas, hS,
          Bool.false_eq_true, if_false]
      · rw [getD_modify_ne _ _ _ _ _ (fun h => hik h.symm), hinv.rs i hi]
        have : (i < k + 1) ↔ (i < k) := by omega
        simp only [this]
    · intro i hi
      by_cases hik : i = k
      · subst hik
        simp only [getD_set_eq _ _ _ _ hkw, Nat.lt_succ_self, if_true, resW, hhas, hj1,
          Bool.false_eq_true, if_false]
      · rw [getD_set_ne _ _ _ _ _ (fun h => hik h.symm), hinv.rw i hi]
        have : (i < k + 1) ↔ (i < k) := by omega
        simp only [this]

end Model

namespace Model
open Mat Spec

variable {α : Type}

theorem getD_map_rows {β γ : Type} (L : List (List β)) (f : β → γ) (i : Nat) :
    (L.map fun r => r.map f).getD i [] = (L.getD i []).map f := by
  simp only [List.getD_eq_getElem?_getD, List.getElem?_map]
  cases L[i]? <;> simp

/-- on well-formed tables `reg_split_from` returns (no exception) and its rows are `resM/resS/resW` -/
theorem regSplitFrom_ok [Neg α] [Add α] [One α] (t : Impl.SplitTables α) (R width : Nat)
    (hwf : SplitWF t R width) :
    ∃ t', Impl.regSplitFrom t = .ok t' ∧ t'.mappings.length = R ∧ t'.sizes.length = R
      ∧ t'.weights.length = R
      ∧ ∀ i, i < R → t'.mappings.getD i [] = resM t i ∧ t'.sizes.getD i 0 = resS t i
          ∧ t'.weights.getD i [] = resW t i := by
  have hmax : R = 0 ∨ (t.weights.headD []).length - 1 = width - 1 := by
    by_cases hR : R = 0
    · exact Or.inl hR
    · right
      have h0 := hwf.hroww 0 (by omega)
      have : t.weights.headD [] = t.weights.getD 0 [] := by
        cases t.weights <;> simp
      rw [this, h0]
  have key : ∀ k, k ≤ R →
      SplitInv t R k ((List.range k).foldl (Impl.splitStep ((t.weights.headD []).length - 1))
        { t := { t with weights := t.weights.map fun r => r.map fun v => -v },
          j := none, raised := false, unbound := false }) := by
    intro k
    induction k with
    | zero =>
      intro _
      refine ⟨rfl, rfl, hwf.hm, hwf.hs, by simp [hwf.hw], ?_, ?_, ?_⟩
      · intro i _; simp
      · intro i _; simp
      · intro i _
        simp only [Nat.not_lt_zero, if_false]
        exact getD_map_rows _ _ _
    | succ k ih =>
      intro hk
      rw [List.range_succ, List.foldl_append]
      simp only [List.foldl_cons, List.foldl_nil]
      rcases hmax with h0 | hm
      · omega
      · rw [hm]
        have := ih (by omega)
        rw [hm] at this
        exact splitStep_inv t R width hwf k (by omega) _ this
  have hfin := key R (le_refl R)
  unfold Impl.regSplitFrom
  simp only [hwf.hm]
  refine ⟨_, by rw [if_neg (by rw [hfin.hr]; exact Bool.false_ne_true),
      if_neg (by rw [hfin.hu]; exact Bool.false_ne_true)], hfin.hm, hfin.hs, hfin.hw, ?_⟩
  intro i hi
  have h1 := hfin.rm i hi
  have h2 := hfin.rs i hi
  have h3 := hfin.rw i hi
  simp only [hi, if_true] at h1 h2 h3
  exact ⟨h1, h2, h3⟩

end Model

namespace Model
open Mat Spec

variable {α : Type}

/-! ### what the rows mean afterwards -/

theorem pyIdx_natCast (p n : Nat) : pyIdx p (n : Int) = n := by
  simp [pyIdx]

theorem pyIdx_eq_iff (p : Nat) (m : Int) (hm : 0 ≤ m) (n : Nat) : pyIdx p m = n ↔ m = (n : Int) := by
  unfold pyIdx
  have : ¬ m < 0 := by omega
  simp only [this, if_false]
  omega

theorem pyTable_getD (p : Nat) (M : List (List Int)) (k l : Nat) :
    ((pyTable p M).getD k []).getD l 0 = pyIdx p ((M.getD k []).getD l 0) := by
  unfold pyTable
  rw [getD_map_rows]
  simp only [List.getD_eq_getElem?_getD, List.getElem?_map]
  cases (M[k]?.getD [])[l]? <;> simp [pyIdx]

theorem getD_map_neg [SubtractionMonoid α] (w : List α) (l : Nat) :
    (w.map fun v => -v).getD l 0 = -(w.getD l 0) := by
  simp only [List.getD_eq_getElem?_getD, List.getElem?_map]
  cases w[l]? <;> simp

/-- the single index at which a distinct row holds the pixel -/
theorem sumRange_unique [AddCommMonoid α] (s l0 : Nat) (hl0 : l0 < s) (P : Nat → Prop)
    [DecidablePred P] (hP : P l0) (huniq : ∀ l, l < s → P l → l = l0) (c : α) :
    sumRange s (fun l => if P l then c else 0) = c := by
  refine Eq.trans (sumRange_congr s _ (fun l => if l0 = l then c else 0) ?_)
    (sumRange_ite_eq s l0 hl0 (fun _ => c))
  intro l hl
  by_cases h : P l
  · have := huniq l hl h
    subst this
    simp [h]
  · have : ¬ l0 = l := by
      intro e; subst e; exact h hP
    simp [h, this]

/-- row `k` after `reg_split_from`, applied to `x`, is `x_{k/4}` minus the row before -/
theorem crossDot_regSplit [CommRing α] (p : Nat) (t t' : Impl.SplitTables α) (width : Nat)
    (hwf : SplitWF t (4 * p) width)
    (hnn : ∀ k, k < 4 * p → ∀ l, l < t.sizes.getD k 0 → 0 ≤ (t.mappings.getD k []).getD l 0)
    (hD : SplitDistinct p (pyTable p t.mappings) t.sizes)
    (k : Nat) (hk : k < 4 * p)
    (hM : t'.mappings.getD k [] = resM t k) (hS : t'.sizes.getD k 0 = resS t k)
    (hW : t'.weights.getD k [] = resW t k) (x : List α) :
    crossDot (pyTable p t'.mappings) t'.sizes t'.weights x k
      = x.getD (k / 4) 0 - crossDot (pyTable p t.mappings) t.sizes t.weights x k := by
  obtain ⟨hs1, hs2⟩ := hwf.hsize k hk
  have hlm := hwf.hrowm k hk
  have hlw := hwf.hroww k hk
  set m := t.mappings.getD k [] with hm
  set s := t.sizes.getD k 0 with hs
  set w := t.weights.getD k [] with hw
  have hwneg : (w.map fun v => -v).length = width := by simp [hlw]
  unfold crossDot
  simp only [pyTable_getD, hM, hS, hW, resM, resS, resW, ← hm, ← hs, ← hw]
  have hpixeq : ∀ l, l < s → (m.getD l 0 = pixI k ↔ pyIdx p (m.getD l 0) = k / 4) := by
    intro l hl
    rw [pyIdx_eq_iff p _ (hnn k hk l hl)]
    rfl
  cases hhas : hasPix (pixI k) m s with
  | true =>
    simp only [if_true]
    obtain ⟨l0, hl0, hl0e⟩ := (hasPix_iff _ _ _).mp hhas
    have hterm : ∀ l, l < s →
        (bumpRow (pixI k) m s (w.map fun v => -v)).getD l 0 * x.getD (pyIdx p (m.getD l 0)) 0
        = (if m.getD l 0 = pixI k then x.getD (k / 4) 0 else 0)
          + -(w.getD l 0 * x.getD (pyIdx p (m.getD l 0)) 0) := by
      intro l hl
      rw [bumpRow_getD _ _ _ _ _ (by rw [hwneg]; omega), getD_map_neg]
      by_cases h : m.getD l 0 = pixI k
      · simp only [hl, h, and_self, if_true]
        have h'' : pyIdx p (pixI k) = k / 4 := pyIdx_natCast p (k / 4)
        rw [h'']
        ring
      · simp only [h, and_false, if_false]
        ring
    rw [sumRange_congr s _ _ hterm, sumRange_add]
    have huniq : ∀ l, l < s → m.getD l 0 = pixI k → l = l0 := by
      intro l hl hl'
      apply hD k hk l l0 hl hl0
      rw [pyTable_getD, pyTable_getD, ← hm, hl', hl0e]
    rw [sumRange_unique s l0 hl0 (fun l => m.getD l 0 = pixI k) hl0e huniq]
    simp only [sumRange_eq_finset, Finset.sum_neg_distrib]
    ring
  | false =>
    simp only [Bool.false_eq_true, if_false]
    rw [sumRange_succ]
    have hnone : ∀ l, l < s → ¬ m.getD l 0 = pixI k := by
      intro l hl h
      have : hasPix (pixI k) m s = true := (hasPix_iff _ _ _).mpr ⟨l, hl, h⟩
      rw [hhas] at this
      exact Bool.false_ne_true this
    have hlast : ((bumpRow (pixI k) m s (w.map fun v => -v)).set s 1).getD s 0
          * x.getD (pyIdx p ((m.set s (pixI k)).getD s 0)) 0 = x.getD (k / 4) 0 := by
      rw [getD_set_eq _ _ _ _ (by rw [bumpRow_length, hwneg]; omega),
        getD_set_eq _ _ _ _ (by rw [hlm]; omega)]
      have : pyIdx p (pixI k) = k / 4 := pyIdx_natCast p (k / 4)
      rw [this, one_mul]
    have hterm : ∀ l, l < s →
        ((bumpRow (pixI k) m s (w.map fun v => -v)).set s 1).getD l 0
          * x.getD (pyIdx p ((m.set s (pixI k)).getD l 0)) 0
        = -(w.getD l 0 * x.getD (pyIdx p (m.getD l 0)) 0) := by
      intro l hl
      have hne : s ≠ l := by omega
      rw [getD_set_ne _ _ _ _ _ hne, getD_set_ne _ _ _ _ _ hne,
        bumpRow_getD _ _ _ _ _ (by rw [hwneg]; omega), getD_map_neg]
      simp only [hnone l hl, and_false, if_false, add_zero]
      ring
    rw [sumRange_congr s _ _ hterm, hlast]
    simp only [sumRange_eq_finset, Finset.sum_neg_distrib]
    ring

end Model

namespace Model
open Mat Spec

variable {α : Type}

/-- `reg_split_from` keeps the rows in range and distinct -/
theorem regSplit_preserves (p : Nat) (t t' : Impl.SplitTables α) (width : Nat)
    (hwf : SplitWF t (4 * p) width)
    (hnn : ∀ k, k < 4 * p → ∀ l, l < t.sizes.getD k 0 → 0 ≤ (t.mappings.getD k []).getD l 0)
    (hR : SplitInRange p (pyTable p t.mappings) t.sizes)
    (hD : SplitDistinct p (pyTable p t.mappings) t.sizes)
    (hrows : ∀ k, k < 4 * p → t'.mappings.getD k [] = resM t k ∧ t'.sizes.getD k 0 = resS t k) :
    SplitInRange p (pyTable p t'.mappings) t'.sizes
    ∧ SplitDistinct p (pyTable p t'.mappings) t'.sizes := by
  have hnoPix : ∀ k, k < 4 * p →
      hasPix (pixI k) (t.mappings.getD k []) (t.sizes.getD k 0) = false →
      ∀ l, l < t.sizes.getD k 0 → pyIdx p ((t.mappings.getD k []).getD l 0) ≠ k / 4 := by
    intro k hk hhas l hl h
    have := (pyIdx_eq_iff p _ (hnn k hk l hl) (k / 4)).mp h
    have h2 : hasPix (pixI k) (t.mappings.getD k []) (t.sizes.getD k 0) = true :=
      (hasPix_iff _ _ _).mpr ⟨l, hl, this⟩
    rw [hhas] at h2
    exact Bool.false_ne_true h2
  constructor
  · intro k hk l hl
    obtain ⟨hM, hS⟩ := hrows k hk
    obtain ⟨_, hs2⟩ := hwf.hsize k hk
    have hlm := hwf.hrowm k hk
    rw [pyTable_getD, hM]
    rw [hS] at hl
    unfold resM
    unfold resS at hl
    cases hhas : hasPix (pixI k) (t.mappings.getD k []) (t.sizes.getD k 0) with
    | true =>
      simp only [hhas, if_true] at hl ⊢
      have := hR k hk l hl
      rwa [pyTable_getD] at this
    | false =>
      simp only [hhas, Bool.false_eq_true, if_false] at hl ⊢
      by_cases hls : l = t.sizes.getD k 0
      · subst hls
        rw [getD_set_eq _ _ _ _ (by rw [hlm]; omega)]
        have : pyIdx p (pixI k) = k / 4 := pyIdx_natCast p (k / 4)
        rw [this]
        omega
      · rw [getD_set_ne _ _ _ _ _ (fun h => hls h.symm)]
        have := hR k hk l (by omega)
        rwa [pyTable_getD] at this
  · intro k hk l l' hl hl' heq
    obtain ⟨hM, hS⟩ := hrows k hk
    obtain ⟨_, hs2⟩ := hwf.hsize k hk
    have hlm := hwf.hrowm k hk
    rw [pyTable_getD, pyTable_getD, hM] at heq
    rw [hS] at hl hl'
    unfold resM at heq
    unfold resS at hl hl'
    cases hhas : hasPix (pixI k) (t.mappings.getD k []) (t.sizes.getD k 0) with
    | true =>
      simp only [hhas, if_true] at hl hl' heq
      apply hD k hk l l' hl hl'
      rw [pyTable_getD, pyTable_getD]
      exact heq
    | false =>
      simp only [hhas, Bool.false_eq_true, if_false] at hl hl' heq
      have hpix : pyIdx p (pixI k) = k / 4 := pyIdx_natCast p (k / 4)
      have hlen : t.sizes.getD k 0 < (t.mappings.getD k []).length := by rw [hlm]; omega
      by_cases hls : l = t.sizes.getD k 0
      · by_cases hls' : l' = t.sizes.getD k 0
        · rw [hls, hls']
        · exfalso
          rw [hls, getD_set_eq _ _ _ _ hlen, getD_set_ne _ _ _ _ _ (fun h => hls' h.symm), hpix] at heq
          exact hnoPix k hk hhas l' (by omega) heq.symm
      · by_cases hls' : l' = t.sizes.getD k 0
        · exfalso
          rw [hls', getD_set_eq _ _ _ _ hlen, getD_set_ne _ _ _ _ _ (fun h => hls h.symm), hpix] at heq
          exact hnoPix k hk hhas l (by omega) heq
        · rw [getD_set_ne _ _ _ _ _ (fun h => hls h.symm),
            getD_set_ne _ _ _ _ _ (fun h => hls' h.symm)] at heq
          apply hD k hk l l' (by omega) (by omega)
          rw [pyTable_getD, pyTable_getD]
          exact heq

/-- (d) the split-cross classes on the mapper's own tables: with well-formed, non-negative,
    in-range, distinct cross rows, `reg_split_from` + `pixel_splitted_regularization_matrix_from`
    return a symmetric positive-definite matrix whose quadratic form is
    `(ρ₂/2)|x|² + Σ_i ω_i² Σ_{j<4} (x_i − (interpolated value at cross point 4i+j))²`. -/
theorem splitSchemeMatrix_spec [Field α] [LinearOrder α] [IsStrictOrderedRing α] (p : Nat) (ρ2 : α)
    (hρ : 0 < ρ2) (ω : List α) (t : Impl.SplitTables α) (width : Nat)
    (hwf : SplitWF t (4 * p) width)
    (hnn : ∀ k, k < 4 * p → ∀ l, l < t.sizes.getD k 0 → 0 ≤ (t.mappings.getD k []).getD l 0)
    (hR : SplitInRange p (pyTable p t.mappings) t.sizes)
    (hD : SplitDistinct p (pyTable p t.mappings) t.sizes) :
    ∃ H, Impl.splitSchemeMatrix ρ2 ω t = .ok H
      ∧ Dims p H
      ∧ (∀ a b, entry H a b = entry H b a)
      ∧ (∀ x : List α, x.length = p →
          quad H x = (ρ2 / (1 + 1)) * sumSq x
            + sumRange p fun i => sumRange 4 fun j =>
                (ω.getD i 0 * ω.getD i 0)
                  * ((x.getD i 0 - crossDot (pyTable p t.mappings) t.sizes t.weights x (i * 4 + j))
                    * (x.getD i 0 - crossDot (pyTable p t.mappings) t.sizes t.weights x (i * 4 + j))))
      ∧ (∀ x : List α, x.length = p → (∃ i, i < p ∧ x.getD i 0 ≠ 0) → 0 < quad H x) := by
  obtain ⟨t', hok, hlm, _, _, hrows⟩ := regSplitFrom_ok t (4 * p) width hwf
  have hp : t'.mappings.length / 4 = p := by rw [hlm]; omega
  obtain ⟨hR', hD'⟩ := regSplit_preserves p t t' width hwf hnn hR hD
    (fun k hk => ⟨(hrows k hk).1, (hrows k hk).2.1⟩)
  have hlen : (pyTable p t'.mappings).length / 4 = p := by simp [pyTable, hp]
  have h2 : (1 + 1 : α) ≠ 0 := by rw [one_add_one_eq_two]; exact two_ne_zero
  refine ⟨Impl.pixelSplittedMatrix ρ2 ω (pyTable p t'.mappings) t'.sizes t'.weights,
    by simp only [Impl.splitSchemeMatrix, hok, hp], ?_, ?_, ?_, ?_⟩
  · exact pixelSplittedMatrix_dims ρ2 ω _ _ _ hlen hR'
  · intro a b
    exact pixelSplittedMatrix_symm ρ2 ω _ _ _ hlen hR' a b
  · intro x hx
    rw [pixelSplittedMatrix_quad h2 ρ2 ω _ _ _ hlen hR' hD' x hx]
    congr 1
    apply sumRange_congr
    intro i hi
    apply sumRange_congr
    intro j hj
    have hk : i * 4 + j < 4 * p := by omega
    obtain ⟨hM, hS, hW⟩ := hrows _ hk
    rw [crossDot_regSplit p t t' width hwf hnn hD _ hk hM hS hW x]
    have : (i * 4 + j) / 4 = i := by omega
    rw [this]
  · intro x hx hx0
    exact pixelSplittedMatrix_posdef ρ2 hρ ω _ _ _ hlen hR' hD' x hx hx0

end Model
