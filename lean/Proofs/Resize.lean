/-
Proofs/Resize.lean — refinement lemmas for Model/Resize.lean (core Lean only):
the write loops of `resized_array_2d_from` / `extracted_array_2d_from` equal their closed forms, and
the algebra of tabulated 2-D arrays used by the property theorems.
-/
import Model.Resize
import Proofs.Core
import Proofs.Slim

namespace Model

open Impl

/-! ### a loop of guarded point-writes -/

/-- one iteration of a write loop: `t p = some (i, v)` writes `v` at flat index `i`, `none` skips -/
def writeStep (t : γ → Option (Nat × α)) (arr : List α) (p : γ) : List α :=
  match t p with
  | some (i, v) => arr.set i v
  | none => arr

theorem writeStep_length (t : γ → Option (Nat × α)) (arr : List α) (p : γ) :
    (writeStep t arr p).length = arr.length := by
  unfold writeStep; split <;> simp

theorem foldl_write_length (t : γ → Option (Nat × α)) (l : List γ) (init : List α) :
    (l.foldl (writeStep t) init).length = init.length := by
  induction l generalizing init with
  | nil => rfl
  | cons a l ih => simp only [List.foldl_cons]; rw [ih, writeStep_length]

/-- a cell nobody writes keeps its initial content -/
theorem foldl_write_untouched (t : γ → Option (Nat × α)) (l : List γ) (init : List α) (k : Nat)
    (h : ∀ p ∈ l, ∀ v, t p ≠ some (k, v)) :
    (l.foldl (writeStep t) init)[k]? = init[k]? := by
  induction l generalizing init with
  | nil => rfl
  | cons a l ih =>
    simp only [List.foldl_cons]
    rw [ih _ (fun p hp => h p (List.mem_cons_of_mem _ hp))]
    unfold writeStep
    split
    · rename_i i v heq
      have hne : i ≠ k := by
        intro hik
        exact h a (List.mem_cons_self) v (by rw [heq, hik])
      rw [List.getElem?_set_ne hne]
    · rfl

/-- a cell all of whose writers agree on the value ends up holding that value -/
theorem foldl_write_hit' (t : γ → Option (Nat × α)) (l : List γ) (init : List α) (k : Nat) (v : α)
    (hk : k < init.length) (hex : ∃ p ∈ l, t p = some (k, v))
    (hall : ∀ q ∈ l, ∀ v', t q = some (k, v') → v' = v) :
    (l.foldl (writeStep t) init)[k]? = some v := by
  induction l generalizing init with
  | nil => obtain ⟨p, hp, _⟩ := hex; cases hp
  | cons a l ih =>
    simp only [List.foldl_cons]
    by_cases hex' : ∃ q ∈ l, ∃ v', t q = some (k, v')
    · obtain ⟨q, hq, v', hqv⟩ := hex'
      have hv' : v' = v := hall q (List.mem_cons_of_mem _ hq) v' hqv
      subst hv'
      exact ih _ (by rw [writeStep_length]; exact hk) ⟨q, hq, hqv⟩
        (fun q' hq' v'' h'' => hall q' (List.mem_cons_of_mem _ hq') v'' h'')
    · have hnone : ∀ q ∈ l, ∀ v', t q ≠ some (k, v') := by
        intro q hq v' hqv
        exact hex' ⟨q, hq, v', hqv⟩
      rw [foldl_write_untouched t l _ k hnone]
      obtain ⟨p, hp, hpv⟩ := hex
      have hpa : p = a := by
        rcases List.mem_cons.mp hp with h | h
        · exact h
        · exact absurd hpv (hnone p h v)
      subst hpa
      unfold writeStep
      rw [hpv]
      simp [hk]

theorem foldl_write_hit (t : γ → Option (Nat × α)) (l : List γ) (init : List α) (k : Nat) (v : α)
    (hk : k < init.length) (p : γ) (hp : p ∈ l) (hpv : t p = some (k, v))
    (hall : ∀ q ∈ l, ∀ v', t q = some (k, v') → v' = v) :
    (l.foldl (writeStep t) init)[k]? = some v :=
  foldl_write_hit' t l init k v hk ⟨p, hp, hpv⟩ hall

/-! ### tabulated 2-D arrays -/

/-- the row-major flattening of the `h×w` array with entries `f y x` -/
def tab (h w : Nat) (f : Nat → Nat → α) : List α := (pixels h w).map fun p => f p.1 p.2

@[simp] theorem tab_length (h w : Nat) (f : Nat → Nat → α) : (tab h w f).length = h * w := by
  simp [tab, pixels_length]

theorem getElem?_map_pixels (h w : Nat) (g : Nat × Nat → α) (y x : Nat) (hy : y < h) (hx : x < w) :
    ((pixels h w).map g)[y * w + x]? = some (g (y, x)) := by
  have hk : y * w + x < (pixels h w).length := by
    rw [pixels_length]; exact flat_lt (p := (y, x)) (mem_pixels.mpr ⟨hy, hx⟩)
  rw [List.getElem?_map, List.getElem?_eq_getElem hk]
  have hflat := pixels_getElem h w (y * w + x) hk
  have hmem : (pixels h w)[y * w + x] ∈ pixels h w := List.getElem_mem hk
  have hp2 := (mem_pixels.mp hmem).2
  have : (pixels h w)[y * w + x] = (y, x) :=
    flat_injOn (p := (pixels h w)[y * w + x]) (q := (y, x)) hp2 hx (by simpa [flat] using hflat)
  simp [this]

theorem tab_getElem? (h w : Nat) (f : Nat → Nat → α) (y x : Nat) (hy : y < h) (hx : x < w) :
    (tab h w f)[y * w + x]? = some (f y x) :=
  getElem?_map_pixels h w _ y x hy hx

theorem tab_getD (h w : Nat) (f : Nat → Nat → α) (z : α) (y x : Nat) (hy : y < h) (hx : x < w) :
    (tab h w f).getD (y * w + x) z = f y x := by
  rw [List.getD_eq_getElem?_getD, tab_getElem? h w f y x hy hx]; rfl

theorem tab_congr (h w : Nat) (f g : Nat → Nat → α)
    (hfg : ∀ y x, y < h → x < w → f y x = g y x) : tab h w f = tab h w g := by
  unfold tab
  apply List.map_congr_left
  intro p hp
  exact hfg p.1 p.2 (mem_pixels.mp hp).1 (mem_pixels.mp hp).2

/-- every flat list of the right length is the tabulation of its own accessor -/
theorem eq_tab (a : List α) (h w : Nat) (z : α) (ha : a.length = h * w) :
    a = tab h w (fun y x => a.getD (y * w + x) z) := by
  have h1 : tab h w (fun y x => a.getD (y * w + x) z)
      = ((pixels h w).map (flat w)).map (fun k => a.getD k z) := by
    simp [tab, flat, Function.comp_def]
  rw [h1, pixels_map_flat]
  apply List.ext_getElem
  · simp [ha]
  · intro k h1 h2
    simp [List.getD_eq_getElem?_getD, List.getElem?_eq_getElem h1]

/-- two flat lists of the same `h×w` shape agreeing at every pixel are equal -/
theorem ext_2d (a b : List α) (h w : Nat) (z : α) (ha : a.length = h * w) (hb : b.length = h * w)
    (hab : ∀ y x, y < h → x < w → a.getD (y * w + x) z = b.getD (y * w + x) z) : a = b := by
  rw [eq_tab a h w z ha, eq_tab b h w z hb]
  exact tab_congr h w _ _ hab

/-! ### the resize loop = its closed form -/

/-- the write performed by `resized_array_2d_from` at loop position `(yr, xr)` -/
def resizeWrite (src : List α) (h w h' w' : Nat) (o : Nat × Nat) (pad zero : α) (p : Nat × Nat) :
    Option (Nat × α) :=
  if p.1 < h' ∧ p.2 < w' then
    some (p.1 * w' + p.2, Spec.resizedAt src h w h' w' o.1 o.2 pad zero p.1 p.2)
  else none

theorem resized_loop_eq (src : List α) (h w h' w' : Nat) (o : Nat × Nat) (pad zero : α)
    (n m : Nat) (init : List α) :
    forYX n m
      (fun arr yr xr =>
        let y : Int := ((o.1 : Int) - ((h' / 2 : Nat) : Int)) + (yr : Int)
        let x : Int := ((o.2 : Int) - ((w' / 2 : Nat) : Int)) + (xr : Int)
        if 0 ≤ y ∧ y < (h : Int) ∧ 0 ≤ x ∧ x < (w : Int) then
          if yr < h' ∧ xr < w' then arr.set (yr * w' + xr) (src.getD (y.toNat * w + x.toNat) zero)
          else arr
        else
          if yr < h' ∧ xr < w' then arr.set (yr * w' + xr) pad else arr) init
      = (pixels n m).foldl (writeStep (resizeWrite src h w h' w' o pad zero)) init := by
  rw [forYX_eq_foldl]
  congr 1
  funext arr p
  unfold writeStep resizeWrite Spec.resizedAt Spec.srcIndex
  by_cases hg : p.1 < h' ∧ p.2 < w'
  · simp only [hg, and_self, if_true]
    split <;> rfl
  · simp only [hg, if_false]
    split <;> rfl

/-- the write loop over a grid covering the target frame = the closed form -/
theorem resized_core (src : List α) (h w h' w' : Nat) (o : Nat × Nat) (pad zero : α) (n m : Nat)
    (hn' : h' ≤ n) (hm' : w' ≤ m) :
    (pixels n m).foldl (writeStep (resizeWrite src h w h' w' o pad zero))
      (List.replicate (h' * w') zero) = Spec.resized src h w h' w' o.1 o.2 pad zero := by
  generalize hres : (pixels n m).foldl (writeStep (resizeWrite src h w h' w' o pad zero))
    (List.replicate (h' * w') zero) = res
  have hlen : res.length = h' * w' := by
    rw [← hres, foldl_write_length]; simp
  unfold Spec.resized
  rw [eq_tab res h' w' zero hlen]
  unfold tab
  apply List.map_congr_left
  intro p hp
  obtain ⟨hp1, hp2⟩ := mem_pixels.mp hp
  have hk : p.1 * w' + p.2 < (List.replicate (h' * w') zero).length := by
    simp; exact flat_lt (p := p) hp
  have hhit := foldl_write_hit (resizeWrite src h w h' w' o pad zero) (pixels n m)
    (List.replicate (h' * w') zero) (p.1 * w' + p.2)
    (Spec.resizedAt src h w h' w' o.1 o.2 pad zero p.1 p.2) hk p
    (mem_pixels.mpr ⟨by omega, by omega⟩)
    (by unfold resizeWrite; simp [hp1, hp2])
    (by
      intro q _ v' hq
      unfold resizeWrite at hq
      split at hq
      · rename_i hg
        injection hq with hq
        injection hq with h1 h2
        have : q = p := flat_injOn (p := q) (q := p) hg.2 hp2 (by simpa [flat] using h1)
        rw [← h2, this]
      · cases hq)
  rw [hres] at hhit
  simp only [List.getD_eq_getElem?_getD, hhit, Option.getD_some]

/-- `resized_array_2d_from` (any centre) is the centred-window closed form -/
theorem resizedArray2d_eq_at (src : List α) (h w h' w' : Nat) (origin : Option (Nat × Nat))
    (pad zero : α) :
    Impl.resizedArray2d src h w h' w' origin pad zero
      = Spec.resized src h w h' w' (origin.getD (h / 2, w / 2)).1 (origin.getD (h / 2, w / 2)).2
          pad zero := by
  unfold Impl.resizedArray2d
  cases origin with
  | none =>
    exact (resized_loop_eq src h w h' w' (h / 2, w / 2) pad zero _ _ _).trans
      (resized_core src h w h' w' (h / 2, w / 2) pad zero _ _ (by dsimp only; omega) (by dsimp only; omega))
  | some o =>
    exact (resized_loop_eq src h w h' w' o pad zero _ _ _).trans
      (resized_core src h w h' w' o pad zero _ _ (by dsimp only; omega) (by dsimp only; omega))

/-- `resized_array_2d_from` with the default origin -/
theorem resizedArray2d_eq (src : List α) (h w h' w' : Nat) (pad zero : α) :
    Impl.resizedArray2d src h w h' w' none pad zero
      = tab h' w' (Spec.resizedAt src h w h' w' (h / 2) (w / 2) pad zero) := by
  rw [resizedArray2d_eq_at]; rfl

/-! ### the extraction loop = its closed form -/

def extractWrite (src : List α) (h w nw : Nat) (y0 x0 : Int) (zero : α) (p : Nat × Nat) :
    Option (Nat × α) :=
  let y : Int := y0 + (p.1 : Int)
  let x : Int := x0 + (p.2 : Int)
  if 0 ≤ y ∧ 0 ≤ x ∧ y ≤ (h : Int) - 1 ∧ x ≤ (w : Int) - 1 then
    some (p.1 * nw + p.2, src.getD (y.toNat * w + x.toNat) zero)
  else none

theorem extractedArray2d_eq (src : List α) (h w : Nat) (y0 y1 x0 x1 : Int) (zero : α) :
    Impl.extractedArray2d src h w y0 y1 x0 x1 zero
      = tab (y1 - y0).toNat (x1 - x0).toNat (Spec.extractedAt src h w y0 x0 zero) := by
  unfold Impl.extractedArray2d
  simp only
  generalize (y1 - y0).toNat = nh
  generalize (x1 - x0).toNat = nw
  rw [forYX_eq_foldl]
  have hstep : (fun (acc : List α) (p : Nat × Nat) =>
      if 0 ≤ y0 + (p.1 : Int) ∧ 0 ≤ x0 + (p.2 : Int) ∧ y0 + (p.1 : Int) ≤ (h : Int) - 1
          ∧ x0 + (p.2 : Int) ≤ (w : Int) - 1 then
        acc.set (p.1 * nw + p.2) (src.getD ((y0 + (p.1 : Int)).toNat * w + (x0 + (p.2 : Int)).toNat) zero)
      else acc) = writeStep (extractWrite src h w nw y0 x0 zero) := by
    funext acc p
    unfold writeStep extractWrite
    simp only
    split <;> rfl
  rw [hstep]
  generalize hres : (pixels nh nw).foldl (writeStep (extractWrite src h w nw y0 x0 zero))
    (List.replicate (nh * nw) zero) = res
  have hlen : res.length = nh * nw := by
    rw [← hres, foldl_write_length]; simp
  rw [eq_tab res nh nw zero hlen]
  apply tab_congr
  intro y x hy hx
  have hk : y * nw + x < (List.replicate (nh * nw) zero).length := by
    simp; exact flat_lt (p := (y, x)) (mem_pixels.mpr ⟨hy, hx⟩)
  unfold Spec.extractedAt
  simp only
  by_cases hin : 0 ≤ y0 + (y : Int) ∧ 0 ≤ x0 + (x : Int) ∧ y0 + (y : Int) ≤ (h : Int) - 1
      ∧ x0 + (x : Int) ≤ (w : Int) - 1
  · simp only [hin, and_self, if_true]
    have hhit := foldl_write_hit (extractWrite src h w nw y0 x0 zero) (pixels nh nw)
      (List.replicate (nh * nw) zero) (y * nw + x)
      (src.getD ((y0 + (y : Int)).toNat * w + (x0 + (x : Int)).toNat) zero) hk (y, x)
      (mem_pixels.mpr ⟨hy, hx⟩)
      (by unfold extractWrite; simp only [hin, and_self, if_true])
      (by
        intro q hq v' hqv
        unfold extractWrite at hqv
        simp only at hqv
        split at hqv
        · injection hqv with hqv
          injection hqv with h1 h2
          have hq2 := (mem_pixels.mp hq).2
          have : q = (y, x) := flat_injOn (p := q) (q := (y, x)) hq2 hx (by simpa [flat] using h1)
          rw [← h2, this]
        · cases hqv)
    rw [hres] at hhit
    simp only [List.getD_eq_getElem?_getD, hhit, Option.getD_some]
  · simp only [hin, if_false]
    have hunt := foldl_write_untouched (extractWrite src h w nw y0 x0 zero) (pixels nh nw)
      (List.replicate (nh * nw) zero) (y * nw + x)
      (by
        intro q hq v' hqv
        unfold extractWrite at hqv
        simp only at hqv
        split at hqv
        · rename_i hq_in
          injection hqv with hqv
          injection hqv with h1 _
          have hq2 := (mem_pixels.mp hq).2
          have : q = (y, x) := flat_injOn (p := q) (q := (y, x)) hq2 hx (by simpa [flat] using h1)
          subst this
          exact hin hq_in
        · cases hqv)
    rw [hres] at hunt
    simp only [List.getD_eq_getElem?_getD, hunt]
    simp at hk
    simp [hk]

end Model
