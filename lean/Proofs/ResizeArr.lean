/-
Proofs/ResizeArr.lean — Array2D / Mask2D level lemmas for Model/Resize.lean (core Lean only):
closed forms of `applyMask`, `sliceNative`, the resized mask / array, and the two round trips.
-/
import Model.Resize
import Proofs.Resize

namespace Model

open Impl

/-! ### small facts -/

theorem getD_irrel (l : List α) (k : Nat) (a b : α) (hk : k < l.length) : l.getD k a = l.getD k b := by
  simp [List.getD_eq_getElem?_getD, List.getElem?_eq_getElem hk]

theorem flat_lt' {h w y x : Nat} (hy : y < h) (hx : x < w) : y * w + x < h * w :=
  flat_lt (p := (y, x)) (mem_pixels.mpr ⟨hy, hx⟩)

theorem applyMask_eq_tab (m : Mask) (a : List α) (zero : α) :
    Impl.applyMask m a zero
      = tab m.h m.w (fun y x => if m.get y x then zero else a.getD (y * m.w + x) zero) := by
  unfold Impl.applyMask tab
  rw [← pixels_map_flat, List.map_map]
  apply List.map_congr_left
  intro p _
  rfl

theorem applyMask_length (m : Mask) (a : List α) (zero : α) :
    (Impl.applyMask m a zero).length = m.h * m.w := by simp [Impl.applyMask]

theorem sliceNative_eq_tab (src : List α) (w r0 r1 c0 c1 : Nat) (zero : α) :
    Impl.sliceNative src w r0 r1 c0 c1 zero
      = tab (r1 - r0) (c1 - c0) (fun y x => src.getD ((r0 + y) * w + (c0 + x)) zero) := rfl

/-- the invariant, pointwise: native values are zero at masked pixels -/
theorem Arr.WF.zero_at_masked {a : Arr α} {zero : α} (hwf : a.WF zero) (y x : Nat)
    (hy : y < a.gm.mask.h) (hx : x < a.gm.mask.w) (hm : a.gm.mask.get y x = true) :
    a.native.getD (y * a.gm.mask.w + x) zero = zero := by
  have h3 := hwf.2.2
  rw [applyMask_eq_tab] at h3
  have := tab_getD a.gm.mask.h a.gm.mask.w
    (fun y x => if a.gm.mask.get y x then zero else a.native.getD (y * a.gm.mask.w + x) zero) zero y x hy hx
  rw [h3] at this
  rw [this]; simp [hm]

/-! ### one-axis arithmetic of the centred window -/

/-- enlarging `n → n'` then shrinking back: the shrink's source index of `i` lies in the enlarged
    frame and the enlargement's source index of that position is `i` again (every parity). -/
theorem axis_there_and_back (n n' i : Nat) (hn : n ≤ n') (hi : i < n) :
    0 ≤ Spec.srcIndex (n' / 2) n i ∧ Spec.srcIndex (n' / 2) n i < (n' : Int)
      ∧ 0 ≤ Spec.srcIndex (n / 2) n' (Spec.srcIndex (n' / 2) n i).toNat
      ∧ Spec.srcIndex (n / 2) n' (Spec.srcIndex (n' / 2) n i).toNat < (n : Int)
      ∧ (Spec.srcIndex (n / 2) n' (Spec.srcIndex (n' / 2) n i).toNat).toNat = i := by
  unfold Spec.srcIndex
  omega

/-- padding by `2c` on an axis: position `c + i` of the padded frame reads source index `i` -/
theorem axis_pad (n c i : Nat) :
    Spec.srcIndex (n / 2) (n + 2 * c) (c + i) = (i : Int) := by
  unfold Spec.srcIndex
  omega

/-- cropping by `2c` on an axis: position `i` of the cropped frame reads source index `c + i` -/
theorem axis_crop (n c i : Nat) :
    Spec.srcIndex ((n + 2 * c) / 2) n i = ((c + i : Nat) : Int) := by
  unfold Spec.srcIndex
  omega

/-! ### raw arrays: enlarge then shrink -/

theorem shrink_enlarge (a : List α) (h w h' w' : Nat) (pad pad' zero : α) (hh : h ≤ h') (hw : w ≤ w')
    (ha : a.length = h * w) :
    Impl.resizedArray2d (Impl.resizedArray2d a h w h' w' none pad zero) h' w' h w none pad' zero = a := by
  rw [resizedArray2d_eq, resizedArray2d_eq]
  conv => rhs; rw [eq_tab a h w zero ha]
  apply tab_congr
  intro y x hy hx
  obtain ⟨y1, y2, y3, y4, y5⟩ := axis_there_and_back h h' y hh hy
  obtain ⟨x1, x2, x3, x4, x5⟩ := axis_there_and_back w w' x hw hx
  unfold Spec.resizedAt
  simp only [y1, y2, x1, x2, and_self, if_true]
  rw [tab_getD _ _ _ _ _ _ (by omega) (by omega)]
  simp only [y3, y4, x3, x4, and_self, if_true, y5, x5]

/-! ### Mask2D.resized_from -/

theorem maskResized_get (gm : GMask α) (h' w' : Nat) (pad : Bool) (r c : Nat) (hr : r < h') (hc : c < w') :
    (Impl.maskResizedFrom gm h' w' pad).mask.get r c
      = Spec.resizedAt gm.mask.bits gm.mask.h gm.mask.w h' w' (gm.mask.h / 2) (gm.mask.w / 2) pad false r c := by
  unfold Impl.maskResizedFrom Mask.get
  simp only
  rw [resizedArray2d_eq, tab_getD _ _ _ _ _ _ hr hc]

theorem maskResized_WF (gm : GMask α) (h' w' : Nat) (pad : Bool) :
    (Impl.maskResizedFrom gm h' w' pad).mask.WF := by
  unfold Impl.maskResizedFrom Mask.WF
  simp only
  rw [resizedArray2d_eq, tab_length]

/-- source bit read by `resizedAt` on the mask bits = `Mask.get` of the source mask (in range) -/
theorem bits_getD_eq_get (m : Mask) (hwf : m.WF) (y x : Nat) (hy : y < m.h) (hx : x < m.w) :
    m.bits.getD (y * m.w + x) false = m.get y x := by
  unfold Mask.get
  exact getD_irrel _ _ _ _ (by rw [hwf]; exact flat_lt' hy hx)

/-! ### Array2D.resized_from -/

theorem arrayResized_native_getD (a : Arr α) (h' w' : Nat) (maskPad : Bool) (zero : α) (r c : Nat)
    (hr : r < h') (hc : c < w') :
    (Impl.arrayResizedFrom a h' w' maskPad zero).native.getD (r * w' + c) zero
      = if (Impl.maskResizedFrom a.gm h' w' maskPad).mask.get r c then zero
        else Spec.resizedAt a.native a.gm.mask.h a.gm.mask.w h' w' (a.gm.mask.h / 2) (a.gm.mask.w / 2)
          zero zero r c := by
  unfold Impl.arrayResizedFrom
  simp only
  rw [applyMask_eq_tab]
  have hh : (Impl.maskResizedFrom a.gm h' w' maskPad).mask.h = h' := rfl
  have hw : (Impl.maskResizedFrom a.gm h' w' maskPad).mask.w = w' := rfl
  rw [hh, hw, tab_getD _ _ _ _ _ _ hr hc, resizedArray2d_eq, tab_getD _ _ _ _ _ _ hr hc]

theorem arrayResized_WF (a : Arr α) (h' w' : Nat) (maskPad : Bool) (zero : α) :
    (Impl.arrayResizedFrom a h' w' maskPad zero).WF zero := by
  refine ⟨maskResized_WF a.gm h' w' maskPad, ?_, ?_⟩
  · unfold Impl.arrayResizedFrom; simp only; rw [applyMask_length]
  · unfold Impl.arrayResizedFrom
    simp only
    generalize (Impl.maskResizedFrom a.gm h' w' maskPad).mask = m
    generalize Impl.resizedArray2d a.native a.gm.mask.h a.gm.mask.w h' w' none zero zero = v
    rw [applyMask_eq_tab m (Impl.applyMask m v zero), applyMask_eq_tab m v]
    apply tab_congr
    intro y x hy hx
    rw [tab_getD _ _ _ _ _ _ hy hx]
    split <;> simp_all

/-! ### pad then trim -/

/-- resizing the mask up by `(2cy, 2cx)` and back down restores the `GMask` -/
theorem maskResized_there_and_back (gm : GMask α) (hwf : gm.mask.WF) (h' w' : Nat) (pad pad' : Bool)
    (hh : gm.mask.h ≤ h') (hw : gm.mask.w ≤ w') :
    Impl.maskResizedFrom (Impl.maskResizedFrom gm h' w' pad) gm.mask.h gm.mask.w pad' = gm := by
  obtain ⟨⟨h, w, bits⟩, geom⟩ := gm
  unfold Impl.maskResizedFrom
  simp only
  unfold Mask.WF at hwf
  simp only at hwf hh hw
  rw [shrink_enlarge bits h w h' w' pad pad' false hh hw hwf]

/-- the padded array read at the shifted position gives back the original native value -/
theorem padded_native_at (a : Arr α) (zero : α) (hwf : a.WF zero) (cy cx : Nat) (maskPad : Bool)
    (y x : Nat) (hy : y < a.gm.mask.h) (hx : x < a.gm.mask.w) :
    (Impl.arrayResizedFrom a (a.gm.mask.h + 2 * cy) (a.gm.mask.w + 2 * cx) maskPad zero).native.getD
        ((cy + y) * (a.gm.mask.w + 2 * cx) + (cx + x)) zero
      = a.native.getD (y * a.gm.mask.w + x) zero := by
  rw [arrayResized_native_getD a _ _ maskPad zero (cy + y) (cx + x) (by omega) (by omega),
    maskResized_get a.gm _ _ maskPad (cy + y) (cx + x) (by omega) (by omega)]
  unfold Spec.resizedAt
  simp only [axis_pad]
  have hin : 0 ≤ (y : Int) ∧ (y : Int) < (a.gm.mask.h : Int) ∧ 0 ≤ (x : Int) ∧ (x : Int) < (a.gm.mask.w : Int) := by
    omega
  simp only [hin, and_self, if_true, Int.toNat_natCast]
  rw [bits_getD_eq_get a.gm.mask hwf.1 y x hy hx]
  by_cases hm : a.gm.mask.get y x = true
  · simp only [hm, if_true]
    exact (Arr.WF.zero_at_masked hwf y x hy hx hm).symm
  · simp only [hm]
    rfl

/-- the padded mask read at the shifted position gives back the original mask bit -/
theorem padded_mask_at (a : Arr α) (zero : α) (hwf : a.WF zero) (cy cx : Nat) (maskPad : Bool)
    (y x : Nat) (hy : y < a.gm.mask.h) (hx : x < a.gm.mask.w) :
    (Impl.maskResizedFrom a.gm (a.gm.mask.h + 2 * cy) (a.gm.mask.w + 2 * cx) maskPad).mask.get
        (cy + y) (cx + x) = a.gm.mask.get y x := by
  rw [maskResized_get a.gm _ _ maskPad (cy + y) (cx + x) (by omega) (by omega)]
  unfold Spec.resizedAt
  simp only [axis_pad]
  have hin : 0 ≤ (y : Int) ∧ (y : Int) < (a.gm.mask.h : Int) ∧ 0 ≤ (x : Int) ∧ (x : Int) < (a.gm.mask.w : Int) := by
    omega
  simp only [hin, and_self, if_true, Int.toNat_natCast]
  exact bits_getD_eq_get a.gm.mask hwf.1 y x hy hx

/-- outside the embedded frame the padded mask holds the pad value -/
theorem padded_mask_outside (a : Arr α) (cy cx : Nat) (maskPad : Bool) (r c : Nat)
    (hr : r < a.gm.mask.h + 2 * cy) (hc : c < a.gm.mask.w + 2 * cx)
    (hout : ¬(cy ≤ r ∧ r < cy + a.gm.mask.h ∧ cx ≤ c ∧ c < cx + a.gm.mask.w)) :
    (Impl.maskResizedFrom a.gm (a.gm.mask.h + 2 * cy) (a.gm.mask.w + 2 * cx) maskPad).mask.get r c
      = maskPad := by
  rw [maskResized_get a.gm _ _ maskPad r c hr hc]
  unfold Spec.resizedAt Spec.srcIndex
  have : ¬(0 ≤ ((a.gm.mask.h / 2 : Nat) : Int) - (((a.gm.mask.h + 2 * cy) / 2 : Nat) : Int) + (r : Int)
      ∧ ((a.gm.mask.h / 2 : Nat) : Int) - (((a.gm.mask.h + 2 * cy) / 2 : Nat) : Int) + (r : Int) < (a.gm.mask.h : Int)
      ∧ 0 ≤ ((a.gm.mask.w / 2 : Nat) : Int) - (((a.gm.mask.w + 2 * cx) / 2 : Nat) : Int) + (c : Int)
      ∧ ((a.gm.mask.w / 2 : Nat) : Int) - (((a.gm.mask.w + 2 * cx) / 2 : Nat) : Int) + (c : Int) < (a.gm.mask.w : Int)) := by
    omega
  simp only [this, if_false]

theorem trim_pad_core (a : Arr α) (zero : α) (hwf : a.WF zero) (cy cx : Nat) (maskPad : Bool) :
    let P := Impl.arrayResizedFrom a (a.gm.mask.h + 2 * cy) (a.gm.mask.w + 2 * cx) maskPad zero
    let gm' := Impl.maskResizedFrom P.gm a.gm.mask.h a.gm.mask.w false
    (⟨gm', Impl.applyMask gm'.mask
        (Impl.sliceNative P.native (a.gm.mask.w + 2 * cx) cy (a.gm.mask.h + cy) cx (a.gm.mask.w + cx) zero)
        zero, P.storeNative⟩ : Arr α) = a := by
  intro P gm'
  have hgm : gm' = a.gm :=
    maskResized_there_and_back a.gm hwf.1 _ _ maskPad false (by omega) (by omega)
  have hnat : Impl.applyMask gm'.mask
      (Impl.sliceNative P.native (a.gm.mask.w + 2 * cx) cy (a.gm.mask.h + cy) cx (a.gm.mask.w + cx) zero)
      zero = a.native := by
    rw [hgm]
    conv => rhs; rw [← hwf.2.2]
    rw [applyMask_eq_tab, applyMask_eq_tab]
    apply tab_congr
    intro y x hy hx
    rw [sliceNative_eq_tab]
    have e1 : a.gm.mask.h + cy - cy = a.gm.mask.h := by omega
    have e2 : a.gm.mask.w + cx - cx = a.gm.mask.w := by omega
    rw [e1, e2, tab_getD _ _ _ _ _ _ hy hx, padded_native_at a zero hwf cy cx maskPad y x hy hx]
  rw [hnat, hgm]
  cases a
  rfl

theorem trim_pad (a : Arr α) (kh kw : Nat) (maskPad : Bool) (zero : α) (hkh : kh % 2 = 1)
    (hkw : kw % 2 = 1) (hwf : a.WF zero) (hh : 0 < a.gm.mask.h) (hw : 0 < a.gm.mask.w) :
    Impl.trimmedAfterConvolution (Impl.paddedBeforeConvolution a kh kw maskPad zero) kh kw zero
      = some a := by
  obtain ⟨cy, rfl⟩ : ∃ cy, kh = 2 * cy + 1 := ⟨kh / 2, by omega⟩
  obtain ⟨cx, rfl⟩ : ∃ cx, kw = 2 * cx + 1 := ⟨kw / 2, by omega⟩
  have e1 : (2 * cy + 1 + 1) / 2 - 1 = cy := by omega
  have e2 : (2 * cx + 1 + 1) / 2 - 1 = cx := by omega
  have e3 : 2 * cy + 1 - 1 = 2 * cy := by omega
  have e4 : 2 * cx + 1 - 1 = 2 * cx := by omega
  unfold Impl.trimmedAfterConvolution Impl.paddedBeforeConvolution
  simp only [e1, e2, e3, e4]
  have hP1 : (Impl.arrayResizedFrom a (a.gm.mask.h + 2 * cy) (a.gm.mask.w + 2 * cx) maskPad zero).gm.mask.h
      = a.gm.mask.h + 2 * cy := rfl
  have hP2 : (Impl.arrayResizedFrom a (a.gm.mask.h + 2 * cy) (a.gm.mask.w + 2 * cx) maskPad zero).gm.mask.w
      = a.gm.mask.w + 2 * cx := rfl
  simp only [hP1, hP2]
  have hc : ¬(a.gm.mask.h + 2 * cy ≤ 2 * cy ∨ a.gm.mask.w + 2 * cx ≤ 2 * cx) := by omega
  simp only [hc, if_false]
  have e5 : a.gm.mask.h + 2 * cy - 2 * cy = a.gm.mask.h := by omega
  have e6 : a.gm.mask.w + 2 * cx - 2 * cx = a.gm.mask.w := by omega
  have e7 : a.gm.mask.h + 2 * cy - cy = a.gm.mask.h + cy := by omega
  have e8 : a.gm.mask.w + 2 * cx - cx = a.gm.mask.w + cx := by omega
  simp only [e5, e6, e7, e8]
  exact congrArg some (trim_pad_core a zero hwf cy cx maskPad)

/-! ### Array2D: enlarge then shrink, constructor invariant, trimmed_array_from -/

theorem applyMask_idem (m : Mask) (v : List α) (zero : α) :
    Impl.applyMask m (Impl.applyMask m v zero) zero = Impl.applyMask m v zero := by
  rw [applyMask_eq_tab m (Impl.applyMask m v zero), applyMask_eq_tab m v]
  apply tab_congr
  intro y x hy hx
  rw [tab_getD _ _ _ _ _ _ hy hx]
  split <;> simp_all

theorem arrayWithMask_WF (native : List α) (gm : GMask α) (zero : α) (hwf : gm.mask.WF) :
    (Impl.arrayWithMask native gm zero).WF zero :=
  ⟨hwf, applyMask_length _ _ _, applyMask_idem _ _ _⟩

theorem arrayResized_there_and_back (a : Arr α) (zero : α) (hwf : a.WF zero) (h' w' : Nat)
    (hh : a.gm.mask.h ≤ h') (hw : a.gm.mask.w ≤ w') (mp mp' : Bool) :
    Impl.arrayResizedFrom (Impl.arrayResizedFrom a h' w' mp zero) a.gm.mask.h a.gm.mask.w mp' zero
      = a := by
  have hgm : Impl.maskResizedFrom (Impl.arrayResizedFrom a h' w' mp zero).gm a.gm.mask.h a.gm.mask.w mp'
      = a.gm := maskResized_there_and_back a.gm hwf.1 h' w' mp mp' hh hw
  have hnat : Impl.applyMask a.gm.mask
      (Impl.resizedArray2d (Impl.arrayResizedFrom a h' w' mp zero).native h' w' a.gm.mask.h a.gm.mask.w
        none zero zero) zero = a.native := by
    conv => rhs; rw [← hwf.2.2]
    rw [applyMask_eq_tab, applyMask_eq_tab]
    apply tab_congr
    intro y x hy hx
    by_cases hm : a.gm.mask.get y x = true
    · simp only [hm, if_true]
    · simp only [hm]
      rw [resizedArray2d_eq, tab_getD _ _ _ _ _ _ hy hx]
      obtain ⟨y1, y2, y3, y4, y5⟩ := axis_there_and_back a.gm.mask.h h' y hh hy
      obtain ⟨x1, x2, x3, x4, x5⟩ := axis_there_and_back a.gm.mask.w w' x hw hx
      unfold Spec.resizedAt
      simp only [y1, y2, x1, x2, and_self, if_true]
      rw [arrayResized_native_getD a h' w' mp zero _ _ (by omega) (by omega),
        maskResized_get a.gm h' w' mp _ _ (by omega) (by omega)]
      unfold Spec.resizedAt
      simp only [y3, y4, x3, x4, and_self, if_true, y5, x5]
      rw [bits_getD_eq_get a.gm.mask hwf.1 y x hy hx]
      simp only [hm]
      rfl
  unfold Impl.arrayResizedFrom at hgm ⊢
  simp only at hgm ⊢
  rw [hgm]
  refine (congrArg (fun n => (⟨a.gm, n, a.storeNative⟩ : Arr α)) hnat).trans ?_
  cases a
  rfl

/-- `Mask2D.trimmed_array_from` applied to an array padded by `(2cy, 2cx)` returns the original -/
theorem trimmedArrayFrom_padded (a : Arr α) (zero : α) (hwf : a.WF zero) (cy cx : Nat) (maskPad : Bool) :
    Impl.trimmedArrayFrom
        (Impl.arrayResizedFrom a (a.gm.mask.h + 2 * cy) (a.gm.mask.w + 2 * cx) maskPad zero).native
        (a.gm.mask.h + 2 * cy) (a.gm.mask.w + 2 * cx) a.gm.mask.h a.gm.mask.w zero
      = some (a.gm.mask.h, a.gm.mask.w, a.native) := by
  unfold Impl.trimmedArrayFrom
  have hc : ¬(a.gm.mask.h + 2 * cy < a.gm.mask.h ∨ a.gm.mask.w + 2 * cx < a.gm.mask.w) := by omega
  simp only [hc, if_false]
  have e1 : (a.gm.mask.h + 2 * cy - a.gm.mask.h) / 2 = cy := by omega
  have e2 : (a.gm.mask.w + 2 * cx - a.gm.mask.w) / 2 = cx := by omega
  simp only [e1, e2]
  have e3 : a.gm.mask.h + 2 * cy - cy - cy = a.gm.mask.h := by omega
  have e4 : a.gm.mask.w + 2 * cx - cx - cx = a.gm.mask.w := by omega
  rw [e3, e4, sliceNative_eq_tab]
  have e5 : a.gm.mask.h + 2 * cy - cy - cy = a.gm.mask.h := by omega
  have e6 : a.gm.mask.w + 2 * cx - cx - cx = a.gm.mask.w := by omega
  rw [e5, e6]
  congr 3
  conv => rhs; rw [eq_tab a.native a.gm.mask.h a.gm.mask.w zero hwf.2.1]
  apply tab_congr
  intro y x hy hx
  exact padded_native_at a zero hwf cy cx maskPad y x hy hx

/-! ### trimming alone: values (sliced) and mask (centre-resized) use the same offset -/

theorem trimmed_at (a : Arr α) (zero : α) (hwf : a.WF zero) (cy cx : Nat)
    (hh : 2 * cy < a.gm.mask.h) (hw : 2 * cx < a.gm.mask.w) :
    ∃ t, Impl.trimmedAfterConvolution a (2 * cy + 1) (2 * cx + 1) zero = some t
      ∧ t.gm.geom = a.gm.geom ∧ t.gm.mask.h = a.gm.mask.h - 2 * cy ∧ t.gm.mask.w = a.gm.mask.w - 2 * cx
      ∧ t.storeNative = a.storeNative ∧ t.WF zero
      ∧ ∀ r c, r < a.gm.mask.h - 2 * cy → c < a.gm.mask.w - 2 * cx →
          t.gm.mask.get r c = a.gm.mask.get (cy + r) (cx + c)
          ∧ t.native.getD (r * (a.gm.mask.w - 2 * cx) + c) zero
              = a.native.getD ((cy + r) * a.gm.mask.w + (cx + c)) zero := by
  have e1 : (2 * cy + 1 + 1) / 2 - 1 = cy := by omega
  have e2 : (2 * cx + 1 + 1) / 2 - 1 = cx := by omega
  have hc : ¬(a.gm.mask.h ≤ 2 * cy ∨ a.gm.mask.w ≤ 2 * cx) := by omega
  unfold Impl.trimmedAfterConvolution
  simp only [e1, e2, hc, if_false]
  refine ⟨_, rfl, rfl, rfl, rfl, rfl, ?_, ?_⟩
  · refine ⟨maskResized_WF _ _ _ _, ?_, applyMask_idem _ _ _⟩
    simp only
    rw [applyMask_length]
  · intro r c hr hc'
    have hmask : (Impl.maskResizedFrom a.gm (a.gm.mask.h - 2 * cy) (a.gm.mask.w - 2 * cx) false).mask.get r c
        = a.gm.mask.get (cy + r) (cx + c) := by
      rw [maskResized_get a.gm _ _ false r c hr hc']
      unfold Spec.resizedAt Spec.srcIndex
      have hin : 0 ≤ ((a.gm.mask.h / 2 : Nat) : Int) - (((a.gm.mask.h - 2 * cy) / 2 : Nat) : Int) + (r : Int)
          ∧ ((a.gm.mask.h / 2 : Nat) : Int) - (((a.gm.mask.h - 2 * cy) / 2 : Nat) : Int) + (r : Int) < (a.gm.mask.h : Int)
          ∧ 0 ≤ ((a.gm.mask.w / 2 : Nat) : Int) - (((a.gm.mask.w - 2 * cx) / 2 : Nat) : Int) + (c : Int)
          ∧ ((a.gm.mask.w / 2 : Nat) : Int) - (((a.gm.mask.w - 2 * cx) / 2 : Nat) : Int) + (c : Int) < (a.gm.mask.w : Int) := by
        omega
      simp only [hin, and_self, if_true]
      have e3 : (((a.gm.mask.h / 2 : Nat) : Int) - (((a.gm.mask.h - 2 * cy) / 2 : Nat) : Int) + (r : Int)).toNat
          = cy + r := by omega
      have e4 : (((a.gm.mask.w / 2 : Nat) : Int) - (((a.gm.mask.w - 2 * cx) / 2 : Nat) : Int) + (c : Int)).toNat
          = cx + c := by omega
      rw [e3, e4]
      exact bits_getD_eq_get a.gm.mask hwf.1 _ _ (by omega) (by omega)
    refine ⟨hmask, ?_⟩
    simp only
    rw [applyMask_eq_tab]
    have hh' : (Impl.maskResizedFrom a.gm (a.gm.mask.h - 2 * cy) (a.gm.mask.w - 2 * cx) false).mask.h
        = a.gm.mask.h - 2 * cy := rfl
    have hw' : (Impl.maskResizedFrom a.gm (a.gm.mask.h - 2 * cy) (a.gm.mask.w - 2 * cx) false).mask.w
        = a.gm.mask.w - 2 * cx := rfl
    rw [hh', hw', tab_getD _ _ _ _ _ _ hr hc', hmask, sliceNative_eq_tab]
    have e5 : a.gm.mask.h - cy - cy = a.gm.mask.h - 2 * cy := by omega
    have e6 : a.gm.mask.w - cx - cx = a.gm.mask.w - 2 * cx := by omega
    rw [e5, e6, tab_getD _ _ _ _ _ _ hr hc']
    by_cases hm : a.gm.mask.get (cy + r) (cx + c) = true
    · simp only [hm, if_true]
      exact (Arr.WF.zero_at_masked hwf (cy + r) (cx + c) (by omega) (by omega) hm).symm
    · simp only [hm]
      rfl

end Model
