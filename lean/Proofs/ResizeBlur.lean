/-
Proofs/ResizeBlur.lean — when does `blurring_mask_2d_from` raise?  (core Lean only)
-/
import Model.Resize
import Proofs.Core

namespace Model

open Impl

/-- a loop that clears a flag whenever a test fails = the conjunction of all tests -/
theorem foldl_flag (l : List γ) (g : γ → Bool) (init : Bool) :
    l.foldl (fun ok p => if g p then ok else false) init = (init && l.all g) := by
  induction l generalizing init with
  | nil => simp
  | cons a l ih =>
    simp only [List.foldl_cons, List.all_cons]
    rw [ih]
    cases g a <;> cases init <;> simp

theorem all_pixels_iff (h w : Nat) (g : Nat × Nat → Bool) :
    (pixels h w).all g = true ↔ ∀ y x, y < h → x < w → g (y, x) = true := by
  rw [List.all_eq_true]
  constructor
  · intro hall y x hy hx
    exact hall (y, x) (mem_pixels.mpr ⟨hy, hx⟩)
  · intro hall p hp
    exact hall p.1 p.2 (mem_pixels.mp hp).1 (mem_pixels.mp hp).2

/-- `blurring_from` succeeds for an odd kernel `(2cy+1)×(2cx+1)` iff the kernel footprint of every
    unmasked pixel stays inside the frame -/
theorem blurringFits_iff (m : Mask) (cy cx : Nat) :
    Impl.blurringFits m (2 * cy + 1) (2 * cx + 1) = true
      ↔ ∀ y x, y < m.h → x < m.w → m.get y x = false →
          cy ≤ y ∧ y + cy < m.h ∧ cx ≤ x ∧ x + cx < m.w := by
  unfold Impl.blurringFits
  have hodd : ((2 * cy + 1) % 2 == 0 || (2 * cx + 1) % 2 == 0) = false := by
    have h1 : (2 * cy + 1) % 2 = 1 := by omega
    have h2 : (2 * cx + 1) % 2 = 1 := by omega
    simp [h1, h2]
  simp only [hodd, Bool.false_eq_true, if_false]
  have ey : ((((2 * cy + 1 : Nat) : Int) + 1) / 2 - (-((2 * cy + 1 : Nat) : Int) + 1) / 2).toNat = 2 * cy + 1 := by
    omega
  have ex : ((((2 * cx + 1 : Nat) : Int) + 1) / 2 - (-((2 * cx + 1 : Nat) : Int) + 1) / 2).toNat = 2 * cx + 1 := by
    omega
  have eylo : (-((2 * cy + 1 : Nat) : Int) + 1) / 2 = -(cy : Int) := by omega
  have exlo : (-((2 * cx + 1 : Nat) : Int) + 1) / 2 = -(cx : Int) := by omega
  rw [ey, ex]
  simp only [eylo, exlo]
  -- inner loop = conjunction over the footprint
  have hinner : ∀ (ok : Bool) (y x : Nat),
      forYX (2 * cy + 1) (2 * cx + 1)
        (fun ok dy dx =>
          if 0 ≤ (x : Int) + (-(cx : Int) + (dx : Int)) ∧ (x : Int) + (-(cx : Int) + (dx : Int)) ≤ (m.w : Int) - 1
              ∧ 0 ≤ (y : Int) + (-(cy : Int) + (dy : Int)) ∧ (y : Int) + (-(cy : Int) + (dy : Int)) ≤ (m.h : Int) - 1
          then ok else false) ok
      = (ok && decide (cy ≤ y ∧ y + cy < m.h ∧ cx ≤ x ∧ x + cx < m.w)) := by
    intro ok y x
    rw [forYX_eq_foldl]
    have := foldl_flag (pixels (2 * cy + 1) (2 * cx + 1))
      (fun p => decide (0 ≤ (x : Int) + (-(cx : Int) + (p.2 : Int)) ∧ (x : Int) + (-(cx : Int) + (p.2 : Int)) ≤ (m.w : Int) - 1
        ∧ 0 ≤ (y : Int) + (-(cy : Int) + (p.1 : Int)) ∧ (y : Int) + (-(cy : Int) + (p.1 : Int)) ≤ (m.h : Int) - 1)) ok
    simp only [decide_eq_true_eq] at this
    rw [this]
    congr 1
    rw [Bool.eq_iff_iff, all_pixels_iff]
    simp only [decide_eq_true_eq]
    constructor
    · intro hall
      have h0 := hall 0 0 (by omega) (by omega)
      have h1 := hall (2 * cy) (2 * cx) (by omega) (by omega)
      omega
    · intro hc dy dx hdy hdx
      omega
  simp only [hinner]
  rw [forYX_eq_foldl]
  have hstep : (fun (acc : Bool) (p : Nat × Nat) =>
        if (!m.get p.1 p.2) = true then
          (acc && decide (cy ≤ p.1 ∧ p.1 + cy < m.h ∧ cx ≤ p.2 ∧ p.2 + cx < m.w))
        else acc)
      = (fun acc p => if (m.get p.1 p.2 || decide (cy ≤ p.1 ∧ p.1 + cy < m.h ∧ cx ≤ p.2 ∧ p.2 + cx < m.w))
          then acc else false) := by
    funext acc p
    cases m.get p.1 p.2 <;> cases acc <;> simp
  rw [hstep, foldl_flag, Bool.true_and, all_pixels_iff]
  constructor
  · intro hall y x hy hx hm
    have := hall y x hy hx
    simpa [hm] using this
  · intro hall y x hy hx
    cases hm : m.get y x
    · simpa using hall y x hy hx hm
    · simp

end Model
