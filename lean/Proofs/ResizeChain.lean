/-
Proofs/ResizeChain.lean — successive `Imaging.apply_mask` calls always read the retained unmasked
dataset (core Lean only).
-/
import Model.Resize
import Proofs.ResizeArr
import Proofs.ResizeBlur

namespace Model

open Impl

/-- `is_all_false` ⇒ every in-frame pixel is unmasked -/
theorem isAllFalse_get (m : Mask) (hall : Impl.isAllFalse m = true) (y x : Nat) (hy : y < m.h)
    (hx : x < m.w) : m.get y x = false := by
  unfold Impl.isAllFalse at hall
  rw [totalPixels_eq] at hall
  have hlen : (Spec.unmaskedPixels m).length = (pixels m.h m.w).length := by
    rw [pixels_length]; simpa using hall
  unfold Spec.unmaskedPixels at hlen
  have := List.length_filter_eq_length_iff.mp hlen (y, x) (mem_pixels.mpr ⟨hy, hx⟩)
  simpa using this

/-- on an all-unmasked mask the constructor leaves native values unchanged -/
theorem applyMask_of_allFalse (m : Mask) (a : List α) (zero : α) (hall : Impl.isAllFalse m = true)
    (ha : a.length = m.h * m.w) : Impl.applyMask m a zero = a := by
  rw [applyMask_eq_tab]
  conv => rhs; rw [eq_tab a m.h m.w zero ha]
  apply tab_congr
  intro y x hy hx
  simp [isAllFalse_get m hall y x hy hx]

/-- a mask padded with masked pixels (by a non-trivial amount) is not all-unmasked -/
theorem padded_not_allFalse (gm : GMask α) (cy cx : Nat) (hc : ¬(cy = 0 ∧ cx = 0)) (hh : 1 ≤ gm.mask.h)
    (hw : 1 ≤ gm.mask.w) :
    Impl.isAllFalse (Impl.maskResizedFrom gm (gm.mask.h + 2 * cy) (gm.mask.w + 2 * cx) true).mask = false := by
  cases hall : Impl.isAllFalse (Impl.maskResizedFrom gm (gm.mask.h + 2 * cy) (gm.mask.w + 2 * cx) true).mask
  · rfl
  · exfalso
    have h0 := isAllFalse_get _ hall 0 0 (by show 0 < gm.mask.h + 2 * cy; omega)
      (by show 0 < gm.mask.w + 2 * cx; omega)
    have h1 := padded_mask_outside (⟨gm, [], false⟩ : Arr α) cy cx true 0 0 (by simp only; omega)
      (by simp only; omega) (by simp only; omega)
    simp only at h1
    rw [h0] at h1
    cases h1

/-- where `apply_mask` takes its values from -/
def effSrc (s : ImagingState α) : Option (Arr α × Arr α) :=
  if Impl.isAllFalse s.data.gm.mask then some (s.data, s.noise) else s.unmasked

/-- invariant of every dataset derived from the original `(d0, n0)` of shape `h×w` by `apply_mask` calls -/
def ChainInv (d0 n0 : List α) (h w : Nat) (s : ImagingState α) : Prop :=
  ∃ u, effSrc s = some u ∧ u.1.native = d0 ∧ u.2.native = n0 ∧ u.1.gm.mask.h = h ∧ u.1.gm.mask.w = w

theorem imagingInit_inv (d0 n0 : List α) (h w : Nat) (g : Geom α) :
    ChainInv d0 n0 h w (Impl.imagingInit d0 n0 h w g) := by
  refine ⟨(⟨⟨⟨h, w, List.replicate (h * w) false⟩, g⟩, d0, false⟩,
    ⟨⟨⟨h, w, List.replicate (h * w) false⟩, g⟩, n0, false⟩), ?_, rfl, rfl, rfl, rfl⟩
  unfold effSrc Impl.imagingInit
  have hall : Impl.isAllFalse ⟨h, w, List.replicate (h * w) false⟩ = true := by
    unfold Impl.isAllFalse
    rw [totalPixels_eq]
    have : (Spec.unmaskedPixels ⟨h, w, List.replicate (h * w) false⟩).length = (pixels h w).length := by
      unfold Spec.unmaskedPixels
      apply List.length_filter_eq_length_iff.mpr
      intro p hp
      have hk := flat_lt hp
      simp only [Mask.get, flat] at hk ⊢
      simp [List.getD_eq_getElem?_getD, hk]
    rw [this, pixels_length]
    simp
  simp only [hall, if_true]

theorem step_spec (d0 n0 : List α) (h w : Nat) (s : ImagingState α) (gm : GMask α) (cy cx : Nat)
    (zero : α) (hinv : ChainInv d0 n0 h w s) (hgh : gm.mask.h = h) (hgw : gm.mask.w = w)
    (hd : d0.length = h * w) (hn : n0.length = h * w) (hh : 1 ≤ h) (hw : 1 ≤ w) :
    ∃ s', Impl.imagingApplyMaskStep s gm (2 * cy + 1) (2 * cx + 1) zero = some s'
      ∧ s'.data = (Impl.imagingApplyMask d0 n0 gm (2 * cy + 1) (2 * cx + 1) zero).1
      ∧ s'.noise = (Impl.imagingApplyMask d0 n0 gm (2 * cy + 1) (2 * cx + 1) zero).2
      ∧ ChainInv d0 n0 h w s' := by
  obtain ⟨u, hu, hu1, hu2, hu3, hu4⟩ := hinv
  unfold effSrc at hu
  unfold Impl.imagingApplyMaskStep
  simp only [hu]
  have hshape : ¬(u.1.gm.mask.h ≠ gm.mask.h ∨ u.1.gm.mask.w ≠ gm.mask.w) := by omega
  simp only [hshape, if_false, hu1, hu2]
  refine ⟨_, rfl, rfl, rfl, ?_⟩
  -- invariant of the new state
  unfold ChainInv effSrc
  simp only
  by_cases hall : Impl.isAllFalse (Impl.imagingApplyMask d0 n0 gm (2 * cy + 1) (2 * cx + 1) zero).1.gm.mask = true
  · simp only [hall, if_true]
    -- an all-unmasked result cannot have been padded, and its mask is `gm.mask`
    unfold Impl.imagingApplyMask at hall ⊢
    by_cases hfit : Impl.blurringFits gm.mask (2 * cy + 1) (2 * cx + 1) = true
    · simp only [hfit, if_true] at hall ⊢
      have hallg : Impl.isAllFalse gm.mask = true := hall
      refine ⟨_, rfl, ?_, ?_, hgh, hgw⟩
      · exact applyMask_of_allFalse gm.mask d0 zero hallg (by rw [hd, hgh, hgw])
      · exact applyMask_of_allFalse gm.mask n0 zero hallg (by rw [hn, hgh, hgw])
    · exfalso
      simp only [hfit] at hall
      have hne : ¬(cy = 0 ∧ cx = 0) := by
        rintro ⟨rfl, rfl⟩
        apply hfit
        apply (blurringFits_iff gm.mask 0 0).mpr
        intro y x hy hx _
        omega
      have := padded_not_allFalse gm cy cx hne (by omega) (by omega)
      have hall' : Impl.isAllFalse
          (Impl.maskResizedFrom gm (gm.mask.h + 2 * cy) (gm.mask.w + 2 * cx) true).mask = true := by
        have e1 : 2 * cy + 1 - 1 = 2 * cy := by omega
        have e2 : 2 * cx + 1 - 1 = 2 * cx := by omega
        simpa [Impl.paddedBeforeConvolution, Impl.arrayResizedFrom, Impl.arrayWithMask, e1, e2] using hall
      rw [this] at hall'
      cases hall'
  · simp only [hall]
    exact ⟨u, rfl, hu1, hu2, hu3, hu4⟩

theorem chain_inv (d0 n0 : List α) (h w : Nat) (gms : List (GMask α)) (cy cx : Nat) (zero : α)
    (hg : ∀ gm ∈ gms, gm.mask.h = h ∧ gm.mask.w = w)
    (hd : d0.length = h * w) (hn : n0.length = h * w) (hh : 1 ≤ h) (hw : 1 ≤ w)
    (s : ImagingState α) (hinv : ChainInv d0 n0 h w s) :
    ∃ s', Impl.imagingApplyMasks s gms (2 * cy + 1) (2 * cx + 1) zero = some s' ∧ ChainInv d0 n0 h w s' := by
  unfold Impl.imagingApplyMasks
  induction gms generalizing s with
  | nil => exact ⟨s, rfl, hinv⟩
  | cons gm gms ih =>
    simp only [List.foldl_cons, Option.bind_some]
    obtain ⟨s1, h1, _, _, hinv1⟩ := step_spec d0 n0 h w s gm cy cx zero hinv
      (hg gm List.mem_cons_self).1 (hg gm List.mem_cons_self).2 hd hn hh hw
    rw [h1]
    exact ih (fun g hgm => hg g (List.mem_cons_of_mem _ hgm)) s1 hinv1

theorem foldl_bind_append_one (f : β → γ → Option β) (l : List γ) (g : γ) (init : Option β) :
    (l ++ [g]).foldl (fun acc x => acc.bind fun st => f st x) init
      = (l.foldl (fun acc x => acc.bind fun st => f st x) init).bind fun st => f st g := by
  rw [List.foldl_append]; rfl

end Model
