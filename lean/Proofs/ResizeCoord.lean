/-
Proofs/ResizeCoord.lean — pixel-centre coordinates under parity-preserving resizes (field algebra).
-/
import Model.Resize
import Proofs.ResizePad
import Mathlib.Tactic.Ring
import Mathlib.Tactic.FieldSimp
import Mathlib.Tactic.Linarith
import Mathlib.Algebra.CharZero.Defs

namespace Model

open Impl

variable {α : Type} [Field α] [CharZero α]

/-- the code's `-(i - ((H-1)/2 + o_y/s_y))·s_y` is `o_y + ((H−1)/2 − i)·s_y` -/
theorem pixelCentreY_eq (h : Nat) (oy sy : α) (i : Nat) (hsy : sy ≠ 0) :
    Impl.pixelCentreY h oy sy i = Spec.centreY h oy sy i := by
  unfold Impl.pixelCentreY Spec.centreY
  field_simp
  ring

/-- the code's `(j - ((W-1)/2 - o_x/s_x))·s_x` is `o_x + (j − (W−1)/2)·s_x` -/
theorem pixelCentreX_eq (w : Nat) (ox sx : α) (j : Nat) (hsx : sx ≠ 0) :
    Impl.pixelCentreX w ox sx j = Spec.centreX w ox sx j := by
  unfold Impl.pixelCentreX Spec.centreX
  field_simp
  ring

theorem half_cast (n n' i i' : Nat) (h1 : 1 ≤ n) (h1' : 1 ≤ n') (hpar : n % 2 = n' % 2)
    (hidx : i' + n / 2 = i + n' / 2) :
    ((n' - 1 : Nat) : α) / ((2 : Nat) : α) - (i' : α) = ((n - 1 : Nat) : α) / ((2 : Nat) : α) - (i : α) := by
  have e1 : (n : α) = 2 * ((n / 2 : Nat) : α) + ((n % 2 : Nat) : α) := by
    exact_mod_cast (Nat.div_add_mod n 2).symm
  have e2 : (n' : α) = 2 * ((n' / 2 : Nat) : α) + ((n' % 2 : Nat) : α) := by
    exact_mod_cast (Nat.div_add_mod n' 2).symm
  have e3 : (i' : α) + ((n / 2 : Nat) : α) = (i : α) + ((n' / 2 : Nat) : α) := by
    exact_mod_cast hidx
  have e4 : ((n - 1 : Nat) : α) = (n : α) - 1 := by
    rw [Nat.cast_sub h1]; simp
  have e5 : ((n' - 1 : Nat) : α) = (n' : α) - 1 := by
    rw [Nat.cast_sub h1']; simp
  have e6 : ((n % 2 : Nat) : α) = ((n' % 2 : Nat) : α) := by rw [hpar]
  have h2 : ((2 : Nat) : α) = 2 := by norm_num
  rw [e4, e5, h2, e1, e2, e6]
  have : (i' : α) = (i : α) + ((n' / 2 : Nat) : α) - ((n / 2 : Nat) : α) := by
    rw [← e3]; ring
  rw [this]
  ring

/-- y: when the parity of the number of rows is preserved, the pixel that moves from row `i` of the
    old frame to row `i'` of the new frame (`i' + ⌊H/2⌋ = i + ⌊H'/2⌋`) keeps its y coordinate -/
theorem centreY_kept (h h' i i' : Nat) (oy sy : α) (h1 : 1 ≤ h) (h1' : 1 ≤ h') (hpar : h % 2 = h' % 2)
    (hidx : i' + h / 2 = i + h' / 2) :
    Spec.centreY h' oy sy i' = Spec.centreY h oy sy i := by
  unfold Spec.centreY
  rw [half_cast h h' i i' h1 h1' hpar hidx]

theorem centreX_kept (w w' j j' : Nat) (ox sx : α) (h1 : 1 ≤ w) (h1' : 1 ≤ w') (hpar : w % 2 = w' % 2)
    (hidx : j' + w / 2 = j + w' / 2) :
    Spec.centreX w' ox sx j' = Spec.centreX w ox sx j := by
  unfold Spec.centreX
  have := half_cast (α := α) w w' j j' h1 h1' hpar hidx
  have e : (j' : α) - ((w' - 1 : Nat) : α) / ((2 : Nat) : α) = (j : α) - ((w - 1 : Nat) : α) / ((2 : Nat) : α) := by
    rw [← neg_sub, this, neg_sub]
  rw [e]

/-- the grid of the padded mask equals the grid of the original mask (same points, same order) -/
theorem grid_padded (a : Arr β) (zero : β) (hwf : a.WF zero) (cy cx : Nat) (g : Geom α)
    (hsy : g.sy ≠ 0) (hsx : g.sx ≠ 0) (hh : 1 ≤ a.gm.mask.h) (hw : 1 ≤ a.gm.mask.w) :
    Impl.gridSlimViaMask
        (Impl.maskResizedFrom a.gm (a.gm.mask.h + 2 * cy) (a.gm.mask.w + 2 * cx) true).mask g
      = Impl.gridSlimViaMask a.gm.mask g := by
  rw [gridSlimViaMask_eq, gridSlimViaMask_eq, unmaskedPixels_padded a zero hwf cy cx, List.map_map]
  apply List.map_congr_left
  intro p _
  have hh' : (Impl.maskResizedFrom a.gm (a.gm.mask.h + 2 * cy) (a.gm.mask.w + 2 * cx) true).mask.h
      = a.gm.mask.h + 2 * cy := rfl
  have hw' : (Impl.maskResizedFrom a.gm (a.gm.mask.h + 2 * cy) (a.gm.mask.w + 2 * cx) true).mask.w
      = a.gm.mask.w + 2 * cx := rfl
  simp only [Function.comp, hh', hw']
  rw [pixelCentreY_eq _ _ _ _ hsy, pixelCentreY_eq _ _ _ _ hsy, pixelCentreX_eq _ _ _ _ hsx,
    pixelCentreX_eq _ _ _ _ hsx,
    centreY_kept a.gm.mask.h (a.gm.mask.h + 2 * cy) p.1 (cy + p.1) g.oy g.sy hh (by omega) (by omega)
      (by omega),
    centreX_kept a.gm.mask.w (a.gm.mask.w + 2 * cx) p.2 (cx + p.2) g.ox g.sx hw (by omega) (by omega)
      (by omega)]

end Model
