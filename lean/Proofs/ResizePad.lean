/-
Proofs/ResizePad.lean — the unmasked pixels of a mask padded with masked pixels are the unmasked
pixels of the original mask, shifted, in the same row-major order (core Lean only).
Used for the "(coordinate, data, noise) triples are unchanged by padding" clause of C14.
-/
import Model.Resize
import Proofs.ResizeArr

namespace Model

open Impl

/-! ### embedding a range in a longer range -/

theorem flatMap_congr' {l : List γ} {f g : γ → List β} (h : ∀ x ∈ l, f x = g x) :
    l.flatMap f = l.flatMap g := by
  induction l with
  | nil => rfl
  | cons a l ih =>
    simp only [List.flatMap_cons]
    rw [h a List.mem_cons_self, ih (fun x hx => h x (List.mem_cons_of_mem _ hx))]

theorem flatMap_eq_nil' {l : List γ} {f : γ → List β} (h : ∀ x ∈ l, f x = []) : l.flatMap f = [] :=
  List.flatMap_eq_nil_iff.mpr h

/-- a `flatMap` over `range (a+n+b)` whose body is empty outside `[a, a+n)` -/
theorem flatMap_range_embed (a n b : Nat) (F G : Nat → List β)
    (hout : ∀ i, i < a + n + b → ¬(a ≤ i ∧ i < a + n) → F i = [])
    (hin : ∀ j, j < n → F (a + j) = G j) :
    (List.range (a + n + b)).flatMap F = (List.range n).flatMap G := by
  rw [List.range_add, List.range_add, List.flatMap_append, List.flatMap_append]
  have h1 : (List.range a).flatMap F = [] := by
    apply flatMap_eq_nil'
    intro i hi
    have := List.mem_range.mp hi
    exact hout i (by omega) (by omega)
  have h3 : (List.map (fun x => a + n + x) (List.range b)).flatMap F = [] := by
    apply flatMap_eq_nil'
    intro i hi
    obtain ⟨j, hj, rfl⟩ := List.mem_map.mp hi
    have := List.mem_range.mp hj
    exact hout _ (by omega) (by omega)
  rw [h1, h3, List.flatMap_map]
  simp only [List.nil_append, List.append_nil]
  apply flatMap_congr'
  intro j hj
  exact hin j (List.mem_range.mp hj)

/-- a `filter` over `range (a+n+b)` whose predicate is false outside `[a, a+n)` -/
theorem filter_range_embed (a n b : Nat) (P Q : Nat → Bool)
    (hout : ∀ i, i < a + n + b → ¬(a ≤ i ∧ i < a + n) → P i = false)
    (hin : ∀ j, j < n → P (a + j) = Q j) :
    (List.range (a + n + b)).filter P = ((List.range n).filter Q).map (fun x => a + x) := by
  have h := flatMap_range_embed a n b (fun i => if P i then [i] else [])
    (fun j => if Q j then [a + j] else [])
    (by intro i hi hni; simp [hout i hi hni])
    (by intro j hj; simp [hin j hj])
  have e1 : ∀ (l : List Nat), l.filter P = l.flatMap (fun i => if P i then [i] else []) := by
    intro l
    induction l with
    | nil => rfl
    | cons x l ih =>
      simp only [List.filter_cons, List.flatMap_cons, ih]
      split <;> simp
  have e2 : ∀ (l : List Nat), (l.filter Q).map (fun x => a + x)
      = l.flatMap (fun j => if Q j then [a + j] else []) := by
    intro l
    induction l with
    | nil => rfl
    | cons x l ih =>
      simp only [List.filter_cons, List.flatMap_cons, ← ih]
      split <;> simp
  rw [e1, e2, h]

/-- 2-D: filtering the pixels of a big frame by a predicate that is false outside an embedded
    `n×k` sub-frame = the filtered pixels of the sub-frame, shifted (same row-major order). -/
theorem filter_pixels_embed (a n b c k d : Nat) (P Q : Nat × Nat → Bool)
    (hout : ∀ y x, y < a + n + b → x < c + k + d →
      ¬(a ≤ y ∧ y < a + n ∧ c ≤ x ∧ x < c + k) → P (y, x) = false)
    (hin : ∀ y x, y < n → x < k → P (a + y, c + x) = Q (y, x)) :
    (pixels (a + n + b) (c + k + d)).filter P
      = ((pixels n k).filter Q).map (fun p => (a + p.1, c + p.2)) := by
  unfold pixels
  rw [List.filter_flatMap, List.filter_flatMap, List.map_flatMap]
  apply flatMap_range_embed
  · intro y hy hny
    rw [List.filter_map]
    have : (List.range (c + k + d)).filter (P ∘ fun x => (y, x)) = [] := by
      apply List.filter_eq_nil_iff.mpr
      intro x hx
      have hx' := List.mem_range.mp hx
      simp only [Function.comp]
      rw [hout y x hy hx' (by omega)]
      simp
    rw [this]; rfl
  · intro y hy
    rw [List.filter_map, List.filter_map, List.map_map]
    rw [filter_range_embed c k d (P ∘ fun x => (a + y, x)) (Q ∘ fun x => (y, x))
      (by intro x hx hnx; simp only [Function.comp]; exact hout (a + y) x (by omega) hx (by omega))
      (by intro x hx; simp only [Function.comp]; exact hin y x hy hx)]
    rw [List.map_map]
    rfl

/-! ### the padded mask -/

/-- unmasked pixels after padding an array's mask by `(2cy, 2cx)` with masked pixels -/
theorem unmaskedPixels_padded (a : Arr α) (zero : α) (hwf : a.WF zero) (cy cx : Nat) :
    Spec.unmaskedPixels
        (Impl.maskResizedFrom a.gm (a.gm.mask.h + 2 * cy) (a.gm.mask.w + 2 * cx) true).mask
      = (Spec.unmaskedPixels a.gm.mask).map (fun p => (cy + p.1, cx + p.2)) := by
  unfold Spec.unmaskedPixels
  have hh : (Impl.maskResizedFrom a.gm (a.gm.mask.h + 2 * cy) (a.gm.mask.w + 2 * cx) true).mask.h
      = cy + a.gm.mask.h + cy := by show a.gm.mask.h + 2 * cy = _; omega
  have hw : (Impl.maskResizedFrom a.gm (a.gm.mask.h + 2 * cy) (a.gm.mask.w + 2 * cx) true).mask.w
      = cx + a.gm.mask.w + cx := by show a.gm.mask.w + 2 * cx = _; omega
  rw [hh, hw]
  apply filter_pixels_embed
  · intro y x hy hx hout
    rw [padded_mask_outside a cy cx true y x (by omega) (by omega) (by omega)]
    rfl
  · intro y x hy hx
    rw [padded_mask_at a zero hwf cy cx true y x hy hx]

/-- the slim values of the padded array are the slim values of the original, in the same order -/
theorem slim_padded (a : Arr α) (zero : α) (hwf : a.WF zero) (cy cx : Nat) :
    Impl.slimFrom (Impl.arrayResizedFrom a (a.gm.mask.h + 2 * cy) (a.gm.mask.w + 2 * cx) true zero).gm.mask
        (Impl.arrayResizedFrom a (a.gm.mask.h + 2 * cy) (a.gm.mask.w + 2 * cx) true zero).native zero
      = Impl.slimFrom a.gm.mask a.native zero := by
  rw [slimFrom_eq, slimFrom_eq]
  unfold Spec.slimFrom
  have hm : (Impl.arrayResizedFrom a (a.gm.mask.h + 2 * cy) (a.gm.mask.w + 2 * cx) true zero).gm.mask
      = (Impl.maskResizedFrom a.gm (a.gm.mask.h + 2 * cy) (a.gm.mask.w + 2 * cx) true).mask := rfl
  rw [hm, unmaskedPixels_padded a zero hwf cy cx, List.map_map]
  apply List.map_congr_left
  intro p hp
  obtain ⟨hp1, hp2, _⟩ := mem_unmaskedPixels.mp hp
  simp only [Function.comp, flat]
  exact padded_native_at a zero hwf cy cx true p.1 p.2 hp1 hp2

/-- `grid_2d_slim_via_mask_from` lists the centres of the unmasked pixels in row-major order -/
theorem gridSlimViaMask_eq [Add α] [Sub α] [Mul α] [Div α] [Neg α] [NatCast α]
    (m : Mask) (g : Geom α) :
    Impl.gridSlimViaMask m g
      = (Spec.unmaskedPixels m).map
          (fun p => (Impl.pixelCentreY m.h g.oy g.sy p.1, Impl.pixelCentreX m.w g.ox g.sx p.2)) := by
  unfold Impl.gridSlimViaMask Spec.unmaskedPixels
  rw [forYX_eq_foldl]
  have := foldl_append_if (pixels m.h m.w) (fun p => !m.get p.1 p.2)
    (fun p => (Impl.pixelCentreY m.h g.oy g.sy p.1, Impl.pixelCentreX m.w g.ox g.sx p.2)) []
  simpa using this

end Model
