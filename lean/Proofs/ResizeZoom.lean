/-
Proofs/ResizeZoom.lean — the zoom window contains every unmasked pixel (core Lean only).
-/
import Model.Resize
import Proofs.ResizeArr

namespace Model

open Impl

theorem foldl_min_le (f : γ → Nat) (t : List γ) (init : Nat) :
    t.foldl (fun a q => min a (f q)) init ≤ init
      ∧ ∀ q ∈ t, t.foldl (fun a q => min a (f q)) init ≤ f q := by
  induction t generalizing init with
  | nil => simp
  | cons b t ih =>
    simp only [List.foldl_cons, List.mem_cons]
    obtain ⟨h1, h2⟩ := ih (min init (f b))
    refine ⟨by omega, ?_⟩
    intro q hq
    rcases hq with rfl | hq
    · omega
    · exact h2 q hq

theorem foldl_max_ge (f : γ → Nat) (t : List γ) (init : Nat) :
    init ≤ t.foldl (fun a q => max a (f q)) init
      ∧ ∀ q ∈ t, f q ≤ t.foldl (fun a q => max a (f q)) init := by
  induction t generalizing init with
  | nil => simp
  | cons b t ih =>
    simp only [List.foldl_cons, List.mem_cons]
    obtain ⟨h1, h2⟩ := ih (max init (f b))
    refine ⟨by omega, ?_⟩
    intro q hq
    rcases hq with rfl | hq
    · omega
    · exact h2 q hq

/-- `zoom_region` exists as soon as one pixel is unmasked and contains every unmasked pixel -/
theorem zoomRegion_contains (m : Mask) (y x : Nat) (hy : y < m.h) (hx : x < m.w)
    (hm : m.get y x = false) :
    ∃ y0 y1 x0 x1, Impl.zoomRegion m = some (y0, y1, x0, x1)
      ∧ y0 ≤ (y : Int) ∧ (y : Int) < y1 ∧ x0 ≤ (x : Int) ∧ (x : Int) < x1 := by
  have hmem : (y, x) ∈ Impl.nativeForSlim m := by
    rw [nativeForSlim_eq]; exact mem_unmaskedPixels.mpr ⟨hy, hx, hm⟩
  unfold Impl.zoomRegion
  cases hl : Impl.nativeForSlim m with
  | nil => rw [hl] at hmem; cases hmem
  | cons p t =>
    rw [hl] at hmem
    simp only
    obtain ⟨a1, a2⟩ := foldl_min_le (fun q : Nat × Nat => q.1) t p.1
    obtain ⟨b1, b2⟩ := foldl_max_ge (fun q : Nat × Nat => q.1) t p.1
    obtain ⟨c1, c2⟩ := foldl_min_le (fun q : Nat × Nat => q.2) t p.2
    obtain ⟨d1, d2⟩ := foldl_max_ge (fun q : Nat × Nat => q.2) t p.2
    have hy0 : t.foldl (fun a q => min a q.1) p.1 ≤ y := by
      rcases List.mem_cons.mp hmem with h | h
      · have e : p.1 = y := by rw [← h]
        omega
      · exact a2 _ h
    have hy1 : y ≤ t.foldl (fun a q => max a q.1) p.1 := by
      rcases List.mem_cons.mp hmem with h | h
      · have e : p.1 = y := by rw [← h]
        omega
      · exact b2 _ h
    have hx0 : t.foldl (fun a q => min a q.2) p.2 ≤ x := by
      rcases List.mem_cons.mp hmem with h | h
      · have e : p.2 = x := by rw [← h]
        omega
      · exact c2 _ h
    have hx1 : x ≤ t.foldl (fun a q => max a q.2) p.2 := by
      rcases List.mem_cons.mp hmem with h | h
      · have e : p.2 = x := by rw [← h]
        omega
      · exact d2 _ h
    generalize t.foldl (fun a q => min a q.1) p.1 = Y0 at *
    generalize t.foldl (fun a q => max a q.1) p.1 = Y1 at *
    generalize t.foldl (fun a q => min a q.2) p.2 = X0 at *
    generalize t.foldl (fun a q => max a q.2) p.2 = X1 at *
    split
    · exact ⟨_, _, _, _, rfl, by omega, by omega, by omega, by omega⟩
    · split
      · exact ⟨_, _, _, _, rfl, by omega, by omega, by omega, by omega⟩
      · exact ⟨_, _, _, _, rfl, by omega, by omega, by omega, by omega⟩

/-- the zoomed array carries, at the shifted position, the native value of every unmasked pixel -/
theorem zoomed_contains (a : Arr α) (zero : α) (buffer : Int) (hb : 0 ≤ buffer) (y x : Nat)
    (hy : y < a.gm.mask.h) (hx : x < a.gm.mask.w) (hm : a.gm.mask.get y x = false) :
    ∃ y0 y1 x0 x1 zh zw vals,
      Impl.zoomRegion a.gm.mask = some (y0, y1, x0, x1)
      ∧ Impl.zoomedAroundMask a buffer zero = some (zh, zw, vals)
      ∧ y0 - buffer ≤ (y : Int) ∧ (y : Int) < y1 + buffer
      ∧ x0 - buffer ≤ (x : Int) ∧ (x : Int) < x1 + buffer
      ∧ (zh : Int) = y1 + buffer - (y0 - buffer) ∧ (zw : Int) = x1 + buffer - (x0 - buffer)
      ∧ vals.length = zh * zw
      ∧ vals.getD (((y : Int) - (y0 - buffer)).toNat * zw + ((x : Int) - (x0 - buffer)).toNat) zero
          = a.native.getD (y * a.gm.mask.w + x) zero := by
  obtain ⟨y0, y1, x0, x1, hz, h1, h2, h3, h4⟩ := zoomRegion_contains a.gm.mask y x hy hx hm
  refine ⟨y0, y1, x0, x1, (y1 + buffer - (y0 - buffer)).toNat, (x1 + buffer - (x0 - buffer)).toNat,
    Impl.extractedArray2d a.native a.gm.mask.h a.gm.mask.w (y0 - buffer) (y1 + buffer) (x0 - buffer)
      (x1 + buffer) zero,
    hz, ?_, by omega, by omega, by omega, by omega, ?_, ?_, ?_, ?_⟩
  · unfold Impl.zoomedAroundMask
    rw [hz]
  · omega
  · omega
  · rw [extractedArray2d_eq, tab_length]
  · rw [extractedArray2d_eq, tab_getD _ _ _ _ _ _ (by omega) (by omega)]
    unfold Spec.extractedAt
    have e1 : y0 - buffer + ((((y : Int) - (y0 - buffer)).toNat : Nat) : Int) = (y : Int) := by omega
    have e2 : x0 - buffer + ((((x : Int) - (x0 - buffer)).toNat : Nat) : Int) = (x : Int) := by omega
    simp only [e1, e2]
    have hin : 0 ≤ (y : Int) ∧ 0 ≤ (x : Int) ∧ (y : Int) ≤ (a.gm.mask.h : Int) - 1
        ∧ (x : Int) ≤ (a.gm.mask.w : Int) - 1 := by omega
    simp only [hin, and_self, if_true, Int.toNat_natCast]

end Model
