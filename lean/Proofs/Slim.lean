/-
Proofs/Slim.lean — refinement lemmas for Model/Slim.lean (core Lean only).
-/
import Model.Slim
import Proofs.Core

namespace Model

open Impl

/-! ### gathers: Impl = Spec -/

theorem nativeForSlim_eq (m : Mask) : Impl.nativeForSlim m = Spec.unmaskedPixels m := by
  unfold Impl.nativeForSlim Spec.unmaskedPixels
  rw [forYX_eq_foldl]
  have := foldl_append_if (pixels m.h m.w) (fun p => !m.get p.1 p.2) (fun p => p) []
  simpa using this

theorem slimFrom_eq (m : Mask) (a : List α) (zero : α) :
    Impl.slimFrom m a zero = Spec.slimFrom m a zero := by
  unfold Impl.slimFrom Spec.slimFrom Spec.unmaskedPixels
  rw [forYX_eq_foldl]
  have := foldl_append_if (pixels m.h m.w) (fun p => !m.get p.1 p.2)
    (fun p => a.getD (p.1 * m.w + p.2) zero) []
  simpa [flat] using this

theorem totalPixels_eq (m : Mask) : Impl.totalPixels m = (Spec.unmaskedPixels m).length := by
  unfold Impl.totalPixels Spec.unmaskedPixels
  rw [forYX_eq_foldl]
  generalize pixels m.h m.w = l
  suffices ∀ n, l.foldl (fun acc p => if !m.get p.1 p.2 then acc + 1 else acc) n
      = n + (l.filter fun p => !m.get p.1 p.2).length by simpa using this 0
  induction l with
  | nil => simp
  | cons a l ih =>
    intro n
    simp only [List.foldl_cons, List.filter_cons]
    rw [ih]
    split <;> simp <;> omega

/-! ### the counter loop of `mask_slim_indexes_from` -/

theorem counter_loop (l : List (Nat × Nat)) (c : Nat × Nat → Bool) (acc : List Nat) (n : Nat) :
    l.foldl (fun (st : List Nat × Nat) p => (if c p then st.1 ++ [st.2] else st.1, st.2 + 1)) (acc, n)
      = (acc ++ ((l.zipIdx n).filter (fun q => c q.1)).map (·.2), n + l.length) := by
  induction l generalizing acc n with
  | nil => simp
  | cons a l ih =>
    simp only [List.foldl_cons, List.zipIdx_cons, List.filter_cons, List.length_cons]
    rw [ih]
    split <;> simp <;> omega

theorem zipIdx_pixels (h w : Nat) :
    (pixels h w).zipIdx 0 = (pixels h w).map fun p => (p, flat w p) := by
  apply List.ext_getElem
  · simp
  · intro k h1 h2
    simp only [List.getElem_zipIdx, List.getElem_map, Nat.zero_add]
    rw [pixels_getElem]

/-- `mask_slim_indexes_from(mask, flag)` = ascending flat indices whose mask bit equals `flag` -/
theorem maskSlimIndexes_eq (m : Mask) (flag : Bool) :
    Impl.maskSlimIndexes m flag
      = (List.range (m.h * m.w)).filter fun k => m.bits.getD k true == flag := by
  unfold Impl.maskSlimIndexes
  rw [forYX_eq_foldl]
  have := counter_loop (pixels m.h m.w) (fun p => m.get p.1 p.2 == flag) [] 0
  simp only [List.nil_append] at this
  rw [this, zipIdx_pixels]
  simp only [List.filter_map, List.map_map]
  rw [← pixels_map_flat, List.filter_map]
  congr 1

/-! ### scatter -/

/-- the loop of `array_2d_via_indexes_from`, abstracted over target and value functions -/
def scatterLoop (f : Nat → Nat) (g : Nat → α) (init : List α) (n : Nat) : List α :=
  (List.range n).foldl (fun arr k => arr.set (f k) (g k)) init

theorem scatterLoop_succ (f : Nat → Nat) (g : Nat → α) (init : List α) (n : Nat) :
    scatterLoop f g init (n + 1) = (scatterLoop f g init n).set (f n) (g n) := by
  simp [scatterLoop, List.range_succ, List.foldl_append]

@[simp] theorem scatterLoop_length (f : Nat → Nat) (g : Nat → α) (init : List α) (n : Nat) :
    (scatterLoop f g init n).length = init.length := by
  induction n with
  | zero => simp [scatterLoop]
  | succ n ih => rw [scatterLoop_succ]; simp [ih]

theorem scatterLoop_miss (f : Nat → Nat) (g : Nat → α) (init : List α) (n j : Nat)
    (hj : ∀ k, k < n → f k ≠ j) : (scatterLoop f g init n)[j]? = init[j]? := by
  induction n with
  | zero => simp [scatterLoop]
  | succ n ih =>
    rw [scatterLoop_succ, List.getElem?_set_ne (hj n (Nat.lt_succ_self n))]
    exact ih fun k hk => hj k (Nat.lt_succ_of_lt hk)

theorem scatterLoop_hit (f : Nat → Nat) (g : Nat → α) (init : List α) (n k : Nat)
    (hk : k < n) (hinj : ∀ k', k' < n → f k' = f k → k' = k) (hlt : f k < init.length) :
    (scatterLoop f g init n)[f k]? = some (g k) := by
  induction n with
  | zero => omega
  | succ n ih =>
    rw [scatterLoop_succ]
    by_cases hkn : k = n
    · subst hkn
      rw [List.getElem?_set_self (by simpa using hlt)]
    · have hk' : k < n := by omega
      have hne : f n ≠ f k := fun h => hkn (hinj n (Nat.lt_succ_self n) h).symm
      rw [List.getElem?_set_ne hne]
      exact ih hk' fun k' hk'' h => hinj k' (Nat.lt_succ_of_lt hk'') h

theorem nativeViaIndexes_eq (zero : α) (h w : Nat) (idx : List (Nat × Nat)) (s : List α) :
    Impl.nativeViaIndexes zero h w idx s
      = scatterLoop (fun k => flat w (idx.getD k (0, 0))) (fun k => s.getD k zero)
          (List.replicate (h * w) zero) idx.length := rfl

/-! ### facts about the unmasked pixel list -/

theorem mem_unmaskedPixels {m : Mask} {p : Nat × Nat} :
    p ∈ Spec.unmaskedPixels m ↔ p.1 < m.h ∧ p.2 < m.w ∧ m.get p.1 p.2 = false := by
  simp [Spec.unmaskedPixels, mem_pixels, and_assoc]

theorem unmaskedPixels_pairwise (m : Mask) :
    (Spec.unmaskedPixels m).Pairwise (fun p q => flat m.w p < flat m.w q) :=
  (pixels_pairwise_flat m.h m.w).filter _

theorem unmaskedPixels_flat_inj (m : Mask) (k k' : Nat)
    (hk : k < (Spec.unmaskedPixels m).length) (hk' : k' < (Spec.unmaskedPixels m).length)
    (h : flat m.w (Spec.unmaskedPixels m)[k] = flat m.w (Spec.unmaskedPixels m)[k']) : k = k' := by
  have hp := unmaskedPixels_pairwise m
  rw [List.pairwise_iff_getElem] at hp
  rcases Nat.lt_trichotomy k k' with hlt | heq | hgt
  · have := hp k k' hk hk' hlt; omega
  · exact heq
  · have := hp k' k hk' hk hgt; omega

end Model

namespace Model

/-! ### the scatter `array_2d_native_from` -/

theorem nativeFrom_length (m : Mask) (s : List α) (zero : α) :
    (Impl.nativeFrom m s zero).length = m.h * m.w := by
  simp [Impl.nativeFrom, nativeViaIndexes_eq]

/-- slim value `k` lands on the `k`-th unmasked pixel -/
theorem nativeFrom_hit (m : Mask) (s : List α) (zero : α) (k : Nat)
    (hk : k < (Spec.unmaskedPixels m).length) :
    (Impl.nativeFrom m s zero)[flat m.w (Spec.unmaskedPixels m)[k]]? = some (s.getD k zero) := by
  unfold Impl.nativeFrom
  rw [nativeViaIndexes_eq, nativeForSlim_eq]
  have hmem : (Spec.unmaskedPixels m)[k] ∈ pixels m.h m.w :=
    (List.mem_filter.mp (List.getElem_mem hk)).1
  have := scatterLoop_hit (fun k => flat m.w ((Spec.unmaskedPixels m).getD k (0, 0)))
    (fun k => s.getD k zero) (List.replicate (m.h * m.w) zero) (Spec.unmaskedPixels m).length k hk
    (by
      intro k' hk' h
      simp only [List.getD_eq_getElem?_getD, List.getElem?_eq_getElem hk', List.getElem?_eq_getElem hk,
        Option.getD_some] at h
      exact unmaskedPixels_flat_inj m k' k hk' hk h)
    (by
      simp only [List.getD_eq_getElem?_getD, List.getElem?_eq_getElem hk, Option.getD_some,
        List.length_replicate]
      exact flat_lt hmem)
  simpa [List.getD_eq_getElem?_getD, List.getElem?_eq_getElem hk] using this

/-- every in-frame index that is not the image of an unmasked pixel keeps the initial zero -/
theorem nativeFrom_miss (m : Mask) (s : List α) (zero : α) (j : Nat) (hj : j < m.h * m.w)
    (hmiss : ∀ p ∈ Spec.unmaskedPixels m, flat m.w p ≠ j) :
    (Impl.nativeFrom m s zero)[j]? = some zero := by
  unfold Impl.nativeFrom
  rw [nativeViaIndexes_eq, nativeForSlim_eq, scatterLoop_miss]
  · simp [hj]
  · intro k hk
    simp only [List.getD_eq_getElem?_getD, List.getElem?_eq_getElem hk, Option.getD_some]
    exact hmiss _ (List.getElem_mem hk)

theorem flat_div_mod (w j : Nat) : flat w (j / w, j % w) = j := by
  simp [flat, Nat.div_add_mod']

theorem get_div_mod (m : Mask) (j : Nat) : m.get (j / m.w) (j % m.w) = m.bits.getD j true := by
  simp [Mask.get, Nat.div_add_mod']

theorem div_mod_mem_pixels {h w j : Nat} (hj : j < h * w) : (j / w, j % w) ∈ pixels h w := by
  have hw : 0 < w := by
    rcases Nat.eq_zero_or_pos w with h0 | h0
    · subst h0; simp at hj
    · exact h0
  rw [mem_pixels]
  exact ⟨(Nat.div_lt_iff_lt_mul hw).mpr hj, Nat.mod_lt _ hw⟩

/-- a masked in-frame flat index reads zero after the scatter -/
theorem nativeFrom_masked (m : Mask) (s : List α) (zero : α) (j : Nat) (hj : j < m.h * m.w)
    (hm : m.bits.getD j true = true) : (Impl.nativeFrom m s zero)[j]? = some zero := by
  apply nativeFrom_miss m s zero j hj
  intro p hp hflat
  rw [mem_unmaskedPixels] at hp
  have : p = (j / m.w, j % m.w) := by
    apply flat_injOn (w := m.w) hp.2.1
    · have := div_mod_mem_pixels hj; rw [mem_pixels] at this; exact this.2
    · rw [hflat, flat_div_mod]
  have hg := hp.2.2
  rw [this] at hg
  simp only [get_div_mod] at hg
  rw [hm] at hg
  exact Bool.noConfusion hg

/-- an unmasked in-frame flat index is the image of some slim index -/
theorem exists_slim_index (m : Mask) (j : Nat) (hj : j < m.h * m.w)
    (hm : m.bits.getD j true = false) :
    ∃ k, ∃ hk : k < (Spec.unmaskedPixels m).length, flat m.w (Spec.unmaskedPixels m)[k] = j := by
  have hmem : (j / m.w, j % m.w) ∈ Spec.unmaskedPixels m := by
    rw [mem_unmaskedPixels]
    have := div_mod_mem_pixels hj
    rw [mem_pixels] at this
    exact ⟨this.1, this.2, by simpa [get_div_mod] using hm⟩
  obtain ⟨k, hk, hkeq⟩ := List.getElem_of_mem hmem
  exact ⟨k, hk, by rw [hkeq, flat_div_mod]⟩

end Model

namespace Model

/-! ### 1-D twins -/

theorem nativeForSlim1d_eq (mask : List Bool) :
    Impl.nativeForSlim1d mask = (List.range mask.length).filter fun x => !mask.getD x true := by
  unfold Impl.nativeForSlim1d
  have := foldl_append_if (List.range mask.length) (fun x => !mask.getD x true) (fun x => x) []
  simpa using this

theorem slim1dFrom_eq (mask : List Bool) (a : List α) (zero : α) :
    Impl.slim1dFrom mask a zero = (Impl.nativeForSlim1d mask).map fun x => a.getD x zero := by
  rw [nativeForSlim1d_eq]
  unfold Impl.slim1dFrom
  have := foldl_append_if (List.range mask.length) (fun x => !mask.getD x true)
    (fun x => a.getD x zero) []
  simpa using this

theorem nativeForSlim1d_pairwise (mask : List Bool) :
    (Impl.nativeForSlim1d mask).Pairwise (· < ·) := by
  rw [nativeForSlim1d_eq]; exact List.Pairwise.filter _ List.pairwise_lt_range

theorem mem_nativeForSlim1d {mask : List Bool} {x : Nat} :
    x ∈ Impl.nativeForSlim1d mask ↔ x < mask.length ∧ mask.getD x true = false := by
  rw [nativeForSlim1d_eq]; simp

theorem native1dFrom_eq (mask : List Bool) (s : List α) (zero : α) :
    Impl.native1dFrom mask s zero
      = scatterLoop (fun k => (Impl.nativeForSlim1d mask).getD k 0) (fun k => s.getD k zero)
          (List.replicate mask.length zero) (Impl.nativeForSlim1d mask).length := rfl

theorem native1dFrom_length (mask : List Bool) (s : List α) (zero : α) :
    (Impl.native1dFrom mask s zero).length = mask.length := by
  simp [native1dFrom_eq]

theorem native1dFrom_hit (mask : List Bool) (s : List α) (zero : α) (k : Nat)
    (hk : k < (Impl.nativeForSlim1d mask).length) :
    (Impl.native1dFrom mask s zero)[(Impl.nativeForSlim1d mask)[k]]? = some (s.getD k zero) := by
  rw [native1dFrom_eq]
  have hpw := nativeForSlim1d_pairwise mask
  rw [List.pairwise_iff_getElem] at hpw
  have := scatterLoop_hit (fun k => (Impl.nativeForSlim1d mask).getD k 0)
    (fun k => s.getD k zero) (List.replicate mask.length zero) (Impl.nativeForSlim1d mask).length k hk
    (by
      intro k' hk' h
      simp only [List.getD_eq_getElem?_getD, List.getElem?_eq_getElem hk', List.getElem?_eq_getElem hk,
        Option.getD_some] at h
      rcases Nat.lt_trichotomy k' k with hlt | heq | hgt
      · have := hpw k' k hk' hk hlt; omega
      · exact heq
      · have := hpw k k' hk hk' hgt; omega)
    (by
      simp only [List.getD_eq_getElem?_getD, List.getElem?_eq_getElem hk, Option.getD_some,
        List.length_replicate]
      exact (mem_nativeForSlim1d.mp (List.getElem_mem hk)).1)
  simpa [List.getD_eq_getElem?_getD, List.getElem?_eq_getElem hk] using this

theorem native1dFrom_masked (mask : List Bool) (s : List α) (zero : α) (j : Nat)
    (hj : j < mask.length) (hm : mask.getD j true = true) :
    (Impl.native1dFrom mask s zero)[j]? = some zero := by
  rw [native1dFrom_eq, scatterLoop_miss]
  · simp [hj]
  · intro k hk h
    simp only [List.getD_eq_getElem?_getD, List.getElem?_eq_getElem hk, Option.getD_some] at h
    have := (mem_nativeForSlim1d.mp (List.getElem_mem hk)).2
    rw [h, hm] at this
    exact Bool.noConfusion this

end Model
