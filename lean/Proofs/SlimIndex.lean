/-
Proofs/SlimIndex.lean — refinement lemmas for Model/SlimIndex.lean: the fill loops are the `divmod`
closed forms (all sizes), and the two converters are mutually inverse on in-range indexes.
-/
import Model.SlimIndex

namespace Model

/-- the loop `for i in range(n): out[i] = f i` over `np.zeros(n)` is `map f (range n)` -/
theorem fill_loop {β : Type} (n : Nat) (f : Nat → β) (z : β) :
    (List.range n).foldl (fun out i => out.set i (f i)) (List.replicate n z)
      = (List.range n).map f := by
  suffices H : ∀ k d, (List.range k).foldl (fun out i => out.set i (f i)) (List.replicate (k + d) z)
      = (List.range k).map f ++ List.replicate d z by
    simpa using H n 0
  intro k
  induction k with
  | zero => intro d; simp
  | succ k ih =>
    intro d
    have e : k + 1 + d = k + (d + 1) := by omega
    rw [List.range_succ, List.foldl_append, e, ih (d + 1)]
    simp only [List.foldl_cons, List.foldl_nil, List.map_append, List.map_cons, List.map_nil]
    have hl : k = ((List.range k).map f).length := by simp
    conv => lhs; arg 2; rw [hl]
    simp [List.replicate_succ]

/-- reading a list through its own indexes -/
theorem range_map_getD {β γ : Type} (l : List β) (d : β) (F : β → γ) :
    (List.range l.length).map (fun i => F (l.getD i d)) = l.map F := by
  apply List.ext_getElem
  · simp
  · intro i h1 h2
    have hi : i < l.length := by simpa using h2
    simp [List.getD_eq_getElem?_getD, List.getElem?_eq_getElem hi]

theorem index2dForIndexSlim_eq (w : Nat) (idx : List Nat) :
    Impl.index2dForIndexSlim w idx = Spec.index2dForIndexSlim w idx := by
  unfold Impl.index2dForIndexSlim Spec.index2dForIndexSlim
  rw [fill_loop idx.length (fun i => (idx.getD i 0 / w, idx.getD i 0 % w))]
  exact range_map_getD idx 0 (fun k => (k / w, k % w))

theorem indexSlimForIndex2d_eq (w : Nat) (idx : List (Nat × Nat)) :
    Impl.indexSlimForIndex2d w idx = Spec.indexSlimForIndex2d w idx := by
  unfold Impl.indexSlimForIndex2d Spec.indexSlimForIndex2d
  rw [fill_loop idx.length (fun i => (idx.getD i (0, 0)).1 * w + (idx.getD i (0, 0)).2)]
  exact range_map_getD idx (0, 0) (fun p => p.1 * w + p.2)

/-- slim → 2-D → slim is the identity (any width) -/
theorem indexSlim_index2d (w : Nat) (idx : List Nat) :
    Spec.indexSlimForIndex2d w (Spec.index2dForIndexSlim w idx) = idx := by
  unfold Spec.indexSlimForIndex2d Spec.index2dForIndexSlim
  rw [List.map_map]
  conv => rhs; rw [← List.map_id idx]
  apply List.map_congr_left
  intro k _
  simp only [Function.comp, id]
  rw [Nat.mul_comm]
  exact Nat.div_add_mod k w

/-- 2-D → slim → 2-D is the identity on pixels whose column is inside the row width -/
theorem index2d_indexSlim (w : Nat) (idx : List (Nat × Nat)) (hx : ∀ p ∈ idx, p.2 < w) :
    Spec.index2dForIndexSlim w (Spec.indexSlimForIndex2d w idx) = idx := by
  unfold Spec.indexSlimForIndex2d Spec.index2dForIndexSlim
  rw [List.map_map]
  conv => rhs; rw [← List.map_id idx]
  apply List.map_congr_left
  intro p hp
  have h := hx p hp
  have hw : 0 < w := by omega
  simp only [Function.comp, id]
  have h1 : (p.1 * w + p.2) / w = p.1 := by
    rw [Nat.mul_comm, Nat.mul_add_div hw, Nat.div_eq_of_lt h]; rfl
  have h2 : (p.1 * w + p.2) % w = p.2 := by
    rw [Nat.mul_comm, Nat.mul_add_mod, Nat.mod_eq_of_lt h]
  rw [h1, h2]

end Model
