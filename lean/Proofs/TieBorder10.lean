/-
Proofs/TieBorder10.lean — LOOP TIES for property C10, border part (clause c): the definitions that
harness/translate2.py regenerates from the current Python source (Generated/LoopsBorder.lean) are equal,
for every input and every size, to the hand-written `Model.Impl.*` functions of Model/MaskSets.lean
(`checkIfBorderPixel`, `borderSlim`) that `C10.border_iff` is about.  The module is self-contained, so it
also carries the copies of the five callees (`total_pixels_2d_from`, `native_index_for_slim_index_2d_from`,
`check_if_edge_pixel`, `total_edge_pixels_from`, `edge_1d_indexes_from`); their ties restate those of
Proofs/TieSlim.lean / Proofs/TieMaskSets.lean for this module's (syntactically identical) definitions.
Only `*_tie` theorems live in this file (helpers: Proofs/TieCore.lean, Proofs/TieMaskSetsAux.lean,
Proofs/TieBorder10Aux.lean).  See design_notes/LOOP_TIES.md and design_notes/TIES_C10b.md.
-/
import Generated.LoopsBorder
import Model.MaskSets
import Proofs.MaskSets
import Proofs.TieCore
import Proofs.TieSlim
import Proofs.TieMaskSets
import Proofs.TieBorder10Aux

open Model PyRt TieCore TieMaskSetsAux TieBorder10Aux

namespace TieBorder10

/-! ### the callees shared with `LoopsSlim` / `LoopsMaskSets` (same source, same generated text) -/

/-- `mask_2d_util.total_pixels_2d_from` = `Impl.totalPixels` -/
theorem total_pixels_2d_from_tie (m : Mask) (wf : m.WF) :
    Generated.LoopsBorder.total_pixels_2d_from (ofMask m) = (Impl.totalPixels m : Int) :=
  TieSlim.total_pixels_2d_from_tie m wf

/-- `mask_2d_util.native_index_for_slim_index_2d_from` = `Impl.nativeForSlim` -/
theorem native_index_for_slim_index_2d_from_tie {α : Type} [OfNat α 0] [IntCast α]
    (m : Mask) (wf : m.WF) :
    Generated.LoopsBorder.native_index_for_slim_index_2d_from (α := α) (ofMask m)
      = ofPairs (fun k => ((k : Int) : α)) (Impl.nativeForSlim m) :=
  TieSlim.native_index_for_slim_index_2d_from_tie m wf

/-- `mask_2d_util.check_if_edge_pixel` = `Impl.checkIfEdgePixel` for a pixel of the frame -/
theorem check_if_edge_pixel_tie (m : Mask) (wf : m.WF) (y x : Nat) (hy : y < m.h) (hx : x < m.w) :
    Generated.LoopsBorder.check_if_edge_pixel (ofMask m) (y : Int) (x : Int)
      = Impl.checkIfEdgePixel m y x :=
  TieMaskSets.check_if_edge_pixel_tie m wf y x hy hx

/-- `mask_2d_util.total_edge_pixels_from` = `Impl.totalEdgePixels` -/
theorem total_edge_pixels_from_tie (m : Mask) (wf : m.WF) :
    Generated.LoopsBorder.total_edge_pixels_from (ofMask m) = (Impl.totalEdgePixels m : Int) :=
  TieMaskSets.total_edge_pixels_from_tie m wf

/-- `mask_2d_util.edge_1d_indexes_from` = `Impl.edgeSlim` -/
theorem edge_1d_indexes_from_tie {α : Type} [OfNat α 0] [IntCast α] (m : Mask) (wf : m.WF) :
    Generated.LoopsBorder.edge_1d_indexes_from (α := α) (ofMask m)
      = (Impl.edgeSlim m).map (fun (k : Nat) => ((k : Int) : α)) :=
  TieMaskSets.edge_1d_indexes_from_tie m wf

/-! ### border pixels -/

/-- `mask_2d_util.check_if_border_pixel` = `Impl.checkIfBorderPixel`: the slim index `e` is passed as the
    float numpy holds, the index table is numpy's float table; `int()` returns the natural number such a
    float holds (`htr`).  Python does not raise exactly when row `e` of the table exists and the pixel it
    names lies in the frame (the slices themselves are clipped, the fixed row / column index is not). -/
theorem check_if_border_pixel_tie {α : Type} [Inhabited α] [IntCast α]
    (trunc : α → Int) (htr : ∀ k : Nat, trunc (((k : Nat) : Int) : α) = (k : Int))
    (m : Mask) (wf : m.WF) (nfs : List (Nat × Nat)) (e : Nat) (he : e < nfs.length)
    (hy : nfs[e].1 < m.h) (hx : nfs[e].2 < m.w) :
    Generated.LoopsBorder.check_if_border_pixel trunc (ofMask m) (((e : Nat) : Int) : α)
        (ofPairs (fun k => ((k : Int) : α)) nfs)
      = Impl.checkIfBorderPixel m nfs e := by
  unfold Generated.LoopsBorder.check_if_border_pixel Impl.checkIfBorderPixel Impl.checkIfBorderPixelAt
  obtain ⟨g0, g1⟩ := get_ofPairs (fun k => ((k : Int) : α)) nfs he
  have hd : nfs.getD e (0, 0) = nfs[e] := by simp [List.getD_eq_getElem?_getD, he]
  simp only [htr, g0, g1, hd, A2.shape0_eq, A2.shape1_eq, ofMask_h, ofMask_w]
  generalize nfs[e].1 = y at hy
  generalize nfs[e].2 = x at hx
  have c1 : A2.colSlice (ofMask m) 0 (y : Int) (x : Int)
      = (List.range y).map fun k => m.get k x := by
    have := colSlice_ofMask m wf (lo := 0) (hi := y) (x := x) (by omega) hx
    simpa using this
  have c2 : A2.rowSlice (ofMask m) (y : Int) (x : Int) (m.w : Int)
      = (List.range (m.w - x)).map fun k => m.get y (x + k) :=
    rowSlice_ofMask m wf (y := y) (lo := x) (hi := m.w) hy (Nat.le_refl _)
  have c3 : A2.colSlice (ofMask m) (y : Int) (m.h : Int) (x : Int)
      = (List.range (m.h - y)).map fun k => m.get (y + k) x :=
    colSlice_ofMask m wf (lo := y) (hi := m.h) (x := x) (Nat.le_refl _) hx
  have c4 : A2.rowSlice (ofMask m) (y : Int) 0 (x : Int)
      = (List.range x).map fun k => m.get y k := by
    have := rowSlice_ofMask m wf (y := y) (lo := 0) (hi := x) hy (by omega)
    simpa using this
  rw [c1, c2, c3, c4]
  simp only [count_eq_countTrue, natCast_beq]
  split <;> simp_all

/-- `mask_2d_util.total_border_pixels_from` counts the entries of `edge_pixels` that pass
    `Impl.checkIfBorderPixel` (the count pass of `Impl.borderSlim`; with `edge = Impl.edgeSlim m` and
    `nfs = Impl.nativeForSlim m` the right-hand side is `(Impl.borderSlim m).length`, `borderSlim_eq`).
    Every listed slim index must address a row of the table, and that row a pixel of the frame. -/
theorem total_border_pixels_from_tie {α : Type} [Inhabited α] [IntCast α]
    (trunc : α → Int) (htr : ∀ k : Nat, trunc (((k : Nat) : Int) : α) = (k : Int))
    (m : Mask) (wf : m.WF) (edge : List Nat) (nfs : List (Nat × Nat))
    (hedge : ∀ e ∈ edge, e < nfs.length) (hin : ∀ p ∈ nfs, p.1 < m.h ∧ p.2 < m.w) :
    Generated.LoopsBorder.total_border_pixels_from trunc (ofMask m)
        (edge.map fun (k : Nat) => ((k : Int) : α)) (ofPairs (fun k => ((k : Int) : α)) nfs)
      = (((edge.filter fun e => Impl.checkIfBorderPixel m nfs e).length : Nat) : Int) := by
  unfold Generated.LoopsBorder.total_border_pixels_from
  simp only [A1.len_eq, List.length_map, forRange_zero_nat]
  rw [foldl_congr_mem (g := fun (s : Int) (i : Nat) =>
      (fun (s : Int) (e : Nat) => if Impl.checkIfBorderPixel m nfs e then s + 1 else s) s (edge.getD i 0))]
  · rw [← foldl_eq_range_getD edge 0
      (fun (s : Int) (e : Nat) => if Impl.checkIfBorderPixel m nfs e then s + 1 else s) 0]
    simpa using count_loop edge (fun e => Impl.checkIfBorderPixel m nfs e) 0
  · intro i hi s
    have hi' : i < edge.length := by simpa using hi
    have hmem := getD_mem edge hi'
    have hlt := hedge _ hmem
    have hp := hin _ (List.getElem_mem hlt)
    rw [get_map_cast _ edge hi',
      check_if_border_pixel_tie trunc htr m wf nfs (edge.getD i 0) hlt hp.1 hp.2]

/-- `mask_2d_util.border_slim_indexes_from` = `Impl.borderSlim`: the code sizes the output with the count
    pass `total_border_pixels_from`, then writes the passing entries of `edge_1d_indexes_from(mask_2d)` at a
    running `border_pixel_index`; the model appends. -/
theorem border_slim_indexes_from_tie {α : Type} [OfNat α 0] [IntCast α] [Inhabited α]
    (trunc : α → Int) (htr : ∀ k : Nat, trunc (((k : Nat) : Int) : α) = (k : Int))
    (m : Mask) (wf : m.WF) :
    Generated.LoopsBorder.border_slim_indexes_from trunc (ofMask m)
      = (Impl.borderSlim m).map (fun (k : Nat) => ((k : Int) : α)) := by
  have hedge : ∀ e ∈ Impl.edgeSlim m, e < (Impl.nativeForSlim m).length := by
    intro e he
    obtain ⟨hk, _⟩ := mem_edgeSlim.mp he
    rw [nativeForSlim_eq]; exact hk
  have hin : ∀ p ∈ Impl.nativeForSlim m, p.1 < m.h ∧ p.2 < m.w := by
    intro p hp
    rw [nativeForSlim_eq] at hp
    obtain ⟨h1, h2, _⟩ := mem_unmaskedPixels.mp hp
    exact ⟨h1, h2⟩
  unfold Generated.LoopsBorder.border_slim_indexes_from
  rw [edge_1d_indexes_from_tie m wf, native_index_for_slim_index_2d_from_tie m wf]
  dsimp only
  rw [total_border_pixels_from_tie trunc htr m wf _ _ hedge hin, borderSlim_eq]
  simp only [A1.len_eq, List.length_map, forRange_zero_nat, A1.zeros_natCast]
  generalize Impl.edgeSlim m = edge at hedge
  generalize Impl.nativeForSlim m = nfs at hedge hin
  rw [foldl_congr_mem (g := fun (st : A1 α × Int) (i : Nat) =>
      (fun (st : A1 α × Int) (e : Nat) =>
        if Impl.checkIfBorderPixel m nfs e then (A1.set st.1 st.2 (((e : Nat) : Int) : α), st.2 + 1) else st)
      st (edge.getD i 0))]
  · rw [← foldl_eq_range_getD edge 0
      (fun (st : A1 α × Int) (e : Nat) =>
        if Impl.checkIfBorderPixel m nfs e then (A1.set st.1 st.2 (((e : Nat) : Int) : α), st.2 + 1) else st)]
    have := pack_loop_A1 edge (fun e => Impl.checkIfBorderPixel m nfs e)
      (fun (e : Nat) => (((e : Nat) : Int) : α)) (0 : α) []
    simp only [List.length_nil, Nat.zero_add, List.nil_append, Int.natCast_zero] at this
    rw [this]
  · intro i hi st
    have hi' : i < edge.length := by simpa using hi
    have hmem := getD_mem edge hi'
    have hlt := hedge _ hmem
    have hp := hin _ (List.getElem_mem hlt)
    rw [get_map_cast _ edge hi',
      check_if_border_pixel_tie trunc htr m wf nfs (edge.getD i 0) hlt hp.1 hp.2]

/-- non-vacuity: the tie at the type the driver executes (`Rat`, `int()` = `Model.truncRat`) -/
example (m : Mask) (wf : m.WF) :
    Generated.LoopsBorder.border_slim_indexes_from truncRat (ofMask m)
      = (Impl.borderSlim m).map (fun (k : Nat) => ((k : Int) : Rat)) :=
  border_slim_indexes_from_tie truncRat truncRat_natCast m wf

end TieBorder10
