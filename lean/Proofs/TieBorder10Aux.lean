/-
Proofs/TieBorder10Aux.lean — helper lemmas for the LOOP TIES of property C10, border part
(Proofs/TieBorder10.lean, module `LoopsBorder`): `np.sum` of a boolean slice is the model's `countTrue`,
comparison of two naturals after the cast to `Int`, reads of a cast index vector, the driver's `int()`
on a float holding a natural number.  Core Lean only.
-/
import Generated.LoopsBorder
import Model.MaskSets
import Proofs.MaskSets
import Proofs.TieCore

open Model PyRt TieCore

namespace TieBorder10Aux

/-- `np.sum(<bool slice>)` (`PyRt.A1.count`) is the model's `countTrue` -/
theorem count_eq_countTrue (l : List Bool) : A1.count l = ((Impl.countTrue l : Nat) : Int) := by
  rw [A1.count_eq, countTrue_eq]
  congr 1
  induction l with
  | nil => rfl
  | cons a l ih => cases a <;> simp [ih]

/-- `==` of two naturals computed on the `Int` casts (Python ints) is `==` on the naturals -/
theorem natCast_beq (a b : Nat) : ((a : Int) == (b : Int)) = (a == b) := by
  rw [Bool.eq_iff_iff]
  simp only [beq_iff_eq]
  omega

/-- `v[i]` on the float copy of an index vector, in range -/
theorem get_map_cast {β : Type} [Inhabited β] (f : Nat → β) (l : List Nat) {i : Nat} (hi : i < l.length) :
    A1.get (l.map f) (i : Int) = f (l.getD i 0) := by
  rw [A1.get_natCast]
  simp [List.getD_eq_getElem?_getD, hi]

/-- the entries of `List.getD` in range are members -/
theorem getD_mem (l : List Nat) {i : Nat} (hi : i < l.length) : l.getD i 0 ∈ l := by
  have : l.getD i 0 = l[i] := by simp [List.getD_eq_getElem?_getD, hi]
  rw [this]
  exact List.getElem_mem hi

/-- non-vacuity of the `int()` hypothesis of the ties: the driver's `int()` (`Model.truncRat`) returns
    the natural number a rational holds -/
theorem truncRat_natCast (k : Nat) : truncRat (((k : Nat) : Int) : Rat) = (k : Int) := by
  unfold truncRat
  have h0 : (0 : Rat) ≤ (((k : Nat) : Int) : Rat) := by
    have : ((0 : Int) : Rat) ≤ (((k : Nat) : Int) : Rat) := Rat.intCast_le_intCast.mpr (Int.natCast_nonneg k)
    simpa using this
  simp only [h0, if_true, Rat.floor_intCast]

end TieBorder10Aux
