/-
Proofs/TieCholAux.lean — helper lemmas for the LOOP TIE of `autoarray/util/cholesky_funcs.py:_cholupdate`
(Proofs/TieChol.lean; DESIGN.md §12, design_notes/LOOP_TIES.md, design_notes/TIES_C05chol.md).

  * `ofRows n U` : a matrix given as its list of rows, as the `U.length × n` numpy array (row-major data);
  * reads / point stores / tail-slice reads / tail-slice stores on an embedded matrix are the corresponding
    operations on ONE row of the list of rows (`get_ofRows`, `set_ofRows`, `rowTail_ofRows`,
    `setRowTail_ofRows`), whatever the contents;
  * `genStep` / `genLast` : the canonical shape of the loop body / the last statement of the GENERATED
    definition (the tie theorem checks `Generated.LoopsChol.cholupdate = genLast ∘ forRange genStep` by `rfl`);
  * `listStep` : the same pass on lists with numpy's slice arithmetic (`take / drop / zipWith / map`);
  * `genStep_ofRows` (runtime → lists), `listStep_eq` (slice arithmetic = the model's explicit index ranges),
    `cholupdateStep_wf` (the shape invariant).
Core Lean only (no Mathlib).
-/
import Generated.LoopsChol
import Model.Cholesky
import Proofs.TieCore

open Model PyRt

namespace TieCholAux

/-! ### a block `P ++ (R ++ Q)` of a row-major array: row `R` starts at offset `P.length` -/

theorem block_getD {α : Type} (P R Q : List α) (m j : Nat) (hm : P.length = m) (hj : j < R.length) (d : α) :
    (P ++ (R ++ Q)).getD (m + j) d = R[j] := by
  subst hm
  simp [List.getD_eq_getElem?_getD, List.getElem?_append_right, List.getElem?_append_left, hj]

theorem block_set {α : Type} (P R Q : List α) (m j : Nat) (hm : P.length = m) (hj : j < R.length) (v : α) :
    (P ++ (R ++ Q)).set (m + j) v = P ++ (R.set j v ++ Q) := by
  subst hm
  rw [List.set_append_right _ _ (by omega)]
  have e : P.length + j - P.length = j := by omega
  rw [e, List.set_append_left _ _ hj]

theorem block_row {α : Type} (P R Q : List α) (m w : Nat) (hm : P.length = m) (hw : R.length = w) :
    ((P ++ (R ++ Q)).drop m).take w = R := by
  subst hm; subst hw
  rw [List.drop_left' rfl, List.take_left' rfl]

theorem block_setTail {α : Type} (P R Q : List α) (m w lo : Nat) (hm : P.length = m) (hw : R.length = w)
    (hlo : lo ≤ w) (v : List α) :
    (P ++ (R ++ Q)).take (m + lo) ++ v ++ (P ++ (R ++ Q)).drop (m + w) = P ++ ((R.take lo ++ v) ++ Q) := by
  subst hm; subst hw
  rw [List.take_length_add_append, List.drop_length_add_append, List.take_append_of_le_length hlo,
    List.drop_left' rfl]
  simp [List.append_assoc]

/-! ### the list of rows, flattened -/

theorem flatten_set_row {α : Type} (rows : List (List α)) (t : Nat) (ht : t < rows.length) (r' : List α) :
    (rows.set t r').flatten = (rows.take t).flatten ++ (r' ++ (rows.drop (t + 1)).flatten) := by
  induction rows generalizing t with
  | nil => simp at ht
  | cons a rows ih =>
    cases t with
    | zero => simp
    | succ t =>
      simp only [List.length_cons, Nat.add_lt_add_iff_right] at ht
      simp [ih t ht]

theorem flatten_split {α : Type} (rows : List (List α)) (t : Nat) (ht : t < rows.length) :
    rows.flatten = (rows.take t).flatten ++ (rows[t] ++ (rows.drop (t + 1)).flatten) := by
  have := flatten_set_row rows t ht rows[t]
  rwa [List.set_getElem_self] at this

theorem flatten_take_length {α : Type} (rows : List (List α)) (n : Nat) (hr : ∀ r ∈ rows, r.length = n)
    (t : Nat) (ht : t ≤ rows.length) : (rows.take t).flatten.length = t * n := by
  induction rows generalizing t with
  | nil =>
    have : t = 0 := by simpa using ht
    subst this; simp
  | cons a rows ih =>
    cases t with
    | zero => simp
    | succ t =>
      simp only [List.length_cons, Nat.add_le_add_iff_right] at ht
      have ha : a.length = n := hr a (by simp)
      have := ih (fun r h => hr r (by simp [h])) t ht
      simp only [List.take_succ_cons, List.flatten_cons, List.length_append, this, ha]
      rw [Nat.succ_mul]; omega

/-! ### the embedding -/

/-- a matrix given as its list of rows (each of length `n`) as the `U.length × n` numpy array -/
def ofRows {α : Type} (n : Nat) (U : List (List α)) : A2 α := { h := U.length, w := n, data := U.flatten }

@[simp] theorem ofRows_h {α : Type} (n : Nat) (U : List (List α)) : (ofRows n U).h = U.length := rfl
@[simp] theorem ofRows_w {α : Type} (n : Nat) (U : List (List α)) : (ofRows n U).w = n := rfl

section
variable {α : Type} {n : Nat} {U : List (List α)}

/-- `U[t, j]` -/
theorem get_ofRows [Inhabited α] (hr : ∀ r ∈ U, r.length = n) {t j : Nat} (ht : t < U.length) (hj : j < n) :
    A2.get (ofRows n U) (t : Int) (j : Int) = U[t][j]'(by rw [hr _ (List.getElem_mem ht)]; exact hj) := by
  rw [A2.get_natCast _ _ _ (by simpa using ht) (by simpa using hj)]
  show (U.flatten).getD (t * n + j) default = _
  rw [flatten_split U t ht]
  exact block_getD _ _ _ _ _ (flatten_take_length U n hr t (Nat.le_of_lt ht))
    (by rw [hr _ (List.getElem_mem ht)]; exact hj) _

/-- `U[t, j] = v` -/
theorem set_ofRows (hr : ∀ r ∈ U, r.length = n) {t j : Nat} (ht : t < U.length) (hj : j < n) (v : α) :
    A2.set (ofRows n U) (t : Int) (j : Int) v = ofRows n (U.set t (U[t].set j v)) := by
  rw [A2.set_natCast _ _ _ _ (by simpa using ht) (by simpa using hj)]
  show ({ h := U.length, w := n, data := (U.flatten).set (t * n + j) v } : A2 α)
    = { h := (U.set t (U[t].set j v)).length, w := n, data := (U.set t (U[t].set j v)).flatten }
  rw [List.length_set, flatten_set_row U t ht]
  conv => lhs; rw [flatten_split U t ht]
  rw [block_set _ _ _ _ _ (flatten_take_length U n hr t (Nat.le_of_lt ht))
    (by rw [hr _ (List.getElem_mem ht)]; exact hj)]

/-- `U[t, lo:]` (the read: `A2.rowSlice U t lo U.shape[1]`) -/
theorem rowTail_ofRows (hr : ∀ r ∈ U, r.length = n) {t : Nat} (ht : t < U.length) (lo : Nat) :
    A2.rowSlice (ofRows n U) (t : Int) (lo : Int) (n : Int) = U[t].drop lo := by
  have hlen : U[t].length = n := hr _ (List.getElem_mem ht)
  rw [A2.rowSlice_natCast, A2.row_natCast _ _ (by simpa using ht)]
  show (((U.flatten).drop (t * n)).take n |>.drop lo).take (n - lo) = _
  rw [flatten_split U t ht, block_row _ _ _ _ _ (flatten_take_length U n hr t (Nat.le_of_lt ht)) hlen]
  exact List.take_of_length_le (by simp [hlen])

/-- `U[t, lo:] = v` for a value of the length of the tail -/
theorem setRowTail_ofRows (hr : ∀ r ∈ U, r.length = n) {t lo : Nat} (ht : t < U.length) (hlo : lo ≤ n)
    (v : List α) (hv : v.length = n - lo) :
    A2.setRowTail (ofRows n U) (t : Int) (lo : Int) v = ofRows n (U.set t (U[t].take lo ++ v)) := by
  have hlen : U[t].length = n := hr _ (List.getElem_mem ht)
  rw [A2.setRowTail_natCast _ _ _ _ (by simpa using ht) (by simpa using hlo) (by simpa using hv)]
  show ({ h := U.length, w := n,
          data := (U.flatten).take (t * n + lo) ++ v ++ (U.flatten).drop (t * n + n) } : A2 α)
    = { h := (U.set t (U[t].take lo ++ v)).length, w := n, data := (U.set t (U[t].take lo ++ v)).flatten }
  rw [List.length_set, flatten_set_row U t ht]
  conv => lhs; rw [flatten_split U t ht]
  rw [block_setTail _ _ _ _ _ _ (flatten_take_length U n hr t (Nat.le_of_lt ht)) hlen hlo]

end

/-! ### the generated loop body and last statement, in canonical form -/

section Gen
variable {α : Type} [Add α] [Sub α] [Mul α] [Div α] [Inhabited α]

/-- one pass of the loop of `Generated.LoopsChol.cholupdate` on the state `(U, x)` -/
def genStep (sqrt : α → α) (k : Int) (st : A2 α × A1 α) : A2 α × A1 α :=
  let U := st.1
  let x := st.2
  let Ukk : α := A2.get U k k
  let xk : α := A1.get x k
  let r : α := sqrt ((PyRt.sq Ukk) + (PyRt.sq xk))
  let c : α := r / Ukk
  let s : α := xk / Ukk
  let U := A2.set U k k r
  let U := A2.setRowTail U k (k + 1) (A1.map (fun u => u / c) (A1.zipWith (fun u v => u + v)
    (A2.rowSlice U k (k + 1) (A2.shape1 U)) (A1.map (fun u => s * u) (A1.slice x (k + 1) (A1.len x)))))
  let x := A1.setTail x (k + 1) (A1.zipWith (fun u v => u - v)
    (A1.map (fun u => c * u) (A1.slice x (k + 1) (A1.len x)))
    (A1.map (fun u => s * u) (A2.rowSlice U k (k + 1) (A2.shape1 U))))
  (U, x)

/-- the statements after the loop: `k = n - 1; U[k, k] = np.sqrt(U[k, k] ** 2 + x[k] ** 2); return U` -/
def genLast (sqrt : α → α) (n : Int) (st : A2 α × A1 α) : A2 α :=
  A2.set st.1 (n - 1) (n - 1)
    (sqrt ((PyRt.sq (A2.get st.1 (n - 1) (n - 1))) + (PyRt.sq (A1.get st.2 (n - 1)))))

/-- the pass on lists, with numpy's slice arithmetic spelled as `take / drop / zipWith / map` -/
def listStep (sqrt : α → α) (U : List (List α)) (x : List α) (k : Nat) : List (List α) × List α :=
  let row0 := U.getD k []
  let Ukk := row0.getD k default
  let xk := x.getD k default
  let r := sqrt (Ukk * Ukk + xk * xk)
  let c := r / Ukk
  let s := xk / Ukk
  let row1 := row0.set k r
  let rowk := row1.take (k + 1)
    ++ (List.zipWith (fun u v => u + v) (row1.drop (k + 1)) ((x.drop (k + 1)).map fun u => s * u)).map
        fun u => u / c
  let x' := x.take (k + 1)
    ++ List.zipWith (fun u v => u - v) ((x.drop (k + 1)).map fun u => c * u)
        ((rowk.drop (k + 1)).map fun u => s * u)
  (U.set k rowk, x')

/-- runtime → lists: one generated pass on an embedded `n × n` state is `listStep` -/
theorem genStep_ofRows (sqrt : α → α) {n k : Nat} (hk : k + 1 < n) {U : List (List α)} {x : List α}
    (hU : U.length = n) (hr : ∀ r ∈ U, r.length = n) (hx : x.length = n) :
    genStep sqrt (k : Int) (ofRows n U, x) = (ofRows n (listStep sqrt U x k).1, (listStep sqrt U x k).2) := by
  have hkU : k < U.length := by omega
  have hrow : U[k].length = n := hr _ (List.getElem_mem hkU)
  have h1 : ((k : Int) + 1) = ((k + 1 : Nat) : Int) := by omega
  have hD : U.getD k [] = U[k] := by simp [List.getD_eq_getElem?_getD, hkU]
  -- the generated reads
  have eUkk : A2.get (ofRows n U) (k : Int) (k : Int) = (U.getD k []).getD k default := by
    rw [get_ofRows hr hkU (by omega), hD]
    simp [List.getD_eq_getElem?_getD, hrow, (by omega : k < n)]
  unfold genStep listStep
  simp only [A2.shape1_eq, A2.set_w, A2.setRowTail_w, ofRows_w, A1.len_eq, hx, h1, A1.get_natCast,
    A1.slice_natCast, A1.map, A1.zipWith, PyRt.sq, eUkk]
  -- names for the scalars
  generalize (U.getD k []).getD k default = Ukk
  generalize x.getD k default = xk
  generalize sqrt (Ukk * Ukk + xk * xk) = r
  -- the point store
  rw [set_ofRows hr hkU (by omega)]
  have hr1 : ∀ q ∈ U.set k (U[k].set k r), q.length = n := by
    intro q hq
    rcases List.mem_or_eq_of_mem_set hq with h | h
    · exact hr q h
    · rw [h, List.length_set]; exact hrow
  have hk1 : k < (U.set k (U[k].set k r)).length := by rw [List.length_set]; exact hkU
  have eg1 : (U.set k (U[k].set k r))[k] = U[k].set k r := by simp
  -- the tail read of the row after the point store
  rw [rowTail_ofRows hr1 hk1, eg1]
  have hxd : (x.drop (k + 1)).length = n - (k + 1) := by simp [hx]
  have htk : (List.take (n - (k + 1)) (x.drop (k + 1))) = x.drop (k + 1) :=
    List.take_of_length_le (by omega)
  rw [htk]
  -- the tail store into the row
  rw [setRowTail_ofRows hr1 hk1 (by omega) _ (by simp [hrow, hx] <;> omega), eg1, List.set_set]
  -- the tail read of the new row
  have hr2 : ∀ q ∈ U.set k (List.take (k + 1) (U[k].set k r) ++ List.map (fun u => u / (r / Ukk))
        (List.zipWith (fun u v => u + v) (List.drop (k + 1) (U[k].set k r))
          (List.map (fun u => xk / Ukk * u) (List.drop (k + 1) x)))), q.length = n := by
    intro q hq
    rcases List.mem_or_eq_of_mem_set hq with h | h
    · exact hr q h
    · rw [h]; simp [hrow, hx] <;> omega
  rw [rowTail_ofRows hr2 (by rw [List.length_set]; exact hkU)]
  simp only [List.getElem_set_self]
  -- the tail store into x
  rw [A1.setTail_natCast _ _ _ (by omega) (by simp [hrow, hx] <;> omega)]
  rw [hD]

end Gen

/-! ### slice arithmetic = the model's explicit index ranges -/

section Model
variable {α : Type} [Add α] [Sub α] [Mul α] [Div α] [OfNat α 0] [Inhabited α]

theorem getD_any {β : Type} (l : List β) (j : Nat) (hj : j < l.length) (d : β) : l.getD j d = l[j] := by
  simp [List.getD_eq_getElem?_getD, hj]

/-- `listStep` is the model's `cholupdateStep` on a well-shaped state -/
theorem listStep_eq (sqrt : α → α) {n k : Nat} (hk : k < n) {U : List (List α)} {x : List α}
    (hU : U.length = n) (hr : ∀ r ∈ U, r.length = n) (hx : x.length = n) :
    listStep sqrt U x k = Impl.cholupdateStep sqrt n (U, x) k := by
  have hkU : k < U.length := by omega
  have hrow : U[k].length = n := hr _ (List.getElem_mem hkU)
  have hD : U.getD k [] = U[k] := by simp [List.getD_eq_getElem?_getD, hkU]
  have eUkk : (U.getD k []).getD k default = mget U k k := by
    unfold mget; rw [hD, getD_any _ _ (by omega), getD_any _ _ (by omega)]
  have exk : x.getD k default = vget x k := by
    unfold vget; rw [getD_any _ _ (by omega), getD_any _ _ (by omega)]
  unfold listStep Impl.cholupdateStep
  simp only [eUkk, exk]
  generalize mget U k k = Ukk
  generalize vget x k = xk
  generalize sqrt (Ukk * Ukk + xk * xk) = r
  generalize r / Ukk = c
  generalize xk / Ukk = s
  rw [hD]
  -- the new row k
  have erow : List.take (k + 1) (U[k].set k r)
        ++ List.map (fun u => u / c) (List.zipWith (fun u v => u + v) (List.drop (k + 1) (U[k].set k r))
            (List.map (fun u => s * u) (List.drop (k + 1) x)))
      = (List.range n).map fun j =>
          if j < k then mget U k j else if j = k then r else (mget U k j + s * vget x j) / c := by
    apply List.ext_getElem
    · simp [hrow, hx]; omega
    · intro j h1 h2
      have hj : j < n := by simpa using h2
      have hm : mget U k j = U[k][j] := by
        unfold mget; rw [hD, getD_any _ _ (by omega)]
      have hv : vget x j = x[j] := by unfold vget; rw [getD_any _ _ (by omega)]
      rw [List.getElem_map, List.getElem_range, hm, hv, List.getElem_append]
      by_cases hjk : j < k + 1
      · have hlt : j < (List.take (k + 1) (U[k].set k r)).length := by simp [hrow]; omega
        rw [dif_pos hlt, List.getElem_take, List.getElem_set]
        by_cases e : k = j
        · subst e; simp
        · have : j < k := by omega
          simp [e, this]
      · have hge : ¬ j < (List.take (k + 1) (U[k].set k r)).length := by simp [hrow]; omega
        rw [dif_neg hge]
        have hl : (List.take (k + 1) (U[k].set k r)).length = k + 1 := by simp [hrow]; omega
        simp only [hl, List.getElem_map, List.getElem_zipWith, List.getElem_drop, List.getElem_set]
        have e1 : ¬ j < k := by omega
        have e2 : ¬ j = k := by omega
        have e3 : ¬ k = j := by omega
        have e4 : k + 1 + (j - (k + 1)) = j := by omega
        simp only [e1, e2, if_false, e4, e3]
  rw [erow]
  -- the new x
  congr 1
  generalize hrk : ((List.range n).map fun j =>
      if j < k then mget U k j else if j = k then r else (mget U k j + s * vget x j) / c) = rowk
  have hrkl : rowk.length = n := by rw [← hrk]; simp
  apply List.ext_getElem
  · simp [hrkl, hx]; omega
  · intro j h1 h2
    have hj : j < n := by simpa using h2
    have hv : vget x j = x[j] := by unfold vget; rw [getD_any _ _ (by omega)]
    have hw : vget rowk j = rowk[j] := by unfold vget; rw [getD_any _ _ (by omega)]
    rw [List.getElem_map, List.getElem_range, hv, hw, List.getElem_append]
    by_cases hjk : j < k + 1
    · have hlt : j < (List.take (k + 1) x).length := by simp [hx]; omega
      rw [dif_pos hlt, List.getElem_take]
      have : j ≤ k := by omega
      simp [this]
    · have hge : ¬ j < (List.take (k + 1) x).length := by simp [hx]; omega
      rw [dif_neg hge]
      have hl : (List.take (k + 1) x).length = k + 1 := by simp [hx]; omega
      simp only [hl, List.getElem_map, List.getElem_zipWith, List.getElem_drop]
      have e1 : ¬ j ≤ k := by omega
      have e4 : k + 1 + (j - (k + 1)) = j := by omega
      simp only [e1, if_false, e4]

omit [Inhabited α] in
/-- the shape invariant of the loop -/
theorem cholupdateStep_wf (sqrt : α → α) {n k : Nat} {U : List (List α)} {x : List α}
    (hU : U.length = n) (hr : ∀ r ∈ U, r.length = n) :
    (Impl.cholupdateStep sqrt n (U, x) k).1.length = n
      ∧ (∀ r ∈ (Impl.cholupdateStep sqrt n (U, x) k).1, r.length = n)
      ∧ (Impl.cholupdateStep sqrt n (U, x) k).2.length = n := by
  unfold Impl.cholupdateStep
  refine ⟨by simp [hU], ?_, by simp⟩
  intro q hq
  rcases List.mem_or_eq_of_mem_set hq with h | h
  · exact hr q h
  · rw [h]; simp

end Model

end TieCholAux
