/-
Proofs/TieConv.lean — LOOP TIES for property C03 (masked PSF convolution): the definitions that
harness/translate2.py regenerates from the current Python source of the four `@numba_util.jit()` static
methods of `autoarray/operators/convolver.py : Convolver` (Generated/LoopsConv.lean) are equal, for every
input and every size, to the hand-written `Model.Impl.*` functions of Model/Convolution.lean that the
theorems of Props/C03.lean are about.  Only `*_tie` theorems live in this file (helpers and the
embeddings `ofMia`, `ofKernel`, `padTo`, `idxTable`, `kerTable`, `lenTable`, `ofRows`:
Proofs/TieConvAux.lean).  See design_notes/LOOP_TIES.md for the proof pattern and
design_notes/TIES_C03.md for what is and is not tied.
-/
import Generated.LoopsConv
import Model.Convolution
import Proofs.TieCore
import Proofs.TieConvAux
import Proofs.TieConvTrunc

open Model PyRt TieCore TieConvAux

namespace TieConv

/-- `Convolver.frame_at_coordinates_jit` = `Impl.frameAt`: the code writes the slim index of the target
    into `frame[count]` and the kernel entry into `kernel_frame[count]` of two `-1 * np.ones(kh*kw)`
    arrays and increments `count`; the model appends the pair `(index, kernel entry)`.  `htrunc` is the
    only property of `int()` the function uses: `int(n / 2) = n // 2` for a natural number `n`. -/
theorem frame_at_coordinates_jit_tie {α : Type} [Div α] [Neg α] [OfNat α 0] [OfNat α 1] [IntCast α]
    [Inhabited α] (trunc : α → Int)
    (htrunc : ∀ n : Nat, trunc (((n : Int) : α) / ((2 : Int) : α)) = ((n / 2 : Nat) : Int))
    (m : Mask) (wf : m.WF) (mia : List (Option Nat)) (hmia : mia.length = m.h * m.w)
    (K : Kernel α) (hK : K.vals.length = K.h * K.w) (c : Nat × Nat) :
    Generated.LoopsConv.frame_at_coordinates_jit trunc ((c.1 : Int), (c.2 : Int)) (ofMask m)
        (ofMia m.h m.w mia) (ofKernel K)
      = (padTo (K.h * K.w) (-(1 : α)) ((Impl.frameAt m mia K c).map fun e => (((e.1 : Nat) : Int) : α)),
         padTo (K.h * K.w) (-(1 : α)) ((Impl.frameAt m mia K c).map fun e => e.2)) := by
  unfold Generated.LoopsConv.frame_at_coordinates_jit
  rw [frameAt_eq]
  simp only [A2.shape0_eq, A2.shape1_eq, ofMia_h, ofMia_w, ofKernel_h, ofKernel_w, htrunc,
    forRange_yx, ← Int.natCast_mul, A1.full_natCast]
  rw [foldl_congr_mem (g := packStep (entry m mia K c) (fun e => (((e.1 : Nat) : Int) : α))
      (fun e => e.2))]
  · have := pack2_filterMap (pixels K.h K.w) (entry m mia K c) (fun e => (((e.1 : Nat) : Int) : α))
      (fun e => e.2) (-(1 : α)) (-(1 : α)) [] [] (K.h * K.w) rfl
      (Nat.le_of_eq (pixels_length K.h K.w))
    simp only [List.length_nil, Nat.zero_add, List.nil_append, Int.natCast_zero] at this
    rw [this]
    simp [padTo]
  · intro p hp st
    rw [mem_pixels] at hp
    unfold packStep entry
    simp only
    generalize hx : (c.1 : Int) - ((K.h / 2 : Nat) : Int) + (p.1 : Int) = x
    generalize hy : (c.2 : Int) - ((K.w / 2 : Nat) : Int) + (p.2 : Int) = y
    by_cases hin : 0 ≤ x ∧ x < (m.h : Int) ∧ 0 ≤ y ∧ y < (m.w : Int)
    · obtain ⟨X, rfl⟩ : ∃ X : Nat, x = (X : Int) := ⟨x.toNat, by omega⟩
      obtain ⟨Y, rfl⟩ : ∃ Y : Nat, y = (Y : Int) := ⟨y.toNat, by omega⟩
      have hX : X < m.h := by omega
      have hY : Y < m.w := by omega
      rw [get_ofMask m wf hX hY, get_ofMia m.h m.w mia hmia hX hY, get_ofKernel K hK hp.1 hp.2]
      simp only [Int.toNat_natCast]
      cases hm : mia.getD (X * m.w + Y) none with
      | none => simp [miaVal, hin]
      | some v =>
        rcases Bool.eq_false_or_eq_true (m.get X Y) with hg | hg <;> simp [miaVal, hin, hg]
    · have : ((decide (0 ≤ x) && decide (x < (m.h : Int)))
          && (decide (0 ≤ y) && decide (y < (m.w : Int)))) = false := by
        simp only [Bool.and_eq_false_iff, decide_eq_false_iff_not]
        omega
      simp [this, hin]

/-- non-vacuity: the tie at the type the driver executes (`Rat`, `int()` = `Model.truncRat`); its
    truncation hypothesis follows from the project's `int()` contract (`TieConvAux.half_of_truncSpec`) -/
example (m : Mask) (wf : m.WF) (mia : List (Option Nat)) (hmia : mia.length = m.h * m.w)
    (K : Kernel Rat) (hK : K.vals.length = K.h * K.w) (c : Nat × Nat) :
    Generated.LoopsConv.frame_at_coordinates_jit truncRat ((c.1 : Int), (c.2 : Int)) (ofMask m)
        (ofMia m.h m.w mia) (ofKernel K)
      = (padTo (K.h * K.w) (-1) ((Impl.frameAt m mia K c).map fun e => (((e.1 : Nat) : Int) : Rat)),
         padTo (K.h * K.w) (-1) ((Impl.frameAt m mia K c).map fun e => e.2)) :=
  frame_at_coordinates_jit_tie truncRat half_truncRat m wf mia hmia K hK c

/-- `Convolver.convolve_no_blurring_jit` = `Impl.convolveNoBlurring`, the frame tables being those of
    the convolver's image frames (one row of width `W` per frame, any padding). -/
theorem convolve_no_blurring_jit_tie {α : Type} [Add α] [Mul α] [OfNat α 0] [Inhabited α]
    (cv : Impl.Convolver α) (W : Nat) (zi : Int) (zk : α) (img : List α)
    (hrows : img.length ≤ cv.imageFrames.length) (hW : ∀ fr ∈ cv.imageFrames, fr.length ≤ W) :
    Generated.LoopsConv.convolve_no_blurring_jit img
        (idxTable W zi cv.imageFrames) (kerTable W zk cv.imageFrames) (lenTable cv.imageFrames)
      = Impl.convolveNoBlurring cv img := by
  unfold Generated.LoopsConv.convolve_no_blurring_jit Impl.convolveNoBlurring
  simp only [A1.len_eq, forRange_zero_nat, A1.zeros_natCast]
  exact scatter_loop cv.imageFrames W zi zk img _ hrows hW

/-- `Convolver.convolve_jit` = `Impl.convolve`: zeros, the image pass, then the blurring pass. -/
theorem convolve_jit_tie {α : Type} [Add α] [Mul α] [OfNat α 0] [Inhabited α]
    (cv : Impl.Convolver α) (W W' : Nat) (zi zi' : Int) (zk zk' : α) (img blur : List α)
    (hrows : img.length ≤ cv.imageFrames.length) (hW : ∀ fr ∈ cv.imageFrames, fr.length ≤ W)
    (hrows' : blur.length ≤ cv.blurringFrames.length) (hW' : ∀ fr ∈ cv.blurringFrames, fr.length ≤ W') :
    Generated.LoopsConv.convolve_jit img
        (idxTable W zi cv.imageFrames) (kerTable W zk cv.imageFrames) (lenTable cv.imageFrames)
        blur
        (idxTable W' zi' cv.blurringFrames) (kerTable W' zk' cv.blurringFrames)
        (lenTable cv.blurringFrames)
      = Impl.convolve cv img blur := by
  unfold Generated.LoopsConv.convolve_jit Impl.convolve
  simp only [A1.len_eq, forRange_zero_nat, A1.zeros_natCast]
  rw [scatter_loop cv.imageFrames W zi zk img _ hrows hW]
  exact scatter_loop cv.blurringFrames W' zi' zk' blur _ hrows' hW'

/-- `Convolver.convolve_matrix_jit` = `Impl.convolveMatrix` (the repaired sparsity test `value != 0`),
    the mapping matrix given as its list of `nrows` rows of width `ncols`. -/
theorem convolve_matrix_jit_tie {α : Type} [Add α] [Mul α] [OfNat α 0] [IntCast α] [DecidableEq α]
    [Inhabited α] (cv : Impl.Convolver α) (W : Nat) (zi : Int) (zk : α) (nrows ncols : Nat)
    (M : List (List α)) (hM : M.length = nrows) (hMr : ∀ r ∈ M, r.length = ncols)
    (hrows : nrows ≤ cv.imageFrames.length) (hW : ∀ fr ∈ cv.imageFrames, fr.length ≤ W) :
    Generated.LoopsConv.convolve_matrix_jit (ofRows nrows ncols M)
        (idxTable W zi cv.imageFrames) (kerTable W zk cv.imageFrames) (lenTable cv.imageFrames)
      = ofRows nrows ncols (Impl.convolveMatrix cv nrows ncols M) := by
  unfold Generated.LoopsConv.convolve_matrix_jit Impl.convolveMatrix Impl.convolveMatrixWith
  simp only [A2.shape0_eq, A2.shape1_eq, ofRows_h, ofRows_w, forRange_zero_nat, A2.zeros_natCast]
  have hMrel : RowsRel nrows ncols (ofRows nrows ncols M) M := ⟨hM, hMr, rfl⟩
  apply rowsRel_foldl_eq
  · exact ⟨by simp, by simp, by simp [ofRows]⟩
  · intro c hc a rows hR
    have hc' : c < ncols := by simpa using hc
    apply foldl_rel (RowsRel nrows ncols) _ _ _ hR
    intro s hs a rows hR
    have hs' : s < nrows := by simpa using hs
    have hsf : s < cv.imageFrames.length := by omega
    rw [get_ofRows hMrel hs' hc' 0]
    split
    · rw [get_lenTable _ hsf, row_idxTable W zi _ hW hsf, row_kerTable W zk _ hW hsf,
        forRange_zero_nat]
      have hfr : cv.imageFrames.getD s [] = cv.imageFrames[s] := by
        simp [List.getD_eq_getElem?_getD, List.getElem?_eq_getElem hsf]
      simp only [hfr]
      apply foldl_rel (RowsRel nrows ncols) _ _ _ hR
      intro k hk a rows hR
      have hk' : k < cv.imageFrames[s].length := by simpa using hk
      have he : cv.imageFrames[s].getD k (0, 0) = cv.imageFrames[s][k] := by
        simp [List.getD_eq_getElem?_getD, List.getElem?_eq_getElem hk']
      rw [get_padTo_map W zi cv.imageFrames[s] (fun e => (e.1 : Int)) hk',
        get_padTo_map W zk cv.imageFrames[s] (fun e => e.2) hk', he]
      exact matAdd_step hR _ c hc' _
    · exact hR

end TieConv
