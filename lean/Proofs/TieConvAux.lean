/-
Proofs/TieConvAux.lean — helper definitions and lemmas for the LOOP TIES of property C03
(Proofs/TieConv.lean; DESIGN.md §12, design_notes/LOOP_TIES.md, design_notes/TIES_C03.md).

  * embeddings of the model's values into the numpy runtime: `ofMia` (`mask_index_array`, `-1` for
    `none`), `ofKernel`, `padTo` (the fixed-length padded frame arrays), `idxTable` / `kerTable` /
    `lenTable` (the `image_frame_1d_indexes / _kernels / _lengths` tables of a `Convolver`),
    `ofRows` (a matrix given as a list of rows);
  * `pack2_filterMap`: two buffers written at one running counter = two appends (+ padding left over);
  * reads of the embedded tables (`row_idxTable`, `row_kerTable`, `get_lenTable`, `get_padTo`);
  * `flatten_getD` / `flatten_set`: point read / write of a row-major matrix vs. its list of rows.
Core Lean only.
-/
import Model.Convolution
import Proofs.TieCore

open Model PyRt TieCore

namespace TieConvAux

variable {α : Type}

/-! ### embeddings -/

/-- an entry of `mask_index_array`: the slim index, `-1` at masked pixels -/
def miaVal : Option Nat → Int
  | some v => (v : Int)
  | none => -1

/-- `mask_index_array` as the `h × w` integer array the Python function receives -/
def ofMia (h w : Nat) (mia : List (Option Nat)) : A2 Int := { h := h, w := w, data := mia.map miaVal }

/-- `kernel_2d` -/
def ofKernel (K : Kernel α) : A2 α := { h := K.h, w := K.w, data := K.vals }

/-- a list padded with `z` up to length `n` (`-1 * np.ones(n)` partially overwritten from the front) -/
def padTo (n : Nat) (z : β) (l : List β) : List β := l ++ List.replicate (n - l.length) z

theorem padTo_length (n : Nat) (z : β) (l : List β) (h : l.length ≤ n) : (padTo n z l).length = n := by
  simp [padTo]; omega

/-- `image_frame_1d_indexes`: one row of width `W` per frame, the slim indexes padded with `zi` -/
def idxTable (W : Nat) (zi : Int) (frames : List (List (Nat × α))) : A2 Int :=
  { h := frames.length, w := W,
    data := frames.flatMap fun fr => padTo W zi (fr.map fun e => (e.1 : Int)) }

/-- `image_frame_1d_kernels`: one row of width `W` per frame, the kernel values padded with `zk` -/
def kerTable (W : Nat) (zk : α) (frames : List (List (Nat × α))) : A2 α :=
  { h := frames.length, w := W, data := frames.flatMap fun fr => padTo W zk (fr.map fun e => e.2) }

/-- `image_frame_1d_lengths` -/
def lenTable (frames : List (List (Nat × α))) : A1 Int := frames.map fun fr => (fr.length : Int)

/-- a matrix given as its list of rows, as the `nrows × ncols` numpy array -/
def ofRows (nrows ncols : Nat) (M : List (List α)) : A2 α := { h := nrows, w := ncols, data := M.flatten }

@[simp] theorem ofMia_h (h w : Nat) (mia : List (Option Nat)) : (ofMia h w mia).h = h := rfl
@[simp] theorem ofMia_w (h w : Nat) (mia : List (Option Nat)) : (ofMia h w mia).w = w := rfl
@[simp] theorem ofKernel_h (K : Kernel α) : (ofKernel K).h = K.h := rfl
@[simp] theorem ofKernel_w (K : Kernel α) : (ofKernel K).w = K.w := rfl

/-- `mask_index_array[y, x]` on the embedded table (in range, one entry per pixel) -/
theorem get_ofMia (h w : Nat) (mia : List (Option Nat)) (hmia : mia.length = h * w) {y x : Nat}
    (hy : y < h) (hx : x < w) :
    A2.get (ofMia h w mia) (y : Int) (x : Int) = miaVal (mia.getD (y * w + x) none) := by
  have hlt : y * w + x < mia.length := by rw [hmia]; exact flat_lt_of_lt hy hx
  have := get_ofNative h w (mia.map miaVal) (by simpa using hmia) (miaVal none) hy hx
  rw [show ofMia h w mia = ofNative h w (mia.map miaVal) from rfl, this]
  simp [List.getD_eq_getElem?_getD, List.getElem?_eq_getElem hlt]

/-- `kernel_2d[i, j]` on the embedded kernel is `Kernel.get` (in range, full data) -/
theorem get_ofKernel [OfNat α 0] [Inhabited α] (K : Kernel α) (hK : K.vals.length = K.h * K.w)
    {i j : Nat} (hi : i < K.h) (hj : j < K.w) :
    A2.get (ofKernel K) (i : Int) (j : Int) = K.get i j := by
  rw [show ofKernel K = ofNative K.h K.w K.vals from rfl, get_ofNative K.h K.w K.vals hK 0 hi hj]
  rfl

/-! ### the frame loop: two buffers, one counter -/

/-- the body of the `i, j` loop of `frame_at_coordinates_jit` as an optional entry
    (the same as `Model.frameEntry`, without the ring structure) -/
def entry [OfNat α 0] (m : Mask) (mia : List (Option Nat)) (K : Kernel α) (c : Nat × Nat)
    (ij : Nat × Nat) : Option (Nat × α) :=
  let x : Int := (c.1 : Int) - ((K.h / 2 : Nat) : Int) + (ij.1 : Int)
  let y : Int := (c.2 : Int) - ((K.w / 2 : Nat) : Int) + (ij.2 : Int)
  if 0 ≤ x ∧ x < (m.h : Int) ∧ 0 ≤ y ∧ y < (m.w : Int) then
    match mia.getD (x.toNat * m.w + y.toNat) none with
    | some v => if !m.get x.toNat y.toNat then some (v, K.get ij.1 ij.2) else none
    | none => none
  else none

theorem foldl_append_filterMap {γ δ : Type} (l : List γ) (g : γ → Option δ) (init : List δ) :
    l.foldl (fun acc a => match g a with | some b => acc ++ [b] | none => acc) init
      = init ++ l.filterMap g := by
  induction l generalizing init with
  | nil => simp
  | cons a l ih =>
    simp only [List.foldl_cons, List.filterMap_cons]
    rw [ih]
    cases g a <;> simp

theorem frameAt_eq [OfNat α 0] (m : Mask) (mia : List (Option Nat)) (K : Kernel α) (c : Nat × Nat) :
    Impl.frameAt m mia K c = (pixels K.h K.w).filterMap (entry m mia K c) := by
  unfold Impl.frameAt
  rw [forYX_eq_foldl]
  have := foldl_append_filterMap (pixels K.h K.w) (entry m mia K c) []
  simp only [List.nil_append] at this
  rw [← this]
  congr 1
  funext acc ij
  unfold entry
  simp only
  split
  · split <;> rename_i hmia
    · split <;> simp_all
    · simp_all
  · rfl

/-- the canonical step of the loop `if g i = some e: a[k] = v0 e; b[k] = v1 e; k += 1` -/
def packStep {ι β γ : Type} (g : ι → Option γ) (v0 v1 : γ → β) (st : A1 β × A1 β × Int) (i : ι) :
    A1 β × A1 β × Int :=
  match g i with
  | some e => (A1.set st.1 st.2.2 (v0 e), A1.set st.2.1 st.2.2 (v1 e), st.2.2 + 1)
  | none => st

/-- the loop `if g i = some e: a[k] = v0 e; b[k] = v1 e; k += 1` over two buffers that have room for
    every element of the list leaves the selected values, in order, followed by the untouched padding -/
theorem pack2_filterMap {ι β γ : Type} (l : List ι) (g : ι → Option γ) (v0 v1 : γ → β) (z0 z1 : β)
    (xs ys : List β) (n : Nat) (hxy : xs.length = ys.length) (hn : l.length ≤ n) :
    l.foldl (packStep g v0 v1)
      (xs ++ List.replicate n z0, ys ++ List.replicate n z1, (xs.length : Int))
    = (xs ++ (l.filterMap g).map v0 ++ List.replicate (n - (l.filterMap g).length) z0,
       ys ++ (l.filterMap g).map v1 ++ List.replicate (n - (l.filterMap g).length) z1,
       ((xs.length + (l.filterMap g).length : Nat) : Int)) := by
  induction l generalizing xs ys n with
  | nil => simp
  | cons a l ih =>
    simp only [List.foldl_cons, List.filterMap_cons]
    have hl : l.length + 1 ≤ n := by simpa using hn
    cases hg : g a with
    | none => simp only [packStep, hg]; exact ih xs ys n hxy (by omega)
    | some e =>
      obtain ⟨n', rfl⟩ : ∃ n', n = n' + 1 := ⟨n - 1, by omega⟩
      simp only [packStep, hg, A1.set_natCast]
      have h1 := set_pack xs n' z0 (v0 e)
      have h2 := set_pack ys n' z1 (v1 e)
      rw [← hxy] at h2
      rw [h1, h2]
      have h3 : (xs.length : Int) + 1 = ((xs ++ [v0 e]).length : Int) := by simp
      rw [h3, ih (xs ++ [v0 e]) (ys ++ [v1 e]) n' (by simp [hxy]) (by omega)]
      simp
      omega

/-! ### reads of the frame tables -/

/-- chunk `s` of a concatenation of chunks of equal length `W` -/
theorem flatMap_chunk {γ β : Type} (l : List γ) (f : γ → List β) (W : Nat)
    (hf : ∀ a ∈ l, (f a).length = W) (s : Nat) (hs : s < l.length) :
    ((l.flatMap f).drop (s * W)).take W = f l[s] := by
  induction l generalizing s with
  | nil => simp at hs
  | cons a l ih =>
    have ha : (f a).length = W := hf a (by simp)
    cases s with
    | zero =>
      simp only [List.flatMap_cons, Nat.zero_mul, List.drop_zero, List.getElem_cons_zero]
      rw [← ha, List.take_left']
      rfl
    | succ s =>
      have e : (s + 1) * W = (f a).length + s * W := by rw [Nat.succ_mul, ha]; omega
      simp only [List.flatMap_cons, List.getElem_cons_succ]
      rw [e, ← List.drop_drop, List.drop_left' rfl]
      exact ih (fun b hb => hf b (by simp [hb])) s (by simpa using hs)

theorem row_idxTable (W : Nat) (zi : Int) (frames : List (List (Nat × α)))
    (hW : ∀ fr ∈ frames, fr.length ≤ W) {s : Nat} (hs : s < frames.length) :
    A2.row (idxTable W zi frames) (s : Int) = padTo W zi (frames[s].map fun e => (e.1 : Int)) := by
  rw [A2.row_natCast _ _ (by simpa [idxTable] using hs)]
  exact flatMap_chunk frames _ W (fun fr hfr => padTo_length _ _ _ (by simpa using hW fr hfr)) s hs

theorem row_kerTable (W : Nat) (zk : α) (frames : List (List (Nat × α)))
    (hW : ∀ fr ∈ frames, fr.length ≤ W) {s : Nat} (hs : s < frames.length) :
    A2.row (kerTable W zk frames) (s : Int) = padTo W zk (frames[s].map fun e => e.2) := by
  rw [A2.row_natCast _ _ (by simpa [kerTable] using hs)]
  exact flatMap_chunk frames _ W (fun fr hfr => padTo_length _ _ _ (by simpa using hW fr hfr)) s hs

theorem get_lenTable (frames : List (List (Nat × α))) {s : Nat} (hs : s < frames.length) :
    A1.get (lenTable frames) (s : Int) = (frames[s].length : Int) := by
  simp [lenTable, List.getD_eq_getElem?_getD, List.getElem?_eq_getElem hs]

/-- an entry of the filled part of a padded row -/
theorem get_padTo_map {γ β : Type} [Inhabited β] (n : Nat) (z : β) (l : List γ) (f : γ → β) {k : Nat}
    (hk : k < l.length) : A1.get (padTo n z (l.map f)) (k : Int) = f l[k] := by
  simp [padTo, List.getD_eq_getElem?_getD, List.getElem?_append_left, hk]

/-! ### scatter-accumulate -/

/-- `out[t] += x` does not depend on the value a read out of range would return: the write is then
    out of range too (IndexError in Python, no-op on both sides here) -/
theorem set_getD_irrel [Add α] (l : List α) (t : Nat) (d d' x : α) :
    l.set t (l.getD t d + x) = l.set t (l.getD t d' + x) := by
  by_cases h : t < l.length
  · simp [List.getD_eq_getElem?_getD, List.getElem?_eq_getElem h]
  · rw [List.set_eq_of_length_le (by omega), List.set_eq_of_length_le (by omega)]

/-- the double loop shared by `convolve_jit` (twice) and `convolve_no_blurring_jit`, as generated,
    is `Impl.scatterFrames` on the frames the tables hold -/
theorem scatter_loop [Add α] [Mul α] [OfNat α 0] [Inhabited α] (frames : List (List (Nat × α)))
    (W : Nat) (zi : Int) (zk : α) (vals out : List α) (hrows : vals.length ≤ frames.length)
    (hW : ∀ fr ∈ frames, fr.length ≤ W) :
    (List.range vals.length).foldl
        (fun (s : A1 α) (k : Nat) =>
          forRange 0 (A1.get (lenTable frames) (k : Int)) s fun kernel_1d_index blurred_image_1d =>
            A1.set blurred_image_1d (A1.get (A2.row (idxTable W zi frames) (k : Int)) kernel_1d_index)
              (A1.get blurred_image_1d (A1.get (A2.row (idxTable W zi frames) (k : Int)) kernel_1d_index)
                + A1.get vals (k : Int) * A1.get (A2.row (kerTable W zk frames) (k : Int)) kernel_1d_index))
        out
      = Impl.scatterFrames frames vals out := by
  unfold Impl.scatterFrames
  apply foldl_congr_mem
  intro s hs out
  have hs' : s < vals.length := by simpa using hs
  have hsf : s < frames.length := by omega
  rw [get_lenTable frames hsf, row_idxTable W zi frames hW hsf, row_kerTable W zk frames hW hsf,
    forRange_zero_nat, get_A1 vals 0 hs']
  have hfr : frames.getD s [] = frames[s] := by
    simp [List.getD_eq_getElem?_getD, List.getElem?_eq_getElem hsf]
  simp only [hfr]
  apply foldl_congr_mem
  intro k hk out
  have hk' : k < frames[s].length := by simpa using hk
  have he : frames[s].getD k (0, 0) = frames[s][k] := by
    simp [List.getD_eq_getElem?_getD, List.getElem?_eq_getElem hk']
  rw [get_padTo_map W zi frames[s] (fun e => (e.1 : Int)) hk',
    get_padTo_map W zk frames[s] (fun e => e.2) hk', A1.set_natCast, A1.get_natCast]
  simp only [he]
  exact set_getD_irrel out _ _ _ _

/-! ### a row-major matrix and its list of rows -/

@[simp] theorem ofRows_h (nrows ncols : Nat) (M : List (List α)) : (ofRows nrows ncols M).h = nrows := rfl
@[simp] theorem ofRows_w (nrows ncols : Nat) (M : List (List α)) : (ofRows nrows ncols M).w = ncols := rfl

/-- point read of the concatenation of rows of equal width -/
theorem flatten_getD (rows : List (List α)) (w : Nat) (hr : ∀ r ∈ rows, r.length = w) (t c : Nat)
    (ht : t < rows.length) (hc : c < w) (d d' : α) :
    rows.flatten.getD (t * w + c) d = (rows.getD t []).getD c d' := by
  induction rows generalizing t with
  | nil => simp at ht
  | cons r rows ih =>
    have hrl : r.length = w := hr r (by simp)
    cases t with
    | zero =>
      have hc' : c < r.length := by omega
      simp [List.getD_eq_getElem?_getD, List.getElem?_append_left, hc']
    | succ t =>
      have e : (t + 1) * w + c = r.length + (t * w + c) := by rw [Nat.succ_mul, hrl]; omega
      have := ih (fun b hb => hr b (by simp [hb])) t (by simpa using ht)
      simp only [List.getD_eq_getElem?_getD] at this ⊢
      rw [List.flatten_cons, e, List.getElem?_append_right (by omega)]
      simpa using this

/-- point write of the concatenation of rows of equal width -/
theorem flatten_set (rows : List (List α)) (w : Nat) (hr : ∀ r ∈ rows, r.length = w) (t c : Nat)
    (ht : t < rows.length) (hc : c < w) (v : α) :
    rows.flatten.set (t * w + c) v = (rows.set t ((rows.getD t []).set c v)).flatten := by
  induction rows generalizing t with
  | nil => simp at ht
  | cons r rows ih =>
    have hrl : r.length = w := hr r (by simp)
    cases t with
    | zero =>
      have hc' : c < r.length := by omega
      simp [List.set_append_left, hc']
    | succ t =>
      have e : (t + 1) * w + c = r.length + (t * w + c) := by rw [Nat.succ_mul, hrl]; omega
      have := ih (fun b hb => hr b (by simp [hb])) t (by simpa using ht)
      rw [List.flatten_cons, e, List.set_append_right _ _ (by omega)]
      simpa using this

/-- the generated `nrows × ncols` array `a` holds the matrix `rows` -/
def RowsRel (nrows ncols : Nat) (a : A2 α) (rows : List (List α)) : Prop :=
  rows.length = nrows ∧ (∀ r ∈ rows, r.length = ncols) ∧ a = ofRows nrows ncols rows

theorem get_ofRows [Inhabited α] {nrows ncols : Nat} {a : A2 α} {rows : List (List α)}
    (h : RowsRel nrows ncols a rows) {t c : Nat} (ht : t < nrows) (hc : c < ncols) (d : α) :
    A2.get a (t : Int) (c : Int) = (rows.getD t []).getD c d := by
  obtain ⟨h1, h2, rfl⟩ := h
  rw [A2.get_natCast _ _ _ (by simpa using ht) (by simpa using hc)]
  exact flatten_getD rows ncols h2 t c (by omega) hc _ _

/-- `a[t, c] += x` on the array is `Impl.matAdd` on the rows (a row index out of range raises in
    Python and is a no-op on both sides here) -/
theorem matAdd_step [Add α] [OfNat α 0] [Inhabited α] {nrows ncols : Nat} {a : A2 α}
    {rows : List (List α)} (h : RowsRel nrows ncols a rows) (t c : Nat) (hc : c < ncols) (x : α) :
    RowsRel nrows ncols (A2.set a (t : Int) (c : Int) (A2.get a (t : Int) (c : Int) + x))
      (Impl.matAdd rows t c x) := by
  by_cases ht : t < nrows
  · rw [get_ofRows h ht hc 0]
    obtain ⟨h1, h2, rfl⟩ := h
    refine ⟨by simp [Impl.matAdd, h1], ?_, ?_⟩
    · intro r hr
      unfold Impl.matAdd at hr
      rcases List.mem_or_eq_of_mem_set hr with hr | hr
      · exact h2 r hr
      · have hmem : rows.getD t [] ∈ rows := by
          simp [List.getD_eq_getElem?_getD, List.getElem?_eq_getElem (show t < rows.length by omega)]
        rw [hr, List.length_set]
        exact h2 _ hmem
    · rw [A2.set_natCast _ _ _ _ (by simpa using ht) (by simpa using hc)]
      simp only [ofRows, Impl.matAdd]
      rw [flatten_set rows ncols h2 t c (by omega) hc]
  · obtain ⟨h1, h2, rfl⟩ := h
    have e1 : Impl.matAdd rows t c x = rows := by
      unfold Impl.matAdd
      exact List.set_eq_of_length_le (by omega)
    have e2 : ∀ v, A2.set (ofRows nrows ncols rows) (t : Int) (c : Int) v = ofRows nrows ncols rows := by
      intro v
      simp [A2.set, ht]
    rw [e1, e2]
    exact ⟨h1, h2, rfl⟩

/-- simulation of two loops under `RowsRel`, as an equation (so that `apply` finds both step functions) -/
theorem rowsRel_foldl_eq {ι : Type} {nrows ncols : Nat} (l : List ι) (f : A2 α → ι → A2 α)
    (g : List (List α) → ι → List (List α)) {a : A2 α} {rows : List (List α)}
    (h0 : RowsRel nrows ncols a rows)
    (hstep : ∀ i ∈ l, ∀ a rows, RowsRel nrows ncols a rows → RowsRel nrows ncols (f a i) (g rows i)) :
    l.foldl f a = ofRows nrows ncols (l.foldl g rows) :=
  (foldl_rel (RowsRel nrows ncols) l f g h0 hstep).2.2

end TieConvAux
