/-
Proofs/TieCore.lean — shared lemmas for the LOOP TIES (DESIGN.md §12, design_notes/LOOP_TIES.md):
theorems `Generated.<Module>.f (embed inputs) = embed' (Model.Impl.g inputs)` between the definitions
that harness/translate2.py regenerates from the Python source and the hand-written model.

Contents
  * embeddings of model values into the numpy runtime of Model/PyRt.lean (`ofMask`, `ofNative`, `ofPairs`);
  * loop-shape lemmas: `forRange_yx` (the `for y: for x:` nest is a fold over `Model.pixels`),
    `foldl_congr_mem`, the simulation lemmas `foldl_rel` / `foldl_rel_pre` (relational loop invariant);
  * the write-at-a-running-counter = append lemmas `pack_loop_A1`, `pack_loop_rows2`, `set_pack`;
  * reads of embedded arrays at in-range indices (`get_ofMask`, `get_ofNative`, `get_ofPairs_*`).
Core Lean only (no Mathlib).
-/
import Model.PyRt
import Model.Core
import Proofs.Core

open Model PyRt

namespace TieCore

/-! ### embeddings -/

/-- a model mask as the numpy bool array the Python function receives -/
def ofMask (m : Mask) : A2 Bool := { h := m.h, w := m.w, data := m.bits }

@[simp] theorem ofMask_h (m : Mask) : (ofMask m).h = m.h := rfl
@[simp] theorem ofMask_w (m : Mask) : (ofMask m).w = m.w := rfl
@[simp] theorem ofMask_data (m : Mask) : (ofMask m).data = m.bits := rfl

/-- a native `h × w` array given by its row-major list -/
def ofNative (h w : Nat) (a : List β) : A2 β := { h := h, w := w, data := a }

@[simp] theorem ofNative_h (h w : Nat) (a : List β) : (ofNative h w a).h = h := rfl
@[simp] theorem ofNative_w (h w : Nat) (a : List β) : (ofNative h w a).w = w := rfl
@[simp] theorem ofNative_data (h w : Nat) (a : List β) : (ofNative h w a).data = a := rfl

/-- the data of an `n × 2` array whose rows are the given pairs -/
def rows2 (l : List (β × β)) : List β := l.flatMap fun r => [r.1, r.2]

@[simp] theorem rows2_nil : rows2 ([] : List (β × β)) = [] := rfl

@[simp] theorem rows2_length (l : List (β × β)) : (rows2 l).length = 2 * l.length := by
  induction l with
  | nil => rfl
  | cons a l ih => simp [rows2] at ih ⊢; omega

theorem rows2_append (l l' : List (β × β)) : rows2 (l ++ l') = rows2 l ++ rows2 l' := by
  simp [rows2]

/-- an index table `[(y, x), …]` as the `n × 2` numpy array holding `f y, f x`
    (`f := fun k => ((k : Int) : α)` for the float arrays numpy allocates, `Int.ofNat` after `.astype(int)`) -/
def ofPairs (f : Nat → β) (l : List (Nat × Nat)) : A2 β :=
  { h := l.length, w := 2, data := rows2 (l.map fun p => (f p.1, f p.2)) }

@[simp] theorem ofPairs_h (f : Nat → β) (l : List (Nat × Nat)) : (ofPairs f l).h = l.length := rfl
@[simp] theorem ofPairs_w (f : Nat → β) (l : List (Nat × Nat)) : (ofPairs f l).w = 2 := rfl

/-! ### loop shapes -/

/-- the `for y in range(h): for x in range(w):` nest is one fold over the pixels in row-major order -/
theorem forRange_yx (h w : Nat) (init : σ) (body : Int → Int → σ → σ) :
    forRange 0 (h : Int) init (fun y s => forRange 0 (w : Int) s (fun x s => body y x s))
      = (pixels h w).foldl (fun s p => body (p.1 : Int) (p.2 : Int) s) init := by
  simp [pixels, List.foldl_flatMap, List.foldl_map]

/-- two folds agree when their step functions agree on the elements of the list -/
theorem foldl_congr_mem {σ ι : Type} (l : List ι) (f g : σ → ι → σ) (s : σ)
    (h : ∀ i ∈ l, ∀ s, f s i = g s i) : l.foldl f s = l.foldl g s := by
  induction l generalizing s with
  | nil => rfl
  | cons a l ih =>
    simp only [List.foldl_cons]
    rw [h a (by simp) s]
    exact ih _ (fun i hi => h i (by simp [hi]))

/-- SIMULATION: a relation between the states of two loops over the same list that holds initially
    and is preserved by every step holds at the end. -/
theorem foldl_rel {σ τ ι : Type} (R : σ → τ → Prop) (l : List ι) (f : σ → ι → σ) (g : τ → ι → τ)
    {s : σ} {t : τ} (h0 : R s t) (hstep : ∀ i ∈ l, ∀ s t, R s t → R (f s i) (g t i)) :
    R (l.foldl f s) (l.foldl g t) := by
  induction l generalizing s t with
  | nil => simpa using h0
  | cons a l ih =>
    simp only [List.foldl_cons]
    exact ih (hstep a (by simp) s t h0) (fun i hi => hstep i (by simp [hi]))

/-- SIMULATION with position: the relation may mention the prefix already processed, and a step
    knows how the list splits (`l = pre ++ i :: post`) — this is what bounds a running counter by the
    total that an earlier counting pass computed. -/
theorem foldl_rel_pre {σ τ ι : Type} (R : List ι → σ → τ → Prop) (l : List ι)
    (f : σ → ι → σ) (g : τ → ι → τ) {s : σ} {t : τ} (h0 : R [] s t)
    (hstep : ∀ pre i post s t, l = pre ++ i :: post → R pre s t → R (pre ++ [i]) (f s i) (g t i)) :
    R l (l.foldl f s) (l.foldl g t) := by
  suffices H : ∀ (post pre : List ι) (s : σ) (t : τ), l = pre ++ post → R pre s t →
      R l (post.foldl f s) (post.foldl g t) from H l [] s t rfl h0
  intro post
  induction post with
  | nil => intro pre s t hl h; simpa [hl] using h
  | cons a post ih =>
    intro pre s t hl h
    simp only [List.foldl_cons]
    exact ih (pre ++ [a]) _ _ (by simp [hl]) (hstep pre a post s t hl h)

/-- one-loop version of `foldl_rel_pre`: an invariant of a single fold that may mention the prefix -/
theorem foldl_inv_pre {σ ι : Type} (P : List ι → σ → Prop) (l : List ι) (f : σ → ι → σ) {s : σ}
    (h0 : P [] s) (hstep : ∀ pre i post s, l = pre ++ i :: post → P pre s → P (pre ++ [i]) (f s i)) :
    P l (l.foldl f s) := by
  have := foldl_rel_pre (fun pre s (_ : Unit) => P pre s) l f (fun t _ => t) (t := ()) h0
    (fun pre i post s _ hl h => hstep pre i post s hl h)
  exact this

/-- the number of selected elements of a prefix is below the total when a selected element follows -/
theorem filter_length_lt_of_split {ι : Type} {l pre post : List ι} {i : ι} (c : ι → Bool)
    (hl : l = pre ++ i :: post) (hc : c i = true) : (pre.filter c).length < (l.filter c).length := by
  subst hl
  simp [hc]

/-- the counting pass `if c i: total += 1` -/
theorem count_loop {ι : Type} (l : List ι) (c : ι → Bool) (k : Nat) :
    l.foldl (fun (s : Int) i => if c i then s + 1 else s) (k : Int)
      = ((k + (l.filter c).length : Nat) : Int) := by
  induction l generalizing k with
  | nil => simp
  | cons a l ih =>
    simp only [List.foldl_cons, List.filter_cons]
    by_cases hc : c a
    · simp only [hc, if_true, List.length_cons]
      have : (k : Int) + 1 = ((k + 1 : Nat) : Int) := by simp
      rw [this, ih]; congr 1; omega
    · simp only [hc, Bool.false_eq_true, if_false]; exact ih k

/-! ### write at a running counter = append -/

/-- writing just behind the data already there, into the zero-initialised remainder, is an append -/
theorem set_pack (xs : List β) (n : Nat) (z a : β) :
    (xs ++ List.replicate (n + 1) z).set xs.length a = (xs ++ [a]) ++ List.replicate n z := by
  simp [List.replicate_succ]

/-- the loop `if c i: out[k] = v i; k += 1` over a buffer pre-allocated with the number of selected
    elements (`np.zeros(total)`) yields exactly the selected values, in order -/
theorem pack_loop_A1 {ι β : Type} (l : List ι) (c : ι → Bool) (v : ι → β) (z : β) (xs : List β) :
    l.foldl (fun (st : A1 β × Int) i => if c i then (A1.set st.1 st.2 (v i), st.2 + 1) else st)
        (xs ++ List.replicate (l.filter c).length z, (xs.length : Int))
      = (xs ++ (l.filter c).map v, ((xs.length + (l.filter c).length : Nat) : Int)) := by
  induction l generalizing xs with
  | nil => simp
  | cons a l ih =>
    simp only [List.foldl_cons, List.filter_cons]
    by_cases hc : c a
    · simp only [hc, if_true, List.length_cons, List.replicate_succ, A1.set_natCast]
      have h1 : (xs ++ z :: List.replicate (List.filter c l).length z).set xs.length (v a)
          = (xs ++ [v a]) ++ List.replicate (List.filter c l).length z := by simp
      have h2 : (xs.length : Int) + 1 = ((xs ++ [v a]).length : Int) := by simp
      rw [h1, h2, ih (xs ++ [v a])]
      simp; omega
    · simp only [hc, Bool.false_eq_true, if_false]
      exact ih xs

/-- one row of an `n × 2` array written as `a[k, 0] = u; a[k, 1] = v` (or `a[k, :] = (u, v)`) -/
theorem set_row2 (xs : List (β × β)) (n : Nat) (z u v : β) :
    A2.set (A2.set { h := xs.length + (n + 1), w := 2, data := rows2 xs ++ List.replicate (2 * (n + 1)) z }
        (xs.length : Int) 0 u) (xs.length : Int) 1 v
      = { h := (xs ++ [(u, v)]).length + n, w := 2,
          data := rows2 (xs ++ [(u, v)]) ++ List.replicate (2 * n) z } := by
  have h0 : (0 : Int) = ((0 : Nat) : Int) := rfl
  have h1 : (1 : Int) = ((1 : Nat) : Int) := rfl
  rw [h0, h1, A2.set_natCast _ _ _ _ (by simp) (by simp), A2.set_natCast _ _ _ _ (by simp) (by simp)]
  have e : 2 * (n + 1) = (2 * n + 1) + 1 := by omega
  simp only [List.length_append, List.length_cons, List.length_nil, rows2_append, A2.mk.injEq]
  refine ⟨by omega, trivial, ?_⟩
  rw [e, List.replicate_succ, List.replicate_succ]
  have hl : xs.length * 2 + 0 = (rows2 xs).length := by simp; omega
  have hl1 : xs.length * 2 + 1 = (rows2 xs).length + 1 := by simp; omega
  rw [hl, hl1]
  simp [rows2]

/-- `pack_loop_A1` for the rows of an `n × 2` array -/
theorem pack_loop_rows2 {ι β : Type} (l : List ι) (c : ι → Bool) (v0 v1 : ι → β) (z : β)
    (xs : List (β × β)) :
    l.foldl (fun (st : A2 β × Int) i =>
          if c i then (A2.set (A2.set st.1 st.2 0 (v0 i)) st.2 1 (v1 i), st.2 + 1) else st)
        ({ h := xs.length + (l.filter c).length, w := 2,
           data := rows2 xs ++ List.replicate (2 * (l.filter c).length) z }, (xs.length : Int))
      = ({ h := xs.length + (l.filter c).length, w := 2,
           data := rows2 (xs ++ (l.filter c).map fun i => (v0 i, v1 i)) },
         ((xs.length + (l.filter c).length : Nat) : Int)) := by
  induction l generalizing xs with
  | nil => simp
  | cons a l ih =>
    simp only [List.foldl_cons, List.filter_cons]
    by_cases hc : c a
    · simp only [hc, if_true, List.length_cons]
      rw [set_row2]
      have h2 : (xs.length : Int) + 1 = ((xs ++ [(v0 a, v1 a)]).length : Int) := by simp
      rw [h2, ih (xs ++ [(v0 a, v1 a)])]
      simp; omega
    · simp only [hc, Bool.false_eq_true, if_false]
      exact ih xs

/-! ### reads of embedded arrays -/

theorem flat_lt_of_lt {h w y x : Nat} (hy : y < h) (hx : x < w) : y * w + x < h * w := by
  calc y * w + x < y * w + w := by omega
    _ = (y + 1) * w := by rw [Nat.succ_mul]
    _ ≤ h * w := Nat.mul_le_mul_right _ hy

/-- `mask_2d[y, x]` on the embedded mask is `Mask.get` (in range, well-formed mask) -/
theorem get_ofMask (m : Mask) (wf : m.WF) {y x : Nat} (hy : y < m.h) (hx : x < m.w) :
    A2.get (ofMask m) (y : Int) (x : Int) = m.get y x := by
  have hlt : y * m.w + x < m.bits.length := by rw [wf]; exact flat_lt_of_lt hy hx
  rw [A2.get_natCast _ _ _ hy hx]
  simp [ofMask, Mask.get, List.getD_eq_getElem?_getD, List.getElem?_eq_getElem hlt]

/-- `a[y, x]` on an embedded native array is the model's `getD` at the flattened index, whatever the
    model's default, when the data has the full length -/
theorem get_ofNative [Inhabited β] (h w : Nat) (a : List β) (ha : a.length = h * w) (d : β)
    {y x : Nat} (hy : y < h) (hx : x < w) :
    A2.get (ofNative h w a) (y : Int) (x : Int) = a.getD (y * w + x) d := by
  have hlt : y * w + x < a.length := by rw [ha]; exact flat_lt_of_lt hy hx
  rw [A2.get_natCast _ _ _ hy hx]
  simp [ofNative, List.getD_eq_getElem?_getD, List.getElem?_eq_getElem hlt]

/-- `a[k]` on a 1-D array is the model's `getD`, whatever the model's default, in range -/
theorem get_A1 [Inhabited β] (a : A1 β) (d : β) {k : Nat} (hk : k < a.length) :
    A1.get a (k : Int) = a.getD k d := by
  simp [List.getD_eq_getElem?_getD, List.getElem?_eq_getElem hk]

theorem rows2_getD (l : List (β × β)) (d : β) (k : Nat) (hk : k < l.length) :
    (rows2 l).getD (k * 2 + 0) d = l[k].1 ∧ (rows2 l).getD (k * 2 + 1) d = l[k].2 := by
  induction l generalizing k with
  | nil => simp at hk
  | cons a l ih =>
    cases k with
    | zero => simp [rows2]
    | succ k =>
      have := ih k (by simpa using hk)
      have e0 : (k + 1) * 2 + 0 = (k * 2 + 0) + 2 := by omega
      have e1 : (k + 1) * 2 + 1 = (k * 2 + 1) + 2 := by omega
      rw [e0, e1]
      simpa [rows2] using this

/-- `idx[k, 0]`, `idx[k, 1]` on an embedded index table -/
theorem get_ofPairs [Inhabited β] (f : Nat → β) (l : List (Nat × Nat)) {k : Nat} (hk : k < l.length) :
    A2.get (ofPairs f l) (k : Int) 0 = f l[k].1 ∧ A2.get (ofPairs f l) (k : Int) 1 = f l[k].2 := by
  have h0 : (0 : Int) = ((0 : Nat) : Int) := rfl
  have h1 : (1 : Int) = ((1 : Nat) : Int) := rfl
  rw [h0, h1, A2.get_natCast _ _ _ (by simpa using hk) (by simp),
    A2.get_natCast _ _ _ (by simpa using hk) (by simp)]
  have := rows2_getD (l.map fun p => (f p.1, f p.2)) default k (by simpa using hk)
  simpa [ofPairs] using this

/-! ### extension 2: read-only slices of embedded masks (additive) -/

/-- `mask_2d[lo:hi, x]` on the embedded mask: the model's bits of column `x`, rows `lo … hi-1` -/
theorem colSlice_ofMask (m : Mask) (wf : m.WF) {lo hi x : Nat} (hhi : hi ≤ m.h) (hx : x < m.w) :
    A2.colSlice (ofMask m) (lo : Int) (hi : Int) (x : Int)
      = (List.range (hi - lo)).map fun k => m.get (lo + k) x := by
  rw [A2.colSlice_natCast _ _ _ _ (by simpa using hx)]
  simp only [ofMask_h, ofMask_w, ofMask_data, Nat.min_eq_left hhi]
  rcases Nat.lt_or_ge lo hi with hlt | hge
  · rw [Nat.min_eq_left (by omega : lo ≤ m.h)]
    apply List.map_congr_left
    intro k hk
    have hk' : k < hi - lo := by simpa using hk
    have hlt' : (lo + k) * m.w + x < m.bits.length := by
      rw [wf]; exact flat_lt_of_lt (by omega) hx
    simp [Mask.get, List.getD_eq_getElem?_getD, List.getElem?_eq_getElem hlt']
  · have h1 : hi - lo = 0 := by omega
    have h2 : hi - min lo m.h = 0 := by
      rcases Nat.le_total lo m.h with h | h
      · rw [Nat.min_eq_left h]; omega
      · rw [Nat.min_eq_right h]; omega
    simp [h1, h2]

/-- `mask_2d[y, lo:hi]` on the embedded mask: the model's bits of row `y`, columns `lo … hi-1` -/
theorem rowSlice_ofMask (m : Mask) (wf : m.WF) {y lo hi : Nat} (hy : y < m.h) (hhi : hi ≤ m.w) :
    A2.rowSlice (ofMask m) (y : Int) (lo : Int) (hi : Int)
      = (List.range (hi - lo)).map fun k => m.get y (lo + k) := by
  rw [A2.rowSlice_natCast, A2.row_natCast _ _ (by simpa using hy)]
  simp only [ofMask_w, ofMask_data]
  apply List.ext_getElem
  · have hlen : y * m.w + m.w ≤ m.bits.length := by
      rw [wf]
      calc y * m.w + m.w = (y + 1) * m.w := by rw [Nat.succ_mul]
        _ ≤ m.h * m.w := Nat.mul_le_mul_right _ hy
    simp; omega
  · intro k h1 h2
    have hk : k < hi - lo := by simpa using h2
    have hlt : y * m.w + (lo + k) < m.bits.length := by
      rw [wf]; exact flat_lt_of_lt hy (by omega)
    simp [Mask.get, List.getD_eq_getElem?_getD, List.getElem?_eq_getElem hlt]

end TieCore
