/-
Proofs/TieDFT.lean — LOOP TIES for property C13 (direct Fourier transform): the definitions that
harness/translate2.py regenerates from the current Python source (Generated/LoopsDFT.lean) are equal,
for every input and every size, to the hand-written `Model.Impl.DFT.*` functions of Model/DFT.lean that
the theorems of Props/C13.lean are about.  Only `*_tie` theorems live in this file (helpers:
Proofs/TieCore.lean, Proofs/TieDFTAux.lean).  See design_notes/LOOP_TIES.md and design_notes/TIES_C13.md.

Number type: any `α` with the core operator classes.  The generated code spells the literal `2.0`
through `IntCast` (`((2 : Int) : α)`), the hand model through `OfNat α 2`; the hypothesis
`h2 : ((2 : Int) : α) = 2` identifies them (in any ring it is `Int.cast_ofNat`).  `cos`, `sin`, `pi` are
the same free variables on both sides.  Embeddings (Proofs/TieDFTAux.lean): `ofRows2 l` = a list of
pairs as the `n × 2` array, `ofArr2 / ofCx2 a` = the model's `Arr2` as the numpy array of its shape
(complex entries as pairs `cxp c = (c.re, c.im)`), `ofFn2 r c f` = the `r × c` array with entries `f i j`.
-/
import Generated.LoopsDFT
import Model.DFT
import Proofs.TieCore
import Proofs.TieDFTAux

open Model PyRt TieCore TieDFTAux Model.Impl.DFT

namespace TieDFT

/-- `transformer_util.preload_real_transforms` = `Impl.DFT.preloadReal` -/
theorem preload_real_transforms_tie {α : Type} [Add α] [Mul α] [Neg α] [OfNat α 0] [OfNat α 2]
    [IntCast α] [Inhabited α] (h2 : ((2 : Int) : α) = 2) (cos : α → α) (pi : α)
    (grid uv : List (α × α)) :
    Generated.LoopsDFT.preload_real_transforms cos pi (ofRows2 grid) (ofRows2 uv)
      = ofArr2 (preloadReal cos pi grid uv) := by
  unfold Generated.LoopsDFT.preload_real_transforms preloadReal
  rw [forYX_eq_foldl]
  simp only [A2.shape0_eq, ofRows2_h, forRange_yx, A2.zeros_natCast, zeros_ofArr2]
  refine (foldl_rel (fun (s : A2 α) (t : Arr2 α) =>
    (t.rows = grid.length ∧ t.cols = uv.length) ∧ s = ofArr2 t) _ _ _ ⟨⟨rfl, rfl⟩, rfl⟩ ?_).2
  intro p hp s t ⟨⟨hr, hc⟩, hs⟩
  rw [mem_pixels] at hp
  obtain ⟨g0, g1⟩ := get_ofRows2 grid (0, 0) hp.1
  obtain ⟨u0, u1⟩ := get_ofRows2 uv (0, 0) hp.2
  subst hs
  rw [g0, g1, u0, u1, h2]
  exact ⟨⟨hr, hc⟩, add2_acc_step t p.1 p.2 (by omega) (by omega) _⟩

/-- `transformer_util.preload_imag_transforms` = `Impl.DFT.preloadImag` -/
theorem preload_imag_transforms_tie {α : Type} [Add α] [Mul α] [Neg α] [OfNat α 0] [OfNat α 2]
    [IntCast α] [Inhabited α] (h2 : ((2 : Int) : α) = 2) (sin : α → α) (pi : α)
    (grid uv : List (α × α)) :
    Generated.LoopsDFT.preload_imag_transforms sin pi (ofRows2 grid) (ofRows2 uv)
      = ofArr2 (preloadImag sin pi grid uv) := by
  unfold Generated.LoopsDFT.preload_imag_transforms preloadImag
  rw [forYX_eq_foldl]
  simp only [A2.shape0_eq, ofRows2_h, forRange_yx, A2.zeros_natCast, zeros_ofArr2]
  refine (foldl_rel (fun (s : A2 α) (t : Arr2 α) =>
    (t.rows = grid.length ∧ t.cols = uv.length) ∧ s = ofArr2 t) _ _ _ ⟨⟨rfl, rfl⟩, rfl⟩ ?_).2
  intro p hp s t ⟨⟨hr, hc⟩, hs⟩
  rw [mem_pixels] at hp
  obtain ⟨g0, g1⟩ := get_ofRows2 grid (0, 0) hp.1
  obtain ⟨u0, u1⟩ := get_ofRows2 uv (0, 0) hp.2
  subst hs
  rw [g0, g1, u0, u1, h2]
  exact ⟨⟨hr, hc⟩, add2_acc_step t p.1 p.2 (by omega) (by omega) _⟩

/-- `transformer_util.visibilities_via_preload_jit_from` = `Impl.DFT.visibilitiesViaPreload`
    (`nVis = preloaded_reals.shape[1]`; both tables cover the image rows and the `nVis` columns) -/
theorem visibilities_via_preload_jit_from_tie {α : Type} [Add α] [Mul α] [OfNat α 0] [OfNat α 1]
    [Inhabited α] (image : List α) (reals imags : Arr2 α)
    (hr : image.length ≤ reals.rows) (hi : image.length ≤ imags.rows) (hic : reals.cols ≤ imags.cols) :
    Generated.LoopsDFT.visibilities_via_preload_jit_from image (ofArr2 reals) (ofArr2 imags)
      = (visibilitiesViaPreload image reals.cols reals imags).toList.map cxp := by
  unfold Generated.LoopsDFT.visibilities_via_preload_jit_from visibilitiesViaPreload
  rw [forYX_eq_foldl]
  simp only [A1.len_eq, A2.shape1_eq, ofArr2_w, forRange_yx, A1.czeros_natCast]
  refine (foldl_rel (fun (s : A1 (α × α)) (t : Arr (Cx α)) =>
    t.n = reals.cols ∧ s = t.toList.map cxp) _ _ _ ⟨rfl, full_toList_map cxp _ ⟨0, 0⟩⟩ ?_).2
  intro p hp s t ⟨hn, hs⟩
  rw [mem_pixels] at hp
  subst hs
  rw [get_A1 image 0 hp.1, get_ofArr2 reals (by omega) hp.2, get_ofArr2 imags (by omega) (by omega)]
  exact ⟨hn, cx_acc_step t p.2 (by omega) _ _⟩

/-- `transformer_util.visibilities_jit` = `Impl.DFT.visibilitiesJit` (one grid point per image pixel) -/
theorem visibilities_jit_tie {α : Type} [Add α] [Mul α] [Neg α] [OfNat α 0] [OfNat α 1] [OfNat α 2]
    [IntCast α] [Inhabited α] (h2 : ((2 : Int) : α) = 2) (cos sin : α → α) (pi : α)
    (image : List α) (grid uv : List (α × α)) (hg : image.length ≤ grid.length) :
    Generated.LoopsDFT.visibilities_jit cos sin pi image (ofRows2 grid) (ofRows2 uv)
      = (visibilitiesJit cos sin pi image grid uv).toList.map cxp := by
  unfold Generated.LoopsDFT.visibilities_jit visibilitiesJit
  rw [forYX_eq_foldl]
  simp only [A1.len_eq, A2.shape0_eq, ofRows2_h, forRange_yx, A1.czeros_natCast]
  refine (foldl_rel (fun (s : A1 (α × α)) (t : Arr (Cx α)) =>
    t.n = uv.length ∧ s = t.toList.map cxp) _ _ _ ⟨rfl, full_toList_map cxp _ ⟨0, 0⟩⟩ ?_).2
  intro p hp s t ⟨hn, hs⟩
  rw [mem_pixels] at hp
  obtain ⟨g0, g1⟩ := get_ofRows2 grid (0, 0) (k := p.1) (by omega)
  obtain ⟨u0, u1⟩ := get_ofRows2 uv (0, 0) hp.2
  subst hs
  rw [get_A1 image 0 hp.1, g0, g1, u0, u1, h2]
  exact ⟨hn, cx_acc_step t p.2 (by omega) _ _⟩

/-- `transformer_util.image_via_jit_from` = `Impl.DFT.imageViaJit` (the visibilities enter as the
    `n × 2` real array of their (re, im) pairs; one grid point per pixel, one visibility per baseline) -/
theorem image_via_jit_from_tie {α : Type} [Add α] [Sub α] [Mul α] [OfNat α 0] [OfNat α 2]
    [IntCast α] [Inhabited α] (h2 : ((2 : Int) : α) = 2) (cos sin : α → α) (pi : α) (nPixels : Nat)
    (grid uv : List (α × α)) (vis : List (Cx α))
    (hg : nPixels ≤ grid.length) (hv : uv.length ≤ vis.length) :
    Generated.LoopsDFT.image_via_jit_from cos sin pi (nPixels : Int) (ofRows2 grid) (ofRows2 uv)
        (ofRows2 (vis.map cxp))
      = (imageViaJit cos sin pi nPixels grid uv vis).toList := by
  unfold Generated.LoopsDFT.image_via_jit_from imageViaJit
  rw [forYX_eq_foldl]
  simp only [A1.len_eq, A2.shape0_eq, ofRows2_h, A1.zeros_natCast, List.length_replicate, forRange_yx]
  refine (foldl_rel (fun (s : A1 α) (t : Arr α) =>
    t.n = nPixels ∧ s = t.toList) _ _ _ ⟨rfl, full_toList _ 0⟩ ?_).2
  intro p hp s t ⟨hn, hs⟩
  rw [mem_pixels] at hp
  obtain ⟨g0, g1⟩ := get_ofRows2 grid (0, 0) (k := p.1) (by omega)
  obtain ⟨u0, u1⟩ := get_ofRows2 uv (0, 0) hp.2
  obtain ⟨v0, v1⟩ := get_ofRows2_cx vis ⟨0, 0⟩ (k := p.2) (by omega)
  subst hs
  rw [g0, g1, u0, u1, v0, v1, h2, add_acc_step t p.1 (by omega)]
  exact ⟨hn, sub_acc_step _ p.1 (by simpa using (by omega : p.1 < t.n)) _⟩

/-- `inversion_interferometer_util.data_vector_via_transformed_mapping_matrix_from` = `Impl.DFT.dataVector`
    (the transformed mapping matrix enters as the `nVis × nCols` array of the pairs of `cxAt T`; one
    visibility and one noise value per row) -/
theorem data_vector_via_transformed_mapping_matrix_from_tie {α : Type} [Add α] [Mul α] [Div α]
    [OfNat α 0] [Inhabited α] (T : List (List (Cx α))) (nVis nCols : Nat) (vis noise : List (Cx α))
    (hv : nVis ≤ vis.length) (hn : nVis ≤ noise.length) :
    Generated.LoopsDFT.data_vector_via_transformed_mapping_matrix_from
        (ofFn2 nVis nCols fun k c => cxp (cxAt T k c)) (vis.map cxp) (noise.map cxp)
      = (dataVector T nVis nCols vis noise).toList := by
  unfold Generated.LoopsDFT.data_vector_via_transformed_mapping_matrix_from dataVector
  rw [forYX_eq_foldl]
  simp only [A2.shape0_eq, A2.shape1_eq, ofFn2_h, ofFn2_w, A1.zeros_natCast, forRange_yx,
    re_ofFn2, im_ofFn2, cxp_fst, cxp_snd]
  refine (foldl_rel (fun (s : A1 α) (t : Arr α) =>
    t.n = nCols ∧ s = t.toList) _ _ _ ⟨rfl, full_toList _ 0⟩ ?_).2
  intro p hp s t ⟨hn', hs⟩
  rw [mem_pixels] at hp
  obtain ⟨v0, v1⟩ := get_re_im vis ⟨0, 0⟩ (k := p.1) (by omega)
  obtain ⟨n0, n1⟩ := get_re_im noise ⟨0, 0⟩ (k := p.1) (by omega)
  subst hs
  rw [v0, v1, n0, n1, get_ofFn2 _ _ _ hp.1 hp.2, get_ofFn2 _ _ _ hp.1 hp.2]
  exact ⟨hn', add_acc_step t p.2 (by omega) _⟩

/-- `transformer_util.transformed_mapping_matrix_via_preload_jit_from` =
    `Impl.DFT.transformedMappingMatrixViaPreload keepNonzero` (the code's sparsity test `value != 0`;
    the mapping matrix enters as the `nRows × nCols` array of `matAt M`; both tables cover its rows and
    the `nVis = preloaded_reals.shape[1]` columns) -/
theorem transformed_mapping_matrix_via_preload_jit_from_tie {α : Type} [Add α] [Mul α] [OfNat α 0]
    [OfNat α 1] [IntCast α] [BEq α] [Inhabited α] (M : List (List α)) (nRows nCols : Nat)
    (reals imags : Arr2 α)
    (hr : nRows ≤ reals.rows) (hi : nRows ≤ imags.rows) (hic : reals.cols ≤ imags.cols) :
    Generated.LoopsDFT.transformed_mapping_matrix_via_preload_jit_from (ofFn2 nRows nCols (matAt M))
        (ofArr2 reals) (ofArr2 imags)
      = ofCx2 (transformedMappingMatrixViaPreload keepNonzero M nRows nCols reals.cols reals imags) := by
  unfold Generated.LoopsDFT.transformed_mapping_matrix_via_preload_jit_from
    transformedMappingMatrixViaPreload
  simp only [A2.shape0_eq, A2.shape1_eq, ofFn2_h, ofFn2_w, ofArr2_w, forRange_zero_nat,
    A2.czeros_natCast, czeros_ofCx2]
  let R := fun (s : A2 (α × α)) (t : Arr2 (Cx α)) =>
    (t.rows = reals.cols ∧ t.cols = nCols) ∧ s = ofCx2 t
  refine (foldl_rel R _ _ _ ⟨⟨rfl, rfl⟩, rfl⟩ ?_).2
  intro c hc s t hR
  refine foldl_rel R _ _ _ hR ?_
  intro p hp s t hR
  have hc' : c < nCols := by simpa using hc
  have hp' : p < nRows := by simpa using hp
  rw [get_ofFn2 _ _ _ hp' hc']
  simp only [keepNonzero]
  by_cases hv : (matAt M p c != 0) = true
  · simp only [hv, if_true]
    refine foldl_rel R _ _ _ hR ?_
    intro k hk s t ⟨⟨h1, h2⟩, hs⟩
    have hk' : k < reals.cols := by simpa using hk
    subst hs
    rw [get_ofArr2 reals (by omega) hk', get_ofArr2 imags (by omega) (by omega)]
    exact ⟨⟨h1, h2⟩, cx2_acc_step t k c (by omega) (by omega) _ _⟩
  · simp only [hv]
    exact hR

/-- `transformer_util.transformed_mapping_matrix_jit` = `Impl.DFT.transformedMappingMatrixJit keepNonzero`
    (one grid point per row of the mapping matrix) -/
theorem transformed_mapping_matrix_jit_tie {α : Type} [Add α] [Mul α] [Neg α] [OfNat α 0] [OfNat α 1]
    [OfNat α 2] [IntCast α] [BEq α] [Inhabited α] (h2 : ((2 : Int) : α) = 2) (cos sin : α → α) (pi : α)
    (M : List (List α)) (nRows nCols : Nat) (grid uv : List (α × α)) (hg : nRows ≤ grid.length) :
    Generated.LoopsDFT.transformed_mapping_matrix_jit cos sin pi (ofFn2 nRows nCols (matAt M))
        (ofRows2 grid) (ofRows2 uv)
      = ofCx2 (transformedMappingMatrixJit keepNonzero cos sin pi M nRows nCols grid uv) := by
  unfold Generated.LoopsDFT.transformed_mapping_matrix_jit transformedMappingMatrixJit
  simp only [A2.shape0_eq, A2.shape1_eq, ofFn2_h, ofFn2_w, ofRows2_h, forRange_zero_nat,
    A2.czeros_natCast, czeros_ofCx2]
  let R := fun (s : A2 (α × α)) (t : Arr2 (Cx α)) =>
    (t.rows = uv.length ∧ t.cols = nCols) ∧ s = ofCx2 t
  refine (foldl_rel R _ _ _ ⟨⟨rfl, rfl⟩, rfl⟩ ?_).2
  intro c hc s t hR
  refine foldl_rel R _ _ _ hR ?_
  intro p hp s t hR
  have hc' : c < nCols := by simpa using hc
  have hp' : p < nRows := by simpa using hp
  obtain ⟨g0, g1⟩ := get_ofRows2 grid (0, 0) (k := p) (by omega)
  rw [get_ofFn2 _ _ _ hp' hc']
  simp only [keepNonzero]
  by_cases hv : (matAt M p c != 0) = true
  · simp only [hv, if_true]
    refine foldl_rel R _ _ _ hR ?_
    intro k hk s t ⟨⟨h1, h2'⟩, hs⟩
    have hk' : k < uv.length := by simpa using hk
    obtain ⟨u0, u1⟩ := get_ofRows2 uv (0, 0) hk'
    subst hs
    rw [g0, g1, u0, u1, h2]
    exact ⟨⟨h1, h2'⟩, cx2_acc_step t k c (by omega) (by omega) _ _⟩
  · simp only [hv]
    exact hR

end TieDFT
