/-
Proofs/TieDFTAux.lean — helper definitions and lemmas for the LOOP TIES of property C13
(Proofs/TieDFT.lean): embeddings of the model's arrays (`Model.Impl.DFT.Arr`, `Arr2`: shape + total map
from indices) and inputs (lists of pairs, lists of `Cx`) into the numpy runtime of Model/PyRt.lean, the
reads of the embedded arrays at in-range indices, and the "one `+=` on the generated array is one
`pointSet` on the model array" step lemmas.  Core Lean only (no Mathlib).
-/
import Model.PyRt
import Model.DFT
import Proofs.TieCore
import Proofs.Core

open Model PyRt TieCore Model.Impl.DFT

namespace TieDFTAux

/-! ### embeddings -/

/-- the model's complex number as the pair `(re, im)` the generated code computes with -/
def cxp (c : Cx α) : α × α := (c.re, c.im)

@[simp] theorem cxp_fst (c : Cx α) : (cxp c).1 = c.re := rfl
@[simp] theorem cxp_snd (c : Cx α) : (cxp c).2 = c.im := rfl

/-- an `r × c` numpy array given by its entries `f i j` (row-major data) -/
def ofFn2 (r c : Nat) (f : Nat → Nat → β) : A2 β :=
  { h := r, w := c, data := (List.range (r * c)).map fun i => f (i / c) (i % c) }

@[simp] theorem ofFn2_h (r c : Nat) (f : Nat → Nat → β) : (ofFn2 r c f).h = r := rfl
@[simp] theorem ofFn2_w (r c : Nat) (f : Nat → Nat → β) : (ofFn2 r c f).w = c := rfl

/-- the model's 2-D array as the numpy array of its shape -/
def ofArr2 (a : Arr2 β) : A2 β := ofFn2 a.rows a.cols a.get

@[simp] theorem ofArr2_h (a : Arr2 β) : (ofArr2 a).h = a.rows := rfl
@[simp] theorem ofArr2_w (a : Arr2 β) : (ofArr2 a).w = a.cols := rfl

/-- the model's complex 2-D array as the numpy array of pairs -/
def ofCx2 (a : Arr2 (Cx α)) : A2 (α × α) := ofFn2 a.rows a.cols fun i j => cxp (a.get i j)

@[simp] theorem ofCx2_h (a : Arr2 (Cx α)) : (ofCx2 a).h = a.rows := rfl
@[simp] theorem ofCx2_w (a : Arr2 (Cx α)) : (ofCx2 a).w = a.cols := rfl

/-- a list of `(y, x)` pairs as the `n × 2` numpy array -/
def ofRows2 (l : List (β × β)) : A2 β := { h := l.length, w := 2, data := rows2 l }

@[simp] theorem ofRows2_h (l : List (β × β)) : (ofRows2 l).h = l.length := rfl
@[simp] theorem ofRows2_w (l : List (β × β)) : (ofRows2 l).w = 2 := rfl

/-! ### `ofFn2`: what the data is, reads, writes -/

theorem div_mod_flat {c y x : Nat} (hx : x < c) : (y * c + x) / c = y ∧ (y * c + x) % c = x := by
  have hc : 0 < c := by omega
  constructor
  · rw [Nat.mul_comm, Nat.mul_add_div hc, Nat.div_eq_of_lt hx]; rfl
  · rw [Nat.mul_comm, Nat.mul_add_mod, Nat.mod_eq_of_lt hx]

/-- the data of `ofFn2` is the concatenation of the rows (the model's `Arr2.toLists`, flattened) -/
theorem ofFn2_data_eq_flatten (r c : Nat) (f : Nat → Nat → β) :
    (ofFn2 r c f).data = ((List.range r).map fun i => (List.range c).map fun j => f i j).flatten := by
  unfold ofFn2
  simp only
  induction r with
  | zero => simp
  | succ r ih =>
    rw [Nat.succ_mul, List.range_add, List.map_append, ih, List.range_succ, List.map_append,
      List.flatten_append]
    congr 1
    simp only [List.map_map, List.map_cons, List.map_nil, List.flatten_cons, List.flatten_nil,
      List.append_nil]
    apply List.map_congr_left
    intro j hj
    have hj' : j < c := by simpa using hj
    obtain ⟨h1, h2⟩ := div_mod_flat (y := r) hj'
    simp only [Function.comp]
    rw [h1, h2]

theorem ofArr2_data_eq_flatten (a : Arr2 β) : (ofArr2 a).data = a.toLists.flatten :=
  ofFn2_data_eq_flatten a.rows a.cols a.get

theorem get_ofFn2 [Inhabited β] (r c : Nat) (f : Nat → Nat → β) {y x : Nat} (hy : y < r) (hx : x < c) :
    A2.get (ofFn2 r c f) (y : Int) (x : Int) = f y x := by
  have hlt : y * c + x < r * c := flat_lt_of_lt hy hx
  obtain ⟨h1, h2⟩ := div_mod_flat (y := y) hx
  rw [A2.get_natCast _ _ _ hy hx]
  simp [ofFn2, List.getD_eq_getElem?_getD, hlt, h1, h2]

theorem set_ofFn2 (r c : Nat) (f : Nat → Nat → β) {y x : Nat} (hy : y < r) (hx : x < c) (v : β) :
    A2.set (ofFn2 r c f) (y : Int) (x : Int) v
      = ofFn2 r c (fun i j => if i = y ∧ j = x then v else f i j) := by
  have hlt : y * c + x < r * c := flat_lt_of_lt hy hx
  obtain ⟨h1, h2⟩ := div_mod_flat (y := y) hx
  rw [A2.set_natCast _ _ _ _ hy hx]
  simp only [ofFn2, A2.mk.injEq, true_and]
  apply List.ext_getElem
  · simp
  · intro k hk1 hk2
    have hk : k < r * c := by simpa using hk2
    rw [List.getElem_set]
    simp only [List.getElem_map, List.getElem_range]
    by_cases hky : y * c + x = k
    · subst hky
      simp [h1, h2]
    · have hne : ¬ (k / c = y ∧ k % c = x) := by
        rintro ⟨e1, e2⟩
        apply hky
        have := Nat.div_add_mod k c
        rw [e1, e2, Nat.mul_comm] at this
        exact this
      simp [hky, hne]

theorem full_ofFn2 (r c : Nat) (z : β) :
    ({ h := r, w := c, data := List.replicate (r * c) z } : A2 β) = ofFn2 r c (fun _ _ => z) := by
  simp only [ofFn2, A2.mk.injEq, true_and]
  apply List.ext_getElem <;> simp

theorem re_ofFn2 (r c : Nat) (f : Nat → Nat → α × α) :
    A2.re (ofFn2 r c f) = ofFn2 r c (fun i j => (f i j).1) := by
  simp [A2.re, A2.map, ofFn2]

theorem im_ofFn2 (r c : Nat) (f : Nat → Nat → α × α) :
    A2.im (ofFn2 r c f) = ofFn2 r c (fun i j => (f i j).2) := by
  simp [A2.im, A2.map, ofFn2]

/-! ### `ofRows2`: reads -/

/-- `a[k, 0]`, `a[k, 1]` on an embedded list of pairs, whatever the model's default -/
theorem get_ofRows2 [Inhabited β] (l : List (β × β)) (d : β × β) {k : Nat} (hk : k < l.length) :
    A2.get (ofRows2 l) (k : Int) 0 = (l.getD k d).1 ∧ A2.get (ofRows2 l) (k : Int) 1 = (l.getD k d).2 := by
  have h0 : (0 : Int) = ((0 : Nat) : Int) := rfl
  have h1 : (1 : Int) = ((1 : Nat) : Int) := rfl
  rw [h0, h1, A2.get_natCast _ _ _ (by simpa using hk) (by simp),
    A2.get_natCast _ _ _ (by simpa using hk) (by simp)]
  have := rows2_getD l default k hk
  simpa [ofRows2, List.getD_eq_getElem?_getD, List.getElem?_eq_getElem hk] using this

/-- `a[k, 0]`, `a[k, 1]` on an embedded list of complex numbers -/
theorem get_ofRows2_cx [Inhabited α] (l : List (Cx α)) (d : Cx α) {k : Nat} (hk : k < l.length) :
    A2.get (ofRows2 (l.map cxp)) (k : Int) 0 = (l.getD k d).re
      ∧ A2.get (ofRows2 (l.map cxp)) (k : Int) 1 = (l.getD k d).im := by
  have := get_ofRows2 (l.map cxp) (cxp d) (k := k) (by simpa using hk)
  simpa [List.getD_eq_getElem?_getD, List.getElem?_eq_getElem hk] using this

/-- `v.real[k]`, `v.imag[k]` of an embedded complex 1-D array -/
theorem get_re_im [Inhabited α] (l : List (Cx α)) (d : Cx α) {k : Nat} (hk : k < l.length) :
    A1.get (A1.re (l.map cxp)) (k : Int) = (l.getD k d).re
      ∧ A1.get (A1.im (l.map cxp)) (k : Int) = (l.getD k d).im := by
  simp [A1.re, A1.im, A1.map, List.getD_eq_getElem?_getD, List.getElem?_eq_getElem hk]

/-! ### 1-D model arrays -/

@[simp] theorem pointSet_n (a : Arr β) (k : Nat) (v : β) : (pointSet a k v).n = a.n := rfl
@[simp] theorem pointSet2_rows (a : Arr2 β) (i j : Nat) (v : β) : (pointSet2 a i j v).rows = a.rows := rfl
@[simp] theorem pointSet2_cols (a : Arr2 β) (i j : Nat) (v : β) : (pointSet2 a i j v).cols = a.cols := rfl

theorem full_toList (n : Nat) (z : β) : List.replicate n z = (Arr.full n z).toList := by
  apply List.ext_getElem <;> simp [Arr.toList, Arr.full]

theorem full_toList_map (e : β → γ) (n : Nat) (z : β) :
    List.replicate n (e z) = (Arr.full n z).toList.map e := by
  apply List.ext_getElem <;> simp [Arr.toList, Arr.full]

/-- one read-modify-write `out[k] = G(out[k])` on the generated array is one `pointSet` on the model's -/
theorem arr_step [Inhabited γ] (e : β → γ) (t : Arr β) (k : Nat) (hk : k < t.n) (F : β → β) (G : γ → γ)
    (hFG : ∀ b, G (e b) = e (F b)) :
    A1.set (t.toList.map e) (k : Int) (G (A1.get (t.toList.map e) (k : Int)))
      = (pointSet t k (F (t.get k))).toList.map e := by
  rw [A1.set_natCast, A1.get_natCast]
  apply List.ext_getElem
  · simp [Arr.toList]
  · intro j hj1 hj2
    have hj : j < t.n := by simpa [Arr.toList] using hj2
    rw [List.getElem_set]
    by_cases hkj : k = j
    · subst hkj
      simp [Arr.toList, pointSet, List.getD_eq_getElem?_getD, hk, hFG]
    · have hjk : ¬ j = k := fun h => hkj h.symm
      simp [Arr.toList, pointSet, hkj, hjk]

/-- `vis[k] += x + 1j * y` -/
theorem cx_acc_step [Add α] [Inhabited α] (t : Arr (Cx α)) (k : Nat) (hk : k < t.n) (x y : α) :
    A1.set (t.toList.map cxp) (k : Int) (cadd (A1.get (t.toList.map cxp) (k : Int)) (x, y))
      = (pointSet t k (Cx.add (t.get k) ⟨x, y⟩)).toList.map cxp :=
  arr_step cxp t k hk (fun c => Cx.add c ⟨x, y⟩) (fun z => cadd z (x, y)) (fun _ => rfl)

/-- `out[k] += v` -/
theorem add_acc_step [Add α] [Inhabited α] (t : Arr α) (k : Nat) (hk : k < t.n) (v : α) :
    A1.set t.toList (k : Int) (A1.get t.toList (k : Int) + v) = (pointSet t k (t.get k + v)).toList := by
  have := arr_step id t k hk (fun c => c + v) (fun z => z + v) (fun _ => rfl)
  simpa using this

/-- `out[k] -= v` -/
theorem sub_acc_step [Sub α] [Inhabited α] (t : Arr α) (k : Nat) (hk : k < t.n) (v : α) :
    A1.set t.toList (k : Int) (A1.get t.toList (k : Int) - v) = (pointSet t k (t.get k - v)).toList := by
  have := arr_step id t k hk (fun c => c - v) (fun z => z - v) (fun _ => rfl)
  simpa using this

/-! ### 2-D model arrays -/

/-- one read-modify-write `out[i, j] = G(out[i, j])` -/
theorem arr2_step [Inhabited γ] (e : β → γ) (t : Arr2 β) (i j : Nat) (hi : i < t.rows) (hj : j < t.cols)
    (F : β → β) (G : γ → γ) (hFG : ∀ b, G (e b) = e (F b)) :
    A2.set (ofFn2 t.rows t.cols fun a b => e (t.get a b)) (i : Int) (j : Int)
        (G (A2.get (ofFn2 t.rows t.cols fun a b => e (t.get a b)) (i : Int) (j : Int)))
      = ofFn2 t.rows t.cols fun a b => e ((pointSet2 t i j (F (t.get i j))).get a b) := by
  rw [get_ofFn2 _ _ _ hi hj, set_ofFn2 _ _ _ hi hj, hFG]
  congr 1
  funext a b
  simp only [pointSet2]
  split <;> rfl

/-- `T[i, j] += x + 1j * y` -/
theorem cx2_acc_step [Add α] [Inhabited α] (t : Arr2 (Cx α)) (i j : Nat) (hi : i < t.rows)
    (hj : j < t.cols) (x y : α) :
    A2.set (ofCx2 t) (i : Int) (j : Int) (cadd (A2.get (ofCx2 t) (i : Int) (j : Int)) (x, y))
      = ofCx2 (pointSet2 t i j (Cx.add (t.get i j) ⟨x, y⟩)) :=
  arr2_step cxp t i j hi hj (fun c => Cx.add c ⟨x, y⟩) (fun z => cadd z (x, y)) (fun _ => rfl)

/-- `t[i, j] += v` -/
theorem add2_acc_step [Add α] [Inhabited α] (t : Arr2 α) (i j : Nat) (hi : i < t.rows) (hj : j < t.cols)
    (v : α) :
    A2.set (ofArr2 t) (i : Int) (j : Int) (A2.get (ofArr2 t) (i : Int) (j : Int) + v)
      = ofArr2 (pointSet2 t i j (t.get i j + v)) :=
  arr2_step id t i j hi hj (fun c => c + v) (fun z => z + v) (fun _ => rfl)

theorem get_ofArr2 [Inhabited β] (a : Arr2 β) {y x : Nat} (hy : y < a.rows) (hx : x < a.cols) :
    A2.get (ofArr2 a) (y : Int) (x : Int) = a.get y x := get_ofFn2 _ _ _ hy hx

theorem czeros_ofCx2 [OfNat α 0] (r c : Nat) :
    ({ h := r, w := c, data := List.replicate (r * c) ((0 : α), (0 : α)) } : A2 (α × α))
      = ofCx2 (Arr2.full r c ⟨0, 0⟩) := full_ofFn2 r c _

theorem zeros_ofArr2 (r c : Nat) (z : β) :
    ({ h := r, w := c, data := List.replicate (r * c) z } : A2 β) = ofArr2 (Arr2.full r c z) :=
  full_ofFn2 r c z

/-- the data of `ofCx2` is the model's `Arr2.toLists`, entries as pairs, flattened -/
theorem ofCx2_data_eq_flatten (a : Arr2 (Cx α)) :
    (ofCx2 a).data = (a.toLists.map (List.map cxp)).flatten := by
  unfold ofCx2
  rw [ofFn2_data_eq_flatten]
  simp [Arr2.toLists, Function.comp_def]

/-! ### shapes of the preloaded tables (to chain the preload ties into `visibilities_via_preload_jit_from_tie`) -/

theorem foldl_shape2 {ι : Type} (l : List ι) (f : Arr2 β → ι → Arr2 β)
    (hf : ∀ t i, (f t i).rows = t.rows ∧ (f t i).cols = t.cols) (t : Arr2 β) :
    (l.foldl f t).rows = t.rows ∧ (l.foldl f t).cols = t.cols := by
  induction l generalizing t with
  | nil => exact ⟨rfl, rfl⟩
  | cons a l ih =>
    simp only [List.foldl_cons]
    obtain ⟨h1, h2⟩ := ih (f t a)
    obtain ⟨h3, h4⟩ := hf t a
    exact ⟨h1.trans h3, h2.trans h4⟩

theorem preloadReal_shape [Add α] [Mul α] [Neg α] [OfNat α 0] [OfNat α 2] (cos : α → α) (pi : α)
    (grid uv : List (α × α)) :
    (preloadReal cos pi grid uv).rows = grid.length ∧ (preloadReal cos pi grid uv).cols = uv.length := by
  unfold preloadReal
  rw [forYX_eq_foldl]
  refine foldl_shape2 (pixels grid.length uv.length) _ ?_ (Arr2.full grid.length uv.length 0)
  intro t i
  exact ⟨rfl, rfl⟩

theorem preloadImag_shape [Add α] [Mul α] [Neg α] [OfNat α 0] [OfNat α 2] (sin : α → α) (pi : α)
    (grid uv : List (α × α)) :
    (preloadImag sin pi grid uv).rows = grid.length ∧ (preloadImag sin pi grid uv).cols = uv.length := by
  unfold preloadImag
  rw [forYX_eq_foldl]
  refine foldl_shape2 (pixels grid.length uv.length) _ ?_ (Arr2.full grid.length uv.length 0)
  intro t i
  exact ⟨rfl, rfl⟩

/-! ### non-vacuity of the literal hypothesis `h2 : ((2 : Int) : α) = 2` of the ties -/

example : ((2 : Int) : Int) = 2 := rfl
example : ((2 : Int) : Rat) = 2 := by decide

end TieDFTAux
