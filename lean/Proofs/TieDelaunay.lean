/-
Proofs/TieDelaunay.lean — LOOP TIES for property C06 (mappers), Delaunay part: the definitions that
harness/translate2.py regenerates from the current Python source of `mesh_util.delaunay_triangle_area_from`,
`mapper_util.pix_indexes_for_sub_slim_index_delaunay_from`, `mapper_util.pixel_weights_delaunay_from` and
`mapper_util.data_weight_total_for_pix_from` (Generated/LoopsDelaunay.lean) are equal, for every input and every
size, to the hand-written `Model.Impl.triangleArea`, `Impl.pixIndexesDelaunay`, `Impl.pixelWeightsDelaunay` of
Model/Mapper.lean — the functions the Delaunay theorems of Props/C06.lean (Proofs/MapperDelaunay.lean) are about —
and `Impl.dataWeightTotal` of Model/MapperTotals.lean (closed form: Proofs/MapperTotals.lean).
Only `*_tie` theorems live in this file (helpers: Proofs/TieCore.lean, Proofs/TieRegAux.lean,
Proofs/TieDelaunayAux.lean, Proofs/TieDelaunayAux2.lean).  See design_notes/TIES_blocked.md.

Conventions of the statements.
* point lists `[(y, x), …]` are the `n × 2` numpy arrays `ofPoints`; a corner handed to the area function is the
  1-D row `pairRow p = [p.1, p.2]`;
* integer tables (`Delaunay.simplices`, the mappings table) are lists of rows embedded with `ofRows`; the table
  the first function RETURNS is a numpy float array holding the integers (`-1 * np.ones(..)`), i.e. the model's
  rows cast entry by entry; its sizes are the model's naturals as numpy integers;
* the model reads table entries with `Int.toNat` (numpy would wrap a negative entry around): as in
  Proofs/TieMapper.lean the ties require the entries that are used as indices to be `0 ≤ · < length`.
-/
import Generated.LoopsDelaunay
import Model.Mapper
import Proofs.TieCore
import Proofs.TieRegAux
import Proofs.TieDelaunayAux
import Proofs.TieDelaunayAux2
import Model.MapperTotals
import Proofs.MapperTotals
import Proofs.TieTotalsAux
import Mathlib.Algebra.Order.Field.Basic

open Model PyRt TieCore TieRegAux TieDelaunayAux

namespace TieDelaunay

/-- `mesh_util.delaunay_triangle_area_from` (corners as 1-D values, as `pixel_weights_delaunay_from` passes
    them) = `Impl.triangleArea`; the literal `0.5` is `1/2` in any field -/
theorem delaunay_triangle_area_from_tie {α : Type} [Field α] [LinearOrder α] [Inhabited α] (c0 c1 c2 : α × α) :
    Generated.LoopsDelaunay.delaunay_triangle_area_from (pairRow c0) (pairRow c1) (pairRow c2)
      = Impl.triangleArea c0 c1 c2 :=
  area_rows c0 c1 c2

/-- `mapper_util.pix_indexes_for_sub_slim_index_delaunay_from` = `Impl.pixIndexesDelaunay` (both outputs).
    Every sub-pixel has a `find_simplex` answer, which is `-1` or the index of a simplex, and every simplex has
    three vertices — exactly "Python does not raise". -/
theorem pix_indexes_for_sub_slim_index_delaunay_from_tie {α : Type} [Field α] [LinearOrder α]
    [IsStrictOrderedRing α] (grid : List (α × α)) (simplexFor : List Int) (simplices : List (List Int))
    (points : List (α × α))
    (hlen : grid.length ≤ simplexFor.length)
    (hS : ∀ r ∈ simplices, r.length = 3)
    (hs : ∀ i < grid.length, simplexFor.getD i (-1) = -1
      ∨ (0 ≤ simplexFor.getD i (-1) ∧ simplexFor.getD i (-1) < (simplices.length : Int))) :
    Generated.LoopsDelaunay.pix_indexes_for_sub_slim_index_delaunay_from (ofPoints grid) simplexFor
        (ofRows simplices.length 3 simplices) (ofPoints points)
      = (ofRows grid.length 3
            ((Impl.pixIndexesDelaunay grid simplexFor simplices points).1.map
              fun r => r.map fun (k : Int) => (k : α)),
         (Impl.pixIndexesDelaunay grid simplexFor simplices points).2.map Int.ofNat) := by
  -- the model's row of sub-pixel `i`, and its cast
  let mrow : Nat → List Int := fun i =>
    if simplexFor.getD i (-1) != -1 then simplices.getD (simplexFor.getD i (-1)).toNat [-1, -1, -1]
    else [Int.ofNat (Impl.argminFirst (points.map (Impl.sqDist (grid.getD i (0, 0))))), -1, -1]
  have hmrow : ∀ i < grid.length, (mrow i).length = 3 := by
    intro i hi
    show (if _ then _ else _ : List Int).length = 3
    split
    · rename_i hne
      rcases hs i hi with h | ⟨h0, h1⟩
      · rw [h] at hne; exact absurd hne (by decide)
      · have hlt : (simplexFor.getD i (-1)).toNat < simplices.length := by omega
        rw [getD_getElem _ _ hlt]
        exact hS _ (List.getElem_mem hlt)
    · rfl
  have hmodel : (Impl.pixIndexesDelaunay grid simplexFor simplices points).1 = (List.range grid.length).map mrow :=
    rfl
  have hmodel2 : (Impl.pixIndexesDelaunay grid simplexFor simplices points).2
      = ((List.range grid.length).map mrow).map fun r => (r.filter (0 ≤ ·)).length := rfl
  have h3 : (3 : Int) = ((3 : Nat) : Int) := rfl
  have h0 : (0 : Int) = ((0 : Nat) : Int) := rfl
  -- 1. the loop fills the table row by row
  have hloop : PyRt.forRange 0 (A2.shape0 (ofPoints grid))
        (A2.full (α := α) (A2.shape0 (ofPoints grid)) 3 (-(1 : α)))
        (fun i A =>
          if A1.get simplexFor i != (-1) then
            A2.setRow A i (A1.map (fun u1 => ((u1 : Int) : α))
              (A2.row (ofRows simplices.length 3 simplices) (A1.get simplexFor i)))
          else
            A2.set A i 0 ((A1.argmin (A2.sumAxis1 (A2.map (fun u4 => PyRt.sq u4)
              (A2.zipRow (fun u2 v3 => u2 - v3) (ofPoints points) (A2.row (ofPoints grid) i)))) : Int) : α))
      = ofRows grid.length 3 ((List.range grid.length).map fun i => (mrow i).map fun (k : Int) => (k : α)) := by
    simp only [A2.shape0_eq, ofPoints_h, forRange_zero_nat]
    rw [h3, full_ofRows]
    refine fill_rows (List.replicate 3 (-(1 : α))) (by simp) _ (fun j hj => by simp [hmrow j hj]) _ ?_
    intro i hi M hM hMi
    have hget : A1.get simplexFor (i : Int) = simplexFor.getD i (-1) := get_A1 _ _ (by omega)
    simp only [hget]
    by_cases hne : simplexFor.getD i (-1) != -1
    · rcases hs i hi with h | ⟨hs0, hs1⟩
      · rw [h] at hne; exact absurd hne (by decide)
      · have hlt : (simplexFor.getD i (-1)).toNat < simplices.length := by omega
        have hcast : simplexFor.getD i (-1) = (((simplexFor.getD i (-1)).toNat : Nat) : Int) := by omega
        have hrow : A2.row (ofRows simplices.length 3 simplices) (simplexFor.getD i (-1))
            = simplices.getD (simplexFor.getD i (-1)).toNat [-1, -1, -1] := by
          conv => lhs; rw [hcast]
          rw [row_ofRows ⟨rfl, hS⟩ hlt]
          exact getD_irrel _ _ _ _ hlt
        rw [if_pos hne, hrow, setRow_ofRows hM hi _ (by
          have := hmrow i hi
          simp only [mrow, if_pos hne] at this
          simpa [A1.map] using this)]
        simp only [mrow, if_pos hne, A1.map]
    · rw [if_neg hne, row_ofPoints grid (0, 0) hi, sqdist_rows, argmin_eq_first, h0,
        set_ofRows hM hi (by omega), hMi]
      simp only [mrow, if_neg hne]
      simp
  -- 2. the sizes are the counts of the non-negative entries of every row
  unfold Generated.LoopsDelaunay.pix_indexes_for_sub_slim_index_delaunay_from
  simp only []
  rw [hloop, hmodel, hmodel2]
  congr 1
  · simp only [List.map_map]
    rfl
  · rw [map_ofRows, countAxis1_ofRows]
    · simp only [List.map_map]
      apply List.map_congr_left
      intro i _
      exact count_cast_nonneg (mrow i)
    · constructor
      · simp
      · intro r hr
        simp only [List.map_map, List.mem_map, List.mem_range] at hr
        obtain ⟨j, hj, rfl⟩ := hr
        simp [hmrow j hj]

/-- `mapper_util.pixel_weights_delaunay_from` = `Impl.pixelWeightsDelaunay`.  The mappings table has three
    columns and one row per sub-pixel, every sub-pixel has a grid point, and the three vertex indices of a
    sub-pixel inside a triangle (`pix_indexes[1] != -1`) are rows of the mesh grid. -/
theorem pixel_weights_delaunay_from_tie {α : Type} [Field α] [LinearOrder α] [Inhabited α]
    (grid mesh : List (α × α)) (slim : List Int) (idx : List (List Int))
    (hI : ∀ r ∈ idx, r.length = 3) (hn : slim.length = idx.length) (hg : idx.length ≤ grid.length)
    (hv : ∀ i < idx.length, (idx.getD i []).getD 1 (-1) ≠ -1 →
      ∀ k ∈ idx.getD i [], 0 ≤ k ∧ k < (mesh.length : Int)) :
    Generated.LoopsDelaunay.pixel_weights_delaunay_from (ofPoints grid) (ofPoints mesh) slim
        (ofRows idx.length 3 idx)
      = ofRows idx.length 3 (Impl.pixelWeightsDelaunay grid mesh idx.length idx) := by
  have h1 : (1 : Int) = ((1 : Nat) : Int) := rfl
  have h2 : (2 : Int) = ((2 : Nat) : Int) := rfl
  have h0 : (0 : Int) = ((0 : Nat) : Int) := rfl
  unfold Generated.LoopsDelaunay.pixel_weights_delaunay_from Impl.pixelWeightsDelaunay
  simp only [A2.shape0_eq, A2.shape1_eq, ofRows_h, ofRows_w, A1.len_eq, hn, forRange_zero_nat]
  show (List.range idx.length).foldl _ (A2.full (α := α) (idx.length : Int) ((3 : Nat) : Int) 0) = _
  rw [full_ofRows]
  refine fill_rows (List.replicate 3 (0 : α)) (by simp) _ (fun j hj => ?_) _ ?_
  · show (if _ then _ else _ : List α).length = 3
    split <;> rfl
  intro i hi M hM hMi
  have hrow : A2.row (ofRows idx.length 3 idx) (i : Int) = idx.getD i [] := row_ofRows ⟨rfl, hI⟩ hi
  have hlen : (idx.getD i []).length = 3 := RDims.row (M := idx) ⟨rfl, hI⟩ hi
  have hget : A1.get (idx.getD i []) 1 = (idx.getD i []).getD 1 (-1) := by
    rw [h1]; exact get_A1 _ _ (by omega)
  simp only [hrow, hget]
  by_cases hne : (idx.getD i []).getD 1 (-1) != -1
  · have hne' : (idx.getD i []).getD 1 (-1) ≠ -1 := by simpa using hne
    have hpix := hv i hi hne'
    rw [if_pos hne, if_pos hne, row_ofPoints grid (0, 0) (by omega)]
    rw [h0, h1, h2, gather_row mesh _ hpix (0, 0) (by omega : 0 < (idx.getD i []).length),
      gather_row mesh _ hpix (0, 0) (by omega : 1 < (idx.getD i []).length),
      gather_row mesh _ hpix (0, 0) (by omega : 2 < (idx.getD i []).length)]
    simp only [area_rows]
    rw [setRow_ofRows hM hi _ (by simp [A1.map])]
    rfl
  · rw [if_neg hne, if_neg hne, h0, set_ofRows hM hi (by omega), hMi]
    rfl

/-- `mapper_util.data_weight_total_for_pix_from` = `Impl.dataWeightTotal` (Model/MapperTotals.lean; its closed form
    — entry `q` is the sum of all weights mapped to source pixel `q` — is `MapperTotals.dataWeightTotal_eq_spec`).
    The index table (`-1` padding included, read with numpy's wrap-around) and the weight table are lists of rows
    of widths `wI`, `wW`; every sub-pixel has a weight row; every index entry is an admissible numpy index on an
    axis of length `pixels` — exactly "Python does not raise". -/
theorem data_weight_total_for_pix_from_tie {α : Type} [Add α] [Zero α] [Inhabited α] (pixels wI wW : Nat)
    (idx : List (List Int)) (wts : List (List α))
    (hI : ∀ r ∈ idx, r.length = wI) (hW : ∀ r ∈ wts, r.length = wW) (hlen : idx.length ≤ wts.length)
    (hin : ∀ i < idx.length, ∀ k ∈ idx.getD i [], InIdx pixels k) :
    Generated.LoopsDelaunay.data_weight_total_for_pix_from (ofRows idx.length wI idx)
        (ofRows wts.length wW wts) (pixels : Int)
      = Impl.dataWeightTotal pixels idx wts := by
  unfold Generated.LoopsDelaunay.data_weight_total_for_pix_from Impl.dataWeightTotal
  simp only [A2.shape0_eq, ofRows_h, forRange_zero_nat, A1.zeros_natCast]
  refine (foldl_rel (fun (s t : List α) => s = t ∧ s.length = pixels) (List.range idx.length) _ _
    ⟨rfl, by simp⟩ ?_).1
  intro i hi s t h
  obtain ⟨rfl, hs⟩ := h
  have hi' : i < idx.length := by simpa using hi
  rw [row_ofRows ⟨rfl, hI⟩ hi', row_ofRows ⟨rfl, hW⟩ (Nat.lt_of_lt_of_le hi' hlen),
    TieTotalsAux.zip_accumulate pixels _ (hin i hi') _ _ hs]
  exact ⟨rfl, by rw [MapperTotals.addRowWeights_length]; exact hs⟩

end TieDelaunay
