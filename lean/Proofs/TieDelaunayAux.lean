/-
Proofs/TieDelaunayAux.lean — helper lemmas for the LOOP TIES of the Delaunay mapper utilities
(Proofs/TieDelaunay.lean, property C06): the row-wise numpy operations of `Model/PyRt.lean` Extension 4
(`A2.rows`, `A2.zipRow`, `A2.sumAxis1`, `A2.countAxis1`, `A2.gatherRows`) and `A2.map / setRow / set / full` on an
array given by its list of rows (`TieRegAux.ofRows`), `np.argmin` against the model's `Impl.argminFirst`, and
the loop shape "iteration `i` writes row `i` of a pre-filled table" (`fill_rows`).  Core Lean only (no Mathlib).
-/
import Model.PyRt
import Model.Mapper
import Proofs.TieCore
import Proofs.TieRegAux

open Model PyRt TieCore TieRegAux

namespace TieDelaunayAux

variable {α β γ : Type}

/-! ### arrays given by their rows -/

theorem getD_getElem (M : List β) (d : β) {i : Nat} (hi : i < M.length) : M.getD i d = M[i] := by
  simp [List.getD_eq_getElem?_getD, List.getElem?_eq_getElem hi]

theorem rows_ofRows {n m : Nat} {M : List (List β)} (hM : RDims n m M) : A2.rows (ofRows n m M) = M := by
  unfold A2.rows
  apply List.ext_getElem
  · simp [hM.1]
  · intro i h1 h2
    simp only [List.getElem_map, List.getElem_range, ofRows_data, ofRows_w]
    rw [flatten_drop_take M hM.2 i h2, getD_getElem _ _ h2]

theorem zipRow_ofRows (f : α → β → γ) {n m : Nat} {M : List (List α)} (hM : RDims n m M) (v : List β) :
    A2.zipRow f (ofRows n m M) v = ofRows n m (M.map fun r => List.zipWith f r v) := by
  unfold A2.zipRow
  rw [rows_ofRows hM]
  simp [ofRows, List.flatMap_def]

theorem map_ofRows (g : α → β) (n m : Nat) (M : List (List α)) :
    A2.map g (ofRows n m M) = ofRows n m (M.map fun r => r.map g) := by
  simp [A2.map, ofRows, List.map_flatten]

theorem sumAxis1_ofRows [Add α] [OfNat α 0] {n m : Nat} {M : List (List α)} (hM : RDims n m M) :
    A2.sumAxis1 (ofRows n m M) = M.map A1.sum := by
  unfold A2.sumAxis1
  rw [rows_ofRows hM]

theorem countAxis1_ofRows {n m : Nat} {M : List (List Bool)} (hM : RDims n m M) :
    A2.countAxis1 (ofRows n m M) = M.map A1.count := by
  unfold A2.countAxis1
  rw [rows_ofRows hM]

theorem RDims.map {n m : Nat} {M : List (List α)} (hM : RDims n m M) (g : List α → List β)
    (hg : ∀ r, r.length = m → (g r).length = m) : RDims n m (M.map g) := by
  constructor
  · simp [hM.1]
  · intro r hr
    obtain ⟨r', hr', rfl⟩ := List.mem_map.1 hr
    exact hg _ (hM.2 _ hr')

theorem RDims.set {n m : Nat} {M : List (List α)} (hM : RDims n m M) (i : Nat) (v : List α)
    (hv : v.length = m) : RDims n m (M.set i v) := by
  constructor
  · simp [hM.1]
  · intro r hr
    rcases List.mem_or_eq_of_mem_set hr with h | h
    · exact hM.2 _ h
    · rw [h]; exact hv

theorem flatten_take {m : Nat} (M : List (List β)) (hM : ∀ r ∈ M, r.length = m) (i : Nat) :
    M.flatten.take (i * m) = (M.take i).flatten := by
  induction M generalizing i with
  | nil => simp
  | cons r M ih =>
    have hr : r.length = m := hM r (by simp)
    have hM' : ∀ x ∈ M, x.length = m := fun x hx => hM x (by simp [hx])
    cases i with
    | zero => simp
    | succ i =>
      have e : (i + 1) * m = r.length + i * m := by rw [Nat.succ_mul, hr]; omega
      simp only [List.flatten_cons, List.take_succ_cons]
      rw [e, List.take_append, List.take_of_length_le (by omega), Nat.add_sub_cancel_left, ih hM']

theorem flatten_drop {m : Nat} (M : List (List β)) (hM : ∀ r ∈ M, r.length = m) (i : Nat) :
    M.flatten.drop (i * m) = (M.drop i).flatten := by
  induction M generalizing i with
  | nil => simp
  | cons r M ih =>
    have hr : r.length = m := hM r (by simp)
    have hM' : ∀ x ∈ M, x.length = m := fun x hx => hM x (by simp [hx])
    cases i with
    | zero => simp
    | succ i =>
      have e : (i + 1) * m = r.length + i * m := by rw [Nat.succ_mul, hr]; omega
      simp only [List.flatten_cons, List.drop_succ_cons]
      rw [e, List.drop_append, List.drop_of_length_le (by omega), Nat.add_sub_cancel_left, ih hM']
      simp

/-- `b[i] = v` / `b[i, :] = v` on an embedded table -/
theorem setRow_ofRows {n m : Nat} {M : List (List β)} (hM : RDims n m M) {i : Nat} (hi : i < n)
    (v : List β) (hv : v.length = m) :
    A2.setRow (ofRows n m M) (i : Int) v = ofRows n m (M.set i v) := by
  rw [A2.setRow_natCast _ _ _ (by simpa using hi) (by simpa using hv)]
  simp only [ofRows, A2.mk.injEq, true_and]
  have hi' : i < M.length := by rw [hM.1]; exact hi
  have e : i * m + m = (i + 1) * m := by rw [Nat.succ_mul]
  rw [flatten_take M hM.2 i, e, flatten_drop M hM.2 (i + 1)]
  conv => rhs; rw [List.set_eq_take_append_cons_drop, if_pos hi']
  simp

/-- `b[i, j] = x` on an embedded table -/
theorem set_ofRows {n m : Nat} {M : List (List β)} (hM : RDims n m M) {i j : Nat} (hi : i < n)
    (hj : j < m) (x : β) :
    A2.set (ofRows n m M) (i : Int) (j : Int) x = ofRows n m (M.set i ((M.getD i []).set j x)) := by
  have hi' : i < M.length := by rw [hM.1]; exact hi
  rw [A2.set_natCast _ _ _ _ (by simpa using hi) (by simpa using hj)]
  simp only [ofRows, A2.mk.injEq, true_and]
  rw [flatten_set M hM.2 i j hi' hj, modify_eq_set M i _ []]

theorem full_ofRows (n m : Nat) (c : β) :
    A2.full (n : Int) (m : Int) c = ofRows n m (List.replicate n (List.replicate m c)) := by
  rw [A2.full_natCast]
  simp [ofRows]

theorem RDims.replicate (n m : Nat) (r : List β) (hr : r.length = m) : RDims n m (List.replicate n r) := by
  constructor
  · simp
  · intro x hx
    rw [(List.mem_replicate.1 hx).2]; exact hr

/-- `a[idx]` (rows) on an embedded table, for in-range non-negative indices -/
theorem gatherRows_ofRows {n m : Nat} {M : List (List β)} (hM : RDims n m M) (idx : List Int)
    (hidx : ∀ k ∈ idx, 0 ≤ k ∧ k < (n : Int)) :
    A2.gatherRows (ofRows n m M) idx = ofRows idx.length m (idx.map fun k => M.getD k.toNat []) := by
  unfold A2.gatherRows
  simp only [ofRows, A2.mk.injEq, true_and, List.flatMap_def]
  congr 1
  apply List.map_congr_left
  intro k hk
  obtain ⟨h0, h1⟩ := hidx k hk
  have hk' : k = ((k.toNat : Nat) : Int) := by omega
  have hlt : k.toNat < n := by omega
  conv => lhs; rw [hk']
  exact row_ofRows (M := M) ⟨hM.1, hM.2⟩ hlt

/-! ### `np.argmin` -/

theorem argminAux_eq_fold [LT β] [DecidableLT β] (r : List β) (k : Nat) (m : β) (best : Nat) :
    A1.argminAux r k m best
      = (r.foldl (fun (st : Nat × β × Nat) v =>
          if v < st.2.1 then (st.2.2, v, st.2.2 + 1) else (st.1, st.2.1, st.2.2 + 1)) (best, m, k + 1)).1 := by
  induction r generalizing k m best with
  | nil => rfl
  | cons x r ih =>
    unfold A1.argminAux
    simp only [List.foldl_cons]
    split
    · rw [ih]
    · rw [ih]

/-- `np.argmin` is the model's `Impl.argminFirst` -/
theorem argmin_eq_first [LT β] [DecidableLT β] (l : List β) :
    A1.argmin l = ((Impl.argminFirst l : Nat) : Int) := by
  cases l with
  | nil => rfl
  | cons a t =>
    show ((A1.argminAux t 0 a 0 : Nat) : Int) = _
    rw [argminAux_eq_fold]
    rfl

/-! ### the loop "iteration `i` writes row `i` of a pre-filled table" -/

/-- a loop over `range n` whose `i`-th iteration replaces the (still initial) row `i` by `R i` produces the
    table of the rows `R 0, …, R (n-1)` -/
theorem fill_rows {n m : Nat} (init : List β) (hinit : init.length = m) (R : Nat → List β)
    (hR : ∀ j < n, (R j).length = m) (f : A2 β → Nat → A2 β)
    (hf : ∀ i < n, ∀ M, RDims n m M → M.getD i [] = init → f (ofRows n m M) i = ofRows n m (M.set i (R i))) :
    (List.range n).foldl f (ofRows n m (List.replicate n init)) = ofRows n m ((List.range n).map R) := by
  have key : ∀ i ≤ n, (List.range i).foldl f (ofRows n m (List.replicate n init))
      = ofRows n m ((List.range n).map fun j => if j < i then R j else init) := by
    intro i
    induction i with
    | zero =>
      intro _
      simp only [List.range_zero, List.foldl_nil, Nat.not_lt_zero, if_false]
      congr 1
      apply List.ext_getElem <;> simp
    | succ i ih =>
      intro hi
      have hi' : i < n := by omega
      rw [List.range_succ, List.foldl_append, ih (by omega)]
      simp only [List.foldl_cons, List.foldl_nil]
      have hdims : RDims n m ((List.range n).map fun j => if j < i then R j else init) := by
        constructor
        · simp
        · intro r hr
          obtain ⟨j, hj, rfl⟩ := List.mem_map.1 hr
          split
          · exact hR j (by simpa using hj)
          · exact hinit
      rw [hf i hi' _ hdims (by
        rw [getD_getElem _ _ (by simpa using hi')]
        simp)]
      congr 1
      apply List.ext_getElem
      · simp
      · intro j h1 h2
        have hj : j < n := by simpa using h2
        simp only [List.getElem_set, List.getElem_map, List.getElem_range]
        by_cases hji : i = j
        · subst hji; simp
        · have : (j < i + 1) = (j < i) := by
            apply propext; constructor <;> intro h <;> omega
          simp [hji, this]
  rw [key n (Nat.le_refl n)]
  congr 1
  apply List.map_congr_left
  intro j hj
  simp [List.mem_range.1 hj]

end TieDelaunayAux
