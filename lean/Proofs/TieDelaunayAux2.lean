/-
Proofs/TieDelaunayAux2.lean — the (few) lemmas of the Delaunay loop ties that need an ordered field:
the squared-distance rows `np.sum((points - p) ** 2.0, axis=1)`, the count of the non-negative entries of a row
of integers stored as reals, the triangle area on 1-D corner values.  (Mathlib: ordered fields, integer casts.)
-/
import Generated.LoopsDelaunay
import Model.PyRt
import Model.Mapper
import Proofs.TieCore
import Proofs.TieRegAux
import Proofs.TieDelaunayAux
import Mathlib.Algebra.Order.Field.Basic
import Mathlib.Algebra.Order.Ring.Cast

open Model PyRt TieCore TieRegAux TieDelaunayAux

namespace TieDelaunayAux

variable {α : Type}

/-- a point `(y, x)` as the row `[y, x]` of an `n × 2` array -/
def pairRow (p : α × α) : List α := [p.1, p.2]

/-- the `n × 2` array of points is the array of its rows -/
theorem ofPoints_eq (P : List (α × α)) : ofPoints P = ofRows P.length 2 (P.map pairRow) := by
  simp only [ofPoints, ofRows, rows2, List.flatMap_def]
  rfl

theorem pairRows_dims (P : List (α × α)) : RDims P.length 2 (P.map pairRow) := by
  constructor
  · simp
  · intro r hr
    obtain ⟨p, _, rfl⟩ := List.mem_map.1 hr
    rfl

/-- `grid[i]` as a row value -/
theorem row_ofPoints (P : List (α × α)) (d : α × α) {i : Nat} (hi : i < P.length) :
    A2.row (ofPoints P) (i : Int) = pairRow (P.getD i d) := by
  rw [ofPoints_eq, row_ofRows (pairRows_dims P) hi, getD_getElem _ _ (by simpa using hi),
    getD_getElem _ _ hi]
  simp

/-- `np.sum((points - p) ** 2.0, axis=1)` is the list of the model's squared distances -/
theorem sqdist_rows [Field α] (points : List (α × α)) (p : α × α) :
    A2.sumAxis1 (A2.map (fun u => PyRt.sq u) (A2.zipRow (fun u v => u - v) (ofPoints points) (pairRow p)))
      = points.map (Impl.sqDist p) := by
  rw [ofPoints_eq, zipRow_ofRows _ (pairRows_dims points), map_ofRows, sumAxis1_ofRows]
  · simp only [List.map_map]
    apply List.map_congr_left
    intro q _
    simp [pairRow, A1.sum, PyRt.sq, Impl.sqDist]
  · refine RDims.map (RDims.map (pairRows_dims points) _ ?_) _ ?_
    · intro r hr
      match r, hr with
      | [a, b], _ => rfl
    · intro r hr; simpa using hr

/-- the number of entries `>= 0` of a row of integers held in a float array -/
theorem count_cast_nonneg [Field α] [LinearOrder α] [IsStrictOrderedRing α] (r : List Int) :
    A1.count ((r.map fun (k : Int) => (k : α)).map fun u => decide (u ≥ (0 : α)))
      = (((r.filter (0 ≤ ·)).length : Nat) : Int) := by
  simp only [A1.count_eq, List.map_map]
  congr 1
  induction r with
  | nil => rfl
  | cons k r ih =>
    have hk : decide ((k : α) ≥ 0) = decide (0 ≤ k) := by
      simp [Int.cast_nonneg_iff]
    simp only [List.map_cons, Function.comp_apply, List.filter_cons, hk, id]
    by_cases h0 : 0 ≤ k <;> simp [h0, ih]

/-- `mesh_util.delaunay_triangle_area_from` on corners given as rows -/
theorem area_rows [Field α] [LinearOrder α] [Inhabited α] (c0 c1 c2 : α × α) :
    Generated.LoopsDelaunay.delaunay_triangle_area_from (pairRow c0) (pairRow c1) (pairRow c2)
      = Impl.triangleArea c0 c1 c2 := by
  have g0 : ∀ a b : α, A1.get [a, b] 0 = a := fun _ _ => rfl
  have g1 : ∀ a b : α, A1.get [a, b] 1 = b := fun _ _ => rfl
  unfold Generated.LoopsDelaunay.delaunay_triangle_area_from Impl.triangleArea PyRt.abs Model.absG pairRow
  simp only [g0, g1, Int.cast_one, Int.cast_ofNat]

/-- `source_plane_mesh_grid[pix_indexes][j]`: row `j` of the gathered vertex table -/
theorem gather_row (mesh : List (α × α)) (pix : List Int) (hpix : ∀ k ∈ pix, 0 ≤ k ∧ k < (mesh.length : Int))
    (d : α × α) {j : Nat} (hj : j < pix.length) :
    A2.row (A2.gatherRows (ofPoints mesh) pix) (j : Int) = pairRow (mesh.getD (pix.getD j 0).toNat d) := by
  rw [ofPoints_eq, gatherRows_ofRows (pairRows_dims mesh) pix hpix]
  have hdims : RDims pix.length 2 (pix.map fun k => (mesh.map pairRow).getD k.toNat []) := by
    constructor
    · simp
    · intro r hr
      obtain ⟨k, hk, rfl⟩ := List.mem_map.1 hr
      obtain ⟨h0, h1⟩ := hpix k hk
      have hlt : k.toNat < (mesh.map pairRow).length := by simp; omega
      rw [getD_getElem _ _ hlt]
      simp [pairRow]
  rw [row_ofRows hdims hj, getD_getElem _ _ (by simpa using hj)]
  obtain ⟨h0, h1⟩ := hpix pix[j] (List.getElem_mem hj)
  have hlt : (pix[j]).toNat < mesh.length := by omega
  simp only [List.getElem_map]
  rw [getD_getElem pix 0 hj, getD_getElem _ _ (by simpa using hlt), getD_getElem _ _ hlt]
  simp

end TieDelaunayAux
