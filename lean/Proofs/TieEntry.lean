/-
Proofs/TieEntry.lean — LOOP TIES for property C12 (translation covariance of the entry points): the
definitions that harness/translate2.py regenerates from the current Python source
(Generated/LoopsEntry.lean) are equal, for every input and every size, to the hand-written
`Model.Impl.*` functions of Model/Geometry.lean + Model/EntryPoints.lean that the theorems of
Props/C12.lean are about.  Only `*_tie` theorems live in this file (helpers: Proofs/TieCore.lean,
Proofs/TieShapesAux.lean, Proofs/TieEntryAux.lean).  See design_notes/LOOP_TIES.md for the proof pattern
and design_notes/TIES_C12.md for what is tied under which hypotheses.

The functions shared with property C02 (`geometry_util`, `grid_2d_slim_via_mask_from`) are NOT re-proved:
their generated text is the same in both modules, so the theorems of Proofs/TieShapes.lean apply to
`Generated.LoopsEntry.*` by definitional unfolding; they are restated here in C12's vocabulary
(`Geom`, `Impl.gridFromMask`, `Impl.gridAllFalse`, `Impl.rectangularPixIndexes`).

A coordinate list `[(y, x), …]` of the model is the `n × 2` numpy array `ofRows l`.
-/
import Generated.LoopsEntry
import Model.EntryPoints
import Proofs.EntryPoints
import Proofs.TieCore
import Proofs.TieShapes
import Proofs.TieEntryAux

open Model PyRt TieCore TieShapesAux TieEntryAux

namespace TieEntry

/-! ### straight-line coordinate arithmetic of `geometry_util.py` -/

/-- `geometry_util.central_pixel_coordinates_2d_from` = `Impl.centralPixel2` -/
theorem central_pixel_coordinates_2d_from_tie {α : Type} [DivisionRing α] (shape : Nat × Nat) :
    Generated.LoopsEntry.central_pixel_coordinates_2d_from (α := α) ((shape.1 : Int), (shape.2 : Int))
      = Impl.centralPixel2 shape :=
  TieShapes.central_pixel_coordinates_2d_from_tie shape

/-- `geometry_util.central_scaled_coordinate_2d_from` = `Impl.centralScaled2` — the only place the origin
    enters (`C12.origin_enters_through_central_scaled`) -/
theorem central_scaled_coordinate_2d_from_tie {α : Type} [DivisionRing α] (g : Geom α) :
    Generated.LoopsEntry.central_scaled_coordinate_2d_from ((g.shape.1 : Int), (g.shape.2 : Int)) g.s g.o
      = Impl.centralScaled2 g.shape g.s g.o :=
  TieShapes.central_scaled_coordinate_2d_from_tie g.shape g.s g.o

/-- `geometry_util.pixel_coordinates_2d_from` = `Impl.pixelCoordinates2` (code variant A: the origin is
    subtracted from the coordinate first) -/
theorem pixel_coordinates_2d_from_tie {α : Type} [DivisionRing α] (trunc : α → Int) (g : Geom α)
    (p : α × α) :
    Generated.LoopsEntry.pixel_coordinates_2d_from trunc p ((g.shape.1 : Int), (g.shape.2 : Int)) g.s g.o
      = Impl.pixelCoordinates2 trunc g.shape g.s g.o p := by
  unfold Generated.LoopsEntry.pixel_coordinates_2d_from
  rw [central_pixel_coordinates_2d_from_tie, half_cast]
  rfl

/-- `geometry_util.scaled_coordinates_2d_from` = `Impl.scaledCoordinates2` -/
theorem scaled_coordinates_2d_from_tie {α : Type} [DivisionRing α] (g : Geom α) (pix : α × α) :
    Generated.LoopsEntry.scaled_coordinates_2d_from pix ((g.shape.1 : Int), (g.shape.2 : Int)) g.s g.o
      = Impl.scaledCoordinates2 g.shape g.s g.o pix := by
  unfold Generated.LoopsEntry.scaled_coordinates_2d_from
  rw [central_scaled_coordinate_2d_from_tie]
  rfl

/-! ### whole-grid conversions (shared with C02; restated on a geometry record) -/

/-- `geometry_util.grid_pixels_2d_slim_from` = `Impl.gridPixels2`, i.e. `Impl.pixelsOfScaled` on every row
    (the conversion inside `Impl.zoomCentre`) -/
theorem grid_pixels_2d_slim_from_tie {α : Type} [DivisionRing α] [Inhabited α] (g : Geom α)
    (grid : List (α × α)) :
    Generated.LoopsEntry.grid_pixels_2d_slim_from (ofRows grid) ((g.shape.1 : Int), (g.shape.2 : Int)) g.s g.o
      = ofRows (grid.map (Impl.pixelsOfScaled g.shape g.s g.o)) := by
  rw [← gridPixels2_eq]
  exact TieShapes.grid_pixels_2d_slim_from_tie g.shape g.s g.o grid

/-- `geometry_util.grid_pixel_centres_2d_slim_from` = `Impl.gridPixelCentres2` (the model is the
    `.astype("int")` copy) -/
theorem grid_pixel_centres_2d_slim_from_tie {α : Type} [DivisionRing α] [Inhabited α]
    (trunc : α → Int) (g : Geom α) (grid : List (α × α)) :
    Generated.LoopsEntry.grid_pixel_centres_2d_slim_from trunc (ofRows grid)
        ((g.shape.1 : Int), (g.shape.2 : Int)) g.s g.o
      = ofRows ((Impl.gridPixelCentres2 trunc g.shape g.s g.o grid).map
          fun c => (((c.1 : Int) : α), ((c.2 : Int) : α))) :=
  TieShapes.grid_pixel_centres_2d_slim_from_tie trunc g.shape g.s g.o grid

/-- `geometry_util.grid_pixel_indexes_2d_slim_from` = `Impl.gridPixelIndexes2` (`htrunc`: `int()` is the
    identity on integer-valued floats) -/
theorem grid_pixel_indexes_2d_slim_from_tie {α : Type} [DivisionRing α] [Inhabited α]
    (trunc : α → Int) (htrunc : ∀ z : Int, trunc ((z : Int) : α) = z) (g : Geom α) (grid : List (α × α)) :
    Generated.LoopsEntry.grid_pixel_indexes_2d_slim_from trunc (ofRows grid)
        ((g.shape.1 : Int), (g.shape.2 : Int)) g.s g.o
      = (Impl.gridPixelIndexes2 trunc g.shape g.s g.o grid).map fun (z : Int) => ((z : Int) : α) :=
  TieShapes.grid_pixel_indexes_2d_slim_from_tie trunc htrunc g.shape g.s g.o grid

/-- the same function called on a rectangular mesh's record (`Mesh2DRectangular` /
    `MapperRectangular.pix_indexes_for_sub_slim_index`) = `Impl.rectangularPixIndexes` -/
theorem grid_pixel_indexes_2d_slim_from_rectangular_tie {α : Type} [DivisionRing α] [Inhabited α]
    (trunc : α → Int) (htrunc : ∀ z : Int, trunc ((z : Int) : α) = z) (mesh : Geom α)
    (grid : List (α × α)) :
    Generated.LoopsEntry.grid_pixel_indexes_2d_slim_from trunc (ofRows grid)
        ((mesh.shape.1 : Int), (mesh.shape.2 : Int)) mesh.s mesh.o
      = (Impl.rectangularPixIndexes trunc mesh grid).map fun (z : Int) => ((z : Int) : α) := by
  rw [grid_pixel_indexes_2d_slim_from_tie trunc htrunc, gridPixelIndexes2_eq]
  rfl

/-! ### grids of a mask -/

/-- `mask_2d_util.total_pixels_2d_from` (callee) = `Impl.totalPixels` -/
theorem total_pixels_2d_from_tie (m : Mask) (wf : m.WF) :
    Generated.LoopsEntry.total_pixels_2d_from (ofMask m) = (Impl.totalPixels m : Int) :=
  TieShapes.total_pixels_2d_from_tie m wf

/-- `grid_2d_util.grid_2d_slim_via_mask_from` = `Impl.gridFromMask` (`Grid2D.from_mask`; one bit per pixel
    of the record's frame) -/
theorem grid_2d_slim_via_mask_from_tie {α : Type} [DivisionRing α] (g : Geom α) (bits : List Bool)
    (hbits : bits.length = g.shape.1 * g.shape.2) :
    Generated.LoopsEntry.grid_2d_slim_via_mask_from (ofMask ⟨g.shape.1, g.shape.2, bits⟩) g.s g.o
      = ofRows (Impl.gridFromMask g bits) :=
  TieShapes.grid_2d_slim_via_mask_from_tie ⟨g.shape.1, g.shape.2, bits⟩ hbits g.s g.o

/-- … on the all-`False` mask that `grid_2d_slim_via_shape_native_from` (not jit) builds with
    `np.full(fill_value=False, shape=shape_native)` = `Impl.gridAllFalse` (`derive_grid.all_false`,
    `padded_grid_from`, the zoomed masks) -/
theorem grid_2d_slim_via_mask_from_all_false_tie {α : Type} [DivisionRing α] (g : Geom α) :
    Generated.LoopsEntry.grid_2d_slim_via_mask_from
        (ofMask ⟨g.shape.1, g.shape.2, List.replicate (g.shape.1 * g.shape.2) false⟩) g.s g.o
      = ofRows (Impl.gridAllFalse g) :=
  TieShapes.grid_2d_slim_via_mask_from_tie
    ⟨g.shape.1, g.shape.2, List.replicate (g.shape.1 * g.shape.2) false⟩ (by simp [Mask.WF]) g.s g.o

/-- `over_sample_util.grid_2d_slim_over_sampled_via_mask_from` with the constant sub-size array that
    `OverSamplerUniform` passes (one entry per unmasked pixel) = `Impl.overSampledGrid`: the code writes
    `sub × sub` rows per unmasked pixel at a running `sub_index` into `np.zeros((sum(sub_size**2), 2))`;
    the model appends the block. -/
theorem grid_2d_slim_over_sampled_via_mask_from_tie {α : Type} [Field α] (g : Geom α) (bits : List Bool)
    (hbits : bits.length = g.shape.1 * g.shape.2) (sub : Nat) :
    Generated.LoopsEntry.grid_2d_slim_over_sampled_via_mask_from (ofMask ⟨g.shape.1, g.shape.2, bits⟩) g.s
        (List.replicate (Impl.totalPixels ⟨g.shape.1, g.shape.2, bits⟩) (sub : Int)) g.o
      = ofRows (Impl.overSampledGrid g bits sub) := by
  generalize hm : (⟨g.shape.1, g.shape.2, bits⟩ : Mask) = m
  have wf : m.WF := by subst hm; exact hbits
  have hh : m.h = g.shape.1 := by subst hm; rfl
  have hw : m.w = g.shape.2 := by subst hm; rfl
  have hN : Impl.totalPixels m = ((pixels m.h m.w).filter fun p => !m.get p.1 p.2).length := by
    rw [totalPixels_eq]; rfl
  unfold Generated.LoopsEntry.grid_2d_slim_over_sampled_via_mask_from Impl.overSampledGrid
  rw [hm, forYX_eq_foldl, sum_sq_replicate, foldl_append_blocks (pixels m.h m.w) (fun p => !m.get p.1 p.2)
    (fun p => (pixels sub sub).map fun q => Impl.subPixelCentre g sub (p.1, p.2) q)]
  simp only [A2.shape0_eq, A2.shape1_eq, ofMask_h, ofMask_w, forRange_yx, A2.zeros, A2.full,
    Int.toNat_natCast, toNat_two, hh, hw, central_scaled_coordinate_2d_from_tie g]
  rw [← hh, ← hw]
  rw [foldl_congr_inv (fun pre (st : A2 α × Int × Int) =>
        st.2.1 = (((pre.filter fun p => !m.get p.1 p.2).length : Nat) : Int))
      (g := blockStep (fun p => !m.get p.1 p.2) (pixels sub sub)
        (fun p q => (Impl.subPixelCentre g sub (p.1, p.2) q).1)
        (fun p q => (Impl.subPixelCentre g sub (p.1, p.2) q).2))]
  · rw [hN]
    have := block_loop (pixels m.h m.w) (fun p => !m.get p.1 p.2) (pixels sub sub)
      (fun p q => (Impl.subPixelCentre g sub (p.1, p.2) q).1)
      (fun p q => (Impl.subPixelCentre g sub (p.1, p.2) q).2) (0 : α) []
      (((pixels m.h m.w).filter fun p => !m.get p.1 p.2).length * (sub * sub))
      (((pixels m.h m.w).filter fun p => !m.get p.1 p.2).length * (sub * sub) * 2) 0 0
      (by rw [pixels_length]; simp) (by rw [pixels_length]; omega) rfl
    simp only [rows2_nil, List.nil_append] at this
    rw [this]
    simp only [ofRows, List.nil_append, length_flatMap_blocks, pixels_length]
  · simp
  · intro pre p post st hl hP
    unfold blockStep
    by_cases hc : (!m.get p.1 p.2) = true
    · simp only [hc, if_true, List.filter_append, List.filter_cons, List.filter_nil, List.length_append,
        List.length_cons, List.length_nil, hP]
      push_cast
      rfl
    · simp only [hc, List.filter_append, List.filter_cons, List.filter_nil]
      simpa using hP
  · intro pre p post st hl hP
    have hp : p ∈ pixels m.h m.w := by rw [hl]; simp
    rw [mem_pixels] at hp
    rw [get_ofMask m wf hp.1 hp.2]
    unfold blockStep
    by_cases hc : (!m.get p.1 p.2) = true
    · have hlt := filter_length_lt_of_split (fun p => !m.get p.1 p.2) hl hc
      have hsub : A1.get (List.replicate (Impl.totalPixels m) (sub : Int)) st.2.1 = (sub : Int) := by
        rw [hP, A1.get_natCast, hN]
        simp [List.getD_eq_getElem?_getD, hlt]
      simp only [hc, if_true, hsub, forRange_yx, Int.cast_natCast, cast_two]
      rfl
    · simp only [hc, Bool.false_eq_true, if_false]

/-! ### gathers and bounding-box centres -/

/-- `overlay.overlay_via_unmasked_overlaid_from` = `Impl.gather` (`grid[indexes]`; every index is a row of
    the grid) -/
theorem overlay_via_unmasked_overlaid_from_tie {α : Type} [NatCast α] [OfNat α 0] [Inhabited α]
    (grid : List (α × α)) (idx : List Nat) (hidx : ∀ k ∈ idx, k < grid.length) :
    Generated.LoopsEntry.overlay_via_unmasked_overlaid_from (ofRows grid)
        (idx.map fun (k : Nat) => (k : Int))
      = ofRows (Impl.gather grid idx) := by
  unfold Generated.LoopsEntry.overlay_via_unmasked_overlaid_from Impl.gather
  simp only [A1.len_eq, List.length_map, forRange_zero_nat, A2.zeros, A2.full, Int.toNat_natCast, toNat_two]
  refine row_loop (0 : α) 0 (fun k => grid.getD k (((0 : Nat) : α), ((0 : Nat) : α))) idx _ _ ?_
  intro k hk
  have hm : k < (idx.map fun (k : Nat) => (k : Int)).length := by simpa using hk
  have hget : A1.get (idx.map fun (k : Nat) => (k : Int)) (k : Int) = ((idx.getD k 0 : Nat) : Int) := by
    rw [get_A1 _ (0 : Int) hm]
    simp [List.getD_eq_getElem?_getD, List.getElem?_eq_getElem hk]
  have hin : idx.getD k 0 < grid.length := by
    apply hidx
    simp [List.getD_eq_getElem?_getD, List.getElem?_eq_getElem hk]
  obtain ⟨e0, e1⟩ := get_ofRows grid (((0 : Nat) : α), ((0 : Nat) : α)) hin
  rw [hget, e0, e1]
  exact ⟨rfl, rfl⟩

/-- `overlay.total_pixels_2d_from` = the number of overlaid centres that fall on unmasked pixels (every
    centre is a pixel of the mask; `overlaid_centres` is the `.astype("int")` table).  No `Impl`
    counterpart: C12 takes the selection as an index list (`Impl.gather`). -/
theorem overlay_total_pixels_2d_from_tie (m : Mask) (wf : m.WF) (cs : List (Nat × Nat))
    (hcs : ∀ p ∈ cs, p.1 < m.h ∧ p.2 < m.w) :
    Generated.LoopsEntry.overlay_total_pixels_2d_from (ofMask m) (ofPairs (fun k => (k : Int)) cs)
      = (((cs.filter fun p => !m.get p.1 p.2).length : Nat) : Int) := by
  unfold Generated.LoopsEntry.overlay_total_pixels_2d_from
  simp only [A2.shape0_eq, ofPairs_h, forRange_zero_nat]
  rw [foldl_congr_mem (g := fun (s : Int) (k : Nat) =>
      if !m.get (cs.getD k (0, 0)).1 (cs.getD k (0, 0)).2 then s + 1 else s)]
  · rw [← filter_range_length cs (0, 0) (fun p => !m.get p.1 p.2)]
    simpa using count_loop (List.range cs.length)
      (fun k => !m.get (cs.getD k (0, 0)).1 (cs.getD k (0, 0)).2) 0
  · intro k hk s
    have hk' : k < cs.length := by simpa using hk
    obtain ⟨e0, e1⟩ := get_ofPairs (fun k => (k : Int)) cs hk'
    have hb := hcs cs[k] (List.getElem_mem hk')
    rw [e0, e1, get_ofMask m wf hb.1 hb.2]
    simp [List.getD_eq_getElem?_getD, List.getElem?_eq_getElem hk']

/-- `overlay.overlay_for_mask_from` (called with `total_pixels` from `overlay.total_pixels_2d_from`) = the
    positions of the overlaid centres that fall on unmasked pixels, in order — the index list that
    `overlay_via_unmasked_overlaid_from` / `Impl.gather` consumes after `.astype("int")`. -/
theorem overlay_for_mask_from_tie {α : Type} [OfNat α 0] [IntCast α] (m : Mask) (wf : m.WF)
    (cs : List (Nat × Nat)) (hcs : ∀ p ∈ cs, p.1 < m.h ∧ p.2 < m.w) :
    Generated.LoopsEntry.overlay_for_mask_from (α := α)
        (Generated.LoopsEntry.overlay_total_pixels_2d_from (ofMask m) (ofPairs (fun k => (k : Int)) cs))
        (ofMask m) (ofPairs (fun k => (k : Int)) cs)
      = ((List.range cs.length).filter fun k => !m.get (cs.getD k (0, 0)).1 (cs.getD k (0, 0)).2).map
          fun (k : Nat) => ((k : Int) : α) := by
  rw [overlay_total_pixels_2d_from_tie m wf cs hcs, ← filter_range_length cs (0, 0) (fun p => !m.get p.1 p.2)]
  unfold Generated.LoopsEntry.overlay_for_mask_from
  simp only [A2.shape0_eq, ofPairs_h, forRange_zero_nat, A1.zeros_natCast]
  rw [foldl_congr_mem (g := fun (st : A1 α × Int) (k : Nat) =>
      if !m.get (cs.getD k (0, 0)).1 (cs.getD k (0, 0)).2 then
        (A1.set st.1 st.2 (((k : Nat) : Int) : α), st.2 + 1) else st)]
  · have := pack_loop_A1 (List.range cs.length)
      (fun k => !m.get (cs.getD k (0, 0)).1 (cs.getD k (0, 0)).2)
      (fun (k : Nat) => (((k : Nat) : Int) : α)) (0 : α) []
    simp only [List.length_nil, Nat.zero_add, List.nil_append, Int.natCast_zero] at this
    rw [this]
  · intro k hk st
    have hk' : k < cs.length := by simpa using hk
    obtain ⟨e0, e1⟩ := get_ofPairs (fun k => (k : Int)) cs hk'
    have hb := hcs cs[k] (List.getElem_mem hk')
    rw [e0, e1, get_ofMask m wf hb.1 hb.2]
    simp [List.getD_eq_getElem?_getD, List.getElem?_eq_getElem hk']

/-- `grid_2d_util.grid_2d_centre_from` = `Impl.gridCentre` (numpy raises on an empty grid, the model
    returns `none`) -/
theorem grid_2d_centre_from_tie {α : Type} [Field α] [LinearOrder α] [Inhabited α]
    (grid : List (α × α)) (hg : grid ≠ []) :
    some (Generated.LoopsEntry.grid_2d_centre_from (ofRows grid)) = Impl.gridCentre grid := by
  have h0 : grid.map Prod.fst ≠ [] := by simpa using hg
  have h1 : grid.map Prod.snd ≠ [] := by simpa using hg
  unfold Generated.LoopsEntry.grid_2d_centre_from Impl.gridCentre
  have e0 : (grid.map (·.1)) = grid.map Prod.fst := rfl
  have e1 : (grid.map (·.2)) = grid.map Prod.snd := rfl
  rw [e0, e1, colMax_eq, colMin_eq, colMax_eq, colMin_eq, col0_ofRows, col1_ofRows]
  simp only [if_neg h0, if_neg h1, cast_two]

/-! ### radial projection -/

/-- `grid_2d_util._radial_projected_shape_slim_from` = the number of points of `Impl.radialProjected`
    (called with `shape_slim = 0`), whenever that number is positive.  (`extent` is the 4-vector
    `[x_min, x_max, y_min, y_max]`.)  The model inlines the duplicate of this computation that
    `grid_scaled_2d_slim_radial_projected_from` carries. -/
theorem radial_projected_shape_slim_from_tie {α : Type} [Field α] [LinearOrder α] [Inhabited α]
    (trunc : α → Int) (rot : α × α → α × α) (ext : α × α × α × α) (s c : α × α)
    (hpos : 1 ≤ Generated.LoopsEntry.radial_projected_shape_slim_from trunc
      [ext.1, ext.2.1, ext.2.2.1, ext.2.2.2] c s) :
    Generated.LoopsEntry.radial_projected_shape_slim_from trunc [ext.1, ext.2.1, ext.2.2.1, ext.2.2.2] c s
      = ((Impl.radialProjected trunc rot ext s c 0).length : Int) := by
  have g0 : A1.get [ext.1, ext.2.1, ext.2.2.1, ext.2.2.2] 0 = ext.1 := rfl
  have g1 : A1.get [ext.1, ext.2.1, ext.2.2.1, ext.2.2.2] 1 = ext.2.1 := rfl
  have g2 : A1.get [ext.1, ext.2.1, ext.2.2.1, ext.2.2.2] 2 = ext.2.2.1 := rfl
  have g3 : A1.get [ext.1, ext.2.1, ext.2.2.1, ext.2.2.2] 3 = ext.2.2.2 := rfl
  unfold Generated.LoopsEntry.radial_projected_shape_slim_from at hpos ⊢
  unfold Impl.radialProjected
  simp only [g0, g1, g2, g3, max2_eq_max, List.length_map, radial_line_length, List.length_nil,
    Nat.zero_add, if_true, Bool.or_eq_true, beq_iff_eq] at hpos ⊢
  omega

end TieEntry
