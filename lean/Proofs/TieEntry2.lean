/-
Proofs/TieEntry2.lean — LOOP TIES for property C12, second module (LoopsEntry2): the definitions that
harness/translate2.py regenerates from the current Python source (Generated/LoopsEntry2.lean) are equal,
for every input and every size, to the hand-written `Model.Impl.*` functions of Model/EntryPoints2.lean
(whose refinement lemmas Impl = Spec are in Proofs/EntryPoints2.lean).  Only `*_tie` theorems live in
this file (helpers: Proofs/TieCore.lean, Proofs/TieShapesAux.lean, Proofs/TieEntryAux.lean,
Proofs/TieEntry2Aux.lean).  See design_notes/LOOP_TIES.md and design_notes/TIES_sweepB_C12.md.
-/
import Generated.LoopsEntry2
import Model.EntryPoints2
import Proofs.EntryPoints2
import Proofs.TieCore
import Proofs.TieShapes
import Proofs.TieEntryAux
import Proofs.TieEntry2Aux

open Model PyRt TieCore TieShapesAux TieEntryAux TieEntry2Aux

namespace TieEntry2

/-- `overlay.mask_for_overlay_from` = `Impl.maskForOverlay` (every overlaid centre is a pixel of the mask —
    otherwise `mask[y, x]` raises IndexError; `overlaid_centres` is the `.astype("int")` table;
    `total_pixels` is a count).  The result is numpy's float array of the model's indices. -/
theorem mask_for_overlay_from_tie {α : Type} [OfNat α 0] [IntCast α] (m : Mask) (wf : m.WF)
    (cs : List (Nat × Nat)) (hcs : ∀ p ∈ cs, p.1 < m.h ∧ p.2 < m.w) (total : Nat) :
    Generated.LoopsEntry2.mask_for_overlay_from (α := α) (ofMask m) (ofPairs (fun k => (k : Int)) cs)
        (total : Int)
      = (Impl.maskForOverlay m cs total).map fun (k : Nat) => ((k : Int) : α) := by
  unfold Generated.LoopsEntry2.mask_for_overlay_from
  simp only [A2.shape0_eq, ofPairs_h, forRange_zero_nat, A1.zeros_natCast]
  rw [foldl_congr_mem (g := overlayStep (α := α) m total cs)]
  · exact overlay_fill_loop (0 : α) m total cs
  · intro k hk st
    have hk' : k < cs.length := by simpa using hk
    obtain ⟨e0, e1⟩ := get_ofPairs (fun k => (k : Int)) cs hk'
    have hb := hcs cs[k] (List.getElem_mem hk')
    rw [e0, e1, get_ofMask m wf hb.1 hb.2]
    unfold overlayStep
    simp [List.getD_eq_getElem?_getD, List.getElem?_eq_getElem hk']

/-- `grid_2d_util.grid_2d_slim_upscaled_from` = `Impl.gridUpscaled` (a coordinate list is its `n × 2` array;
    `upscale_factor` is a natural number — `range` of a negative factor is empty but `np.zeros` of the
    shape is what it is, so the factor is taken non-negative as in every caller) -/
theorem grid_2d_slim_upscaled_from_tie {α : Type} [DivisionRing α] [Inhabited α] (grid : List (α × α))
    (f : Nat) (s : α × α) :
    Generated.LoopsEntry2.grid_2d_slim_upscaled_from (ofRows grid) (f : Int) s
      = ofRows (Impl.gridUpscaled grid f s) := by
  have hz : ((grid.length : Nat) : Int) * PyRt.sq (f : Int) = ((grid.length * (f * f) : Nat) : Int) := by
    simp [PyRt.sq]
  unfold Generated.LoopsEntry2.grid_2d_slim_upscaled_from
  simp only [A2.shape0_eq, ofRows_h, forRange_zero_nat, hz, A2.zeros, A2.full,
    Int.toNat_natCast, toNat_two]
  rw [foldl_congr_mem (g := fun (st : A2 α × Int) (k : Nat) =>
      (pixels f f).foldl (fun (st : A2 α × Int) q =>
        (A2.set (A2.set st.1 st.2 0 (Impl.upscaledPoint f s (grid.getD k (0, 0)) q.1 q.2).1) st.2 1
          (Impl.upscaledPoint f s (grid.getD k (0, 0)) q.1 q.2).2, st.2 + 1)) st)]
  · rw [nested_pack (List.range grid.length) (pixels f f)
      (fun k q => (Impl.upscaledPoint f s (grid.getD k (0, 0)) q.1 q.2).1)
      (fun k q => (Impl.upscaledPoint f s (grid.getD k (0, 0)) q.1 q.2).2) (0 : α) _ _
      (by simp [pixels_length]) (by simp [pixels_length]; omega)]
    rw [EntryPoints2.gridUpscaled_eq]
    unfold Spec.gridUpscaled
    conv => rhs; rw [← map_getD_range grid (0, 0), List.flatMap_map]
  · intro k hk st
    have hk' : k < grid.length := by simpa using hk
    obtain ⟨e0, e1⟩ := get_ofRows grid ((0 : α), (0 : α)) hk'
    rw [e0, e1]
    unfold Impl.upscaledPoint
    simp only [Int.cast_natCast, cast_two, Prod.mk.eta, pixels, List.foldl_flatMap, List.foldl_map]

/-! ### `grid_pixels_in_mask_pixels_from` and its callees in `geometry_util.py` (shared with C02 / module
    LoopsEntry: the generated text is the same, so the theorems of Proofs/TieShapes.lean apply to
    `Generated.LoopsEntry2.*` by definitional unfolding; restated on a geometry record) -/

/-- `geometry_util.central_pixel_coordinates_2d_from` = `Impl.centralPixel2` -/
theorem central_pixel_coordinates_2d_from_tie {α : Type} [DivisionRing α] (shape : Nat × Nat) :
    Generated.LoopsEntry2.central_pixel_coordinates_2d_from (α := α) ((shape.1 : Int), (shape.2 : Int))
      = Impl.centralPixel2 shape :=
  TieShapes.central_pixel_coordinates_2d_from_tie shape

/-- `geometry_util.central_scaled_coordinate_2d_from` = `Impl.centralScaled2` -/
theorem central_scaled_coordinate_2d_from_tie {α : Type} [DivisionRing α] (g : Geom α) :
    Generated.LoopsEntry2.central_scaled_coordinate_2d_from ((g.shape.1 : Int), (g.shape.2 : Int)) g.s g.o
      = Impl.centralScaled2 g.shape g.s g.o :=
  TieShapes.central_scaled_coordinate_2d_from_tie g.shape g.s g.o

/-- `geometry_util.grid_pixel_centres_2d_slim_from` = `Impl.gridPixelCentres2` (the model is the
    `.astype("int")` copy) -/
theorem grid_pixel_centres_2d_slim_from_tie {α : Type} [DivisionRing α] [Inhabited α]
    (trunc : α → Int) (g : Geom α) (grid : List (α × α)) :
    Generated.LoopsEntry2.grid_pixel_centres_2d_slim_from trunc (ofRows grid)
        ((g.shape.1 : Int), (g.shape.2 : Int)) g.s g.o
      = ofRows ((Impl.gridPixelCentres2 trunc g.shape g.s g.o grid).map
          fun c => (((c.1 : Int) : α), ((c.2 : Int) : α))) :=
  TieShapes.grid_pixel_centres_2d_slim_from_tie trunc g.shape g.s g.o grid

/-- `grid_2d_util.grid_pixels_in_mask_pixels_from` = `Impl.pixelsInMaskPixels` as the `H × W` native array
    (`htrunc`: `int()` / `.astype("int")` is the identity on integer-valued floats; `hin`: every pixel
    centre of the grid lies inside the frame — outside it numpy raises IndexError or, for small negative
    indices, wraps around, which the model does not describe). -/
theorem grid_pixels_in_mask_pixels_from_tie {α : Type} [DivisionRing α] [Inhabited α]
    (trunc : α → Int) (htrunc : ∀ z : Int, trunc ((z : Int) : α) = z) (g : Geom α) (grid : List (α × α))
    (hin : ∀ c ∈ Impl.gridPixelCentres2 trunc g.shape g.s g.o grid,
      0 ≤ c.1 ∧ c.1 < (g.shape.1 : Int) ∧ 0 ≤ c.2 ∧ c.2 < (g.shape.2 : Int)) :
    Generated.LoopsEntry2.grid_pixels_in_mask_pixels_from trunc (ofRows grid)
        ((g.shape.1 : Int), (g.shape.2 : Int)) g.s g.o
      = ofNative g.shape.1 g.shape.2 (Impl.pixelsInMaskPixels trunc g grid) := by
  unfold Generated.LoopsEntry2.grid_pixels_in_mask_pixels_from Impl.pixelsInMaskPixels
  rw [grid_pixel_centres_2d_slim_from_tie trunc g grid, map_trunc_ofRows trunc htrunc]
  simp only [A2.shape0_eq, ofRows_h, forRange_zero_nat, A2.zeros_natCast]
  have h0 : (0 : α) = ((0 : Nat) : α) := by simp
  have h1 : (1 : α) = ((1 : Nat) : α) := by simp
  rw [h0, h1]
  exact scatter_loop ((1 : Nat) : α) g.shape.1 g.shape.2 _ hin

end TieEntry2
