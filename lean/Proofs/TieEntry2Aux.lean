/-
Proofs/TieEntry2Aux.lean — helper lemmas for the loop ties of Proofs/TieEntry2.lean (module LoopsEntry2).
Core Lean only.
-/
import Model.PyRt
import Model.EntryPoints2
import Proofs.Core
import Proofs.TieCore
import Proofs.TieShapesAux
import Proofs.TieEntryAux

open Model PyRt TieCore TieShapesAux TieEntryAux

namespace TieEntry2Aux

/-! ### loops over `range(len(l))` that read `l[k]` -/

/-- a loop over the positions of a list that only reads the element at the position is a loop over the
    elements -/
theorem foldl_range_getD {σ γ : Type} (l : List γ) (d : γ) (g : σ → γ → σ) (s : σ) :
    (List.range l.length).foldl (fun s k => g s (l.getD k d)) s = l.foldl g s := by
  conv => rhs; rw [← map_getD_range l d, List.foldl_map]

/-- in `range(N)` the element after a prefix is the length of the prefix -/
theorem range_split {N k : Nat} {pre post : List Nat} (hl : List.range N = pre ++ k :: post) :
    k = pre.length ∧ pre.length < N := by
  have h1 : (List.range N)[pre.length]? = some k := by rw [hl]; simp
  have h2 : pre.length < N := by
    have := congrArg List.length hl
    simp at this
    omega
  rw [List.getElem?_range h2] at h1
  exact ⟨by simpa using h1.symm, h2⟩

/-! ### `overlay.mask_for_overlay_from` -/

/-- the canonical step of the generated loop of `mask_for_overlay_from` -/
def overlayStep {α : Type} [IntCast α] (m : Mask) (total : Nat) (cs : List (Nat × Nat))
    (st : A1 α × Int) (k : Nat) : A1 α × Int :=
  (A1.set st.1 (k : Int) ((st.2 : Int) : α),
   if !m.get (cs.getD k (0, 0)).1 (cs.getD k (0, 0)).2 then
     (if st.2 < (total : Int) - 1 then st.2 + 1 else st.2)
   else st.2)

/-- writing entry `k` of the zero buffer in the `k`-th pass is the model's append -/
theorem overlay_fill_loop {α : Type} [IntCast α] (z : α) (m : Mask) (total : Nat) (cs : List (Nat × Nat)) :
    ((List.range cs.length).foldl (overlayStep (α := α) m total cs) (List.replicate cs.length z, 0)).1
      = (Impl.maskForOverlay m cs total).map fun (k : Nat) => ((k : Int) : α) := by
  unfold Impl.maskForOverlay
  rw [← foldl_range_getD cs (0, 0)]
  have H := foldl_rel_pre
    (fun (pre : List Nat) (s : A1 α × Int) (t : List Nat × Nat) =>
      s.2 = (t.2 : Int) ∧ t.1.length = pre.length ∧
      s.1 = (t.1.map fun (k : Nat) => ((k : Int) : α)) ++ List.replicate (cs.length - pre.length) z)
    (List.range cs.length) (overlayStep (α := α) m total cs)
    (fun t k => Impl.maskForOverlayStep m total t (cs.getD k (0, 0)))
    (s := (List.replicate cs.length z, 0)) (t := ([], 0)) (by simp) ?_
  · obtain ⟨_, h2, h3⟩ := H
    rw [h3]
    simp
  · intro pre k post s t hl hR
    obtain ⟨hk, hlt⟩ := range_split hl
    obtain ⟨r1, r2, r3⟩ := hR
    subst hk
    refine ⟨?_, ?_, ?_⟩
    · unfold overlayStep Impl.maskForOverlayStep
      simp only [r1]
      by_cases hu : (!m.get (cs.getD pre.length (0, 0)).1 (cs.getD pre.length (0, 0)).2) = true
      · simp only [hu, if_true]
        by_cases h : t.2 + 1 < total
        · have h' : (t.2 : Int) < (total : Int) - 1 := by omega
          simp [h, h']
        · have h' : ¬ (t.2 : Int) < (total : Int) - 1 := by omega
          simp [h, h']
      · simp only [hu]
        simp
    · simp [Impl.maskForOverlayStep, r2]
    · unfold overlayStep Impl.maskForOverlayStep
      simp only [A1.set_natCast, r3, r1, List.map_append, List.map_cons, List.map_nil, List.length_append,
        List.length_cons, List.length_nil]
      have e : cs.length - pre.length = (cs.length - (pre.length + 1)) + 1 := by omega
      have hlen : pre.length = (t.1.map fun (k : Nat) => ((k : Int) : α)).length := by simp [r2]
      rw [e, hlen]
      exact set_pack _ _ z _

/-! ### `grid_2d_util.grid_2d_slim_upscaled_from`: a block of rows per element at a running counter -/

/-- the loop nest `for i in L: for q in B: out[k, 0] = v0 i q; out[k, 1] = v1 i q; k += 1` over a zero
    buffer with `len(L) * len(B)` rows yields the blocks, appended in order -/
theorem nested_pack {ι κ β : Type} (L : List ι) (B : List κ) (v0 v1 : ι → κ → β) (z : β) (H R : Nat)
    (hH : H = L.length * B.length) (hR : R = 2 * (L.length * B.length)) :
    (L.foldl (fun (st : A2 β × Int) i =>
        B.foldl (fun (s : A2 β × Int) q => (A2.set (A2.set s.1 s.2 0 (v0 i q)) s.2 1 (v1 i q), s.2 + 1)) st)
      ({ h := H, w := 2, data := List.replicate R z }, 0)).1
      = ofRows (L.flatMap fun i => B.map fun q => (v0 i q, v1 i q)) := by
  have e : ∀ init : A2 β × Int,
      L.foldl (fun (st : A2 β × Int) i =>
        B.foldl (fun (s : A2 β × Int) q => (A2.set (A2.set s.1 s.2 0 (v0 i q)) s.2 1 (v1 i q), s.2 + 1)) st) init
      = (L.flatMap fun i => B.map fun q => (i, q)).foldl
          (fun (st : A2 β × Int) p =>
            (A2.set (A2.set st.1 st.2 0 (v0 p.1 p.2)) st.2 1 (v1 p.1 p.2), st.2 + 1)) init := by
    intro init
    simp [List.foldl_flatMap, List.foldl_map]
  rw [e]
  have hlen : (L.flatMap fun i => B.map fun q => (i, q)).length = L.length * B.length :=
    length_flatMap_blocks L B (fun i q => (i, q))
  have := pack_rows2_pad' (L.flatMap fun i => B.map fun q => (i, q))
    (fun p => v0 p.1 p.2) (fun p => v1 p.1 p.2) z [] H R 0
    (by rw [hlen]; simpa using hH) (by rw [hlen]; simpa using hR)
  simp only [rows2_nil, List.nil_append, List.length_nil, Int.natCast_zero] at this
  rw [this]
  simp only [Nat.mul_zero, List.replicate_zero, List.append_nil, ofRows, List.map_flatMap, List.map_map,
    Function.comp_def, length_flatMap_blocks, hH]

/-! ### `grid_2d_util.grid_pixels_in_mask_pixels_from` -/

/-- `.astype("int")` of the float table of integer pixel centres gives the integers back -/
theorem map_trunc_ofRows {α : Type} [IntCast α] (trunc : α → Int)
    (htrunc : ∀ z : Int, trunc ((z : Int) : α) = z) (cs : List (Int × Int)) :
    A2.map trunc (ofRows (cs.map fun c => (((c.1 : Int) : α), ((c.2 : Int) : α)))) = ofRows cs := by
  unfold A2.map ofRows
  simp only [List.length_map, A2.mk.injEq, true_and]
  induction cs with
  | nil => rfl
  | cons c cs ih => simp only [List.map_cons, rows2_cons, htrunc, ih]

/-- the scatter-count loop `a[y, x] += 1` over the centres (all inside the frame) is the model's fold over
    the flattened native array -/
theorem scatter_loop {α : Type} [Add α] [NatCast α] [Inhabited α] (one : α) (h w : Nat)
    (cs : List (Int × Int))
    (hin : ∀ c ∈ cs, 0 ≤ c.1 ∧ c.1 < (h : Int) ∧ 0 ≤ c.2 ∧ c.2 < (w : Int)) :
    (List.range cs.length).foldl (fun (a : A2 α) (k : Nat) =>
        A2.set a (A2.get (ofRows cs) (k : Int) 0) (A2.get (ofRows cs) (k : Int) 1)
          (A2.get a (A2.get (ofRows cs) (k : Int) 0) (A2.get (ofRows cs) (k : Int) 1) + one))
      { h := h, w := w, data := List.replicate (h * w) ((0 : Nat) : α) }
      = ofNative h w (cs.foldl (Impl.bumpAt one w) (List.replicate (h * w) ((0 : Nat) : α))) := by
  rw [← foldl_range_getD cs (0, 0)]
  refine foldl_rel (fun (s : A2 α) (t : List α) => s = ofNative h w t ∧ t.length = h * w)
    (List.range cs.length) _ _ (by simp [ofNative]) ?_ |>.1
  intro k hk s t hR
  obtain ⟨rfl, hlen⟩ := hR
  have hk' : k < cs.length := by simpa using hk
  obtain ⟨e0, e1⟩ := get_ofRows cs ((0 : Int), (0 : Int)) hk'
  have hb := hin (cs.getD k (0, 0)) (by
    simp [List.getD_eq_getElem?_getD, List.getElem?_eq_getElem hk'])
  obtain ⟨b1, b2, b3, b4⟩ := hb
  rw [e0, e1]
  generalize cs.getD k (0, 0) = c at b1 b2 b3 b4 ⊢
  have hy : c.1 = ((c.1.toNat : Nat) : Int) := by omega
  have hx : c.2 = ((c.2.toNat : Nat) : Int) := by omega
  have hyl : c.1.toNat < h := by omega
  have hxl : c.2.toNat < w := by omega
  unfold Impl.bumpAt
  rw [hy, hx, A2.set_natCast _ _ _ _ (by simpa using hyl) (by simpa using hxl),
    get_ofNative h w t hlen ((0 : Nat) : α) hyl hxl]
  simp only [Int.toNat_natCast, ofNative, List.length_set, hlen, and_self]

end TieEntry2Aux
