/-
Proofs/TieEntryAux.lean — helper lemmas for the LOOP TIES of property C12 (Proofs/TieEntry.lean):
  * columns of an embedded `n × 2` array (`a[:, 0]`, `a[:, 1]`) and numpy's `np.max` / `np.min` of a
    non-empty column as the model's `colMax` / `colMin`;
  * `pack_rows2_pad` — an unconditional block of row writes at a running counter into a buffer that is
    LONGER than the block (the inner `for y1: for x1:` nest of `grid_2d_slim_over_sampled_via_mask_from`);
  * `np.sum(sub_size ** 2)` of a constant sub-size array;
  * the length of the model's radial line.
No `*_tie` theorem lives here.
-/
import Generated.LoopsEntry
import Model.EntryPoints
import Proofs.EntryPoints
import Proofs.TieCore
import Proofs.TieShapesAux
import Mathlib.Algebra.Order.Field.Basic

open Model PyRt TieCore TieShapesAux

namespace TieEntryAux

/-! ### columns of an embedded list of pairs -/

theorem col0_ofRows [Inhabited β] (l : List (β × β)) : A2.col (ofRows l) 0 = l.map Prod.fst := by
  have h0 : (0 : Int) = ((0 : Nat) : Int) := rfl
  rw [h0, A2.col_natCast _ _ (by simp)]
  apply List.ext_getElem
  · simp
  · intro k h1 h2
    have hk : k < l.length := by simpa using h2
    have := (rows2_getD l default k hk).1
    simp only [ofRows, List.getElem_map, List.getElem_range] at this ⊢
    exact this

theorem col1_ofRows [Inhabited β] (l : List (β × β)) : A2.col (ofRows l) 1 = l.map Prod.snd := by
  have h1 : (1 : Int) = ((1 : Nat) : Int) := rfl
  rw [h1, A2.col_natCast _ _ (by simp)]
  apply List.ext_getElem
  · simp
  · intro k h1 h2
    have hk : k < l.length := by simpa using h2
    have := (rows2_getD l default k hk).2
    simp only [ofRows, List.getElem_map, List.getElem_range] at this ⊢
    exact this

/-! ### `np.max` / `np.min` of a column -/

section order
variable {α : Type} [LinearOrder α]

theorem foldl_max_eq (l : List α) (a : α) :
    l.foldl (fun m x => if m < x then x else m) a = l.foldl max a := by
  induction l generalizing a with
  | nil => rfl
  | cons b l ih =>
    simp only [List.foldl_cons]
    have : (if a < b then b else a) = max a b := by
      rcases lt_or_ge a b with h | h
      · rw [if_pos h, max_eq_right (le_of_lt h)]
      · rw [if_neg (not_lt.mpr h), max_eq_left h]
    rw [this, ih]

theorem foldl_min_eq (l : List α) (a : α) :
    l.foldl (fun m x => if x < m then x else m) a = l.foldl min a := by
  induction l generalizing a with
  | nil => rfl
  | cons b l ih =>
    simp only [List.foldl_cons]
    have : (if b < a then b else a) = min a b := by
      rcases lt_or_ge b a with h | h
      · rw [if_pos h, min_eq_right (le_of_lt h)]
      · rw [if_neg (not_lt.mpr h), min_eq_left h]
    rw [this, ih]

theorem max2_eq_max (a b : α) : PyRt.max2 a b = max a b := by
  unfold PyRt.max2
  rcases lt_or_ge a b with h | h
  · rw [if_pos h, max_eq_right (le_of_lt h)]
  · rw [if_neg (not_lt.mpr h), max_eq_left h]

theorem colMax_eq [Inhabited α] (l : List α) : Impl.colMax l = if l = [] then none else some (A1.max l) := by
  cases l with
  | nil => rfl
  | cons a l => simp [Impl.colMax, A1.max, foldl_max_eq]

theorem colMin_eq [Inhabited α] (l : List α) : Impl.colMin l = if l = [] then none else some (A1.min l) := by
  cases l with
  | nil => rfl
  | cons a l => simp [Impl.colMin, A1.min, foldl_min_eq]

end order

/-! ### an unconditional block of row writes at a running counter, into a longer buffer -/

theorem pack_rows2_pad {ι β : Type} (l : List ι) (v0 v1 : ι → β) (z : β) (xs : List (β × β)) (e : Nat) :
    l.foldl (fun (st : A2 β × Int) i => (A2.set (A2.set st.1 st.2 0 (v0 i)) st.2 1 (v1 i), st.2 + 1))
        ({ h := xs.length + (l.length + e), w := 2,
           data := rows2 xs ++ List.replicate (2 * (l.length + e)) z }, (xs.length : Int))
      = ({ h := xs.length + (l.length + e), w := 2,
           data := rows2 (xs ++ l.map fun i => (v0 i, v1 i)) ++ List.replicate (2 * e) z },
         ((xs.length + l.length : Nat) : Int)) := by
  induction l generalizing xs with
  | nil => simp
  | cons a l ih =>
    simp only [List.foldl_cons, List.length_cons]
    have e1 : l.length + 1 + e = (l.length + e) + 1 := by omega
    rw [e1, set_row2]
    have h2 : (xs.length : Int) + 1 = ((xs ++ [(v0 a, v1 a)]).length : Int) := by simp
    rw [h2, ih (xs ++ [(v0 a, v1 a)])]
    simp only [List.length_append, List.length_cons, List.length_nil, List.map_cons,
      List.append_assoc, List.cons_append, List.nil_append, Prod.mk.injEq, A2.mk.injEq, and_true]
    refine ⟨by omega, by omega⟩

/-- `pack_rows2_pad` with the shape and the length of the zero tail as variables -/
theorem pack_rows2_pad' {ι β : Type} (l : List ι) (v0 v1 : ι → β) (z : β) (xs : List (β × β))
    (H R e : Nat) (hH : H = xs.length + (l.length + e)) (hR : R = 2 * (l.length + e)) :
    l.foldl (fun (st : A2 β × Int) i => (A2.set (A2.set st.1 st.2 0 (v0 i)) st.2 1 (v1 i), st.2 + 1))
        ({ h := H, w := 2, data := rows2 xs ++ List.replicate R z }, (xs.length : Int))
      = ({ h := H, w := 2,
           data := rows2 (xs ++ l.map fun i => (v0 i, v1 i)) ++ List.replicate (2 * e) z },
         ((xs.length + l.length : Nat) : Int)) := by
  subst hH hR
  exact pack_rows2_pad l v0 v1 z xs e

/-- the canonical step of "for every selected element write the block `B` of rows at the running row
    counter and advance the element counter" (state: buffer, element counter, row counter) -/
def blockStep {ι κ β : Type} (c : ι → Bool) (B : List κ) (v0 v1 : ι → κ → β)
    (st : A2 β × Int × Int) (i : ι) : A2 β × Int × Int :=
  if c i then
    ((B.foldl (fun (s : A2 β × Int) q => (A2.set (A2.set s.1 s.2 0 (v0 i q)) s.2 1 (v1 i q), s.2 + 1))
        (st.1, st.2.2)).1,
     st.2.1 + 1,
     (B.foldl (fun (s : A2 β × Int) q => (A2.set (A2.set s.1 s.2 0 (v0 i q)) s.2 1 (v1 i q), s.2 + 1))
        (st.1, st.2.2)).2)
  else st

/-- … over a zero buffer with exactly one block per selected element: the blocks, appended in order -/
theorem block_loop {ι κ β : Type} (l : List ι) (c : ι → Bool) (B : List κ) (v0 v1 : ι → κ → β) (z : β)
    (xs : List (β × β)) (H R : Nat) (k cnt : Int)
    (hH : H = xs.length + (l.filter c).length * B.length)
    (hR : R = 2 * ((l.filter c).length * B.length)) (hcnt : cnt = (xs.length : Int)) :
    l.foldl (blockStep c B v0 v1) ({ h := H, w := 2, data := rows2 xs ++ List.replicate R z }, k, cnt)
      = ({ h := H, w := 2,
           data := rows2 (xs ++ (l.filter c).flatMap fun i => B.map fun q => (v0 i q, v1 i q)) },
         k + ((l.filter c).length : Int),
         ((xs.length + (l.filter c).length * B.length : Nat) : Int)) := by
  induction l generalizing xs R k cnt with
  | nil =>
    simp only [List.filter_nil, List.length_nil, Nat.zero_mul, Nat.mul_zero] at hR
    subst hR hcnt
    simp
  | cons a l ih =>
    simp only [List.foldl_cons, List.filter_cons] at hH hR ⊢
    by_cases hc : c a
    · simp only [hc, if_true, List.length_cons, List.flatMap_cons] at hH hR ⊢
      rw [Nat.add_one_mul (List.filter c l).length] at hH hR
      subst hcnt
      have hstep : blockStep c B v0 v1
            ({ h := H, w := 2, data := rows2 xs ++ List.replicate R z }, k, (xs.length : Int)) a
          = ({ h := H, w := 2,
               data := rows2 (xs ++ B.map fun q => (v0 a q, v1 a q))
                 ++ List.replicate (2 * ((l.filter c).length * B.length)) z },
             k + 1, ((xs.length + B.length : Nat) : Int)) := by
        unfold blockStep
        simp only [hc, if_true]
        rw [pack_rows2_pad' B (v0 a) (v1 a) z xs H R ((l.filter c).length * B.length) (by omega) (by omega)]
      rw [hstep, ih (xs ++ B.map fun q => (v0 a q, v1 a q)) (2 * ((l.filter c).length * B.length)) (k + 1)
        ((xs.length + B.length : Nat) : Int) (by simp; omega) rfl (by simp)]
      simp only [List.length_append, List.length_map, List.append_assoc, Prod.mk.injEq, true_and]
      rw [Nat.add_one_mul (List.filter c l).length]
      refine ⟨by omega, ?_⟩
      congr 1
      omega
    · simp only [hc, Bool.false_eq_true, if_false] at hH hR ⊢
      have : blockStep c B v0 v1 ({ h := H, w := 2, data := rows2 xs ++ List.replicate R z }, k, cnt) a
          = ({ h := H, w := 2, data := rows2 xs ++ List.replicate R z }, k, cnt) := by
        unfold blockStep
        simp [hc]
      rw [this]
      exact ih xs R k cnt hH hR hcnt

/-- the model side: appending a block per selected element is a `flatMap` over the selection -/
theorem foldl_append_blocks {ι γ : Type} (l : List ι) (c : ι → Bool) (F : ι → List γ) (init : List γ) :
    l.foldl (fun acc i => if c i then acc ++ F i else acc) init = init ++ (l.filter c).flatMap F := by
  induction l generalizing init with
  | nil => simp
  | cons a l ih =>
    simp only [List.foldl_cons, List.filter_cons]
    by_cases hc : c a
    · simp only [hc, if_true, List.flatMap_cons]
      rw [ih, List.append_assoc]
    · simp only [hc, Bool.false_eq_true, if_false]
      exact ih init

theorem length_flatMap_blocks {ι κ γ : Type} (l : List ι) (B : List κ) (f : ι → κ → γ) :
    (l.flatMap fun i => B.map (f i)).length = l.length * B.length := by
  induction l with
  | nil => simp
  | cons a l ih =>
    rw [List.flatMap_cons, List.length_append, ih, List.length_map, List.length_cons, Nat.add_one_mul]
    omega

/-- two folds agree when their steps agree on every state that satisfies an invariant of the second
    (the invariant may mention the prefix processed so far) -/
theorem foldl_congr_inv {σ ι : Type} (P : List ι → σ → Prop) (l : List ι) (f g : σ → ι → σ) (s : σ)
    (h0 : P [] s)
    (hP : ∀ pre i post s, l = pre ++ i :: post → P pre s → P (pre ++ [i]) (g s i))
    (hfg : ∀ pre i post s, l = pre ++ i :: post → P pre s → f s i = g s i) :
    l.foldl f s = l.foldl g s := by
  have := foldl_rel_pre (fun pre (a b : σ) => a = b ∧ P pre b) l f g (s := s) (t := s) ⟨rfl, h0⟩
    (fun pre i post a b hl hab => by
      obtain ⟨rfl, hp⟩ := hab
      exact ⟨hfg pre i post a hl hp, hP pre i post a hl hp⟩)
  exact this.1

/-! ### selections by position -/

theorem map_getD_range {γ : Type} (l : List γ) (d : γ) :
    (List.range l.length).map (fun k => l.getD k d) = l := by
  apply List.ext_getElem
  · simp
  · intro k h1 h2
    simp [List.getD_eq_getElem?_getD, List.getElem?_eq_getElem h2]

/-- counting the selected positions is counting the selected elements -/
theorem filter_range_length {γ : Type} (l : List γ) (d : γ) (c : γ → Bool) :
    ((List.range l.length).filter fun k => c (l.getD k d)).length = (l.filter c).length := by
  conv => rhs; rw [← map_getD_range l d, List.filter_map, List.length_map]
  rfl

/-! ### `np.sum(sub_size ** 2)` for a constant sub size -/

theorem sum_sq_replicate (n : Nat) (sub : Nat) :
    A1.sum (A1.map (fun u1 => PyRt.sq u1) (List.replicate n (sub : Int))) = ((n * (sub * sub) : Nat) : Int) := by
  unfold A1.sum A1.map
  rw [List.map_replicate]
  suffices H : ∀ (k : Int), (List.replicate n (PyRt.sq (sub : Int))).foldl (fun s v => s + v) k
      = k + ((n * (sub * sub) : Nat) : Int) by simpa using H 0
  induction n with
  | zero => intro k; simp
  | succ n ih =>
    intro k
    rw [List.replicate_succ, List.foldl_cons, ih]
    simp only [PyRt.sq, Nat.succ_mul, Int.natCast_add, Int.natCast_mul]
    omega

/-! ### the model's radial line has `n` points -/

theorem radial_line_length {α : Type} [Add α] (n : Nat) (cy ps : α) (acc : List (α × α)) (r : α) :
    ((List.range n).foldl (fun (st : List (α × α) × α) _ => (st.1 ++ [(cy, st.2)], st.2 + ps)) (acc, r)).1.length
      = acc.length + n := by
  induction n generalizing acc r with
  | zero => simp
  | succ n ih =>
    rw [List.range_succ, List.foldl_append]
    simp only [List.foldl_cons, List.foldl_nil, List.length_append, List.length_cons, List.length_nil]
    rw [ih]
    omega

end TieEntryAux
