/-
Proofs/TieFit.lean — TIES for property C08 (fit statistics): the definitions that
harness/translate_vec.py regenerates from the current source of the numpy-vectorised helpers of
`autoarray/fit/fit_util.py` (Generated/VecFit.lean) are equal, for every input and every size, to the
hand-written `Model.Impl.Fit.*` functions of Model/Fit.lean that the theorems of Props/C08.lean are
about.  Only `*_tie` theorems live in this file (helpers: Proofs/TieFitAux.lean).
See design_notes/LOOP_TIES.md and design_notes/TIES_C08vec.md.

Arrays are the flattened entries (`List α`), masks `List Bool` (`true` = masked).  The shape hypotheses
(`data.length = model.length`, `bits.length = data.length`) are the conditions under which numpy neither
broadcasts nor raises; outside them `PyRt` / `PyVec` are totalised (Model/PyVec.lean).

Number type: any `α` with the core operator classes.  The generated code spells the literals `2`, `0.5`
through `IntCast` (`((2 : Int) : α)`, `((1 : Int) : α) / ((2 : Int) : α)`), the hand model through
`OfNat α 1`, `OfNat α 2`; the hypotheses `h1 : ((1 : Int) : α) = 1`, `h2 : ((2 : Int) : α) = 2` identify
them (in any ring: `Int.cast_one`, `Int.cast_ofNat`).  `log`, `pi` are the same free variables on both
sides; the model's `twoPi` parameter is instantiated with the code's `2 * np.pi`.
-/
import Generated.VecFit
import Model.Fit
import Proofs.TieFitAux
import Proofs.TieFitGlue

open Model.Impl.Fit PyVec TieFitAux TieFitGlue

-- the shape hypotheses delimit where the generated definitions mean what numpy does; the equalities
-- themselves also hold outside (both sides stop at the shortest operand), so the proofs do not use them
set_option linter.unusedVariables false

namespace TieFit

/-- `fit_util.residual_map_from` = `Impl.Fit.residualMap` -/
theorem residual_map_from_tie {α : Type} [Sub α] (data model : List α)
    (h : data.length = model.length) :
    Generated.VecFit.residual_map_from data model = residualMap data model := rfl

/-- `fit_util.normalized_residual_map_from` = `Impl.Fit.normalizedResidualMap` -/
theorem normalized_residual_map_from_tie {α : Type} [Div α] (res noise : List α)
    (h : res.length = noise.length) :
    Generated.VecFit.normalized_residual_map_from res noise = normalizedResidualMap res noise := rfl

/-- `fit_util.chi_squared_map_from` = `Impl.Fit.chiSquaredMap`: the code squares the quotient array,
    the model squares inside one `zipWith`. -/
theorem chi_squared_map_from_tie {α : Type} [Mul α] [Div α] (res noise : List α)
    (h : res.length = noise.length) :
    Generated.VecFit.chi_squared_map_from res noise = chiSquaredMap res noise := by
  simp [Generated.VecFit.chi_squared_map_from, chiSquaredMap, PyRt.A1.map, PyRt.A1.zipWith, PyRt.sq,
    List.map_zipWith]

/-- `fit_util.chi_squared_from` = `Impl.Fit.chiSquared` -/
theorem chi_squared_from_tie {α : Type} [Add α] [OfNat α 0] (csm : List α) :
    Generated.VecFit.chi_squared_from csm = chiSquared csm := rfl

/-- `fit_util.noise_normalization_from` = `Impl.Fit.noiseNormalization` at `twoPi := 2 * np.pi`: the
    code makes three passes (`** 2.0`, `2π *`, `log`), the model one. -/
theorem noise_normalization_from_tie {α : Type} [Add α] [Mul α] [OfNat α 0] [IntCast α]
    (log : α → α) (pi : α) (noise : List α) :
    Generated.VecFit.noise_normalization_from log pi noise
      = noiseNormalization log (((2 : Int) : α) * pi) noise := by
  simp [Generated.VecFit.noise_normalization_from, noiseNormalization, Model.Impl.Fit.sum, PyRt.A1.sum,
    PyRt.A1.map, PyRt.sq, List.map_map, Function.comp_def]

/-- `fit_util.residual_map_with_mask_from` = `Impl.Fit.residualMapWithMask` -/
theorem residual_map_with_mask_from_tie {α : Type} [Sub α] [OfNat α 0] (data model : List α)
    (bits : List Bool) (h : data.length = model.length) (hm : bits.length = data.length) :
    Generated.VecFit.residual_map_with_mask_from data bits model
      = residualMapWithMask bits data model := by
  unfold Generated.VecFit.residual_map_with_mask_from residualMapWithMask
  exact ufuncWhere_zerosLike _ bits data model

/-- `fit_util.normalized_residual_map_with_mask_from` = `Impl.Fit.normalizedResidualMapWithMask` -/
theorem normalized_residual_map_with_mask_from_tie {α : Type} [Div α] [OfNat α 0] (res noise : List α)
    (bits : List Bool) (h : res.length = noise.length) (hm : bits.length = res.length) :
    Generated.VecFit.normalized_residual_map_with_mask_from res noise bits
      = normalizedResidualMapWithMask bits res noise := by
  unfold Generated.VecFit.normalized_residual_map_with_mask_from normalizedResidualMapWithMask
  exact ufuncWhere_zerosLike _ bits res noise

/-- `fit_util.chi_squared_map_with_mask_from` = `Impl.Fit.chiSquaredMapWithMask` -/
theorem chi_squared_map_with_mask_from_tie {α : Type} [Mul α] [Div α] [OfNat α 0] (res noise : List α)
    (bits : List Bool) (h : res.length = noise.length) (hm : bits.length = res.length) :
    Generated.VecFit.chi_squared_map_with_mask_from res noise bits
      = chiSquaredMapWithMask bits res noise := by
  unfold Generated.VecFit.chi_squared_map_with_mask_from chiSquaredMapWithMask
  rw [ufuncWhere_zerosLike _ bits res noise]
  rfl

/-- `fit_util.chi_squared_with_mask_from` = `Impl.Fit.chiSquaredWithMask` -/
theorem chi_squared_with_mask_from_tie {α : Type} [Add α] [OfNat α 0] (csm : List α)
    (bits : List Bool) (hm : bits.length = csm.length) :
    Generated.VecFit.chi_squared_with_mask_from csm bits = chiSquaredWithMask csm bits := by
  unfold Generated.VecFit.chi_squared_with_mask_from chiSquaredWithMask
  rw [select_eq_selectUnmasked]
  rfl

/-- `fit_util.chi_squared_with_mask_fast_from` (no twin in the hand model) = the model's masked
    chi-squared of the UNMASKED maps: `chiSquaredWithMask (chiSquaredMap (residualMap d m) n) bits`. -/
theorem chi_squared_with_mask_fast_from_tie {α : Type} [Add α] [Sub α] [Mul α] [Div α] [OfNat α 0]
    (data model noise : List α) (bits : List Bool) (h : data.length = model.length)
    (hn : noise.length = data.length) (hm : bits.length = data.length) :
    Generated.VecFit.chi_squared_with_mask_fast_from data bits model noise
      = chiSquaredWithMask (chiSquaredMap (residualMap data model) noise) bits := by
  unfold Generated.VecFit.chi_squared_with_mask_fast_from chiSquaredWithMask chiSquaredMap
  rw [← select_eq_selectUnmasked, select_zipWith]
  simp [residualMap, Model.Impl.Fit.sum, PyRt.A1.sum, PyRt.A1.map, PyRt.A1.zipWith, PyRt.sq,
    List.map_zipWith]

/-- `fit_util.noise_normalization_with_mask_from` = `Impl.Fit.noiseNormalizationWithMask` at
    `twoPi := 2 * np.pi` -/
theorem noise_normalization_with_mask_from_tie {α : Type} [Add α] [Mul α] [OfNat α 0] [IntCast α]
    (log : α → α) (pi : α) (noise : List α) (bits : List Bool) (hm : bits.length = noise.length) :
    Generated.VecFit.noise_normalization_with_mask_from log pi noise bits
      = noiseNormalizationWithMask log (((2 : Int) : α) * pi) noise bits := by
  unfold Generated.VecFit.noise_normalization_with_mask_from noiseNormalizationWithMask
  rw [select_eq_selectUnmasked]
  simp [Model.Impl.Fit.sum, PyRt.A1.sum, PyRt.A1.map, PyRt.sq, List.map_map, Function.comp_def]

/-- `fit_util.log_likelihood_from` = `Impl.Fit.logLikelihood` -/
theorem log_likelihood_from_tie {α : Type} [Add α] [Mul α] [Div α] [Neg α] [OfNat α 1] [OfNat α 2]
    [IntCast α] (h1 : ((1 : Int) : α) = 1) (h2 : ((2 : Int) : α) = 2) (chi norm : α) :
    Generated.VecFit.log_likelihood_from chi norm = logLikelihood chi norm := by
  unfold Generated.VecFit.log_likelihood_from logLikelihood negHalf
  rw [h1, h2]

/-- `fit_util.log_likelihood_with_regularization_from` = `Impl.Fit.logLikelihoodWithRegularization` -/
theorem log_likelihood_with_regularization_from_tie {α : Type} [Add α] [Mul α] [Div α] [Neg α]
    [OfNat α 1] [OfNat α 2] [IntCast α] (h1 : ((1 : Int) : α) = 1) (h2 : ((2 : Int) : α) = 2)
    (chi reg norm : α) :
    Generated.VecFit.log_likelihood_with_regularization_from chi reg norm
      = logLikelihoodWithRegularization chi reg norm := by
  unfold Generated.VecFit.log_likelihood_with_regularization_from logLikelihoodWithRegularization negHalf
  rw [h1, h2]

/-- `fit_util.log_evidence_from` = `Impl.Fit.logEvidence` -/
theorem log_evidence_from_tie {α : Type} [Add α] [Sub α] [Mul α] [Div α] [Neg α] [OfNat α 1]
    [OfNat α 2] [IntCast α] (h1 : ((1 : Int) : α) = 1) (h2 : ((2 : Int) : α) = 2)
    (chi reg logCurvReg logReg norm : α) :
    Generated.VecFit.log_evidence_from chi reg logCurvReg logReg norm
      = logEvidence chi reg logCurvReg logReg norm := by
  unfold Generated.VecFit.log_evidence_from logEvidence negHalf
  rw [h1, h2]

/-- `fit_util.residual_flux_fraction_map_from` = `Impl.Fit.residualFluxFractionMap`: without `where=`
    every zero of `out=np.zeros_like(..)` is overwritten. -/
theorem residual_flux_fraction_map_from_tie {α : Type} [Div α] [OfNat α 0] (res data : List α)
    (h : res.length = data.length) :
    Generated.VecFit.residual_flux_fraction_map_from res data = residualFluxFractionMap res data := by
  unfold Generated.VecFit.residual_flux_fraction_map_from residualFluxFractionMap
  exact ufuncOut_zerosLike _ res data

/-- `fit_util.residual_flux_fraction_map_with_mask_from` = `Impl.Fit.residualFluxFractionMapWithMask` -/
theorem residual_flux_fraction_map_with_mask_from_tie {α : Type} [Div α] [OfNat α 0]
    (res data : List α) (bits : List Bool) (h : res.length = data.length)
    (hm : bits.length = res.length) :
    Generated.VecFit.residual_flux_fraction_map_with_mask_from res data bits
      = residualFluxFractionMapWithMask bits res data := by
  unfold Generated.VecFit.residual_flux_fraction_map_with_mask_from residualFluxFractionMapWithMask
  exact ufuncWhere_zerosLike _ bits res data

/-! ### class glue: the properties of a `FitImaging` (whose user subclass overrides `model_data`, `inversion`)

`selfOf f inv` (Proofs/TieFitGlue.lean) is the record of attribute values of a fit object described by the
model's `FitInput` / `InvTerms`; `WF f` are the shapes under which numpy does not raise. -/

/-- `FitImaging`: `self.data` = `Impl.Fit.fitData` -/
theorem FitImaging_data_tie {α : Type} [Sub α] [OfNat α 0] [BEq α] (f : FitInput α) (inv : Option (InvTerms α))
    (hI : f.isImaging = true) : Generated.VecFit.FitImaging.data (selfOf f inv) = fitData f := by
  unfold Generated.VecFit.FitImaging.data fitData
  rw [hI, Bool.true_and]
  rfl

/-- `FitImaging`: `self.noise_map` = the dataset's noise-map -/
theorem FitImaging_noise_map_tie {α : Type} (f : FitInput α) (inv : Option (InvTerms α)) :
    Generated.VecFit.FitImaging.noise_map (selfOf f inv) = f.noise := rfl

/-- `FitImaging`: `self.mask` = the dataset's mask -/
theorem FitImaging_mask_tie {α : Type} (f : FitInput α) (inv : Option (InvTerms α)) :
    Generated.VecFit.FitImaging.mask (selfOf f inv) = f.bits := rfl

/-- `FitImaging`: `self.residual_map` = `Impl.Fit.fitResidualMap` -/
theorem FitImaging_residual_map_tie {α : Type} [Sub α] [OfNat α 0] [BEq α] (f : FitInput α) (inv : Option (InvTerms α))
    (hI : f.isImaging = true) (wf : WF f) : Generated.VecFit.FitImaging.residual_map (selfOf f inv) = fitResidualMap f := by
  unfold Generated.VecFit.FitImaging.residual_map Generated.VecFit.FitImaging.AbstractFit_residual_map fitResidualMap
  rw [FitImaging_data_tie f inv hI, FitImaging_mask_tie f inv, selfOf_use_mask, selfOf_model]
  have hd := fitData_length f
  cases hu : f.useMask <;> simp only [↓reduceIte, Bool.false_eq_true]
  · exact residual_map_from_tie _ _ (by rw [hd]; exact wf.model)
  · exact residual_map_with_mask_from_tie _ _ _ (by rw [hd]; exact wf.model) (by rw [hd]; exact wf.bits hu)

/-- `FitImaging`: `self.normalized_residual_map` = `Impl.Fit.fitNormalizedResidualMap` -/
theorem FitImaging_normalized_residual_map_tie {α : Type} [Sub α] [Div α] [OfNat α 0] [BEq α]
    (f : FitInput α) (inv : Option (InvTerms α)) (hI : f.isImaging = true) (wf : WF f) :
    Generated.VecFit.FitImaging.normalized_residual_map (selfOf f inv) = fitNormalizedResidualMap f := by
  unfold Generated.VecFit.FitImaging.normalized_residual_map Generated.VecFit.FitImaging.AbstractFit_normalized_residual_map fitNormalizedResidualMap
  rw [FitImaging_residual_map_tie f inv hI wf, FitImaging_noise_map_tie f inv, FitImaging_mask_tie f inv, selfOf_use_mask]
  have hr := fitResidualMap_length f wf
  cases hu : f.useMask <;> simp only [↓reduceIte, Bool.false_eq_true]
  · exact normalized_residual_map_from_tie _ _ (by rw [hr, wf.noise])
  · exact normalized_residual_map_with_mask_from_tie _ _ _ (by rw [hr, wf.noise]) (by rw [hr]; exact wf.bits hu)

/-- `FitImaging`: `self.chi_squared_map` = `Impl.Fit.fitChiSquaredMap` -/
theorem FitImaging_chi_squared_map_tie {α : Type} [Sub α] [Mul α] [Div α] [OfNat α 0] [BEq α]
    (f : FitInput α) (inv : Option (InvTerms α)) (hI : f.isImaging = true) (wf : WF f) :
    Generated.VecFit.FitImaging.chi_squared_map (selfOf f inv) = fitChiSquaredMap f := by
  unfold Generated.VecFit.FitImaging.chi_squared_map Generated.VecFit.FitImaging.AbstractFit_chi_squared_map fitChiSquaredMap
  rw [FitImaging_residual_map_tie f inv hI wf, FitImaging_noise_map_tie f inv, FitImaging_mask_tie f inv, selfOf_use_mask]
  have hr := fitResidualMap_length f wf
  cases hu : f.useMask <;> simp only [↓reduceIte, Bool.false_eq_true]
  · exact chi_squared_map_from_tie _ _ (by rw [hr, wf.noise])
  · exact chi_squared_map_with_mask_from_tie _ _ _ (by rw [hr, wf.noise]) (by rw [hr]; exact wf.bits hu)

/-- `FitImaging`: `self.chi_squared` (no noise covariance matrix) = `Impl.Fit.fitChiSquared` -/
theorem FitImaging_chi_squared_tie {α : Type} [Add α] [Sub α] [Mul α] [Div α] [OfNat α 0] [BEq α]
    (f : FitInput α) (inv : Option (InvTerms α)) (hI : f.isImaging = true) (wf : WF f) :
    Generated.VecFit.FitImaging.chi_squared (selfOf f inv) = fitChiSquared f := by
  unfold Generated.VecFit.FitImaging.chi_squared Generated.VecFit.FitImaging.AbstractFit_chi_squared fitChiSquared
  rw [FitImaging_chi_squared_map_tie f inv hI wf, FitImaging_mask_tie f inv, selfOf_use_mask]
  cases hu : f.useMask <;> simp only [↓reduceIte, Bool.false_eq_true]
  · exact chi_squared_from_tie _
  · exact chi_squared_with_mask_from_tie _ _ (by rw [fitChiSquaredMap_length f wf]; exact wf.bits hu)

/-- `FitImaging`: `self.noise_normalization` = `Impl.Fit.fitNoiseNormalization` at `twoPi := 2 * np.pi` -/
theorem FitImaging_noise_normalization_tie {α : Type} [Add α] [Mul α] [OfNat α 0] [IntCast α]
    (log : α → α) (pi : α) (f : FitInput α) (inv : Option (InvTerms α)) (wf : WF f) :
    Generated.VecFit.FitImaging.noise_normalization log pi (selfOf f inv)
      = fitNoiseNormalization log (((2 : Int) : α) * pi) f := by
  unfold Generated.VecFit.FitImaging.noise_normalization Generated.VecFit.FitImaging.AbstractFit_noise_normalization fitNoiseNormalization
  rw [FitImaging_noise_map_tie f inv, FitImaging_mask_tie f inv, selfOf_use_mask]
  cases hu : f.useMask <;> simp only [↓reduceIte, Bool.false_eq_true]
  · exact noise_normalization_from_tie log pi _
  · exact noise_normalization_with_mask_from_tie log pi _ _ (by rw [wf.noise]; exact wf.bits hu)

/-- `FitImaging`: `self.log_likelihood` = `Impl.Fit.fitLogLikelihood` -/
theorem FitImaging_log_likelihood_tie {α : Type} [Add α] [Sub α] [Mul α] [Div α] [Neg α] [OfNat α 0]
    [OfNat α 1] [OfNat α 2] [IntCast α] [BEq α] (h1 : ((1 : Int) : α) = 1) (h2 : ((2 : Int) : α) = 2)
    (log : α → α) (pi : α) (f : FitInput α) (inv : Option (InvTerms α)) (hI : f.isImaging = true) (wf : WF f) :
    Generated.VecFit.FitImaging.log_likelihood log pi (selfOf f inv) = fitLogLikelihood log (((2 : Int) : α) * pi) f := by
  unfold Generated.VecFit.FitImaging.log_likelihood fitLogLikelihood
  rw [FitImaging_chi_squared_tie f inv hI wf, FitImaging_noise_normalization_tie log pi f inv wf]
  exact log_likelihood_from_tie h1 h2 _ _

/-- `FitImaging`: `self.log_likelihood_with_regularization` = `Impl.Fit.fitLogLikelihoodWithRegularization`
    (`None` without an inversion) -/
theorem FitImaging_log_likelihood_with_regularization_tie {α : Type} [Add α] [Sub α] [Mul α] [Div α]
    [Neg α] [OfNat α 0] [OfNat α 1] [OfNat α 2] [IntCast α] [BEq α] (h1 : ((1 : Int) : α) = 1)
    (h2 : ((2 : Int) : α) = 2) (log : α → α) (pi : α) (f : FitInput α) (inv : Option (InvTerms α))
    (hI : f.isImaging = true) (wf : WF f) :
    Generated.VecFit.FitImaging.log_likelihood_with_regularization log pi (selfOf f inv)
      = fitLogLikelihoodWithRegularization log (((2 : Int) : α) * pi) f inv := by
  unfold Generated.VecFit.FitImaging.log_likelihood_with_regularization fitLogLikelihoodWithRegularization
  rw [FitImaging_chi_squared_tie f inv hI wf, FitImaging_noise_normalization_tie log pi f inv wf, selfOf_inversion]
  cases inv with
  | none => rfl
  | some t =>
    simp only [Option.map_some]
    rw [log_likelihood_with_regularization_from_tie h1 h2]
    rfl

/-- `FitImaging`: `self.log_evidence` = `Impl.Fit.fitLogEvidence` (`None` without an inversion) -/
theorem FitImaging_log_evidence_tie {α : Type} [Add α] [Sub α] [Mul α] [Div α] [Neg α] [OfNat α 0]
    [OfNat α 1] [OfNat α 2] [IntCast α] [BEq α] (h1 : ((1 : Int) : α) = 1) (h2 : ((2 : Int) : α) = 2)
    (log : α → α) (pi : α) (f : FitInput α) (inv : Option (InvTerms α)) (hI : f.isImaging = true) (wf : WF f) :
    Generated.VecFit.FitImaging.log_evidence log pi (selfOf f inv) = fitLogEvidence log (((2 : Int) : α) * pi) f inv := by
  unfold Generated.VecFit.FitImaging.log_evidence fitLogEvidence
  rw [FitImaging_chi_squared_tie f inv hI wf, FitImaging_noise_normalization_tie log pi f inv wf, selfOf_inversion]
  cases inv with
  | none => rfl
  | some t =>
    simp only [Option.map_some]
    rw [log_evidence_from_tie h1 h2]
    rfl

/-- `FitImaging`: `self.residual_flux_fraction_map` = `Impl.Fit.fitResidualFluxFractionMap` -/
theorem FitImaging_residual_flux_fraction_map_tie {α : Type} [Sub α] [Div α] [OfNat α 0] [BEq α]
    (f : FitInput α) (inv : Option (InvTerms α)) (hI : f.isImaging = true) (wf : WF f) :
    Generated.VecFit.FitImaging.residual_flux_fraction_map (selfOf f inv) = fitResidualFluxFractionMap f := by
  unfold Generated.VecFit.FitImaging.residual_flux_fraction_map fitResidualFluxFractionMap
  rw [FitImaging_residual_map_tie f inv hI wf, FitImaging_data_tie f inv hI, FitImaging_mask_tie f inv, selfOf_use_mask]
  have hr := fitResidualMap_length f wf
  have hd := fitData_length f
  cases hu : f.useMask <;> simp only [↓reduceIte, Bool.false_eq_true]
  · exact residual_flux_fraction_map_from_tie _ _ (by rw [hr, hd])
  · exact residual_flux_fraction_map_with_mask_from_tie _ _ _ (by rw [hr, hd]) (by rw [hr]; exact wf.bits hu)

/-- `FitImaging`: `self.reduced_chi_squared` = `Impl.Fit.fitReducedChiSquared`; `hpos` (some pixel is unmasked)
    is where Python does not raise ZeroDivisionError, `hcast` identifies the two spellings of a count. -/
theorem FitImaging_reduced_chi_squared_tie {α : Type} [Add α] [Sub α] [Mul α] [Div α] [OfNat α 0]
    [IntCast α] [BEq α] [NatCast α] (hcast : ∀ n : Nat, (((n : Nat) : Int) : α) = ((n : Nat) : α))
    (f : FitInput α) (inv : Option (InvTerms α)) (hI : f.isImaging = true) (wf : WF f)
    (hpos : (f.bits.filter id).length < f.bits.length) :
    Generated.VecFit.FitImaging.reduced_chi_squared (selfOf f inv) = fitReducedChiSquared f := by
  unfold Generated.VecFit.FitImaging.reduced_chi_squared fitReducedChiSquared
  rw [FitImaging_chi_squared_tie f inv hI wf, FitImaging_mask_tie f inv, unmasked_count, hcast]

/-! ### class glue: the properties of a plain `FitDataset` (whose user subclass overrides `model_data`, `inversion`)

`selfOf f inv` (Proofs/TieFitGlue.lean) is the record of attribute values of a fit object described by the
model's `FitInput` / `InvTerms`; `WF f` are the shapes under which numpy does not raise. -/

/-- `FitDataset`: `self.data` = `Impl.Fit.fitData` -/
theorem FitDataset_data_tie {α : Type} [Sub α] [OfNat α 0] [BEq α] (f : FitInput α) (inv : Option (InvTerms α))
    (hI : f.isImaging = false) : Generated.VecFit.FitDataset.data (selfOf f inv) = fitData f := by
  simp [Generated.VecFit.FitDataset.data, fitData, hI]

/-- `FitDataset`: `self.noise_map` = the dataset's noise-map -/
theorem FitDataset_noise_map_tie {α : Type} (f : FitInput α) (inv : Option (InvTerms α)) :
    Generated.VecFit.FitDataset.noise_map (selfOf f inv) = f.noise := rfl

/-- `FitDataset`: `self.mask` = the dataset's mask -/
theorem FitDataset_mask_tie {α : Type} (f : FitInput α) (inv : Option (InvTerms α)) :
    Generated.VecFit.FitDataset.mask (selfOf f inv) = f.bits := rfl

/-- `FitDataset`: `self.residual_map` = `Impl.Fit.fitResidualMap` -/
theorem FitDataset_residual_map_tie {α : Type} [Sub α] [OfNat α 0] [BEq α] (f : FitInput α) (inv : Option (InvTerms α))
    (hI : f.isImaging = false) (wf : WF f) : Generated.VecFit.FitDataset.residual_map (selfOf f inv) = fitResidualMap f := by
  unfold Generated.VecFit.FitDataset.residual_map Generated.VecFit.FitDataset.AbstractFit_residual_map fitResidualMap
  rw [FitDataset_data_tie f inv hI, FitDataset_mask_tie f inv, selfOf_use_mask, selfOf_model]
  have hd := fitData_length f
  cases hu : f.useMask <;> simp only [↓reduceIte, Bool.false_eq_true]
  · exact residual_map_from_tie _ _ (by rw [hd]; exact wf.model)
  · exact residual_map_with_mask_from_tie _ _ _ (by rw [hd]; exact wf.model) (by rw [hd]; exact wf.bits hu)

/-- `FitDataset`: `self.normalized_residual_map` = `Impl.Fit.fitNormalizedResidualMap` -/
theorem FitDataset_normalized_residual_map_tie {α : Type} [Sub α] [Div α] [OfNat α 0] [BEq α]
    (f : FitInput α) (inv : Option (InvTerms α)) (hI : f.isImaging = false) (wf : WF f) :
    Generated.VecFit.FitDataset.normalized_residual_map (selfOf f inv) = fitNormalizedResidualMap f := by
  unfold Generated.VecFit.FitDataset.normalized_residual_map Generated.VecFit.FitDataset.AbstractFit_normalized_residual_map fitNormalizedResidualMap
  rw [FitDataset_residual_map_tie f inv hI wf, FitDataset_noise_map_tie f inv, FitDataset_mask_tie f inv, selfOf_use_mask]
  have hr := fitResidualMap_length f wf
  cases hu : f.useMask <;> simp only [↓reduceIte, Bool.false_eq_true]
  · exact normalized_residual_map_from_tie _ _ (by rw [hr, wf.noise])
  · exact normalized_residual_map_with_mask_from_tie _ _ _ (by rw [hr, wf.noise]) (by rw [hr]; exact wf.bits hu)

/-- `FitDataset`: `self.chi_squared_map` = `Impl.Fit.fitChiSquaredMap` -/
theorem FitDataset_chi_squared_map_tie {α : Type} [Sub α] [Mul α] [Div α] [OfNat α 0] [BEq α]
    (f : FitInput α) (inv : Option (InvTerms α)) (hI : f.isImaging = false) (wf : WF f) :
    Generated.VecFit.FitDataset.chi_squared_map (selfOf f inv) = fitChiSquaredMap f := by
  unfold Generated.VecFit.FitDataset.chi_squared_map Generated.VecFit.FitDataset.AbstractFit_chi_squared_map fitChiSquaredMap
  rw [FitDataset_residual_map_tie f inv hI wf, FitDataset_noise_map_tie f inv, FitDataset_mask_tie f inv, selfOf_use_mask]
  have hr := fitResidualMap_length f wf
  cases hu : f.useMask <;> simp only [↓reduceIte, Bool.false_eq_true]
  · exact chi_squared_map_from_tie _ _ (by rw [hr, wf.noise])
  · exact chi_squared_map_with_mask_from_tie _ _ _ (by rw [hr, wf.noise]) (by rw [hr]; exact wf.bits hu)

/-- `FitDataset`: `self.chi_squared` (no noise covariance matrix) = `Impl.Fit.fitChiSquared` -/
theorem FitDataset_chi_squared_tie {α : Type} [Add α] [Sub α] [Mul α] [Div α] [OfNat α 0] [BEq α]
    (f : FitInput α) (inv : Option (InvTerms α)) (hI : f.isImaging = false) (wf : WF f) :
    Generated.VecFit.FitDataset.chi_squared (selfOf f inv) = fitChiSquared f := by
  unfold Generated.VecFit.FitDataset.chi_squared Generated.VecFit.FitDataset.AbstractFit_chi_squared fitChiSquared
  rw [FitDataset_chi_squared_map_tie f inv hI wf, FitDataset_mask_tie f inv, selfOf_use_mask]
  cases hu : f.useMask <;> simp only [↓reduceIte, Bool.false_eq_true]
  · exact chi_squared_from_tie _
  · exact chi_squared_with_mask_from_tie _ _ (by rw [fitChiSquaredMap_length f wf]; exact wf.bits hu)

/-- `FitDataset`: `self.noise_normalization` = `Impl.Fit.fitNoiseNormalization` at `twoPi := 2 * np.pi` -/
theorem FitDataset_noise_normalization_tie {α : Type} [Add α] [Mul α] [OfNat α 0] [IntCast α]
    (log : α → α) (pi : α) (f : FitInput α) (inv : Option (InvTerms α)) (wf : WF f) :
    Generated.VecFit.FitDataset.noise_normalization log pi (selfOf f inv)
      = fitNoiseNormalization log (((2 : Int) : α) * pi) f := by
  unfold Generated.VecFit.FitDataset.noise_normalization Generated.VecFit.FitDataset.AbstractFit_noise_normalization fitNoiseNormalization
  rw [FitDataset_noise_map_tie f inv, FitDataset_mask_tie f inv, selfOf_use_mask]
  cases hu : f.useMask <;> simp only [↓reduceIte, Bool.false_eq_true]
  · exact noise_normalization_from_tie log pi _
  · exact noise_normalization_with_mask_from_tie log pi _ _ (by rw [wf.noise]; exact wf.bits hu)

/-- `FitDataset`: `self.log_likelihood` = `Impl.Fit.fitLogLikelihood` -/
theorem FitDataset_log_likelihood_tie {α : Type} [Add α] [Sub α] [Mul α] [Div α] [Neg α] [OfNat α 0]
    [OfNat α 1] [OfNat α 2] [IntCast α] [BEq α] (h1 : ((1 : Int) : α) = 1) (h2 : ((2 : Int) : α) = 2)
    (log : α → α) (pi : α) (f : FitInput α) (inv : Option (InvTerms α)) (hI : f.isImaging = false) (wf : WF f) :
    Generated.VecFit.FitDataset.log_likelihood log pi (selfOf f inv) = fitLogLikelihood log (((2 : Int) : α) * pi) f := by
  unfold Generated.VecFit.FitDataset.log_likelihood fitLogLikelihood
  rw [FitDataset_chi_squared_tie f inv hI wf, FitDataset_noise_normalization_tie log pi f inv wf]
  exact log_likelihood_from_tie h1 h2 _ _

/-- `FitDataset`: `self.log_likelihood_with_regularization` = `Impl.Fit.fitLogLikelihoodWithRegularization`
    (`None` without an inversion) -/
theorem FitDataset_log_likelihood_with_regularization_tie {α : Type} [Add α] [Sub α] [Mul α] [Div α]
    [Neg α] [OfNat α 0] [OfNat α 1] [OfNat α 2] [IntCast α] [BEq α] (h1 : ((1 : Int) : α) = 1)
    (h2 : ((2 : Int) : α) = 2) (log : α → α) (pi : α) (f : FitInput α) (inv : Option (InvTerms α))
    (hI : f.isImaging = false) (wf : WF f) :
    Generated.VecFit.FitDataset.log_likelihood_with_regularization log pi (selfOf f inv)
      = fitLogLikelihoodWithRegularization log (((2 : Int) : α) * pi) f inv := by
  unfold Generated.VecFit.FitDataset.log_likelihood_with_regularization fitLogLikelihoodWithRegularization
  rw [FitDataset_chi_squared_tie f inv hI wf, FitDataset_noise_normalization_tie log pi f inv wf, selfOf_inversion]
  cases inv with
  | none => rfl
  | some t =>
    simp only [Option.map_some]
    rw [log_likelihood_with_regularization_from_tie h1 h2]
    rfl

/-- `FitDataset`: `self.log_evidence` = `Impl.Fit.fitLogEvidence` (`None` without an inversion) -/
theorem FitDataset_log_evidence_tie {α : Type} [Add α] [Sub α] [Mul α] [Div α] [Neg α] [OfNat α 0]
    [OfNat α 1] [OfNat α 2] [IntCast α] [BEq α] (h1 : ((1 : Int) : α) = 1) (h2 : ((2 : Int) : α) = 2)
    (log : α → α) (pi : α) (f : FitInput α) (inv : Option (InvTerms α)) (hI : f.isImaging = false) (wf : WF f) :
    Generated.VecFit.FitDataset.log_evidence log pi (selfOf f inv) = fitLogEvidence log (((2 : Int) : α) * pi) f inv := by
  unfold Generated.VecFit.FitDataset.log_evidence fitLogEvidence
  rw [FitDataset_chi_squared_tie f inv hI wf, FitDataset_noise_normalization_tie log pi f inv wf, selfOf_inversion]
  cases inv with
  | none => rfl
  | some t =>
    simp only [Option.map_some]
    rw [log_evidence_from_tie h1 h2]
    rfl

/-- `FitDataset`: `self.residual_flux_fraction_map` = `Impl.Fit.fitResidualFluxFractionMap` -/
theorem FitDataset_residual_flux_fraction_map_tie {α : Type} [Sub α] [Div α] [OfNat α 0] [BEq α]
    (f : FitInput α) (inv : Option (InvTerms α)) (hI : f.isImaging = false) (wf : WF f) :
    Generated.VecFit.FitDataset.residual_flux_fraction_map (selfOf f inv) = fitResidualFluxFractionMap f := by
  unfold Generated.VecFit.FitDataset.residual_flux_fraction_map fitResidualFluxFractionMap
  rw [FitDataset_residual_map_tie f inv hI wf, FitDataset_data_tie f inv hI, FitDataset_mask_tie f inv, selfOf_use_mask]
  have hr := fitResidualMap_length f wf
  have hd := fitData_length f
  cases hu : f.useMask <;> simp only [↓reduceIte, Bool.false_eq_true]
  · exact residual_flux_fraction_map_from_tie _ _ (by rw [hr, hd])
  · exact residual_flux_fraction_map_with_mask_from_tie _ _ _ (by rw [hr, hd]) (by rw [hr]; exact wf.bits hu)

/-- `FitDataset`: `self.reduced_chi_squared` = `Impl.Fit.fitReducedChiSquared`; `hpos` (some pixel is unmasked)
    is where Python does not raise ZeroDivisionError, `hcast` identifies the two spellings of a count. -/
theorem FitDataset_reduced_chi_squared_tie {α : Type} [Add α] [Sub α] [Mul α] [Div α] [OfNat α 0]
    [IntCast α] [BEq α] [NatCast α] (hcast : ∀ n : Nat, (((n : Nat) : Int) : α) = ((n : Nat) : α))
    (f : FitInput α) (inv : Option (InvTerms α)) (hI : f.isImaging = false) (wf : WF f)
    (hpos : (f.bits.filter id).length < f.bits.length) :
    Generated.VecFit.FitDataset.reduced_chi_squared (selfOf f inv) = fitReducedChiSquared f := by
  unfold Generated.VecFit.FitDataset.reduced_chi_squared fitReducedChiSquared
  rw [FitDataset_chi_squared_tie f inv hI wf, FitDataset_mask_tie f inv, unmasked_count, hcast]

end TieFit
