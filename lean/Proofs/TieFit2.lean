/-
Proofs/TieFit2.lean — LOOP TIE (DESIGN.md §12, design_notes/LOOP_TIES.md) for property C08, module `LoopsFit2`:
`array_2d_util.replace_noise_map_2d_values_where_image_2d_values_are_negative` as regenerated into
Generated/LoopsFit2.lean from the current Python source, against the hand model `Model.Impl.replaceNoise`
(Model/NoiseReplace.lean), whose refinement to the pointwise `Model.Spec.replaceNoise` is
`Model.replaceNoise_eq` (Proofs/NoiseReplace.lean).  ONLY theorems named `*_tie` here.
-/
import Generated.LoopsFit2
import Model.NoiseReplace
import Proofs.NoiseReplace
import Proofs.TieCore

open Model PyRt TieCore

namespace TieFit2

/-- `replace_noise_map_2d_values_where_image_2d_values_are_negative(image_2d, noise_map_2d, target)` on two
    `h × w` arrays (both with their full `h*w` data: Python does not raise IndexError) is
    `Impl.replaceNoise h w image noise target`, for every size and every number type -/
theorem replace_noise_map_2d_values_where_image_2d_values_are_negative_tie {α : Type} [Div α] [Neg α]
    [OfNat α 0] [LT α] [DecidableLT α] [LE α] [DecidableLE α] [Inhabited α]
    (h w : Nat) (image noise : List α) (target : α)
    (hi : image.length = h * w) (hn : noise.length = h * w) :
    Generated.LoopsFit2.replace_noise_map_2d_values_where_image_2d_values_are_negative
        (ofNative h w image) (ofNative h w noise) target
      = ofNative h w (Impl.replaceNoise h w image noise target) := by
  unfold Generated.LoopsFit2.replace_noise_map_2d_values_where_image_2d_values_are_negative Impl.replaceNoise
  rw [forYX_eq_foldl]
  simp only [A2.shape0_eq, A2.shape1_eq, ofNative_h, ofNative_w, forRange_yx]
  refine (foldl_rel (fun (s : A2 α) (t : List α) => s = ofNative h w t ∧ t.length = h * w)
    (pixels h w) _ _ (s := ofNative h w noise) (t := noise) ⟨rfl, hn⟩ ?_).1
  rintro p hp s t ⟨rfl, hl⟩
  rw [mem_pixels] at hp
  rw [get_ofNative h w image hi default hp.1 hp.2, get_ofNative h w t hl default hp.1 hp.2]
  unfold Impl.replaceNoiseAt
  simp only [decide_eq_true_eq]
  by_cases h1 : image.getD (p.1 * w + p.2) default < 0
  · simp only [h1, if_true]
    by_cases h2 : (PyRt.abs (image.getD (p.1 * w + p.2) default)) / t.getD (p.1 * w + p.2) default ≥ target
    · have h2' : Impl.absR (image.getD (p.1 * w + p.2) default) / t.getD (p.1 * w + p.2) default ≥ target := h2
      simp only [h2, h2', if_true]
      rw [A2.set_natCast _ _ _ _ (by simpa using hp.1) (by simpa using hp.2)]
      exact ⟨rfl, by simp [hl]⟩
    · have h2' : ¬ Impl.absR (image.getD (p.1 * w + p.2) default) / t.getD (p.1 * w + p.2) default ≥ target := h2
      simp only [h2, h2', if_false]
      exact ⟨trivial, hl⟩
  · simp only [h1, if_false]
    exact ⟨trivial, hl⟩

end TieFit2
