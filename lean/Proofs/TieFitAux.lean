/-
Proofs/TieFitAux.lean — helper lemmas of Proofs/TieFit.lean (the ties of the numpy-vectorised
`fit_util` functions, property C08): the three `PyVec` constructs of the generated code
(`ufuncWhere`, `ufuncOut`, `select`) against the hand model's `maskedZipWith`, `List.zipWith`,
`selectUnmasked` (Model/Fit.lean).  Core Lean only.

All four lemmas hold without any length hypothesis: both sides stop at the end of the shortest operand
(that is the common totalisation of numpy's shape errors); the tie theorems nevertheless state the
shape hypotheses under which the Python does not raise.
-/
import Model.Fit
import Model.PyVec

open Model.Impl.Fit PyVec

namespace TieFitAux

variable {α : Type}

/-- `np.f(a, b, out=np.zeros_like(a), where=np.asarray(mask) == 0)` is the model's `maskedZipWith`. -/
theorem ufuncWhere_zerosLike [OfNat α 0] (f : α → α → α) (bits : List Bool) (a b : List α) :
    ufuncWhere f a b (zerosLike a) (PyRt.A1.map (fun u => u == false) bits)
      = maskedZipWith f bits a b := by
  induction a generalizing b bits with
  | nil => simp [ufuncWhere, maskedZipWith]
  | cons x xs ih =>
    cases b with
    | nil => simp [ufuncWhere, maskedZipWith]
    | cons y ys =>
      cases bits with
      | nil => simp [ufuncWhere, zerosLike, maskedZipWith, PyRt.A1.map]
      | cons m ms =>
        have := ih ms ys
        simp only [zerosLike, PyRt.A1.map, maskedZipWith, List.map_cons, ufuncWhere, List.zip_cons_cons,
          List.zipWith_cons_cons] at this ⊢
        rw [this]
        cases m <;> simp

/-- `np.f(a, b, out=np.zeros_like(a))` overwrites every zero: it is the plain elementwise `f`. -/
theorem ufuncOut_zerosLike [OfNat α 0] (f : α → α → α) (a b : List α) :
    ufuncOut f a b (zerosLike a) = List.zipWith f a b := by
  induction a generalizing b with
  | nil => simp [ufuncOut]
  | cons x xs ih =>
    cases b with
    | nil => simp [ufuncOut]
    | cons y ys =>
      have := ih ys
      simp only [zerosLike, List.map_cons, ufuncOut, List.zipWith_cons_cons] at this ⊢
      rw [this]

/-- `a[np.asarray(mask) == 0]` is the model's `selectUnmasked`. -/
theorem select_eq_selectUnmasked (bits : List Bool) (a : List α) :
    select a (PyRt.A1.map (fun u => u == false) bits) = selectUnmasked bits a := by
  induction a generalizing bits with
  | nil => cases bits <;> simp [select, selectUnmasked]
  | cons x xs ih =>
    cases bits with
    | nil => simp [select, selectUnmasked, PyRt.A1.map]
    | cons m ms =>
      have := ih ms
      simp only [PyRt.A1.map, selectUnmasked, List.map_cons, select, List.zip_cons_cons,
        List.filterMap_cons] at this ⊢
      rw [this]
      cases m <;> simp

/-- boolean-mask selection commutes with an elementwise binary operation. -/
theorem select_zipWith (f : α → α → α) (a b : List α) (w : List Bool) :
    select (List.zipWith f a b) w = List.zipWith f (select a w) (select b w) := by
  induction a generalizing b w with
  | nil => cases w <;> simp [select]
  | cons x xs ih =>
    cases b with
    | nil => cases w <;> simp [select]
    | cons y ys =>
      cases w with
      | nil => simp [select]
      | cons m ms =>
        simp only [List.zipWith_cons_cons, select]
        cases m <;> simp [ih]

/-- non-vacuity of the literal hypotheses `h1`, `h2` of the tie theorems: they hold at the exact
    number type the C08 driver runs the model on. -/
example : ((1 : Int) : Rat) = 1 ∧ ((2 : Int) : Rat) = 2 := by decide

end TieFitAux
