/-
Proofs/TieFitGlue.lean — helpers of the CLASS-GLUE ties of Proofs/TieFit.lean (property C08): the
embedding of the hand model's `FitInput` / `InvTerms` into the record `Generated.VecFit.FitSelf` that the
generated renderings of the `FitDataset` / `FitImaging` properties read, the well-formedness predicate
of a fit (the shapes under which numpy does not raise), and the length lemmas of the model's maps.
Core Lean only.  This file imports the GENERATED module (for the record type), Proofs/TieFitAux.lean
does not.
-/
import Generated.VecFit
import Model.Fit

open Model.Impl.Fit

namespace TieFitGlue

variable {α : Type}

/-- the inversion terms as the attributes `inversion.regularization_term`, … the code reads -/
def invSelfOf (t : InvTerms α) : Generated.VecFit.InvSelf α :=
  { regularization_term := t.regularizationTerm
    log_det_curvature_reg_matrix_term := t.logDetCurvatureReg
    log_det_regularization_matrix_term := t.logDetRegularization }

/-- the attribute values of a fit object built from the model's `FitInput` (and optional inversion):
    `self.use_mask_in_fit`, `self.dataset.data`, `self.dataset.noise_map`, `self.dataset.mask`,
    `self.dataset_model.background_sky_level`, `self.model_data`, `self.inversion`. -/
def selfOf (f : FitInput α) (inv : Option (InvTerms α)) : Generated.VecFit.FitSelf α :=
  { use_mask_in_fit := f.useMask
    dataset_data := f.data
    dataset_noise_map := f.noise
    dataset_mask := f.bits
    dataset_model_background_sky_level := f.background
    model_data := f.model
    inversion := inv.map invSelfOf }

@[simp] theorem selfOf_use_mask (f : FitInput α) (inv : Option (InvTerms α)) :
    (selfOf f inv).use_mask_in_fit = f.useMask := rfl
@[simp] theorem selfOf_data (f : FitInput α) (inv : Option (InvTerms α)) :
    (selfOf f inv).dataset_data = f.data := rfl
@[simp] theorem selfOf_noise (f : FitInput α) (inv : Option (InvTerms α)) :
    (selfOf f inv).dataset_noise_map = f.noise := rfl
@[simp] theorem selfOf_mask (f : FitInput α) (inv : Option (InvTerms α)) :
    (selfOf f inv).dataset_mask = f.bits := rfl
@[simp] theorem selfOf_background (f : FitInput α) (inv : Option (InvTerms α)) :
    (selfOf f inv).dataset_model_background_sky_level = f.background := rfl
@[simp] theorem selfOf_model (f : FitInput α) (inv : Option (InvTerms α)) :
    (selfOf f inv).model_data = f.model := rfl
@[simp] theorem selfOf_inversion (f : FitInput α) (inv : Option (InvTerms α)) :
    (selfOf f inv).inversion = inv.map invSelfOf := rfl

/-- the shapes under which the fit's numpy expressions neither broadcast nor raise: data, noise-map and
    model data have one common shape, and with `use_mask_in_fit` the mask has that shape too (without it
    the arrays are slim and the mask is only counted). -/
structure WF (f : FitInput α) : Prop where
  model : f.data.length = f.model.length
  noise : f.noise.length = f.data.length
  bits : f.useMask = true → f.bits.length = f.data.length

theorem maskedZipWith_length [OfNat α 0] (g : α → α → α) (bits : List Bool) (a b : List α) :
    (maskedZipWith g bits a b).length = min bits.length (min a.length b.length) := by
  simp [maskedZipWith]

theorem fitData_length [Sub α] [OfNat α 0] [BEq α] (f : FitInput α) : (fitData f).length = f.data.length := by
  unfold fitData
  split <;> simp

theorem fitResidualMap_length [Sub α] [OfNat α 0] [BEq α] (f : FitInput α) (wf : WF f) :
    (fitResidualMap f).length = f.data.length := by
  have h1 := wf.model
  unfold fitResidualMap
  split
  · rename_i hu
    have h2 := wf.bits hu
    rw [residualMapWithMask, maskedZipWith_length, fitData_length]
    omega
  · simp [residualMap, fitData_length]
    omega

theorem fitChiSquaredMap_length [Sub α] [Mul α] [Div α] [OfNat α 0] [BEq α] (f : FitInput α) (wf : WF f) :
    (fitChiSquaredMap f).length = f.data.length := by
  have h1 := wf.noise
  have h3 := fitResidualMap_length f wf
  unfold fitChiSquaredMap
  split
  · rename_i hu
    have h2 := wf.bits hu
    simp [chiSquaredMapWithMask, maskedZipWith_length, h3]
    omega
  · simp [chiSquaredMap, h3]
    omega

/-- the number of unmasked pixels as numpy computes it, `int(np.size(mask) - np.sum(mask))` on Python
    integers, is the model's natural-number difference. -/
theorem unmasked_count (bits : List Bool) :
    PyRt.A1.len bits - PyRt.A1.count bits = ((bits.length - (bits.filter id).length : Nat) : Int) := by
  have h : (bits.filter id).length ≤ bits.length := List.length_filter_le _ _
  simp only [PyRt.A1.len, PyRt.A1.count]
  omega

end TieFitGlue
