/-
Proofs/TieMapper.lean — LOOP TIES for property C06 (mappers), part 1: the definitions that
harness/translate2.py regenerates from the current Python source (Generated/LoopsMapper.lean) are equal,
for every input and every size, to the hand-written `Model.Impl.*` functions of Model/Mapper.lean that
the theorems of Props/C06.lean are about.  Only `*_tie` theorems live in this file (helpers:
Proofs/TieCore.lean, Proofs/TieMapperAux.lean).  See design_notes/LOOP_TIES.md and
design_notes/TIES_C06.md.
-/
import Generated.LoopsMapper
import Model.Mapper
import Proofs.TieCore
import Proofs.TieMapperAux
import Proofs.TieMapperAux2
import Proofs.MapperUnique
import Mathlib.Algebra.Order.Field.Basic

open Model PyRt TieCore TieMapperAux

namespace TieMapper

/-- `mesh_util.delaunay_triangle_area_from` = `Impl.triangleArea` (the literal `0.5` is rendered
    `1/2` with integer casts; equal to the model's `1 / 2` in any field) -/
theorem delaunay_triangle_area_from_tie {α : Type} [Field α] [LinearOrder α] (c0 c1 c2 : α × α) :
    Generated.LoopsMapper.delaunay_triangle_area_from c0 c1 c2 = Impl.triangleArea c0 c1 c2 := by
  unfold Generated.LoopsMapper.delaunay_triangle_area_from Impl.triangleArea PyRt.abs Model.absG
  simp only [Int.cast_one, Int.cast_ofNat]

/-- `mapper_util.mapping_matrix_from` = `Impl.mappingMatrix`.  The index / weight tables have `K`
    columns and cover every sub-pixel, each sub-pixel uses at most `K` mappings, its slim index
    addresses a row of the matrix and an entry of `sub_fraction`, and every *used* source-pixel index
    is a column of the matrix (`0 ≤ · < pixels`; the model reads indices with `Int.toNat`, numpy's
    negative wrap-around is outside the modelled domain). -/
theorem mapping_matrix_from_tie {α : Type} [Add α] [Mul α] [OfNat α 0] [Inhabited α]
    (K : Nat) (idx : List (List Int)) (sizes : List Nat) (wts : List (List α)) (pixels total : Nat)
    (slimFor : List Nat) (frac : List α)
    (hidx : IsRows K idx) (hwts : IsRows K wts)
    (hil : slimFor.length ≤ idx.length) (hwl : slimFor.length ≤ wts.length)
    (hsl : slimFor.length ≤ sizes.length)
    (hsK : ∀ sub < slimFor.length, sizes.getD sub 0 ≤ K)
    (hslim : ∀ s ∈ slimFor, s < total ∧ s < frac.length)
    (hpix : ∀ sub < slimFor.length, ∀ c < sizes.getD sub 0,
      0 ≤ (idx.getD sub []).getD c 0 ∧ (idx.getD sub []).getD c 0 < (pixels : Int)) :
    Generated.LoopsMapper.mapping_matrix_from (ofRows K idx) (sizes.map fun (k : Nat) => (k : Int))
        (ofRows K wts) (pixels : Int) (total : Int) (slimFor.map fun (k : Nat) => (k : Int)) frac
      = ofRows pixels (Impl.mappingMatrix idx sizes wts pixels total slimFor frac) := by
  unfold Generated.LoopsMapper.mapping_matrix_from Impl.mappingMatrix
  simp only [A1.len_eq, List.length_map, forRange_zero_nat, A2.zeros_natCast]
  rw [← ofRows_replicate]
  refine (foldl_rel (fun (a : A2 α) (M : List (List α)) =>
      a = ofRows pixels M ∧ M.length = total ∧ IsRows pixels M) _ _ _ ⟨rfl, by simp,
        IsRows.replicate _ _ _ (by simp)⟩ ?_).1
  intro sub hsub a M hR
  have hsub' : sub < slimFor.length := by simpa using hsub
  rw [get_A1_map _ sizes 0 (by omega), forRange_zero_nat]
  refine foldl_rel (fun (a : A2 α) (M : List (List α)) =>
      a = ofRows pixels M ∧ M.length = total ∧ IsRows pixels M) _ _ _ hR ?_
  intro c hc a M ⟨ha, hlen, hM⟩
  have hc' : c < sizes.getD sub 0 := by simpa using hc
  obtain ⟨hs1, hs2⟩ := hslim _ (getD_mem slimFor 0 hsub')
  obtain ⟨hp0, hp1⟩ := hpix sub hsub' c hc'
  have hcK : c < K := Nat.lt_of_lt_of_le hc' (hsK sub hsub')
  have hpn : (idx.getD sub []).getD c 0 = (((idx.getD sub []).getD c 0).toNat : Int) := by omega
  rw [get_A1_map _ slimFor 0 hsub', get_ofRows K idx hidx (by omega) hcK 0,
    get_ofRows K wts hwts (by omega) hcK 0, get_A1 frac 0 hs2, ha, hpn,
    addAt_ofRows pixels M hM (by omega)]
  simp only [Int.toNat_natCast]
  refine ⟨rfl, by simp [Impl.addAt2, hlen], ?_⟩
  unfold Impl.addAt2
  exact hM.set _ _ (by unfold Impl.addAt; rw [List.length_set]; exact hM.getD (by omega))

/-- `mapper_util.data_slim_to_pixelization_unique_from` = `Impl.uniqueFrom` (the function C06.e is
    about), all three outputs.  `data_pixels = len(sub_size)`; the tables have `K` columns and cover the
    `Σ sub_size²` sub-pixels (`(Spec.slimForSubSlim subs).length`), each uses at most `K` mappings, and
    every *used* source-pixel index is in `[0, pix_pixels)`.  `int()` on a float holding a natural
    number returns it (`htr`); `pix_check[pix] > -0.5` is decided in an ordered field.  The output
    width is `uWidth sizes subs = maxNat sizes * (maxNat subs * maxNat subs)`.  (No hypothesis bounds
    `pix_size` by the width: a store past the last column is a no-op on both sides.) -/
theorem data_slim_to_pixelization_unique_from_tie {α : Type} [Field α] [LinearOrder α] [IsStrictOrderedRing α] [Inhabited α]
    (trunc : α → Int) (htr : ∀ k : Nat, trunc ((((k : Nat) : Int) : Int) : α) = (k : Int))
    (K : Nat) (subs : List Nat) (idx : List (List Int)) (sizes : List Nat) (wts : List (List α)) (P : Nat)
    (hidx : IsRows K idx) (hwts : IsRows K wts)
    (hil : (Spec.slimForSubSlim subs).length ≤ idx.length)
    (hwl : (Spec.slimForSubSlim subs).length ≤ wts.length)
    (hsl : (Spec.slimForSubSlim subs).length ≤ sizes.length)
    (hsK : ∀ sub < (Spec.slimForSubSlim subs).length, sizes.getD sub 0 ≤ K)
    (hpix : ∀ sub < (Spec.slimForSubSlim subs).length, ∀ c < sizes.getD sub 0,
      0 ≤ (idx.getD sub []).getD c 0 ∧ (idx.getD sub []).getD c 0 < (P : Int)) :
    Generated.LoopsMapper.data_slim_to_pixelization_unique_from trunc (subs.length : Int) (ofRows K idx)
        (sizes.map fun (k : Nat) => (k : Int)) (ofRows K wts) (P : Int) (subs.map fun (k : Nat) => (k : Int))
      = (ofRows (uWidth sizes subs) (castRows (Impl.uniqueFrom subs.length idx sizes wts P subs).1),
         ofRows (uWidth sizes subs) (Impl.uniqueFrom subs.length idx sizes wts P subs).2.1,
         (Impl.uniqueFrom subs.length idx sizes wts P subs).2.2.map fun (n : Nat) => ((n : Int) : α)) := by
  unfold Generated.LoopsMapper.data_slim_to_pixelization_unique_from
  rw [uniqueFrom_rows]
  dsimp only
  rw [max_cast, max_cast]
  have hwd : ((maxNat sizes : Nat) : Int) * PyRt.sq ((maxNat subs : Nat) : Int)
      = ((uWidth sizes subs : Nat) : Int) := by
    unfold PyRt.sq uWidth; push_cast; rfl
  rw [hwd, forRange_zero_nat]
  refine UInv_final idx sizes wts P subs _ ?_
  have hN := slimForSubSlim_length subs
  refine foldl_inv_range (fun ip s => UInv idx sizes wts P subs ip s) subs.length _
    (UInv_init idx sizes wts P subs) ?_
  intro i hin s hP
  obtain ⟨h1, h2, h3, h4, h5⟩ := hP
  unfold UInv
  dsimp only
  generalize hr : forRange _ _ _ _ = r
  rw [h1, h2, h5] at hr
  simp only [A1.len_eq, h4] at hr
  have hs_i : A1.get (subs.map fun (k : Nat) => (k : Int)) (i : Int) = ((subs.getD i 0 : Nat) : Int) :=
    get_A1_map _ subs 0 hin
  have hsq : PyRt.sq ((subs.getD i 0 : Nat) : Int) = ((subs.getD i 0 * subs.getD i 0 : Nat) : Int) := by
    unfold PyRt.sq; push_cast; rfl
  rw [hs_i, hsq] at hr ⊢
  have hblk : blockStart subs (i + 1) ≤ (Spec.slimForSubSlim subs).length := by
    rw [hN]; exact blockStart_mono subs (by omega)
  rw [blockStart_succ] at hblk
  -- the block of sub-pixels of data pixel `i`, in canonical form
  have hinit : ((ofRows (uWidth sizes subs) (castRows (tabD idx sizes wts P subs i)),
        ofRows (uWidth sizes subs) (tabW idx sizes wts P subs i), A1.full (↑P) (-(1 : α)), (0 : Int))
        : A2 α × A2 α × A1 α × Int)
      = embedU (uWidth sizes subs) i (tabD idx sizes wts P subs i) (tabW idx sizes wts P subs i)
          { pixCheck := List.replicate P (-1), pixSize := 0,
            d2p := List.replicate (uWidth sizes subs) (-1), dw := List.replicate (uWidth sizes subs) 0 } := by
    unfold embedU
    dsimp only
    rw [tabD, tabW, padTab_set_fill hin, padTab_set_fill hin]
    simp
  rw [hinit, forRange_range' (blockStart subs i) (subs.getD i 0 * subs.getD i 0) _ (by push_cast; rfl)] at hr
  rw [foldl_congr_mem _ _ (fun (st : A2 α × A2 α × A1 α × Int) (sub : Nat) =>
      (List.range (sizes.getD sub 0)).foldl
        (fun (st : A2 α × A2 α × A1 α × Int) (c : Nat) =>
          uStepG trunc i (Impl.subFraction (subs.getD i 0)) st ((idx.getD sub []).getD c 0).toNat
            ((wts.getD sub []).getD c 0)) st) _ ?side] at hr
  case side =>
    intro sub hsub st
    have hsub' : blockStart subs i ≤ sub ∧ sub < blockStart subs i + subs.getD i 0 * subs.getD i 0 := by
      simpa [List.mem_range'_1] using hsub
    have hsubN : sub < (Spec.slimForSubSlim subs).length := by omega
    rw [get_A1_map _ sizes 0 (by omega), forRange_zero_nat]
    show (List.range _).foldl _ st = _
    apply foldl_congr_mem
    intro c hc st
    have hc' : c < sizes.getD sub 0 := by simpa using hc
    obtain ⟨hp0, hp1⟩ := hpix sub hsubN c hc'
    have hcK : c < K := Nat.lt_of_lt_of_le hc' (hsK sub hsubN)
    rw [get_ofRows K idx hidx (by omega) hcK 0, get_ofRows K wts hwts (by omega) hcK 0,
      subFraction_get subs hin]
    generalize (idx.getD sub []).getD c 0 = x at hp0 hp1 ⊢
    obtain ⟨p, rfl⟩ := Int.eq_ofNat_of_zero_le hp0
    simp only [Int.toNat_natCast]
    rfl
  have hlenD : i < (tabD idx sizes wts P subs i).length := by
    rw [tabD, padTab_length (by omega)]; exact hin
  have hlenW : i < (tabW idx sizes wts P subs i).length := by
    rw [tabW, padTab_length (by omega)]; exact hin
  obtain ⟨hsim, _⟩ := uRow_sim (P := P) trunc htr idx sizes wts (tabD_isRows idx sizes wts P subs i)
    (tabW_isRows idx sizes wts P subs i) hlenD hlenW (Impl.subFraction (subs.getD i 0))
    (blockStart subs i) (subs.getD i 0 * subs.getD i 0)
    (fun sub h0 h1 c hc => by
      obtain ⟨ha, hb⟩ := hpix sub (by omega) c hc
      omega)
    (st0 := { pixCheck := List.replicate P (-1), pixSize := 0,
              d2p := List.replicate (uWidth sizes subs) (-1), dw := List.replicate (uWidth sizes subs) 0 })
    ⟨by simp, by simp, by simp⟩
  rw [hsim] at hr
  change embedU _ _ _ _ (rowState idx sizes wts P subs i) = r at hr
  subst hr
  have hwf := rowState_wf idx sizes wts P subs i
  unfold embedU
  dsimp only
  refine ⟨?_, ?_, ?_, ?_, ?_⟩
  · rw [tabD, padTab_set hin _ _ _ rfl]; rfl
  · rw [tabW, padTab_set hin _ _ _ rfl]; rfl
  · rw [h3, A1.set_natCast, tabS, padTab_set hin _ _ _ rfl]; rfl
  · rw [List.length_map]; exact hwf.chk
  · rw [h5, blockStart_succ]; push_cast; rfl

/-! ### rectangular neighbours (`mesh_util.py`): the six phase functions and their composition.
The numpy arrays hold the integers of the model's table as floats (`nbA`, `nbS`); the table has one
row of 4 per pixel (`NbWF (H * W)`); `0 < H`, `0 < W` is exactly "the mesh has a pixel" — with an
empty mesh the corner stores raise IndexError. -/

/-- `rectangular_corner_neighbors` = `Impl.rectCorner` -/
theorem rectangular_corner_neighbors_tie {α : Type} [Ring α] (H W : Nat) (hH : 0 < H) (hW : 0 < W)
    (nb : Impl.NbTable) (hwf : NbWF (H * W) nb) :
    Generated.LoopsMapper.rectangular_corner_neighbors (α := α) (nbA nb) (nbS nb) ((H : Int), (W : Int))
      = (nbA (Impl.rectCorner H W nb), nbS (Impl.rectCorner H W nb)) := by
  unfold Generated.LoopsMapper.rectangular_corner_neighbors Impl.rectCorner
  have hWle : W ≤ H * W := Nat.le_mul_of_pos_left W hH
  have hp : (H : Int) * (W : Int) = ((H * W : Nat) : Int) := by simp
  dsimp only
  rw [hp, show (1 : α) = ((1 : Int) : α) from Int.cast_one.symm]
  obtain ⟨e1, s1, w1⟩ := nb_store2 (α := α) hwf (ki := 0) (k := 0) rfl (by omega) 1 (W : Int)
  rw [e1, s1]
  obtain ⟨e2, s2, w2⟩ := nb_store2 (α := α) w1 (ki := (W : Int) - 1) (k := W - 1) (by omega) (by omega)
    ((W : Int) - 2) ((W : Int) + (W : Int) - 1)
  rw [e2, s2]
  obtain ⟨e3, s3, w3⟩ := nb_store2 (α := α) w2 (ki := ((H * W : Nat) : Int) - (W : Int)) (k := H * W - W)
    (by omega) (by omega) (((H * W : Nat) : Int) - (W : Int) * 2) (((H * W : Nat) : Int) - (W : Int) + 1)
  rw [e3, s3]
  obtain ⟨e4, s4, _⟩ := nb_store2 (α := α) w3 (ki := ((H * W : Nat) : Int) - 1) (k := H * W - 1)
    (by omega) (by omega) (((H * W : Nat) : Int) - (W : Int) - 1) (((H * W : Nat) : Int) - 2)
  rw [e4, s4]

/-- `rectangular_top_edge_neighbors` = `Impl.rectTop` -/
theorem rectangular_top_edge_neighbors_tie {α : Type} [IntCast α] (H W : Nat) (hH : 0 < H)
    (nb : Impl.NbTable) (hwf : NbWF (H * W) nb) :
    Generated.LoopsMapper.rectangular_top_edge_neighbors (α := α) (nbA nb) (nbS nb) ((H : Int), (W : Int))
      = (nbA (Impl.rectTop H W nb), nbS (Impl.rectTop H W nb)) := by
  unfold Generated.LoopsMapper.rectangular_top_edge_neighbors Impl.rectTop
  have hWle : W ≤ H * W := Nat.le_mul_of_pos_left W hH
  dsimp only
  rw [forRange_one (W - 2) _ (by omega)]
  refine (foldl_rel (fun (s : A2 α × A1 α) (t : Impl.NbTable) =>
      s = (nbA t, nbS t) ∧ NbWF (H * W) t) _ _ _ ⟨rfl, hwf⟩ ?_).1
  intro k hk s t ⟨hs, hw⟩
  have hk' := mem_range'_one hk
  subst hs
  dsimp only
  obtain ⟨e, s, w⟩ := nb_store3 (α := α) hw (ki := (k : Int)) (k := k) rfl (by omega)
    ((k : Int) - 1) ((k : Int) + 1) ((k : Int) + (W : Int))
  rw [e, s]
  exact ⟨rfl, w⟩

/-- `rectangular_left_edge_neighbors` = `Impl.rectLeft` -/
theorem rectangular_left_edge_neighbors_tie {α : Type} [IntCast α] (H W : Nat) (hW : 0 < W)
    (nb : Impl.NbTable) (hwf : NbWF (H * W) nb) :
    Generated.LoopsMapper.rectangular_left_edge_neighbors (α := α) (nbA nb) (nbS nb) ((H : Int), (W : Int))
      = (nbA (Impl.rectLeft H W nb), nbS (Impl.rectLeft H W nb)) := by
  unfold Generated.LoopsMapper.rectangular_left_edge_neighbors Impl.rectLeft
  dsimp only
  rw [forRange_one (H - 2) _ (by omega)]
  refine (foldl_rel (fun (s : A2 α × A1 α) (t : Impl.NbTable) =>
      s = (nbA t, nbS t) ∧ NbWF (H * W) t) _ _ _ ⟨rfl, hwf⟩ ?_).1
  intro k hk s t ⟨hs, hw⟩
  have hk' := mem_range'_one hk
  subst hs
  dsimp only
  have hp : (k : Int) * (W : Int) = ((k * W : Nat) : Int) := by simp
  have hlt : k * W < H * W := Nat.mul_lt_mul_of_pos_right (by omega) hW
  rw [hp]
  obtain ⟨e, s, w⟩ := nb_store3 (α := α) hw (ki := ((k * W : Nat) : Int)) (k := k * W) rfl hlt
    (((k * W : Nat) : Int) - (W : Int)) (((k * W : Nat) : Int) + 1) (((k * W : Nat) : Int) + (W : Int))
  rw [e, s]
  exact ⟨rfl, w⟩

/-- `rectangular_right_edge_neighbors` = `Impl.rectRight` -/
theorem rectangular_right_edge_neighbors_tie {α : Type} [IntCast α] (H W : Nat) (hW : 0 < W)
    (nb : Impl.NbTable) (hwf : NbWF (H * W) nb) :
    Generated.LoopsMapper.rectangular_right_edge_neighbors (α := α) (nbA nb) (nbS nb) ((H : Int), (W : Int))
      = (nbA (Impl.rectRight H W nb), nbS (Impl.rectRight H W nb)) := by
  unfold Generated.LoopsMapper.rectangular_right_edge_neighbors Impl.rectRight
  dsimp only
  rw [forRange_one (H - 2) _ (by omega)]
  refine (foldl_rel (fun (s : A2 α × A1 α) (t : Impl.NbTable) =>
      s = (nbA t, nbS t) ∧ NbWF (H * W) t) _ _ _ ⟨rfl, hwf⟩ ?_).1
  intro k hk s t ⟨hs, hw⟩
  have hk' := mem_range'_one hk
  subst hs
  dsimp only
  have hlt : k * W + W ≤ H * W := by
    have := Nat.mul_le_mul_right W (show k + 1 ≤ H by omega)
    rwa [Nat.succ_mul] at this
  have hp : (k : Int) * (W : Int) + (W : Int) - 1 = ((k * W + W - 1 : Nat) : Int) := by
    have : ((k * W : Nat) : Int) = (k : Int) * (W : Int) := by simp
    omega
  rw [hp]
  obtain ⟨e, s, w⟩ := nb_store3 (α := α) hw (ki := ((k * W + W - 1 : Nat) : Int)) (k := k * W + W - 1)
    rfl (by omega) (((k * W + W - 1 : Nat) : Int) - (W : Int)) (((k * W + W - 1 : Nat) : Int) - 1)
    (((k * W + W - 1 : Nat) : Int) + (W : Int))
  rw [e, s]
  exact ⟨rfl, w⟩

/-- `rectangular_bottom_edge_neighbors` = `Impl.rectBottom` -/
theorem rectangular_bottom_edge_neighbors_tie {α : Type} [IntCast α] (H W : Nat) (hH : 0 < H)
    (nb : Impl.NbTable) (hwf : NbWF (H * W) nb) :
    Generated.LoopsMapper.rectangular_bottom_edge_neighbors (α := α) (nbA nb) (nbS nb) ((H : Int), (W : Int))
      = (nbA (Impl.rectBottom H W nb), nbS (Impl.rectBottom H W nb)) := by
  unfold Generated.LoopsMapper.rectangular_bottom_edge_neighbors Impl.rectBottom
  have hWle : W ≤ H * W := Nat.le_mul_of_pos_left W hH
  dsimp only
  rw [forRange_one (W - 2) _ (by omega)]
  refine (foldl_rel (fun (s : A2 α × A1 α) (t : Impl.NbTable) =>
      s = (nbA t, nbS t) ∧ NbWF (H * W) t) _ _ _ ⟨rfl, hwf⟩ ?_).1
  intro k hk s t ⟨hs, hw⟩
  have hk' := mem_range'_one hk
  subst hs
  dsimp only
  have hp : (H : Int) * (W : Int) - (k : Int) - 1 = ((H * W - k - 1 : Nat) : Int) := by
    have : ((H * W : Nat) : Int) = (H : Int) * (W : Int) := by simp
    omega
  rw [hp]
  obtain ⟨e, s, w⟩ := nb_store3 (α := α) hw (ki := ((H * W - k - 1 : Nat) : Int)) (k := H * W - k - 1)
    rfl (by omega) (((H * W - k - 1 : Nat) : Int) - (W : Int)) (((H * W - k - 1 : Nat) : Int) - 1)
    (((H * W - k - 1 : Nat) : Int) + 1)
  rw [e, s]
  exact ⟨rfl, w⟩

/-- `rectangular_central_neighbors` = `Impl.rectCentral` -/
theorem rectangular_central_neighbors_tie {α : Type} [IntCast α] (H W : Nat)
    (nb : Impl.NbTable) (hwf : NbWF (H * W) nb) :
    Generated.LoopsMapper.rectangular_central_neighbors (α := α) (nbA nb) (nbS nb) ((H : Int), (W : Int))
      = (nbA (Impl.rectCentral H W nb), nbS (Impl.rectCentral H W nb)) := by
  unfold Generated.LoopsMapper.rectangular_central_neighbors Impl.rectCentral
  dsimp only
  rw [forRange_one (H - 2) _ (by omega)]
  refine (foldl_rel (fun (s : A2 α × A1 α) (t : Impl.NbTable) =>
      s = (nbA t, nbS t) ∧ NbWF (H * W) t) _ _ _ ⟨rfl, hwf⟩ ?_).1
  intro x hx s t hR
  have hx' := mem_range'_one hx
  rw [forRange_one (W - 2) _ (by omega)]
  refine foldl_rel (fun (s : A2 α × A1 α) (t : Impl.NbTable) =>
      s = (nbA t, nbS t) ∧ NbWF (H * W) t) _ _ _ hR ?_
  intro y hy s t ⟨hs, hw⟩
  have hy' := mem_range'_one hy
  subst hs
  dsimp only
  have hlt : x * W + W ≤ H * W := by
    have := Nat.mul_le_mul_right W (show x + 1 ≤ H by omega)
    rwa [Nat.succ_mul] at this
  have hp : (x : Int) * (W : Int) + (y : Int) = ((x * W + y : Nat) : Int) := by simp
  rw [hp]
  obtain ⟨e, s, w⟩ := nb_store4 (α := α) hw (ki := ((x * W + y : Nat) : Int)) (k := x * W + y)
    rfl (by omega) (((x * W + y : Nat) : Int) - (W : Int)) (((x * W + y : Nat) : Int) - 1)
    (((x * W + y : Nat) : Int) + 1) (((x * W + y : Nat) : Int) + (W : Int))
  rw [e, s]
  exact ⟨rfl, w⟩

/-- `rectangular_neighbors_from(shape_native=(H, W))` = `Impl.rectNeighbors H W` (the function that
    `rectNeighbors_eq_spec` / C06.f is about): `-1 * np.ones((pixels, 4))`, `np.zeros(pixels)` and the
    six phases in the code's order. -/
theorem rectangular_neighbors_from_tie {α : Type} [Ring α] (H W : Nat) (hH : 0 < H) (hW : 0 < W) :
    Generated.LoopsMapper.rectangular_neighbors_from (α := α) ((H : Int), (W : Int))
      = (nbA (Impl.rectNeighbors H W), nbS (Impl.rectNeighbors H W)) := by
  unfold Generated.LoopsMapper.rectangular_neighbors_from Impl.rectNeighbors
  have hp : (H : Int) * (W : Int) = ((H * W : Nat) : Int) := by simp
  have h4 : (4 : Int) = ((4 : Nat) : Int) := rfl
  have hA : A2.full ((H * W : Nat) : Int) ((4 : Nat) : Int) (-(1 : α))
      = nbA (List.replicate (H * W) [-1, -1, -1, -1], List.replicate (H * W) 0) := by
    rw [A2.full_natCast]
    have : ([-1, -1, -1, -1] : List Int).map (fun (k : Int) => (k : α)) = List.replicate 4 (-(1 : α)) := by
      simp [List.replicate]
    simp only [nbA, castRows, List.map_replicate, this, ofRows_replicate]
  have hS : (A1.zeros ((H * W : Nat) : Int) : A1 α)
      = nbS (List.replicate (H * W) [-1, -1, -1, -1], List.replicate (H * W) 0) := by
    rw [A1.zeros_natCast]
    simp [nbS]
  have w0 := nb0_wf (H * W)
  have w1 := rectCorner_wf hH hW w0
  have w2 := rectTop_wf hH w1
  have w3 := rectLeft_wf hW w2
  have w4 := rectRight_wf hW w3
  have w5 := rectBottom_wf hH w4
  dsimp only
  rw [hp, h4, hA, hS, rectangular_corner_neighbors_tie H W hH hW _ w0]
  dsimp only
  rw [rectangular_top_edge_neighbors_tie H W hH _ w1]
  dsimp only
  rw [rectangular_left_edge_neighbors_tie H W hW _ w2]
  dsimp only
  rw [rectangular_right_edge_neighbors_tie H W hW _ w3]
  dsimp only
  rw [rectangular_bottom_edge_neighbors_tie H W hH _ w4]
  dsimp only
  rw [rectangular_central_neighbors_tie H W _ w5]

end TieMapper
