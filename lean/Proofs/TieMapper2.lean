/-
Proofs/TieMapper2.lean — LOOP TIES for property C06 (mappers), part 2: the definitions that
harness/translate2.py regenerates from the current Python source (Generated/LoopsMapper2.lean) are equal,
for every input and every size, to the hand-written `Model.Impl.*` functions of Model/Mapper2.lean.
Only `*_tie` theorems live in this file (helpers: Proofs/TieCore.lean, Proofs/TieMapper2Aux.lean).
See design_notes/LOOP_TIES.md and design_notes/TIES_sweepB_C06.md.
-/
import Generated.LoopsMapper2
import Model.Mapper2
import Proofs.Core
import Proofs.TieCore
import Proofs.TieMapper2Aux
import Proofs.TieMapperAux
import Mathlib.Algebra.Order.Field.Basic

open Model PyRt TieCore TieMapperAux TieMapper2Aux

namespace TieMapper2

/-- `mapper_util.mapped_to_source_via_mapping_matrix_from` = `Impl.mappedToSource`, for the `n × p` mapping
    matrix with row-major data `M` (`hM`: the data has the length of the shape) and an `array_slim` with at
    least `n` entries (`hv`: otherwise IndexError in Python).  No algebraic assumption on the number type. -/
theorem mapped_to_source_via_mapping_matrix_from_tie {α : Type} [Add α] [Mul α] [Div α] [OfNat α 0]
    [OfNat α 1] [IntCast α] [LT α] [DecidableLT α] [Inhabited α]
    (n p : Nat) (M v : List α) (hM : M.length = n * p) (hv : n ≤ v.length) :
    Generated.LoopsMapper2.mapped_to_source_via_mapping_matrix_from (ofNative n p M) v
      = Impl.mappedToSource n p M v := by
  unfold Generated.LoopsMapper2.mapped_to_source_via_mapping_matrix_from
  simp only [A2.shape0_eq, A2.shape1_eq, ofNative_h, ofNative_w, forRange_yx]
  simp only [forRange_zero_nat, A1.zeros_natCast]
  change (List.range p).foldl
      (gNorm ((pixels n p).foldl (gAcc (ofNative n p M) v)
        (List.replicate p (0 : α), List.replicate p (0 : α))).2)
      ((pixels n p).foldl (gAcc (ofNative n p M) v)
        (List.replicate p (0 : α), List.replicate p (0 : α))).1 = _
  obtain ⟨e, l1, l2⟩ := acc_pass n p M v hM hv
  rw [e, norm_pass p _ _ l2 l1]
  unfold Impl.mappedToSource
  rw [forYX_eq_foldl]
  rfl

/-- `mesh_util.voronoi_neighbors_from` = `Impl.voronoiNeighbors` (both outputs).  `ridge_points` is the
    `R × 2` integer table of the ridges; every end of a ridge is a pixel (`hr`: otherwise IndexError in
    Python) and there is at least one pixel (`hp`: otherwise `np.max` of an empty array raises).  `int()`
    of a float holding a natural number returns it (`htr`); the float counters are compared in an ordered
    field.  The table has width `maxNat sizes`.  (No hypothesis bounds the running index by the width: a
    store past the last column is a no-op on both sides; that it never happens is part of the refinement
    `Mapper2.voronoiNeighbors_eq`.) -/
theorem voronoi_neighbors_from_tie {α : Type} [Field α] [LinearOrder α] [IsStrictOrderedRing α]
    [Inhabited α] (trunc : α → Int) (htr : ∀ k : Nat, trunc (((k : Nat) : Int) : α) = (k : Int))
    (pixels : Nat) (ridges : List (Nat × Nat)) (hp : 0 < pixels)
    (hr : ∀ r ∈ ridges, r.1 < pixels ∧ r.2 < pixels) :
    Generated.LoopsMapper2.voronoi_neighbors_from trunc (pixels : Int)
        (ofPairs (fun k => (k : Int)) ridges)
      = (ofRows (maxNat (Impl.voronoiSizes pixels ridges))
            (castRows (Impl.voronoiNeighbors pixels ridges).1),
         (Impl.voronoiNeighbors pixels ridges).2.map fun (n : Nat) => ((n : Int) : α)) := by
  unfold Generated.LoopsMapper2.voronoi_neighbors_from
  simp only [A2.shape0_eq, ofPairs_h, forRange_zero_nat, A1.zeros_natCast]
  change (((List.range ridges.length).foldl (gStep2 trunc (ofPairs (fun k => (k : Int)) ridges))
        (List.replicate pixels (0 : α),
         A2.full (pixels : Int)
          (trunc (A1.max ((List.range ridges.length).foldl
            (gStep1 (α := α) (ofPairs (fun k => (k : Int)) ridges)) (List.replicate pixels (0 : α)))))
          (-(1 : α)))).2,
      (List.range ridges.length).foldl (gStep1 (α := α) (ofPairs (fun k => (k : Int)) ridges))
        (List.replicate pixels (0 : α))) = _
  have hlen : (Impl.voronoiSizes pixels ridges).length = pixels := by
    unfold Impl.voronoiSizes
    refine TieMapperAux.foldl_inv (fun (s : List Nat) => s.length = pixels) ridges _ (by simp) ?_
    intro r _ s hs
    simp [hs]
  have hne : Impl.voronoiSizes pixels ridges ≠ [] := by
    intro h; rw [h] at hlen; simp at hlen; omega
  rw [sizes_pass pixels ridges hr, max_castR _ hne, htr, full_eq_ofRows',
    fill_pass trunc htr pixels _ ridges hr]
  rfl

end TieMapper2
