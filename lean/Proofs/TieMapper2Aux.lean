/-
Proofs/TieMapper2Aux.lean — helper lemmas for the loop ties of Proofs/TieMapper2.lean (property C06, part 2):
the canonical bodies of the loops of `mapped_to_source_via_mapping_matrix_from` (`gAcc`, `gNorm`) and their
agreement with the model's steps (`acc_pass`, `norm_pass`), the canonical bodies of the two passes of
`voronoi_neighbors_from` (`gStep1`, `gStep2`) and their simulation of the model's steps on the embedded
state (float counters = casts of `Nat` counters; table = `ofRows` of the cast rows).
-/
import Model.PyRt
import Model.Mapper2
import Proofs.Core
import Proofs.TieCore
import Proofs.TieMapperAux
import Mathlib.Algebra.Order.Field.Basic
import Mathlib.Algebra.Order.Ring.Cast

open Model PyRt TieCore TieMapperAux

namespace TieMapper2Aux

/-- a loop over `range(len(l))` that only reads `l[k]` is the loop over `l` -/
theorem foldl_range_getD {σ ι : Type} (l : List ι) (d : ι) (step : σ → ι → σ) (init : σ) :
    (List.range l.length).foldl (fun s k => step s (l.getD k d)) init = l.foldl step init := by
  have h : (List.range l.length).map (fun k => l.getD k d) = l := by
    apply List.ext_getElem
    · simp
    · intro i h1 h2
      simp [List.getD_eq_getElem?_getD, h2]
  conv => rhs; rw [← h]
  rw [List.foldl_map]

theorem full_eq_ofRows' {β : Type} (n w : Nat) (z : β) :
    A2.full (n : Int) (w : Int) z = ofRows w (List.replicate n (List.replicate w z)) := by
  rw [A2.full_natCast, ofRows_replicate]

section mapped
set_option linter.unusedSectionVars false
variable {α : Type} [Add α] [Mul α] [Div α] [OfNat α 0] [OfNat α 1] [LT α] [DecidableLT α]
  [Inhabited α]

/-- body of the accumulation nest of the generated `mapped_to_source_via_mapping_matrix_from`
    at the pixel `q = (i, j)` -/
def gAcc (A : A2 α) (v : A1 α) (st : A1 α × A1 α) (q : Nat × Nat) : A1 α × A1 α :=
  if decide (A2.get A (q.1 : Int) (q.2 : Int) > (0 : α)) then
    (A1.set st.1 (q.2 : Int)
        (A1.get st.1 (q.2 : Int) + A1.get v (q.1 : Int) * A2.get A (q.1 : Int) (q.2 : Int)),
     A1.set st.2 (q.2 : Int) (A1.get st.2 (q.2 : Int) + (1 : α)))
  else (st.1, st.2)

/-- body of the normalisation loop of the generated definition -/
def gNorm (C : A1 α) (acc : A1 α) (j : Nat) : A1 α :=
  if decide (A1.get C (j : Int) > (0 : α)) then
    A1.set acc (j : Int) (A1.get acc (j : Int) / A1.get C (j : Int))
  else acc

/-- the model's accumulation step at the pixel `q = (i, j)` -/
def mAcc (p : Nat) (M v : List α) (st : List α × List α) (q : Nat × Nat) : List α × List α :=
  if M.getD (q.1 * p + q.2) 0 > 0 then
    (st.1.set q.2 (st.1.getD q.2 0 + v.getD q.1 0 * M.getD (q.1 * p + q.2) 0),
     st.2.set q.2 (st.2.getD q.2 0 + 1))
  else st

/-- the model's normalisation step -/
def mNorm (C : List α) (acc : List α) (j : Nat) : List α :=
  if C.getD j 0 > 0 then acc.set j (acc.getD j 0 / C.getD j 0) else acc

/-- the accumulation nest: generated = model, and the accumulators keep their length `p` -/
theorem acc_pass (n p : Nat) (M v : List α) (hM : M.length = n * p) (hv : n ≤ v.length) :
    (pixels n p).foldl (gAcc (ofNative n p M) v) (List.replicate p (0 : α), List.replicate p (0 : α))
        = (pixels n p).foldl (mAcc p M v) (List.replicate p (0 : α), List.replicate p (0 : α))
      ∧ ((pixels n p).foldl (mAcc p M v)
          (List.replicate p (0 : α), List.replicate p (0 : α))).1.length = p
      ∧ ((pixels n p).foldl (mAcc p M v)
          (List.replicate p (0 : α), List.replicate p (0 : α))).2.length = p := by
  refine foldl_rel (fun (a b : List α × List α) => a = b ∧ b.1.length = p ∧ b.2.length = p)
    (pixels n p) _ _ ⟨rfl, by simp, by simp⟩ ?_
  intro q hq a b ⟨hab, l1, l2⟩
  obtain ⟨hy, hx⟩ := mem_pixels.1 hq
  subst hab
  have e : gAcc (ofNative n p M) v a q = mAcc p M v a q := by
    unfold gAcc mAcc
    rw [get_ofNative n p M hM 0 hy hx, get_A1 a.1 0 (by omega), get_A1 a.2 0 (by omega),
      get_A1 v 0 (by omega), A1.set_natCast, A1.set_natCast]
    simp only [decide_eq_true_eq]
  rw [e]
  refine ⟨rfl, ?_, ?_⟩ <;> unfold mAcc <;> split <;> simp [l1, l2]

/-- the normalisation loop: generated = model -/
theorem norm_pass (p : Nat) (C S : List α) (hC : C.length = p) (hS : S.length = p) :
    (List.range p).foldl (gNorm C) S = (List.range p).foldl (mNorm C) S := by
  refine (foldl_rel (fun (a b : List α) => a = b ∧ b.length = p) (List.range p) _ _
    ⟨rfl, hS⟩ ?_).1
  intro j hj a b ⟨hab, l⟩
  have hj' := List.mem_range.1 hj
  subst hab
  have e : gNorm C a j = mNorm C a j := by
    unfold gNorm mNorm
    rw [get_A1 C 0 (by omega), get_A1 a 0 (by omega), A1.set_natCast]
    simp only [decide_eq_true_eq]
  rw [e]
  refine ⟨rfl, ?_⟩
  unfold mNorm; split <;> simp [l]

end mapped

section voronoi
set_option linter.unusedSectionVars false
variable {α : Type} [Field α] [LinearOrder α] [IsStrictOrderedRing α] [Inhabited α]

/-- a natural number stored in a float array -/
abbrev castN (n : Nat) : α := ((n : Int) : α)

theorem foldl_max_castR (r : List Nat) (v : Nat) :
    (r.map (castN (α := α))).foldl (fun m x => if m < x then x else m) (castN v)
      = castN (r.foldl max v) := by
  induction r generalizing v with
  | nil => rfl
  | cons a r ih =>
    simp only [List.map_cons, List.foldl_cons]
    have : (if (castN v : α) < castN a then (castN a : α) else castN v) = castN (max v a) := by
      by_cases h : v < a
      · have h' : (castN v : α) < castN a := by unfold castN; exact_mod_cast h
        rw [if_pos h', Nat.max_eq_right (by omega)]
      · have h' : ¬ (castN v : α) < castN a := by
          unfold castN; intro hc; exact h (by exact_mod_cast hc)
        rw [if_neg h', Nat.max_eq_left (by omega)]
    rw [this, ih]

/-- `np.max` of a non-empty float array of natural numbers is `maxNat` -/
theorem max_castR (l : List Nat) (hl : l ≠ []) :
    A1.max (l.map (castN (α := α))) = castN (maxNat l) := by
  cases l with
  | nil => exact absurd rfl hl
  | cons a r =>
    simp only [List.map_cons, A1.max, maxNat, List.foldl_cons]
    rw [foldl_max_castR, Nat.zero_max]

/-- `c[a] += 1` on a float counter array holding natural numbers -/
theorem incr_cast (s : List Nat) (a : Nat) (ha : a < s.length) :
    A1.set (s.map (castN (α := α))) (a : Int) (A1.get (s.map (castN (α := α))) (a : Int) + 1)
      = (s.set a (s.getD a 0 + 1)).map castN := by
  rw [A1.set_natCast, get_A1_map _ s 0 ha, List.map_set]
  congr 1
  unfold castN
  push_cast
  rfl

/-- body of the counting pass of the generated `voronoi_neighbors_from` -/
def gStep1 (R : A2 Int) (s : A1 α) (k : Nat) : A1 α :=
  let pair0 : Int := A2.get R (k : Int) 0
  let pair1 : Int := A2.get R (k : Int) 1
  let s := A1.set s pair0 (A1.get s pair0 + (1 : α))
  A1.set s pair1 (A1.get s pair1 + (1 : α))

/-- body of the fill pass of the generated `voronoi_neighbors_from` -/
def gStep2 (trunc : α → Int) (R : A2 Int) (st : A1 α × A2 α) (k : Nat) : A1 α × A2 α :=
  let neighbors_index := st.1
  let neighbors := st.2
  let pair0 : Int := A2.get R (k : Int) 0
  let pair1 : Int := A2.get R (k : Int) 1
  let neighbors := A2.set neighbors pair0 (trunc (A1.get neighbors_index pair0)) ((pair1 : Int) : α)
  let neighbors := A2.set neighbors pair1 (trunc (A1.get neighbors_index pair1)) ((pair0 : Int) : α)
  let neighbors_index := A1.set neighbors_index pair0 (A1.get neighbors_index pair0 + (1 : α))
  let neighbors_index := A1.set neighbors_index pair1 (A1.get neighbors_index pair1 + (1 : α))
  (neighbors_index, neighbors)

/-- the model's counting step -/
def mStep1 (s : List Nat) (r : Nat × Nat) : List Nat :=
  let s := s.set r.1 (s.getD r.1 0 + 1)
  s.set r.2 (s.getD r.2 0 + 1)

/-- the model's fill step -/
def mStep2 (st : List Nat × List (List Int)) (r : Nat × Nat) : List Nat × List (List Int) :=
  let nb := Impl.setAt2 st.2 r.1 (st.1.getD r.1 0) (r.2 : Int)
  let nb := Impl.setAt2 nb r.2 (st.1.getD r.2 0) (r.1 : Int)
  let idx := st.1.set r.1 (st.1.getD r.1 0 + 1)
  let idx := idx.set r.2 (idx.getD r.2 0 + 1)
  (idx, nb)

/-- canonical counting step of the generated code on a ridge `r` -/
def cStep1 (s : A1 α) (r : Nat × Nat) : A1 α :=
  A1.set (A1.set s (r.1 : Int) (A1.get s (r.1 : Int) + (1 : α))) (r.2 : Int)
    (A1.get (A1.set s (r.1 : Int) (A1.get s (r.1 : Int) + (1 : α))) (r.2 : Int) + (1 : α))

/-- canonical fill step of the generated code on a ridge `r` -/
def cStep2 (trunc : α → Int) (st : A1 α × A2 α) (r : Nat × Nat) : A1 α × A2 α :=
  (A1.set (A1.set st.1 (r.1 : Int) (A1.get st.1 (r.1 : Int) + (1 : α))) (r.2 : Int)
    (A1.get (A1.set st.1 (r.1 : Int) (A1.get st.1 (r.1 : Int) + (1 : α))) (r.2 : Int) + (1 : α)),
   A2.set (A2.set st.2 (r.1 : Int) (trunc (A1.get st.1 (r.1 : Int))) (((r.2 : Nat) : Int) : α))
      (r.2 : Int) (trunc (A1.get st.1 (r.2 : Int))) (((r.1 : Nat) : Int) : α))

/-- the counting pass on the embedded ridge table -/
theorem sizes_pass (pixels : Nat) (ridges : List (Nat × Nat))
    (hr : ∀ r ∈ ridges, r.1 < pixels ∧ r.2 < pixels) :
    (List.range ridges.length).foldl (gStep1 (α := α) (ofPairs (fun k => (k : Int)) ridges))
        (List.replicate pixels (0 : α))
      = (Impl.voronoiSizes pixels ridges).map castN := by
  rw [foldl_congr_mem _ _ (fun (s : A1 α) k => cStep1 s (ridges.getD k (0, 0)))]
  · rw [foldl_range_getD ridges (0, 0) cStep1]
    unfold Impl.voronoiSizes
    refine (foldl_rel (fun (a : A1 α) (s : List Nat) => a = s.map castN ∧ s.length = pixels)
      ridges _ _ ⟨by simp [castN], by simp⟩ ?_).1
    intro r hrm a s ⟨ha, hs⟩
    obtain ⟨h1, h2⟩ := hr r hrm
    subst ha
    unfold cStep1
    rw [incr_cast s r.1 (by omega), incr_cast _ r.2 (by simp; omega)]
    exact ⟨rfl, by simp [hs]⟩
  · intro k hk s
    have hk' : k < ridges.length := List.mem_range.1 hk
    obtain ⟨e0, e1⟩ := get_ofPairs (fun k => (k : Int)) ridges hk'
    unfold gStep1 cStep1
    simp only [e0, e1, List.getD_eq_getElem?_getD, List.getElem?_eq_getElem hk', Option.getD_some]

/-- the fill pass on the embedded ridge table -/
theorem fill_pass (trunc : α → Int) (htr : ∀ k : Nat, trunc (castN k) = (k : Int))
    (pixels W : Nat) (ridges : List (Nat × Nat))
    (hr : ∀ r ∈ ridges, r.1 < pixels ∧ r.2 < pixels) :
    ((List.range ridges.length).foldl (gStep2 trunc (ofPairs (fun k => (k : Int)) ridges))
        (List.replicate pixels (0 : α),
         ofRows W (List.replicate pixels (List.replicate W (-(1 : α)))))).2
      = ofRows W (castRows (ridges.foldl mStep2
          (List.replicate pixels 0, List.replicate pixels (List.replicate W (-1 : Int)))).2) := by
  rw [foldl_congr_mem _ _ (fun (st : A1 α × A2 α) k => cStep2 trunc st (ridges.getD k (0, 0)))]
  · rw [foldl_range_getD ridges (0, 0) (cStep2 trunc)]
    have key := foldl_rel (fun (a : A1 α × A2 α) (s : List Nat × List (List Int)) =>
        a.1 = s.1.map castN ∧ a.2 = ofRows W (castRows s.2) ∧ s.1.length = pixels
          ∧ s.2.length = pixels ∧ IsRows W s.2)
      ridges (cStep2 trunc) mStep2
      (s := (List.replicate pixels (0 : α),
         ofRows W (List.replicate pixels (List.replicate W (-(1 : α))))))
      (t := (List.replicate pixels 0, List.replicate pixels (List.replicate W (-1 : Int))))
      ⟨by simp [castN], by simp [castRows], by simp, by simp,
        IsRows.replicate _ _ _ (by simp)⟩ ?_
    · exact key.2.1
    · intro r hrm a s ⟨ha1, ha2, hs1, hs2, hM⟩
      obtain ⟨h1, h2⟩ := hr r hrm
      obtain ⟨a1, a2⟩ := a
      obtain ⟨s1, s2⟩ := s
      simp only at ha1 ha2 hs1 hs2 hM
      subst ha1 ha2
      unfold cStep2
      simp only
      rw [incr_cast s1 r.1 (by omega), incr_cast _ r.2 (by simp; omega),
        get_A1_map _ s1 0 (by omega), get_A1_map _ s1 0 (by omega), htr, htr,
        set_castRows W s2 hM (by omega),
        set_castRows W _ (hM.set _ _ (by rw [List.length_set]; exact hM.getD (by omega)))
          (by simp; omega)]
      refine ⟨rfl, rfl, by simp [mStep2, hs1], by simp [mStep2, Impl.setAt2, hs2], ?_⟩
      unfold mStep2 Impl.setAt2
      refine IsRows.set (IsRows.set hM _ _ ?_) _ _ ?_
      · rw [List.length_set]; exact hM.getD (by omega)
      · rw [List.length_set]
        exact (hM.set _ _ (by rw [List.length_set]; exact hM.getD (by omega))).getD (by simp; omega)
  · intro k hk s
    have hk' : k < ridges.length := List.mem_range.1 hk
    obtain ⟨e0, e1⟩ := get_ofPairs (fun k => (k : Int)) ridges hk'
    unfold gStep2 cStep2
    simp only [e0, e1, List.getD_eq_getElem?_getD, List.getElem?_eq_getElem hk', Option.getD_some]

end voronoi

end TieMapper2Aux
