/-
Proofs/TieMapperAux.lean — helper lemmas for the LOOP TIES of property C06 (Proofs/TieMapper*.lean):
embedding of a list-of-rows table as a numpy 2-D array (`ofRows`), reads / point writes / `+=` on it,
`forRange 1 hi`, `np.max` of a non-negative integer array, the `neighbors[k, 0:n] = …` row stores of the
rectangular-neighbour functions, and the generic facts about `List.range` splits used by the
simulation of `data_slim_to_pixelization_unique_from`.  Core Lean only (no Mathlib).
-/
import Model.PyRt
import Model.Mapper
import Proofs.TieCore

open Model PyRt TieCore

namespace TieMapperAux

/-! ### a table given by its rows, as a 2-D array of width `w` -/

/-- rows `[[…], […], …]` (each of length `w`) as the `rows.length × w` numpy array -/
def ofRows (w : Nat) (rows : List (List β)) : A2 β :=
  { h := rows.length, w := w, data := rows.flatten }

@[simp] theorem ofRows_h (w : Nat) (rows : List (List β)) : (ofRows w rows).h = rows.length := rfl
@[simp] theorem ofRows_w (w : Nat) (rows : List (List β)) : (ofRows w rows).w = w := rfl
@[simp] theorem ofRows_data (w : Nat) (rows : List (List β)) : (ofRows w rows).data = rows.flatten := rfl

/-- every row has length `w` -/
def IsRows (w : Nat) (M : List (List β)) : Prop := ∀ r ∈ M, r.length = w

theorem IsRows.getD {w : Nat} {M : List (List β)} (hM : IsRows w M) {i : Nat} (hi : i < M.length) :
    (M.getD i []).length = w := by
  rw [List.getD_eq_getElem?_getD, List.getElem?_eq_getElem hi]
  exact hM _ (List.getElem_mem hi)

theorem IsRows.set {w : Nat} {M : List (List β)} (hM : IsRows w M) (i : Nat) (r : List β)
    (hr : r.length = w) : IsRows w (M.set i r) := by
  intro x hx
  rcases List.mem_or_eq_of_mem_set hx with h | h
  · exact hM x h
  · rw [h]; exact hr

theorem IsRows.append {w : Nat} {M N : List (List β)} (hM : IsRows w M) (hN : IsRows w N) :
    IsRows w (M ++ N) := by
  intro x hx
  rcases List.mem_append.mp hx with h | h
  · exact hM x h
  · exact hN x h

theorem IsRows.replicate (w n : Nat) (r : List β) (hr : r.length = w) :
    IsRows w (List.replicate n r) := by
  intro x hx
  rw [(List.mem_replicate.mp hx).2]; exact hr

theorem IsRows.map {w : Nat} {M : List (List β)} (hM : IsRows w M) (f : β → γ) :
    IsRows w (M.map (List.map f)) := by
  intro x hx
  obtain ⟨r, hr, rfl⟩ := List.mem_map.mp hx
  simpa using hM r hr

theorem flatten_length (w : Nat) (M : List (List β)) (hM : IsRows w M) :
    M.flatten.length = M.length * w := by
  induction M with
  | nil => simp
  | cons r M ih =>
    have hr : r.length = w := hM r (by simp)
    have := ih (fun x hx => hM x (by simp [hx]))
    simp only [List.flatten_cons, List.length_append, List.length_cons, this, hr, Nat.succ_mul]
    omega

theorem flatten_getElem? (w : Nat) (M : List (List β)) (hM : IsRows w M) (i j : Nat) (hj : j < w) :
    M.flatten[i * w + j]? = (M.getD i [])[j]? := by
  induction M generalizing i with
  | nil => simp
  | cons r M ih =>
    have hr : r.length = w := hM r (by simp)
    have hM' : IsRows w M := fun x hx => hM x (by simp [hx])
    cases i with
    | zero =>
      simp only [Nat.zero_mul, Nat.zero_add, List.flatten_cons, List.getD_cons_zero]
      rw [List.getElem?_append_left (by omega)]
    | succ i =>
      have e : (i + 1) * w + j = r.length + (i * w + j) := by rw [Nat.succ_mul, hr]; omega
      rw [e, List.flatten_cons, List.getElem?_append_right (by omega)]
      simp only [Nat.add_sub_cancel_left, List.getD_cons_succ]
      exact ih hM' i

theorem flatten_set (w : Nat) (M : List (List β)) (hM : IsRows w M) (i j : Nat) (hj : j < w) (x : β) :
    M.flatten.set (i * w + j) x = (M.set i ((M.getD i []).set j x)).flatten := by
  induction M generalizing i with
  | nil => simp
  | cons r M ih =>
    have hr : r.length = w := hM r (by simp)
    have hM' : IsRows w M := fun x hx => hM x (by simp [hx])
    cases i with
    | zero =>
      simp only [Nat.zero_mul, Nat.zero_add, List.flatten_cons, List.getD_cons_zero, List.set_cons_zero]
      rw [List.set_append_left _ _ (by omega)]
    | succ i =>
      have e : (i + 1) * w + j = r.length + (i * w + j) := by rw [Nat.succ_mul, hr]; omega
      rw [e, List.flatten_cons, List.set_append_right _ _ (by omega)]
      simp only [Nat.add_sub_cancel_left, List.getD_cons_succ, List.set_cons_succ, List.flatten_cons]
      rw [ih hM' i]

/-- `a[i, j]` of a table: the model's `getD` of the row, whatever the model's default -/
theorem get_ofRows [Inhabited β] (w : Nat) (M : List (List β)) (hM : IsRows w M) {i j : Nat}
    (hi : i < M.length) (hj : j < w) (d : β) :
    A2.get (ofRows w M) (i : Int) (j : Int) = (M.getD i []).getD j d := by
  rw [A2.get_natCast _ _ _ (by simpa using hi) (by simpa using hj)]
  have hlen := hM.getD hi
  simp only [ofRows_data, ofRows_w]
  rw [List.getD_eq_getElem?_getD, flatten_getElem? w M hM i j hj]
  generalize M.getD i [] = row at hlen ⊢
  rw [List.getD_eq_getElem?_getD, List.getElem?_eq_getElem (by omega)]
  rfl

/-- `a[i, j] = x` on a table is a point write in row `i` (a column out of range is a no-op on both
    sides: IndexError in Python) -/
theorem set_ofRows (w : Nat) (M : List (List β)) (hM : IsRows w M) {i : Nat} (hi : i < M.length)
    (j : Nat) (x : β) :
    A2.set (ofRows w M) (i : Int) (j : Int) x = ofRows w (M.set i ((M.getD i []).set j x)) := by
  by_cases hj : j < w
  · rw [A2.set_natCast _ _ _ _ (by simpa using hi) (by simpa using hj)]
    simp only [ofRows_data, ofRows_w, flatten_set w M hM i j hj]
    simp [ofRows]
  · have hlen := hM.getD hi
    have h1 : (M.getD i []).set j x = M.getD i [] := List.set_eq_of_length_le (by omega)
    have h2 : M.set i (M.getD i []) = M := by
      rw [List.getD_eq_getElem?_getD, List.getElem?_eq_getElem hi]
      simp
    rw [h1, h2]
    simp [A2.set, hj]

/-- `a[i, j] += v` on a table is `addAt` in row `i` -/
theorem addAt_ofRows [Add β] [OfNat β 0] [Inhabited β] (w : Nat) (M : List (List β)) (hM : IsRows w M)
    {i : Nat} (hi : i < M.length) (j : Nat) (v : β) :
    A2.set (ofRows w M) (i : Int) (j : Int) (A2.get (ofRows w M) (i : Int) (j : Int) + v)
      = ofRows w (M.set i (Impl.addAt (M.getD i []) j v)) := by
  rw [set_ofRows w M hM hi]
  unfold Impl.addAt
  by_cases hj : j < w
  · rw [get_ofRows w M hM hi hj 0]
  · have hlen := hM.getD hi
    have h1 : ∀ y, (M.getD i []).set j y = M.getD i [] :=
      fun y => List.set_eq_of_length_le (by omega)
    rw [h1, h1]

theorem getD_set_self (M : List (List β)) {i : Nat} (hi : i < M.length) (r : List β) :
    (M.set i r).getD i [] = r := by
  simp [List.getD_eq_getElem?_getD, hi]

/-- rows of integers stored as reals -/
def castRows {α : Type} [IntCast α] (M : List (List Int)) : List (List α) :=
  M.map (List.map fun (k : Int) => (k : α))

theorem castRows_length {α : Type} [IntCast α] (M : List (List Int)) :
    (castRows (α := α) M).length = M.length := by simp [castRows]

theorem castRows_isRows {α : Type} [IntCast α] {w : Nat} {M : List (List Int)} (hM : IsRows w M) :
    IsRows w (castRows (α := α) M) := hM.map _

/-- a point write of a cast integer into a cast table -/
theorem set_castRows {α : Type} [IntCast α] (w : Nat) (M : List (List Int)) (hM : IsRows w M) {i : Nat}
    (hi : i < M.length) (j : Nat) (x : Int) :
    A2.set (ofRows w (castRows (α := α) M)) (i : Int) (j : Int) ((x : Int) : α)
      = ofRows w (castRows (M.set i ((M.getD i []).set j x))) := by
  rw [set_ofRows w _ (castRows_isRows hM) (by simpa [castRows] using hi)]
  congr 1
  simp only [castRows, List.map_set]
  congr 1
  simp [List.getD_eq_getElem?_getD, List.getElem?_eq_getElem hi]

/-! ### loops -/

/-- `for v in range(1, hi)` -/
theorem forRange_one (n : Nat) (hi : Int) (h : (hi - 1).toNat = n) (init : σ) (body : Int → σ → σ) :
    forRange 1 hi init body
      = (List.range' 1 n).foldl (fun (s : σ) (k : Nat) => body (k : Int) s) init := by
  unfold forRange
  rw [h, List.range'_eq_map_range, List.foldl_map]
  congr 1

/-- `for v in range(lo, lo + n)` with natural bounds -/
theorem forRange_range' (lo n : Nat) (hi : Int) (h : hi = ((lo + n : Nat) : Int)) (init : σ)
    (body : Int → σ → σ) :
    forRange (lo : Int) hi init body
      = (List.range' lo n).foldl (fun (s : σ) (k : Nat) => body (k : Int) s) init := by
  unfold forRange
  have : (hi - (lo : Int)).toNat = n := by omega
  rw [this, List.range'_eq_map_range, List.foldl_map]
  congr 1

/-- `for v in range(0, n)` where the bound is known to be a natural number -/
theorem forRange_zero (n : Nat) (hi : Int) (h : hi = (n : Int)) (init : σ) (body : Int → σ → σ) :
    forRange 0 hi init body
      = (List.range n).foldl (fun (s : σ) (k : Nat) => body (k : Int) s) init := by
  rw [h]; exact forRange_zero_nat n init body

theorem mem_range'_one {k n : Nat} (h : k ∈ List.range' 1 n) : 1 ≤ k ∧ k < 1 + n := by
  simpa [List.mem_range'_1] using h

/-- the position of an element in a split of `List.range n` -/
theorem range_split {n i : Nat} {pre post : List Nat} (h : List.range n = pre ++ i :: post) :
    i = pre.length ∧ i < n := by
  have hlen : n = pre.length + (post.length + 1) := by
    have := congrArg List.length h
    simpa using this
  have hi : pre.length < (List.range n).length := by simp; omega
  have h1 : (List.range n)[pre.length]'hi = i := by
    simp only [h]
    simp
  rw [List.getElem_range] at h1
  omega

/-- an invariant indexed by the loop counter of `for i in range(n)` -/
theorem foldl_inv_range {σ : Type} (P : Nat → σ → Prop) (n : Nat) (f : σ → Nat → σ) {s : σ} (h0 : P 0 s)
    (hstep : ∀ i < n, ∀ s, P i s → P (i + 1) (f s i)) : P n ((List.range n).foldl f s) := by
  induction n with
  | zero => simpa using h0
  | succ n ih =>
    rw [List.range_succ, List.foldl_append]
    simp only [List.foldl_cons, List.foldl_nil]
    exact hstep n (Nat.lt_succ_self n) _ (ih (fun i hi => hstep i (Nat.lt_succ_of_lt hi)))

/-! ### `np.max` of an array of non-negative integers -/

theorem foldl_max_cast (r : List Nat) (v : Nat) :
    (r.map (fun (k : Nat) => (k : Int))).foldl (fun m x => if m < x then x else m) (v : Int)
      = ((r.foldl max v : Nat) : Int) := by
  induction r generalizing v with
  | nil => rfl
  | cons a r ih =>
    simp only [List.map_cons, List.foldl_cons]
    have : (if (v : Int) < (a : Int) then (a : Int) else (v : Int)) = ((max v a : Nat) : Int) := by
      split <;> rename_i h
      · have : v < a := by omega
        rw [Nat.max_eq_right (by omega)]
      · have : a ≤ v := by omega
        rw [Nat.max_eq_left this]
    rw [this, ih]

/-- `int(np.max(a))` of a non-negative integer array is `maxNat` -/
theorem max_cast (l : List Nat) :
    A1.max (l.map (fun (k : Nat) => (k : Int))) = ((maxNat l : Nat) : Int) := by
  cases l with
  | nil => rfl
  | cons a r =>
    simp only [List.map_cons, A1.max, maxNat, List.foldl_cons]
    rw [foldl_max_cast, Nat.zero_max]

/-! ### small facts -/

theorem ofRows_replicate (n w : Nat) (z : β) :
    ofRows w (List.replicate n (List.replicate w z))
      = ({ h := n, w := w, data := List.replicate (n * w) z } : A2 β) := by
  simp [ofRows, List.flatten_replicate_replicate]

/-- `a[k]` on a mapped 1-D array, in range -/
theorem get_A1_map [Inhabited γ] (f : β → γ) (l : List β) (d : β) {k : Nat} (hk : k < l.length) :
    A1.get (l.map f) (k : Int) = f (l.getD k d) := by
  rw [get_A1 _ (f d) (by simpa using hk)]
  simp [List.getD_eq_getElem?_getD, List.getElem?_eq_getElem hk]

theorem getD_mem (l : List β) (d : β) {k : Nat} (hk : k < l.length) : l.getD k d ∈ l := by
  rw [List.getD_eq_getElem?_getD, List.getElem?_eq_getElem hk]
  exact List.getElem_mem hk

/-! ### rectangular neighbour tables: `neighbors[k, 0:n] = np.array([…]); neighbors_sizes[k] = n` -/

/-- the model's `neighbors` (rows of integers, `-1` padded) as numpy's float array -/
def nbA {α : Type} [IntCast α] (nb : Impl.NbTable) : A2 α := ofRows 4 (castRows nb.1)

/-- the model's `neighbors_sizes` as numpy's float array -/
def nbS {α : Type} [IntCast α] (nb : Impl.NbTable) : A1 α := nb.2.map fun (n : Nat) => ((n : Int) : α)

/-- a well-formed table for `n` pixels: `n` rows of 4 entries, `n` sizes -/
def NbWF (n : Nat) (nb : Impl.NbTable) : Prop := nb.1.length = n ∧ nb.2.length = n ∧ IsRows 4 nb.1

theorem length4 {l : List β} (h : l.length = 4) : ∃ a b c d, l = [a, b, c, d] := by
  match l, h with
  | [a, b, c, d], _ => exact ⟨a, b, c, d, rfl⟩

theorem setRow_wf {n : Nat} {nb : Impl.NbTable} (hwf : NbWF n nb) (k : Nat) (vals : List Int)
    (hv : vals.length ≤ 4) (hk : k < n) : NbWF n (Impl.setRow nb k vals) := by
  obtain ⟨h1, h2, h3⟩ := hwf
  refine ⟨by simp [Impl.setRow, h1], by simp [Impl.setRow, h2], ?_⟩
  unfold Impl.setRow
  apply h3.set
  have := h3.getD (i := k) (by omega)
  simp only [List.length_append, List.length_drop, this]
  omega

theorem foldl_inv {σ ι : Type} (P : σ → Prop) (l : List ι) (f : σ → ι → σ) {s : σ} (h0 : P s)
    (hstep : ∀ i ∈ l, ∀ s, P s → P (f s i)) : P (l.foldl f s) := by
  induction l generalizing s with
  | nil => simpa using h0
  | cons a l ih =>
    simp only [List.foldl_cons]
    exact ih (hstep a (by simp) s h0) (fun i hi => hstep i (by simp [hi]))

theorem sizes_store {α : Type} [IntCast α] (nb : Impl.NbTable) (k : Nat) (vals : List Int) (c : Int)
    (hc : c = (vals.length : Int)) :
    A1.set (nbS (α := α) nb) (k : Int) ((c : Int) : α) = nbS (Impl.setRow nb k vals) := by
  subst hc
  simp [nbS, Impl.setRow, List.map_set]

theorem nb_store2 {α : Type} [IntCast α] {n : Nat} {nb : Impl.NbTable} (hwf : NbWF n nb) {ki : Int}
    {k : Nat} (hk : ki = (k : Int)) (hkn : k < n) (a b : Int) :
    A2.set (A2.set (nbA nb) ki 0 ((a : Int) : α)) ki 1 ((b : Int) : α) = nbA (Impl.setRow nb k [a, b]) ∧
    A1.set (nbS nb) ki (((2 : Int) : Int) : α) = nbS (Impl.setRow nb k [a, b]) ∧
    NbWF n (Impl.setRow nb k [a, b]) := by
  subst hk
  refine ⟨?_, sizes_store nb k [a, b] 2 rfl, setRow_wf hwf k _ (by simp) hkn⟩
  obtain ⟨h1, _, hM⟩ := hwf
  have hk' : k < nb.1.length := by omega
  obtain ⟨r0, r1, r2, r3, hr⟩ := length4 (hM.getD hk')
  have e0 : (0 : Int) = ((0 : Nat) : Int) := rfl
  have e1 : (1 : Int) = ((1 : Nat) : Int) := rfl
  unfold nbA
  rw [e0, e1, set_castRows 4 _ hM hk' 0 a,
    set_castRows 4 _ (hM.set _ _ (by simp only [List.length_set]; exact hM.getD hk')) (by simpa using hk') 1 b,
    getD_set_self _ hk', List.set_set, hr]
  simp only [Impl.setRow, hr]
  rfl

theorem nb_store3 {α : Type} [IntCast α] {n : Nat} {nb : Impl.NbTable} (hwf : NbWF n nb) {ki : Int}
    {k : Nat} (hk : ki = (k : Int)) (hkn : k < n) (a b c : Int) :
    A2.set (A2.set (A2.set (nbA nb) ki 0 ((a : Int) : α)) ki 1 ((b : Int) : α)) ki 2 ((c : Int) : α)
      = nbA (Impl.setRow nb k [a, b, c]) ∧
    A1.set (nbS nb) ki (((3 : Int) : Int) : α) = nbS (Impl.setRow nb k [a, b, c]) ∧
    NbWF n (Impl.setRow nb k [a, b, c]) := by
  subst hk
  refine ⟨?_, sizes_store nb k [a, b, c] 3 rfl, setRow_wf hwf k _ (by simp) hkn⟩
  obtain ⟨h1, _, hM⟩ := hwf
  have hk' : k < nb.1.length := by omega
  obtain ⟨r0, r1, r2, r3, hr⟩ := length4 (hM.getD hk')
  have e0 : (0 : Int) = ((0 : Nat) : Int) := rfl
  have e1 : (1 : Int) = ((1 : Nat) : Int) := rfl
  have e2 : (2 : Int) = ((2 : Nat) : Int) := rfl
  have hM1 := hM.set k ((nb.1.getD k []).set 0 a) (by simp only [List.length_set]; exact hM.getD hk')
  unfold nbA
  rw [e0, e1, e2, set_castRows 4 _ hM hk' 0 a,
    set_castRows 4 _ hM1 (by simpa using hk') 1 b,
    getD_set_self _ hk', List.set_set,
    set_castRows 4 _ (hM.set _ _ (by simp only [List.length_set]; exact hM.getD hk')) (by simpa using hk') 2 c,
    getD_set_self _ hk', List.set_set, hr]
  simp only [Impl.setRow, hr]
  rfl

theorem nb_store4 {α : Type} [IntCast α] {n : Nat} {nb : Impl.NbTable} (hwf : NbWF n nb) {ki : Int}
    {k : Nat} (hk : ki = (k : Int)) (hkn : k < n) (a b c d : Int) :
    A2.set (A2.set (A2.set (A2.set (nbA nb) ki 0 ((a : Int) : α)) ki 1 ((b : Int) : α)) ki 2
        ((c : Int) : α)) ki 3 ((d : Int) : α)
      = nbA (Impl.setRow nb k [a, b, c, d]) ∧
    A1.set (nbS nb) ki (((4 : Int) : Int) : α) = nbS (Impl.setRow nb k [a, b, c, d]) ∧
    NbWF n (Impl.setRow nb k [a, b, c, d]) := by
  subst hk
  refine ⟨?_, sizes_store nb k [a, b, c, d] 4 rfl, setRow_wf hwf k _ (by simp) hkn⟩
  obtain ⟨h1, _, hM⟩ := hwf
  have hk' : k < nb.1.length := by omega
  obtain ⟨r0, r1, r2, r3, hr⟩ := length4 (hM.getD hk')
  have e0 : (0 : Int) = ((0 : Nat) : Int) := rfl
  have e1 : (1 : Int) = ((1 : Nat) : Int) := rfl
  have e2 : (2 : Int) = ((2 : Nat) : Int) := rfl
  have e3 : (3 : Int) = ((3 : Nat) : Int) := rfl
  have hM1 := hM.set k ((nb.1.getD k []).set 0 a) (by simp only [List.length_set]; exact hM.getD hk')
  unfold nbA
  rw [e0, e1, e2, e3, set_castRows 4 _ hM hk' 0 a,
    set_castRows 4 _ hM1 (by simpa using hk') 1 b,
    getD_set_self _ hk', List.set_set,
    set_castRows 4 _ (hM.set _ _ (by simp only [List.length_set]; exact hM.getD hk')) (by simpa using hk') 2 c,
    getD_set_self _ hk', List.set_set,
    set_castRows 4 _ (hM.set _ _ (by simp only [List.length_set]; exact hM.getD hk')) (by simpa using hk') 3 d,
    getD_set_self _ hk', List.set_set, hr]
  simp only [Impl.setRow, hr]
  rfl

/-! ### the phases keep the table well-formed (model side; used to chain the phase ties) -/

theorem rectCorner_wf {H W : Nat} (hH : 0 < H) (hW : 0 < W) {nb : Impl.NbTable}
    (hwf : NbWF (H * W) nb) : NbWF (H * W) (Impl.rectCorner H W nb) := by
  have hWle : W ≤ H * W := Nat.le_mul_of_pos_left W hH
  unfold Impl.rectCorner
  dsimp only
  exact setRow_wf (setRow_wf (setRow_wf (setRow_wf hwf 0 _ (by simp) (by omega)) _ _ (by simp)
    (by omega)) _ _ (by simp) (by omega)) _ _ (by simp) (by omega)

theorem rectTop_wf {H W : Nat} (hH : 0 < H) {nb : Impl.NbTable}
    (hwf : NbWF (H * W) nb) : NbWF (H * W) (Impl.rectTop H W nb) := by
  have hWle : W ≤ H * W := Nat.le_mul_of_pos_left W hH
  unfold Impl.rectTop
  refine foldl_inv (NbWF (H * W)) _ _ hwf ?_
  intro k hk t ht
  have hk' := mem_range'_one hk
  exact setRow_wf ht _ _ (by simp) (by omega)

theorem rectLeft_wf {H W : Nat} (hW : 0 < W) {nb : Impl.NbTable}
    (hwf : NbWF (H * W) nb) : NbWF (H * W) (Impl.rectLeft H W nb) := by
  unfold Impl.rectLeft
  refine foldl_inv (NbWF (H * W)) _ _ hwf ?_
  intro k hk t ht
  have hk' := mem_range'_one hk
  have hlt : k * W < H * W := Nat.mul_lt_mul_of_pos_right (by omega) hW
  exact setRow_wf ht _ _ (by simp) hlt

theorem rectRight_wf {H W : Nat} (hW : 0 < W) {nb : Impl.NbTable}
    (hwf : NbWF (H * W) nb) : NbWF (H * W) (Impl.rectRight H W nb) := by
  unfold Impl.rectRight
  refine foldl_inv (NbWF (H * W)) _ _ hwf ?_
  intro k hk t ht
  have hk' := mem_range'_one hk
  have hlt : k * W + W ≤ H * W := by
    have := Nat.mul_le_mul_right W (show k + 1 ≤ H by omega)
    rwa [Nat.succ_mul] at this
  exact setRow_wf ht _ _ (by simp) (by omega)

theorem rectBottom_wf {H W : Nat} (hH : 0 < H) {nb : Impl.NbTable}
    (hwf : NbWF (H * W) nb) : NbWF (H * W) (Impl.rectBottom H W nb) := by
  have hWle : W ≤ H * W := Nat.le_mul_of_pos_left W hH
  unfold Impl.rectBottom
  refine foldl_inv (NbWF (H * W)) _ _ hwf ?_
  intro k hk t ht
  have hk' := mem_range'_one hk
  exact setRow_wf ht _ _ (by simp) (by omega)

theorem nb0_wf (n : Nat) :
    NbWF n ((List.replicate n [-1, -1, -1, -1], List.replicate n 0) : Impl.NbTable) :=
  ⟨by simp, by simp, IsRows.replicate _ _ _ rfl⟩

end TieMapperAux
