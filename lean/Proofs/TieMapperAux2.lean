/-
Proofs/TieMapperAux2.lean — helper lemmas for the loop tie of
`mapper_util.data_slim_to_pixelization_unique_from` (Proofs/TieMapper.lean): the canonical form of the
innermost loop body of the generated definition (`uStepG`), its simulation of the model's `uniqueStep`
on the embedded state (`embedU`), and the simulation of a whole block of sub-pixels (`uRow_sim`).
Ordered-field facts (`pix_check[pix] > -0.5` on integers stored as floats) need Mathlib's order classes.
-/
import Model.PyRt
import Model.Mapper
import Proofs.TieCore
import Proofs.TieMapperAux
import Proofs.MapperUnique
import Mathlib.Algebra.Order.Field.Basic
import Mathlib.Tactic.Linarith
import Mathlib.Tactic.NormNum

open Model PyRt TieCore

namespace TieMapperAux

section unique
set_option linter.unusedSectionVars false
variable {α : Type} [Field α] [LinearOrder α] [IsStrictOrderedRing α] [Inhabited α]

/-- `pix_check[pix] > -0.5` on an integer stored as a float is `0 ≤ ·` on the integer -/
theorem half_test (k : Int) :
    (((k : Int) : α) > -(((1 : Int) : α) / ((2 : Int) : α))) ↔ 0 ≤ k := by
  simp only [Int.cast_one, Int.cast_ofNat]
  constructor
  · intro h
    by_contra hk
    have h1 : k ≤ -1 := by omega
    have h2 : ((k : Int) : α) ≤ -1 := by exact_mod_cast h1
    have h3 : (-(1 / 2) : α) > -1 := by norm_num
    linarith
  · intro h
    have h2 : (0 : α) ≤ ((k : Int) : α) := by exact_mod_cast h
    have h3 : (-(1 / 2) : α) < 0 := by norm_num
    exact lt_of_lt_of_le h3 h2

/-- `sub_fraction[ip] = 1.0 / sub_size[ip] ** 2.0` on the integer array is the model's `subFraction` -/
theorem subFraction_cast (s : Nat) :
    (1 : α) / PyRt.sq ((((s : Nat) : Int) : Int) : α) = Impl.subFraction s := by
  unfold PyRt.sq Impl.subFraction
  push_cast
  rfl

/-- canonical form of the innermost body of the generated `data_slim_to_pixelization_unique_from`
    (state: `data_to_pix_unique`, `data_weights`, `pix_check`, `pix_size`; `p` the source pixel,
    `w` its weight, `frac = sub_fraction[ip]`) -/
def uStepG (trunc : α → Int) (ip : Nat) (frac : α) (st : A2 α × A2 α × A1 α × Int) (p : Nat) (w : α) :
    A2 α × A2 α × A1 α × Int :=
  if decide ((A1.get st.2.2.1 (p : Int)) > (-(((1 : Int) : α) / ((2 : Int) : α)))) then
    (st.1,
     A2.set st.2.1 (ip : Int) (trunc (A1.get st.2.2.1 (p : Int)))
       ((A2.get st.2.1 (ip : Int) (trunc (A1.get st.2.2.1 (p : Int)))) + (frac * w)),
     st.2.2.1, st.2.2.2)
  else
    (A2.set st.1 (ip : Int) st.2.2.2 ((((p : Nat) : Int) : Int) : α),
     A2.set st.2.1 (ip : Int) st.2.2.2 ((A2.get st.2.1 (ip : Int) st.2.2.2) + (frac * w)),
     A1.set st.2.2.1 (p : Int) ((st.2.2.2 : Int) : α),
     st.2.2.2 + 1)

/-- the model's per-data-pixel state inside the full arrays: row `ip` of the two tables is the
    state's row, `pix_check` holds its integers as floats -/
def embedU (width ip : Nat) (RD : List (List Int)) (RW : List (List α)) (st : Impl.UniqueState α) :
    A2 α × A2 α × A1 α × Int :=
  (ofRows width (castRows (RD.set ip st.d2p)), ofRows width (RW.set ip st.dw),
   st.pixCheck.map (fun (k : Int) => (k : α)), (st.pixSize : Int))

structure StWF (P width : Nat) (st : Impl.UniqueState α) : Prop where
  chk : st.pixCheck.length = P
  d2p : st.d2p.length = width
  dw : st.dw.length = width

theorem length_addAt' (l : List α) (i : Nat) (v : α) : (Impl.addAt l i v).length = l.length := by
  simp [Impl.addAt]

theorem uStepG_sim (trunc : α → Int) (htr : ∀ k : Nat, trunc ((((k : Nat) : Int) : Int) : α) = (k : Int))
    {P width ip : Nat} {RD : List (List Int)} {RW : List (List α)} (hRD : IsRows width RD)
    (hRW : IsRows width RW) (hipD : ip < RD.length) (hipW : ip < RW.length)
    {st : Impl.UniqueState α} (hst : StWF P width st) (frac : α) {p : Nat} (hp : p < P) (w : α) :
    uStepG trunc ip frac (embedU width ip RD RW st) p w
        = embedU width ip RD RW (Impl.uniqueStep frac st p w) ∧
      StWF P width (Impl.uniqueStep frac st p w) := by
  obtain ⟨hc, hd, hw⟩ := hst
  have hget : A1.get (st.pixCheck.map (fun (k : Int) => (k : α))) (p : Int)
      = ((st.pixCheck.getD p (-1) : Int) : α) := get_A1_map _ _ _ (by omega)
  have hRD' : IsRows width (RD.set ip st.d2p) := hRD.set _ _ hd
  have hRW' : IsRows width (RW.set ip st.dw) := hRW.set _ _ hw
  unfold uStepG embedU Impl.uniqueStep
  dsimp only
  rw [hget]
  by_cases hk : 0 ≤ st.pixCheck.getD p (-1)
  · have hdec : decide ((((st.pixCheck.getD p (-1) : Int) : α))
        > (-(((1 : Int) : α) / ((2 : Int) : α)))) = true := by
      rw [decide_eq_true_eq]; exact (half_test _).mpr hk
    have hnat : st.pixCheck.getD p (-1) = (((st.pixCheck.getD p (-1)).toNat : Nat) : Int) := by omega
    rw [hdec, if_pos rfl, if_pos hk]
    constructor
    · rw [hnat, htr, ← hnat, hnat, addAt_ofRows width _ hRW' (by simpa using hipW), ← hnat,
        getD_set_self _ hipW, List.set_set]
    · exact ⟨hc, hd, by simpa [length_addAt'] using hw⟩
  · have hdec : decide ((((st.pixCheck.getD p (-1) : Int) : α))
        > (-(((1 : Int) : α) / ((2 : Int) : α)))) = false := by
      rw [decide_eq_false_iff_not]; exact fun h => hk ((half_test _).mp h)
    rw [hdec, if_neg (by simp), if_neg hk]
    constructor
    · rw [set_castRows width _ hRD' (by simpa using hipD), addAt_ofRows width _ hRW' (by simpa using hipW),
        getD_set_self _ hipD, getD_set_self _ hipW, List.set_set, List.set_set, A1.set_natCast]
      simp [List.map_set]
    · exact ⟨by simpa using hc, by simpa using hd, by simpa [length_addAt'] using hw⟩

/-- a block of sub-pixels `start … start + count` of data pixel `ip`, from any well-formed state:
    folding the canonical generated body over the embedded state is the embedded model fold -/
theorem uRow_sim (trunc : α → Int) (htr : ∀ k : Nat, trunc ((((k : Nat) : Int) : Int) : α) = (k : Int))
    (idx : List (List Int)) (sizes : List Nat) (wts : List (List α))
    {P width ip : Nat} {RD : List (List Int)} {RW : List (List α)} (hRD : IsRows width RD)
    (hRW : IsRows width RW) (hipD : ip < RD.length) (hipW : ip < RW.length) (frac : α)
    (start count : Nat)
    (hpix : ∀ sub, start ≤ sub → sub < start + count → ∀ c < sizes.getD sub 0,
      ((idx.getD sub []).getD c 0).toNat < P)
    {st0 : Impl.UniqueState α} (hst : StWF P width st0) :
    (List.range' start count).foldl
        (fun (st : A2 α × A2 α × A1 α × Int) (sub : Nat) =>
          (List.range (sizes.getD sub 0)).foldl
            (fun (st : A2 α × A2 α × A1 α × Int) (c : Nat) =>
              uStepG trunc ip frac st ((idx.getD sub []).getD c 0).toNat ((wts.getD sub []).getD c 0))
            st)
        (embedU width ip RD RW st0)
      = embedU width ip RD RW
          ((List.range' start count).foldl
            (fun st ipSub =>
              (List.range (sizes.getD ipSub 0)).foldl
                (fun st c =>
                  Impl.uniqueStep frac st ((idx.getD ipSub []).getD c 0).toNat
                    ((wts.getD ipSub []).getD c 0))
                st) st0) ∧
      StWF P width
          ((List.range' start count).foldl
            (fun st ipSub =>
              (List.range (sizes.getD ipSub 0)).foldl
                (fun st c =>
                  Impl.uniqueStep frac st ((idx.getD ipSub []).getD c 0).toNat
                    ((wts.getD ipSub []).getD c 0))
                st) st0) := by
  refine foldl_rel (fun (s : A2 α × A2 α × A1 α × Int) (t : Impl.UniqueState α) =>
      s = embedU width ip RD RW t ∧ StWF P width t) _ _ _ ⟨rfl, hst⟩ ?_
  intro sub hsub s t hR
  have hsub' : start ≤ sub ∧ sub < start + count := by simpa [List.mem_range'_1] using hsub
  refine foldl_rel (fun (s : A2 α × A2 α × A1 α × Int) (t : Impl.UniqueState α) =>
      s = embedU width ip RD RW t ∧ StWF P width t) _ _ _ hR ?_
  intro c hc s t ⟨hs, ht⟩
  have hc' : c < sizes.getD sub 0 := by simpa using hc
  subst hs
  exact uStepG_sim trunc htr hRD hRW hipD hipW ht frac (hpix sub hsub'.1 hsub'.2 c hc') _

theorem uniqueStep_wf {P width : Nat} {st : Impl.UniqueState α} (hst : StWF P width st) (frac : α)
    (p : Nat) (w : α) : StWF P width (Impl.uniqueStep frac st p w) := by
  obtain ⟨hc, hd, hw⟩ := hst
  unfold Impl.uniqueStep
  dsimp only
  split
  · exact ⟨hc, hd, by simpa [length_addAt'] using hw⟩
  · exact ⟨by simpa using hc, by simpa using hd, by simpa [length_addAt'] using hw⟩

theorem uniqueRow_wf (idx : List (List Int)) (sizes : List Nat) (wts : List (List α))
    (P width : Nat) (frac : α) (start count : Nat) :
    StWF P width (Impl.uniqueRow idx sizes wts P width frac start count) := by
  unfold Impl.uniqueRow
  refine foldl_inv (StWF P width) _ _ ⟨by simp, by simp, by simp⟩ ?_
  intro sub _ st hst
  refine foldl_inv (StWF P width) _ _ hst ?_
  intro c _ st hst
  exact uniqueStep_wf hst _ _ _

/-- `sub_fraction[ip]` of the generated code (`1.0 / sub_size ** 2.0`, elementwise) -/
theorem subFraction_get (subs : List Nat) {i : Nat} (hi : i < subs.length) :
    A1.get (A1.map (fun u2 => (1 : α) / u2)
        (A1.map (fun (u1 : Int) => PyRt.sq ((u1 : Int) : α)) (subs.map fun (k : Nat) => (k : Int)))) (i : Int)
      = Impl.subFraction (subs.getD i 0) := by
  unfold A1.map
  rw [List.map_map, List.map_map, get_A1_map _ subs 0 hi]
  exact subFraction_cast _

end unique

/-! ### a table whose first `ip` rows are final and whose other rows still hold the fill value -/

def padTab (n ip : Nat) (f : Nat → β) (z : β) : List β :=
  (List.range ip).map f ++ List.replicate (n - ip) z

theorem padTab_length {n ip : Nat} (h : ip ≤ n) (f : Nat → β) (z : β) : (padTab n ip f z).length = n := by
  simp [padTab]; omega

theorem padTab_set {n ip : Nat} (h : ip < n) (f : Nat → β) (z : β) (a : β) (ha : a = f ip) :
    (padTab n ip f z).set ip a = padTab n (ip + 1) f z := by
  subst ha
  unfold padTab
  obtain ⟨m, hm⟩ : ∃ m, n - ip = m + 1 := ⟨n - ip - 1, by omega⟩
  have hm' : n - (ip + 1) = m := by omega
  have hl : ip = ((List.range ip).map f).length := by simp
  rw [hm, hm', List.range_succ, List.map_append]
  conv => lhs; arg 2; rw [hl]
  rw [set_pack]
  simp

theorem padTab_getD {n ip : Nat} (h : ip < n) (f : Nat → β) (z d : β) :
    (padTab n ip f z).getD ip d = z := by
  unfold padTab
  rw [List.getD_eq_getElem?_getD, List.getElem?_append_right (by simp)]
  simp only [List.length_map, List.length_range, Nat.sub_self]
  rw [List.getElem?_replicate, if_pos (by omega)]
  rfl

theorem padTab_set_fill {n ip : Nat} (h : ip < n) (f : Nat → β) (z : β) :
    (padTab n ip f z).set ip z = padTab n ip f z := by
  have hl : ip < (padTab n ip f z).length := by rw [padTab_length (by omega)]; exact h
  have := padTab_getD h f z z
  rw [List.getD_eq_getElem?_getD, List.getElem?_eq_getElem hl] at this
  simp only [Option.getD_some] at this
  conv => lhs; arg 3; rw [← this]
  simp

theorem padTab_full (n : Nat) (f : Nat → β) (z : β) : padTab n n f z = (List.range n).map f := by
  simp [padTab]

theorem padTab_zero (n : Nat) (f : Nat → β) (z : β) : padTab n 0 f z = List.replicate n z := by
  simp [padTab]

theorem padTab_isRows {w : Nat} (n ip : Nat) (f : Nat → List β) (z : List β) (hf : ∀ j, (f j).length = w)
    (hz : z.length = w) : IsRows w (padTab n ip f z) := by
  apply IsRows.append
  · intro x hx
    obtain ⟨j, _, rfl⟩ := List.mem_map.mp hx
    exact hf j
  · exact IsRows.replicate _ _ _ hz

/-- `-1 * np.ones((n, w))` / `np.zeros((n, w))` as a table of fill rows -/
theorem full_eq_ofRows (n w : Nat) (z : β) :
    A2.full (n : Int) (w : Int) z = ofRows w (List.replicate n (List.replicate w z)) := by
  rw [A2.full_natCast, ofRows_replicate]

/-! ### the loop invariant of the outer loop of `data_slim_to_pixelization_unique_from` -/

section inv
set_option linter.unusedSectionVars false
variable {α : Type} [Field α] [LinearOrder α] [IsStrictOrderedRing α] [Inhabited α]

/-- width of the unique tables: `max_pix_mappings * np.max(sub_size) ** 2` -/
abbrev uWidth (sizes subs : List Nat) : Nat := maxNat sizes * (maxNat subs * maxNat subs)

/-- `data_to_pix_unique` after `ip` data pixels -/
def tabD (idx : List (List Int)) (sizes : List Nat) (wts : List (List α)) (P : Nat) (subs : List Nat)
    (ip : Nat) : List (List Int) :=
  padTab subs.length ip (fun j => (rowState idx sizes wts P subs j).d2p)
    (List.replicate (uWidth sizes subs) (-1))

/-- `data_weights` after `ip` data pixels -/
def tabW (idx : List (List Int)) (sizes : List Nat) (wts : List (List α)) (P : Nat) (subs : List Nat)
    (ip : Nat) : List (List α) :=
  padTab subs.length ip (fun j => (rowState idx sizes wts P subs j).dw)
    (List.replicate (uWidth sizes subs) 0)

/-- `pix_lengths` after `ip` data pixels -/
def tabS (idx : List (List Int)) (sizes : List Nat) (wts : List (List α)) (P : Nat) (subs : List Nat)
    (ip : Nat) : List α :=
  padTab subs.length ip (fun j => (((rowState idx sizes wts P subs j).pixSize : Int) : α)) 0

/-- state of the outer loop after `ip` data pixels: the first `ip` rows of the three outputs are the
    model's rows, the others still hold the fill value; `pix_check` has its length; `ip_sub_start` is
    the first sub-pixel of data pixel `ip` -/
def UInv (idx : List (List Int)) (sizes : List Nat) (wts : List (List α)) (P : Nat) (subs : List Nat)
    (ip : Nat) (s : A2 α × A2 α × A1 α × A1 α × Int) : Prop :=
  s.1 = ofRows (uWidth sizes subs) (castRows (tabD idx sizes wts P subs ip)) ∧
  s.2.1 = ofRows (uWidth sizes subs) (tabW idx sizes wts P subs ip) ∧
  s.2.2.1 = tabS idx sizes wts P subs ip ∧
  s.2.2.2.1.length = P ∧
  s.2.2.2.2 = ((blockStart subs ip : Nat) : Int)

theorem rowState_wf (idx : List (List Int)) (sizes : List Nat) (wts : List (List α)) (P : Nat)
    (subs : List Nat) (j : Nat) : StWF P (uWidth sizes subs) (rowState idx sizes wts P subs j) :=
  uniqueRow_wf _ _ _ _ _ _ _ _

theorem tabD_isRows (idx : List (List Int)) (sizes : List Nat) (wts : List (List α)) (P : Nat)
    (subs : List Nat) (ip : Nat) : IsRows (uWidth sizes subs) (tabD idx sizes wts P subs ip) :=
  padTab_isRows _ _ _ _ (fun j => (rowState_wf idx sizes wts P subs j).d2p) (by simp)

theorem tabW_isRows (idx : List (List Int)) (sizes : List Nat) (wts : List (List α)) (P : Nat)
    (subs : List Nat) (ip : Nat) : IsRows (uWidth sizes subs) (tabW idx sizes wts P subs ip) :=
  padTab_isRows _ _ _ _ (fun j => (rowState_wf idx sizes wts P subs j).dw) (by simp)

theorem UInv_init (idx : List (List Int)) (sizes : List Nat) (wts : List (List α)) (P : Nat)
    (subs : List Nat) :
    UInv idx sizes wts P subs 0
      (A2.full (subs.length : Int) ((uWidth sizes subs : Nat) : Int) (-(1 : α)),
       A2.zeros (subs.length : Int) ((uWidth sizes subs : Nat) : Int),
       A1.zeros (subs.length : Int), A1.full (P : Int) (-(1 : α)), 0) := by
  refine ⟨?_, ?_, ?_, by simp, by simp [blockStart]⟩
  · show A2.full _ _ _ = _
    rw [full_eq_ofRows, tabD, padTab_zero]
    simp [castRows]
  · show A2.zeros _ _ = _
    rw [A2.zeros, full_eq_ofRows, tabW, padTab_zero]
  · show A1.zeros _ = _
    rw [A1.zeros_natCast, tabS, padTab_zero]

theorem UInv_final (idx : List (List Int)) (sizes : List Nat) (wts : List (List α)) (P : Nat)
    (subs : List Nat) (s : A2 α × A2 α × A1 α × A1 α × Int)
    (h : UInv idx sizes wts P subs subs.length s) :
    (s.1, s.2.1, s.2.2.1)
      = (ofRows (uWidth sizes subs) (castRows
            ((List.range subs.length).map fun ip => (rowState idx sizes wts P subs ip).d2p)),
         ofRows (uWidth sizes subs)
            ((List.range subs.length).map fun ip => (rowState idx sizes wts P subs ip).dw),
         ((List.range subs.length).map fun ip => (rowState idx sizes wts P subs ip).pixSize).map
            fun (n : Nat) => ((n : Int) : α)) := by
  obtain ⟨h1, h2, h3, _, _⟩ := h
  rw [h1, h2, h3, tabD, tabW, tabS, padTab_full, padTab_full, padTab_full, List.map_map]
  rfl

end inv

end TieMapperAux
