/-
Proofs/TieMaskSets.lean — LOOP TIES for property C10 (blurring / edge pixel sets): the definitions that
harness/translate2.py regenerates from the current Python source (Generated/LoopsMaskSets.lean) are
equal, for every input and every size, to the hand-written `Model.Impl.*` functions of
Model/MaskSets.lean that the theorems of Props/C10.lean are about.  Only `*_tie` theorems live in this
file (helpers: Proofs/TieCore.lean, Proofs/TieMaskSetsAux.lean).  See design_notes/LOOP_TIES.md for the
proof pattern and design_notes/TIES_C10.md for what is and is not tied.
-/
import Generated.LoopsMaskSets
import Model.MaskSets
import Proofs.MaskSets
import Proofs.TieCore
import Proofs.TieMaskSetsAux

open Model PyRt TieCore TieMaskSetsAux

namespace TieMaskSets

/-- `mask_2d_util.check_if_edge_pixel` = `Impl.checkIfEdgePixel` for a pixel of the frame (on the outer
    ring the code returns before any read; inside, all eight reads are in range) -/
theorem check_if_edge_pixel_tie (m : Mask) (wf : m.WF) (y x : Nat) (hy : y < m.h) (hx : x < m.w) :
    Generated.LoopsMaskSets.check_if_edge_pixel (ofMask m) (y : Int) (x : Int)
      = Impl.checkIfEdgePixel m y x := by
  unfold Generated.LoopsMaskSets.check_if_edge_pixel Impl.checkIfEdgePixel
  simp only [A2.shape0_eq, A2.shape1_eq, ofMask_h, ofMask_w]
  have hring : (((y : Int) == 0) || ((x : Int) == 0) || ((y : Int) == (m.h : Int) - 1)
        || ((x : Int) == (m.w : Int) - 1))
      = (y == 0 || x == 0 || y + 1 == m.h || x + 1 == m.w) := by
    rw [Bool.eq_iff_iff]
    simp only [Bool.or_eq_true, beq_iff_eq]
    omega
  simp only [hring]
  by_cases hr : (y == 0 || x == 0 || y + 1 == m.h || x + 1 == m.w) = true
  · simp only [hr, if_true]
  · simp only [hr, Bool.false_eq_true, if_false]
    simp only [Bool.or_eq_true, beq_iff_eq, not_or] at hr
    obtain ⟨⟨⟨h1, h2⟩, h3⟩, h4⟩ := hr
    have ey1 : (y : Int) + 1 = ((y + 1 : Nat) : Int) := by omega
    have eym : (y : Int) - 1 = ((y - 1 : Nat) : Int) := by omega
    have ex1 : (x : Int) + 1 = ((x + 1 : Nat) : Int) := by omega
    have exm : (x : Int) - 1 = ((x - 1 : Nat) : Int) := by omega
    rw [ey1, eym, ex1, exm,
      get_ofMask m wf (y := y + 1) (x := x) (by omega) hx,
      get_ofMask m wf (y := y - 1) (x := x) (by omega) hx,
      get_ofMask m wf (y := y) (x := x + 1) hy (by omega),
      get_ofMask m wf (y := y) (x := x - 1) hy (by omega),
      get_ofMask m wf (y := y + 1) (x := x + 1) (by omega) (by omega),
      get_ofMask m wf (y := y + 1) (x := x - 1) (by omega) (by omega),
      get_ofMask m wf (y := y - 1) (x := x + 1) (by omega) (by omega),
      get_ofMask m wf (y := y - 1) (x := x - 1) (by omega) (by omega)]
    unfold Impl.anyNeighbourMasked
    split <;> simp_all

/-- `mask_2d_util.total_edge_pixels_from` = `Impl.totalEdgePixels` -/
theorem total_edge_pixels_from_tie (m : Mask) (wf : m.WF) :
    Generated.LoopsMaskSets.total_edge_pixels_from (ofMask m) = (Impl.totalEdgePixels m : Int) := by
  unfold Generated.LoopsMaskSets.total_edge_pixels_from Impl.totalEdgePixels
  rw [forYX_eq_foldl]
  simp only [A2.shape0_eq, A2.shape1_eq, ofMask_h, ofMask_w, forRange_yx]
  apply foldl_rel (fun (s : Int) (t : Nat) => s = (t : Int))
  · rfl
  · intro p hp s t hst
    rw [mem_pixels] at hp
    rw [get_ofMask m wf hp.1 hp.2, check_if_edge_pixel_tie m wf p.1 p.2 hp.1 hp.2, hst]
    split
    · split <;> simp
    · rfl

/-- `mask_2d_util.edge_1d_indexes_from` = `Impl.edgeSlim`: the code writes the running `regular_index`
    at the running `edge_index` of a `np.zeros(total_edge_pixels_from(mask_2d))` array; the model appends. -/
theorem edge_1d_indexes_from_tie {α : Type} [OfNat α 0] [IntCast α] (m : Mask) (wf : m.WF) :
    Generated.LoopsMaskSets.edge_1d_indexes_from (α := α) (ofMask m)
      = (Impl.edgeSlim m).map (fun (k : Nat) => ((k : Int) : α)) := by
  unfold Generated.LoopsMaskSets.edge_1d_indexes_from
  rw [total_edge_pixels_from_tie m wf, totalEdgePixels_eq_filter, edgeSlim_eq]
  simp only [A2.shape0_eq, A2.shape1_eq, ofMask_h, ofMask_w, forRange_yx, A1.zeros_natCast]
  rw [foldl_congr_mem (g := fun (st : A1 α × Int × Int) (p : Nat × Nat) =>
      if !m.get p.1 p.2 then
        (if Impl.checkIfEdgePixel m p.1 p.2 then
           (A1.set st.1 st.2.1 ((st.2.2 : Int) : α), st.2.1 + 1, st.2.2 + 1)
         else (st.1, st.2.1, st.2.2 + 1))
      else st)]
  · have := pack_cond_counter_A1 (pixels m.h m.w) (fun p => !m.get p.1 p.2)
      (fun p => Impl.checkIfEdgePixel m p.1 p.2) (fun (k : Int) => (k : α)) (0 : α) [] 0
    simp only [List.length_nil, Nat.zero_add, List.nil_append, Int.natCast_zero] at this
    rw [this]
    simp [Spec.unmaskedPixels]
  · intro p hp st
    rw [mem_pixels] at hp
    rw [get_ofMask m wf hp.1 hp.2, check_if_edge_pixel_tie m wf p.1 p.2 hp.1 hp.2]
    split
    · split <;> rfl
    · rfl

/-- `mask_2d_util.blurring_mask_2d_from` = `Impl.blurringBits`: `none` exactly when the code raises the
    MaskException ("extends beyond the edge"), otherwise the same `h × w` bool array -/
theorem blurring_mask_2d_from_tie (m : Mask) (wf : m.WF) (kh kw : Nat) :
    Generated.LoopsMaskSets.blurring_mask_2d_from (ofMask m) ((kh : Int), (kw : Int))
      = (Impl.blurringBits m kh kw).map (fun b => ofNative m.h m.w b) := by
  unfold Generated.LoopsMaskSets.blurring_mask_2d_from Impl.blurringBits
  rw [forYX_eq_foldl]
  simp only [A2.shape0_eq, A2.shape1_eq, ofMask_h, ofMask_w, forRange_yx, A2.full_natCast]
  simp only [forRange_intRange, fdiv_two]
  have key : ∀ (s : A2 Bool × Bool) (t : Option (List Bool)), BlurR m s t →
      (if s.2 = true then none else some s.1) = t.map (fun b => ofNative m.h m.w b) := by
    intro s t hR
    cases t with
    | none => simp only [BlurR] at hR; simp [hR]
    | some b => obtain ⟨h1, h2⟩ := hR; simp [h1, h2]
  refine key _ _ ?_
  apply foldl_rel (BlurR m)
  · exact ⟨rfl, rfl⟩
  · intro p hp s t hR
    rw [mem_pixels] at hp
    rw [get_ofMask m wf hp.1 hp.2]
    cases hc : m.get p.1 p.2
    · simp only [Bool.not_false, if_true]
      apply foldl_rel (BlurR m) _ _ _ hR
      intro y1 _ s t hR
      apply foldl_rel (BlurR m) _ _ _ hR
      intro x1 _ s t hR
      exact blurStep_sim m wf p.1 p.2 y1 x1 s t hR
    · simp only [Bool.not_true, Bool.false_eq_true, if_false]
      exact hR

/-- `mask_2d_util.mask_2d_via_shape_native_and_native_for_slim` = `Impl.maskFromNative` (index table in
    the frame); the code returns the float array `np.ones(shape)` with `0.0` written at the listed pixels -/
theorem mask_2d_via_shape_native_and_native_for_slim_tie {α : Type} [OfNat α 0] [OfNat α 1]
    (h w : Nat) (native : List (Nat × Nat)) (hin : ∀ p ∈ native, p.1 < h ∧ p.2 < w) :
    Generated.LoopsMaskSets.mask_2d_via_shape_native_and_native_for_slim (α := α) ((h : Int), (w : Int))
        (ofPairs (fun k => (k : Int)) native)
      = A2.map (fun b => (b2r b : α)) (ofMask (Impl.maskFromNative h w native)) := by
  unfold Generated.LoopsMaskSets.mask_2d_via_shape_native_and_native_for_slim Impl.maskFromNative
  rw [foldl_eq_range_getD native (0, 0)]
  simp only [A2.shape0_eq, ofPairs_h, forRange_zero_nat, A2.full_natCast]
  have hsim := foldl_rel
    (fun (a : A2 α) (bits : List Bool) => a = { h := h, w := w, data := bits.map (fun b => (b2r b : α)) })
    (List.range native.length)
    (fun (mask : A2 α) (k : Nat) =>
      A2.set mask (A2.get (ofPairs (fun k => (k : Int)) native) (k : Int) 0)
        (A2.get (ofPairs (fun k => (k : Int)) native) (k : Int) 1) (0 : α))
    (fun (b : List Bool) (k : Nat) => b.set ((native.getD k (0, 0)).1 * w + (native.getD k (0, 0)).2) false)
    (s := { h := h, w := w, data := List.replicate (h * w) (1 : α) })
    (t := List.replicate (h * w) true)
    (by simp [b2r])
    (by
      intro k hk a bits hR
      have hk' : k < native.length := by simpa using hk
      obtain ⟨g0, g1⟩ := get_ofPairs (fun k => (k : Int)) native hk'
      have hb := hin native[k] (List.getElem_mem hk')
      have hd : native.getD k (0, 0) = native[k] := by
        simp [List.getD_eq_getElem?_getD, hk']
      rw [g0, g1, hR, hd, A2.set_natCast _ _ _ _ (by simpa using hb.1) (by simpa using hb.2)]
      simp [List.map_set, b2r])
  rw [hsim]
  simp [A2.map, ofMask]

end TieMaskSets
