/-
Proofs/TieMaskSets2.lean — LOOP TIE (DESIGN.md §12, design_notes/LOOP_TIES.md) for property C10, second module:
`mask_2d_util.buffed_mask_2d_from` as regenerated into Generated/LoopsMaskSets2.lean from the current Python
source, against the hand model `Model.Impl.buffedBits` (Model/MaskBuffed.lean), whose refinement to the set
characterisation `Model.Spec.buffedBits` is `Model.buffedBits_eq` (Proofs/MaskBuffed.lean).
ONLY theorems named `*_tie` here; helpers are in Proofs/TieMaskSets2Aux.lean.
-/
import Generated.LoopsMaskSets2
import Model.MaskBuffed
import Proofs.MaskBuffed
import Proofs.TieCore
import Proofs.TieMaskSets2Aux

open Model PyRt TieCore TieMaskSets2Aux

namespace TieMaskSets2

/-- `mask_2d_util.buffed_mask_2d_from(mask_2d, buffer)` = `Impl.buffedBits m buffer` as the `h × w` bool
    array, for every well-formed mask, every size and every integer `buffer` (negative: the copy) -/
theorem buffed_mask_2d_from_tie (m : Mask) (wf : m.WF) (buffer : Int) :
    Generated.LoopsMaskSets2.buffed_mask_2d_from (ofMask m) buffer
      = ofNative m.h m.w (Impl.buffedBits m buffer) := by
  unfold Generated.LoopsMaskSets2.buffed_mask_2d_from Impl.buffedBits
  rw [forYX_eq_foldl]
  simp only [A2.shape0_eq, A2.shape1_eq, ofMask_h, ofMask_w, forRange_yx]
  simp only [forRange_intRange]
  refine (foldl_rel (BuffR m) (pixels m.h m.w) _ _ (s := ofMask m) (t := m.bits) ⟨rfl, wf⟩ ?_).1
  intro p hp s t hR
  rw [mem_pixels] at hp
  rw [get_ofMask m wf hp.1 hp.2]
  cases hc : m.get p.1 p.2
  · simp only [Bool.not_false, if_true]
    apply foldl_rel (BuffR m) _ _ _ hR
    intro y0 _ s t hR
    apply foldl_rel (BuffR m) _ _ _ hR
    intro x0 _ s t hR
    exact buffStep_sim m y0 x0 s t hR
  · simp only [Bool.not_true, Bool.false_eq_true, if_false]
    exact hR

end TieMaskSets2
