/-
Proofs/TieMaskSets2Aux.lean — helper lemmas for the LOOP TIE of `buffed_mask_2d_from`
(Proofs/TieMaskSets2.lean, property C10): `range(lo, hi)` over the integers as a fold over
`Model.intRange`, and the simulation step of the innermost store.  Core Lean only.
-/
import Generated.LoopsMaskSets2
import Model.MaskBuffed
import Proofs.MaskBuffed
import Proofs.TieCore

open Model PyRt TieCore

namespace TieMaskSets2Aux

/-- `for v in range(lo, hi)` with integer bounds is a fold over `Model.intRange lo hi` -/
theorem forRange_intRange {σ : Type} (lo hi : Int) (init : σ) (body : Int → σ → σ) :
    forRange lo hi init body = (intRange lo hi).foldl (fun s i => body i s) init := by
  unfold forRange intRange
  rw [List.foldl_map]

/-- the simulation relation: the generated array is the embedding of the model's bit list, which has
    the full length -/
def BuffR (m : Mask) (s : A2 Bool) (bits : List Bool) : Prop :=
  s = ofNative m.h m.w bits ∧ bits.length = m.h * m.w

/-- the innermost statement `if y0 >= 0 and x0 >= 0 and y0 <= H - 1 and x0 <= W - 1: buffed[y0, x0] = False`
    is `Impl.buffStep` -/
theorem buffStep_sim (m : Mask) (y0 x0 : Int) (s : A2 Bool) (bits : List Bool) (hR : BuffR m s bits) :
    BuffR m
      (if (decide (y0 ≥ 0)) && (decide (x0 ≥ 0)) && (decide (y0 ≤ ((m.h : Int) - 1)))
          && (decide (x0 ≤ ((m.w : Int) - 1))) then A2.set s y0 x0 false else s)
      (Impl.buffStep m y0 x0 bits) := by
  obtain ⟨rfl, hl⟩ := hR
  refine ⟨?_, by rw [buffStep_length, hl]⟩
  unfold Impl.buffStep
  by_cases hc : 0 ≤ y0 ∧ 0 ≤ x0 ∧ y0 ≤ (m.h : Int) - 1 ∧ x0 ≤ (m.w : Int) - 1
  · rw [if_pos hc]
    obtain ⟨c1, c2, c3, c4⟩ := hc
    have hb : ((decide (y0 ≥ 0)) && (decide (x0 ≥ 0)) && (decide (y0 ≤ ((m.h : Int) - 1)))
          && (decide (x0 ≤ ((m.w : Int) - 1)))) = true := by simp [c1, c2, c3, c4]
    rw [if_pos hb]
    obtain ⟨yn, rfl⟩ := Int.eq_ofNat_of_zero_le c1
    obtain ⟨xn, rfl⟩ := Int.eq_ofNat_of_zero_le c2
    rw [A2.set_natCast _ _ _ _ (by simp only [ofNative_h]; omega) (by simp only [ofNative_w]; omega)]
    simp [ofNative]
  · rw [if_neg hc]
    have hb : ¬ (((decide (y0 ≥ 0)) && (decide (x0 ≥ 0)) && (decide (y0 ≤ ((m.h : Int) - 1)))
          && (decide (x0 ≤ ((m.w : Int) - 1)))) = true) := by
      simp only [Bool.and_eq_true, decide_eq_true_eq, ge_iff_le]
      intro h; exact hc ⟨h.1.1.1, h.1.1.2, h.1.2, h.2⟩
    rw [if_neg hb]

end TieMaskSets2Aux
