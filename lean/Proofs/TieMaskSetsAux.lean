/-
Proofs/TieMaskSetsAux.lean — helper lemmas for the LOOP TIES of property C10 (Proofs/TieMaskSets.lean):
generic loop-shape lemmas that Proofs/TieCore.lean does not have (a `for v in range(lo, hi)` over the
integers as a fold over `Model.intRange`, `Int.fdiv _ 2`, a fold over a list as a fold over its index
range, the write-at-a-running-counter loop with a second, unconditional counter) and the simulation
step of `blurring_mask_2d_from`.  Core Lean only.
-/
import Generated.LoopsMaskSets
import Model.MaskSets
import Proofs.MaskSets
import Proofs.TieCore

open Model PyRt TieCore

namespace TieMaskSetsAux

/-! ### loop shapes -/

/-- `for v in range(lo, hi)` with integer bounds is a fold over `Model.intRange lo hi` -/
theorem forRange_intRange {σ : Type} (lo hi : Int) (init : σ) (body : Int → σ → σ) :
    forRange lo hi init body = (intRange lo hi).foldl (fun s i => body i s) init := by
  unfold forRange intRange
  rw [List.foldl_map]

/-- Python's `// 2` (`Int.fdiv`) is Lean's `/ 2` on `Int` -/
theorem fdiv_two (a : Int) : Int.fdiv a 2 = a / 2 :=
  Int.fdiv_eq_ediv_of_nonneg a (by decide)

/-- a fold over a list is the fold over its index range reading `l[k]` -/
theorem foldl_eq_range_getD {σ γ : Type} (l : List γ) (d : γ) (f : σ → γ → σ) (init : σ) :
    l.foldl f init = (List.range l.length).foldl (fun s k => f s (l.getD k d)) init := by
  have hmap : (List.range l.length).map (fun i => l.getD i d) = l := by
    apply List.ext_getElem
    · simp
    · intro i h1 h2
      simp [List.getD_eq_getElem?_getD, h2]
  conv => lhs; rw [← hmap]
  rw [List.foldl_map]

/-! ### counting -/

/-- the counting pass `if c i: if e i: total += 1` over `Nat` -/
theorem count_loop_nat {ι : Type} (l : List ι) (c e : ι → Bool) (k : Nat) :
    l.foldl (fun (acc : Nat) i => if c i then (if e i then acc + 1 else acc) else acc) k
      = k + (l.filter fun i => c i && e i).length := by
  induction l generalizing k with
  | nil => simp
  | cons a l ih =>
    simp only [List.foldl_cons, List.filter_cons]
    cases hc : c a <;> cases he : e a <;> simp [ih] <;> omega

/-- `total_edge_pixels_from` counts the unmasked pixels passing `check_if_edge_pixel` -/
theorem totalEdgePixels_eq_filter (m : Mask) :
    Impl.totalEdgePixels m
      = ((pixels m.h m.w).filter fun p => !m.get p.1 p.2 && Impl.checkIfEdgePixel m p.1 p.2).length := by
  unfold Impl.totalEdgePixels
  rw [forYX_eq_foldl]
  have := count_loop_nat (pixels m.h m.w) (fun p => !m.get p.1 p.2)
    (fun p => Impl.checkIfEdgePixel m p.1 p.2) 0
  simpa using this

/-! ### write at a running counter, the value being a second counter that advances on every `c` -/

/-- the loop of `edge_1d_indexes_from`:
    `if c i: (if e i: out[k] = v(n); k += 1); n += 1` over a buffer pre-allocated with the number of
    `c ∧ e` elements yields the positions (among the `c` elements, counted from `n`) of the `e` ones. -/
theorem pack_cond_counter_A1 {ι β : Type} (l : List ι) (c e : ι → Bool) (v : Int → β) (z : β)
    (xs : List β) (n : Nat) :
    l.foldl (fun (st : A1 β × Int × Int) i =>
          if c i then
            (if e i then (A1.set st.1 st.2.1 (v st.2.2), st.2.1 + 1, st.2.2 + 1)
             else (st.1, st.2.1, st.2.2 + 1))
          else st)
        (xs ++ List.replicate (l.filter fun i => c i && e i).length z, (xs.length : Int), (n : Int))
      = (xs ++ (((l.filter c).zipIdx n).filter fun q => e q.1).map (fun q => v ((q.2 : Nat) : Int)),
         ((xs.length + (l.filter fun i => c i && e i).length : Nat) : Int),
         ((n + (l.filter c).length : Nat) : Int)) := by
  induction l generalizing xs n with
  | nil => simp
  | cons a l ih =>
    simp only [List.foldl_cons, List.filter_cons]
    by_cases hc : c a = true
    · by_cases he : e a = true
      · simp only [hc, he, if_true, Bool.and_self, List.length_cons, List.replicate_succ,
          A1.set_natCast, List.zipIdx_cons, List.filter_cons]
        have h1 : (xs ++ z :: List.replicate (List.filter (fun i => c i && e i) l).length z).set
              xs.length (v (n : Int))
            = (xs ++ [v (n : Int)]) ++ List.replicate (List.filter (fun i => c i && e i) l).length z := by
          simp
        have h2 : (xs.length : Int) + 1 = ((xs ++ [v (n : Int)]).length : Int) := by simp
        have h3 : (n : Int) + 1 = ((n + 1 : Nat) : Int) := by simp
        rw [h1, h2, h3, ih (xs ++ [v (n : Int)]) (n + 1)]
        simp only [List.length_append, List.length_cons, List.length_nil, List.append_assoc,
          List.cons_append, List.nil_append, List.map_cons, Prod.mk.injEq, true_and]
        constructor <;> congr 1 <;> omega
      · have he' : e a = false := by simpa using he
        simp only [hc, he', if_true, Bool.and_false, Bool.false_eq_true, if_false,
          List.zipIdx_cons, List.filter_cons, List.length_cons]
        have h3 : (n : Int) + 1 = ((n + 1 : Nat) : Int) := by simp
        rw [h3, ih xs (n + 1)]
        simp only [Prod.mk.injEq, true_and]
        congr 1; omega
    · have hc' : c a = false := by simpa using hc
      simp only [hc', Bool.false_and, Bool.false_eq_true, if_false]
      exact ih xs n

/-! ### `blurring_mask_2d_from`: relation between the generated state (array, `raised_` flag) and the
model's `Option` accumulator (`none` = the MaskException has been raised) -/

/-- the generated loop keeps running after a `raise` with the flag set (its array is then irrelevant);
    the model's accumulator is `none` from then on -/
def BlurR (m : Mask) (s : A2 Bool × Bool) (t : Option (List Bool)) : Prop :=
  match t with
  | none => s.2 = true
  | some b => s.2 = false ∧ s.1 = ofNative m.h m.w b

/-- one iteration of the innermost loop of `blurring_mask_2d_from` simulates `Impl.blurStep` -/
theorem blurStep_sim (m : Mask) (wf : m.WF) (y x : Nat) (y1 x1 : Int)
    (s : A2 Bool × Bool) (t : Option (List Bool)) (h : BlurR m s t) :
    BlurR m
      (if ((decide (0 ≤ (x : Int) + x1) && decide ((x : Int) + x1 ≤ (m.w : Int) - 1))
            && (decide (0 ≤ (y : Int) + y1) && decide ((y : Int) + y1 ≤ (m.h : Int) - 1))) = true then
         (if A2.get (ofMask m) ((y : Int) + y1) ((x : Int) + x1) = true then
            A2.set s.1 ((y : Int) + y1) ((x : Int) + x1) false
          else s.1, s.2)
       else (s.1, true))
      (Impl.blurStep m y x y1 x1 t) := by
  cases t with
  | none =>
    simp only [BlurR] at h
    simp only [Impl.blurStep, BlurR]
    split <;> simp [h]
  | some b =>
    obtain ⟨h1, h2⟩ := h
    by_cases hv : (0 ≤ (x : Int) + x1 ∧ (x : Int) + x1 ≤ (m.w : Int) - 1
        ∧ 0 ≤ (y : Int) + y1 ∧ (y : Int) + y1 ≤ (m.h : Int) - 1)
    · obtain ⟨v1, v2, v3, v4⟩ := hv
      obtain ⟨ty, ety⟩ : ∃ ty : Nat, (y : Int) + y1 = (ty : Int) := ⟨((y : Int) + y1).toNat, by omega⟩
      obtain ⟨tx, etx⟩ : ∃ tx : Nat, (x : Int) + x1 = (tx : Int) := ⟨((x : Int) + x1).toNat, by omega⟩
      rw [ety] at v3 v4
      rw [etx] at v1 v2
      have hty : ty < m.h := by omega
      have htx : tx < m.w := by omega
      simp only [Impl.blurStep, ety, etx, v1, v2, v3, v4, decide_true, Bool.and_self, if_true,
        and_self, Int.toNat_natCast, get_ofMask m wf hty htx]
      cases hm : m.get ty tx
      · simp only [Bool.false_eq_true, if_false, BlurR]
        exact ⟨h1, h2⟩
      · simp only [if_true, BlurR]
        refine ⟨h1, ?_⟩
        rw [h2, A2.set_natCast _ _ _ _ (by simpa using hty) (by simpa using htx)]
        simp [ofNative]
    · have hcond : ((decide (0 ≤ (x : Int) + x1) && decide ((x : Int) + x1 ≤ (m.w : Int) - 1))
            && (decide (0 ≤ (y : Int) + y1) && decide ((y : Int) + y1 ≤ (m.h : Int) - 1))) = false := by
        rw [Bool.eq_false_iff]
        intro hc
        apply hv
        simpa [and_assoc] using hc
      simp only [hcond, Bool.false_eq_true, if_false, Impl.blurStep, hv, BlurR]

end TieMaskSetsAux
