/-
Proofs/TieNormalEq.lean — LOOP TIES for property C04 (normal equations in both formalisms): the definitions
that harness/translate2.py regenerates from the current Python source (Generated/LoopsNormalEq.lean) are
equal, for every input and every size, to the hand-written `Model.Impl.*` functions of Model/NormalEq.lean
that the theorems of Props/C04.lean are about.
  §1 `inversion/inversion_util.py`; §2 data vectors and the w-tilde curvature CONSUMERS (tied to the `…P`
  functions over the tables as the code stores them); §3 the w-tilde PRODUCERS.
Only `*_tie` theorems live in this file; helpers: Proofs/TieCore.lean, Proofs/TieNormalEqAux.lean (embeddings),
…Aux2 (the quadruple loop with the running `curvature_index`, the closing loops), …Aux3 (packing / copy
loops), …Aux4 (the two passes of the preload producer).  See design_notes/TIES_C04.md.
-/
import Generated.LoopsNormalEq
import Model.NormalEq
import Proofs.TieCore
import Proofs.TieNormalEqAux
import Proofs.TieNormalEqAux2
import Proofs.TieNormalEqAux3
import Proofs.TieNormalEqAux4

open Model PyRt TieCore TieNormalEqAux

namespace TieNormalEq

/-! ## §1 inversion_util.py -/

/-- `inversion_util.curvature_matrix_with_added_to_diag_from` = `Impl.addToDiag` (indices inside the matrix) -/
theorem curvature_matrix_with_added_to_diag_from_tie {α : Type} [Add α] [OfNat α 0] [Inhabited α]
    (F : Mat α) (value : α) (noReg : List Nat) (h : ∀ i ∈ noReg, i < F.r ∧ i < F.c) :
    Generated.LoopsNormalEq.curvature_matrix_with_added_to_diag_from (ofMat F) value
        (noReg.map Int.ofNat)
      = ofMat (Impl.addToDiag F value noReg) := by
  unfold Generated.LoopsNormalEq.curvature_matrix_with_added_to_diag_from Impl.addToDiag
  simp only [forEach, List.foldl_map]
  refine (foldl_rel (fun (a : A2 α) (M : Mat α) => a = ofMat M ∧ M.r = F.r ∧ M.c = F.c) noReg _ _
    ⟨rfl, rfl, rfl⟩ ?_).1
  intro i hi a M ⟨ha, hr, hc⟩
  obtain ⟨h1, h2⟩ := h i hi
  subst ha
  exact ⟨ofMat_add M value (by omega) (by omega), by simp [hr], by simp [hc]⟩

/-- `inversion_util.curvature_matrix_mirrored_from` = `Impl.mirrored` (square matrix: the code reads
    `curvature_matrix[j, i]` for `i < shape[0]`, `j < shape[1]`) -/
theorem curvature_matrix_mirrored_from_tie {α : Type} [OfNat α 0] [IntCast α] [DecidableEq α]
    [Inhabited α] (C : Mat α) (hsq : C.r = C.c) :
    Generated.LoopsNormalEq.curvature_matrix_mirrored_from (ofMat C) = ofMat (Impl.mirrored C) := by
  unfold Generated.LoopsNormalEq.curvature_matrix_mirrored_from Impl.mirrored
  rw [forYX_eq_foldl]
  simp only [A2.shape0_eq, A2.shape1_eq, ofMat_h, ofMat_w, forRange_yx, ofMat_zeros]
  refine (foldl_rel (fun (a : A2 α) (M : Mat α) => a = ofMat M ∧ M.r = C.r ∧ M.c = C.c)
    (pixels C.r C.c) _ _ (t := Mat.zeros C.r C.c) ⟨rfl, rfl, rfl⟩ ?_).1
  intro p hp a M ⟨ha, hr, hc⟩
  rw [mem_pixels] at hp
  obtain ⟨hi, hj⟩ := hp
  subst ha
  have hj' : p.2 < C.r := by omega
  have hi' : p.1 < C.c := by omega
  rw [ofMat_get C hi hj, ofMat_get C hj' hi']
  simp only [Impl.mirroredStep, bne_iff_ne, ne_eq, ite_not]
  by_cases h1 : C.get p.1 p.2 = 0 <;> by_cases h2 : C.get p.2 p.1 = 0 <;>
    simp only [h1, h2, if_true, if_false] <;>
    (try rw [ofMat_put M _ (by omega) (by omega)]) <;>
    (try rw [ofMat_put _ _ (by simp; omega) (by simp; omega)]) <;>
    (try rw [ofMat_put _ _ (by simp; omega) (by simp; omega)]) <;>
    (try rw [ofMat_put _ _ (by simp; omega) (by simp; omega)]) <;>
    simp [hr, hc]

/-- `inversion_util.mapped_reconstructed_data_via_mapping_matrix_from` = `Impl.mappedViaMatrix`
    (one column of the mapping matrix per reconstruction value) -/
theorem mapped_reconstructed_data_via_mapping_matrix_from_tie {α : Type} [Add α] [Mul α] [OfNat α 0]
    [Inhabited α] (B : Mat α) (recon : List α) (h : recon.length ≤ B.c) :
    Generated.LoopsNormalEq.mapped_reconstructed_data_via_mapping_matrix_from (ofMat B) recon
      = Vec.toList (Impl.mappedViaMatrix B recon) := by
  unfold Generated.LoopsNormalEq.mapped_reconstructed_data_via_mapping_matrix_from Impl.mappedViaMatrix
  simp only [A2.shape0_eq, ofMat_h, A1.len_eq, forRange_zero_nat, vec_zeros]
  apply foldl_rel (fun (a : A1 α) (v : Vec α) => a = Vec.toList v)
  · rfl
  · intro i hi a v hR
    apply foldl_rel (fun (a : A1 α) (v : Vec α) => a = Vec.toList v) _ _ _ hR
    intro j hj a v hR
    have hi' : i < B.r := by simpa using hi
    have hj' : j < recon.length := by simpa using hj
    rw [hR, get_A1 recon 0 hj', ofMat_get B hi' (by omega)]
    exact vec_add v i _

/-- `inversion_util.mapped_reconstructed_data_via_image_to_pix_unique_from` = `Impl.mappedViaUniqueP` on
    the stored table `(data_to_pix_unique, data_weights, pix_lengths)`: the three arrays have one row per
    data pixel, the used entries `k < pix_lengths[d]` lie inside the arrays and hold indices into the
    reconstruction. -/
theorem mapped_reconstructed_data_via_image_to_pix_unique_from_tie {α : Type} [Add α] [Mul α] [OfNat α 0]
    [Inhabited α] (idx : A2 Int) (val : A2 α) (len : A1 Int) (recon : List α)
    (hidx : idx.data.length = idx.h * idx.w) (hval : val.data.length = val.h * val.w)
    (hh : idx.h ≤ val.h) (hl : len.length = idx.h)
    (hk : ∀ d k : Nat, d < idx.h → k < (len.getD d 0).toNat →
      k < idx.w ∧ k < val.w ∧ 0 ≤ A2.get idx d k ∧ A2.get idx d k < recon.length) :
    Generated.LoopsNormalEq.mapped_reconstructed_data_via_image_to_pix_unique_from idx val len recon
      = Vec.toList (Impl.mappedViaUniqueP (paddedOf idx val len) recon) := by
  unfold Generated.LoopsNormalEq.mapped_reconstructed_data_via_image_to_pix_unique_from
    Impl.mappedViaUniqueP
  simp only [A2.shape0_eq, forRange_zero_nat, paddedOf, List.length_map, hl, vec_zeros]
  simp only [forRange_zero_toNat]
  apply foldl_rel (fun (a : A1 α) (v : Vec α) => a = Vec.toList v)
  · rfl
  · intro d hd a v hR
    have hd' : d < idx.h := by simpa using hd
    rw [len_toNat]
    apply foldl_rel (fun (a : A1 α) (v : Vec α) => a = Vec.toList v) _ _ _ hR
    intro k hk' a v hR
    have hk'' : k < (len.getD d 0).toNat := by
      have : k < (List.map Int.toNat len).getD d 0 := by simpa using hk'
      rw [← len_toNat, A1.get_natCast] at this
      have e : len.getD d default = len.getD d 0 := rfl
      rw [← e]; exact this
    obtain ⟨h1, h2, h3, h4⟩ := hk d k hd' hk''
    have hz : A2.get idx d k = ((A2.get idx d k).toNat : Int) := by omega
    have hlt : (A2.get idx d k).toNat < recon.length := by omega
    rw [hR, hz, get_A1 recon 0 hlt]
    simp only [Impl.Padded.entry, vget]
    rw [← get_rowsOf idx hidx (-1) hd' h1, ← get_rowsOf val hval 0 (by omega) h2]
    exact vec_add v d _

/-! ## §2 data vectors, w-tilde consumers -/

/-- `data_vector_via_blurred_mapping_matrix_from` = `Impl.dataVectorMapping` (one image / noise value per
    row of the blurred mapping matrix) -/
theorem data_vector_via_blurred_mapping_matrix_from_tie {α : Type} [Add α] [Mul α] [Div α] [OfNat α 0]
    [Inhabited α] (B : Mat α) (image noise : List α) (hi : B.r ≤ image.length) (hn : B.r ≤ noise.length) :
    Generated.LoopsNormalEq.data_vector_via_blurred_mapping_matrix_from (ofMat B) image noise
      = Vec.toList (Impl.dataVectorMapping B image noise) := by
  unfold Generated.LoopsNormalEq.data_vector_via_blurred_mapping_matrix_from Impl.dataVectorMapping
  simp only [A2.shape0_eq, A2.shape1_eq, ofMat_h, ofMat_w, forRange_zero_nat, vec_zeros, PyRt.sq]
  apply foldl_rel (fun (a : A1 α) (v : Vec α) => a = Vec.toList v)
  · rfl
  · intro d hd a v hR
    apply foldl_rel (fun (a : A1 α) (v : Vec α) => a = Vec.toList v) _ _ _ hR
    intro p hp a v hR
    have hd' : d < B.r := by simpa using hd
    have hp' : p < B.c := by simpa using hp
    rw [hR, get_A1 image 0 (by omega), get_A1 noise 0 (by omega), ofMat_get B hd' hp']
    exact vec_add v p _

/-- `data_vector_via_w_tilde_data_imaging_from` = `Impl.dataVectorWTildeP` on the stored unique-mapping
    table: for every data pixel `d` the used entries `k < pix_lengths[d]` lie inside the arrays and the
    pixelization indices are non-negative (a negative index would wrap around in numpy). -/
theorem data_vector_via_w_tilde_data_imaging_from_tie {α : Type} [Add α] [Mul α] [OfNat α 0] [Inhabited α]
    (wtd : List α) (idx : A2 Int) (val : A2 α) (len : A1 Int) (pix : Nat)
    (hidx : idx.data.length = idx.h * idx.w) (hval : val.data.length = val.h * val.w)
    (hk : ∀ d : Nat, d < wtd.length → RowOK idx val len pix d) :
    Generated.LoopsNormalEq.data_vector_via_w_tilde_data_imaging_from wtd idx val len (pix : Int)
      = Vec.toList (Impl.dataVectorWTildeP wtd (paddedOf idx val len) pix) := by
  unfold Generated.LoopsNormalEq.data_vector_via_w_tilde_data_imaging_from Impl.dataVectorWTildeP
  simp only [A1.len_eq, forRange_zero_nat, paddedOf, vec_zeros]
  simp only [forRange_zero_toNat, len_toNat]
  apply foldl_rel (fun (a : A1 α) (v : Vec α) => a = Vec.toList v)
  · rfl
  · intro d hd a v hR
    have hd' : d < wtd.length := by simpa using hd
    apply foldl_rel (fun (a : A1 α) (v : Vec α) => a = Vec.toList v) _ _ _ hR
    intro k hk' a v hR
    have hk'' : k < (len.getD d 0).toNat := by
      have : k < (List.map Int.toNat len).getD d 0 := by simpa using hk'
      rw [← len_toNat, A1.get_natCast] at this
      exact this
    obtain ⟨h1, h2, h3, h4, h5, h6⟩ := hk d hd' k hk''
    have hz : A2.get idx d k = ((A2.get idx d k).toNat : Int) := by omega
    simp only [Impl.Padded.entry, vget]
    rw [← get_rowsOf idx hidx (-1) h1 h3, ← get_rowsOf val hval 0 h2 h4, hR, hz, get_A1 wtd 0 hd']
    exact vec_add v _ _

/-- `curvature_matrix_off_diags_via_w_tilde_curvature_preload_imaging_from` = `Impl.offDiagPreloadP` on the
    stored tables: every position `c` the running `curvature_index` visits lies inside
    `curvature_indexes` / `curvature_preload` and names a data pixel whose row of the second table is in
    range; every data pixel with a non-empty preload row has its row of the first table in range. -/
theorem curvature_matrix_off_diags_via_w_tilde_curvature_preload_imaging_from_tie {α : Type} [Add α]
    [Mul α] [OfNat α 0] [Inhabited α] (pre : A1 α) (ind clen : A1 Int)
    (idx0 : A2 Int) (val0 : A2 α) (len0 : A1 Int) (pix0 : Nat)
    (idx1 : A2 Int) (val1 : A2 α) (len1 : A1 Int) (pix1 : Nat)
    (hi0 : idx0.data.length = idx0.h * idx0.w) (hv0 : val0.data.length = val0.h * val0.w)
    (hi1 : idx1.data.length = idx1.h * idx1.w) (hv1 : val1.data.length = val1.h * val1.w)
    (hc : ∀ c : Nat, c < totalPairs clen → c < ind.length ∧ c < pre.length ∧ 0 ≤ ind.getD c 0 ∧
      RowOK idx1 val1 len1 pix1 (ind.getD c 0).toNat)
    (h0 : ∀ d : Nat, d < clen.length → 0 < clen.getD d 0 → RowOK idx0 val0 len0 pix0 d) :
    Generated.LoopsNormalEq.curvature_matrix_off_diags_via_w_tilde_curvature_preload_imaging_from
        pre ind clen idx0 val0 len0 (pix0 : Int) idx1 val1 len1 (pix1 : Int)
      = ofMat (Impl.offDiagPreloadP (flatOf pre ind clen) (paddedOf idx0 val0 len0) pix0
          (paddedOf idx1 val1 len1) pix1) := by
  unfold Generated.LoopsNormalEq.curvature_matrix_off_diags_via_w_tilde_curvature_preload_imaging_from
  exact offLoop_eq pre ind clen idx0 val0 len0 pix0 idx1 val1 len1 pix1 hi0 hv0 hi1 hv1 hc h0

/-- `curvature_matrix_via_w_tilde_curvature_preload_imaging_from` = `Impl.curvatureFromPreloadP` on the
    stored tables (the quadruple loop with the running `curvature_index`, then `F[i,j] += F[j,i]`, then the
    mirror), same well-formedness as the off-diagonal version with both tables equal. -/
theorem curvature_matrix_via_w_tilde_curvature_preload_imaging_from_tie {α : Type} [Add α] [Mul α]
    [OfNat α 0] [Inhabited α] (pre : A1 α) (ind clen : A1 Int)
    (idx : A2 Int) (val : A2 α) (len : A1 Int) (pix : Nat)
    (hi : idx.data.length = idx.h * idx.w) (hv : val.data.length = val.h * val.w)
    (hc : ∀ c : Nat, c < totalPairs clen → c < ind.length ∧ c < pre.length ∧ 0 ≤ ind.getD c 0 ∧
      RowOK idx val len pix (ind.getD c 0).toNat)
    (h0 : ∀ d : Nat, d < clen.length → 0 < clen.getD d 0 → RowOK idx val len pix d) :
    Generated.LoopsNormalEq.curvature_matrix_via_w_tilde_curvature_preload_imaging_from
        pre ind clen idx val len (pix : Int)
      = ofMat (Impl.curvatureFromPreloadP (flatOf pre ind clen) (paddedOf idx val len) pix) := by
  unfold Impl.curvatureFromPreloadP
  show symLoop (offLoop pre ind clen idx val len pix idx val len pix).1 (pix : Int) = _
  rw [offLoop_eq pre ind clen idx val len pix idx val len pix hi hv hi hv hc h0]
  exact sym_loops _ pix (offDiagPreloadP_dims _ _ _ _ _).1 (offDiagPreloadP_dims _ _ _ _ _).2

/-! ## §3 w-tilde producers -/

/-- `w_tilde_curvature_value_from` (with the default `renormalize=False`) = `Impl.wTildeCurvatureValue`:
    the kernel footprint of the first pixel lies inside the native array (no index of
    `value_native[ip0_y + k0_y + shift_y, …]` is negative, where numpy would wrap around, or too large). -/
theorem w_tilde_curvature_value_from_tie {α : Type} [Add α] [Mul α] [Div α] [OfNat α 0] [OfNat α 1]
    [IntCast α] [LT α] [DecidableLT α] [Inhabited α]
    (h w : Nat) (valueNative : List α) (K : Kernel α) (ip0 ip1 : Nat × Nat)
    (hv : valueNative.length = h * w) (hK : K.vals.length = K.kh * K.kw)
    (hfp : K.hy ≤ ip0.1 ∧ ip0.1 + K.kh ≤ h + K.hy ∧ K.hx ≤ ip0.2 ∧ ip0.2 + K.kw ≤ w + K.hx) :
    Generated.LoopsNormalEq.w_tilde_curvature_value_from (ofNative h w valueNative) (ofKernel K)
        (ip0.1 : Int) (ip0.2 : Int) (ip1.1 : Int) (ip1.2 : Int) false
      = Impl.wTildeCurvatureValue w valueNative K ip0 ip1 := by
  obtain ⟨f1, f2, f3, f4⟩ := hfp
  unfold Generated.LoopsNormalEq.w_tilde_curvature_value_from Impl.wTildeCurvatureValue
  generalize hkh : A2.shape0 (ofKernel K) = kh
  generalize hkw : A2.shape1 (ofKernel K) = kw
  have e1 : ((K.kh : Nat) : Int) = kh := hkh
  have e2 : ((K.kw : Nat) : Int) = kw := hkw
  subst e1 e2
  simp only [fdiv_two]
  rw [show K.kh / 2 = K.hy from rfl, show K.kw / 2 = K.hx from rfl]
  have hcond : (decide ((ip0.1 : Int) - ip1.1 < 2 * -(K.hy : Int)) || decide ((ip0.1 : Int) - ip1.1 > -2 * -(K.hy : Int))
        || decide ((ip0.2 : Int) - ip1.2 < 2 * -(K.hx : Int)) || decide ((ip0.2 : Int) - ip1.2 > -2 * -(K.hx : Int))) = true
      ↔ ((ip0.1 : Int) - ip1.1 < 2 * -(K.hy : Int) ∨ (ip0.1 : Int) - ip1.1 > -2 * -(K.hy : Int)
        ∨ (ip0.2 : Int) - ip1.2 < 2 * -(K.hx : Int) ∨ (ip0.2 : Int) - ip1.2 > -2 * -(K.hx : Int)) := by
    simp only [Bool.or_eq_true, decide_eq_true_eq, or_assoc]
  simp only [hcond]
  split
  · rfl
  · simp only [Bool.false_eq_true, if_false, forRange_yx]
    rw [forYX_eq_foldl]
    apply foldl_rel (fun (s : α × Int) (t : α) => s.1 = t)
    · rfl
    · intro p hp s t hst
      rw [mem_pixels] at hp
      obtain ⟨hp1, hp2⟩ := hp
      have ey : ((ip0.1 : Int) + (p.1 : Int)) + -(K.hy : Int) = ((ip0.1 + p.1 - K.hy : Nat) : Int) := by omega
      have ex : ((ip0.2 : Int) + (p.2 : Int)) + -(K.hx : Int) = ((ip0.2 + p.2 - K.hx : Nat) : Int) := by omega
      rw [ey, ex, get_ofNative h w valueNative hv 0 (by omega) (by omega),
        get_ofKernel K hK hp1 hp2]
      generalize hk1y : (p.1 : Int) + ((ip0.1 : Int) - ip1.1) = k1y
      generalize hk1x : (p.2 : Int) + ((ip0.2 : Int) - ip1.2) = k1x
      have hk1 : (decide (k1y ≥ 0) && decide (k1x ≥ 0) && decide (k1y < (K.kh : Int))
            && decide (k1x < (K.kw : Int))) = true
          ↔ (0 ≤ k1y ∧ 0 ≤ k1x ∧ k1y < (K.kh : Int) ∧ k1x < (K.kw : Int)) := by
        simp [and_assoc]
      simp only [vget, gt_iff_lt, decide_eq_true_eq, hk1]
      by_cases hpos : 0 < valueNative.getD ((ip0.1 + p.1 - K.hy) * w + (ip0.2 + p.2 - K.hx)) 0
      · by_cases hk : 0 ≤ k1y ∧ 0 ≤ k1x ∧ k1y < (K.kh : Int) ∧ k1x < (K.kw : Int)
        · simp only [hpos, hk, and_self, if_true]
          obtain ⟨k1, k2, k3, k4⟩ := hk
          have e1 : k1y = ((k1y.toNat : Nat) : Int) := by omega
          have e2 : k1x = ((k1x.toNat : Nat) : Int) := by omega
          rw [e1, e2, get_ofKernel K hK (by omega) (by omega), hst]
          simp only [PyRt.sq, Int.toNat_natCast]
        · simp only [hpos, hk, if_true, if_false]
          exact hst
      · simp only [hpos, if_false]
        exact hst

/-- `w_tilde_data_imaging_from` = `Impl.wTildeData`.  The code skips a native pixel when
    `image / noise**2` is NaN; the model skips it when `image = 0 ∧ noise² = 0` — `hnan` is that reading of
    `np.isnan` (IEEE: a quotient of finite numbers is NaN exactly at `0/0`) on the pixels of the arrays.
    Both native arrays have the shape `h × w`, the kernel footprint of every listed pixel lies inside. -/
theorem w_tilde_data_imaging_from_tie {α : Type} [Add α] [Mul α] [Div α] [OfNat α 0] [DecidableEq α]
    [Inhabited α] (isnan : α → Bool) (h w : Nat) (image noise : List α) (K : Kernel α)
    (idx : List (Nat × Nat))
    (him : image.length = h * w) (hnz : noise.length = h * w) (hK : K.vals.length = K.kh * K.kw)
    (hnan : ∀ k : Nat, k < h * w → isnan (vget image k / (vget noise k * vget noise k))
      = decide (vget image k = 0 ∧ vget noise k * vget noise k = 0))
    (hfp : ∀ c ∈ idx, K.hy ≤ c.1 ∧ c.1 + K.kh ≤ h + K.hy ∧ K.hx ≤ c.2 ∧ c.2 + K.kw ≤ w + K.hx) :
    Generated.LoopsNormalEq.w_tilde_data_imaging_from isnan (ofNative h w image) (ofNative h w noise)
        (ofKernel K) (ofPairs (fun k => (k : Int)) idx)
      = Impl.wTildeData w image noise K idx := by
  unfold Generated.LoopsNormalEq.w_tilde_data_imaging_from Impl.wTildeData
  simp only [A2.shape0_eq, A2.shape1_eq, ofKernel_h, ofKernel_w, ofPairs_h, fdiv_two, forRange_zero_nat,
    A1.zeros_natCast, forYX]
  rw [show K.kh / 2 = K.hy from rfl, show K.kw / 2 = K.hx from rfl]
  rw [← map_range_getD idx (0, 0)]
  rw [← fill_loop idx.length (0 : α)]
  apply foldl_congr_mem
  intro k hk out
  have hk' : k < idx.length := by simpa using hk
  obtain ⟨g0, g1⟩ := get_ofPairs_getD idx hk'
  have hc := hfp (idx.getD k (0, 0)) (by
    simp [List.getD_eq_getElem?_getD, List.getElem?_eq_getElem hk'])
  generalize idx.getD k (0, 0) = c at g0 g1 hc
  obtain ⟨f1, f2, f3, f4⟩ := hc
  rw [g0, g1]
  congr 1
  apply foldl_rel (fun (s t : α) => s = t)
  · rfl
  · intro p1 hp1 s t hst
    apply foldl_rel (fun (s t : α) => s = t) _ _ _ hst
    intro p2 hp2 s t hst
    have hp1 : p1 < K.kh := by simpa using hp1
    have hp2 : p2 < K.kw := by simpa using hp2
    generalize hp : (p1, p2) = p
    have hp1 : p.1 < K.kh := by rw [← hp]; exact hp1
    have hp2 : p.2 < K.kw := by rw [← hp]; exact hp2
    have e1 : p1 = p.1 := by rw [← hp]
    have e2 : p2 = p.2 := by rw [← hp]
    rw [e1, e2]
    have ey : ((c.1 : Int) + (p.1 : Int)) + -(K.hy : Int) = ((c.1 + p.1 - K.hy : Nat) : Int) := by omega
    have ex : ((c.2 : Int) + (p.2 : Int)) + -(K.hx : Int) = ((c.2 + p.2 - K.hx : Nat) : Int) := by omega
    have hy : c.1 + p.1 - K.hy < h := by omega
    have hx : c.2 + p.2 - K.hx < w := by omega
    rw [ey, ex, get_zipWith_map _ _ h w image noise him hnz 0 0 hy hx, get_ofKernel K hK hp1 hp2, hst]
    have := hnan _ (flat_lt_of_lt hy hx)
    simp only [vget] at this
    simp only [PyRt.sq, vget, this]
    exact ite_not_decide _ _ _

/-- `w_tilde_curvature_preload_imaging_from` = `Impl.wTildePreloadFlat` (the three arrays as numpy holds
    them: floats).  Hypotheses: the noise map has the native shape, the kernel footprint of every listed
    pixel lies inside it (as for `w_tilde_curvature_value_from_tie`), no row of the preload is longer
    than the temporaries' width `(2·kh − 1)(2·kw − 1)` (otherwise Python raises IndexError); on the number
    type: `float(2) = 1 + 1`, integers embed additively, and `int()` (the oracle `trunc`) returns the
    integer a float holds — all true of IEEE doubles below 2⁵³ and of any ordered field with
    `trunc = ⌊·⌋`. -/
theorem w_tilde_curvature_preload_imaging_from_tie {α : Type} [Add α] [Mul α] [Div α] [OfNat α 0]
    [OfNat α 1] [IntCast α] [LT α] [DecidableLT α] [DecidableEq α] [Inhabited α]
    (trunc : α → Int) (h w : Nat) (noise : List α) (K : Kernel α) (idx : List (Nat × Nat))
    (hnz : noise.length = h * w) (hK : K.vals.length = K.kh * K.kw)
    (hfp : ∀ c ∈ idx, K.hy ≤ c.1 ∧ c.1 + K.kh ≤ h + K.hy ∧ K.hx ≤ c.2 ∧ c.2 + K.kw ≤ w + K.hx)
    (h2 : ((2 : Int) : α) = 1 + 1) (hcast0 : ((0 : Int) : α) = 0)
    (hadd : ∀ a b : Nat, (((a : Nat) : Int) : α) + (((b : Nat) : Int) : α) = (((a + b : Nat) : Int) : α))
    (htrunc : ∀ k : Nat, trunc (((k : Nat) : Int) : α) = (k : Int))
    (hrow : ∀ row ∈ Impl.wTildePreload w noise K idx,
      row.length ≤ ((2 * (K.kh : Int) - 1) * (2 * (K.kw : Int) - 1)).toNat) :
    Generated.LoopsNormalEq.w_tilde_curvature_preload_imaging_from trunc (ofNative h w noise) (ofKernel K)
        (ofPairs (fun k => (k : Int)) idx)
      = ((Impl.wTildePreloadFlat w noise K idx).preload,
         (Impl.wTildePreloadFlat w noise K idx).indexes.map (fun (k : Nat) => (((k : Nat) : Int) : α)),
         (Impl.wTildePreloadFlat w noise K idx).lengths.map (fun (k : Nat) => (((k : Nat) : Int) : α))) := by
  show preloadAll trunc (ofNative h w noise) (ofKernel K) (ofPairs (fun k => (k : Int)) idx) = _
  unfold preloadAll
  simp only [A2.shape0_eq, A2.shape1_eq, ofPairs_h, ofKernel_h, ofKernel_w]
  have hrow' : ∀ d, d < idx.length →
      (sel w noise K idx d).length ≤ ((2 * (K.kh : Int) - 1) * (2 * (K.kw : Int) - 1)).toNat := by
    intro d hd
    have := hrow ((sel w noise K idx d).map fun i => (i, valOf w noise K idx d i)) (by
      rw [wTildePreload_eq]
      exact List.mem_map.mpr ⟨d, by simpa using hd, rfl⟩)
    simpa using this
  rw [phase1_eq h w noise K idx
    (fun ip0 ip1 hf => w_tilde_curvature_value_from_tie h w noise K ip0 ip1 hnz hK hf) hfp h2 _ hrow']
  rw [phase2_eq w noise K idx trunc _ hcast0 hadd htrunc hrow']
  simp only [Impl.wTildePreloadFlat, Impl.PreloadFlat.ofRows, wTildePreload_eq, S1]
  refine Prod.ext ?_ (Prod.ext ?_ ?_)
  · simp [List.map_flatten, List.map_map, Function.comp_def]
  · simp [List.map_flatten, List.map_map, Function.comp_def]
  · simp [List.map_map, Function.comp_def]

end TieNormalEq
