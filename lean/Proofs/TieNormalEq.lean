/-
Proofs/TieNormalEq.lean — LOOP TIES for property C04 (normal equations), part 1: the functions of
`autoarray/inversion/inversion/inversion_util.py`.  The definitions that harness/translate2.py regenerates
from the current Python source (Generated/LoopsNormalEq.lean) are equal, for every input and every size, to
the hand-written `Model.Impl.*` functions of Model/NormalEq.lean that the theorems of Props/C04.lean are
about.  Only `*_tie` theorems live in this file (helpers: Proofs/TieCore.lean, Proofs/TieNormalEqAux.lean).
-/
import Generated.LoopsNormalEq
import Model.NormalEq
import Proofs.TieCore
import Proofs.TieNormalEqAux

open Model PyRt TieCore TieNormalEqAux

namespace TieNormalEq

/-- `inversion_util.curvature_matrix_with_added_to_diag_from` = `Impl.addToDiag` (indices inside the matrix) -/
theorem curvature_matrix_with_added_to_diag_from_tie {α : Type} [Add α] [OfNat α 0] [Inhabited α]
    (F : Mat α) (value : α) (noReg : List Nat) (h : ∀ i ∈ noReg, i < F.r ∧ i < F.c) :
    Generated.LoopsNormalEq.curvature_matrix_with_added_to_diag_from (ofMat F) value
        (noReg.map Int.ofNat)
      = ofMat (Impl.addToDiag F value noReg) := by
  unfold Generated.LoopsNormalEq.curvature_matrix_with_added_to_diag_from Impl.addToDiag
  simp only [forEach, List.foldl_map]
  refine (foldl_rel (fun (a : A2 α) (M : Mat α) => a = ofMat M ∧ M.r = F.r ∧ M.c = F.c) noReg _ _
    ⟨rfl, rfl, rfl⟩ ?_).1
  intro i hi a M ⟨ha, hr, hc⟩
  obtain ⟨h1, h2⟩ := h i hi
  subst ha
  exact ⟨ofMat_add M value (by omega) (by omega), by simp [hr], by simp [hc]⟩

/-- `inversion_util.curvature_matrix_mirrored_from` = `Impl.mirrored` (square matrix: the code reads
    `curvature_matrix[j, i]` for `i < shape[0]`, `j < shape[1]`) -/
theorem curvature_matrix_mirrored_from_tie {α : Type} [Add α] [OfNat α 0] [IntCast α] [DecidableEq α]
    [Inhabited α] (C : Mat α) (hsq : C.r = C.c) :
    Generated.LoopsNormalEq.curvature_matrix_mirrored_from (ofMat C) = ofMat (Impl.mirrored C) := by
  unfold Generated.LoopsNormalEq.curvature_matrix_mirrored_from Impl.mirrored
  rw [forYX_eq_foldl]
  simp only [A2.shape0_eq, A2.shape1_eq, ofMat_h, ofMat_w, forRange_yx, ofMat_zeros]
  refine (foldl_rel (fun (a : A2 α) (M : Mat α) => a = ofMat M ∧ M.r = C.r ∧ M.c = C.c)
    (pixels C.r C.c) _ _ (t := Mat.zeros C.r C.c) ⟨rfl, rfl, rfl⟩ ?_).1
  intro p hp a M ⟨ha, hr, hc⟩
  rw [mem_pixels] at hp
  obtain ⟨hi, hj⟩ := hp
  subst ha
  have hj' : p.2 < C.r := by omega
  have hi' : p.1 < C.c := by omega
  rw [ofMat_get C hi hj, ofMat_get C hj' hi']
  simp only [Impl.mirroredStep, bne_iff_ne, ne_eq, ite_not]
  by_cases h1 : C.get p.1 p.2 = 0 <;> by_cases h2 : C.get p.2 p.1 = 0 <;>
    simp only [h1, h2, if_true, if_false] <;>
    (try rw [ofMat_put M _ (by omega) (by omega)]) <;>
    (try rw [ofMat_put _ _ (by simp; omega) (by simp; omega)]) <;>
    (try rw [ofMat_put _ _ (by simp; omega) (by simp; omega)]) <;>
    (try rw [ofMat_put _ _ (by simp; omega) (by simp; omega)]) <;>
    simp [hr, hc]

/-- `inversion_util.mapped_reconstructed_data_via_mapping_matrix_from` = `Impl.mappedViaMatrix`
    (one column of the mapping matrix per reconstruction value) -/
theorem mapped_reconstructed_data_via_mapping_matrix_from_tie {α : Type} [Add α] [Mul α] [OfNat α 0]
    [Inhabited α] (B : Mat α) (recon : List α) (h : recon.length ≤ B.c) :
    Generated.LoopsNormalEq.mapped_reconstructed_data_via_mapping_matrix_from (ofMat B) recon
      = Vec.toList (Impl.mappedViaMatrix B recon) := by
  unfold Generated.LoopsNormalEq.mapped_reconstructed_data_via_mapping_matrix_from Impl.mappedViaMatrix
  simp only [A2.shape0_eq, ofMat_h, A1.len_eq, forRange_zero_nat, vec_zeros]
  apply foldl_rel (fun (a : A1 α) (v : Vec α) => a = Vec.toList v)
  · rfl
  · intro i hi a v hR
    apply foldl_rel (fun (a : A1 α) (v : Vec α) => a = Vec.toList v) _ _ _ hR
    intro j hj a v hR
    have hi' : i < B.r := by simpa using hi
    have hj' : j < recon.length := by simpa using hj
    rw [hR, get_A1 recon 0 hj', ofMat_get B hi' (by omega)]
    exact vec_add v i _

/-- `inversion_util.mapped_reconstructed_data_via_image_to_pix_unique_from` = `Impl.mappedViaUniqueP` on
    the stored table `(data_to_pix_unique, data_weights, pix_lengths)`: the three arrays have one row per
    data pixel, the used entries `k < pix_lengths[d]` lie inside the arrays and hold indices into the
    reconstruction. -/
theorem mapped_reconstructed_data_via_image_to_pix_unique_from_tie {α : Type} [Add α] [Mul α] [OfNat α 0]
    [Inhabited α] (idx : A2 Int) (val : A2 α) (len : A1 Int) (recon : List α)
    (hidx : idx.data.length = idx.h * idx.w) (hval : val.data.length = val.h * val.w)
    (hh : idx.h ≤ val.h) (hl : len.length = idx.h)
    (hk : ∀ d k : Nat, d < idx.h → k < (len.getD d 0).toNat →
      k < idx.w ∧ k < val.w ∧ 0 ≤ A2.get idx d k ∧ A2.get idx d k < recon.length) :
    Generated.LoopsNormalEq.mapped_reconstructed_data_via_image_to_pix_unique_from idx val len recon
      = Vec.toList (Impl.mappedViaUniqueP (paddedOf idx val len) recon) := by
  unfold Generated.LoopsNormalEq.mapped_reconstructed_data_via_image_to_pix_unique_from
    Impl.mappedViaUniqueP
  simp only [A2.shape0_eq, forRange_zero_nat, paddedOf, List.length_map, hl, vec_zeros]
  simp only [forRange_zero_toNat]
  apply foldl_rel (fun (a : A1 α) (v : Vec α) => a = Vec.toList v)
  · rfl
  · intro d hd a v hR
    have hd' : d < idx.h := by simpa using hd
    rw [len_toNat]
    apply foldl_rel (fun (a : A1 α) (v : Vec α) => a = Vec.toList v) _ _ _ hR
    intro k hk' a v hR
    have hk'' : k < (len.getD d 0).toNat := by
      have : k < (List.map Int.toNat len).getD d 0 := by simpa using hk'
      rw [← len_toNat, A1.get_natCast] at this
      have e : len.getD d default = len.getD d 0 := rfl
      rw [← e]; exact this
    obtain ⟨h1, h2, h3, h4⟩ := hk d k hd' hk''
    have hz : A2.get idx d k = ((A2.get idx d k).toNat : Int) := by omega
    have hlt : (A2.get idx d k).toNat < recon.length := by omega
    rw [hR, hz, get_A1 recon 0 hlt]
    simp only [Impl.Padded.entry, vget]
    rw [← get_rowsOf idx hidx (-1) hd' h1, ← get_rowsOf val hval 0 (by omega) h2]
    exact vec_add v d _

end TieNormalEq
