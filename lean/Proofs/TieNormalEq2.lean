/-
Proofs/TieNormalEq2.lean — LOOP TIES for property C04, second module: the jit functions of
`autoarray/inversion/inversion/imaging/inversion_imaging_util.py` that Proofs/TieNormalEq.lean leaves out.
The definitions that harness/translate2.py regenerates from the current Python source
(Generated/LoopsNormalEq2.lean) are equal, for every input and every size, to the hand-written `Model.Impl.*`
functions of Model/NormalEq.lean (`wTildeCurvatureValue`, `offDiagMapperFuncP`) and Model/NormalEqFuncList.lean
(`wTildeCurvatureDense`, `dataLinearFuncMatrixP`, `offDiagViaDataLinearFuncP`).
Only `*_tie` theorems live in this file; helpers: Proofs/TieCore.lean, Proofs/TieNormalEqAux.lean,
Proofs/TieNormalEqAux2.lean (`RowOK`), Proofs/TieNormalEq2Aux.lean (row arithmetic, the two nests of the dense
w-tilde).  See design_notes/TIES_C04b.md.
-/
import Generated.LoopsNormalEq2
import Model.NormalEq
import Model.NormalEqFuncList
import Proofs.TieCore
import Proofs.TieNormalEqAux
import Proofs.TieNormalEqAux2
import Proofs.TieNormalEq2Aux

open Model PyRt TieCore TieNormalEqAux TieNormalEq2Aux

namespace TieNormalEq2

/-- `w_tilde_curvature_value_from` (with the default `renormalize=False`) = `Impl.wTildeCurvatureValue`:
    the kernel footprint of the first pixel lies inside the native array (no index of
    `value_native[ip0_y + k0_y + shift_y, …]` is negative, where numpy would wrap around, or too large).
    (Same statement as `TieNormalEq.w_tilde_curvature_value_from_tie`, about this module's copy of the
    generated callee.) -/
theorem w_tilde_curvature_value_from_tie {α : Type} [Add α] [Mul α] [Div α] [OfNat α 0] [OfNat α 1]
    [IntCast α] [LT α] [DecidableLT α] [Inhabited α]
    (h w : Nat) (valueNative : List α) (K : Kernel α) (ip0 ip1 : Nat × Nat)
    (hv : valueNative.length = h * w) (hK : K.vals.length = K.kh * K.kw)
    (hfp : K.hy ≤ ip0.1 ∧ ip0.1 + K.kh ≤ h + K.hy ∧ K.hx ≤ ip0.2 ∧ ip0.2 + K.kw ≤ w + K.hx) :
    Generated.LoopsNormalEq2.w_tilde_curvature_value_from (ofNative h w valueNative) (ofKernel K)
        (ip0.1 : Int) (ip0.2 : Int) (ip1.1 : Int) (ip1.2 : Int) false
      = Impl.wTildeCurvatureValue w valueNative K ip0 ip1 := by
  obtain ⟨f1, f2, f3, f4⟩ := hfp
  unfold Generated.LoopsNormalEq2.w_tilde_curvature_value_from Impl.wTildeCurvatureValue
  generalize hkh : A2.shape0 (ofKernel K) = kh
  generalize hkw : A2.shape1 (ofKernel K) = kw
  have e1 : ((K.kh : Nat) : Int) = kh := hkh
  have e2 : ((K.kw : Nat) : Int) = kw := hkw
  subst e1 e2
  simp only [fdiv_two]
  rw [show K.kh / 2 = K.hy from rfl, show K.kw / 2 = K.hx from rfl]
  have hcond : (decide ((ip0.1 : Int) - ip1.1 < 2 * -(K.hy : Int)) || decide ((ip0.1 : Int) - ip1.1 > -2 * -(K.hy : Int))
        || decide ((ip0.2 : Int) - ip1.2 < 2 * -(K.hx : Int)) || decide ((ip0.2 : Int) - ip1.2 > -2 * -(K.hx : Int))) = true
      ↔ ((ip0.1 : Int) - ip1.1 < 2 * -(K.hy : Int) ∨ (ip0.1 : Int) - ip1.1 > -2 * -(K.hy : Int)
        ∨ (ip0.2 : Int) - ip1.2 < 2 * -(K.hx : Int) ∨ (ip0.2 : Int) - ip1.2 > -2 * -(K.hx : Int)) := by
    simp only [Bool.or_eq_true, decide_eq_true_eq, or_assoc]
  simp only [hcond]
  split
  · rfl
  · simp only [Bool.false_eq_true, if_false, forRange_yx]
    rw [forYX_eq_foldl]
    apply foldl_rel (fun (s : α × Int) (t : α) => s.1 = t)
    · rfl
    · intro p hp s t hst
      rw [mem_pixels] at hp
      obtain ⟨hp1, hp2⟩ := hp
      have ey : ((ip0.1 : Int) + (p.1 : Int)) + -(K.hy : Int) = ((ip0.1 + p.1 - K.hy : Nat) : Int) := by omega
      have ex : ((ip0.2 : Int) + (p.2 : Int)) + -(K.hx : Int) = ((ip0.2 + p.2 - K.hx : Nat) : Int) := by omega
      rw [ey, ex, get_ofNative h w valueNative hv 0 (by omega) (by omega),
        get_ofKernel K hK hp1 hp2]
      generalize hk1y : (p.1 : Int) + ((ip0.1 : Int) - ip1.1) = k1y
      generalize hk1x : (p.2 : Int) + ((ip0.2 : Int) - ip1.2) = k1x
      have hk1 : (decide (k1y ≥ 0) && decide (k1x ≥ 0) && decide (k1y < (K.kh : Int))
            && decide (k1x < (K.kw : Int))) = true
          ↔ (0 ≤ k1y ∧ 0 ≤ k1x ∧ k1y < (K.kh : Int) ∧ k1x < (K.kw : Int)) := by
        simp [and_assoc]
      simp only [vget, gt_iff_lt, decide_eq_true_eq, hk1]
      by_cases hpos : 0 < valueNative.getD ((ip0.1 + p.1 - K.hy) * w + (ip0.2 + p.2 - K.hx)) 0
      · by_cases hk : 0 ≤ k1y ∧ 0 ≤ k1x ∧ k1y < (K.kh : Int) ∧ k1x < (K.kw : Int)
        · simp only [hpos, hk, and_self, if_true]
          obtain ⟨k1, k2, k3, k4⟩ := hk
          have e1 : k1y = ((k1y.toNat : Nat) : Int) := by omega
          have e2 : k1x = ((k1x.toNat : Nat) : Int) := by omega
          rw [e1, e2, get_ofKernel K hK (by omega) (by omega), hst]
          simp only [PyRt.sq, Int.toNat_natCast]
        · simp only [hpos, hk, if_true, if_false]
          exact hst
      · simp only [hpos, if_false]
        exact hst

/-- `w_tilde_curvature_imaging_from` (the dense `[image_pixels, image_pixels]` w-tilde) =
    `Impl.wTildeCurvatureDense`: the noise map has the native shape and the kernel footprint of every listed
    pixel lies inside it (the hypotheses of the callee's tie, for every `ip0`). -/
theorem w_tilde_curvature_imaging_from_tie {α : Type} [Add α] [Mul α] [Div α] [OfNat α 0] [OfNat α 1]
    [IntCast α] [LT α] [DecidableLT α] [Inhabited α]
    (h w : Nat) (noise : List α) (K : Kernel α) (idx : List (Nat × Nat))
    (hnz : noise.length = h * w) (hK : K.vals.length = K.kh * K.kw)
    (hfp : ∀ c ∈ idx, K.hy ≤ c.1 ∧ c.1 + K.kh ≤ h + K.hy ∧ K.hx ≤ c.2 ∧ c.2 + K.kw ≤ w + K.hx) :
    Generated.LoopsNormalEq2.w_tilde_curvature_imaging_from (ofNative h w noise) (ofKernel K)
        (ofPairs (fun k => (k : Int)) idx)
      = ofMat (Impl.wTildeCurvatureDense w noise K idx) := by
  show denseMirror (denseFill
      (fun a b c d => Generated.LoopsNormalEq2.w_tilde_curvature_value_from (ofNative h w noise)
        (ofKernel K) a b c d false)
      (ofPairs (fun k => (k : Int)) idx)
      (A2.zeros (A2.shape0 (ofPairs (fun k => (k : Int)) idx))
        (A2.shape0 (ofPairs (fun k => (k : Int)) idx)))) = _
  simp only [A2.shape0_eq, ofPairs_h, ofMat_zeros]
  have hmem : ∀ i, i < idx.length → idx.getD i (0, 0) ∈ idx := by
    intro i hi
    simp [List.getD_eq_getElem?_getD, List.getElem?_eq_getElem hi]
  obtain ⟨e1, e2, e3⟩ := denseFill_eq
    (fun a b c d => Generated.LoopsNormalEq2.w_tilde_curvature_value_from (ofNative h w noise)
      (ofKernel K) a b c d false)
    idx (fun i j => Impl.wTildeCurvatureValue w noise K (idx.getD i (0, 0)) (idx.getD j (0, 0)))
    (fun i j hi _ => w_tilde_curvature_value_from_tie h w noise K _ _ hnz hK (hfp _ (hmem i hi)))
    (Mat.zeros idx.length idx.length) rfl rfl
  rw [e1, denseMirror_eq idx.length _ e2 e3]
  rfl

/-- `data_linear_func_matrix_from` = `Impl.dataLinearFuncMatrixP` on the convolver's frame arrays as stored
    (`image_frame_1d_indexes / kernels / lengths`): for every data pixel `d` (row of the curvature weights)
    the used entries `k < image_frame_1d_lengths[d]` lie inside both arrays and hold data-pixel indices
    `0 ≤ · < data_pixels`. -/
theorem data_linear_func_matrix_from_tie {α : Type} [Add α] [Mul α] [OfNat α 0] [Inhabited α]
    (cw : Mat α) (flen : A1 Int) (fidx : A2 Int) (fker : A2 α)
    (hidx : fidx.data.length = fidx.h * fidx.w) (hker : fker.data.length = fker.h * fker.w)
    (hk : ∀ d : Nat, d < cw.r → RowOK fidx fker flen cw.r d) :
    Generated.LoopsNormalEq2.data_linear_func_matrix_from (ofMat cw) flen fidx fker
      = ofMat (Impl.dataLinearFuncMatrixP cw (paddedOf fidx fker flen)) := by
  unfold Generated.LoopsNormalEq2.data_linear_func_matrix_from Impl.dataLinearFuncMatrixP
  simp only [A2.shape0_eq, A2.shape1_eq, ofMat_h, ofMat_w, forRange_zero_nat, paddedOf, ofMat_zeros]
  simp only [forRange_zero_toNat, len_toNat]
  have key : ∀ (P S T : Prop), (P ∧ S ∧ T) → P := fun _ _ _ h => h.1
  refine key _ _ _ (foldl_rel (fun (a : A2 α) (D : Mat α) => a = ofMat D ∧ D.r = cw.r ∧ D.c = cw.c)
    _ _ _ ⟨rfl, rfl, rfl⟩ ?_)
  intro d hd a D hR
  have hd' : d < cw.r := by simpa using hd
  refine foldl_rel (fun (a : A2 α) (D : Mat α) => a = ofMat D ∧ D.r = cw.r ∧ D.c = cw.c) _ _ _ hR ?_
  intro k hk' a D hR
  obtain ⟨h1, h2, h3, h4, h5, h6⟩ := hk d hd' k (mem_range_len flen d k hk')
  have hz : A2.get fidx d k = ((A2.get fidx d k).toNat : Int) := by omega
  simp only [Impl.Padded.entry]
  rw [← get_rowsOf fidx hidx (-1) h1 h3, ← get_rowsOf fker hker 0 h2 h4]
  refine foldl_rel (fun (a : A2 α) (D : Mat α) => a = ofMat D ∧ D.r = cw.r ∧ D.c = cw.c) _ _ _ hR ?_
  intro l hl a D ⟨ha, hr, hc⟩
  have hl' : l < cw.c := by simpa using hl
  subst ha
  refine ⟨?_, by simp [hr], by simp [hc]⟩
  rw [hz]
  simp only [Int.toNat_natCast]
  rw [ofMat_get cw (i := (A2.get fidx d k).toNat) (by omega) hl']
  exact ofMat_add D _ (by omega) (by omega)

/-- `curvature_matrix_off_diags_via_data_linear_func_matrix_from` = `Impl.offDiagViaDataLinearFuncP` on the
    stored unique mappings: one `pix_lengths` value per row of `data_weights`, every used entry in range
    with a pixelization index `0 ≤ · < pix_pixels`, and a row of `data_linear_func_matrix` for every data
    pixel that maps anywhere. -/
theorem curvature_matrix_off_diags_via_data_linear_func_matrix_from_tie {α : Type} [Add α] [Mul α]
    [OfNat α 0] [Inhabited α]
    (D : Mat α) (idx : A2 Int) (val : A2 α) (len : A1 Int) (pix : Nat)
    (hidx : idx.data.length = idx.h * idx.w) (hval : val.data.length = val.h * val.w)
    (hl : len.length = val.h)
    (hk : ∀ d : Nat, d < val.h → RowOK idx val len pix d)
    (hD : ∀ d : Nat, d < val.h → 0 < len.getD d 0 → d < D.r) :
    Generated.LoopsNormalEq2.curvature_matrix_off_diags_via_data_linear_func_matrix_from
        (ofMat D) idx val len (pix : Int)
      = ofMat (Impl.offDiagViaDataLinearFuncP D (paddedOf idx val len) pix) := by
  unfold Generated.LoopsNormalEq2.curvature_matrix_off_diags_via_data_linear_func_matrix_from
    Impl.offDiagViaDataLinearFuncP
  simp only [A2.shape0_eq, A2.shape1_eq, ofMat_w, forRange_zero_nat, paddedOf, ofMat_zeros,
    List.length_map, hl]
  simp only [forRange_zero_toNat, len_toNat]
  have key : ∀ (P S T : Prop), (P ∧ S ∧ T) → P := fun _ _ _ h => h.1
  refine key _ _ _ (foldl_rel (fun (a : A2 α) (F : Mat α) => a = ofMat F ∧ F.r = pix ∧ F.c = D.c)
    _ _ _ ⟨rfl, rfl, rfl⟩ ?_)
  intro d hd a F hR
  have hd' : d < val.h := by simpa using hd
  refine foldl_rel (fun (a : A2 α) (F : Mat α) => a = ofMat F ∧ F.r = pix ∧ F.c = D.c) _ _ _ hR ?_
  intro k hk' a F hR
  have hkl := mem_range_len len d k hk'
  obtain ⟨h1, h2, h3, h4, h5, h6⟩ := hk d hd' k hkl
  have hdD : d < D.r := hD d hd' (by omega)
  have hz : A2.get idx d k = ((A2.get idx d k).toNat : Int) := by omega
  simp only [Impl.Padded.entry]
  rw [← get_rowsOf idx hidx (-1) h1 h3, ← get_rowsOf val hval 0 h2 h4]
  refine foldl_rel (fun (a : A2 α) (F : Mat α) => a = ofMat F ∧ F.r = pix ∧ F.c = D.c) _ _ _ hR ?_
  intro l hl' a F ⟨ha, hr, hc⟩
  have hl'' : l < D.c := by simpa using hl'
  subst ha
  refine ⟨?_, by simp [hr], by simp [hc]⟩
  rw [hz, ofMat_get D hdD hl'']
  exact ofMat_add F _ (by omega) (by omega)

/-- `curvature_matrix_off_diags_via_mapper_and_linear_func_curvature_vector_from` =
    `Impl.offDiagMapperFuncP` on the stored unique mappings and the convolver's frames read through their
    length column (`Padded.toRows` of `image_frame_1d_indexes / kernels / lengths`).  The row arithmetic
    `off_diag[pix_0, :] += data_0_weight * curvature_weights[data_index, :] * kernel_value` is the model's
    loop over the columns (`rowAdd_eq`).  Hypotheses: one `pix_lengths` value per row of `data_weights`,
    used unique-mapping entries in range with `0 ≤ pix_0 < pix_pixels`; for every data pixel that maps
    anywhere the used frame entries are in range and hold a row index of `curvature_weights`. -/
theorem curvature_matrix_off_diags_via_mapper_and_linear_func_curvature_vector_from_tie {α : Type}
    [Add α] [Mul α] [OfNat α 0] [Inhabited α]
    (idx : A2 Int) (val : A2 α) (len : A1 Int) (pix : Nat) (cw : Mat α)
    (flen : A1 Int) (fidx : A2 Int) (fker : A2 α)
    (hidx : idx.data.length = idx.h * idx.w) (hval : val.data.length = val.h * val.w)
    (hfidx : fidx.data.length = fidx.h * fidx.w) (hfker : fker.data.length = fker.h * fker.w)
    (hl : len.length = val.h)
    (hk : ∀ d : Nat, d < val.h → RowOK idx val len pix d)
    (hf : ∀ d : Nat, d < val.h → 0 < len.getD d 0 → RowOK fidx fker flen cw.r d) :
    Generated.LoopsNormalEq2.curvature_matrix_off_diags_via_mapper_and_linear_func_curvature_vector_from
        idx val len (pix : Int) (ofMat cw) flen fidx fker
      = ofMat (Impl.offDiagMapperFuncP (paddedOf idx val len) pix cw
          (Impl.Padded.toRows (paddedOf fidx fker flen))) := by
  unfold Generated.LoopsNormalEq2.curvature_matrix_off_diags_via_mapper_and_linear_func_curvature_vector_from
    Impl.offDiagMapperFuncP
  simp only [toRows_getD, List.foldl_map]
  simp only [A2.shape0_eq, A2.shape1_eq, ofMat_w, forRange_zero_nat, paddedOf, ofMat_zeros,
    List.length_map, hl]
  simp only [forRange_zero_toNat, len_toNat]
  have key : ∀ (P S T : Prop), (P ∧ S ∧ T) → P := fun _ _ _ h => h.1
  refine key _ _ _ (foldl_rel (fun (a : A2 α) (F : Mat α) => a = ofMat F ∧ F.r = pix ∧ F.c = cw.c)
    _ _ _ ⟨rfl, rfl, rfl⟩ ?_)
  intro d hd a F hR
  have hd' : d < val.h := by simpa using hd
  refine foldl_rel (fun (a : A2 α) (F : Mat α) => a = ofMat F ∧ F.r = pix ∧ F.c = cw.c) _ _ _ hR ?_
  intro k hk' a F hR
  have hkl := mem_range_len len d k hk'
  obtain ⟨h1, h2, h3, h4, h5, h6⟩ := hk d hd' k hkl
  have hfd := hf d hd' (by omega)
  have hz : A2.get idx d k = ((A2.get idx d k).toNat : Int) := by omega
  simp only [Impl.Padded.entry]
  rw [← get_rowsOf idx hidx (-1) h1 h3, ← get_rowsOf val hval 0 h2 h4]
  refine foldl_rel (fun (a : A2 α) (F : Mat α) => a = ofMat F ∧ F.r = pix ∧ F.c = cw.c) _ _ _ hR ?_
  intro j hj a F ⟨ha, hr, hc⟩
  obtain ⟨g1, g2, g3, g4, g5, g6⟩ := hfd j (mem_range_len flen d j hj)
  have hzf : A2.get fidx d j = ((A2.get fidx d j).toNat : Int) := by omega
  rw [← get_rowsOf fidx hfidx (-1) g1 g3, ← get_rowsOf fker hfker 0 g2 g4]
  subst ha
  have hp : (A2.get idx d k).toNat < F.r := by omega
  have ht : (A2.get fidx d j).toNat < cw.r := by omega
  obtain ⟨_, a2, a3⟩ := addRow_ofMat F hp cw.c (by omega)
    (fun l => A2.get val d k * cw.get (A2.get fidx d j).toNat l * A2.get fker d j)
  refine ⟨?_, by rw [a2]; exact hr, by rw [a3]; exact hc⟩
  rw [hz, hzf]
  simp only [Int.toNat_natCast]
  exact rowAdd_eq F cw hc hp ht _ _

end TieNormalEq2
