/-
Proofs/TieNormalEq2.lean — LOOP TIES for property C04, part 2: the data-vector functions and the w-tilde
curvature CONSUMERS of `autoarray/inversion/inversion/imaging/inversion_imaging_util.py`, tied to the
`Impl.*` / `Impl.*P` functions of Model/NormalEq.lean (the `…P` functions are the consumers' loops over the
tables as the code stores them; Props/C04 `f_consumers_over_stored_tables` relates them to the ragged rows).
Only `*_tie` theorems live in this file (helpers: Proofs/TieNormalEqAux.lean, Proofs/TieNormalEqAux2.lean).
-/
import Generated.LoopsNormalEq
import Model.NormalEq
import Proofs.TieCore
import Proofs.TieNormalEqAux
import Proofs.TieNormalEqAux2
import Proofs.TieNormalEq

open Model PyRt TieCore TieNormalEqAux

namespace TieNormalEq

/-- `data_vector_via_blurred_mapping_matrix_from` = `Impl.dataVectorMapping` (one image / noise value per
    row of the blurred mapping matrix) -/
theorem data_vector_via_blurred_mapping_matrix_from_tie {α : Type} [Add α] [Mul α] [Div α] [OfNat α 0]
    [Inhabited α] (B : Mat α) (image noise : List α) (hi : B.r ≤ image.length) (hn : B.r ≤ noise.length) :
    Generated.LoopsNormalEq.data_vector_via_blurred_mapping_matrix_from (ofMat B) image noise
      = Vec.toList (Impl.dataVectorMapping B image noise) := by
  unfold Generated.LoopsNormalEq.data_vector_via_blurred_mapping_matrix_from Impl.dataVectorMapping
  simp only [A2.shape0_eq, A2.shape1_eq, ofMat_h, ofMat_w, forRange_zero_nat, vec_zeros, PyRt.sq]
  apply foldl_rel (fun (a : A1 α) (v : Vec α) => a = Vec.toList v)
  · rfl
  · intro d hd a v hR
    apply foldl_rel (fun (a : A1 α) (v : Vec α) => a = Vec.toList v) _ _ _ hR
    intro p hp a v hR
    have hd' : d < B.r := by simpa using hd
    have hp' : p < B.c := by simpa using hp
    rw [hR, get_A1 image 0 (by omega), get_A1 noise 0 (by omega), ofMat_get B hd' hp']
    exact vec_add v p _

/-- `data_vector_via_w_tilde_data_imaging_from` = `Impl.dataVectorWTildeP` on the stored unique-mapping
    table: for every data pixel `d` the used entries `k < pix_lengths[d]` lie inside the arrays and the
    pixelization indices are non-negative (a negative index would wrap around in numpy). -/
theorem data_vector_via_w_tilde_data_imaging_from_tie {α : Type} [Add α] [Mul α] [OfNat α 0] [Inhabited α]
    (wtd : List α) (idx : A2 Int) (val : A2 α) (len : A1 Int) (pix : Nat)
    (hidx : idx.data.length = idx.h * idx.w) (hval : val.data.length = val.h * val.w)
    (hk : ∀ d : Nat, d < wtd.length → RowOK idx val len pix d) :
    Generated.LoopsNormalEq.data_vector_via_w_tilde_data_imaging_from wtd idx val len (pix : Int)
      = Vec.toList (Impl.dataVectorWTildeP wtd (paddedOf idx val len) pix) := by
  unfold Generated.LoopsNormalEq.data_vector_via_w_tilde_data_imaging_from Impl.dataVectorWTildeP
  simp only [A1.len_eq, forRange_zero_nat, paddedOf, vec_zeros]
  simp only [forRange_zero_toNat, len_toNat]
  apply foldl_rel (fun (a : A1 α) (v : Vec α) => a = Vec.toList v)
  · rfl
  · intro d hd a v hR
    have hd' : d < wtd.length := by simpa using hd
    apply foldl_rel (fun (a : A1 α) (v : Vec α) => a = Vec.toList v) _ _ _ hR
    intro k hk' a v hR
    have hk'' : k < (len.getD d 0).toNat := by
      have : k < (List.map Int.toNat len).getD d 0 := by simpa using hk'
      rw [← len_toNat, A1.get_natCast] at this
      exact this
    obtain ⟨h1, h2, h3, h4, h5, h6⟩ := hk d hd' k hk''
    have hz : A2.get idx d k = ((A2.get idx d k).toNat : Int) := by omega
    simp only [Impl.Padded.entry, vget]
    rw [← get_rowsOf idx hidx (-1) h1 h3, ← get_rowsOf val hval 0 h2 h4, hR, hz, get_A1 wtd 0 hd']
    exact vec_add v _ _

/-- `curvature_matrix_off_diags_via_w_tilde_curvature_preload_imaging_from` = `Impl.offDiagPreloadP` on the
    stored tables: every position `c` the running `curvature_index` visits lies inside
    `curvature_indexes` / `curvature_preload` and names a data pixel whose row of the second table is in
    range; every data pixel with a non-empty preload row has its row of the first table in range. -/
theorem curvature_matrix_off_diags_via_w_tilde_curvature_preload_imaging_from_tie {α : Type} [Add α]
    [Mul α] [OfNat α 0] [Inhabited α] (pre : A1 α) (ind clen : A1 Int)
    (idx0 : A2 Int) (val0 : A2 α) (len0 : A1 Int) (pix0 : Nat)
    (idx1 : A2 Int) (val1 : A2 α) (len1 : A1 Int) (pix1 : Nat)
    (hi0 : idx0.data.length = idx0.h * idx0.w) (hv0 : val0.data.length = val0.h * val0.w)
    (hi1 : idx1.data.length = idx1.h * idx1.w) (hv1 : val1.data.length = val1.h * val1.w)
    (hc : ∀ c : Nat, c < totalPairs clen → c < ind.length ∧ c < pre.length ∧ 0 ≤ ind.getD c 0 ∧
      RowOK idx1 val1 len1 pix1 (ind.getD c 0).toNat)
    (h0 : ∀ d : Nat, d < clen.length → 0 < clen.getD d 0 → RowOK idx0 val0 len0 pix0 d) :
    Generated.LoopsNormalEq.curvature_matrix_off_diags_via_w_tilde_curvature_preload_imaging_from
        pre ind clen idx0 val0 len0 (pix0 : Int) idx1 val1 len1 (pix1 : Int)
      = ofMat (Impl.offDiagPreloadP (flatOf pre ind clen) (paddedOf idx0 val0 len0) pix0
          (paddedOf idx1 val1 len1) pix1) := by
  unfold Generated.LoopsNormalEq.curvature_matrix_off_diags_via_w_tilde_curvature_preload_imaging_from
  exact offLoop_eq pre ind clen idx0 val0 len0 pix0 idx1 val1 len1 pix1 hi0 hv0 hi1 hv1 hc h0

/-- `curvature_matrix_via_w_tilde_curvature_preload_imaging_from` = `Impl.curvatureFromPreloadP` on the
    stored tables (the quadruple loop with the running `curvature_index`, then `F[i,j] += F[j,i]`, then the
    mirror), same well-formedness as the off-diagonal version with both tables equal. -/
theorem curvature_matrix_via_w_tilde_curvature_preload_imaging_from_tie {α : Type} [Add α] [Mul α]
    [OfNat α 0] [Inhabited α] (pre : A1 α) (ind clen : A1 Int)
    (idx : A2 Int) (val : A2 α) (len : A1 Int) (pix : Nat)
    (hi : idx.data.length = idx.h * idx.w) (hv : val.data.length = val.h * val.w)
    (hc : ∀ c : Nat, c < totalPairs clen → c < ind.length ∧ c < pre.length ∧ 0 ≤ ind.getD c 0 ∧
      RowOK idx val len pix (ind.getD c 0).toNat)
    (h0 : ∀ d : Nat, d < clen.length → 0 < clen.getD d 0 → RowOK idx val len pix d) :
    Generated.LoopsNormalEq.curvature_matrix_via_w_tilde_curvature_preload_imaging_from
        pre ind clen idx val len (pix : Int)
      = ofMat (Impl.curvatureFromPreloadP (flatOf pre ind clen) (paddedOf idx val len) pix) := by
  unfold Impl.curvatureFromPreloadP
  show symLoop (offLoop pre ind clen idx val len pix idx val len pix).1 (pix : Int) = _
  rw [offLoop_eq pre ind clen idx val len pix idx val len pix hi hv hi hv hc h0]
  exact sym_loops _ pix (offDiagPreloadP_dims _ _ _ _ _).1 (offDiagPreloadP_dims _ _ _ _ _).2

end TieNormalEq
