/-
Proofs/TieNormalEq2Aux.lean — helper lemmas for the loop ties of Proofs/TieNormalEq2.lean (property C04, the
jit functions of `inversion_imaging_util.py` not covered by Proofs/TieNormalEq.lean):
  * a stored table read through its length column (`Padded.toRows`) — core-Lean copy of
    `Model.Padded.toRows_getD` (Proofs/NormalEqPadded.lean sits behind Mathlib);
  * the row arithmetic `off_diag[p, :] += w * cw[t, :] * k` (translate2: `A2.setRow … (A1.zipWith (+) (A2.row …) …)`)
    = the model's loop `for l in range(cw.c): F[p, l] += w * cw[t, l] * k`;
  * the two loop nests of `w_tilde_curvature_imaging_from` (`denseFill`, `denseMirror`: verbatim copies of what
    translate2 emits, with the callee abstracted as `val`; the tie checks `Generated.… = denseMirror (denseFill …)`
    by `rfl`, so an edit of the Python breaks that line).
Core Lean only.
-/
import Model.NormalEqFuncList
import Proofs.TieNormalEqAux2

open Model PyRt TieCore TieNormalEqAux

set_option linter.unusedSectionVars false
set_option linter.unusedVariables false

namespace TieNormalEq2Aux

variable {α : Type}

/-! ### stored tables -/

/-- row `d` of a stored table read through its length column (`[]` beyond the table on both sides) -/
theorem toRows_getD [OfNat α 0] (p : Impl.Padded α) (d : Nat) :
    (Impl.Padded.toRows p).getD d []
      = (List.range (p.len.getD d 0)).map fun k => Impl.Padded.entry p d k := by
  unfold Impl.Padded.toRows
  by_cases hd : d < p.len.length
  · simp [List.getD_eq_getElem?_getD, hd]
  · have h2 : p.len.getD d 0 = 0 := by
      simp [List.getD_eq_getElem?_getD, List.getElem?_eq_none (by omega : p.len.length ≤ d)]
    rw [h2]
    simp [List.getD_eq_getElem?_getD, hd]

/-- a used entry index of a stored table, as a loop bound of the generated code -/
theorem mem_range_len (len : A1 Int) (d k : Nat)
    (hk : k ∈ List.range ((List.map Int.toNat len).getD d 0)) : k < (len.getD d 0).toNat := by
  have : k < (List.map Int.toNat len).getD d 0 := by simpa using hk
  rw [← len_toNat, A1.get_natCast] at this
  exact this

/-! ### row arithmetic -/

/-- `for l in range(n): d[off + l] += g l` on a flat list -/
theorem rowLoop_list (d : List α) (off n : Nat) (g : Nat → α) (z : α) [Add α] (h : off + n ≤ d.length) :
    (List.range n).foldl (fun d l => d.set (off + l) (d.getD (off + l) z + g l)) d
      = d.take off ++ (List.range n).map (fun l => d.getD (off + l) z + g l) ++ d.drop (off + n) := by
  induction n with
  | zero => simp
  | succ n ih =>
    rw [List.range_succ, List.foldl_append, ih (by omega)]
    simp only [List.foldl_cons, List.foldl_nil, List.map_append, List.map_cons, List.map_nil]
    have hlt : off + n < d.length := by omega
    have hd : d.drop (off + n) = d.getD (off + n) z :: d.drop (off + n + 1) := by
      rw [List.drop_eq_getElem_cons hlt]
      simp [List.getD_eq_getElem?_getD, hlt]
    have hA : (d.take off ++ (List.range n).map (fun l => d.getD (off + l) z + g l)).length = off + n := by
      simp; omega
    have key : ∀ (A R : List α) (x y : α), A.length = off + n →
        (A ++ x :: R).set (off + n) ((A ++ x :: R).getD (off + n) z + y) = A ++ (x + y) :: R := by
      intro A R x y hA
      rw [← hA]
      simp [List.getD_eq_getElem?_getD]
    rw [hd, key _ _ _ _ hA]
    simp [Nat.add_assoc]

section Arr
variable [Add α] [Mul α] [OfNat α 0] [Inhabited α]

/-- `for l in range(a.w): a[p, l] += g l` = `a[p, :] = a[p, :] + [g 0, …]` -/
theorem rowLoop_A2 (a : A2 α) (ha : a.data.length = a.h * a.w) {p : Nat} (hp : p < a.h) (g : Nat → α) :
    (List.range a.w).foldl
        (fun (a : A2 α) (l : Nat) => A2.set a (p : Int) (l : Int) (A2.get a (p : Int) (l : Int) + g l)) a
      = A2.setRow a (p : Int)
          (A1.zipWith (fun u v => u + v) (A2.row a (p : Int)) ((List.range a.w).map g)) := by
  have hle : p * a.w + a.w ≤ a.data.length := by
    rw [ha]
    calc p * a.w + a.w = (p + 1) * a.w := by rw [Nat.succ_mul]
      _ ≤ a.h * a.w := Nat.mul_le_mul_right _ hp
  -- the loop on the flat data
  have h1 : (List.range a.w).foldl
        (fun (a : A2 α) (l : Nat) => A2.set a (p : Int) (l : Int) (A2.get a (p : Int) (l : Int) + g l)) a
      = { h := a.h, w := a.w,
          data := (List.range a.w).foldl
            (fun d l => d.set (p * a.w + l) (d.getD (p * a.w + l) default + g l)) a.data } := by
    refine foldl_rel (fun (s : A2 α) (t : List α) => s = { h := a.h, w := a.w, data := t })
      (List.range a.w) _ _ (s := a) (t := a.data) rfl ?_
    intro l hl s t hst
    have hl' : l < a.w := by simpa using hl
    subst hst
    rw [A2.get_natCast { h := a.h, w := a.w, data := t } p l hp hl',
      A2.set_natCast { h := a.h, w := a.w, data := t } p l _ hp hl']
  rw [h1, rowLoop_list a.data (p * a.w) a.w g default hle]
  have hz : (A1.zipWith (fun u v => u + v) (A2.row a (p : Int)) ((List.range a.w).map g))
      = (List.range a.w).map (fun l => a.data.getD (p * a.w + l) default + g l) := by
    rw [A2.row_natCast a p hp]
    apply List.ext_getElem
    · simp [A1.zipWith]; omega
    · intro i h1 h2
      have hi : i < a.w := by simpa using h2
      have hlt : p * a.w + i < a.data.length := by omega
      simp [A1.zipWith, List.getD_eq_getElem?_getD, hlt]
  rw [hz]
  simp [A2.setRow, hp]

/-- row `t` of a model matrix, scaled: `w * cw[t, :] * k` -/
theorem row_scaled (cw : Mat α) {t : Nat} (ht : t < cw.r) (w k : α) :
    A1.map (fun u => u * k) (A1.map (fun u => w * u) (A2.row (ofMat cw) (t : Int)))
      = (List.range cw.c).map (fun l => w * cw.get t l * k) := by
  rw [A2.row_natCast _ t (by simpa using ht)]
  have hle : t * cw.c + cw.c ≤ cw.data.toList.length := by
    rw [Array.length_toList, cw.h]
    calc t * cw.c + cw.c = (t + 1) * cw.c := by rw [Nat.succ_mul]
      _ ≤ cw.r * cw.c := Nat.mul_le_mul_right _ ht
  have hle' : t * cw.c + cw.c ≤ cw.data.size := by simpa using hle
  apply List.ext_getElem
  · simp [A1.map, ofMat]; omega
  · intro i h1 h2
    have hi : i < cw.c := by simpa using h2
    have hlt : t * cw.c + i < cw.data.toList.length := by omega
    have hlt' : t * cw.c + i < cw.data.size := by omega
    simp [A1.map, ofMat, Mat.get, ht, hi, Array.getD_eq_getD_getElem?, hlt']

/-- the model's `for l: F[p, l] += g l` on the embedded matrix -/
theorem addRow_ofMat (F : Mat α) {p : Nat} (hp : p < F.r) (n : Nat) (hn : n ≤ F.c) (g : Nat → α) :
    (List.range n).foldl
        (fun (a : A2 α) (l : Nat) => A2.set a (p : Int) (l : Int) (A2.get a (p : Int) (l : Int) + g l))
        (ofMat F)
      = ofMat ((List.range n).foldl (fun F l => F.add p l (g l)) F) ∧
    ((List.range n).foldl (fun F l => F.add p l (g l)) F).r = F.r ∧
    ((List.range n).foldl (fun F l => F.add p l (g l)) F).c = F.c := by
  refine foldl_rel (fun (a : A2 α) (M : Mat α) => a = ofMat M ∧ M.r = F.r ∧ M.c = F.c)
    (List.range n) _ _ ⟨rfl, rfl, rfl⟩ ?_
  intro l hl a M ⟨ha, hr, hc⟩
  have hl' : l < n := by simpa using hl
  subst ha
  exact ⟨ofMat_add M _ (by omega) (by omega), by simp [hr], by simp [hc]⟩

/-- `off_diag[p, :] += w * cw[t, :] * k` as translate2 emits it = the model's loop over the columns -/
theorem rowAdd_eq (F cw : Mat α) (hc : F.c = cw.c) {p t : Nat} (hp : p < F.r) (ht : t < cw.r) (w k : α) :
    A2.setRow (ofMat F) (p : Int)
        (A1.zipWith (fun u v => u + v) (A2.row (ofMat F) (p : Int))
          (A1.map (fun u => u * k) (A1.map (fun u => w * u) (A2.row (ofMat cw) (t : Int)))))
      = ofMat ((List.range cw.c).foldl (fun F l => F.add p l (w * cw.get t l * k)) F) := by
  rw [row_scaled cw ht w k, ← hc]
  have hdata : (ofMat F).data.length = (ofMat F).h * (ofMat F).w := by
    simp [ofMat, F.h]
  have := rowLoop_A2 (ofMat F) hdata (p := p) (by simpa using hp) (fun l => w * cw.get t l * k)
  rw [ofMat_w] at this
  rw [← this]
  exact (addRow_ofMat F hp F.c (Nat.le_refl _) _).1

end Arr

/-! ### the two loop nests of `w_tilde_curvature_imaging_from` -/

section Dense
variable [Add α] [Mul α] [Div α] [OfNat α 0] [OfNat α 1] [LT α] [DecidableLT α] [Inhabited α]

/-- first nest (`w_tilde_curvature[ip0, ip1] += value(ip0, ip1)` for `ip1 ≥ ip0`), as translate2 emits it;
    `val` is the callee `w_tilde_curvature_value_from(noise_map_native, kernel_native, ·, ·, ·, ·)` -/
def denseFill (val : Int → Int → Int → Int → α) (native_index_for_slim_index : A2 Int)
    (w_tilde_curvature : A2 α) : A2 α :=
  PyRt.forRange 0 (PyRt.A2.shape0 w_tilde_curvature) w_tilde_curvature (fun ip0 w_tilde_curvature =>
    let ip0_y : Int := PyRt.A2.get native_index_for_slim_index ip0 0
    let ip0_x : Int := PyRt.A2.get native_index_for_slim_index ip0 1
    PyRt.forRange ip0 (PyRt.A2.shape1 w_tilde_curvature) w_tilde_curvature (fun ip1 w_tilde_curvature =>
      let ip1_y : Int := PyRt.A2.get native_index_for_slim_index ip1 0
      let ip1_x : Int := PyRt.A2.get native_index_for_slim_index ip1 1
      PyRt.A2.set w_tilde_curvature ip0 ip1 ((PyRt.A2.get w_tilde_curvature ip0 ip1) + (val ip0_y ip0_x ip1_y ip1_x))))

/-- second nest (`w_tilde_curvature[ip1, ip0] = w_tilde_curvature[ip0, ip1]` for `ip1 ≥ ip0`) -/
def denseMirror (w_tilde_curvature : A2 α) : A2 α :=
  PyRt.forRange 0 (PyRt.A2.shape0 w_tilde_curvature) w_tilde_curvature (fun ip0 w_tilde_curvature =>
    PyRt.forRange ip0 (PyRt.A2.shape1 w_tilde_curvature) w_tilde_curvature (fun ip1 w_tilde_curvature =>
      PyRt.A2.set w_tilde_curvature ip1 ip0 (PyRt.A2.get w_tilde_curvature ip0 ip1)))

theorem denseFill_eq (val : Int → Int → Int → Int → α) (idx : List (Nat × Nat)) (v : Nat → Nat → α)
    (hval : ∀ i j, i < idx.length → j < idx.length →
      val ((idx.getD i (0, 0)).1 : Int) ((idx.getD i (0, 0)).2 : Int)
          ((idx.getD j (0, 0)).1 : Int) ((idx.getD j (0, 0)).2 : Int) = v i j)
    (M : Mat α) (hr : M.r = idx.length) (hc : M.c = idx.length) :
    denseFill val (ofPairs (fun k => (k : Int)) idx) (ofMat M)
      = ofMat ((List.range idx.length).foldl
          (fun W ip0 => (List.range' ip0 (idx.length - ip0)).foldl (fun W ip1 => W.add ip0 ip1 (v ip0 ip1)) W)
          M) ∧
    ((List.range idx.length).foldl
          (fun W ip0 => (List.range' ip0 (idx.length - ip0)).foldl (fun W ip1 => W.add ip0 ip1 (v ip0 ip1)) W)
          M).r = idx.length ∧
    ((List.range idx.length).foldl
          (fun W ip0 => (List.range' ip0 (idx.length - ip0)).foldl (fun W ip1 => W.add ip0 ip1 (v ip0 ip1)) W)
          M).c = idx.length := by
  unfold denseFill
  simp only [A2.shape0_eq, ofMat_h, hr, forRange_zero_nat]
  refine foldl_rel
    (fun (a : A2 α) (W : Mat α) => a = ofMat W ∧ W.r = idx.length ∧ W.c = idx.length) _ _ _
    ⟨rfl, hr, hc⟩ ?_
  intro i hi a W ⟨ha, hWr, hWc⟩
  have hi' : i < idx.length := by simpa using hi
  subst ha
  simp only [A2.shape1_eq, ofMat_w, hWc, forRange_range']
  refine foldl_rel
    (fun (a : A2 α) (W : Mat α) => a = ofMat W ∧ W.r = idx.length ∧ W.c = idx.length) _ _ _
    ⟨rfl, hWr, hWc⟩ ?_
  intro j hj a W ⟨ha, hWr, hWc⟩
  have hj' : j < idx.length := by
    rw [List.mem_range'_1] at hj; omega
  subst ha
  obtain ⟨gi0, gi1⟩ := get_ofPairs_getD idx hi'
  obtain ⟨gj0, gj1⟩ := get_ofPairs_getD idx hj'
  rw [gi0, gi1, gj0, gj1, hval i j hi' hj']
  exact ⟨ofMat_add W _ (by omega) (by omega), by simp [hWr], by simp [hWc]⟩

theorem denseMirror_eq (n : Nat) (M : Mat α) (hr : M.r = n) (hc : M.c = n) :
    denseMirror (ofMat M)
      = ofMat ((List.range n).foldl
          (fun W ip0 => (List.range' ip0 (n - ip0)).foldl (fun W ip1 => W.put ip1 ip0 (W.get ip0 ip1)) W)
          M) := by
  unfold denseMirror
  simp only [A2.shape0_eq, ofMat_h, hr, forRange_zero_nat]
  have key : ∀ (P S T : Prop), (P ∧ S ∧ T) → P := fun _ _ _ h => h.1
  refine key _ _ _ (foldl_rel (fun (a : A2 α) (W : Mat α) => a = ofMat W ∧ W.r = n ∧ W.c = n) _ _ _
    ⟨rfl, hr, hc⟩ ?_)
  intro i hi a W ⟨ha, hWr, hWc⟩
  have hi' : i < n := by simpa using hi
  subst ha
  simp only [A2.shape1_eq, ofMat_w, hWc, forRange_range']
  refine foldl_rel (fun (a : A2 α) (W : Mat α) => a = ofMat W ∧ W.r = n ∧ W.c = n) _ _ _
    ⟨rfl, hWr, hWc⟩ ?_
  intro j hj a W ⟨ha, hWr, hWc⟩
  have hj' : j < n := by
    rw [List.mem_range'_1] at hj; omega
  subst ha
  rw [ofMat_get W (i := i) (j := j) (by omega) (by omega)]
  exact ⟨ofMat_put W _ (by omega) (by omega), by simp [hWr], by simp [hWc]⟩

end Dense

end TieNormalEq2Aux
