/-
Proofs/TieNormalEq3.lean — LOOP TIES for property C04, part 3: the w-tilde PRODUCERS of
`autoarray/inversion/inversion/imaging/inversion_imaging_util.py` (`w_tilde_curvature_value_from`,
`w_tilde_data_imaging_from`, `w_tilde_curvature_preload_imaging_from`).
Only `*_tie` theorems live in this file (helpers: Proofs/TieNormalEqAux*.lean).
-/
import Generated.LoopsNormalEq
import Model.NormalEq
import Proofs.TieCore
import Proofs.TieNormalEqAux
import Proofs.TieNormalEq2

open Model PyRt TieCore TieNormalEqAux

namespace TieNormalEq

/-- `w_tilde_curvature_value_from` (with the default `renormalize=False`) = `Impl.wTildeCurvatureValue`:
    the kernel footprint of the first pixel lies inside the native array (no index of
    `value_native[ip0_y + k0_y + shift_y, …]` is negative, where numpy would wrap around, or too large). -/
theorem w_tilde_curvature_value_from_tie {α : Type} [Add α] [Mul α] [Div α] [OfNat α 0] [OfNat α 1]
    [IntCast α] [LT α] [DecidableLT α] [Inhabited α]
    (h w : Nat) (valueNative : List α) (K : Kernel α) (ip0 ip1 : Nat × Nat)
    (hv : valueNative.length = h * w) (hK : K.vals.length = K.kh * K.kw)
    (hfp : K.hy ≤ ip0.1 ∧ ip0.1 + K.kh ≤ h + K.hy ∧ K.hx ≤ ip0.2 ∧ ip0.2 + K.kw ≤ w + K.hx) :
    Generated.LoopsNormalEq.w_tilde_curvature_value_from (ofNative h w valueNative) (ofKernel K)
        (ip0.1 : Int) (ip0.2 : Int) (ip1.1 : Int) (ip1.2 : Int) false
      = Impl.wTildeCurvatureValue w valueNative K ip0 ip1 := by
  obtain ⟨f1, f2, f3, f4⟩ := hfp
  unfold Generated.LoopsNormalEq.w_tilde_curvature_value_from Impl.wTildeCurvatureValue
  generalize hkh : A2.shape0 (ofKernel K) = kh
  generalize hkw : A2.shape1 (ofKernel K) = kw
  have e1 : ((K.kh : Nat) : Int) = kh := hkh
  have e2 : ((K.kw : Nat) : Int) = kw := hkw
  subst e1 e2
  simp only [fdiv_two]
  rw [show K.kh / 2 = K.hy from rfl, show K.kw / 2 = K.hx from rfl]
  have hcond : (decide ((ip0.1 : Int) - ip1.1 < 2 * -(K.hy : Int)) || decide ((ip0.1 : Int) - ip1.1 > -2 * -(K.hy : Int))
        || decide ((ip0.2 : Int) - ip1.2 < 2 * -(K.hx : Int)) || decide ((ip0.2 : Int) - ip1.2 > -2 * -(K.hx : Int))) = true
      ↔ ((ip0.1 : Int) - ip1.1 < 2 * -(K.hy : Int) ∨ (ip0.1 : Int) - ip1.1 > -2 * -(K.hy : Int)
        ∨ (ip0.2 : Int) - ip1.2 < 2 * -(K.hx : Int) ∨ (ip0.2 : Int) - ip1.2 > -2 * -(K.hx : Int)) := by
    simp only [Bool.or_eq_true, decide_eq_true_eq, or_assoc]
  simp only [hcond]
  split
  · rfl
  · simp only [Bool.false_eq_true, if_false, forRange_yx]
    rw [forYX_eq_foldl]
    apply foldl_rel (fun (s : α × Int) (t : α) => s.1 = t)
    · rfl
    · intro p hp s t hst
      rw [mem_pixels] at hp
      obtain ⟨hp1, hp2⟩ := hp
      have ey : ((ip0.1 : Int) + (p.1 : Int)) + -(K.hy : Int) = ((ip0.1 + p.1 - K.hy : Nat) : Int) := by omega
      have ex : ((ip0.2 : Int) + (p.2 : Int)) + -(K.hx : Int) = ((ip0.2 + p.2 - K.hx : Nat) : Int) := by omega
      rw [ey, ex, get_ofNative h w valueNative hv 0 (by omega) (by omega),
        get_ofKernel K hK hp1 hp2]
      generalize hk1y : (p.1 : Int) + ((ip0.1 : Int) - ip1.1) = k1y
      generalize hk1x : (p.2 : Int) + ((ip0.2 : Int) - ip1.2) = k1x
      have hk1 : (decide (k1y ≥ 0) && decide (k1x ≥ 0) && decide (k1y < (K.kh : Int))
            && decide (k1x < (K.kw : Int))) = true
          ↔ (0 ≤ k1y ∧ 0 ≤ k1x ∧ k1y < (K.kh : Int) ∧ k1x < (K.kw : Int)) := by
        simp [and_assoc]
      simp only [vget, gt_iff_lt, decide_eq_true_eq, hk1]
      by_cases hpos : 0 < valueNative.getD ((ip0.1 + p.1 - K.hy) * w + (ip0.2 + p.2 - K.hx)) 0
      · by_cases hk : 0 ≤ k1y ∧ 0 ≤ k1x ∧ k1y < (K.kh : Int) ∧ k1x < (K.kw : Int)
        · simp only [hpos, hk, and_self, if_true]
          obtain ⟨k1, k2, k3, k4⟩ := hk
          have e1 : k1y = ((k1y.toNat : Nat) : Int) := by omega
          have e2 : k1x = ((k1x.toNat : Nat) : Int) := by omega
          rw [e1, e2, get_ofKernel K hK (by omega) (by omega), hst]
          simp only [PyRt.sq, Int.toNat_natCast]
        · simp only [hpos, hk, if_true, if_false]
          exact hst
      · simp only [hpos, if_false]
        exact hst

/-- `w_tilde_data_imaging_from` = `Impl.wTildeData`.  The code skips a native pixel when
    `image / noise**2` is NaN; the model skips it when `image = 0 ∧ noise² = 0` — `hnan` is that reading of
    `np.isnan` (IEEE: a quotient of finite numbers is NaN exactly at `0/0`) on the pixels of the arrays.
    Both native arrays have the shape `h × w`, the kernel footprint of every listed pixel lies inside. -/
theorem w_tilde_data_imaging_from_tie {α : Type} [Add α] [Mul α] [Div α] [OfNat α 0] [DecidableEq α]
    [Inhabited α] (isnan : α → Bool) (h w : Nat) (image noise : List α) (K : Kernel α)
    (idx : List (Nat × Nat))
    (him : image.length = h * w) (hnz : noise.length = h * w) (hK : K.vals.length = K.kh * K.kw)
    (hnan : ∀ k : Nat, k < h * w → isnan (vget image k / (vget noise k * vget noise k))
      = decide (vget image k = 0 ∧ vget noise k * vget noise k = 0))
    (hfp : ∀ c ∈ idx, K.hy ≤ c.1 ∧ c.1 + K.kh ≤ h + K.hy ∧ K.hx ≤ c.2 ∧ c.2 + K.kw ≤ w + K.hx) :
    Generated.LoopsNormalEq.w_tilde_data_imaging_from isnan (ofNative h w image) (ofNative h w noise)
        (ofKernel K) (ofPairs (fun k => (k : Int)) idx)
      = Impl.wTildeData w image noise K idx := by
  unfold Generated.LoopsNormalEq.w_tilde_data_imaging_from Impl.wTildeData
  simp only [A2.shape0_eq, A2.shape1_eq, ofKernel_h, ofKernel_w, ofPairs_h, fdiv_two, forRange_zero_nat,
    A1.zeros_natCast, forYX]
  rw [show K.kh / 2 = K.hy from rfl, show K.kw / 2 = K.hx from rfl]
  rw [← map_range_getD idx (0, 0)]
  rw [← fill_loop idx.length (0 : α)]
  apply foldl_congr_mem
  intro k hk out
  have hk' : k < idx.length := by simpa using hk
  obtain ⟨g0, g1⟩ := get_ofPairs_getD idx hk'
  have hc := hfp (idx.getD k (0, 0)) (by
    simp [List.getD_eq_getElem?_getD, List.getElem?_eq_getElem hk'])
  generalize idx.getD k (0, 0) = c at g0 g1 hc
  obtain ⟨f1, f2, f3, f4⟩ := hc
  rw [g0, g1]
  congr 1
  apply foldl_rel (fun (s t : α) => s = t)
  · rfl
  · intro p1 hp1 s t hst
    apply foldl_rel (fun (s t : α) => s = t) _ _ _ hst
    intro p2 hp2 s t hst
    have hp1 : p1 < K.kh := by simpa using hp1
    have hp2 : p2 < K.kw := by simpa using hp2
    generalize hp : (p1, p2) = p
    have hp1 : p.1 < K.kh := by rw [← hp]; exact hp1
    have hp2 : p.2 < K.kw := by rw [← hp]; exact hp2
    have e1 : p1 = p.1 := by rw [← hp]
    have e2 : p2 = p.2 := by rw [← hp]
    rw [e1, e2]
    have ey : ((c.1 : Int) + (p.1 : Int)) + -(K.hy : Int) = ((c.1 + p.1 - K.hy : Nat) : Int) := by omega
    have ex : ((c.2 : Int) + (p.2 : Int)) + -(K.hx : Int) = ((c.2 + p.2 - K.hx : Nat) : Int) := by omega
    have hy : c.1 + p.1 - K.hy < h := by omega
    have hx : c.2 + p.2 - K.hx < w := by omega
    rw [ey, ex, get_zipWith_map _ _ h w image noise him hnz 0 0 hy hx, get_ofKernel K hK hp1 hp2, hst]
    have := hnan _ (flat_lt_of_lt hy hx)
    simp only [vget] at this
    simp only [PyRt.sq, vget, this]
    exact ite_not_decide _ _ _

end TieNormalEq
