/-
Proofs/TieNormalEqAux.lean — helper lemmas for the LOOP TIES of property C04 (Proofs/TieNormalEq*.lean):
embeddings of the accumulators of Model/NormalEq.lean (`Mat`, `Vec`, `Kernel`, the stored tables `Padded`,
`PreloadFlat`) into the numpy runtime of Model/PyRt.lean, reads / writes through the embeddings, and a few
generic loop-shape lemmas (`forRange` from a non-zero start, fill loops, packing into a wider buffer).
Core Lean only (no Mathlib).
-/
import Model.NormalEq
import Proofs.TieCore

open Model PyRt TieCore

set_option linter.unusedSectionVars false

namespace TieNormalEqAux

variable {α : Type}

/-! ### generic list facts -/

theorem array_getD_toList (a : Array α) (k : Nat) (d : α) : a.getD k d = a.toList.getD k d := by
  simp [Array.getD, List.getD_eq_getElem?_getD]
  split <;> simp_all

/-- `getD` does not depend on the default inside the list -/
theorem getD_default_irrel (l : List α) (k : Nat) (d d' : α) (hk : k < l.length) :
    l.getD k d = l.getD k d' := by
  simp [List.getD_eq_getElem?_getD, List.getElem?_eq_getElem hk]

theorem getD_take_drop (l : List α) (n w k : Nat) (d : α) (hk : k < w) :
    ((l.drop n).take w).getD k d = l.getD (n + k) d := by
  simp [List.getD_eq_getElem?_getD, hk]

/-! ### loops -/

/-- `for v in range(lo, hi)` with natural bounds is a fold over `List.range' lo (hi - lo)` -/
theorem forRange_range' {σ : Type} (lo hi : Nat) (init : σ) (body : Int → σ → σ) :
    forRange (lo : Int) (hi : Int) init body
      = (List.range' lo (hi - lo)).foldl (fun s (k : Nat) => body (k : Int) s) init := by
  rw [forRange_nat, List.range'_eq_map_range, List.foldl_map]

/-- `for v in range(0, n)` with `n ≤ 0` does nothing; with `n ≥ 0` it is a fold over `range n.toNat` -/
theorem forRange_zero_toNat {σ : Type} (n : Int) (init : σ) (body : Int → σ → σ) :
    forRange 0 n init body
      = (List.range n.toNat).foldl (fun s (k : Nat) => body (k : Int) s) init := by
  simp [forRange]

/-- the fill loop `for i in range(n): out[i] = f i` over `np.zeros(n)` -/
theorem fill_loop {β : Type} (n : Nat) (z : β) (f : Nat → β) :
    (List.range n).foldl (fun (out : A1 β) (i : Nat) => A1.set out (i : Int) (f i)) (List.replicate n z)
      = (List.range n).map f := by
  simp only [A1.set_natCast]
  suffices H : ∀ (m : Nat) (xs : List β),
      (List.range' xs.length m).foldl (fun (out : List β) (i : Nat) => out.set i (f i))
          (xs ++ List.replicate m z)
        = xs ++ (List.range' xs.length m).map f by
    have := H n []
    simpa [List.range_eq_range'] using this
  intro m
  induction m with
  | zero => intro xs; simp
  | succ m ih =>
    intro xs
    simp only [List.range'_succ, List.foldl_cons, List.map_cons]
    rw [set_pack xs m z (f xs.length)]
    have := ih (xs ++ [f xs.length])
    simp only [List.length_append, List.length_cons, List.length_nil, Nat.zero_add] at this
    rw [this]
    simp

/-! ### `Mat` / `Vec` as numpy arrays -/

section Arr
variable [Add α] [OfNat α 0]

/-- a model matrix as the numpy array the Python function receives / returns -/
def ofMat (M : Mat α) : A2 α := { h := M.r, w := M.c, data := M.data.toList }

omit [Add α] in
@[simp] theorem ofMat_h (M : Mat α) : (ofMat M).h = M.r := rfl
omit [Add α] in
@[simp] theorem ofMat_w (M : Mat α) : (ofMat M).w = M.c := rfl

omit [Add α] in
theorem ofMat_zeros (r c : Nat) : (A2.zeros (r : Int) (c : Int) : A2 α) = ofMat (Mat.zeros r c) := by
  simp [ofMat, Mat.zeros]

omit [Add α] in
theorem ofMat_get [Inhabited α] (M : Mat α) {i j : Nat} (hi : i < M.r) (hj : j < M.c) :
    A2.get (ofMat M) (i : Int) (j : Int) = M.get i j := by
  rw [A2.get_natCast _ _ _ (by simpa using hi) (by simpa using hj)]
  have hlt : i * M.c + j < M.data.toList.length := by
    rw [Array.length_toList, M.h]; exact flat_lt_of_lt hi hj
  simp only [Mat.get, hi, hj, and_self, if_true, ofMat, array_getD_toList]
  exact getD_default_irrel _ _ _ _ hlt

omit [Add α] [OfNat α 0] in
theorem ofMat_put (M : Mat α) {i j : Nat} (x : α) (hi : i < M.r) (hj : j < M.c) :
    A2.set (ofMat M) (i : Int) (j : Int) x = ofMat (M.put i j x) := by
  rw [A2.set_natCast _ _ _ _ (by simpa using hi) (by simpa using hj)]
  simp [Mat.put, hi, hj, ofMat]

/-- `a[i, j] += x` -/
theorem ofMat_add [Inhabited α] (M : Mat α) {i j : Nat} (x : α) (hi : i < M.r) (hj : j < M.c) :
    A2.set (ofMat M) (i : Int) (j : Int) (A2.get (ofMat M) (i : Int) (j : Int) + x)
      = ofMat (M.add i j x) := by
  rw [ofMat_get M hi hj, ofMat_put M _ hi hj]; rfl

omit [Add α] [OfNat α 0] in
@[simp] theorem put_r (M : Mat α) (i j : Nat) (x : α) : (M.put i j x).r = M.r := by
  unfold Mat.put; split <;> rfl
omit [Add α] [OfNat α 0] in
@[simp] theorem put_c (M : Mat α) (i j : Nat) (x : α) : (M.put i j x).c = M.c := by
  unfold Mat.put; split <;> rfl
@[simp] theorem add_r (M : Mat α) (i j : Nat) (x : α) : (M.add i j x).r = M.r := put_r _ _ _ _
@[simp] theorem add_c (M : Mat α) (i j : Nat) (x : α) : (M.add i j x).c = M.c := put_c _ _ _ _

/-- `v[i] += x` on a 1-D accumulator (an out-of-range write is dropped on both sides) -/
theorem vec_add [Inhabited α] (v : Vec α) (i : Nat) (x : α) :
    A1.set (Vec.toList v) (i : Int) (A1.get (Vec.toList v) (i : Int) + x) = Vec.toList (Vec.add v i x) := by
  simp only [A1.set_natCast, A1.get_natCast, Vec.add, Vec.toList, Array.toList_setIfInBounds,
    array_getD_toList]
  by_cases hi : i < (Array.toList v).length
  · rw [getD_default_irrel _ _ default 0 hi]
  · rw [List.set_eq_of_length_le (Nat.le_of_not_lt hi), List.set_eq_of_length_le (Nat.le_of_not_lt hi)]

theorem vec_zeros (n : Nat) : (A1.zeros (n : Int) : A1 α) = Vec.toList (Vec.zeros n : Vec α) := by
  simp [Vec.zeros, Vec.toList]

@[simp] theorem vec_add_size (v : Vec α) (i : Nat) (x : α) : (Vec.add v i x).size = v.size := by
  simp [Vec.add]

end Arr

/-! ### kernels, native arrays -/

/-- a model kernel as the numpy array `kernel_native` -/
def ofKernel (K : Kernel α) : A2 α := ofNative K.kh K.kw K.vals

@[simp] theorem ofKernel_h (K : Kernel α) : (ofKernel K).h = K.kh := rfl
@[simp] theorem ofKernel_w (K : Kernel α) : (ofKernel K).w = K.kw := rfl

theorem get_ofKernel [OfNat α 0] [Inhabited α] (K : Kernel α) (hK : K.vals.length = K.kh * K.kw)
    {i j : Nat} (hi : i < K.kh) (hj : j < K.kw) :
    A2.get (ofKernel K) (i : Int) (j : Int) = K.get i j :=
  get_ofNative K.kh K.kw K.vals hK 0 hi hj

/-- `shape // 2` -/
theorem fdiv_two (n : Nat) : Int.fdiv (n : Int) 2 = ((n / 2 : Nat) : Int) := by
  rw [Int.fdiv_eq_ediv_of_nonneg _ (by decide)]; simp

/-! ### the stored tables -/

/-- the rows of a 2-D numpy array -/
def rowsOf {β : Type} (a : A2 β) : List (List β) :=
  (List.range a.h).map fun y => (a.data.drop (y * a.w)).take a.w

@[simp] theorem rowsOf_length {β : Type} (a : A2 β) : (rowsOf a).length = a.h := by simp [rowsOf]

/-- `a[d, k]` is entry `k` of row `d`, whatever the defaults, for a well-formed array -/
theorem get_rowsOf {β : Type} [Inhabited β] (a : A2 β) (ha : a.data.length = a.h * a.w) (d1 : β)
    {d k : Nat} (hd : d < a.h) (hk : k < a.w) :
    A2.get a (d : Int) (k : Int) = ((rowsOf a).getD d []).getD k d1 := by
  rw [A2.get_natCast _ _ _ hd hk]
  have hlt : d * a.w + k < a.data.length := by rw [ha]; exact flat_lt_of_lt hd hk
  have : (rowsOf a).getD d [] = (a.data.drop (d * a.w)).take a.w := by
    simp [rowsOf, List.getD_eq_getElem?_getD, hd]
  rw [this, getD_take_drop _ _ _ _ _ hk]
  exact getD_default_irrel _ _ _ _ hlt

/-- `(data_to_pix_unique, data_weights, pix_lengths)` as the model's stored table -/
def paddedOf (idx : A2 Int) (val : A2 α) (len : A1 Int) : Impl.Padded α :=
  { idx := rowsOf idx, val := rowsOf val, len := List.map Int.toNat len }

/-- `(curvature_preload, curvature_indexes, curvature_lengths)` as the model's stored table -/
def flatOf (pre : A1 α) (ind : A1 Int) (len : A1 Int) : Impl.PreloadFlat α :=
  { preload := pre, indexes := List.map Int.toNat ind, lengths := List.map Int.toNat len }

/-- `pix_lengths[d]` as a loop bound -/
theorem len_toNat (len : A1 Int) (d : Nat) :
    (A1.get len (d : Int)).toNat = (List.map Int.toNat len).getD d 0 := by
  rw [A1.get_natCast]
  have : (List.map Int.toNat len)[d]? = (len[d]?).map Int.toNat := List.getElem?_map ..
  simp only [List.getD_eq_getElem?_getD, this]
  cases len[d]? <;> rfl

/-! ### running counters -/

/-- total of a list of lengths, as `PreloadFlat.offset` computes it -/
def lsum (l : List Nat) : Nat := l.foldl (· + ·) 0

theorem foldl_add_init (l : List Nat) (k : Nat) : l.foldl (· + ·) k = k + l.foldl (· + ·) 0 := by
  induction l generalizing k with
  | nil => simp
  | cons a l ih => simp only [List.foldl_cons]; rw [ih (k + a), ih (0 + a)]; omega

theorem lsum_append (a b : List Nat) : lsum (a ++ b) = lsum a + lsum b := by
  simp only [lsum, List.foldl_append]; rw [foldl_add_init]

@[simp] theorem lsum_nil : lsum [] = 0 := rfl
@[simp] theorem lsum_singleton (a : Nat) : lsum [a] = a := by simp [lsum]

theorem map_getD_range (l : List Nat) : (List.range l.length).map (fun d => l.getD d 0) = l := by
  apply List.ext_getElem
  · simp
  · intro i h1 h2
    simp [List.getD_eq_getElem?_getD, List.getElem?_eq_getElem h2]

/-- position of an element of `List.range m` -/
theorem range_split {m k : Nat} {pre post : List Nat} (h : List.range m = pre ++ k :: post) :
    pre.length = k ∧ k < m := by
  have hl := congrArg List.length h
  simp at hl
  have hlt : pre.length < m := by omega
  have h1 : (List.range m)[pre.length]? = some pre.length := by
    simp [hlt]
  rw [h] at h1
  simp at h1
  omega

/-! ### elementwise arithmetic, index tables -/

/-- a read of `a / b ** 2`-style elementwise arithmetic on two native arrays of the same shape -/
theorem get_zipWith_map {β γ δ : Type} [Inhabited δ] (f : β → γ → δ) (g : β → γ) (h w : Nat)
    (la lb : List β) (ha : la.length = h * w) (hb : lb.length = h * w) (d1 d2 : β)
    {y x : Nat} (hy : y < h) (hx : x < w) :
    A2.get (A2.zipWith f (ofNative h w la) (A2.map g (ofNative h w lb))) (y : Int) (x : Int)
      = f (la.getD (y * w + x) d1) (g (lb.getD (y * w + x) d2)) := by
  have hlt := flat_lt_of_lt hy hx
  rw [A2.get_natCast _ _ _ (by simpa [A2.zipWith] using hy) (by simpa [A2.zipWith] using hx)]
  simp only [A2.zipWith, A2.map, ofNative_data, ofNative_w]
  simp [List.getD_eq_getElem?_getD, ha, hb, hlt]

theorem map_range_getD {ι β : Type} (l : List ι) (d : ι) (F : ι → β) :
    (List.range l.length).map (fun k => F (l.getD k d)) = l.map F := by
  apply List.ext_getElem
  · simp
  · intro i h1 h2
    have : i < l.length := by simpa using h1
    simp [List.getD_eq_getElem?_getD, List.getElem?_eq_getElem this]

/-- `y, x = native_index_for_slim_index[k]` -/
theorem get_ofPairs_getD (l : List (Nat × Nat)) {k : Nat} (hk : k < l.length) :
    A2.get (ofPairs (fun k => (k : Int)) l) (k : Int) 0 = ((l.getD k (0, 0)).1 : Int) ∧
    A2.get (ofPairs (fun k => (k : Int)) l) (k : Int) 1 = ((l.getD k (0, 0)).2 : Int) := by
  have := get_ofPairs (fun k => (k : Int)) l hk
  simpa [List.getD_eq_getElem?_getD, List.getElem?_eq_getElem hk] using this

/-- `if not b:` on a decided proposition -/
theorem ite_not_decide {β : Type} (P : Prop) [Decidable P] (x y : β) :
    (if (!decide P) = true then x else y) = if P then y else x := by
  by_cases h : P <;> simp [h]

end TieNormalEqAux
