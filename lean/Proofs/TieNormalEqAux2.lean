/-
Proofs/TieNormalEqAux2.lean — helper lemmas for the loop ties of the w-tilde CONSUMERS (property C04):
the quadruple loop nest with the running `curvature_index` shared by
`curvature_matrix_via_w_tilde_curvature_preload_imaging_from` and
`curvature_matrix_off_diags_via_w_tilde_curvature_preload_imaging_from`, and the two closing loop nests
(`F[i,j] += F[j,i]`, `F[j,i] = F[i,j]`).  Core Lean only.
-/
import Proofs.TieNormalEqAux

open Model PyRt TieCore

set_option linter.unusedSectionVars false
set_option linter.unusedVariables false

namespace TieNormalEqAux

variable {α : Type} [Add α] [Mul α] [OfNat α 0] [Inhabited α]

/-- the used entries `k < pix_lengths[d]` of row `d` of a stored unique-mapping table lie inside the
    arrays and hold pixelization indices `0 ≤ · < pix` (what Python needs not to raise / not to wrap) -/
def RowOK (idx : A2 Int) (val : A2 α) (len : A1 Int) (pix : Nat) (d : Nat) : Prop :=
  ∀ k : Nat, k < (len.getD d 0).toNat →
    d < idx.h ∧ d < val.h ∧ k < idx.w ∧ k < val.w ∧ 0 ≤ A2.get idx d k ∧ A2.get idx d k < pix

/-- number of `(data_0, data_1)` pairs the consumers walk with the running `curvature_index` -/
def totalPairs (clen : A1 Int) : Nat := lsum (List.map Int.toNat clen)

/-- the quadruple loop nest of the w-tilde curvature consumers, as translate2 emits it -/
def offLoop (curvature_preload : A1 α) (curvature_indexes : A1 Int) (curvature_lengths : A1 Int)
    (data_to_pix_unique_0 : A2 Int) (data_weights_0 : A2 α) (pix_lengths_0 : A1 Int) (pix_pixels_0 : Int)
    (data_to_pix_unique_1 : A2 Int) (data_weights_1 : A2 α) (pix_lengths_1 : A1 Int) (pix_pixels_1 : Int) :
    A2 α × Int :=
  PyRt.forRange 0 (PyRt.A1.len curvature_lengths) (PyRt.A2.zeros (α := α) pix_pixels_0 pix_pixels_1, (0 : Int)) (fun data_0 st =>
    let curvature_matrix := st.1
    let curvature_index := st.2
    PyRt.forRange 0 (PyRt.A1.get curvature_lengths data_0) (curvature_matrix, curvature_index) (fun data_1_index st =>
      let curvature_matrix := st.1
      let curvature_index := st.2
      let data_1 : Int := PyRt.A1.get curvature_indexes curvature_index
      let w_tilde_value : α := PyRt.A1.get curvature_preload curvature_index
      let curvature_matrix := PyRt.forRange 0 (PyRt.A1.get pix_lengths_0 data_0) curvature_matrix (fun pix_0_index curvature_matrix =>
        let data_0_weight : α := PyRt.A2.get data_weights_0 data_0 pix_0_index
        let pix_0 : Int := PyRt.A2.get data_to_pix_unique_0 data_0 pix_0_index
        PyRt.forRange 0 (PyRt.A1.get pix_lengths_1 data_1) curvature_matrix (fun pix_1_index curvature_matrix =>
          let data_1_weight : α := PyRt.A2.get data_weights_1 data_1 pix_1_index
          let pix_1 : Int := PyRt.A2.get data_to_pix_unique_1 data_1 pix_1_index
          PyRt.A2.set curvature_matrix pix_0 pix_1 ((PyRt.A2.get curvature_matrix pix_0 pix_1) + ((data_0_weight * data_1_weight) * w_tilde_value))))
      let curvature_index : Int := curvature_index + 1
      (curvature_matrix, curvature_index)))

/-- the loop nest = `Impl.offDiagPreloadP` on the stored tables -/
theorem offLoop_eq (pre : A1 α) (ind clen : A1 Int)
    (idx0 : A2 Int) (val0 : A2 α) (len0 : A1 Int) (pix0 : Nat)
    (idx1 : A2 Int) (val1 : A2 α) (len1 : A1 Int) (pix1 : Nat)
    (hi0 : idx0.data.length = idx0.h * idx0.w) (hv0 : val0.data.length = val0.h * val0.w)
    (hi1 : idx1.data.length = idx1.h * idx1.w) (hv1 : val1.data.length = val1.h * val1.w)
    (hc : ∀ c : Nat, c < totalPairs clen → c < ind.length ∧ c < pre.length ∧ 0 ≤ ind.getD c 0 ∧
      RowOK idx1 val1 len1 pix1 (ind.getD c 0).toNat)
    (h0 : ∀ d : Nat, d < clen.length → 0 < clen.getD d 0 → RowOK idx0 val0 len0 pix0 d) :
    (offLoop pre ind clen idx0 val0 len0 pix0 idx1 val1 len1 pix1).1
      = ofMat (Impl.offDiagPreloadP (flatOf pre ind clen) (paddedOf idx0 val0 len0) pix0
          (paddedOf idx1 val1 len1) pix1) := by
  unfold offLoop Impl.offDiagPreloadP
  simp only [A1.len_eq, forRange_zero_nat, flatOf, paddedOf, List.length_map, ofMat_zeros]
  simp only [forRange_zero_toNat, len_toNat]
  generalize hL : (fun d : Nat => (List.map Int.toNat clen).getD d 0) = L
  have hLd : ∀ d, (List.map Int.toNat clen).getD d 0 = L d := fun d => by rw [← hL]
  have htot : totalPairs clen = lsum ((List.range clen.length).map L) := by
    rw [← hL, totalPairs]
    have := map_getD_range (List.map Int.toNat clen)
    rw [List.length_map] at this
    rw [this]
  refine (foldl_rel_pre
    (fun (pr : List Nat) (s : A2 α × Int) (t : Mat α × Nat) =>
      s.1 = ofMat t.1 ∧ s.2 = (t.2 : Int) ∧ t.2 = lsum (pr.map L) ∧ t.1.r = pix0 ∧ t.1.c = pix1)
    (List.range clen.length) _ _
    (s := (ofMat (Mat.zeros pix0 pix1), (0 : Int))) (t := ((Mat.zeros pix0 pix1 : Mat α), 0))
    ⟨rfl, rfl, rfl, rfl, rfl⟩ ?_).1
  · intro pr d post s t hl ⟨hs1, hs2, hs3, hr, hcc⟩
    obtain ⟨hdlen, hd⟩ := range_split hl
    -- the running index stays below the total
    have hbound : t.2 + L d ≤ totalPairs clen := by
      rw [htot, hl, List.map_append, List.map_cons, lsum_append, ← hs3]
      have : lsum (L d :: List.map L post) = L d + lsum (List.map L post) := by
        have := lsum_append [L d] (List.map L post)
        simpa using this
      rw [this]; omega
    have hpos : ∀ j, j < L d → 0 < clen.getD d 0 := by
      intro j hj
      rw [← hLd, ← len_toNat, A1.get_natCast] at hj
      have e : clen.getD d default = clen.getD d 0 := rfl
      rw [e] at hj; omega
    have e : lsum (List.map L (pr ++ [d])) = t.2 + (List.range (L d)).length := by
      rw [hs3, List.map_append, lsum_append]; simp
    rw [hLd d, e]
    refine foldl_rel_pre
      (fun (pr' : List Nat) (s' : A2 α × Int) (t' : Mat α × Nat) =>
        s'.1 = ofMat t'.1 ∧ s'.2 = (t'.2 : Int) ∧ t'.2 = t.2 + pr'.length ∧ t'.1.r = pix0 ∧ t'.1.c = pix1)
      (List.range (L d)) _ _ ⟨hs1, hs2, by simp, hr, hcc⟩ ?_
    · intro pr' j post' s' t' hl' ⟨q1, q2, q3, q4, q5⟩
      obtain ⟨hjlen, hj⟩ := range_split hl'
      have hclt : t'.2 < totalPairs clen := by omega
      obtain ⟨c1, c2, c3, c4⟩ := hc t'.2 hclt
      have hrow0 := h0 d (by simpa using hd) (hpos j hj)
      -- the reads at the running index
      have eind : A1.get ind ((t'.2 : Nat) : Int) = (((List.map Int.toNat ind).getD t'.2 0 : Nat) : Int) := by
        rw [get_A1 ind 0 c1]
        have : (List.map Int.toNat ind).getD t'.2 0 = (ind.getD t'.2 0).toNat := by
          simp [List.getD_eq_getElem?_getD, List.getElem?_eq_getElem c1]
        rw [this]; omega
      have edat : (List.map Int.toNat ind).getD t'.2 0 = (ind.getD t'.2 0).toNat := by
        simp [List.getD_eq_getElem?_getD, List.getElem?_eq_getElem c1]
      simp only [q2, eind, get_A1 pre 0 c2, len_toNat]
      rw [edat]
      have key : ∀ (P Q R S T : Prop), (P ∧ S ∧ T) → Q → R → P ∧ Q ∧ R ∧ S ∧ T :=
        fun _ _ _ _ _ h q r => ⟨h.1, q, r, h.2.1, h.2.2⟩
      refine key _ _ _ _ _ ?_ (by simp) (by simp [q3, List.length_append]; omega)
      · -- the two inner loops
        refine foldl_rel (fun (a : A2 α) (F : Mat α) => a = ofMat F ∧ F.r = pix0 ∧ F.c = pix1)
          _ _ _ ⟨q1, q4, q5⟩ ?_
        intro k0 hk0 a F ⟨ha, hFr, hFc⟩
        refine foldl_rel (fun (a : A2 α) (F : Mat α) => a = ofMat F ∧ F.r = pix0 ∧ F.c = pix1)
          _ _ _ ⟨ha, hFr, hFc⟩ ?_
        intro k1 hk1 a F ⟨ha, hFr, hFc⟩
        have hk0' : k0 < (len0.getD d 0).toNat := by
          have : k0 < (List.map Int.toNat len0).getD d 0 := by simpa using hk0
          rw [← len_toNat, A1.get_natCast] at this
          exact this
        have hk1' : k1 < (len1.getD (ind.getD t'.2 0).toNat 0).toNat := by
          have : k1 < (List.map Int.toNat len1).getD (ind.getD t'.2 0).toNat 0 := by simpa using hk1
          rw [← len_toNat, A1.get_natCast] at this
          exact this
        obtain ⟨a1, a2, a3, a4, a5, a6⟩ := hrow0 k0 hk0'
        obtain ⟨b1, b2, b3, b4, b5, b6⟩ := c4 k1 hk1'
        have z0 : A2.get idx0 d k0 = ((A2.get idx0 d k0).toNat : Int) := by omega
        have z1 : A2.get idx1 ((ind.getD t'.2 0).toNat : Nat) k1
            = ((A2.get idx1 ((ind.getD t'.2 0).toNat : Nat) k1).toNat : Int) := by omega
        simp only [Impl.Padded.entry]
        rw [← get_rowsOf idx0 hi0 (-1) a1 a3, ← get_rowsOf val0 hv0 0 a2 a4,
          ← get_rowsOf idx1 hi1 (-1) b1 b3, ← get_rowsOf val1 hv1 0 b2 b4]
        subst ha
        refine ⟨?_, by simp [hFr], by simp [hFc]⟩
        rw [z0, z1]
        exact ofMat_add F _ (by omega) (by omega)

/-- the two closing loop nests of `curvature_matrix_via_w_tilde_curvature_preload_imaging_from`
    (`F[i,j] += F[j,i]` then `F[j,i] = F[i,j]`, both over `j ≥ i`), as translate2 emits them; they are
    `Impl.symmetrize` (`sym_loops`) -/
def symLoop (curvature_matrix : A2 α) (pix_pixels : Int) : A2 α :=
  let curvature_matrix := PyRt.forRange 0 pix_pixels curvature_matrix (fun i curvature_matrix =>
    PyRt.forRange i pix_pixels curvature_matrix (fun j curvature_matrix =>
      PyRt.A2.set curvature_matrix i j ((PyRt.A2.get curvature_matrix i j) + (PyRt.A2.get curvature_matrix j i))))
  PyRt.forRange 0 pix_pixels curvature_matrix (fun i curvature_matrix =>
    PyRt.forRange i pix_pixels curvature_matrix (fun j curvature_matrix =>
      PyRt.A2.set curvature_matrix j i (PyRt.A2.get curvature_matrix i j)))

theorem sym_loops (F : Mat α) (n : Nat) (hr : F.r = n) (hc : F.c = n) :
    symLoop (ofMat F) (n : Int) = ofMat (Impl.symmetrize F n) := by
  unfold symLoop
  unfold Impl.symmetrize
  simp only [forRange_zero_nat, forRange_range']
  have key : ∀ (P S T : Prop), (P ∧ S ∧ T) → P := fun _ _ _ h => h.1
  refine key _ _ _ (foldl_rel (fun (a : A2 α) (M : Mat α) => a = ofMat M ∧ M.r = n ∧ M.c = n) _ _ _ ?_ ?_)
  · -- first nest
    refine foldl_rel (fun (a : A2 α) (M : Mat α) => a = ofMat M ∧ M.r = n ∧ M.c = n) _ _ _
      ⟨rfl, hr, hc⟩ ?_
    intro i hi a M hR
    refine foldl_rel (fun (a : A2 α) (M : Mat α) => a = ofMat M ∧ M.r = n ∧ M.c = n) _ _ _ hR ?_
    intro j hj a M ⟨ha, hMr, hMc⟩
    have hi' : i < n := by simpa using hi
    have hj' : j < n := by
      rw [List.mem_range'_1] at hj; omega
    subst ha
    rw [ofMat_get M (i := j) (j := i) (by omega) (by omega)]
    exact ⟨ofMat_add M _ (by omega) (by omega), by simp [hMr], by simp [hMc]⟩
  · intro i hi a M hR
    refine foldl_rel (fun (a : A2 α) (M : Mat α) => a = ofMat M ∧ M.r = n ∧ M.c = n) _ _ _ hR ?_
    intro j hj a M ⟨ha, hMr, hMc⟩
    have hi' : i < n := by simpa using hi
    have hj' : j < n := by
      rw [List.mem_range'_1] at hj; omega
    subst ha
    rw [ofMat_get M (i := i) (j := j) (by omega) (by omega)]
    exact ⟨ofMat_put M _ (by omega) (by omega), by simp [hMr], by simp [hMc]⟩

/-- an invariant of a fold -/
theorem foldl_inv {σ ι : Type} (P : σ → Prop) (l : List ι) (f : σ → ι → σ) (s : σ) (h0 : P s)
    (hstep : ∀ s i, P s → P (f s i)) : P (l.foldl f s) := by
  induction l generalizing s with
  | nil => exact h0
  | cons a l ih => exact ih _ (hstep s a h0)

/-- the shape of `Impl.offDiagPreloadP` -/
theorem offDiagPreloadP_dims (q : Impl.PreloadFlat α) (p0 : Impl.Padded α) (n0 : Nat)
    (p1 : Impl.Padded α) (n1 : Nat) :
    (Impl.offDiagPreloadP q p0 n0 p1 n1).r = n0 ∧ (Impl.offDiagPreloadP q p0 n0 p1 n1).c = n1 := by
  unfold Impl.offDiagPreloadP
  refine foldl_inv (fun (st : Mat α × Nat) => st.1.r = n0 ∧ st.1.c = n1) _ _ _ ⟨rfl, rfl⟩ ?_
  intro st d hst
  refine foldl_inv (fun (st : Mat α × Nat) => st.1.r = n0 ∧ st.1.c = n1) _ _ _ hst ?_
  intro st _ hst
  refine foldl_inv (fun (F : Mat α) => F.r = n0 ∧ F.c = n1) _ _ _ hst ?_
  intro F k0 hF
  refine foldl_inv (fun (F : Mat α) => F.r = n0 ∧ F.c = n1) _ _ _ hF ?_
  intro F k1 hF
  simpa using hF

end TieNormalEqAux
