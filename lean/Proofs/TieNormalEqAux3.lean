/-
Proofs/TieNormalEqAux3.lean — helper lemmas for the loop tie of `w_tilde_curvature_preload_imaging_from`
(property C04): packing the selected entries of one row into fixed-width 2-D buffers at a running
`kernel_index`, the flattening copy pass at a running `index`, reads of the padded buffers.  Core Lean only.
-/
import Proofs.TieNormalEqAux

open Model PyRt TieCore

set_option linter.unusedSectionVars false
set_option linter.unusedVariables false

namespace TieNormalEqAux

/-- the model's append loop is a filter -/
theorem append_loop {ι β : Type} (l : List ι) (P : ι → Prop) [DecidablePred P] (u : ι → β) (acc : List β) :
    l.foldl (fun row i => if P i then row ++ [u i] else row) acc
      = acc ++ (l.filter fun i => decide (P i)).map u := by
  induction l generalizing acc with
  | nil => simp
  | cons a l ih =>
    simp only [List.foldl_cons, List.filter_cons]
    by_cases h : P a
    · simp [h, ih]
    · simp [h, ih]

/-- a row padded to the buffer width -/
def padRow {β : Type} (W : Nat) (z : β) (r : List β) : List β := r ++ List.replicate (W - r.length) z

theorem padRow_length {β : Type} (W : Nat) (z : β) (r : List β) (h : r.length ≤ W) :
    (padRow W z r).length = W := by
  simp [padRow]; omega

theorem set_mid {β : Type} (pre mid post : List β) (k : Nat) (v : β) (hk : k < mid.length) :
    (pre ++ mid ++ post).set (pre.length + k) v = pre ++ mid.set k v ++ post := by
  induction pre with
  | nil => simp [List.set_append, hk]
  | cons a pre ih =>
    have : (a :: pre).length + k = (pre.length + k) + 1 := by simp; omega
    rw [this]
    simpa using ih

/-- `if c i: bufA[d, k] = v1 i; bufB[d, k] = v2 i; k += 1` fills row `d` of two `H × W` buffers with the
    selected values, when the row has room for them -/
theorem pack_row2 {ι β : Type} (l : List ι) (c : ι → Bool) (v1 v2 : ι → β) (z : β) (H W d : Nat)
    (hd : d < H) (pre1 pre2 post1 post2 : List β) (hp1 : pre1.length = d * W) (hp2 : pre2.length = d * W)
    (xs1 xs2 : List β) (m : Nat) (hx : xs1.length = xs2.length) (hW : xs1.length + m = W)
    (hm : (l.filter c).length ≤ m) :
    l.foldl (fun (st : A2 β × A2 β × Int) i =>
        if c i then (A2.set st.1 (d : Int) st.2.2 (v1 i), A2.set st.2.1 (d : Int) st.2.2 (v2 i), st.2.2 + 1)
        else st)
      (({ h := H, w := W, data := pre1 ++ (xs1 ++ List.replicate m z) ++ post1 } : A2 β),
       ({ h := H, w := W, data := pre2 ++ (xs2 ++ List.replicate m z) ++ post2 } : A2 β),
       (xs1.length : Int))
    = (({ h := H, w := W, data := pre1 ++ (xs1 ++ (l.filter c).map v1
            ++ List.replicate (m - (l.filter c).length) z) ++ post1 } : A2 β),
       ({ h := H, w := W, data := pre2 ++ (xs2 ++ (l.filter c).map v2
            ++ List.replicate (m - (l.filter c).length) z) ++ post2 } : A2 β),
       ((xs1.length + (l.filter c).length : Nat) : Int)) := by
  induction l generalizing xs1 xs2 m with
  | nil => simp
  | cons a l ih =>
    simp only [List.foldl_cons, List.filter_cons]
    by_cases hc : c a
    · simp only [hc, if_true, List.length_cons] at hm ⊢
      simp only [List.filter_cons, hc, if_true, List.length_cons] at hm
      obtain ⟨m', rfl⟩ : ∃ m', m = m' + 1 := ⟨m - 1, by omega⟩
      have hk : xs1.length < W := by omega
      rw [A2.set_natCast _ _ _ _ hd hk, A2.set_natCast _ _ _ _ hd hk]
      have e1 : (pre1 ++ (xs1 ++ List.replicate (m' + 1) z) ++ post1).set (d * W + xs1.length) (v1 a)
          = pre1 ++ ((xs1 ++ [v1 a]) ++ List.replicate m' z) ++ post1 := by
        rw [← hp1, set_mid _ _ _ _ _ (by simp), set_pack]
      have e2 : (pre2 ++ (xs2 ++ List.replicate (m' + 1) z) ++ post2).set (d * W + xs1.length) (v2 a)
          = pre2 ++ ((xs2 ++ [v2 a]) ++ List.replicate m' z) ++ post2 := by
        rw [← hp2, hx, set_mid _ _ _ _ _ (by simp), set_pack]
      have e3 : (xs1.length : Int) + 1 = ((xs1 ++ [v1 a]).length : Int) := by simp
      simp only [e1, e2, e3]
      rw [ih (xs1 ++ [v1 a]) (xs2 ++ [v2 a]) m' (by simp [hx]) (by simp; omega) (by omega)]
      simp only [List.map_cons, List.length_append, List.length_cons, List.length_nil,
        List.append_assoc, List.singleton_append, Nat.add_sub_add_right]
      refine Prod.ext rfl (Prod.ext rfl ?_)
      simp; omega
    · simp only [hc, Bool.false_eq_true, if_false]
      exact ih xs1 xs2 m hx hW (by simpa [hc] using hm)

/-- the copy pass `a[index] = r1 k; b[index] = r2 k; index += 1` over 1-D buffers with room -/
theorem copy_loop {ι β : Type} (l : List ι) (r1 r2 : ι → β) (z : β) (xs1 xs2 : List β) (m : Nat)
    (hx : xs1.length = xs2.length) (hm : l.length ≤ m) :
    l.foldl (fun (st : A1 β × A1 β × Int) i =>
        (A1.set st.1 st.2.2 (r1 i), A1.set st.2.1 st.2.2 (r2 i), st.2.2 + 1))
      (xs1 ++ List.replicate m z, xs2 ++ List.replicate m z, (xs1.length : Int))
    = (xs1 ++ l.map r1 ++ List.replicate (m - l.length) z,
       xs2 ++ l.map r2 ++ List.replicate (m - l.length) z, ((xs1.length + l.length : Nat) : Int)) := by
  induction l generalizing xs1 xs2 m with
  | nil => simp
  | cons a l ih =>
    simp only [List.foldl_cons, List.length_cons] at hm ⊢
    obtain ⟨m', rfl⟩ : ∃ m', m = m' + 1 := ⟨m - 1, by omega⟩
    rw [A1.set_natCast, A1.set_natCast, set_pack]
    have : (xs2 ++ List.replicate (m' + 1) z).set xs1.length (r2 a) = (xs2 ++ [r2 a]) ++ List.replicate m' z := by
      rw [hx]; exact set_pack xs2 m' z (r2 a)
    rw [this]
    have e3 : (xs1.length : Int) + 1 = ((xs1 ++ [r1 a]).length : Int) := by simp
    rw [e3, ih (xs1 ++ [r1 a]) (xs2 ++ [r2 a]) m' (by simp [hx]) (by omega)]
    simp only [List.map_cons, List.length_append, List.length_cons, List.length_nil,
      List.append_assoc, List.singleton_append, Nat.add_sub_add_right]
    refine Prod.ext rfl (Prod.ext rfl ?_)
    simp; omega

/-- entry `k` of row `i` of a flattened table with rows of uniform width -/
theorem getD_flatten_uniform {β : Type} (rs : List (List β)) (W : Nat) (hW : ∀ r ∈ rs, r.length = W)
    (i k : Nat) (hi : i < rs.length) (hk : k < W) (d : β) :
    rs.flatten.getD (i * W + k) d = (rs.getD i []).getD k d := by
  induction rs generalizing i with
  | nil => simp at hi
  | cons r rs ih =>
    have hr : r.length = W := hW r (by simp)
    cases i with
    | zero =>
      simp only [List.flatten_cons, Nat.zero_mul, Nat.zero_add]
      have : k < r.length := by omega
      simp [List.getD_eq_getElem?_getD, List.getElem?_append_left this]
    | succ i =>
      have e : (i + 1) * W + k = r.length + (i * W + k) := by rw [hr, Nat.succ_mul]; omega
      have := ih (fun r' hr' => hW r' (by simp [hr'])) i (by simpa using hi)
      simp only [List.flatten_cons, e]
      simp only [List.getD_eq_getElem?_getD] at this ⊢
      rw [List.getElem?_append_right (by omega)]
      simpa using this

/-- `np.sum` of a float array holding natural numbers -/
theorem sum_casts {α : Type} [Add α] [OfNat α 0] [IntCast α] (l : List Nat)
    (hcast0 : ((0 : Int) : α) = 0)
    (hadd : ∀ a b : Nat, (((a : Nat) : Int) : α) + (((b : Nat) : Int) : α) = (((a + b : Nat) : Int) : α)) :
    A1.sum (l.map fun (k : Nat) => (((k : Nat) : Int) : α)) = (((lsum l : Nat) : Int) : α) := by
  unfold A1.sum lsum
  rw [← hcast0]
  have : ((0 : Int) : α) = (((0 : Nat) : Int) : α) := rfl
  rw [this]
  generalize (0 : Nat) = a
  induction l generalizing a with
  | nil => rfl
  | cons b l ih =>
    simp only [List.map_cons, List.foldl_cons]
    rw [hadd, ih]

theorem lsum_map_length {β : Type} (rows : List (List β)) : lsum (rows.map List.length) = rows.flatten.length := by
  induction rows with
  | nil => rfl
  | cons r rows ih =>
    have := lsum_append [r.length] (rows.map List.length)
    simp only [List.singleton_append, lsum_singleton] at this
    simp [this, ih]

end TieNormalEqAux
