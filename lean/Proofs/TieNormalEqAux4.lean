/-
Proofs/TieNormalEqAux4.lean — the two passes of `w_tilde_curvature_preload_imaging_from` (property C04),
copied from Generated/LoopsNormalEq.lean as `phase1` (fill the fixed-width temporaries row by row at the
running `kernel_index`) and `phase2` (flatten them at the running `index`), each proved equal to its closed
form over the model's selection of partners.  The tie theorem (Proofs/TieNormalEq.lean) checks by `rfl`
that the generated definition is the composition of the two; the tie of the callee
`w_tilde_curvature_value_from` enters as the hypothesis `hvalue`.  Core Lean only.
-/
import Generated.LoopsNormalEq
import Proofs.TieNormalEqAux
import Proofs.TieNormalEqAux3

open Model PyRt TieCore

set_option linter.unusedSectionVars false
set_option linter.unusedVariables false

namespace TieNormalEqAux

variable {α : Type} [Add α] [Mul α] [Div α] [OfNat α 0] [OfNat α 1] [IntCast α] [LT α] [DecidableLT α]
  [DecidableEq α] [Inhabited α]

/-- the body of the inner loop of pass 1, as translate2 emits it -/
def phase1Inner (noise_map_native : A2 α) (kernel_native : A2 α) (native_index_for_slim_index : A2 Int)
    (ip0 ip0_y ip0_x : Int) (ip1 : Int) (st : A2 α × A2 α × Int) : A2 α × A2 α × Int :=
  let curvature_preload_tmp := st.1
  let curvature_indexes_tmp := st.2.1
  let kernel_index := st.2.2
  let ip1_y : Int := PyRt.A2.get native_index_for_slim_index ip1 0
  let ip1_x : Int := PyRt.A2.get native_index_for_slim_index ip1 1
  let noise_value : α := Generated.LoopsNormalEq.w_tilde_curvature_value_from (α := α) noise_map_native kernel_native ip0_y ip0_x ip1_y ip1_x false
  let noise_value := if ip0 == ip1 then noise_value / ((2 : Int) : α) else noise_value
  if noise_value != (0 : α) then
    (let curvature_preload_tmp := PyRt.A2.set curvature_preload_tmp ip0 kernel_index noise_value
     let curvature_indexes_tmp := PyRt.A2.set curvature_indexes_tmp ip0 kernel_index ((ip1 : Int) : α)
     let kernel_index : Int := kernel_index + 1
     (curvature_preload_tmp, curvature_indexes_tmp, kernel_index))
  else
    (curvature_preload_tmp, curvature_indexes_tmp, kernel_index)

/-- the body of the outer loop of pass 1 -/
def phase1Outer (noise_map_native : A2 α) (kernel_native : A2 α) (native_index_for_slim_index : A2 Int)
    (ip0 : Int) (st : A2 α × A2 α × A1 α) : A2 α × A2 α × A1 α :=
  let curvature_preload_tmp := st.1
  let curvature_indexes_tmp := st.2.1
  let curvature_lengths := st.2.2
  let ip0_y : Int := PyRt.A2.get native_index_for_slim_index ip0 0
  let ip0_x : Int := PyRt.A2.get native_index_for_slim_index ip0 1
  let kernel_index : Int := 0
  let st := PyRt.forRange ip0 (PyRt.A2.shape0 curvature_preload_tmp) (curvature_preload_tmp, curvature_indexes_tmp, kernel_index)
    (phase1Inner noise_map_native kernel_native native_index_for_slim_index ip0 ip0_y ip0_x)
  let curvature_preload_tmp := st.1
  let curvature_indexes_tmp := st.2.1
  let kernel_index := st.2.2
  let curvature_lengths := PyRt.A1.set curvature_lengths ip0 ((kernel_index : Int) : α)
  (curvature_preload_tmp, curvature_indexes_tmp, curvature_lengths)

/-- pass 1 of `w_tilde_curvature_preload_imaging_from` -/
def phase1 (noise_map_native : A2 α) (kernel_native : A2 α) (native_index_for_slim_index : A2 Int)
    (image_pixels kernel_overlap_size : Int) : A2 α × A2 α × A1 α :=
  let curvature_preload_tmp : PyRt.A2 α := PyRt.A2.zeros (α := α) image_pixels kernel_overlap_size
  let curvature_indexes_tmp : PyRt.A2 α := PyRt.A2.zeros (α := α) image_pixels kernel_overlap_size
  let curvature_lengths : PyRt.A1 α := PyRt.A1.zeros (α := α) image_pixels
  PyRt.forRange 0 image_pixels (curvature_preload_tmp, curvature_indexes_tmp, curvature_lengths)
    (phase1Outer noise_map_native kernel_native native_index_for_slim_index)

/-- the body of the inner loop of pass 2, as translate2 emits it -/
def phase2Inner (curvature_preload_tmp curvature_indexes_tmp : A2 α) (i : Int) (data_index : Int)
    (st : A1 α × A1 α × Int) : A1 α × A1 α × Int :=
  let curvature_preload := st.1
  let curvature_indexes := st.2.1
  let index := st.2.2
  let curvature_preload := PyRt.A1.set curvature_preload index (PyRt.A2.get curvature_preload_tmp i data_index)
  let curvature_indexes := PyRt.A1.set curvature_indexes index (PyRt.A2.get curvature_indexes_tmp i data_index)
  let index : Int := index + 1
  (curvature_preload, curvature_indexes, index)

/-- pass 2 of `w_tilde_curvature_preload_imaging_from` -/
def phase2 (trunc : α → Int) (image_pixels : Int) (curvature_preload_tmp curvature_indexes_tmp : A2 α)
    (curvature_lengths : A1 α) : A1 α × A1 α × Int :=
  let curvature_total_pairs : Int := trunc (PyRt.A1.sum curvature_lengths)
  let curvature_preload : PyRt.A1 α := PyRt.A1.zeros (α := α) curvature_total_pairs
  let curvature_indexes : PyRt.A1 α := PyRt.A1.zeros (α := α) curvature_total_pairs
  let index : Int := 0
  PyRt.forRange 0 image_pixels (curvature_preload, curvature_indexes, index) (fun i st =>
    let curvature_preload := st.1
    let curvature_indexes := st.2.1
    let index := st.2.2
    PyRt.forRange 0 (trunc (PyRt.A1.get curvature_lengths i)) (curvature_preload, curvature_indexes, index)
      (phase2Inner curvature_preload_tmp curvature_indexes_tmp i))

/-- the two passes composed as in the generated definition -/
def preloadAll (trunc : α → Int) (noise_map_native : A2 α) (kernel_native : A2 α)
    (native_index_for_slim_index : A2 Int) : A1 α × A1 α × A1 α :=
  let image_pixels : Int := PyRt.A2.shape0 native_index_for_slim_index
  let kernel_overlap_size : Int := ((2 * (PyRt.A2.shape0 kernel_native)) - 1) * ((2 * (PyRt.A2.shape1 kernel_native)) - 1)
  let st := phase1 noise_map_native kernel_native native_index_for_slim_index image_pixels kernel_overlap_size
  let st2 := phase2 trunc image_pixels st.1 st.2.1 st.2.2
  (st2.1, st2.2.1, st.2.2)

/-! ### closed forms -/

/-- the (on the diagonal halved) overlap value the preload stores for the slim-index pair `(ip0, ip1)` -/
def valOf (w : Nat) (noise : List α) (K : Kernel α) (idx : List (Nat × Nat)) (ip0 ip1 : Nat) : α :=
  if ip0 = ip1 then
    Impl.wTildeCurvatureValue w noise K (idx.getD ip0 (0, 0)) (idx.getD ip1 (0, 0)) / (1 + 1)
  else Impl.wTildeCurvatureValue w noise K (idx.getD ip0 (0, 0)) (idx.getD ip1 (0, 0))

/-- the partners `ip1 ≥ ip0` the preload keeps for `ip0` -/
def sel (w : Nat) (noise : List α) (K : Kernel α) (idx : List (Nat × Nat)) (ip0 : Nat) : List Nat :=
  (List.range' ip0 (idx.length - ip0)).filter fun ip1 => decide (valOf w noise K idx ip0 ip1 ≠ 0)

theorem wTildePreload_eq (w : Nat) (noise : List α) (K : Kernel α) (idx : List (Nat × Nat)) :
    Impl.wTildePreload w noise K idx
      = (List.range idx.length).map fun d =>
          (sel w noise K idx d).map fun i => (i, valOf w noise K idx d i) := by
  unfold Impl.wTildePreload
  apply List.map_congr_left
  intro d _
  have := append_loop (List.range' d (idx.length - d)) (fun i => valOf w noise K idx d i ≠ 0)
    (fun i => (i, valOf w noise K idx d i)) []
  simp only [List.nil_append] at this
  rw [sel, ← this]
  apply foldl_congr_mem
  intro i _ row
  simp only [valOf]
  split <;> rfl

theorem foldl_range_step {σ : Type} (n : Nat) (f : σ → Nat → σ) (S : Nat → σ)
    (h : ∀ d, d < n → f (S d) d = S (d + 1)) : (List.range n).foldl f (S 0) = S n := by
  induction n with
  | zero => rfl
  | succ n ih =>
    rw [List.range_succ, List.foldl_append, ih (fun d hd => h d (by omega))]
    simp [h n (by omega)]

theorem flatten_length_uniform {β : Type} (rs : List (List β)) (W : Nat) (hW : ∀ r ∈ rs, r.length = W) :
    rs.flatten.length = rs.length * W := by
  induction rs with
  | nil => simp
  | cons r rs ih =>
    simp only [List.flatten_cons, List.length_append, List.length_cons]
    rw [ih (fun r' hr' => hW r' (by simp [hr'])), hW r (by simp), Nat.succ_mul]; omega

/-! ### pass 1 -/

section Pass1
variable (h w : Nat) (noise : List α) (K : Kernel α) (idx : List (Nat × Nat))
  (hvalue : ∀ ip0 ip1 : Nat × Nat,
    (K.hy ≤ ip0.1 ∧ ip0.1 + K.kh ≤ h + K.hy ∧ K.hx ≤ ip0.2 ∧ ip0.2 + K.kw ≤ w + K.hx) →
    Generated.LoopsNormalEq.w_tilde_curvature_value_from (ofNative h w noise) (ofKernel K)
        (ip0.1 : Int) (ip0.2 : Int) (ip1.1 : Int) (ip1.2 : Int) false
      = Impl.wTildeCurvatureValue w noise K ip0 ip1)
  (hfp : ∀ c ∈ idx, K.hy ≤ c.1 ∧ c.1 + K.kh ≤ h + K.hy ∧ K.hx ≤ c.2 ∧ c.2 + K.kw ≤ w + K.hx)
  (h2 : ((2 : Int) : α) = 1 + 1)
include hvalue hfp h2

/-- one iteration of the inner loop of pass 1, in canonical form -/
theorem phase1Inner_eq {d i : Nat} (hd : d < idx.length) (hi : i < idx.length) (st : A2 α × A2 α × Int) :
    phase1Inner (ofNative h w noise) (ofKernel K) (ofPairs (fun k => (k : Int)) idx) (d : Int)
        ((idx.getD d (0, 0)).1 : Int) ((idx.getD d (0, 0)).2 : Int) (i : Int) st
      = if decide (valOf w noise K idx d i ≠ 0) = true then
          (A2.set st.1 (d : Int) st.2.2 (valOf w noise K idx d i),
           A2.set st.2.1 (d : Int) st.2.2 (((i : Nat) : Int) : α), st.2.2 + 1)
        else st := by
  obtain ⟨g0, g1⟩ := get_ofPairs_getD idx hi
  have hmem : idx.getD d (0, 0) ∈ idx := by
    simp [List.getD_eq_getElem?_getD, List.getElem?_eq_getElem hd]
  unfold phase1Inner
  simp only [g0, g1]
  rw [hvalue (idx.getD d (0, 0)) (idx.getD i (0, 0)) (hfp _ hmem)]
  have hval : (if ((d : Int) == (i : Int)) = true then
        Impl.wTildeCurvatureValue w noise K (idx.getD d (0, 0)) (idx.getD i (0, 0)) / ((2 : Int) : α)
      else Impl.wTildeCurvatureValue w noise K (idx.getD d (0, 0)) (idx.getD i (0, 0)))
      = valOf w noise K idx d i := by
    unfold valOf
    rw [h2]
    by_cases hdi : d = i
    · simp [hdi]
    · have : ¬ ((d : Int) = (i : Int)) := by omega
      simp [hdi, this]
  simp only [hval, bne_iff_ne, ne_eq, decide_eq_true_eq]

/-- state of pass 1 after `d` rows: the rows done are packed and zero-padded, the rest is still zero -/
def S1 (w : Nat) (noise : List α) (K : Kernel α) (idx : List (Nat × Nat)) (W d : Nat) :
    A2 α × A2 α × A1 α :=
  ({ h := idx.length, w := W,
     data := ((List.range d).map fun r =>
        padRow W 0 ((sel w noise K idx r).map (valOf w noise K idx r))).flatten
        ++ List.replicate ((idx.length - d) * W) 0 },
   { h := idx.length, w := W,
     data := ((List.range d).map fun r =>
        padRow W 0 ((sel w noise K idx r).map fun i => (((i : Nat) : Int) : α))).flatten
        ++ List.replicate ((idx.length - d) * W) 0 },
   ((List.range d).map fun r => ((((sel w noise K idx r).length : Nat) : Int) : α))
     ++ List.replicate (idx.length - d) 0)

theorem phase1Outer_step (W : Nat) (hrow : ∀ d, d < idx.length → (sel w noise K idx d).length ≤ W)
    (d : Nat) (hd : d < idx.length) :
    phase1Outer (ofNative h w noise) (ofKernel K) (ofPairs (fun k => (k : Int)) idx) (d : Int)
        (S1 w noise K idx W d)
      = S1 w noise K idx W (d + 1) := by
  obtain ⟨g0, g1⟩ := get_ofPairs_getD idx hd
  unfold phase1Outer
  simp only [g0, g1]
  -- the inner loop
  have hshape : A2.shape0 (S1 w noise K idx W d).1 = (idx.length : Int) := rfl
  rw [hshape, forRange_range']
  rw [foldl_congr_mem (l := List.range' d (idx.length - d)) (g := fun (st : A2 α × A2 α × Int) (i : Nat) =>
      if (fun i => decide (valOf w noise K idx d i ≠ 0)) i = true then
        (A2.set st.1 (d : Int) st.2.2 (valOf w noise K idx d i),
         A2.set st.2.1 (d : Int) st.2.2 ((fun (i : Nat) => (((i : Nat) : Int) : α)) i), st.2.2 + 1)
      else st)
    (h := by
      intro i hi st
      rw [List.mem_range'_1] at hi
      exact phase1Inner_eq h w noise K idx hvalue hfp h2 hd (by omega) st)]
  -- shape the buffers for `pack_row2`
  have hpre : ∀ (f : Nat → List α), (∀ r, r < d → (f r).length ≤ W) →
      (((List.range d).map fun r => padRow W 0 (f r)).flatten).length = d * W := by
    intro f hf
    rw [flatten_length_uniform _ W]
    · simp
    · intro r hr
      simp only [List.mem_map, List.mem_range] at hr
      obtain ⟨r', hr', rfl⟩ := hr
      exact padRow_length W 0 _ (hf r' hr')
  have hrep : List.replicate ((idx.length - d) * W) (0 : α)
      = List.replicate W 0 ++ List.replicate ((idx.length - (d + 1)) * W) 0 := by
    have : (idx.length - d) * W = W + (idx.length - (d + 1)) * W := by
      have : idx.length - d = (idx.length - (d + 1)) + 1 := by omega
      rw [this, Nat.succ_mul]; omega
    rw [this, List.replicate_append_replicate]
  have h0 : (0 : Int) = ((([] : List α).length : Nat) : Int) := rfl
  simp only [S1]
  have hl1 := hpre (fun r => (sel w noise K idx r).map (valOf w noise K idx r))
    (fun r hr => by simpa using hrow r (by omega))
  have hl2 := hpre (fun r => (sel w noise K idx r).map fun i => (((i : Nat) : Int) : α))
    (fun r hr => by simpa using hrow r (by omega))
  generalize hp1 : ((List.range d).map fun r =>
    padRow W (0 : α) ((sel w noise K idx r).map (valOf w noise K idx r))).flatten = pre1 at hl1 ⊢
  generalize hp2 : ((List.range d).map fun r =>
    padRow W (0 : α) ((sel w noise K idx r).map fun i => (((i : Nat) : Int) : α))).flatten = pre2 at hl2 ⊢
  have hP := pack_row2 (List.range' d (idx.length - d)) (fun i => decide (valOf w noise K idx d i ≠ 0))
    (valOf w noise K idx d) (fun (i : Nat) => (((i : Nat) : Int) : α)) (0 : α) idx.length W d hd
    pre1 pre2
    (List.replicate ((idx.length - (d + 1)) * W) 0) (List.replicate ((idx.length - (d + 1)) * W) 0)
    hl1 hl2 [] [] W rfl (by simp) (hrow d hd)
  have hd1 : ∀ pre : List α, pre ++ List.replicate ((idx.length - d) * W) 0
      = pre ++ ([] ++ List.replicate W 0) ++ List.replicate ((idx.length - (d + 1)) * W) 0 := by
    intro pre; rw [hrep]; simp
  rw [hd1 pre1, hd1 pre2, h0, hP]
  -- reassemble
  have hsel : (List.range' d (idx.length - d)).filter (fun i => decide (valOf w noise K idx d i ≠ 0))
      = sel w noise K idx d := rfl
  subst hp1 hp2
  simp only [hsel, List.length_nil, Nat.zero_add, List.nil_append, List.range_succ, List.map_append,
    List.map_cons, List.map_nil, List.flatten_append, List.flatten_cons, List.flatten_nil, List.append_nil,
    padRow, List.length_map]
  refine Prod.ext rfl (Prod.ext rfl ?_)
  simp only [A1.set_natCast]
  have hl : ((List.range d).map fun r => ((((sel w noise K idx r).length : Nat) : Int) : α)).length = d := by
    simp
  have : idx.length - d = (idx.length - (d + 1)) + 1 := by omega
  rw [this]
  have hset : ∀ (xs : List α) (k n : Nat) (z a : α), xs.length = k →
      (xs ++ List.replicate (n + 1) z).set k a = xs ++ [a] ++ List.replicate n z := by
    intro xs k n z a hk; subst hk; exact set_pack xs n z a
  exact hset _ _ _ _ _ hl

/-- pass 1 in closed form -/
theorem phase1_eq (Wz : Int) (hrow : ∀ d, d < idx.length → (sel w noise K idx d).length ≤ Wz.toNat) :
    phase1 (ofNative h w noise) (ofKernel K) (ofPairs (fun k => (k : Int)) idx) (idx.length : Int) Wz
      = S1 w noise K idx Wz.toNat idx.length := by
  unfold phase1
  simp only [forRange_zero_nat]
  have hinit : ((A2.zeros (idx.length : Int) Wz : A2 α), (A2.zeros (idx.length : Int) Wz : A2 α),
      (A1.zeros (idx.length : Int) : A1 α)) = S1 w noise K idx Wz.toNat 0 := by
    simp [S1, A2.zeros, A2.full, A1.zeros, A1.full]
  rw [hinit]
  exact foldl_range_step idx.length _ (S1 w noise K idx Wz.toNat)
    (fun d hd => phase1Outer_step h w noise K idx hvalue hfp h2 Wz.toNat hrow d hd)

end Pass1

/-! ### pass 2 -/

theorem lsum_range_succ (c : Nat → Nat) (i : Nat) :
    lsum ((List.range (i + 1)).map c) = lsum ((List.range i).map c) + c i := by
  rw [List.range_succ, List.map_append, lsum_append]; simp

theorem lsum_range_le (c : Nat → Nat) {i n : Nat} (h : i ≤ n) :
    lsum ((List.range i).map c) ≤ lsum ((List.range n).map c) := by
  induction n with
  | zero => have : i = 0 := by omega
            subst this; exact Nat.le_refl _
  | succ n ih =>
    by_cases hi : i = n + 1
    · subst hi; exact Nat.le_refl _
    · have := ih (by omega)
      rw [lsum_range_succ]; omega

theorem flat_length {β : Type} (sl : Nat → List Nat) (f : Nat → Nat → β) (i : Nat) :
    (((List.range i).map fun r => (sl r).map (f r)).flatten).length
      = lsum ((List.range i).map fun r => (sl r).length) := by
  rw [← lsum_map_length, List.map_map]
  congr 1
  apply List.map_congr_left
  intro r _
  simp

theorem padRow_getD {β : Type} (W : Nat) (z : β) (r : List β) (k : Nat) (hk : k < r.length) (d : β) :
    (padRow W z r).getD k d = r.getD k z := by
  simp [padRow, List.getD_eq_getElem?_getD, List.getElem?_append_left hk, List.getElem?_eq_getElem hk]

section Pass2
variable (w : Nat) (noise : List α) (K : Kernel α) (idx : List (Nat × Nat)) (trunc : α → Int) (W : Nat)
  (hcast0 : ((0 : Int) : α) = 0)
  (hadd : ∀ a b : Nat, (((a : Nat) : Int) : α) + (((b : Nat) : Int) : α) = (((a + b : Nat) : Int) : α))
  (htrunc : ∀ k : Nat, trunc (((k : Nat) : Int) : α) = (k : Int))
  (hrow : ∀ d, d < idx.length → (sel w noise K idx d).length ≤ W)
include hcast0 hadd htrunc hrow

/-- a read of a packed temporary in pass 2 -/
theorem get_S1 (f : Nat → Nat → α) {i k : Nat} (hi : i < idx.length) (hk : k < (sel w noise K idx i).length) :
    A2.get (A2.mk idx.length W
        (((List.range idx.length).map fun r => padRow W (0 : α) ((sel w noise K idx r).map (f r))).flatten
          ++ List.replicate ((idx.length - idx.length) * W) 0)) (i : Int) (k : Int)
      = ((sel w noise K idx i).map (f i)).getD k 0 := by
  have hkW : k < W := Nat.lt_of_lt_of_le hk (hrow i hi)
  rw [A2.get_natCast _ _ _ hi hkW]
  simp only [Nat.sub_self, Nat.zero_mul, List.replicate_zero, List.append_nil]
  rw [getD_flatten_uniform _ W _ i k (by simpa using hi) hkW]
  · have : ((List.range idx.length).map fun r => padRow W (0 : α) ((sel w noise K idx r).map (f r))).getD i []
        = padRow W 0 ((sel w noise K idx i).map (f i)) := by
      simp [List.getD_eq_getElem?_getD, hi]
    rw [this, padRow_getD _ _ _ _ (by simpa using hk)]
  · intro r hr
    simp only [List.mem_map, List.mem_range] at hr
    obtain ⟨r', hr', rfl⟩ := hr
    exact padRow_length W 0 _ (by simpa using hrow r' hr')

/-- pass 2 in closed form -/
theorem phase2_eq :
    phase2 trunc (idx.length : Int) (S1 w noise K idx W idx.length).1 (S1 w noise K idx W idx.length).2.1
        (S1 w noise K idx W idx.length).2.2
      = (((List.range idx.length).map fun r => (sel w noise K idx r).map (valOf w noise K idx r)).flatten,
         ((List.range idx.length).map fun r =>
            (sel w noise K idx r).map fun i => (((i : Nat) : Int) : α)).flatten,
         ((lsum ((List.range idx.length).map fun r => (sel w noise K idx r).length) : Nat) : Int)) := by
  generalize hcnt : (fun r => (sel w noise K idx r).length) = cnt
  have hcntr : ∀ r, (sel w noise K idx r).length = cnt r := fun r => by rw [← hcnt]
  generalize htot : lsum ((List.range idx.length).map cnt) = tot
  have hlens : (S1 w noise K idx W idx.length).2.2
      = (List.range idx.length).map fun r => (((cnt r : Nat) : Int) : α) := by
    simp [S1, hcntr]
  unfold phase2
  rw [hlens]
  have hsum : A1.sum ((List.range idx.length).map fun r => (((cnt r : Nat) : Int) : α))
      = (((tot : Nat) : Int) : α) := by
    have := sum_casts ((List.range idx.length).map cnt) hcast0 hadd
    rw [List.map_map] at this
    rw [← htot, ← this]; rfl
  simp only [hsum, htrunc, A1.zeros_natCast, forRange_zero_nat]
  -- the outer loop, row by row
  have hF1 : ∀ i, (((List.range i).map fun r =>
      (sel w noise K idx r).map (valOf w noise K idx r)).flatten).length = lsum ((List.range i).map cnt) := by
    intro i; rw [flat_length, hcnt]
  have hF2 : ∀ i, (((List.range i).map fun r =>
      (sel w noise K idx r).map fun i => (((i : Nat) : Int) : α)).flatten).length
        = lsum ((List.range i).map cnt) := by
    intro i; rw [flat_length (f := fun _ i => (((i : Nat) : Int) : α)), hcnt]
  have hstep := foldl_range_step idx.length
    (fun (s : A1 α × A1 α × Int) (k : Nat) =>
      forRange 0 (trunc (A1.get ((List.range idx.length).map fun r => (((cnt r : Nat) : Int) : α)) (k : Int)))
        (s.1, s.2.1, s.2.2)
        (phase2Inner (S1 w noise K idx W idx.length).1 (S1 w noise K idx W idx.length).2.1 (k : Int)))
    (fun i =>
      (((List.range i).map fun r => (sel w noise K idx r).map (valOf w noise K idx r)).flatten
          ++ List.replicate (tot - lsum ((List.range i).map cnt)) 0,
       ((List.range i).map fun r => (sel w noise K idx r).map fun i => (((i : Nat) : Int) : α)).flatten
          ++ List.replicate (tot - lsum ((List.range i).map cnt)) 0,
       ((lsum ((List.range i).map cnt) : Nat) : Int)))
    ?_
  · simp only [List.range_zero, List.map_nil, List.flatten_nil, List.nil_append, lsum_nil, Nat.sub_zero,
      Int.natCast_zero, htot, Nat.sub_self, List.replicate_zero, List.append_nil] at hstep
    exact hstep
  · intro i hi
    have hb : trunc (A1.get ((List.range idx.length).map fun r => (((cnt r : Nat) : Int) : α)) (i : Int))
        = ((cnt i : Nat) : Int) := by
      rw [A1.get_natCast]
      have : ((List.range idx.length).map fun r => (((cnt r : Nat) : Int) : α)).getD i default
          = (((cnt i : Nat) : Int) : α) := by
        simp [List.getD_eq_getElem?_getD, hi]
      rw [this, htrunc]
    simp only [hb, forRange_zero_nat]
    rw [foldl_congr_mem (l := List.range (cnt i)) (g := fun (st : A1 α × A1 α × Int) (k : Nat) =>
        (A1.set st.1 st.2.2 ((fun k => ((sel w noise K idx i).map (valOf w noise K idx i)).getD k 0) k),
         A1.set st.2.1 st.2.2
           ((fun k => ((sel w noise K idx i).map fun i => (((i : Nat) : Int) : α)).getD k 0) k),
         st.2.2 + 1))
      (h := by
        intro k hk st
        have hk' : k < (sel w noise K idx i).length := by rw [hcntr]; simpa using hk
        unfold phase2Inner
        simp only [S1]
        rw [get_S1 w noise K idx trunc W hcast0 hadd htrunc hrow (valOf w noise K idx) hi hk',
          get_S1 w noise K idx trunc W hcast0 hadd htrunc hrow (fun _ i => (((i : Nat) : Int) : α)) hi hk'])]
    have hle : lsum ((List.range (i + 1)).map cnt) ≤ tot := by
      rw [← htot]; exact lsum_range_le cnt (by omega)
    rw [lsum_range_succ] at hle
    have hC := copy_loop (List.range (cnt i))
      (fun k => ((sel w noise K idx i).map (valOf w noise K idx i)).getD k 0)
      (fun k => ((sel w noise K idx i).map fun i => (((i : Nat) : Int) : α)).getD k 0) (0 : α)
      ((List.range i).map fun r => (sel w noise K idx r).map (valOf w noise K idx r)).flatten
      ((List.range i).map fun r => (sel w noise K idx r).map fun i => (((i : Nat) : Int) : α)).flatten
      (tot - lsum ((List.range i).map cnt)) (by rw [hF1, hF2]) (by simp; omega)
    rw [hF1] at hC
    rw [hC]
    have m1 : (List.range (cnt i)).map (fun k => ((sel w noise K idx i).map (valOf w noise K idx i)).getD k 0)
        = (sel w noise K idx i).map (valOf w noise K idx i) := by
      have := map_range_getD ((sel w noise K idx i).map (valOf w noise K idx i)) 0 id
      simpa [hcntr] using this
    have m2 : (List.range (cnt i)).map
          (fun k => ((sel w noise K idx i).map fun i => (((i : Nat) : Int) : α)).getD k 0)
        = (sel w noise K idx i).map fun i => (((i : Nat) : Int) : α) := by
      have := map_range_getD ((sel w noise K idx i).map fun i => (((i : Nat) : Int) : α)) 0 id
      simpa [hcntr] using this
    rw [m1, m2, lsum_range_succ]
    simp only [List.length_range, List.range_succ, List.map_append, List.map_cons, List.map_nil,
      List.flatten_append, List.flatten_cons, List.flatten_nil, List.append_nil, Nat.sub_sub]

end Pass2

end TieNormalEqAux
