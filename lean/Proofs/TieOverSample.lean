/-
Proofs/TieOverSample.lean — LOOP TIES for property C09 (over-sampling): the definitions that
harness/translate2.py regenerates from the current Python source (Generated/LoopsOverSample.lean) are
equal, for every input and every size, to the hand-written `Model.Impl.*` functions of
Model/OverSample.lean that the theorems of Props/C09.lean are about.  Only `*_tie` theorems live in
this file (helpers: Proofs/TieCore.lean, Proofs/TieOverSampleAux.lean).  See design_notes/LOOP_TIES.md
for the proof pattern and design_notes/TIES_C09.md for what is tied under which hypotheses.
-/
import Generated.LoopsOverSample
import Model.OverSample
import Proofs.Slim
import Proofs.OverSample
import Proofs.TieCore
import Proofs.TieOverSampleAux
import Mathlib.Tactic.Ring
import Mathlib.Algebra.Order.Field.Basic

open Model PyRt TieCore TieOverSampleAux

namespace TieOverSample

/-- `over_sample_util.total_sub_pixels_2d_from` = `Σ sub²` (the model's `Spec.offset` past the last entry) -/
theorem total_sub_pixels_2d_from_tie (sub : List Nat) :
    Generated.LoopsOverSample.total_sub_pixels_2d_from (subInt sub)
      = ((Spec.offset sub sub.length : Nat) : Int) := by
  unfold Generated.LoopsOverSample.total_sub_pixels_2d_from
  exact sum_sq_subInt sub

/-- `mask_2d_util.total_pixels_2d_from` (callee of `binned_array_2d_from`) = `Impl.totalPixels` -/
theorem total_pixels_2d_from_tie (m : Mask) (wf : m.WF) :
    Generated.LoopsOverSample.total_pixels_2d_from (ofMask m) = (Impl.totalPixels m : Int) := by
  unfold Generated.LoopsOverSample.total_pixels_2d_from Impl.totalPixels
  rw [forYX_eq_foldl]
  simp only [A2.shape0_eq, A2.shape1_eq, ofMask_h, ofMask_w, forRange_yx]
  apply foldl_rel (fun (s : Int) (t : Nat) => s = (t : Int))
  · rfl
  · intro p hp s t hst
    rw [mem_pixels] at hp
    rw [get_ofMask m wf hp.1 hp.2, hst]
    split <;> simp

/-- `over_sample_util.slim_index_for_sub_slim_index_via_mask_2d_from` on the whole domain where Python
    does not raise (a sub-size for AT LEAST every unmasked pixel): `Impl.slimForSubSlim`, followed by the
    zeros the surplus sub-sizes reserve in the `np.zeros(total_sub_pixels)` buffer -/
theorem slim_index_for_sub_slim_index_via_mask_2d_from_padded_tie {α : Type} [OfNat α 0] [IntCast α]
    (m : Mask) (wf : m.WF) (sub : List Nat) (hsub : Impl.totalPixels m ≤ sub.length) :
    Generated.LoopsOverSample.slim_index_for_sub_slim_index_via_mask_2d_from (α := α) (ofMask m) (subInt sub)
      = (Impl.slimForSubSlim m sub).map (fun (k : Nat) => ((k : Int) : α))
          ++ List.replicate (Spec.offset sub sub.length - Spec.offset sub (Impl.totalPixels m)) 0 := by
  unfold Generated.LoopsOverSample.slim_index_for_sub_slim_index_via_mask_2d_from
  rw [total_sub_pixels_2d_from_tie]
  simp only [A2.shape0_eq, A2.shape1_eq, ofMask_h, ofMask_w, forRange_yx_int, Int.toNat_natCast,
    A1.zeros_natCast]
  rw [foldl_congr_mem (g := fun (st : A1 α × Int × Int) p =>
      if !m.get p.1 p.2 then
        (((pixels (A1.get (subInt sub) st.2.1).toNat (A1.get (subInt sub) st.2.1).toNat).foldl
            (fun (s : A1 α × Int) _ => (A1.set s.1 s.2 ((st.2.1 : Int) : α), s.2 + 1)) (st.1, st.2.2)).1,
         st.2.1 + 1,
         ((pixels (A1.get (subInt sub) st.2.1).toNat (A1.get (subInt sub) st.2.1).toNat).foldl
            (fun (s : A1 α × Int) _ => (A1.set s.1 s.2 ((st.2.1 : Int) : α), s.2 + 1)) (st.1, st.2.2)).2)
      else st)]
  · have hN : ((pixels m.h m.w).filter fun p => !m.get p.1 p.2).length = Impl.totalPixels m := by
      rw [totalPixels_eq]; rfl
    have hb := blocks_length (pixels m.h m.w) (fun p => !m.get p.1 p.2) sub
      (fun _ j _ => ((j : Int) : α))
    rw [hN] at hb
    have hmono : Spec.offset sub (Impl.totalPixels m) ≤ Spec.offset sub sub.length := by
      rw [offset_eq_offs]; exact offs_mono _ hsub
    have := pack_blocks_A1 (pixels m.h m.w) (fun p => !m.get p.1 p.2)
      (fun _ j => pixels (A1.get (subInt sub) j).toNat (A1.get (subInt sub) j).toNat)
      (fun _ j _ => ((j : Int) : α)) (0 : α) []
      (List.replicate (Spec.offset sub sub.length - Spec.offset sub (Impl.totalPixels m)) 0) 0
    have e : Spec.offset sub (Impl.totalPixels m)
        + (Spec.offset sub sub.length - Spec.offset sub (Impl.totalPixels m)) = Spec.offset sub sub.length := by
      omega
    rw [hb, List.replicate_append_replicate, e] at this
    simp only [List.nil_append, List.length_nil, Int.natCast_zero] at this
    rw [this, slimForSubSlim_blocks]
    simp only [blocksOf, get_subInt, Int.toNat_natCast, List.map_flatMap, List.map_map]
    rfl
  · intro p hp st
    rw [mem_pixels] at hp
    rw [get_ofMask m wf hp.1 hp.2]

/-- `over_sample_util.slim_index_for_sub_slim_index_via_mask_2d_from` = `Impl.slimForSubSlim` (one sub-size
    per unmasked pixel, the domain of the hand model) -/
theorem slim_index_for_sub_slim_index_via_mask_2d_from_tie {α : Type} [OfNat α 0] [IntCast α]
    (m : Mask) (wf : m.WF) (sub : List Nat) (hsub : sub.length = Impl.totalPixels m) :
    Generated.LoopsOverSample.slim_index_for_sub_slim_index_via_mask_2d_from (α := α) (ofMask m) (subInt sub)
      = (Impl.slimForSubSlim m sub).map (fun (k : Nat) => ((k : Int) : α)) := by
  rw [slim_index_for_sub_slim_index_via_mask_2d_from_padded_tie m wf sub (by omega), ← hsub, Nat.sub_self,
    List.replicate_zero, List.append_nil]

/-- `over_sample_util.native_sub_index_for_slim_sub_index_2d_from` on the whole domain where Python does
    not raise: the rows of `Impl.subNativeForSubSlim`, then the zero rows of the surplus sub-sizes -/
theorem native_sub_index_for_slim_sub_index_2d_from_padded_tie {α : Type} [OfNat α 0] [IntCast α]
    (m : Mask) (wf : m.WF) (sub : List Nat) (hsub : Impl.totalPixels m ≤ sub.length) :
    Generated.LoopsOverSample.native_sub_index_for_slim_sub_index_2d_from (α := α) (ofMask m) (subInt sub)
      = ofPointsPadded ((Impl.subNativeForSubSlim m sub).map fun p => (((p.1 : Int) : α), ((p.2 : Int) : α)))
          (Spec.offset sub sub.length - Spec.offset sub (Impl.totalPixels m)) 0 := by
  unfold Generated.LoopsOverSample.native_sub_index_for_slim_sub_index_2d_from
  rw [total_sub_pixels_2d_from_tie]
  simp only [A2.shape0_eq, A2.shape1_eq, ofMask_h, ofMask_w, forRange_yx_int, Int.toNat_natCast,
    A2.zeros, A2.full, toNat_two]
  have hN : ((pixels m.h m.w).filter fun p => !m.get p.1 p.2).length = Impl.totalPixels m := by
    rw [totalPixels_eq]; rfl
  have hmono : Spec.offset sub (Impl.totalPixels m) ≤ Spec.offset sub sub.length := by
    rw [offset_eq_offs]; exact offs_mono _ hsub
  rw [foldl_congr_mem (g := stepRows2 (fun p => !m.get p.1 p.2)
      (fun _ j => pixels (A1.get (subInt sub) j).toNat (A1.get (subInt sub) j).toNat)
      (fun p j q => ((((p.1 : Nat) : Int) * A1.get (subInt sub) j + ((q.1 : Nat) : Int) : Int) : α))
      (fun p j q => ((((p.2 : Nat) : Int) * A1.get (subInt sub) j + ((q.2 : Nat) : Int) : Int) : α)))]
  · rw [pack_blocks_rows2_padded _ _ _ _ _ _ _
        (Spec.offset sub sub.length - Spec.offset sub (Impl.totalPixels m))
        (by rw [blocks_length, hN]; omega),
      subNativeForSubSlim_eq, slimPixels_eq]
    simp only [blocksOf, get_subInt, Int.toNat_natCast, List.map_flatMap, List.map_map,
      Function.comp_def, Int.natCast_add, Int.natCast_mul]
  · intro p hp st
    rw [mem_pixels] at hp
    rw [get_ofMask m wf hp.1 hp.2]
    rfl

/-- `over_sample_util.native_sub_index_for_slim_sub_index_2d_from` = `Impl.subNativeForSubSlim` (one
    sub-size per unmasked pixel) -/
theorem native_sub_index_for_slim_sub_index_2d_from_tie {α : Type} [OfNat α 0] [IntCast α]
    (m : Mask) (wf : m.WF) (sub : List Nat) (hsub : sub.length = Impl.totalPixels m) :
    Generated.LoopsOverSample.native_sub_index_for_slim_sub_index_2d_from (α := α) (ofMask m) (subInt sub)
      = ofPairs (fun k => ((k : Int) : α)) (Impl.subNativeForSubSlim m sub) := by
  rw [native_sub_index_for_slim_sub_index_2d_from_padded_tie m wf sub (by omega), ← hsub, Nat.sub_self,
    ofPointsPadded_zero, ofPairs_eq_ofPoints]

/-- `over_sample_util.binned_array_2d_from` = `Impl.binned` (a sub-size for every unmasked pixel, a value
    for every sub-pixel): the code accumulates in place into `np.zeros(total_pixels)`, the model appends
    the finished means -/
theorem binned_array_2d_from_tie {α : Type} [Field α] [Inhabited α]
    (m : Mask) (wf : m.WF) (sub : List Nat) (a : List α)
    (hsub : Impl.totalPixels m ≤ sub.length) (ha : Spec.offset sub (Impl.totalPixels m) ≤ a.length) :
    Generated.LoopsOverSample.binned_array_2d_from a (ofMask m) (subInt sub) = Impl.binned m sub a := by
  unfold Generated.LoopsOverSample.binned_array_2d_from
  rw [total_pixels_2d_from_tie m wf]
  simp only [A2.shape0_eq, A2.shape1_eq, ofMask_h, ofMask_w, forRange_yx_int, Int.toNat_natCast,
    A1.zeros_natCast]
  rw [foldl_congr_mem (g := stepAccum (fun p => !m.get p.1 p.2)
      (fun j => pixels (A1.get (subInt sub) j).toNat (A1.get (subInt sub) j).toNat)
      (fun j cnt => A1.get a cnt *
        A1.get (A1.map (fun (u2 : Int) => (1 : α) / (u2 : α))
          (A1.map (fun u1 => PyRt.sq u1) (subInt sub))) j))]
  · rw [accum_blocks _ _ _ _ _ _ (by rw [totalPixels_eq]; rfl), binned_loop, ← totalPixels_eq]
    apply List.map_congr_left
    intro k hk
    have hk : k < Impl.totalPixels m := by simpa using hk
    have hlen : ∀ i : Nat, (pixels (A1.get (subInt sub) (i : Int)).toNat
        (A1.get (subInt sub) (i : Int)).toNat).length = sub.getD i 0 * sub.getD i 0 := by
      intro i; simp only [get_subInt, Int.toNat_natCast, pixels_length]
    have hfrac : A1.get (A1.map (fun (u2 : Int) => (1 : α) / (u2 : α))
          (A1.map (fun u1 => PyRt.sq u1) (subInt sub))) (k : Int)
        = 1 / ((sub.getD k 0 * sub.getD k 0 : Nat) : α) := by
      have hk' : k < sub.length := by omega
      simp [A1.map, subInt, List.getD_eq_getElem?_getD, hk', PyRt.sq]
    unfold accumVal
    simp only [hlen, hfrac]
    congr 1
    apply List.map_congr_left
    intro j hj
    have hj : j < sub.getD k 0 * sub.getD k 0 := by simpa using hj
    have hoff : Spec.offset sub k + j < a.length := by
      have h1 : Spec.offset sub (k + 1) ≤ Spec.offset sub (Impl.totalPixels m) := by
        rw [offset_eq_offs]; exact offs_mono _ (by omega)
      have h2 : Spec.offset sub (k + 1) = Spec.offset sub k + sub.getD k 0 * sub.getD k 0 := by
        rw [offset_eq_offs, offs_succ]
      omega
    rw [← offset_eq_offs, get_A1 a 0 hoff]
  · intro p hp st
    rw [mem_pixels] at hp
    rw [get_ofMask m wf hp.1 hp.2]
    rfl

/-- `geometry_util.central_pixel_coordinates_2d_from` (callee; C09's model inlines it into
    `Impl.centresScaled`): the centre at unit pixel scale and zero origin -/
theorem central_pixel_coordinates_2d_from_tie {α : Type} [Field α] (h w : Nat) :
    Generated.LoopsOverSample.central_pixel_coordinates_2d_from (α := α) ((h : Int), (w : Int))
      = Impl.centresScaled h w ⟨1, 1, 0, 0⟩ := by
  simp [Generated.LoopsOverSample.central_pixel_coordinates_2d_from, Impl.centresScaled]

/-- `geometry_util.central_scaled_coordinate_2d_from` (callee) = `Impl.centresScaled` -/
theorem central_scaled_coordinate_2d_from_tie {α : Type} [Field α] (h w : Nat) (g : Geom α) :
    Generated.LoopsOverSample.central_scaled_coordinate_2d_from ((h : Int), (w : Int)) (g.sy, g.sx) (g.oy, g.ox)
      = Impl.centresScaled h w g := by
  unfold Generated.LoopsOverSample.central_scaled_coordinate_2d_from
  rw [central_pixel_coordinates_2d_from_tie]
  simp [Impl.centresScaled]

/-- `over_sample_util.grid_2d_slim_over_sampled_via_mask_from` on the whole domain where Python does not
    raise: the points of `Impl.overSampledGrid`, then the zero rows of the surplus sub-sizes -/
theorem grid_2d_slim_over_sampled_via_mask_from_padded_tie {α : Type} [Field α]
    (m : Mask) (wf : m.WF) (sub : List Nat) (hsub : Impl.totalPixels m ≤ sub.length) (g : Geom α) :
    Generated.LoopsOverSample.grid_2d_slim_over_sampled_via_mask_from (ofMask m) (g.sy, g.sx) (subInt sub)
        (g.oy, g.ox)
      = ofPointsPadded (Impl.overSampledGrid m sub g)
          (Spec.offset sub sub.length - Spec.offset sub (Impl.totalPixels m)) 0 := by
  unfold Generated.LoopsOverSample.grid_2d_slim_over_sampled_via_mask_from
  rw [sum_sq_subInt]
  simp only [A2.shape0_eq, A2.shape1_eq, ofMask_h, ofMask_w, central_scaled_coordinate_2d_from_tie,
    forRange_yx_int, Int.toNat_natCast, A2.zeros, A2.full, toNat_two]
  have hN : ((pixels m.h m.w).filter fun p => !m.get p.1 p.2).length = Impl.totalPixels m := by
    rw [totalPixels_eq]; rfl
  have hmono : Spec.offset sub (Impl.totalPixels m) ≤ Spec.offset sub sub.length := by
    rw [offset_eq_offs]; exact offs_mono _ hsub
  rw [foldl_congr_mem (g := stepRows2 (fun p => !m.get p.1 p.2)
      (fun _ j => pixels (A1.get (subInt sub) j).toNat (A1.get (subInt sub) j).toNat)
      (fun p j q =>
        -(((((p.1 : Nat) : Int) : α) - (Impl.centresScaled m.h m.w g).1) * g.sy - g.sy / ((2 : Int) : α)
            + (((q.1 : Nat) : Int) : α) * (g.sy / ((A1.get (subInt sub) j : Int) : α))
          + g.sy / ((A1.get (subInt sub) j : Int) : α) / ((2 : Int) : α)))
      (fun p j q =>
        ((((p.2 : Nat) : Int) : α) - (Impl.centresScaled m.h m.w g).2) * g.sx - g.sx / ((2 : Int) : α)
            + (((q.2 : Nat) : Int) : α) * (g.sx / ((A1.get (subInt sub) j : Int) : α))
          + g.sx / ((A1.get (subInt sub) j : Int) : α) / ((2 : Int) : α)))]
  · rw [pack_blocks_rows2_padded _ _ _ _ _ _ _
        (Spec.offset sub sub.length - Spec.offset sub (Impl.totalPixels m))
        (by rw [blocks_length, hN]; omega),
      overSampledGrid_loop, slimPixels_eq]
    simp only [blocksOf, get_subInt, Int.toNat_natCast, Impl.subPoint, Int.cast_natCast, Int.cast_ofNat]
  · intro p hp st
    rw [mem_pixels] at hp
    rw [get_ofMask m wf hp.1 hp.2]
    rfl

/-- `over_sample_util.grid_2d_slim_over_sampled_via_mask_from` = `Impl.overSampledGrid` (one sub-size per
    unmasked pixel) -/
theorem grid_2d_slim_over_sampled_via_mask_from_tie {α : Type} [Field α]
    (m : Mask) (wf : m.WF) (sub : List Nat) (hsub : sub.length = Impl.totalPixels m) (g : Geom α) :
    Generated.LoopsOverSample.grid_2d_slim_over_sampled_via_mask_from (ofMask m) (g.sy, g.sx) (subInt sub)
        (g.oy, g.ox)
      = ofPoints (Impl.overSampledGrid m sub g) := by
  rw [grid_2d_slim_over_sampled_via_mask_from_padded_tie m wf sub (by omega), ← hsub, Nat.sub_self,
    ofPointsPadded_zero]

/-- `iterate.iterated_array_jit_from` = `Impl.iteratedArray` (all four arrays have the same shape) -/
theorem iterated_array_jit_from_tie {α : Type} [OfNat α 0] [Inhabited α] (h w : Nat)
    (iter : List α) (tmHigher tmLower : List Bool) (higher : List α)
    (hH : tmHigher.length = h * w) (hL : tmLower.length = h * w) (hhi : higher.length = h * w) :
    Generated.LoopsOverSample.iterated_array_jit_from (ofNative h w iter) (ofNative h w tmHigher)
        (ofNative h w tmLower) (ofNative h w higher)
      = ofNative h w (Impl.iteratedArray h w iter tmHigher tmLower higher) := by
  unfold Generated.LoopsOverSample.iterated_array_jit_from Impl.iteratedArray
  simp only [A2.shape0_eq, A2.shape1_eq, ofNative_h]
  rw [pass_tie_w h w _ (fun it y x =>
      if tmHigher.getD (y * w + x) true && !tmLower.getD (y * w + x) true then
        it.set (y * w + x) (higher.getD (y * w + x) 0)
      else it)]
  intro y x hy hx t
  rw [get_ofNative h w tmHigher hH true hy hx, get_ofNative h w tmLower hL true hy hx,
    get_ofNative h w higher hhi 0 hy hx, A2.set_natCast _ _ _ _ (by simpa using hy) (by simpa using hx)]
  split <;> rfl

/-- `iterate.threshold_mask_via_arrays_jit_from` = `Impl.thresholdMask` with both thresholds set (the
    translator decides `x is not None` statically for a declared parameter), started from the all-`True`
    array the caller passes -/
theorem threshold_mask_via_arrays_jit_from_tie {α : Type} [Sub α] [Div α] [Neg α] [OfNat α 0]
    [OfNat α 1] [IntCast α] [LT α] [DecidableLT α] [Inhabited α] (fr rel : α) (h w : Nat)
    (higher lower : List α) (higherMask : List Bool)
    (hhi : higher.length = h * w) (hlo : lower.length = h * w) (hm : higherMask.length = h * w) :
    Generated.LoopsOverSample.threshold_mask_via_arrays_jit_from fr rel
        (ofNative h w (List.replicate (h * w) true)) (ofNative h w higher) (ofNative h w lower)
        (ofNative h w higherMask)
      = ofNative h w (Impl.thresholdMask (some fr) (some rel) h w higher lower higherMask) := by
  unfold Generated.LoopsOverSample.threshold_mask_via_arrays_jit_from
  simp only [↓reduceIte, A2.shape0_eq, A2.shape1_eq, ofNative_h]
  rw [pass_tie_w h w _ (fun tm y x =>
      if !higherMask.getD (y * w + x) true then
        if Impl.fracAccuracy (lower.getD (y * w + x) 0) (higher.getD (y * w + x) 0) < fr then
          tm.set (y * w + x) false
        else tm
      else tm)]
  · simp only [ofNative_h]
    rw [pass_tie_w h w _ (fun tm y x =>
        if !higherMask.getD (y * w + x) true then
          if rel < Impl.absDiff (lower.getD (y * w + x) 0) (higher.getD (y * w + x) 0) then
            tm.set (y * w + x) false
          else tm
        else tm)]
    · rfl
    · intro y x hy hx t
      rw [get_ofNative h w higherMask hm true hy hx, get_ofNative h w lower hlo 0 hy hx,
        get_ofNative h w higher hhi 0 hy hx,
        A2.set_natCast _ _ _ _ (by simpa using hy) (by simpa using hx)]
      simp only [decide_eq_true_eq, gt_iff_lt, PyRt.abs, Impl.absDiff]
      split
      · repeat' split
        all_goals rfl
      · rfl
  · intro y x hy hx t
    rw [get_ofNative h w higherMask hm true hy hx, get_ofNative h w lower hlo 0 hy hx,
      get_ofNative h w higher hhi 0 hy hx,
      A2.set_natCast _ _ _ _ (by simpa using hy) (by simpa using hx)]
    simp only [decide_eq_true_eq, gt_iff_lt, Impl.fracAccuracy]
    split
    · repeat' split
      all_goals rfl
    · rfl

end TieOverSample
