/-
Proofs/TieOverSample2Aux.lean — helper lemmas of Proofs/TieOverSample2.lean.
-/
import Proofs.TieCore

open Model PyRt TieCore

namespace TieOverSample2Aux

/-- `a[-1]` on a non-empty 1-D array is its last entry -/
theorem get_last {β : Type} [Inhabited β] (l : List β) (d : β) (h : l ≠ []) :
    A1.get l (-1) = l.getD (l.length - 1) d := by
  have hpos : 0 < l.length := List.length_pos_iff.mpr h
  unfold A1.get norm
  have h1 : ¬ (0 : Int) ≤ -1 := by omega
  have h2 : -(l.length : Int) ≤ -1 := by omega
  have h3 : ((-1 : Int) + (l.length : Int)).toNat = l.length - 1 := by omega
  simp only [h1, h2, if_false, if_true, h3]
  have hlt : l.length - 1 < l.length := by omega
  simp [List.getD_eq_getElem?_getD, List.getElem?_eq_getElem hlt]

/-- the model's `-1` / index entries as numpy floats -/
def optIdx {α : Type} [Neg α] [OfNat α 1] [IntCast α] : Option Nat → α
  | none => -(1 : α)
  | some k => (((k : Nat) : Int) : α)

end TieOverSample2Aux
