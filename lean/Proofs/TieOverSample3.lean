/-
Proofs/TieOverSample3.lean — LOOP TIE for property C09 (over-sampling): the definition that harness/translate2.py
regenerates from the current Python source of `over_sample_util.oversample_mask_2d_from`
(Generated/LoopsOverSample3.lean) is equal, for every mask and every sub-size, to the hand-written
`Model.Impl.oversampleMask` of Model/OverSampleMask.lean, whose closed form (`out[Y, X] = mask[Y / s, X / s]`) is
proved in Proofs/OverSampleMask.lean.  Only `*_tie` theorems live in this file.  See design_notes/TIES_blocked.md.
-/
import Generated.LoopsOverSample3
import Model.OverSampleMask
import Proofs.Core
import Proofs.TieCore

open Model PyRt TieCore

namespace TieOverSample3

/-- `over_sample_util.oversample_mask_2d_from` = `Impl.oversampleMask` (the block store
    `a[y*s:(y+1)*s, x*s:(x+1)*s] = False` of every unmasked pixel, for every frame and every sub-size) -/
theorem oversample_mask_2d_from_tie (m : Mask) (wf : m.WF) (s : Nat) :
    Generated.LoopsOverSample3.oversample_mask_2d_from (ofMask m) (s : Int)
      = ofMask (Impl.oversampleMask m s) := by
  unfold Generated.LoopsOverSample3.oversample_mask_2d_from Impl.oversampleMask Impl.oversampleBits
  simp only [A2.shape0_eq, A2.shape1_eq, ofMask_h, ofMask_w, forRange_yx, forYX_eq_foldl]
  rw [← Int.natCast_mul, ← Int.natCast_mul, A2.full_natCast]
  refine foldl_rel (fun (A : A2 Bool) (acc : List Bool) => A = { h := m.h * s, w := m.w * s, data := acc })
    (pixels m.h m.w) _ _ rfl ?_
  intro p hp A acc hA
  obtain ⟨hy, hx⟩ := mem_pixels.1 hp
  subst hA
  rw [get_ofMask m wf hy hx]
  by_cases hg : (!m.get p.1 p.2) = true
  · have e0 : (p.1 : Int) * (s : Int) = ((p.1 * s : Nat) : Int) := by rw [Int.natCast_mul]
    have e1 : ((p.1 : Int) + 1) * (s : Int) = (((p.1 + 1) * s : Nat) : Int) := by
      rw [Int.natCast_mul, Int.natCast_add]; rfl
    have e2 : (p.2 : Int) * (s : Int) = ((p.2 * s : Nat) : Int) := by rw [Int.natCast_mul]
    have e3 : ((p.2 : Int) + 1) * (s : Int) = (((p.2 + 1) * s : Nat) : Int) := by
      rw [Int.natCast_mul, Int.natCast_add]; rfl
    rw [if_pos hg, if_pos hg, e0, e1, e2, e3,
      A2.setBlock_natCast _ _ _ _ _ _ (Nat.mul_le_mul_right s hy) (Nat.mul_le_mul_right s hx)
        (Nat.mul_le_mul_right s (Nat.le_succ _)) (Nat.mul_le_mul_right s (Nat.le_succ _))]
    rfl
  · rw [if_neg hg, if_neg hg]

end TieOverSample3
