/-
Proofs/TieOverSampleAux.lean — helper lemmas for the LOOP TIES of property C09 (Proofs/TieOverSample.lean).
Core Lean only.  Contents:
  * `forRange_yx_int`   the `for y1 in range(sub): for x1 in range(sub):` nest with an `Int` bound;
  * `ofPoints`          a list of points as the `n × 2` numpy array;
  * `pack_all_*`, `pack_blocks_*`   "for every selected element write a whole block at a running counter,
                        into a pre-allocated zero buffer" = append the blocks (1-D buffer and `n × 2` buffer);
  * sums of squares (`total_sub_pixels`), reads of the embedded sub-size map;
  * `accum_at`          the inner `binned[index] += …` loop.
-/
import Model.PyRt
import Model.Core
import Model.OverSample
import Proofs.Core
import Proofs.OverSample
import Proofs.TieCore

open Model PyRt TieCore

namespace TieOverSampleAux

/-! ### loop shapes -/

/-- the square nest `for y1 in range(a): for x1 in range(b):` with integer bounds (empty when negative) -/
theorem forRange_yx_int {σ : Type} (a b : Int) (init : σ) (body : Int → Int → σ → σ) :
    forRange 0 a init (fun y s => forRange 0 b s (fun x s => body y x s))
      = (pixels a.toNat b.toNat).foldl (fun s p => body (p.1 : Int) (p.2 : Int) s) init := by
  simp [forRange, pixels, List.foldl_flatMap, List.foldl_map]

/-! ### embeddings -/

/-- the per-pixel sub-size map as the integer array the Python function receives -/
def subInt (sub : List Nat) : A1 Int := sub.map fun (s : Nat) => (s : Int)

/-- `sub_size[k]` on the embedded sub-size map (`0` out of range on both sides) -/
theorem get_subInt (sub : List Nat) (k : Nat) :
    A1.get (subInt sub) (k : Int) = ((sub.getD k 0 : Nat) : Int) := by
  rw [A1.get_natCast]
  simp only [subInt, List.getD_eq_getElem?_getD, List.getElem?_map]
  cases sub[k]? <;> rfl

/-- a list of points `(y, x)` as the `n × 2` numpy array -/
def ofPoints (l : List (β × β)) : A2 β := { h := l.length, w := 2, data := rows2 l }

theorem ofPairs_eq_ofPoints (f : Nat → β) (l : List (Nat × Nat)) :
    ofPairs f l = ofPoints (l.map fun p => (f p.1, f p.2)) := by
  simp [ofPairs, ofPoints]

/-! ### blocks -/

/-- the blocks appended for the selected elements of `l`, the `j`-th selected element (counting from
    `n`) contributing `(L i j).map (v i j)` -/
def blocksOf {ι κ β : Type} (l : List ι) (c : ι → Bool) (L : ι → Int → List κ) (v : ι → Int → κ → β)
    (n : Nat) : List β :=
  ((l.filter c).zipIdx n).flatMap fun q => (L q.1 (q.2 : Int)).map (v q.1 (q.2 : Int))

theorem blocksOf_nil {ι κ β : Type} (c : ι → Bool) (L : ι → Int → List κ) (v : ι → Int → κ → β) (n : Nat) :
    blocksOf [] c L v n = [] := rfl

theorem blocksOf_cons_pos {ι κ β : Type} (a : ι) (l : List ι) (c : ι → Bool) (L : ι → Int → List κ)
    (v : ι → Int → κ → β) (n : Nat) (h : c a = true) :
    blocksOf (a :: l) c L v n = (L a (n : Int)).map (v a (n : Int)) ++ blocksOf l c L v (n + 1) := by
  simp [blocksOf, h, List.zipIdx_cons]

theorem blocksOf_cons_neg {ι κ β : Type} (a : ι) (l : List ι) (c : ι → Bool) (L : ι → Int → List κ)
    (v : ι → Int → κ → β) (n : Nat) (h : ¬ c a = true) :
    blocksOf (a :: l) c L v n = blocksOf l c L v n := by
  simp [blocksOf, h]

/-! ### 1-D buffer -/

/-- writing every value of a list at a running counter, into the zero part of the buffer -/
theorem pack_all_A1 {κ β : Type} (L : List κ) (v : κ → β) (z : β) (xs tl : List β) :
    L.foldl (fun (st : A1 β × Int) q => (A1.set st.1 st.2 (v q), st.2 + 1))
        (xs ++ (List.replicate L.length z ++ tl), (xs.length : Int))
      = (xs ++ (L.map v ++ tl), ((xs.length + L.length : Nat) : Int)) := by
  induction L generalizing xs with
  | nil => simp
  | cons a L ih =>
    simp only [List.foldl_cons, List.length_cons, List.replicate_succ, A1.set_natCast]
    have h1 : (xs ++ (z :: List.replicate L.length z ++ tl)).set xs.length (v a)
        = (xs ++ [v a]) ++ (List.replicate L.length z ++ tl) := by simp
    have h2 : (xs.length : Int) + 1 = ((xs ++ [v a]).length : Int) := by simp
    rw [h1, h2, ih (xs ++ [v a])]
    simp; omega

/-- the block loop over a 1-D buffer: state `(buffer, index, counter)`; a selected element `i` writes
    the block `(L i index).map (v i index)` at the counter and increments the index -/
theorem pack_blocks_A1 {ι κ β : Type} (l : List ι) (c : ι → Bool) (L : ι → Int → List κ)
    (v : ι → Int → κ → β) (z : β) (xs tl : List β) (n : Nat) :
    l.foldl (fun (st : A1 β × Int × Int) i =>
        if c i then
          (((L i st.2.1).foldl (fun (s : A1 β × Int) q => (A1.set s.1 s.2 (v i st.2.1 q), s.2 + 1))
              (st.1, st.2.2)).1,
           st.2.1 + 1,
           ((L i st.2.1).foldl (fun (s : A1 β × Int) q => (A1.set s.1 s.2 (v i st.2.1 q), s.2 + 1))
              (st.1, st.2.2)).2)
        else st)
      (xs ++ (List.replicate (blocksOf l c L v n).length z ++ tl), (n : Int), (xs.length : Int))
    = (xs ++ (blocksOf l c L v n ++ tl), ((n + (l.filter c).length : Nat) : Int),
        ((xs.length + (blocksOf l c L v n).length : Nat) : Int)) := by
  induction l generalizing xs n with
  | nil => simp [blocksOf_nil]
  | cons a l ih =>
    simp only [List.foldl_cons, List.filter_cons]
    by_cases hc : c a = true
    · rw [blocksOf_cons_pos a l c L v n hc]
      simp only [hc, if_true, List.length_append, List.length_map]
      rw [← List.replicate_append_replicate, List.append_assoc, pack_all_A1]
      have e1 : ((xs.length + (L a (n : Int)).length : Nat) : Int)
          = ((xs ++ (L a (n : Int)).map (v a (n : Int))).length : Int) := by simp
      have e2 : (n : Int) + 1 = ((n + 1 : Nat) : Int) := by simp
      have e3 : xs ++ ((L a (n : Int)).map (v a (n : Int))
            ++ (List.replicate (blocksOf l c L v (n + 1)).length z ++ tl))
          = (xs ++ (L a (n : Int)).map (v a (n : Int)))
            ++ (List.replicate (blocksOf l c L v (n + 1)).length z ++ tl) := by simp
      rw [e1, e2, e3, ih]
      simp only [List.length_cons, List.length_append, List.length_map, List.append_assoc,
        Prod.mk.injEq, true_and]
      constructor <;> congr 1 <;> omega
    · rw [blocksOf_cons_neg a l c L v n hc]
      simp only [hc, Bool.false_eq_true, if_false]
      exact ih xs n

/-! ### `n × 2` buffer -/

/-- one row of an `H × 2` array written as `a[k, 0] = u; a[k, 1] = v`, anywhere in the zero part -/
theorem set_row2' (xs : List (β × β)) (H n : Nat) (z u v : β) (tl : List β) (hH : xs.length < H) :
    A2.set (A2.set { h := H, w := 2, data := rows2 xs ++ (List.replicate (2 * (n + 1)) z ++ tl) }
        (xs.length : Int) 0 u) (xs.length : Int) 1 v
      = { h := H, w := 2, data := rows2 (xs ++ [(u, v)]) ++ (List.replicate (2 * n) z ++ tl) } := by
  have h0 : (0 : Int) = ((0 : Nat) : Int) := rfl
  have h1 : (1 : Int) = ((1 : Nat) : Int) := rfl
  rw [h0, h1, A2.set_natCast _ _ _ _ (by simpa using hH) (by simp),
    A2.set_natCast _ _ _ _ (by simpa using hH) (by simp)]
  have e : 2 * (n + 1) = (2 * n + 1) + 1 := by omega
  simp only [rows2_append, A2.mk.injEq, true_and]
  rw [e, List.replicate_succ, List.replicate_succ]
  have hl : xs.length * 2 + 0 = (rows2 xs).length := by simp; omega
  have hl1 : xs.length * 2 + 1 = (rows2 xs).length + 1 := by simp; omega
  rw [hl, hl1]
  simp [rows2]

/-- writing every row of a list at a running counter, into the zero part of an `H × 2` buffer -/
theorem pack_all_rows2 {κ β : Type} (L : List κ) (v0 v1 : κ → β) (z : β) (xs : List (β × β))
    (tl : List β) (H : Nat) (hH : xs.length + L.length ≤ H) :
    L.foldl (fun (st : A2 β × Int) q =>
          (A2.set (A2.set st.1 st.2 0 (v0 q)) st.2 1 (v1 q), st.2 + 1))
        ({ h := H, w := 2, data := rows2 xs ++ (List.replicate (2 * L.length) z ++ tl) },
          (xs.length : Int))
      = ({ h := H, w := 2, data := rows2 (xs ++ L.map fun q => (v0 q, v1 q)) ++ tl },
          ((xs.length + L.length : Nat) : Int)) := by
  induction L generalizing xs with
  | nil => simp
  | cons a L ih =>
    simp only [List.foldl_cons, List.length_cons]
    rw [set_row2' xs H L.length z (v0 a) (v1 a) tl (by simp at hH; omega)]
    have h2 : (xs.length : Int) + 1 = ((xs ++ [(v0 a, v1 a)]).length : Int) := by simp
    rw [h2, ih (xs ++ [(v0 a, v1 a)]) (by simp at hH ⊢; omega)]
    simp; omega

/-- the block loop over an `H × 2` buffer -/
theorem pack_blocks_rows2 {ι κ β : Type} (l : List ι) (c : ι → Bool) (L : ι → Int → List κ)
    (v0 v1 : ι → Int → κ → β) (z : β) (xs : List (β × β)) (tl : List β) (n H : Nat)
    (hH : xs.length + (blocksOf l c L (fun i j q => (v0 i j q, v1 i j q)) n).length ≤ H) :
    l.foldl (fun (st : A2 β × Int × Int) i =>
        if c i then
          (((L i st.2.1).foldl (fun (s : A2 β × Int) q =>
                (A2.set (A2.set s.1 s.2 0 (v0 i st.2.1 q)) s.2 1 (v1 i st.2.1 q), s.2 + 1))
              (st.1, st.2.2)).1,
           st.2.1 + 1,
           ((L i st.2.1).foldl (fun (s : A2 β × Int) q =>
                (A2.set (A2.set s.1 s.2 0 (v0 i st.2.1 q)) s.2 1 (v1 i st.2.1 q), s.2 + 1))
              (st.1, st.2.2)).2)
        else st)
      ({ h := H, w := 2,
         data := rows2 xs ++ (List.replicate
            (2 * (blocksOf l c L (fun i j q => (v0 i j q, v1 i j q)) n).length) z ++ tl) },
        (n : Int), (xs.length : Int))
    = ({ h := H, w := 2,
         data := rows2 (xs ++ blocksOf l c L (fun i j q => (v0 i j q, v1 i j q)) n) ++ tl },
        ((n + (l.filter c).length : Nat) : Int),
        ((xs.length + (blocksOf l c L (fun i j q => (v0 i j q, v1 i j q)) n).length : Nat) : Int)) := by
  induction l generalizing xs n with
  | nil => simp [blocksOf_nil]
  | cons a l ih =>
    simp only [List.foldl_cons, List.filter_cons]
    by_cases hc : c a = true
    · rw [blocksOf_cons_pos a l c L _ n hc] at hH ⊢
      simp only [List.length_append, List.length_map] at hH
      simp only [hc, if_true, List.length_append, List.length_map, Nat.mul_add]
      rw [← List.replicate_append_replicate, List.append_assoc,
        pack_all_rows2 _ _ _ _ _ _ _ (by omega)]
      have e1 : ((xs.length + (L a (n : Int)).length : Nat) : Int)
          = ((xs ++ (L a (n : Int)).map fun q => (v0 a (n : Int) q, v1 a (n : Int) q)).length : Int) := by
        simp
      have e2 : (n : Int) + 1 = ((n + 1 : Nat) : Int) := by simp
      rw [e1, e2, ih _ _ (by simp; omega)]
      simp only [List.length_cons, List.length_append, List.length_map, List.append_assoc,
        Prod.mk.injEq, true_and]
      constructor <;> congr 1 <;> omega
    · rw [blocksOf_cons_neg a l c L _ n hc] at hH ⊢
      simp only [hc, Bool.false_eq_true, if_false]
      exact ih xs n hH

/-! ### sums of squares -/

theorem sum_zipIdx_snd {γ : Type} (l : List γ) (n : Nat) (F : Nat → Nat) :
    ((l.zipIdx n).map fun q => F q.2).sum = ((List.range' n l.length).map F).sum := by
  induction l generalizing n with
  | nil => simp
  | cons a l ih => simp [List.zipIdx_cons, List.range'_succ, ih]

/-- `np.sum(sub_size**2)` on the embedded sub-size map is the model's offset past the last entry -/
theorem sum_sq_subInt (sub : List Nat) :
    A1.sum (A1.map (fun u => PyRt.sq u) (subInt sub)) = ((Spec.offset sub sub.length : Nat) : Int) := by
  have hgen : ∀ (l : List Nat) (k : Nat),
      (l.map fun s => PyRt.sq ((s : Nat) : Int)).foldl (fun s v => s + v) (k : Int)
        = ((k + (l.map fun s => s * s).sum : Nat) : Int) := by
    intro l
    induction l with
    | nil => intro k; simp
    | cons a l ih =>
      intro k
      simp only [List.map_cons, List.foldl_cons, List.sum_cons]
      have : (k : Int) + PyRt.sq ((a : Nat) : Int) = ((k + a * a : Nat) : Int) := by
        simp [PyRt.sq]
      rw [this, ih]
      congr 1; omega
  have hr : (List.range sub.length).map (fun j => sub.getD j 0 * sub.getD j 0)
      = sub.map fun s => s * s := by
    apply List.ext_getElem
    · simp
    · intro i h1 h2
      simp at h1
      simp [List.getD_eq_getElem?_getD, List.getElem?_eq_getElem h1]
  unfold A1.sum A1.map subInt Spec.offset
  rw [List.map_map, hr]
  have := hgen sub 0
  simpa [Function.comp_def] using this

/-- the number of entries written by the block loops: `Σ sub²` over the selected elements -/
theorem blocks_length {γ β : Type} (l : List γ) (c : γ → Bool) (sub : List Nat)
    (v : γ → Int → Nat × Nat → β) :
    (blocksOf l c (fun _ j => pixels (A1.get (subInt sub) j).toNat (A1.get (subInt sub) j).toNat) v 0).length
      = Spec.offset sub (l.filter c).length := by
  unfold blocksOf Spec.offset
  rw [List.length_flatMap]
  simp only [List.length_map, get_subInt, Int.toNat_natCast, pixels_length]
  rw [sum_zipIdx_snd (l.filter c) 0 (fun k => sub.getD k 0 * sub.getD k 0), List.range_eq_range']

/-! ### the hand model's block loops in `blocksOf`-compatible form -/

/-- `Impl.slimForSubSlim` as blocks over the indexed unmasked pixels -/
theorem slimForSubSlim_blocks (m : Mask) (sub : List Nat) :
    Impl.slimForSubSlim m sub
      = (((pixels m.h m.w).filter fun p => !m.get p.1 p.2).zipIdx 0).flatMap fun q =>
          (pixels (sub.getD q.2 0) (sub.getD q.2 0)).map fun _ => q.2 := by
  unfold Impl.slimForSubSlim
  dsimp only
  rw [forYX_eq_foldl]
  have := block_loop (pixels m.h m.w) (fun p => !m.get p.1 p.2)
    (fun _ k => (pixels (sub.getD k 0) (sub.getD k 0)).map fun _ => k) [] 0
  simp only [forYX_append]
  simp only [List.nil_append] at this
  rw [this]

/-- the canonical step of the block loop over an `H × 2` buffer (see `pack_blocks_rows2`) -/
def stepRows2 {ι κ β : Type} (c : ι → Bool) (L : ι → Int → List κ) (v0 v1 : ι → Int → κ → β)
    (st : A2 β × Int × Int) (i : ι) : A2 β × Int × Int :=
  if c i then
    (((L i st.2.1).foldl (fun (s : A2 β × Int) q =>
          (A2.set (A2.set s.1 s.2 0 (v0 i st.2.1 q)) s.2 1 (v1 i st.2.1 q), s.2 + 1))
        (st.1, st.2.2)).1,
     st.2.1 + 1,
     ((L i st.2.1).foldl (fun (s : A2 β × Int) q =>
          (A2.set (A2.set s.1 s.2 0 (v0 i st.2.1 q)) s.2 1 (v1 i st.2.1 q), s.2 + 1))
        (st.1, st.2.2)).2)
  else st

/-- `n` points followed by `r` rows of `z`: what is left of a `np.zeros((n + r, 2))` buffer after `n`
    rows have been written -/
def ofPointsPadded (l : List (β × β)) (r : Nat) (z : β) : A2 β :=
  { h := l.length + r, w := 2, data := rows2 l ++ List.replicate (2 * r) z }

theorem ofPointsPadded_zero (l : List (β × β)) (z : β) : ofPointsPadded l 0 z = ofPoints l := by
  simp [ofPointsPadded, ofPoints]

/-- `pack_blocks_rows2` for a whole zero buffer with `r` more rows than the blocks need -/
theorem pack_blocks_rows2_padded {ι κ β : Type} (l : List ι) (c : ι → Bool) (L : ι → Int → List κ)
    (v0 v1 : ι → Int → κ → β) (z : β) (H r : Nat)
    (hH : H = (blocksOf l c L (fun i j q => (v0 i j q, v1 i j q)) 0).length + r) :
    (l.foldl (stepRows2 c L v0 v1)
      ({ h := H, w := 2, data := List.replicate (H * 2) z }, 0, 0)).1
    = ofPointsPadded (blocksOf l c L (fun i j q => (v0 i j q, v1 i j q)) 0) r z := by
  subst hH
  have := pack_blocks_rows2 l c L v0 v1 z [] (List.replicate (2 * r) z) 0
    ((blocksOf l c L (fun i j q => (v0 i j q, v1 i j q)) 0).length + r) (by simp)
  have e : ((blocksOf l c L (fun i j q => (v0 i j q, v1 i j q)) 0).length + r) * 2
      = 2 * (blocksOf l c L (fun i j q => (v0 i j q, v1 i j q)) 0).length + 2 * r := by omega
  simp only [rows2_nil, List.nil_append, List.length_nil, Int.natCast_zero,
    List.replicate_append_replicate] at this
  unfold stepRows2
  rw [e, this]
  rfl

/-- `pack_blocks_rows2` for a whole zero buffer with exactly as many rows as the blocks need -/
theorem pack_blocks_rows2_exact {ι κ β : Type} (l : List ι) (c : ι → Bool) (L : ι → Int → List κ)
    (v0 v1 : ι → Int → κ → β) (z : β) (H : Nat)
    (hH : H = (blocksOf l c L (fun i j q => (v0 i j q, v1 i j q)) 0).length) :
    (l.foldl (stepRows2 c L v0 v1)
      ({ h := H, w := 2, data := List.replicate (H * 2) z }, 0, 0)).1
    = ofPoints (blocksOf l c L (fun i j q => (v0 i j q, v1 i j q)) 0) := by
  rw [pack_blocks_rows2_padded l c L v0 v1 z H 0 (by simpa using hH), ofPointsPadded_zero]

/-- `Impl.subNativeForSubSlim` and `Impl.overSampledGrid` share this shape -/
theorem slimPixels_eq (m : Mask) :
    Spec.slimPixels m = ((pixels m.h m.w).filter fun p => !m.get p.1 p.2).zipIdx 0 := rfl

/-! ### the accumulate-in-place loop of `binned_array_2d_from` -/

/-- the inner loop `out[k] += g(counter); counter += 1` on the entry just behind the finished ones -/
theorem accum_at {κ β : Type} [Add β] [Inhabited β] (L : List κ) (fin tl : List β) (x : β)
    (g : Int → β) (c0 : Nat) :
    L.foldl (fun (s : A1 β × Int) _ =>
          (A1.set s.1 (fin.length : Int) (A1.get s.1 (fin.length : Int) + g s.2), s.2 + 1))
        (fin ++ x :: tl, (c0 : Int))
      = (fin ++ (((List.range L.length).map fun j => g ((c0 + j : Nat) : Int)).foldl (· + ·) x) :: tl,
          ((c0 + L.length : Nat) : Int)) := by
  induction L generalizing x c0 with
  | nil => simp
  | cons a L ih =>
    simp only [List.foldl_cons, List.length_cons]
    have h1 : (fin ++ x :: tl).getD fin.length default = x := by simp
    have h2 : (fin ++ x :: tl).set fin.length (x + g (c0 : Int)) = fin ++ (x + g (c0 : Int)) :: tl := by
      simp
    have h3 : (c0 : Int) + 1 = ((c0 + 1 : Nat) : Int) := by simp
    rw [A1.get_natCast, h1, A1.set_natCast, h2, h3, ih, List.range_succ_eq_map]
    simp only [List.map_cons, List.map_map, List.foldl_cons, Nat.add_zero]
    have e1 : (fun j => g ((c0 + 1 + j : Nat) : Int)) = (fun j => g ((c0 + j : Nat) : Int)) ∘ Nat.succ := by
      funext j; simp only [Function.comp]; congr 2; omega
    have e2 : c0 + 1 + L.length = c0 + (L.length + 1) := by omega
    rw [e1, e2]

/-- the canonical step of the accumulate loop: state `(buffer, index, counter)` -/
def stepAccum {ι κ β : Type} [Add β] [Inhabited β] (c : ι → Bool) (L : Int → List κ)
    (term : Int → Int → β) (st : A1 β × Int × Int) (i : ι) : A1 β × Int × Int :=
  if c i then
    (((L st.2.1).foldl (fun (s : A1 β × Int) _ =>
          (A1.set s.1 st.2.1 (A1.get s.1 st.2.1 + term st.2.1 s.2), s.2 + 1)) (st.1, st.2.2)).1,
     st.2.1 + 1,
     ((L st.2.1).foldl (fun (s : A1 β × Int) _ =>
          (A1.set s.1 st.2.1 (A1.get s.1 st.2.1 + term st.2.1 s.2), s.2 + 1)) (st.1, st.2.2)).2)
  else st

/-- closed form of entry `k` of the accumulate loop -/
def accumVal {κ β : Type} [Add β] (L : Int → List κ) (term : Int → Int → β) (z : β) (k : Nat) : β :=
  ((List.range (L (k : Int)).length).map fun j =>
      term (k : Int) ((offs (fun i => (L (i : Int)).length) k + j : Nat) : Int)).foldl (· + ·) z

theorem accum_blocks_gen {ι κ β : Type} [Add β] [Inhabited β] (l : List ι) (c : ι → Bool)
    (L : Int → List κ) (term : Int → Int → β) (z : β) (fin : List β) (n : Nat)
    (hn : n = (l.filter c).length) :
    l.foldl (stepAccum c L term)
        (fin ++ List.replicate n z, (fin.length : Int),
          ((offs (fun i => (L (i : Int)).length) fin.length : Nat) : Int))
      = (fin ++ (List.range' fin.length n).map (accumVal L term z), ((fin.length + n : Nat) : Int),
          ((offs (fun i => (L (i : Int)).length) (fin.length + n) : Nat) : Int)) := by
  induction l generalizing fin n with
  | nil => simp at hn; subst hn; simp
  | cons a l ih =>
    simp only [List.foldl_cons]
    by_cases hc : c a = true
    · obtain ⟨n', rfl⟩ : ∃ n', n = n' + 1 := ⟨(l.filter c).length, by simp [hn, hc]⟩
      have hn' : n' = (l.filter c).length := by simp [hc] at hn; exact hn
      unfold stepAccum
      simp only [hc, if_true, List.replicate_succ]
      rw [accum_at]
      have e1 : (fin.length : Int) + 1 = ((fin ++ [accumVal L term z fin.length]).length : Int) := by simp
      have e2 : offs (fun i => (L (i : Int)).length) fin.length + (L (fin.length : Int)).length
          = offs (fun i => (L (i : Int)).length) (fin ++ [accumVal L term z fin.length]).length := by
        simp [offs_succ]
      have e3 : fin ++ accumVal L term z fin.length :: List.replicate n' z
          = (fin ++ [accumVal L term z fin.length]) ++ List.replicate n' z := by simp
      have e4 : (fun (s : A1 β × Int × Int) (i : ι) =>
          if c i = true then
            (((L s.2.1).foldl (fun (s' : A1 β × Int) _ =>
                  (A1.set s'.1 s.2.1 (A1.get s'.1 s.2.1 + term s.2.1 s'.2), s'.2 + 1)) (s.1, s.2.2)).1,
             s.2.1 + 1,
             ((L s.2.1).foldl (fun (s' : A1 β × Int) _ =>
                  (A1.set s'.1 s.2.1 (A1.get s'.1 s.2.1 + term s.2.1 s'.2), s'.2 + 1)) (s.1, s.2.2)).2)
          else s) = stepAccum c L term := rfl
      show List.foldl _ (fin ++ accumVal L term z fin.length :: List.replicate n' z, _, _) l = _
      rw [e1, e2, e3, e4, ih _ _ hn']
      simp only [List.length_append, List.length_cons, List.length_nil, List.range'_succ,
        List.map_cons, List.append_assoc, List.cons_append, List.nil_append, Prod.mk.injEq, true_and]
      refine ⟨by congr 1; omega, by congr 2; omega⟩
    · have hn' : n = (l.filter c).length := by simp [hc] at hn; exact hn
      unfold stepAccum
      simp only [hc, Bool.false_eq_true, if_false]
      exact ih fin n hn'

/-- the accumulate loop over a whole zero buffer with one entry per selected element -/
theorem accum_blocks {ι κ β : Type} [Add β] [Inhabited β] (l : List ι) (c : ι → Bool)
    (L : Int → List κ) (term : Int → Int → β) (z : β) (n : Nat) (hn : n = (l.filter c).length) :
    (l.foldl (stepAccum c L term) (List.replicate n z, 0, 0)).1
      = (List.range n).map (accumVal L term z) := by
  have := accum_blocks_gen l c L term z [] n hn
  simp only [List.nil_append, List.length_nil, Int.natCast_zero, offs, List.range_zero, List.map_nil,
    List.sum_nil] at this
  rw [this]
  show List.map _ (List.range' 0 n) = _
  rw [List.range_eq_range']

/-! ### point-update passes over a native array -/

/-- a `for y: for x:` pass whose step commutes with the embedding of row-major lists -/
theorem pass_tie {β : Type} (h w : Nat) (fG : Int → Int → A2 β → A2 β)
    (fM : List β → Nat → Nat → List β) (arr : List β)
    (hstep : ∀ y x, y < h → x < w → ∀ t, fG (y : Int) (x : Int) (ofNative h w t) = ofNative h w (fM t y x)) :
    forRange 0 (h : Int) (ofNative h w arr) (fun y t => forRange 0 (w : Int) t (fun x t => fG y x t))
      = ofNative h w (forYX h w fM arr) := by
  rw [forRange_yx, forYX_eq_foldl]
  apply foldl_rel (fun (a : A2 β) (t : List β) => a = ofNative h w t)
  · rfl
  · intro p hp a t hR
    rw [mem_pixels] at hp
    rw [hR]
    exact hstep p.1 p.2 hp.1 hp.2 t

/-- the same pass when the inner bound is read off the array being updated (`a.shape[1]` inside the
    loop over `a` itself) -/
theorem pass_tie_w {β : Type} (h w : Nat) (fG : Int → Int → A2 β → A2 β)
    (fM : List β → Nat → Nat → List β) (arr : List β)
    (hstep : ∀ y x, y < h → x < w → ∀ t, fG (y : Int) (x : Int) (ofNative h w t) = ofNative h w (fM t y x)) :
    forRange 0 (h : Int) (ofNative h w arr)
        (fun y t => forRange 0 ((A2.w t : Nat) : Int) t (fun x t => fG y x t))
      = ofNative h w (forYX h w fM arr) := by
  unfold forYX
  simp only [forRange_zero_nat]
  apply foldl_rel (fun (a : A2 β) (t : List β) => a = ofNative h w t)
  · rfl
  · intro y hy a t hR
    subst hR
    simp only [ofNative_w]
    apply foldl_rel (fun (a : A2 β) (t : List β) => a = ofNative h w t)
    · rfl
    · intro x hx a t hR
      subst hR
      exact hstep y x (by simpa using hy) (by simpa using hx) t

end TieOverSampleAux
