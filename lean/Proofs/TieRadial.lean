/-
Proofs/TieRadial.lean — LOOP TIE for property C12 (entry points), radial projection: the definition that
harness/translate2.py regenerates from the current Python source of
`grid_2d_util.grid_scaled_2d_slim_radial_projected_from` (Generated/LoopsRadial.lean) is equal, for every input
and every number of points, to the un-rotated line of the hand-written `Model.Impl.radialProjected` of
Model/EntryPoints.lean (the model with the profile rotation `rot := id`; the rotation is applied afterwards by
`Grid2D.grid_2d_radial_projected_from`, which is not a jit function).
Only `*_tie` theorems live in this file (helpers: Proofs/TieRadialAux.lean).  See design_notes/TIES_blocked.md.

`extent` is the 4-vector `[x_min, x_max, y_min, y_max]`, `centre` / `pixel_scales` are `(y, x)` pairs,
`shape_slim` is a natural number (0 = "compute it": `int(scaled_distance / pixel_scale) + 1`, the branch that
duplicates `_radial_projected_shape_slim_from`, tied in Proofs/TieEntry.lean).
-/
import Generated.LoopsRadial
import Model.EntryPoints
import Proofs.TieCore
import Proofs.TieRegAux
import Proofs.TieRadialAux
import Mathlib.Algebra.Order.Field.Basic

open Model PyRt TieCore TieRegAux TieRadialAux

namespace TieRadial

/-- `grid_2d_util.grid_scaled_2d_slim_radial_projected_from` = the line of `Impl.radialProjected` (with
    `rot := id`), as the `n × 2` array of its points.  Hypothesis = "Python does not raise": when the number of
    points is computed, `int(scaled_distance / pixel_scale)` is not negative (`np.zeros` of a negative shape
    raises ValueError). -/
theorem grid_scaled_2d_slim_radial_projected_from_tie {α : Type} [Field α] [LinearOrder α] [Inhabited α]
    (trunc : α → Int) (ext : α × α × α × α) (s c : α × α) (shapeSlim : Nat)
    (hpos : shapeSlim = 0 → 0 ≤ trunc (radialSd ext c / radialPs ext s c)) :
    Generated.LoopsRadial.grid_scaled_2d_slim_radial_projected_from trunc
        [ext.1, ext.2.1, ext.2.2.1, ext.2.2.2] c s (shapeSlim : Int)
      = ofPoints (Impl.radialProjected trunc id ext s c shapeSlim) := by
  have g0 : A1.get [ext.1, ext.2.1, ext.2.2.1, ext.2.2.2] 0 = ext.1 := rfl
  have g1 : A1.get [ext.1, ext.2.1, ext.2.2.1, ext.2.2.2] 1 = ext.2.1 := rfl
  have g2 : A1.get [ext.1, ext.2.1, ext.2.2.1, ext.2.2.2] 2 = ext.2.2.1 := rfl
  have g3 : A1.get [ext.1, ext.2.1, ext.2.2.1, ext.2.2.2] 3 = ext.2.2.2 := rfl
  -- the model's number of points and line
  have hmodel : Impl.radialProjected trunc id ext s c shapeSlim
      = (lineState (if shapeSlim = 0 then (trunc (radialSd ext c / radialPs ext s c)).toNat + 1 else shapeSlim)
          c.1 (radialPs ext s c) c.2).1 := by
    unfold Impl.radialProjected lineState radialPs radialSd
    simp only [id, sub_add_cancel, List.map_id']
  -- the generated number of points is the cast of the model's
  have hn : (if (shapeSlim : Int) = 0 then trunc (radialSd ext c / radialPs ext s c) + 1
        else (shapeSlim : Int))
      = (((if shapeSlim = 0 then (trunc (radialSd ext c / radialPs ext s c)).toNat + 1 else shapeSlim : Nat)) : Int) := by
    by_cases h : shapeSlim = 0
    · have := hpos h
      subst h
      simp only [Int.natCast_zero, if_true]
      omega
    · have h' : ¬ ((shapeSlim : Int) = 0) := by omega
      rw [if_neg h', if_neg h]
  rw [hmodel]
  unfold Generated.LoopsRadial.grid_scaled_2d_slim_radial_projected_from
  simp only [g0, g1, g2, g3, max2_eq_max, Bool.or_eq_true, beq_iff_eq]
  show (forRange 0
      (if (shapeSlim : Int) = 0 then trunc (radialSd ext c / radialPs ext s c) + 1 else (shapeSlim : Int))
      (A2.setCol (A2.zeros (α := α)
          (if (shapeSlim : Int) = 0 then trunc (radialSd ext c / radialPs ext s c) + 1 else (shapeSlim : Int)) 2) 0
        (A1.map (fun u => u + c.1) (A2.col (A2.zeros (α := α)
          (if (shapeSlim : Int) = 0 then trunc (radialSd ext c / radialPs ext s c) + 1 else (shapeSlim : Int)) 2) 0)),
       c.2)
      (fun k st => (A2.set st.1 k 1 st.2, st.2 + radialPs ext s c))).1 = _
  rw [hn, zeros_setCol, forRange_zero_nat, radial_loop]

end TieRadial
