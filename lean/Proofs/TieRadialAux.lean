/-
Proofs/TieRadialAux.lean — helper lemmas for the LOOP TIE of `grid_2d_util.grid_scaled_2d_slim_radial_projected_from`
(Proofs/TieRadial.lean, property C12): the column store `a[:, 0] = a[:, 0] + c` of `Model/PyRt.lean` Extension 4
on a freshly allocated `n × 2` array, and the loop `a[k, 1] = radii; radii += ps` against the model's running
line.  (Mathlib: only the field laws `0 + c = c`, `p - c + c = p`.)
-/
import Model.PyRt
import Model.EntryPoints
import Proofs.TieCore
import Proofs.TieRegAux
import Proofs.TieDelaunayAux
import Mathlib.Algebra.Order.Field.Basic

open Model PyRt TieCore TieRegAux TieDelaunayAux

namespace TieRadialAux

variable {α : Type}

/-- a point `(y, x)` as the row `[y, x]` -/
def pairRow (p : α × α) : List α := [p.1, p.2]

theorem ofPoints_eq (P : List (α × α)) : ofPoints P = ofRows P.length 2 (P.map pairRow) := by
  simp only [ofPoints, ofRows, rows2, List.flatMap_def]
  rfl

/-- `g = np.zeros((n, 2)); g[:, 0] += c` (desugared: `g[:, 0] = g[:, 0] + c`) -/
theorem zeros_setCol [Field α] [Inhabited α] (n : Nat) (c : α) :
    A2.setCol (A2.zeros (α := α) (n : Int) 2) 0
        (A1.map (fun u => u + c) (A2.col (A2.zeros (α := α) (n : Int) 2) 0))
      = ofRows n 2 (List.replicate n [c, 0]) := by
  have h2 : (2 : Int) = ((2 : Nat) : Int) := rfl
  have h0 : (0 : Int) = ((0 : Nat) : Int) := rfl
  rw [h2, A2.zeros_natCast, h0, A2.col_natCast _ 0 (by simp)]
  have hcol : A1.map (fun u => u + c)
      (List.map (fun k => (List.replicate (n * 2) (0 : α)).getD (k * 2 + 0) default) (List.range n))
      = List.replicate n c := by
    apply List.ext_getElem
    · simp [A1.map]
    · intro i h1 _
      have hi : i < n := by simpa [A1.map] using h1
      have hlt : i * 2 + 0 < n * 2 := by omega
      have hlt' : i * 2 < (List.replicate (n * 2) (0 : α)).length := by simpa using hlt
      simp [A1.map, List.getD_eq_getElem?_getD, List.getElem?_eq_getElem hlt']
  simp only [] at hcol ⊢
  rw [hcol, A2.setCol_natCast _ 0 _ (by simp) (by simp)]
  simp only [ofRows, A2.mk.injEq, true_and]
  apply List.ext_getElem
  · simp
  · intro k h1 h2'
    have hk : k < n * 2 := by simpa using h1
    simp only [List.getElem_mapIdx, List.getElem_replicate]
    have hdiv : k / 2 < n := by omega
    have hflat : ∀ (m : Nat), (List.replicate m [c, (0 : α)]).flatten
        = (List.range (m * 2)).map fun j => if j % 2 = 0 then c else 0 := by
      intro m
      induction m with
      | zero => simp
      | succ m ih =>
        rw [List.replicate_succ', List.flatten_append, ih, Nat.succ_mul, List.range_add]
        simp only [List.map_append, List.map_map, List.flatten_cons, List.flatten_nil, List.append_nil]
        congr 1
        have : (2 : Nat) = 1 + 1 := rfl
        simp [List.range_succ, Nat.mul_mod_left, Nat.add_mod]
    rw [List.getElem_of_eq (hflat n)]
    simp only [List.getElem_map, List.getElem_range]
    by_cases hm : k % 2 = 0
    · simp [hm, List.getD_eq_getElem?_getD, hdiv]
    · simp [hm]

/-- the model's running line: `n` steps of `(line ++ [(cy, r)], r + ps)` -/
def lineState [Add α] (n : Nat) (cy ps : α) (r0 : α) : List (α × α) × α :=
  (List.range n).foldl (fun (st : List (α × α) × α) _ => (st.1 ++ [(cy, st.2)], st.2 + ps)) ([], r0)

theorem lineState_succ [Add α] (n : Nat) (cy ps r0 : α) :
    lineState (n + 1) cy ps r0
      = ((lineState n cy ps r0).1 ++ [(cy, (lineState n cy ps r0).2)], (lineState n cy ps r0).2 + ps) := by
  unfold lineState
  rw [List.range_succ, List.foldl_append]
  rfl

theorem lineState_length [Add α] (n : Nat) (cy ps r0 : α) : (lineState n cy ps r0).1.length = n := by
  induction n with
  | zero => rfl
  | succ n ih => rw [lineState_succ]; simp [ih]

/-- the loop `for k in range(n): g[k, 1] = radii; radii += ps` on the pre-filled array -/
theorem radial_loop [Field α] (n : Nat) (cy ps r0 : α) :
    ((List.range n).foldl
        (fun (st : A2 α × α) (k : Nat) => (A2.set st.1 (k : Int) 1 st.2, st.2 + ps))
        (ofRows n 2 (List.replicate n [cy, 0]), r0)).1
      = ofPoints (lineState n cy ps r0).1 := by
  have h1 : (1 : Int) = ((1 : Nat) : Int) := rfl
  have key : ∀ k ≤ n, (List.range k).foldl
        (fun (st : A2 α × α) (k : Nat) => (A2.set st.1 (k : Int) 1 st.2, st.2 + ps))
        (ofRows n 2 (List.replicate n [cy, 0]), r0)
      = (ofRows n 2 ((lineState k cy ps r0).1.map pairRow ++ List.replicate (n - k) [cy, 0]),
         (lineState k cy ps r0).2) := by
    intro k
    induction k with
    | zero => intro _; simp [lineState]
    | succ k ih =>
      intro hk
      rw [List.range_succ, List.foldl_append, ih (by omega), lineState_succ]
      simp only [List.foldl_cons, List.foldl_nil]
      have hlen := lineState_length k cy ps r0
      generalize (lineState k cy ps r0).1 = L at hlen ⊢
      generalize (lineState k cy ps r0).2 = r
      have hdims : RDims n 2 (L.map pairRow ++ List.replicate (n - k) [cy, (0 : α)]) := by
        constructor
        · simp [hlen]; omega
        · intro x hx
          rcases List.mem_append.1 hx with h | h
          · obtain ⟨p, _, rfl⟩ := List.mem_map.1 h; rfl
          · rw [(List.mem_replicate.1 h).2]; rfl
      rw [h1, set_ofRows hdims (by omega) (by omega)]
      congr 2
      have hsplit : n - k = (n - (k + 1)) + 1 := by omega
      have hget : (L.map pairRow ++ List.replicate (n - k) [cy, (0 : α)]).getD k [] = [cy, 0] := by
        rw [List.getD_eq_getElem?_getD, List.getElem?_append_right (by simp [hlen])]
        simp [hlen, hsplit]
      rw [hget, hsplit, List.replicate_succ]
      have : k = (L.map pairRow).length := by simp [hlen]
      conv => lhs; rw [this, List.set_append_right _ _ (Nat.le_refl _)]
      simp [pairRow, hlen]
  rw [key n (Nat.le_refl n)]
  simp only [Nat.sub_self, List.replicate_zero, List.append_nil]
  rw [ofPoints_eq, lineState_length]

/-! ### the quantities of the statement -/

/-- the longest of the four distances from the centre to the edges of the extent `[x_min, x_max, y_min, y_max]` -/
def radialSd [Field α] [LinearOrder α] (ext : α × α × α × α) (c : α × α) : α :=
  max (max (max (ext.2.1 - c.2) (ext.2.2.2 - c.1)) (c.2 - ext.1)) (c.1 - ext.2.2.1)

/-- the pixel scale of the direction of that distance -/
def radialPs [Field α] [LinearOrder α] (ext : α × α × α × α) (s c : α × α) : α :=
  if radialSd ext c = ext.2.2.2 - c.1 ∨ radialSd ext c = c.1 - ext.2.2.1 then s.1 else s.2

theorem max2_eq_max [LinearOrder α] (a b : α) : PyRt.max2 a b = max a b := by
  unfold PyRt.max2
  rcases lt_or_ge a b with h | h
  · rw [if_pos h, max_eq_right (le_of_lt h)]
  · rw [if_neg (not_lt.mpr h), max_eq_left h]

end TieRadialAux
