/-
Proofs/TieReg.lean — LOOP TIES for property C07 (regularization matrices): the definitions that
harness/translate2.py regenerates from the current Python source (Generated/LoopsReg.lean) are equal,
for every input and every size, to the hand-written `Model.Impl.*` functions of Model/Regularization.lean
that the theorems of Props/C07.lean are about.  Only `*_tie` theorems live in this file (helpers:
Proofs/TieCore.lean, Proofs/TieRegAux.lean).  See design_notes/LOOP_TIES.md and design_notes/TIES_C07.md.

Conventions of the statements.
* A model matrix (list of rows) is the numpy array `ofRows n n M`.
* The index tables go from the arrays to the model: `T : List (List Int)` are the rows of the numpy table
  as stored (`-1` padding included), the model receives `pyTable n T` (numpy's negative-index wrap, which
  is how Model/RegularizationRect.lean and `Impl.splitSchemeMatrix` hand tables to these functions);
  `S : List Int` is the sizes array, the model receives `S.map Int.toNat`.
* `InIdx n k` (`-n ≤ k < n`) is "numpy accepts `k` as an index on an axis of length `n`".
* The number type has `0` through `Zero α` (and `1` through `One α`), which is what the model uses; the
  float literals `1e-8` / `2e-8` are passed to the model's `ridge` / `ridge2` parameters exactly as generated.
-/
import Generated.LoopsReg
import Model.Regularization
import Proofs.TieCore
import Proofs.TieRegAux

open Model PyRt TieCore TieRegAux

namespace TieReg

/-- `regularization_util.zeroth_regularization_matrix_from` = `Impl.zerothMatrix` -/
theorem zeroth_regularization_matrix_from_tie {α : Type} [Add α] [Mul α] [Zero α] [Inhabited α]
    (c : α) (p : Nat) :
    Generated.LoopsReg.zeroth_regularization_matrix_from c (p : Int)
      = ofRows p p (Impl.zerothMatrix c p) := by
  unfold Generated.LoopsReg.zeroth_regularization_matrix_from Impl.zerothMatrix
  simp only [forRange_zero_nat, PyRt.sq]
  refine (foldl_rel (Rel p) (List.range p) _ _ (rel_zeros p) ?_).1
  intro i hi A M h
  have hi' : i < p := by simpa using hi
  exact rel_add h (norm_nat hi') (norm_nat hi') _

/-- `regularization_util.brightness_zeroth_regularization_matrix_from` = `Impl.brightnessZerothMatrix` -/
theorem brightness_zeroth_regularization_matrix_from_tie {α : Type} [Add α] [Mul α] [Zero α]
    [Inhabited α] (ws : List α) :
    Generated.LoopsReg.brightness_zeroth_regularization_matrix_from ws
      = ofRows ws.length ws.length (Impl.brightnessZerothMatrix ws) := by
  unfold Generated.LoopsReg.brightness_zeroth_regularization_matrix_from Impl.brightnessZerothMatrix
  simp only [A1.len_eq, forRange_zero_nat, PyRt.sq, A1.map]
  refine (foldl_rel (Rel ws.length) (List.range ws.length) _ _ (rel_zeros _) ?_).1
  intro i hi A M h
  have hi' : i < ws.length := by simpa using hi
  rw [A1.get_natCast, getD_irrel _ i default 0 (by simpa using hi')]
  exact rel_add h (norm_nat hi') (norm_nat hi') _

/-- `regularization_util.constant_regularization_matrix_from` = `Impl.constantMatrix` with
    `ridge := 1e-8` (every row of the table has the width `w`, the sizes do not exceed it, every
    neighbour index that is read is an admissible numpy index) -/
theorem constant_regularization_matrix_from_tie {α : Type} [Add α] [Sub α] [Mul α] [Div α] [Zero α]
    [IntCast α] [Inhabited α] (c : α) (w : Nat) (T : List (List Int)) (S : List Int)
    (hT : ∀ r ∈ T, r.length = w)
    (hw : ∀ i < T.length, (S.getD i 0).toNat ≤ w)
    (hin : ∀ i < T.length, ∀ j < (S.getD i 0).toNat, InIdx T.length ((T.getD i []).getD j 0)) :
    Generated.LoopsReg.constant_regularization_matrix_from c (ofRows T.length w T) S
      = ofRows T.length T.length
          (Impl.constantMatrix (((1 : Int) : α) / ((100000000 : Int) : α)) c (pyTable T.length T)
            (S.map Int.toNat)) := by
  unfold Generated.LoopsReg.constant_regularization_matrix_from Impl.constantMatrix
  simp only [A2.shape0_eq, ofRows_h, forRange_zero_nat, pyTable_length, PyRt.sq]
  refine (foldl_rel (Rel T.length) (List.range T.length) _ _ (rel_zeros _) ?_).1
  intro i hi A M h
  have hi' : i < T.length := by simpa using hi
  rw [get_int, forRange_zero_toNat, getD_map_toNat]
  refine foldl_rel (Rel T.length) _ _ _ (rel_add h (norm_nat hi') (norm_nat hi') _) ?_
  intro j hj A M h
  have hj' : j < (S.getD i 0).toNat := by simpa using hj
  rw [get_ofRows ⟨rfl, hT⟩ hi' (by have := hw i hi'; omega) 0, nb_pyTable]
  exact rel_sub (rel_add h (norm_nat hi') (norm_nat hi') _) (norm_nat hi')
    (norm_int (hin i hi' j hj')) _

/-- `regularization_util.constant_zeroth_regularization_matrix_from` = `Impl.constantZerothMatrix`
    with `ridge := 1e-8` (same hypotheses as the constant scheme) -/
theorem constant_zeroth_regularization_matrix_from_tie {α : Type} [Add α] [Sub α] [Mul α] [Div α]
    [Zero α] [IntCast α] [Inhabited α] (c cz : α) (w : Nat) (T : List (List Int)) (S : List Int)
    (hT : ∀ r ∈ T, r.length = w)
    (hw : ∀ i < T.length, (S.getD i 0).toNat ≤ w)
    (hin : ∀ i < T.length, ∀ j < (S.getD i 0).toNat, InIdx T.length ((T.getD i []).getD j 0)) :
    Generated.LoopsReg.constant_zeroth_regularization_matrix_from c cz (ofRows T.length w T) S
      = ofRows T.length T.length
          (Impl.constantZerothMatrix (((1 : Int) : α) / ((100000000 : Int) : α)) c cz
            (pyTable T.length T) (S.map Int.toNat)) := by
  unfold Generated.LoopsReg.constant_zeroth_regularization_matrix_from Impl.constantZerothMatrix
  simp only [A2.shape0_eq, ofRows_h, forRange_zero_nat, pyTable_length, PyRt.sq]
  refine (foldl_rel (Rel T.length) (List.range T.length) _ _ (rel_zeros _) ?_).1
  intro i hi A M h
  have hi' : i < T.length := by simpa using hi
  rw [get_int, forRange_zero_toNat, getD_map_toNat]
  refine foldl_rel (Rel T.length) _ _ _
    (rel_add (rel_add h (norm_nat hi') (norm_nat hi') _) (norm_nat hi') (norm_nat hi') _) ?_
  intro j hj A M h
  have hj' : j < (S.getD i 0).toNat := by simpa using hj
  rw [get_ofRows ⟨rfl, hT⟩ hi' (by have := hw i hi'; omega) 0, nb_pyTable]
  exact rel_sub (rel_add h (norm_nat hi') (norm_nat hi') _) (norm_nat hi')
    (norm_int (hin i hi' j hj')) _

/-- `regularization_util.weighted_regularization_matrix_from` = `Impl.weightedMatrix` with
    `ridge := 1e-8`; `n = len(regularization_weights)` is the size of the matrix, the table has at least
    `n` rows of width `w`, and the neighbour indices that are read are admissible on an axis of length `n`
    (they index the matrix and the squared weights) -/
theorem weighted_regularization_matrix_from_tie {α : Type} [Add α] [Sub α] [Mul α] [Div α] [Zero α]
    [IntCast α] [Inhabited α] (ws : List α) (w : Nat) (T : List (List Int)) (S : List Int)
    (hT : ∀ r ∈ T, r.length = w) (hn : ws.length ≤ T.length)
    (hw : ∀ i < ws.length, (S.getD i 0).toNat ≤ w)
    (hin : ∀ i < ws.length, ∀ j < (S.getD i 0).toNat, InIdx ws.length ((T.getD i []).getD j 0)) :
    Generated.LoopsReg.weighted_regularization_matrix_from ws (ofRows T.length w T) S
      = ofRows ws.length ws.length
          (Impl.weightedMatrix (((1 : Int) : α) / ((100000000 : Int) : α)) ws (pyTable ws.length T)
            (S.map Int.toNat)) := by
  unfold Generated.LoopsReg.weighted_regularization_matrix_from Impl.weightedMatrix
  simp only [A1.len_eq, forRange_zero_nat, PyRt.sq, A1.map]
  refine (foldl_rel (Rel ws.length) (List.range ws.length) _ _ (rel_zeros _) ?_).1
  intro i hi A M h
  have hi' : i < ws.length := by simpa using hi
  rw [get_int, forRange_zero_toNat, getD_map_toNat]
  refine foldl_rel (Rel ws.length) _ _ _ (rel_add h (norm_nat hi') (norm_nat hi') _) ?_
  intro j hj A M h
  have hj' : j < (S.getD i 0).toNat := by simpa using hj
  have hk := norm_int (hin i hi' j hj')
  rw [get_ofRows ⟨rfl, hT⟩ (by omega : i < T.length) (by have := hw i hi'; omega) 0, nb_pyTable,
    get_A1_norm _ 0 (by simpa using hk)]
  exact rel_sub (rel_sub (rel_add (rel_add h (norm_nat hi') (norm_nat hi') _) hk hk _)
    (norm_nat hi') hk _) hk (norm_nat hi') _

/-- `regularization_util.pixel_splitted_regularization_matrix_from` = `Impl.pixelSplittedMatrix` with
    `ridge2 := 2e-8`.  `p = len(splitted_mappings) / 4` (`htr`: the oracle `int()` truncates that
    quotient) is the size of the matrix; the `4 p` cross rows that are read exist in both tables, their
    sizes do not exceed either width, every mapping index that is read is an admissible numpy index on
    an axis of length `p`, and there is a regularization weight per pixel.  `h2`: the float `2.0` of the
    final halving is the model's `1 + 1`. -/
theorem pixel_splitted_regularization_matrix_from_tie {α : Type} [Add α] [Mul α] [Div α] [Zero α]
    [One α] [IntCast α] [Inhabited α] (trunc : α → Int) (ws : List α) (wm ww : Nat)
    (Tm : List (List Int)) (S : List Int) (Tw : List (List α))
    (htr : trunc (((Tm.length : Int) : α) / ((4 : Int) : α)) = ((Tm.length / 4 : Nat) : Int))
    (h2 : ((2 : Int) : α) = 1 + 1)
    (hTm : ∀ r ∈ Tm, r.length = wm) (hTw : ∀ r ∈ Tw, r.length = ww)
    (hLw : 4 * (Tm.length / 4) ≤ Tw.length) (hws : Tm.length / 4 ≤ ws.length)
    (hS : ∀ k < 4 * (Tm.length / 4), (S.getD k 0).toNat ≤ wm ∧ (S.getD k 0).toNat ≤ ww)
    (hin : ∀ k < 4 * (Tm.length / 4), ∀ l < (S.getD k 0).toNat,
      InIdx (Tm.length / 4) ((Tm.getD k []).getD l 0)) :
    Generated.LoopsReg.pixel_splitted_regularization_matrix_from trunc ws (ofRows Tm.length wm Tm) S
        (ofRows Tw.length ww Tw)
      = ofRows (Tm.length / 4) (Tm.length / 4)
          (Impl.pixelSplittedMatrix (((1 : Int) : α) / ((50000000 : Int) : α)) ws
            (pyTable (Tm.length / 4) Tm) (S.map Int.toNat) Tw) := by
  unfold Generated.LoopsReg.pixel_splitted_regularization_matrix_from Impl.pixelSplittedMatrix
  simp only [A2.shape0_eq, ofRows_h, pyTable_length, PyRt.sq, A1.map, htr, h2, forRange_zero_nat]
  refine (foldl_rel (Rel (Tm.length / 4)) (List.range (Tm.length / 4)) _ _ ?_ ?_).1
  · -- the accumulation loops
    refine foldl_rel (Rel (Tm.length / 4)) (List.range (Tm.length / 4)) _ _ (rel_zeros _) ?_
    intro i hi A M h
    have hi' : i < Tm.length / 4 := by simpa using hi
    have h4 : (4 : Int).toNat = 4 := rfl
    rw [forRange_zero_toNat, h4]
    refine foldl_rel (Rel (Tm.length / 4)) _ _ _ (rel_add h (norm_nat hi') (norm_nat hi') _) ?_
    intro j hj A M h
    have hj' : j < 4 := by simpa using hj
    have hk : ((i : Int) * 4 + (j : Int)) = ((i * 4 + j : Nat) : Int) := by omega
    have hkp : i * 4 + j < 4 * (Tm.length / 4) := by omega
    have hkm : i * 4 + j < Tm.length := by omega
    have hkw : i * 4 + j < Tw.length := by omega
    have hrm : ((Tm.getD (i * 4 + j) []).length) = wm := RDims.row (M := Tm) ⟨rfl, hTm⟩ hkm
    have hrw : ((Tw.getD (i * 4 + j) []).length) = ww := RDims.row (M := Tw) ⟨rfl, hTw⟩ hkw
    obtain ⟨hS1, hS2⟩ := hS _ hkp
    rw [hk, get_int, row_ofRows ⟨rfl, hTm⟩ hkm, row_ofRows ⟨rfl, hTw⟩ hkw, forRange_zero_toNat,
      getD_map_toNat]
    refine foldl_rel (Rel (Tm.length / 4)) _ _ _ h ?_
    intro l hl A M h
    have hl' : l < (S.getD (i * 4 + j) 0).toNat := by simpa using hl
    have hsub : ((S.getD (i * 4 + j) 0) - (l : Int)).toNat = (S.getD (i * 4 + j) 0).toNat - l := by
      omega
    rw [forRange_zero_toNat, hsub]
    refine foldl_rel (Rel (Tm.length / 4)) _ _ _ h ?_
    intro m hm A M h
    have hm' : m < (S.getD (i * 4 + j) 0).toNat - l := by simpa using hm
    have el : ((l : Int) + (m : Int)) = ((l + m : Nat) : Int) := by omega
    have hL := norm_int (hin _ hkp l hl')
    have hLM := norm_int (hin _ hkp (l + m) (by omega))
    rw [el, get_int, get_int, get_A1 (Tw.getD (i * 4 + j) []) 0 (k := l) (by omega),
      get_A1 (Tw.getD (i * 4 + j) []) 0 (k := l + m) (by omega),
      get_A1 (List.map (fun u1 => u1 * u1) ws) 0 (k := i) (by simp; omega),
      pyTable_getD, pyTable_getD]
    exact rel_add (rel_add h hL hLM _) hLM hL _
  · -- the halving of the diagonal
    intro i hi A M h
    have hi' : i < Tm.length / 4 := by simpa using hi
    exact rel_div h (norm_nat hi') (norm_nat hi') _

/-- `gaussian_kernel.gauss_cov_matrix_from` = `Impl.covMatrix (Impl.gaussKernel exp scale) sqrt 1e-8`
    on the `n × 2` array of the points `(y, x)`; `h2` is the only fact about the number type that is
    used: the float `2` of `2 * scale ** 2` is the model's `1 + 1` -/
theorem gauss_cov_matrix_from_tie {α : Type} [Add α] [Sub α] [Mul α] [Div α] [Neg α] [Zero α] [One α]
    [IntCast α] [Inhabited α] (sqrt exp : α → α) (scale : α) (P : List (α × α))
    (h2 : ((2 : Int) : α) = 1 + 1) :
    Generated.LoopsReg.gauss_cov_matrix_from sqrt exp scale (ofPoints P)
      = ofRows P.length P.length
          (Impl.covMatrix (Impl.gaussKernel exp scale) sqrt (((1 : Int) : α) / ((100000000 : Int) : α)) P) := by
  unfold Generated.LoopsReg.gauss_cov_matrix_from Impl.covMatrix Impl.gaussKernel
  simp only [A2.shape0_eq, ofPoints_h, forRange_zero_nat, PyRt.sq, h2]
  refine (foldl_rel (Rel P.length) (List.range P.length) _ _ (rel_zeros _) ?_).1
  intro i hi A M h
  have hi' : i < P.length := by simpa using hi
  refine foldl_rel (Rel P.length) _ _ _ (rel_add h (norm_nat hi') (norm_nat hi') _) ?_
  intro j hj A M h
  have hj' : j < P.length := by simpa using hj
  obtain ⟨gi0, gi1⟩ := get_ofPoints P (0, 0) hi'
  obtain ⟨gj0, gj1⟩ := get_ofPoints P (0, 0) hj'
  rw [gi0, gi1, gj0, gj1]
  exact rel_add h (norm_nat hi') (norm_nat hj') _

/-- `exponential_kernel.exp_cov_matrix_from` = `Impl.covMatrix (Impl.expKernel exp scale) sqrt 1e-8` -/
theorem exp_cov_matrix_from_tie {α : Type} [Add α] [Sub α] [Mul α] [Div α] [Neg α] [Zero α] [One α]
    [IntCast α] [Inhabited α] (sqrt exp : α → α) (scale : α) (P : List (α × α)) :
    Generated.LoopsReg.exp_cov_matrix_from sqrt exp scale (ofPoints P)
      = ofRows P.length P.length
          (Impl.covMatrix (Impl.expKernel exp scale) sqrt (((1 : Int) : α) / ((100000000 : Int) : α)) P) := by
  unfold Generated.LoopsReg.exp_cov_matrix_from Impl.covMatrix Impl.expKernel
  simp only [A2.shape0_eq, ofPoints_h, forRange_zero_nat, PyRt.sq]
  refine (foldl_rel (Rel P.length) (List.range P.length) _ _ (rel_zeros _) ?_).1
  intro i hi A M h
  have hi' : i < P.length := by simpa using hi
  refine foldl_rel (Rel P.length) _ _ _ (rel_add h (norm_nat hi') (norm_nat hi') _) ?_
  intro j hj A M h
  have hj' : j < P.length := by simpa using hj
  obtain ⟨gi0, gi1⟩ := get_ofPoints P (0, 0) hi'
  obtain ⟨gj0, gj1⟩ := get_ofPoints P (0, 0) hj'
  rw [gi0, gi1, gj0, gj1]
  exact rel_add h (norm_nat hi') (norm_nat hj') _

end TieReg
