/-
Proofs/TieReg2.lean — LOOP TIES for property C07, Matérn kernel regularization
(`autoarray/inversion/regularization/matern_kernel.py`): the definitions that harness/translate2.py
regenerates from the current Python source (Generated/LoopsReg2.lean) are equal, for every input and every
size, to the hand-written `Model.Impl.maternKernel` / `Model.Impl.maternCov` of
Model/RegularizationMatern.lean.  Only `*_tie` theorems live in this file (helpers: Proofs/TieCore.lean,
Proofs/TieRegAux.lean, Proofs/TieReg2Aux.lean).  See design_notes/LOOP_TIES.md, design_notes/TIES_sweepB_C07.md.

Conventions (those of Proofs/TieReg.lean): a model matrix (list of rows) is the numpy array `ofRows n n M`;
the mesh points `[(y, x), …]` are the `len × 2` array `ofPoints P`; the number type has `0` / `1` through
`Zero α` / `One α`; the oracles `sqrt gamma kv rpow` are the same functions on both sides and nothing is
assumed about them; the float literals `0.00000001` / `1e-8` are handed to the model's `tiny` / `ridge`
parameters exactly as generated; `h2` (the float `2` is the model's `1 + 1`) is the only fact about the
number type that is used.
-/
import Generated.LoopsReg2
import Model.RegularizationMatern
import Proofs.TieCore
import Proofs.TieRegAux
import Proofs.TieReg2Aux

open Model PyRt TieCore TieRegAux TieReg2Aux

namespace TieReg2

/-- `matern_kernel.matern_kernel(r, l, v)` = `Impl.maternKernel sqrt gamma kv rpow 1e-8 r l v` -/
theorem matern_kernel_tie {α : Type} [Add α] [Sub α] [Mul α] [Div α] [Neg α] [Zero α] [One α] [IntCast α]
    [LT α] [DecidableLT α] [BEq α] (sqrt gamma : α → α) (kv rpow : α → α → α) (r l v : α)
    (h2 : ((2 : Int) : α) = 1 + 1) :
    Generated.LoopsReg2.matern_kernel sqrt gamma kv rpow r l v
      = Impl.maternKernel sqrt gamma kv rpow (((1 : Int) : α) / ((100000000 : Int) : α)) r l v := by
  unfold Generated.LoopsReg2.matern_kernel Impl.maternKernel
  simp only [abs_eq, h2]
  rfl

/-- `matern_kernel.matern_cov_matrix_from(scale, nu, pixel_points)` =
    `Impl.maternCov sqrt gamma kv rpow 1e-8 1e-8 scale nu P` on the `n × 2` array of the points `(y, x)` -/
theorem matern_cov_matrix_from_tie {α : Type} [Add α] [Sub α] [Mul α] [Div α] [Neg α] [Zero α] [One α]
    [IntCast α] [LT α] [DecidableLT α] [BEq α] [Inhabited α] (sqrt gamma : α → α) (kv rpow : α → α → α)
    (scale nu : α) (P : List (α × α)) (h2 : ((2 : Int) : α) = 1 + 1) :
    Generated.LoopsReg2.matern_cov_matrix_from sqrt gamma kv rpow scale nu (ofPoints P)
      = ofRows P.length P.length
          (Impl.maternCov sqrt gamma kv rpow (((1 : Int) : α) / ((100000000 : Int) : α))
            (((1 : Int) : α) / ((100000000 : Int) : α)) scale nu P) := by
  unfold Generated.LoopsReg2.matern_cov_matrix_from Impl.maternCov
  simp only [A2.shape0_eq, ofPoints_h, forRange_zero_nat, PyRt.sq,
    matern_kernel_tie sqrt gamma kv rpow _ _ _ h2]
  refine (foldl_rel (Rel P.length) (List.range P.length) _ _ (rel_zeros _) ?_).1
  intro i hi A M h
  have hi' : i < P.length := by simpa using hi
  refine foldl_rel (Rel P.length) _ _ _ (rel_add h (norm_nat hi') (norm_nat hi') _) ?_
  intro j hj A M h
  have hj' : j < P.length := by simpa using hj
  obtain ⟨gi1, gi0⟩ := get_point P hi'
  obtain ⟨gj1, gj0⟩ := get_point P hj'
  rw [gi0, gi1, gj0, gj1]
  exact rel_add h (norm_nat hi') (norm_nat hj') _

end TieReg2
