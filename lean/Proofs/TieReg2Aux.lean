/-
Proofs/TieReg2Aux.lean — helper lemmas of the loop ties of Proofs/TieReg2.lean (Matérn kernel).
Core Lean only.  The matrix / point embeddings and the `Rel` simulation lemmas are those of
Proofs/TieRegAux.lean (`ofRows`, `ofPoints`, `Rel`, `rel_zeros`, `rel_add`, `norm_nat`, `get_ofPoints`).
-/
import Model.PyRt
import Model.RegularizationMatern
import Proofs.TieCore
import Proofs.TieRegAux

open Model PyRt TieCore TieRegAux

namespace TieReg2Aux

variable {α : Type}

/-- Python's `abs(r)` as rendered by the translator is the model's `if r < 0 then -r else r`
    (`0` through `Zero α`) -/
theorem abs_eq [LT α] [DecidableLT α] [Neg α] [Zero α] (r : α) :
    PyRt.abs r = if r < 0 then -r else r := rfl

/-- the two reads `pixel_points[i, 1]`, `pixel_points[i, 0]` of a point `(y, x)` -/
theorem get_point [Inhabited α] [Zero α] (P : List (α × α)) {i : Nat} (hi : i < P.length) :
    A2.get (ofPoints P) (i : Int) 1 = (P.getD i (0, 0)).2
      ∧ A2.get (ofPoints P) (i : Int) 0 = (P.getD i (0, 0)).1 := by
  obtain ⟨g0, g1⟩ := get_ofPoints P (0, 0) hi
  exact ⟨g1, g0⟩

end TieReg2Aux
