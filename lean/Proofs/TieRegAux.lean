/-
Proofs/TieRegAux.lean — helper lemmas for the LOOP TIES of property C07 (Proofs/TieReg.lean):
the embedding of a list-of-rows matrix / table as a numpy 2-D array (`ofRows`), numpy's index
normalisation against the model's `pyIdx`, the point updates `M[i, j] op= v` on an embedded matrix
(`Rel`, `rel_add`, `rel_sub`, `rel_div`), reads of embedded tables, rows and point lists.
Core Lean only (no Mathlib).
-/
import Model.PyRt
import Model.Regularization
import Proofs.TieCore

open Model PyRt TieCore

namespace TieRegAux

variable {α β : Type}

/-! ### lists -/

theorem getD_irrel (l : List β) (k : Nat) (d d' : β) (hk : k < l.length) : l.getD k d = l.getD k d' := by
  simp [List.getD_eq_getElem?_getD, List.getElem?_eq_getElem hk]

/-- `l[k] = g l[k]` is `List.modify` -/
theorem modify_eq_set (l : List β) (k : Nat) (g : β → β) (d : β) :
    l.modify k g = l.set k (g (l.getD k d)) := by
  induction l generalizing k with
  | nil => simp
  | cons a l ih =>
    cases k with
    | zero => simp
    | succ k => simp [ih k]

theorem forRange_zero_toNat {σ : Type} (z : Int) (init : σ) (body : Int → σ → σ) :
    forRange 0 z init body = (List.range z.toNat).foldl (fun (s : σ) (k : Nat) => body (k : Int) s) init := by
  simp [forRange]

/-- `neighbors_sizes[i]` on an integer array -/
theorem get_int (S : List Int) (i : Nat) : A1.get S (i : Int) = S.getD i 0 := by
  rw [A1.get_natCast]; rfl

theorem getD_map_toNat (S : List Int) (i : Nat) : (S.map Int.toNat).getD i 0 = (S.getD i 0).toNat := by
  simp only [List.getD_eq_getElem?_getD, List.getElem?_map]
  cases S[i]? <;> simp

/-! ### a matrix / table given by its rows, as an `n × m` numpy array -/

/-- rows `[[…], […], …]` as the `n × m` numpy array (`n` rows of length `m` when well-formed) -/
def ofRows (n m : Nat) (M : List (List β)) : A2 β := { h := n, w := m, data := M.flatten }

@[simp] theorem ofRows_h (n m : Nat) (M : List (List β)) : (ofRows n m M).h = n := rfl
@[simp] theorem ofRows_w (n m : Nat) (M : List (List β)) : (ofRows n m M).w = m := rfl
@[simp] theorem ofRows_data (n m : Nat) (M : List (List β)) : (ofRows n m M).data = M.flatten := rfl

/-- `M` has `n` rows of length `m` (`Mat.Dims n` is `RDims n n`) -/
def RDims (n m : Nat) (M : List (List β)) : Prop := M.length = n ∧ ∀ r ∈ M, r.length = m

theorem RDims.row {n m : Nat} {M : List (List β)} (hM : RDims n m M) {a : Nat} (ha : a < n) :
    (M.getD a []).length = m := by
  have ha' : a < M.length := by rw [hM.1]; exact ha
  rw [List.getD_eq_getElem?_getD, List.getElem?_eq_getElem ha']
  exact hM.2 _ (List.getElem_mem ha')

theorem RDims.modify {n m : Nat} {M : List (List β)} (hM : RDims n m M) (a : Nat)
    (f : List β → List β) (hf : ∀ r, r.length = m → (f r).length = m) : RDims n m (M.modify a f) := by
  constructor
  · rw [List.length_modify]; exact hM.1
  · intro r hr
    obtain ⟨k, hk, rfl⟩ := List.getElem_of_mem hr
    rw [List.getElem_modify]
    have hk' : k < M.length := by simpa using hk
    split
    · exact hf _ (hM.2 _ (List.getElem_mem hk'))
    · exact hM.2 _ (List.getElem_mem hk')

theorem flatten_getD {m : Nat} (M : List (List β)) (hM : ∀ r ∈ M, r.length = m) (a b : Nat)
    (ha : a < M.length) (hb : b < m) (d : β) :
    M.flatten.getD (a * m + b) d = (M.getD a []).getD b d := by
  induction M generalizing a with
  | nil => simp at ha
  | cons r M ih =>
    have hr : r.length = m := hM r (by simp)
    have hM' : ∀ x ∈ M, x.length = m := fun x hx => hM x (by simp [hx])
    cases a with
    | zero =>
      simp only [Nat.zero_mul, Nat.zero_add, List.flatten_cons, List.getD_cons_zero]
      simp only [List.getD_eq_getElem?_getD]
      rw [List.getElem?_append_left (by omega)]
    | succ a =>
      have e : (a + 1) * m + b = r.length + (a * m + b) := by rw [Nat.succ_mul, hr]; omega
      have := ih hM' a (by simpa using ha)
      simp only [List.flatten_cons, List.getD_cons_succ]
      simp only [List.getD_eq_getElem?_getD] at this ⊢
      rw [e, List.getElem?_append_right (by omega), Nat.add_sub_cancel_left]
      exact this

theorem flatten_set {m : Nat} (M : List (List β)) (hM : ∀ r ∈ M, r.length = m) (a b : Nat)
    (ha : a < M.length) (hb : b < m) (v : β) :
    M.flatten.set (a * m + b) v = (M.modify a fun r => r.set b v).flatten := by
  induction M generalizing a with
  | nil => simp at ha
  | cons r M ih =>
    have hr : r.length = m := hM r (by simp)
    have hM' : ∀ x ∈ M, x.length = m := fun x hx => hM x (by simp [hx])
    cases a with
    | zero =>
      simp only [Nat.zero_mul, Nat.zero_add, List.flatten_cons, List.modify_zero_cons]
      rw [List.set_append, if_pos (by omega)]
    | succ a =>
      have e : (a + 1) * m + b = r.length + (a * m + b) := by rw [Nat.succ_mul, hr]; omega
      have := ih hM' a (by simpa using ha)
      simp only [List.flatten_cons, List.modify_succ_cons]
      rw [e, List.set_append, if_neg (by omega), Nat.add_sub_cancel_left, this]

theorem flatten_drop_take {m : Nat} (M : List (List β)) (hM : ∀ r ∈ M, r.length = m) (a : Nat)
    (ha : a < M.length) : (M.flatten.drop (a * m)).take m = M.getD a [] := by
  induction M generalizing a with
  | nil => simp at ha
  | cons r M ih =>
    have hr : r.length = m := hM r (by simp)
    have hM' : ∀ x ∈ M, x.length = m := fun x hx => hM x (by simp [hx])
    cases a with
    | zero =>
      simp only [Nat.zero_mul, List.drop_zero, List.flatten_cons, List.getD_cons_zero]
      rw [List.take_append_of_le_length (by omega), List.take_of_length_le (by omega)]
    | succ a =>
      have e : (a + 1) * m = r.length + a * m := by rw [Nat.succ_mul, hr]; omega
      simp only [List.flatten_cons, List.getD_cons_succ]
      rw [e, List.drop_append, List.drop_of_length_le (by omega), Nat.add_sub_cancel_left,
        List.nil_append]
      exact ih hM' a (by simpa using ha)

/-! ### numpy's index normalisation and the model's `pyIdx` -/

/-- `i` is an admissible numpy index on an axis of length `n` -/
def InIdx (n : Nat) (i : Int) : Prop := -(n : Int) ≤ i ∧ i < (n : Int)

theorem norm_lt {n : Nat} {i : Int} {a : Nat} (h : norm n i = some a) : a < n := by
  unfold norm at h
  split at h
  · split at h
    · cases h; omega
    · cases h
  · split at h
    · cases h; omega
    · cases h

/-- numpy's wrap-around of an admissible index is the model's `pyIdx` -/
theorem norm_int {n : Nat} {i : Int} (h : InIdx n i) : norm n i = some (pyIdx n i) := by
  obtain ⟨h1, h2⟩ := h
  unfold norm pyIdx
  by_cases h0 : 0 ≤ i
  · have : ¬ i < 0 := by omega
    simp [h0, h2, this]
  · have : i < 0 := by omega
    simp [h0, h1, this]

theorem norm_nat {n a : Nat} (h : a < n) : norm n (a : Int) = some a := norm_of_lt h

theorem nb_pyTable (n : Nat) (T : List (List Int)) (i j : Nat) :
    Spec.nb (pyTable n T) i j = pyIdx n ((T.getD i []).getD j 0) := by
  unfold Spec.nb pyTable
  simp only [List.getD_eq_getElem?_getD, List.getElem?_map]
  cases T[i]? with
  | none => simp [pyIdx]
  | some r =>
    simp only [Option.map_some, Option.getD_some, List.getElem?_map]
    cases r[j]? <;> simp [pyIdx]

@[simp] theorem pyTable_length (n : Nat) (T : List (List Int)) : (pyTable n T).length = T.length := by
  simp [pyTable]

/-- a row of the model's table is the numpy row read through `pyIdx` -/
theorem pyTable_getD (n : Nat) (T : List (List Int)) (k l : Nat) :
    ((pyTable n T).getD k []).getD l 0 = pyIdx n ((T.getD k []).getD l 0) := nb_pyTable n T k l

/-- a table of natural numbers (the form the class level of the model stores) is its own `pyTable` -/
theorem pyTable_natCast (n : Nat) (N : List (List Nat)) :
    pyTable n (N.map fun r => r.map Int.ofNat) = N := by
  have h : ∀ r : List Nat, List.map (pyIdx n) (List.map Int.ofNat r) = r := by
    intro r
    rw [List.map_map]
    conv => rhs; rw [← List.map_id r]
    apply List.map_congr_left
    intro a _
    have h0 : ¬ ((a : Int) < 0) := by omega
    simp [pyIdx, h0]
  unfold pyTable
  rw [List.map_map]
  conv => rhs; rw [← List.map_id N]
  apply List.map_congr_left
  intro r _
  exact h r

theorem map_toNat_natCast (S : List Nat) : (S.map Int.ofNat).map Int.toNat = S := by
  rw [List.map_map]
  conv => rhs; rw [← List.map_id S]
  apply List.map_congr_left
  intro a _
  simp

/-! ### reads and point updates of an embedded matrix -/

theorem get_norm [Inhabited β] (A : A2 β) {i j : Int} {a b : Nat} (hi : norm A.h i = some a)
    (hj : norm A.w j = some b) : A2.get A i j = A.data.getD (a * A.w + b) default := by
  simp [A2.get, hi, hj]

theorem set_norm (A : A2 β) {i j : Int} {a b : Nat} (hi : norm A.h i = some a)
    (hj : norm A.w j = some b) (v : β) :
    A2.set A i j v = { A with data := A.data.set (a * A.w + b) v } := by
  simp [A2.set, hi, hj]

/-- `T[i, j]` on an embedded table -/
theorem get_ofRows [Inhabited β] {n m : Nat} {M : List (List β)} (hM : RDims n m M) {a b : Nat}
    (ha : a < n) (hb : b < m) (d : β) :
    A2.get (ofRows n m M) (a : Int) (b : Int) = (M.getD a []).getD b d := by
  rw [get_norm _ (norm_nat (by simpa using ha)) (norm_nat (by simpa using hb))]
  simp only [ofRows_data, ofRows_w]
  rw [flatten_getD M hM.2 a b (by rw [hM.1]; exact ha) hb]
  exact getD_irrel _ _ _ _ (by rw [hM.row ha]; exact hb)

/-- `T[k]` as a row value of an embedded table -/
theorem row_ofRows {n m : Nat} {M : List (List β)} (hM : RDims n m M) {a : Nat} (ha : a < n) :
    A2.row (ofRows n m M) (a : Int) = M.getD a [] := by
  rw [A2.row_natCast _ _ (by simpa using ha)]
  simp only [ofRows_data, ofRows_w]
  exact flatten_drop_take M hM.2 a (by rw [hM.1]; exact ha)

/-- the point update `A[i, j] = g(A[i, j])` on an embedded `n × m` matrix -/
theorem update_ofRows [Inhabited β] {n m : Nat} {M : List (List β)} (hM : RDims n m M) {i j : Int}
    {a b : Nat} (hi : norm n i = some a) (hj : norm m j = some b) (g : β → β) :
    A2.set (ofRows n m M) i j (g (A2.get (ofRows n m M) i j))
      = ofRows n m (M.modify a fun r => r.modify b g) := by
  have ha := norm_lt hi
  have hb := norm_lt hj
  have ha' : a < M.length := by rw [hM.1]; exact ha
  rw [get_norm _ (by simpa using hi) (by simpa using hj), set_norm _ (by simpa using hi) (by simpa using hj)]
  simp only [ofRows, A2.mk.injEq, true_and]
  rw [flatten_getD M hM.2 a b ha' hb, flatten_set M hM.2 a b ha' hb]
  rw [modify_eq_set M a _ [], modify_eq_set M a _ [], modify_eq_set (M.getD a []) b g default]

/-- the generated matrix is the embedding of the model's matrix (and the model's matrix is `n × n`) -/
def Rel (n : Nat) (A : A2 β) (M : List (List β)) : Prop := A = ofRows n n M ∧ RDims n n M

theorem rel_zeros [Zero β] (n : Nat) :
    Rel n (A2.zeros (α := β) (n : Int) (n : Int)) (Mat.zeros n n) := by
  constructor
  · rw [A2.zeros_natCast]
    simp [ofRows, Mat.zeros]
  · constructor
    · simp [Mat.zeros]
    · intro r hr
      simp only [Mat.zeros, List.mem_replicate] at hr
      rw [hr.2]; simp

theorem rel_update [Inhabited β] {n : Nat} {A : A2 β} {M : List (List β)} (h : Rel n A M) {i j : Int}
    {a b : Nat} (hi : norm n i = some a) (hj : norm n j = some b) (g : β → β) :
    Rel n (A2.set A i j (g (A2.get A i j))) (M.modify a fun r => r.modify b g) := by
  obtain ⟨rfl, hM⟩ := h
  exact ⟨update_ofRows hM hi hj g,
    hM.modify a _ fun r hr => by rw [List.length_modify]; exact hr⟩

/-- `M[i, j] += v` -/
theorem rel_add [Add β] [Inhabited β] {n : Nat} {A : A2 β} {M : List (List β)} (h : Rel n A M)
    {i j : Int} {a b : Nat} (hi : norm n i = some a) (hj : norm n j = some b) (v : β) :
    Rel n (A2.set A i j (A2.get A i j + v)) (Mat.addAt M a b v) :=
  rel_update h hi hj fun e => e + v

/-- `M[i, j] -= v` -/
theorem rel_sub [Sub β] [Inhabited β] {n : Nat} {A : A2 β} {M : List (List β)} (h : Rel n A M)
    {i j : Int} {a b : Nat} (hi : norm n i = some a) (hj : norm n j = some b) (v : β) :
    Rel n (A2.set A i j (A2.get A i j - v)) (Mat.subAt M a b v) :=
  rel_update h hi hj fun e => e - v

/-- `M[i, j] /= v` -/
theorem rel_div [Div β] [Inhabited β] {n : Nat} {A : A2 β} {M : List (List β)} (h : Rel n A M)
    {i j : Int} {a b : Nat} (hi : norm n i = some a) (hj : norm n j = some b) (v : β) :
    Rel n (A2.set A i j (A2.get A i j / v)) (Mat.divAt M a b v) :=
  rel_update h hi hj fun e => e / v

/-- `a[k]` on a 1-D array at an admissible (possibly negative) index, whatever the model's default -/
theorem get_A1_norm [Inhabited β] (l : List β) (d : β) {k : Int} {a : Nat} (hk : norm l.length k = some a) :
    A1.get l k = l.getD a d := by
  unfold A1.get
  rw [hk]
  exact getD_irrel _ _ _ _ (norm_lt hk)

/-! ### the `n × 2` array of mesh points -/

/-- the mesh points `[(y, x), …]` as the `n × 2` numpy array -/
def ofPoints (P : List (β × β)) : A2 β := { h := P.length, w := 2, data := rows2 P }

@[simp] theorem ofPoints_h (P : List (β × β)) : (ofPoints P).h = P.length := rfl
@[simp] theorem ofPoints_w (P : List (β × β)) : (ofPoints P).w = 2 := rfl

/-- `pixel_points[i, 0]`, `pixel_points[i, 1]` -/
theorem get_ofPoints [Inhabited β] (P : List (β × β)) (d : β × β) {i : Nat} (hi : i < P.length) :
    A2.get (ofPoints P) (i : Int) 0 = (P.getD i d).1 ∧ A2.get (ofPoints P) (i : Int) 1 = (P.getD i d).2 := by
  have h0 : (0 : Int) = ((0 : Nat) : Int) := rfl
  have h1 : (1 : Int) = ((1 : Nat) : Int) := rfl
  rw [h0, h1, A2.get_natCast _ _ _ (by simpa using hi) (by simp),
    A2.get_natCast _ _ _ (by simpa using hi) (by simp)]
  have := rows2_getD P default i hi
  simp only [ofPoints, List.getD_eq_getElem?_getD, List.getElem?_eq_getElem hi, Option.getD_some]
  simpa [List.getD_eq_getElem?_getD] using this

end TieRegAux
