/-
Proofs/TieRegTrunc.lean — the two number-type hypotheses of the C07 loop ties are not vacuous:
`h2` (`float(2) = 1 + 1`, used by `gauss_cov_matrix_from_tie` and
`pixel_splitted_regularization_matrix_from_tie`) holds in every ring, and `htr`
(`int(len / 4) = len // 4`: float division, then `int()`) follows from the project's contract of `int()`
(`Model.TruncSpec`, Proofs/Geometry.lean) over every ordered field, hence holds for the driver's
`Model.truncRat` on exact rationals.  The last statement instantiates the hardest tie over an ordered
field with both hypotheses discharged (instance coherence: `Zero`, `One`, `IntCast` of the field).
-/
import Proofs.Geometry
import Proofs.TieReg

open Model PyRt TieRegAux

namespace TieRegAux

/-- the float literal `2` is the model's `1 + 1` in every ring -/
theorem two_eq {α : Type} [Ring α] : ((2 : Int) : α) = 1 + 1 := by
  rw [Int.cast_ofNat]; norm_num

/-- under the `int()` contract, `int(n / 4) = n // 4` for every natural `n` -/
theorem quarter_of_truncSpec {α : Type} [Field α] [LinearOrder α] [IsStrictOrderedRing α]
    {trunc : α → Int} (ht : TruncSpec trunc) (n : Nat) :
    trunc ((((n : Nat) : Int) : α) / ((4 : Int) : α)) = ((n / 4 : Nat) : Int) := by
  have hdm : (n : α) = 4 * ((n / 4 : Nat) : α) + ((n % 4 : Nat) : α) := by
    exact_mod_cast (Nat.div_add_mod n 4).symm
  have h0 : (0 : α) ≤ ((n % 4 : Nat) : α) := Nat.cast_nonneg _
  have h1 : ((n % 4 : Nat) : α) ≤ 3 := by
    have : n % 4 ≤ 3 := by omega
    exact_mod_cast this
  have h4 : (0 : α) < 4 := by norm_num
  apply trunc_eq_of_mem ht
  · rw [Int.cast_natCast, Int.cast_ofNat, le_div_iff₀ h4]
    linarith
  · rw [Int.cast_natCast, Int.cast_ofNat, div_lt_iff₀ h4]
    linarith

/-- the driver's `int()` on exact rationals satisfies the hypothesis of the tie -/
theorem quarter_truncRat (n : Nat) :
    truncRat ((((n : Nat) : Int) : ℚ) / ((4 : Int) : ℚ)) = ((n / 4 : Nat) : Int) :=
  quarter_of_truncSpec truncSpec_truncRat n

/-- `pixel_splitted_regularization_matrix_from_tie` over an ordered field, number-type hypotheses
    discharged -/
theorem pixel_splitted_field {α : Type} [Field α] [LinearOrder α] [IsStrictOrderedRing α] [Inhabited α]
    {trunc : α → Int} (ht : TruncSpec trunc) (ws : List α) (wm ww : Nat)
    (Tm : List (List Int)) (S : List Int) (Tw : List (List α))
    (hTm : ∀ r ∈ Tm, r.length = wm) (hTw : ∀ r ∈ Tw, r.length = ww)
    (hLw : 4 * (Tm.length / 4) ≤ Tw.length) (hws : Tm.length / 4 ≤ ws.length)
    (hS : ∀ k < 4 * (Tm.length / 4), (S.getD k 0).toNat ≤ wm ∧ (S.getD k 0).toNat ≤ ww)
    (hin : ∀ k < 4 * (Tm.length / 4), ∀ l < (S.getD k 0).toNat,
      InIdx (Tm.length / 4) ((Tm.getD k []).getD l 0)) :
    Generated.LoopsReg.pixel_splitted_regularization_matrix_from trunc ws (ofRows Tm.length wm Tm) S
        (ofRows Tw.length ww Tw)
      = ofRows (Tm.length / 4) (Tm.length / 4)
          (Impl.pixelSplittedMatrix (((1 : Int) : α) / ((50000000 : Int) : α)) ws
            (pyTable (Tm.length / 4) Tm) (S.map Int.toNat) Tw) :=
  TieReg.pixel_splitted_regularization_matrix_from_tie trunc ws wm ww Tm S Tw
    (quarter_of_truncSpec ht _) two_eq hTm hTw hLw hws hS hin

end TieRegAux
