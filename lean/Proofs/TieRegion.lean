/-
Proofs/TieRegion.lean — TIES for property C19 (layout regions): the definitions that
harness/translate_region.py regenerates from the current Python source of
`autoarray/layout/region.py` (`Region1D`, `Region2D`) and `autoarray/layout/layout_util.py`
(Generated/RegionArith.lean: plain integer arithmetic on tuples, `none` = Python raises) are equal, for
ALL integer inputs, to the hand-written `Model.Impl.*` functions of Model/Layout.lean that the theorems
of Props/C19.lean are about.  A region object is the tuple it holds (`tup2 r = (r.y0, r.y1, r.x0, r.x1)`).
Only `*_tie` theorems live in this file (embeddings and helpers: Proofs/TieRegionAux.lean).
-/
import Generated.RegionArith
import Model.Layout
import Proofs.TieRegionAux

open Model TieRegionAux

namespace TieRegion

/-! ### `Region1D` -/

/-- `Region1D.__init__` = `Impl.region1dNew` (every pair of ints; `none` = `RegionException`) -/
theorem Region1D.init_tie (t : Int × Int) :
    Generated.RegionArith.Region1D.init t = (Impl.region1dNew (ofTup1 t)).map tup1 := by
  simp only [Generated.RegionArith.Region1D.init, Impl.region1dNew, ofTup1]
  by_cases h1 : t.1 < 0 ∨ t.2 < 0
  · simp only [h1, if_true]; rfl
  · by_cases h2 : t.1 ≥ t.2
    · simp only [h1, h2, if_true, if_false]; rfl
    · simp only [h1, h2, if_false]; rfl

/-- `Region1D.x0` -/
theorem Region1D.x0_tie (r : R1) : Generated.RegionArith.Region1D.x0 (tup1 r) = r.x0 := rfl

/-- `Region1D.x1` -/
theorem Region1D.x1_tie (r : R1) : Generated.RegionArith.Region1D.x1 (tup1 r) = r.x1 := rfl

/-- `Region1D.total_pixels` = `R1.totalPixels` -/
theorem Region1D.total_pixels_tie (r : R1) :
    Generated.RegionArith.Region1D.total_pixels (tup1 r) = r.totalPixels := rfl

/-- `Region1D.front_region_from(pixels, pixels_from_end)` = `Impl.frontPixels` then `Impl.front1d`
    (`pixels` and `pixels_from_end` both `None`: Python raises `TypeError`, both sides `none`) -/
theorem Region1D.front_region_from_tie (r : R1) (pixels : Option (Int × Int)) (pixelsFromEnd : Option Int) :
    Generated.RegionArith.Region1D.front_region_from (tup1 r) pixels pixelsFromEnd
      = ((Impl.frontPixels r.totalPixels pixels pixelsFromEnd).bind (Impl.front1d r)).map tup1 := by
  unfold Generated.RegionArith.Region1D.front_region_from
  simp only [Region1D.init_tie]
  cases pixelsFromEnd <;> cases pixels <;> dsimp only <;>
    first | rfl | (split <;> (rename_i h; rw [← h]; rfl))

/-- `Region1D.trailing_region_from(pixels)` = `Impl.trailing1d` -/
theorem Region1D.trailing_region_from_tie (r : R1) (pixels : Int × Int) :
    Generated.RegionArith.Region1D.trailing_region_from (tup1 r) pixels
      = (Impl.trailing1d r pixels).map tup1 := by
  unfold Generated.RegionArith.Region1D.trailing_region_from
  simp only [Region1D.init_tie]
  split <;> (rename_i h; rw [← h]; rfl)

/-! ### `Region2D` -/

/-- `Region2D.__init__` = `Impl.region2dNew` (every 4-tuple of ints; `none` = `RegionException`) -/
theorem Region2D.init_tie (t : Int × Int × Int × Int) :
    Generated.RegionArith.Region2D.init t = (Impl.region2dNew (ofTup2 t)).map tup2 := by
  simp only [Generated.RegionArith.Region2D.init, Impl.region2dNew, ofTup2]
  by_cases h1 : t.1 < 0 ∨ t.2.1 < 0 ∨ t.2.2.1 < 0 ∨ t.2.2.2 < 0
  · simp only [h1, if_true]; rfl
  · by_cases h2 : t.1 ≥ t.2.1
    · simp only [h1, h2, if_true, if_false]; rfl
    · by_cases h3 : t.2.2.1 ≥ t.2.2.2
      · simp only [h1, h2, h3, if_true, if_false]; rfl
      · simp only [h1, h2, h3, if_false]; rfl

/-- `Region2D.y0` -/
theorem Region2D.y0_tie (r : R2) : Generated.RegionArith.Region2D.y0 (tup2 r) = r.y0 := rfl

/-- `Region2D.y1` -/
theorem Region2D.y1_tie (r : R2) : Generated.RegionArith.Region2D.y1 (tup2 r) = r.y1 := rfl

/-- `Region2D.x0` -/
theorem Region2D.x0_tie (r : R2) : Generated.RegionArith.Region2D.x0 (tup2 r) = r.x0 := rfl

/-- `Region2D.x1` -/
theorem Region2D.x1_tie (r : R2) : Generated.RegionArith.Region2D.x1 (tup2 r) = r.x1 := rfl

/-- `Region2D.total_rows` = `R2.totalRows` -/
theorem Region2D.total_rows_tie (r : R2) :
    Generated.RegionArith.Region2D.total_rows (tup2 r) = r.totalRows := rfl

/-- `Region2D.total_columns` = `R2.totalColumns` -/
theorem Region2D.total_columns_tie (r : R2) :
    Generated.RegionArith.Region2D.total_columns (tup2 r) = r.totalColumns := rfl

/-- `Region2D.shape` (no counterpart in the hand model: tied to the closed form) -/
theorem Region2D.shape_tie (r : R2) :
    Generated.RegionArith.Region2D.shape (tup2 r) = (r.y1 - r.y0, r.x1 - r.x0) := rfl

/-- `Region2D.serial_x_front_range_from(pixels)` = `Impl.serialXFrontRange` (`pixels = None`: `TypeError`) -/
theorem Region2D.serial_x_front_range_from_tie (r : R2) (pixels : Option (Int × Int)) :
    Generated.RegionArith.Region2D.serial_x_front_range_from (tup2 r) pixels
      = pixels.map (Impl.serialXFrontRange r) := by
  cases pixels <;> rfl

/-- `Region2D.parallel_front_region_from(pixels, pixels_from_end)` = `Impl.frontPixels` (on
    `total_rows`) then `Impl.parallelFront` -/
theorem Region2D.parallel_front_region_from_tie (r : R2) (pixels : Option (Int × Int))
    (pixelsFromEnd : Option Int) :
    Generated.RegionArith.Region2D.parallel_front_region_from (tup2 r) pixels pixelsFromEnd
      = ((Impl.frontPixels r.totalRows pixels pixelsFromEnd).bind (Impl.parallelFront r)).map tup2 := by
  unfold Generated.RegionArith.Region2D.parallel_front_region_from
  simp only [Region2D.init_tie]
  cases pixelsFromEnd <;> cases pixels <;> dsimp only <;>
    first | rfl | (split <;> (rename_i h; rw [← h]; rfl))

/-- `Region2D.parallel_trailing_region_from(pixels)` = `Impl.parallelTrailing` -/
theorem Region2D.parallel_trailing_region_from_tie (r : R2) (pixels : Int × Int) :
    Generated.RegionArith.Region2D.parallel_trailing_region_from (tup2 r) pixels
      = (Impl.parallelTrailing r pixels).map tup2 := by
  unfold Generated.RegionArith.Region2D.parallel_trailing_region_from
  simp only [Region2D.init_tie]
  split <;> (rename_i h; rw [← h]; rfl)

/-- `Region2D.parallel_full_region_from(shape_2d)` = `Impl.parallelFull` on `shape_2d[1]` -/
theorem Region2D.parallel_full_region_from_tie (r : R2) (shape2d : Int × Int) :
    Generated.RegionArith.Region2D.parallel_full_region_from (tup2 r) shape2d
      = (Impl.parallelFull r shape2d.2).map tup2 := by
  unfold Generated.RegionArith.Region2D.parallel_full_region_from
  simp only [Region2D.init_tie]
  split <;> (rename_i h; rw [← h]; rfl)

/-- `Region2D.serial_front_region_from(pixels, pixels_from_end)` = `Impl.frontPixels` (on
    `total_columns`) then `Impl.serialFront` -/
theorem Region2D.serial_front_region_from_tie (r : R2) (pixels : Option (Int × Int))
    (pixelsFromEnd : Option Int) :
    Generated.RegionArith.Region2D.serial_front_region_from (tup2 r) pixels pixelsFromEnd
      = ((Impl.frontPixels r.totalColumns pixels pixelsFromEnd).bind (Impl.serialFront r)).map tup2 := by
  unfold Generated.RegionArith.Region2D.serial_front_region_from
  simp only [Region2D.init_tie, Region2D.serial_x_front_range_from_tie]
  cases pixelsFromEnd <;> cases pixels <;> simp only [Option.map_some, Option.map_none] <;>
    first | rfl | (split <;> (rename_i h; rw [← h]; rfl))

/-- `Region2D.serial_trailing_region_from(pixels)` = `Impl.serialTrailing` -/
theorem Region2D.serial_trailing_region_from_tie (r : R2) (pixels : Int × Int) :
    Generated.RegionArith.Region2D.serial_trailing_region_from (tup2 r) pixels
      = (Impl.serialTrailing r pixels).map tup2 := by
  unfold Generated.RegionArith.Region2D.serial_trailing_region_from
  simp only [Region2D.init_tie]
  split <;> (rename_i h; rw [← h]; rfl)

/-- `Region2D.serial_towards_roe_full_region_from(shape_2d, pixels)` = `Impl.serialTowardsRoeFull` on
    `shape_2d[0]` -/
theorem Region2D.serial_towards_roe_full_region_from_tie (r : R2) (shape2d pixels : Int × Int) :
    Generated.RegionArith.Region2D.serial_towards_roe_full_region_from (tup2 r) shape2d pixels
      = (Impl.serialTowardsRoeFull r shape2d.1 pixels).map tup2 := by
  unfold Generated.RegionArith.Region2D.serial_towards_roe_full_region_from
  simp only [Region2D.init_tie, Region2D.serial_x_front_range_from_tie, Option.map_some]
  split <;> (rename_i h; rw [← h]; rfl)

/-! ### `layout_util` -/

/-- `rotate_array_via_roe_corner_from` on the four corners = `Impl.rotateArray` (rows as lists:
    `a[::-1, :]` = `reverse`, `a[:, ::-1]` = `map reverse`) -/
theorem rotate_array_via_roe_corner_from_tie {α : Type} (a : List (List α)) (c : Corner) :
    Generated.RegionArith.rotate_array_via_roe_corner_from a (cornerTup c) = some (Impl.rotateArray c a) := by
  cases c <;> rfl

/-- `rotate_array_via_roe_corner_from` with any other `roe_corner` returns `None` -/
theorem rotate_array_via_roe_corner_from_other_tie {α : Type} (a : List (List α)) (t : Int × Int)
    (ht : ∀ c, t ≠ cornerTup c) :
    Generated.RegionArith.rotate_array_via_roe_corner_from a t = none := by
  unfold Generated.RegionArith.rotate_array_via_roe_corner_from
  have h10 : t ≠ (1, 0) := ht .c10
  have h00 : t ≠ (0, 0) := ht .c00
  have h11 : t ≠ (1, 1) := ht .c11
  have h01 : t ≠ (0, 1) := ht .c01
  rw [if_neg h10, if_neg h00, if_neg h11, if_neg h01]

/-- `rotate_region_via_roe_corner_from(region, shape_native, roe_corner)` (region not `None`, the four
    corners, `shape_native` non-negative as in the model) = `Impl.rotateRegion`; outer `none` = raised -/
theorem rotate_region_via_roe_corner_from_tie (r : R2) (h w : Nat) (c : Corner) :
    Generated.RegionArith.rotate_region_via_roe_corner_from (some (tup2 r)) ((h : Int), (w : Int))
        (cornerTup c)
      = (Impl.rotateRegion r h w c).map (fun r' => some (tup2 r')) := by
  unfold Generated.RegionArith.rotate_region_via_roe_corner_from
  simp only [Region2D.init_tie]
  cases c <;> dsimp only [cornerTup, Impl.rotateRegion, ofTup2, tup2] <;>
    simp (decide := true) only [↓reduceIte] <;>
    cases Impl.region2dNew _ <;> rfl

/-- `rotate_region_via_roe_corner_from(None, …)` returns `None` -/
theorem rotate_region_via_roe_corner_from_none_tie (shape corner : Int × Int) :
    Generated.RegionArith.rotate_region_via_roe_corner_from none shape corner = some none := rfl

/-- `x0x1_after_extraction` = `Impl.x0x1AfterExtraction` (all integers; `(None, None)` = `none`) -/
theorem x0x1_after_extraction_tie (x0o x1o x0e x1e : Int) :
    Generated.RegionArith.x0x1_after_extraction x0o x1o x0e x1e
      = pairOpt (Impl.x0x1AfterExtraction x0o x1o x0e x1e) := by
  unfold Generated.RegionArith.x0x1_after_extraction Impl.x0x1AfterExtraction
  dsimp only
  by_cases h1 : x0e ≥ x0o <;> by_cases h2 : x0e ≤ x1o <;> by_cases h3 : x0e ≤ x0o <;>
    by_cases h4 : x1e ≥ x0o <;> by_cases h5 : x1e ≤ x1o <;> by_cases h6 : x1e > x1o <;>
    simp only [h1, h2, h3, h4, h5, h6, and_self, and_true, and_false, if_true, if_false] <;>
    (try dsimp only) <;> (repeat' split) <;> first | rfl | (exfalso; omega)

/-- `region_after_extraction(original_region, extraction_region)` (original not `None`)
    = `Impl.regionAfterExtraction` -/
theorem region_after_extraction_tie (o e : R2) :
    Generated.RegionArith.region_after_extraction (some (tup2 o)) (tup2 e)
      = outcomeOpt (Impl.regionAfterExtraction o e) := by
  unfold Generated.RegionArith.region_after_extraction Impl.regionAfterExtraction
  simp only [x0x1_after_extraction_tie, Region2D.init_tie]
  dsimp only [tup2]
  rcases Impl.x0x1AfterExtraction o.y0 o.y1 e.y0 e.y1 with _ | ⟨y0, y1⟩ <;>
    rcases Impl.x0x1AfterExtraction o.x0 o.x1 e.x0 e.x1 with _ | ⟨x0, x1⟩ <;>
    dsimp only [pairOpt, ofTup2] <;> first | rfl | skip
  cases Impl.region2dNew ⟨y0, y1, x0, x1⟩ <;> rfl

/-- `region_after_extraction(None, …)` returns `None` -/
theorem region_after_extraction_none_tie (e : Int × Int × Int × Int) :
    Generated.RegionArith.region_after_extraction none e = some none := rfl

end TieRegion
