/-
Proofs/TieRegionAux.lean — embeddings and helper lemmas for Proofs/TieRegion.lean (region arithmetic ties,
property C19).  The generated definitions (Generated/RegionArith.lean) speak about plain tuples of `Int`
(a `Region2D` object is the tuple it holds); the hand model (Model/Layout.lean) about the structures
`R2` / `R1`, the inductive `Corner` and the three-valued `Outcome`.  Core Lean only.
-/
import Generated.RegionArith
import Model.Layout

namespace TieRegionAux

open Model

/-- a `Region2D` as the tuple `(y0, y1, x0, x1)` it holds -/
def tup2 (r : R2) : Int × Int × Int × Int := (r.y0, r.y1, r.x0, r.x1)

/-- a `Region1D` as the tuple `(x0, x1)` it holds -/
def tup1 (r : R1) : Int × Int := (r.x0, r.x1)

/-- the tuple a 4-tuple of Python ints denotes as a model region -/
def ofTup2 (t : Int × Int × Int × Int) : R2 := ⟨t.1, t.2.1, t.2.2.1, t.2.2.2⟩

def ofTup1 (t : Int × Int) : R1 := ⟨t.1, t.2⟩

@[simp] theorem tup2_ofTup2 (t : Int × Int × Int × Int) : tup2 (ofTup2 t) = t := rfl
@[simp] theorem ofTup2_tup2 (r : R2) : ofTup2 (tup2 r) = r := rfl
@[simp] theorem tup1_ofTup1 (t : Int × Int) : tup1 (ofTup1 t) = t := rfl
@[simp] theorem ofTup1_tup1 (r : R1) : ofTup1 (tup1 r) = r := rfl

/-- the `roe_corner` tuples the code compares with -/
def cornerTup : Corner → Int × Int
  | .c10 => (1, 0)
  | .c00 => (0, 0)
  | .c11 => (1, 1)
  | .c01 => (0, 1)

/-- Python's `(x0, x1)` / `(None, None)` result of `x0x1_after_extraction` -/
def pairOpt : Option (Int × Int) → Option Int × Option Int
  | some (a, b) => (some a, some b)
  | none => (none, none)

/-- `Outcome` as the generated code renders it: outer `none` = raised, inner `none` = Python `None` -/
def outcomeOpt : Impl.Outcome R2 → Option (Option (Int × Int × Int × Int))
  | .value r => some (some (tup2 r))
  | .absent => some none
  | .raised => none

/-- the bind the translator emits for a call of a raising function whose value is returned as it is -/
theorem bind_some_id {β : Type} (x : Option β) :
    (match x with | none => none | some r => some r) = x := by
  cases x <;> rfl

theorem bind_some_some {β : Type} (x : Option β) :
    (match x with | none => none | some r => some (some r)) = x.map some := by
  cases x <;> rfl

end TieRegionAux
