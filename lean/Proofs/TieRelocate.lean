/-
Proofs/TieRelocate.lean — LOOP TIES for property C18 (border relocation): the definitions that
harness/translate2.py regenerates from the current Python source (Generated/LoopsRelocate.lean) are
equal, for every input and every size, to the hand-written `Model.Impl.*` functions of
Model/Border.lean that the theorems of Props/C18.lean are about.  Only `*_tie` theorems live in this
file (helpers: Proofs/TieCore.lean, Proofs/TieRelocateAux.lean).  See design_notes/LOOP_TIES.md for the
proof pattern and design_notes/TIES_C18.md for what is tied under which hypotheses.

A coordinate list `[(y, x), …]` of the model is the `n × 2` numpy array `ofPts l` (shape `(n, 2)`,
row-major data `y0, x0, y1, x1, …`).

Part 1: the three jit functions of `grid_2d_util.py` (relocation, bounding-box centre, farthest sub-pixel).
Part 2: the two jit functions of `over_sample_util.py` that `sub_border_pixel_slim_indexes_from` feeds into
the farthest-sub-pixel scan, tied to C18's OWN transliterations in Model/Border.lean
(`Impl.slimIndexForSubSlimIndex`, `Impl.subGrid`), and their callees.  Their loop bodies are the "write a
whole block at a running counter" shape whose packing lemmas live in Proofs/TieOverSampleAux.lean (shared
with property C09, whose model of the same functions is a different set of definitions).
-/
import Generated.LoopsRelocate
import Model.Border
import Model.OverSample
import Proofs.Border
import Proofs.BorderSub
import Proofs.Slim
import Proofs.OverSample
import Proofs.TieCore
import Proofs.TieOverSampleAux
import Proofs.TieRelocateAux
import Proofs.TieRelocateAux2
import Mathlib.Tactic.Ring
import Mathlib.Algebra.Order.Field.Basic

open Model PyRt TieCore TieOverSampleAux TieRelocateAux

namespace TieRelocate

/-- `grid_2d_util.grid_2d_centre_from` = `Impl.gridCentre` (numpy raises on an empty grid) -/
theorem grid_2d_centre_from_tie {α : Type} [Field α] [LT α] [DecidableLT α] [Inhabited α]
    (g : List (α × α)) (hg : g ≠ []) :
    Generated.LoopsRelocate.grid_2d_centre_from (ofPts g) = Impl.gridCentre g := by
  have h0 : g.map Prod.fst ≠ [] := by simpa using hg
  have h1 : g.map Prod.snd ≠ [] := by simpa using hg
  unfold Generated.LoopsRelocate.grid_2d_centre_from Impl.gridCentre
  rw [col0_ofPts, col1_ofPts, max_eq h0, min_eq h0, max_eq h1, min_eq h1, Int.cast_ofNat]

/-- `grid_2d_util.furthest_grid_2d_slim_index_from` = `Impl.furthest`, for every index list whose entries
    are rows of the grid.  The model's `none` is the local that Python leaves unbound (empty index list:
    UnboundLocalError), which the translation totalises to `0`. -/
theorem furthest_grid_2d_slim_index_from_tie {α : Type} [Add α] [Sub α] [Mul α] [OfNat α 0]
    [LinearOrder α] [Inhabited α] (g : List (α × α)) (idxs : List Nat) (c : α × α)
    (hin : ∀ k ∈ idxs, k < g.length) :
    Generated.LoopsRelocate.furthest_grid_2d_slim_index_from (ofPts g) (idxs.map fun (k : Nat) => (k : Int)) c
      = ((Impl.furthest g idxs c).map fun (k : Nat) => (k : Int)).getD 0 := by
  unfold Generated.LoopsRelocate.furthest_grid_2d_slim_index_from Impl.furthest PyRt.forEach
  simp only [List.foldl_map]
  have key := foldl_rel (fun (s : α × Int) (t : α × Option Nat) =>
      s.1 = t.1 ∧ s.2 = (t.2.map fun (k : Nat) => (k : Int)).getD 0) idxs
    (fun (st : α × Int) (k : Nat) =>
      if decide (PyRt.sq (PyRt.A2.get (ofPts g) (k : Int) 1 - c.2)
            + PyRt.sq (PyRt.A2.get (ofPts g) (k : Int) 0 - c.1) ≥ st.1) then
        (PyRt.sq (PyRt.A2.get (ofPts g) (k : Int) 1 - c.2)
            + PyRt.sq (PyRt.A2.get (ofPts g) (k : Int) 0 - c.1), (k : Int))
      else (st.1, st.2))
    (fun (st : α × Option Nat) k =>
      if Impl.furthestDist g c k < st.1 then st else (Impl.furthestDist g c k, some k))
    (s := ((0 : α), (0 : Int))) (t := ((0 : α), none)) ⟨rfl, rfl⟩
    (by
      intro k hk s t hst
      obtain ⟨e0, e1⟩ := get_ofPts g (0, 0) (hin k hk)
      rw [e0, e1, hst.1]
      have hd : PyRt.sq ((g.getD k (0, 0)).2 - c.2) + PyRt.sq ((g.getD k (0, 0)).1 - c.1)
          = Impl.furthestDist g c k := rfl
      rw [hd]
      by_cases hlt : Impl.furthestDist g c k < t.1
      · have hge : ¬ (Impl.furthestDist g c k ≥ t.1) := not_le.mpr hlt
        simp only [hlt, hge, decide_false, if_true, Bool.false_eq_true, if_false]
        exact ⟨trivial, hst.2⟩
      · have hge : Impl.furthestDist g c k ≥ t.1 := not_lt.mp hlt
        simp only [hlt, hge, decide_true, if_true, if_false]
        exact ⟨trivial, rfl⟩)
  exact key.2

/-- `furthest_grid_2d_slim_index_from` on the domain where Python does not raise (non-empty index list,
    indices in range) over an ordered field: the model returns `some` index and it is the code's. -/
theorem furthest_grid_2d_slim_index_from_bound_tie {α : Type} [Field α] [LinearOrder α]
    [IsStrictOrderedRing α] [Inhabited α] (g : List (α × α)) (idxs : List Nat) (c : α × α)
    (hne : idxs ≠ []) (hin : ∀ k ∈ idxs, k < g.length) :
    (Impl.furthest g idxs c).map (fun (k : Nat) => (k : Int))
      = some (Generated.LoopsRelocate.furthest_grid_2d_slim_index_from (ofPts g)
          (idxs.map fun (k : Nat) => (k : Int)) c) := by
  rw [furthest_grid_2d_slim_index_from_tie g idxs c hin]
  obtain ⟨k, _, _, _, hk, _⟩ := furthest_spec g c idxs hne
  rw [hk]
  rfl

/-- `grid_2d_util.relocated_grid_via_jit_from` = `Impl.relocatedGrid` (numpy raises on an empty border:
    `np.min` of a zero-size array) -/
theorem relocated_grid_via_jit_from_tie {α : Type} [Field α] [LT α] [DecidableLT α] [Inhabited α]
    (sqrt : α → α) (grid border : List (α × α)) (hb : border ≠ []) :
    Generated.LoopsRelocate.relocated_grid_via_jit_from sqrt (ofPts grid) (ofPts border)
      = ofPts (Impl.relocatedGrid sqrt grid border) := by
  have hr : Impl.borderRadii sqrt border ≠ [] := by simpa [Impl.borderRadii] using hb
  unfold Generated.LoopsRelocate.relocated_grid_via_jit_from Impl.relocatedGrid
  rw [Model.foldl_set_eq_map]
  simp only [assign_zeros_ofPts, origin_eq, get_pair0, get_pair1, col0_ofPts, col1_ofPts, mean_eq,
    radii_eq]
  have ho : (Impl.mean (border.map Prod.fst), Impl.mean (border.map Prod.snd))
      = Impl.borderOrigin border := rfl
  have hrad : (border.map fun b => sqrt (Impl.sqDist b (Impl.borderOrigin border)))
      = Impl.borderRadii sqrt border := rfl
  rw [ho, hrad, min_eq hr]
  simp only [A2.shape0_eq, ofPts_h, forRange_zero_nat]
  refine relocate_loop grid _ (0, 0) _ ?_
  intro i hi out hlen hget
  have hi' : i < out.length := by omega
  obtain ⟨e0, e1⟩ := get_ofPts grid (0, 0) hi
  have hp : grid.getD i (0, 0) = grid[i] := by simp [List.getD_eq_getElem?_getD, hi]
  have hrp : A1.get (grid.map fun p => sqrt (Impl.sqDist p (Impl.borderOrigin border))) (i : Int)
      = sqrt (Impl.sqDist (grid.getD i (0, 0)) (Impl.borderOrigin border)) := by
    rw [A1.get_natCast]
    exact getD_map_of_lt _ grid (0, 0) default hi
  have hrow : A2.row (ofPts grid) (i : Int) = [(grid.getD i (0, 0)).1, (grid.getD i (0, 0)).2] := by
    rw [row_ofPts grid hi, hp]
  simp only [e0, e1, hrp, hrow, dists_eq, argmin_eq, move_row]
  generalize grid.getD i (0, 0) = p at *
  have hk : Impl.argmin (border.map fun b => Impl.sqDist p b) < (Impl.borderRadii sqrt border).length := by
    have := argmin_lt (l := border.map fun b => Impl.sqDist p b) (by simpa using hb)
    simpa [Impl.borderRadii] using this
  have hget0 : (Impl.borderRadii sqrt border).getD
        (Impl.argmin (border.map fun b => Impl.sqDist p b)) default
      = (Impl.borderRadii sqrt border).getD (Impl.argmin (border.map fun b => Impl.sqDist p b)) 0 := by
    simp [List.getD_eq_getElem?_getD, hk]
  rw [A1.get_natCast, hget0]
  have hself : out.set i p = out := by
    apply List.ext_getElem?
    intro j
    by_cases hj : j = i
    · subst hj
      rw [List.getElem?_set_self hi', hget]
      simp [hp.symm, hi]
    · rw [List.getElem?_set_ne (Ne.symm hj)]
  unfold Impl.relocatePoint
  simp only [gt_iff_lt]
  by_cases h1 : Impl.minList (Impl.borderRadii sqrt border) < sqrt (Impl.sqDist p (Impl.borderOrigin border))
  · simp only [h1, decide_true, if_true]
    by_cases h2 : (Impl.borderRadii sqrt border).getD (Impl.argmin (border.map fun b => Impl.sqDist p b)) 0
        / sqrt (Impl.sqDist p (Impl.borderOrigin border)) < 1
    · simp only [h2, decide_true, if_true]
      exact setRow_ofPts out hi' _ _
    · simp only [h2, decide_false, if_false, Bool.false_eq_true, hself]
  · simp only [h1, decide_false, if_false, Bool.false_eq_true, hself]

/-! ## Part 2: the over-sampled grid and the sub-pixel table -/

/-- `over_sample_util.total_sub_pixels_2d_from` = `Σ sub²` (`subOffset` past the last entry) -/
theorem total_sub_pixels_2d_from_tie (sub : List Nat) :
    Generated.LoopsRelocate.total_sub_pixels_2d_from (subInt sub)
      = ((subOffset sub sub.length : Nat) : Int) := by
  unfold Generated.LoopsRelocate.total_sub_pixels_2d_from
  rw [sum_sq_subInt, offset_eq_subOffset sub (Nat.le_refl _)]

/-- `over_sample_util.slim_index_for_sub_slim_index_via_mask_2d_from` on the whole domain where Python
    does not raise (a sub-size for AT LEAST every unmasked pixel): `Impl.slimIndexForSubSlimIndex`, followed
    by the zeros the surplus sub-sizes reserve in the `np.zeros(total_sub_pixels)` buffer -/
theorem slim_index_for_sub_slim_index_via_mask_2d_from_padded_tie {α : Type} [OfNat α 0] [IntCast α]
    (m : Mask) (wf : m.WF) (sub : List Nat) (hsub : Impl.totalPixels m ≤ sub.length) :
    Generated.LoopsRelocate.slim_index_for_sub_slim_index_via_mask_2d_from (α := α) (ofMask m) (subInt sub)
      = (Impl.slimIndexForSubSlimIndex m sub).map (fun (k : Nat) => ((k : Int) : α))
          ++ List.replicate (subOffset sub sub.length - subOffset sub (Impl.totalPixels m)) 0 := by
  rw [← offset_eq_subOffset sub (Nat.le_refl _), ← offset_eq_subOffset sub hsub]
  show _ = (Impl.slimForSubSlim m sub).map (fun (k : Nat) => ((k : Int) : α)) ++ _
  unfold Generated.LoopsRelocate.slim_index_for_sub_slim_index_via_mask_2d_from
    Generated.LoopsRelocate.total_sub_pixels_2d_from
  rw [sum_sq_subInt]
  simp only [A2.shape0_eq, A2.shape1_eq, ofMask_h, ofMask_w, forRange_yx_int, Int.toNat_natCast,
    A1.zeros_natCast]
  rw [foldl_congr_mem (g := fun (st : A1 α × Int × Int) p =>
      if !m.get p.1 p.2 then
        (((pixels (A1.get (subInt sub) st.2.1).toNat (A1.get (subInt sub) st.2.1).toNat).foldl
            (fun (s : A1 α × Int) _ => (A1.set s.1 s.2 ((st.2.1 : Int) : α), s.2 + 1)) (st.1, st.2.2)).1,
         st.2.1 + 1,
         ((pixels (A1.get (subInt sub) st.2.1).toNat (A1.get (subInt sub) st.2.1).toNat).foldl
            (fun (s : A1 α × Int) _ => (A1.set s.1 s.2 ((st.2.1 : Int) : α), s.2 + 1)) (st.1, st.2.2)).2)
      else st)]
  · have hN : ((pixels m.h m.w).filter fun p => !m.get p.1 p.2).length = Impl.totalPixels m := by
      rw [totalPixels_eq]; rfl
    have hb := blocks_length (pixels m.h m.w) (fun p => !m.get p.1 p.2) sub
      (fun _ j _ => ((j : Int) : α))
    rw [hN] at hb
    have hmono : Spec.offset sub (Impl.totalPixels m) ≤ Spec.offset sub sub.length := by
      rw [offset_eq_offs]; exact offs_mono _ hsub
    have := pack_blocks_A1 (pixels m.h m.w) (fun p => !m.get p.1 p.2)
      (fun _ j => pixels (A1.get (subInt sub) j).toNat (A1.get (subInt sub) j).toNat)
      (fun _ j _ => ((j : Int) : α)) (0 : α) []
      (List.replicate (Spec.offset sub sub.length - Spec.offset sub (Impl.totalPixels m)) 0) 0
    have e : Spec.offset sub (Impl.totalPixels m)
        + (Spec.offset sub sub.length - Spec.offset sub (Impl.totalPixels m)) = Spec.offset sub sub.length := by
      omega
    rw [hb, List.replicate_append_replicate, e] at this
    simp only [List.nil_append, List.length_nil, Int.natCast_zero] at this
    rw [this, slimForSubSlim_blocks]
    simp only [blocksOf, get_subInt, Int.toNat_natCast, List.map_flatMap, List.map_map]
    rfl
  · intro p hp st
    rw [mem_pixels] at hp
    rw [get_ofMask m wf hp.1 hp.2]

/-- `over_sample_util.slim_index_for_sub_slim_index_via_mask_2d_from` = `Impl.slimIndexForSubSlimIndex`
    (one sub-size per unmasked pixel, the domain of the hand model; `.astype("int")` of the result is what
    `sub_slim_indexes_for_slim_index_via_mask_2d_from` buckets) -/
theorem slim_index_for_sub_slim_index_via_mask_2d_from_tie {α : Type} [OfNat α 0] [IntCast α]
    (m : Mask) (wf : m.WF) (sub : List Nat) (hsub : sub.length = Impl.totalPixels m) :
    Generated.LoopsRelocate.slim_index_for_sub_slim_index_via_mask_2d_from (α := α) (ofMask m) (subInt sub)
      = (Impl.slimIndexForSubSlimIndex m sub).map (fun (k : Nat) => ((k : Int) : α)) := by
  rw [slim_index_for_sub_slim_index_via_mask_2d_from_padded_tie m wf sub (by omega), ← hsub, Nat.sub_self,
    List.replicate_zero, List.append_nil]

/-- `geometry_util.central_pixel_coordinates_2d_from` (callee; `Impl.subGrid` inlines it): `(n - 1) / 2` -/
theorem central_pixel_coordinates_2d_from_tie {α : Type} [Field α] (h w : Nat) :
    Generated.LoopsRelocate.central_pixel_coordinates_2d_from (α := α) ((h : Int), (w : Int))
      = (((h : α) - 1) / 2, ((w : α) - 1) / 2) := by
  simp [Generated.LoopsRelocate.central_pixel_coordinates_2d_from]

/-- `geometry_util.central_scaled_coordinate_2d_from` (callee) = the `cy`, `cx` of `Impl.subGrid` -/
theorem central_scaled_coordinate_2d_from_tie {α : Type} [Field α] (h w : Nat) (ps origin : α × α) :
    Generated.LoopsRelocate.central_scaled_coordinate_2d_from ((h : Int), (w : Int)) ps origin
      = (((h : α) - 1) / 2 + origin.1 / ps.1, ((w : α) - 1) / 2 - origin.2 / ps.2) := by
  unfold Generated.LoopsRelocate.central_scaled_coordinate_2d_from
  rw [central_pixel_coordinates_2d_from_tie]

/-- `over_sample_util.grid_2d_slim_over_sampled_via_mask_from` on the whole domain where Python does not
    raise: the points of `Impl.subGrid`, then the zero rows of the surplus sub-sizes -/
theorem grid_2d_slim_over_sampled_via_mask_from_padded_tie {α : Type} [Field α]
    (m : Mask) (wf : m.WF) (sub : List Nat) (hsub : Impl.totalPixels m ≤ sub.length) (ps origin : α × α) :
    Generated.LoopsRelocate.grid_2d_slim_over_sampled_via_mask_from (ofMask m) ps (subInt sub) origin
      = ofPointsPadded (Impl.subGrid m ps origin sub)
          (subOffset sub sub.length - subOffset sub (Impl.totalPixels m)) 0 := by
  rw [← offset_eq_subOffset sub (Nat.le_refl _), ← offset_eq_subOffset sub hsub]
  obtain ⟨sy, sx⟩ := ps
  obtain ⟨oy, ox⟩ := origin
  let g : Geom α := ⟨sy, sx, oy, ox⟩
  show Generated.LoopsRelocate.grid_2d_slim_over_sampled_via_mask_from (ofMask m) (g.sy, g.sx) (subInt sub)
        (g.oy, g.ox)
      = ofPointsPadded (Impl.overSampledGrid m sub g) _ 0
  have hc : ∀ (h w : Nat), Generated.LoopsRelocate.central_scaled_coordinate_2d_from
      ((h : Int), (w : Int)) (g.sy, g.sx) (g.oy, g.ox) = Impl.centresScaled h w g := by
    intro h w
    rw [central_scaled_coordinate_2d_from_tie]
    rfl
  generalize g = g at *
  unfold Generated.LoopsRelocate.grid_2d_slim_over_sampled_via_mask_from
  rw [sum_sq_subInt]
  simp only [A2.shape0_eq, A2.shape1_eq, ofMask_h, ofMask_w, hc,
    forRange_yx_int, Int.toNat_natCast, A2.zeros, A2.full, toNat_two]
  have hN : ((pixels m.h m.w).filter fun p => !m.get p.1 p.2).length = Impl.totalPixels m := by
    rw [totalPixels_eq]; rfl
  have hmono : Spec.offset sub (Impl.totalPixels m) ≤ Spec.offset sub sub.length := by
    rw [offset_eq_offs]; exact offs_mono _ hsub
  rw [foldl_congr_mem (g := stepRows2 (fun p => !m.get p.1 p.2)
      (fun _ j => pixels (A1.get (subInt sub) j).toNat (A1.get (subInt sub) j).toNat)
      (fun p j q =>
        -(((((p.1 : Nat) : Int) : α) - (Impl.centresScaled m.h m.w g).1) * g.sy - g.sy / ((2 : Int) : α)
            + (((q.1 : Nat) : Int) : α) * (g.sy / ((A1.get (subInt sub) j : Int) : α))
          + g.sy / ((A1.get (subInt sub) j : Int) : α) / ((2 : Int) : α)))
      (fun p j q =>
        ((((p.2 : Nat) : Int) : α) - (Impl.centresScaled m.h m.w g).2) * g.sx - g.sx / ((2 : Int) : α)
            + (((q.2 : Nat) : Int) : α) * (g.sx / ((A1.get (subInt sub) j : Int) : α))
          + g.sx / ((A1.get (subInt sub) j : Int) : α) / ((2 : Int) : α)))]
  · rw [pack_blocks_rows2_padded _ _ _ _ _ _ _
        (Spec.offset sub sub.length - Spec.offset sub (Impl.totalPixels m))
        (by rw [blocks_length, hN]; omega),
      overSampledGrid_loop, slimPixels_eq]
    simp only [blocksOf, get_subInt, Int.toNat_natCast, Impl.subPoint, Int.cast_natCast, Int.cast_ofNat]
  · intro p hp st
    rw [mem_pixels] at hp
    rw [get_ofMask m wf hp.1 hp.2]
    rfl

/-- `over_sample_util.grid_2d_slim_over_sampled_via_mask_from` = `Impl.subGrid` (one sub-size per unmasked
    pixel): the grid that `sub_border_pixel_slim_indexes_from` hands (with unit scales and zero origin) to
    `grid_2d_centre_from` and `furthest_grid_2d_slim_index_from` -/
theorem grid_2d_slim_over_sampled_via_mask_from_tie {α : Type} [Field α]
    (m : Mask) (wf : m.WF) (sub : List Nat) (hsub : sub.length = Impl.totalPixels m) (ps origin : α × α) :
    Generated.LoopsRelocate.grid_2d_slim_over_sampled_via_mask_from (ofMask m) ps (subInt sub) origin
      = ofPts (Impl.subGrid m ps origin sub) := by
  rw [grid_2d_slim_over_sampled_via_mask_from_padded_tie m wf sub (by omega), ← hsub, Nat.sub_self,
    ofPointsPadded_zero]
  rfl

end TieRelocate
