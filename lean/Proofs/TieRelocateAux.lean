/-
Proofs/TieRelocateAux.lean — helper lemmas for the LOOP TIES of property C18 (Proofs/TieRelocate.lean).
Contents:
  * `ofPts`             a list of `(y, x)` coordinates as the `n × 2` numpy array the Python functions receive,
                        with its reads (`get_ofPts`, `row_ofPts`, `col0_ofPts`, `col1_ofPts`) and the row
                        store (`setRow_ofPts`);
  * numpy reductions of `Model/PyRt.lean` = the scans of `Model/Border.lean`
                        (`max_eq`, `min_eq`, `mean_eq`, `argmin_eq`, `argmin_lt`);
  * the vectorised squared distances (`radii_eq`, `dists_eq`), the two-entry `border_origin` buffer;
  * `relocate_loop`     "copy the grid, then overwrite row `i` only when it moves" = `map` of the loop body.
-/
import Model.PyRt
import Model.Core
import Model.Border
import Proofs.Core
import Proofs.Border
import Proofs.TieCore

open Model PyRt TieCore

namespace TieRelocateAux

/-! ### the `n × 2` coordinate array -/

/-- a list of `(y, x)` coordinates as the `n × 2` numpy array -/
def ofPts (l : List (β × β)) : A2 β := { h := l.length, w := 2, data := rows2 l }

@[simp] theorem ofPts_h (l : List (β × β)) : (ofPts l).h = l.length := rfl
@[simp] theorem ofPts_w (l : List (β × β)) : (ofPts l).w = 2 := rfl
@[simp] theorem ofPts_data (l : List (β × β)) : (ofPts l).data = rows2 l := rfl

theorem rows2_cons (a : β × β) (l : List (β × β)) : rows2 (a :: l) = a.1 :: a.2 :: rows2 l := by
  simp [rows2]

/-- `grid[k, 0]`, `grid[k, 1]` -/
theorem get_ofPts [Inhabited β] (l : List (β × β)) (d : β × β) {k : Nat} (hk : k < l.length) :
    A2.get (ofPts l) (k : Int) 0 = (l.getD k d).1 ∧ A2.get (ofPts l) (k : Int) 1 = (l.getD k d).2 := by
  have h0 : (0 : Int) = ((0 : Nat) : Int) := rfl
  have h1 : (1 : Int) = ((1 : Nat) : Int) := rfl
  rw [h0, h1, A2.get_natCast _ _ _ (by simpa using hk) (by simp),
    A2.get_natCast _ _ _ (by simpa using hk) (by simp)]
  have := rows2_getD l default k hk
  have e : l.getD k d = l[k] := by simp [List.getD_eq_getElem?_getD, hk]
  rw [e]
  simpa using this

/-- `grid[:, 0]` -/
theorem col0_ofPts [Inhabited β] (l : List (β × β)) : A2.col (ofPts l) 0 = l.map Prod.fst := by
  have h0 : (0 : Int) = ((0 : Nat) : Int) := rfl
  rw [h0, A2.col_natCast _ 0 (by simp)]
  apply List.ext_getElem
  · simp
  · intro k h1 h2
    have hk : k < l.length := by simpa using h1
    have := (rows2_getD l default k hk).1
    simpa using this

/-- `grid[:, 1]` -/
theorem col1_ofPts [Inhabited β] (l : List (β × β)) : A2.col (ofPts l) 1 = l.map Prod.snd := by
  have h1 : (1 : Int) = ((1 : Nat) : Int) := rfl
  rw [h1, A2.col_natCast _ 1 (by simp)]
  apply List.ext_getElem
  · simp
  · intro k h1 h2
    have hk : k < l.length := by simpa using h1
    have := (rows2_getD l default k hk).2
    simpa using this

theorem rows2_drop_take (l : List (β × β)) (k : Nat) (hk : k < l.length) :
    ((rows2 l).drop (k * 2)).take 2 = [l[k].1, l[k].2] := by
  induction l generalizing k with
  | nil => simp at hk
  | cons a l ih =>
    cases k with
    | zero => simp [rows2_cons]
    | succ k =>
      have e : (k + 1) * 2 = k * 2 + 2 := by omega
      have := ih k (by simpa using hk)
      rw [e, rows2_cons]
      simpa using this

/-- `grid[k, :]` -/
theorem row_ofPts (l : List (β × β)) {k : Nat} (hk : k < l.length) :
    A2.row (ofPts l) (k : Int) = [l[k].1, l[k].2] := by
  rw [A2.row_natCast _ _ (by simpa using hk)]
  exact rows2_drop_take l k hk

theorem rows2_set (l : List (β × β)) (k : Nat) (hk : k < l.length) (a b : β) :
    (rows2 l).take (k * 2) ++ [a, b] ++ (rows2 l).drop (k * 2 + 2) = rows2 (l.set k (a, b)) := by
  induction l generalizing k with
  | nil => simp at hk
  | cons c l ih =>
    cases k with
    | zero => simp [rows2_cons]
    | succ k =>
      have e : (k + 1) * 2 = k * 2 + 2 := by omega
      have := ih k (by simpa using hk)
      rw [e, List.set_cons_succ, rows2_cons, rows2_cons]
      simpa using this

/-- `out[k, :] = (a, b)` given as a 1-D value of length 2 -/
theorem setRow_ofPts (l : List (β × β)) {k : Nat} (hk : k < l.length) (a b : β) :
    A2.setRow (ofPts l) (k : Int) [a, b] = ofPts (l.set k (a, b)) := by
  rw [A2.setRow_natCast _ _ _ (by simpa using hk) (by simp)]
  simp only [ofPts, List.length_set, A2.mk.injEq, true_and]
  exact rows2_set l k hk a b

/-- `out = np.zeros(grid.shape); out[:, :] = grid[:, :]` -/
theorem assign_zeros_ofPts [OfNat β 0] (l : List (β × β)) :
    A2.assign (A2.zeros (A2.shape0 (ofPts l)) (A2.shape1 (ofPts l))) (ofPts l) = ofPts l := by
  apply A2.assign_of_shape <;> simp [A2.zeros, A2.full]

/-! ### numpy reductions = the model's scans -/

theorem max_eq [OfNat β 0] [LT β] [DecidableLT β] [Inhabited β] {l : List β} (h : l ≠ []) :
    A1.max l = Impl.maxList l := by
  cases l with
  | nil => exact absurd rfl h
  | cons v r => rfl

theorem min_eq [OfNat β 0] [LT β] [DecidableLT β] [Inhabited β] {l : List β} (h : l ≠ []) :
    A1.min l = Impl.minList l := by
  cases l with
  | nil => exact absurd rfl h
  | cons v r => rfl

theorem argminAux_eq [LT β] [DecidableLT β] (r : List β) (k : Nat) (m : β) (best : Nat) :
    A1.argminAux r k m best = Impl.argminGo r (k + 1) best m := by
  induction r generalizing k m best with
  | nil => rfl
  | cons x r ih =>
    unfold A1.argminAux Impl.argminGo
    split
    · exact ih _ _ _
    · exact ih _ _ _

/-- `np.argmin` = the model's first-minimum scan -/
theorem argmin_eq [LT β] [DecidableLT β] (l : List β) : A1.argmin l = ((Impl.argmin l : Nat) : Int) := by
  cases l with
  | nil => rfl
  | cons v r =>
    show ((A1.argminAux r 0 v 0 : Nat) : Int) = ((Impl.argminGo r 1 0 v : Nat) : Int)
    rw [argminAux_eq]

/-- the first minimum of a non-empty array is one of its positions (needs no order axioms) -/
theorem argmin_lt [LT β] [DecidableLT β] {l : List β} (h : l ≠ []) : Impl.argmin l < l.length := by
  cases l with
  | nil => exact absurd rfl h
  | cons v r =>
    have h1 := A1.argminAux_lt r 0 v 0 (Nat.le_refl _)
    have h2 : Impl.argmin (v :: r) = A1.argminAux r 0 v 0 := by
      unfold Impl.argmin
      rw [argminAux_eq]
    rw [h2]
    simp only [List.length_cons]
    omega

/-- `np.mean` = the model's `sum / count` (the count enters as an integer cast on one side and a natural
    cast on the other) -/
theorem mean_eq {α : Type} [DivisionRing α] (l : List α) : A1.mean l = Impl.mean l := by
  unfold A1.mean Impl.mean A1.sum Impl.sumList
  rw [Int.cast_natCast]

/-! ### vectorised squared distances -/

/-- `np.sqrt(np.add(np.square(np.subtract(g[:, 0], o0)), np.square(np.subtract(g[:, 1], o1))))` -/
theorem radii_eq {α : Type} [Add α] [Sub α] [Mul α] (sqrt : α → α) (l : List (α × α)) (o0 o1 : α) :
    A1.map sqrt (A1.zipWith (fun u v => u + v)
        (A1.map (fun u => PyRt.sq u) (A1.map (fun u => u - o0) (l.map Prod.fst)))
        (A1.map (fun u => PyRt.sq u) (A1.map (fun u => u - o1) (l.map Prod.snd))))
      = l.map fun b => sqrt (Impl.sqDist b (o0, o1)) := by
  simp only [A1.map, A1.zipWith, List.map_map, List.zipWith_map, List.zipWith_self]
  apply List.map_congr_left
  intro b _
  rfl

/-- `np.square(p0 - b[:, 0]) + np.square(p1 - b[:, 1])` -/
theorem dists_eq {α : Type} [Add α] [Sub α] [Mul α] (l : List (α × α)) (p : α × α) :
    A1.zipWith (fun u v => u + v)
        (A1.map (fun u => PyRt.sq u) (A1.map (fun u => p.1 - u) (l.map Prod.fst)))
        (A1.map (fun u => PyRt.sq u) (A1.map (fun u => p.2 - u) (l.map Prod.snd)))
      = l.map fun b => Impl.sqDist p b := by
  simp only [A1.map, A1.zipWith, List.map_map, List.zipWith_map, List.zipWith_self]
  apply List.map_congr_left
  intro b _
  rfl

/-- `border_origin = np.zeros(2); border_origin[0] = a; border_origin[1] = b` -/
theorem origin_eq [OfNat β 0] (a b : β) :
    A1.set (A1.set (A1.zeros (α := β) 2) 0 a) 1 b = [a, b] := by
  have h0 : (0 : Int) = ((0 : Nat) : Int) := rfl
  have h1 : (1 : Int) = ((1 : Nat) : Int) := rfl
  have h2 : (2 : Int) = ((2 : Nat) : Int) := rfl
  rw [h0, h1, h2, A1.zeros_natCast, A1.set_natCast, A1.set_natCast]
  rfl

theorem get_pair0 [Inhabited β] (a b : β) : A1.get [a, b] 0 = a := by
  have h0 : (0 : Int) = ((0 : Nat) : Int) := rfl
  rw [h0, A1.get_natCast]; rfl

theorem get_pair1 [Inhabited β] (a b : β) : A1.get [a, b] 1 = b := by
  have h1 : (1 : Int) = ((1 : Nat) : Int) := rfl
  rw [h1, A1.get_natCast]; rfl

/-- `move_factor * (grid[i, :] - border_origin[:]) + border_origin[:]` -/
theorem move_row {α : Type} [Add α] [Sub α] [Mul α] (mf p0 p1 o0 o1 : α) :
    A1.zipWith (fun u v => u + v)
        (A1.map (fun u => mf * u) (A1.zipWith (fun u v => u - v) [p0, p1] [o0, o1])) [o0, o1]
      = [mf * (p0 - o0) + o0, mf * (p1 - o1) + o1] := rfl

theorem getD_map_of_lt {γ : Type} (f : β → γ) (l : List β) (d : β) (e : γ) {k : Nat} (hk : k < l.length) :
    (l.map f).getD k e = f (l.getD k d) := by
  simp [List.getD_eq_getElem?_getD, hk]

/-! ### the relocation loop -/

/-- "copy the grid, then for every row either overwrite it with the relocated point or leave it alone
    (the loop body returns the point itself then)" is the `map` of the loop body.  `step` is the generated
    loop body; its hypothesis is asked only for in-range rows, for a buffer of the right length whose
    row `i` still holds `grid[i]`. -/
theorem relocate_loop (grid : List (β × β)) (f : β × β → β × β) (d : β × β)
    (step : A2 β → Nat → A2 β)
    (hstep : ∀ (i : Nat), i < grid.length → ∀ out : List (β × β), out.length = grid.length →
       out[i]? = grid[i]? → step (ofPts out) i = ofPts (out.set i (f (grid.getD i d)))) :
    (List.range grid.length).foldl (fun s k => step s k) (ofPts grid) = ofPts (grid.map f) := by
  have key : ∀ n, n ≤ grid.length →
      (List.range n).foldl (fun s k => step s k) (ofPts grid)
        = ofPts ((grid.take n).map f ++ grid.drop n) := by
    intro n
    induction n with
    | zero => intro _; simp
    | succ n ih =>
      intro hn
      have hn' : n < grid.length := hn
      rw [List.range_succ, List.foldl_append, ih (Nat.le_of_lt hn')]
      simp only [List.foldl_cons, List.foldl_nil]
      have hlen : ((grid.take n).map f ++ grid.drop n).length = grid.length := by
        simp; omega
      have hget : ((grid.take n).map f ++ grid.drop n)[n]? = grid[n]? := by
        rw [List.getElem?_append_right (by simp)]
        simp [Nat.min_eq_left (Nat.le_of_lt hn')]
      rw [hstep n hn' _ hlen hget]
      congr 1
      have h1 := Model.foldl_set_eq_map_aux f d grid (n + 1) hn
      rw [List.range_succ, List.foldl_append, Model.foldl_set_eq_map_aux f d grid n (Nat.le_of_lt hn')] at h1
      simpa using h1
  have := key grid.length (Nat.le_refl _)
  simpa using this

end TieRelocateAux
