/-
Proofs/TieRelocateAux2.lean — helper for Proofs/TieRelocate.lean (part 2): the block offsets of property C09's
model (`Spec.offset`, a sum over `List.range`) and of property C18's model (`subOffset`, a sum over
`List.take`) are the same numbers.
-/
import Model.OverSample
import Proofs.BorderSub

open Model

namespace TieRelocateAux

theorem offset_eq_subOffset (sub : List Nat) {k : Nat} (hk : k ≤ sub.length) :
    Spec.offset sub k = subOffset sub k := by
  unfold Spec.offset subOffset
  congr 1
  apply List.ext_getElem
  · simp [Nat.min_eq_left hk]
  · intro i h1 h2
    have hi : i < k := by simpa using h1
    have hi' : i < sub.length := by omega
    simp [List.getD_eq_getElem?_getD, hi']

end TieRelocateAux
