/-
Proofs/TieResize.lean — LOOP TIES for property C14 (resize / pad / trim / zoom): the definitions that
harness/translate2.py regenerates from the current Python source (Generated/LoopsResize.lean) are equal,
for every input and every size, to the hand-written `Model.Impl.*` functions of Model/Resize.lean that
the theorems of Props/C14.lean are about.  Only `*_tie` theorems live in this file (helpers:
Proofs/TieCore.lean, Proofs/TieResizeAux.lean, Proofs/TieResizeTrunc.lean).  See design_notes/LOOP_TIES.md, design_notes/TIES_C14.md.
-/
import Generated.LoopsResize
import Model.Resize
import Proofs.TieCore
import Proofs.TieResizeAux
import Proofs.TieResizeTrunc

open Model PyRt TieCore TieResizeAux

namespace TieResize

/-- `array_2d_util.extracted_array_2d_from` = `Impl.extractedArray2d` (source data has the source's
    shape; signed window corners, any order — an empty window when `y1 < y0` or `x1 < x0`) -/
theorem extracted_array_2d_from_tie {α : Type} [OfNat α 0] [Inhabited α]
    (src : List α) (h w : Nat) (hsrc : src.length = h * w) (y0 y1 x0 x1 : Int) :
    Generated.LoopsResize.extracted_array_2d_from (ofNative h w src) y0 y1 x0 x1
      = ofNative (y1 - y0).toNat (x1 - x0).toNat (Impl.extractedArray2d src h w y0 y1 x0 x1 0) := by
  unfold Generated.LoopsResize.extracted_array_2d_from Impl.extractedArray2d
  rw [forYX_eq_foldl]
  generalize hH : A2.shape0 (ofNative h w src) = H
  generalize hW : A2.shape1 (ofNative h w src) = W
  obtain rfl : H = (h : Int) := hH.symm
  obtain rfl : W = (w : Int) := hW.symm
  simp only [forRange_yx_int, A2.zeros, A2.full]
  apply foldl_rel (fun (a : A2 α) (arr : List α) =>
    a = ofNative (y1 - y0).toNat (x1 - x0).toNat arr)
  · rfl
  · intro p hp a arr hR
    rw [mem_pixels] at hp
    subst hR
    by_cases hc : 0 ≤ y0 + (p.1 : Int) ∧ 0 ≤ x0 + (p.2 : Int) ∧ y0 + (p.1 : Int) ≤ (h : Int) - 1
        ∧ x0 + (p.2 : Int) ≤ (w : Int) - 1
    · obtain ⟨c1, c2, c3, c4⟩ := hc
      rw [get_ofNative_int h w src hsrc 0 c1 (by omega) c2 (by omega),
        set_ofNative _ _ _ _ hp.1 hp.2]
      simp [c1, c2, c3, c4]
    · rw [if_neg hc]
      split
      · rename_i hh
        simp only [Bool.and_eq_true, decide_eq_true_eq] at hh
        exact absurd ⟨hh.1.1.1, hh.1.1.2, hh.1.2, hh.2⟩ hc
      · rfl

/-- `array_2d_util.resized_array_2d_from` = `Impl.resizedArray2d` (source data has the source's shape;
    `int(n / 2)` of a non-negative Python int `n` is `n // 2` — the only property of the truncation
    oracle that is used; `origin` is the default `(-1, -1)` or a pixel `(y, x)`) -/
theorem resized_array_2d_from_tie {α : Type} [Div α] [OfNat α 0] [IntCast α] [Inhabited α]
    (trunc : α → Int)
    (htrunc : ∀ n : Nat, trunc ((((n : Nat) : Int) : α) / ((2 : Int) : α)) = ((n / 2 : Nat) : Int))
    (src : List α) (h w : Nat) (hsrc : src.length = h * w) (h' w' : Nat)
    (origin : Option (Nat × Nat)) (pad : α) :
    Generated.LoopsResize.resized_array_2d_from trunc (ofNative h w src) ((h' : Int), (w' : Int))
        (ofOrigin origin) pad
      = ofNative h' w' (Impl.resizedArray2d src h w h' w' origin pad 0) := by
  unfold Generated.LoopsResize.resized_array_2d_from Impl.resizedArray2d
  rw [forYX_eq_foldl]
  generalize hH : A2.shape0 (ofNative h w src) = H
  generalize hW : A2.shape1 (ofNative h w src) = W
  obtain rfl : H = (h : Int) := hH.symm
  obtain rfl : W = (w : Int) := hW.symm
  cases origin with
  | none =>
    simp only [ofOrigin, beq_self_eq_true, Bool.and_self, if_true, ite_chain, htrunc,
      forRange_yx_int, A2.zeros, A2.full, Int.toNat_natCast]
    exact resized_loop src h w hsrc h' w' pad 0 _ _ _ _
  | some o =>
    simp only [ofOrigin, natCast_beq_neg_one, Bool.false_and, Bool.false_eq_true, if_false, ite_chain,
      htrunc, forRange_yx_int, A2.zeros, A2.full, Int.toNat_natCast]
    exact resized_loop src h w hsrc h' w' pad 0 _ _ _ _

/-- non-vacuity: the tie at the type the driver executes (`Rat`, `int()` = `Model.truncRat`); its
    truncation hypothesis follows from the project's `int()` contract (`TieResizeAux.half_of_truncSpec`) -/
example (src : List Rat) (h w : Nat) (hsrc : src.length = h * w) (h' w' : Nat)
    (origin : Option (Nat × Nat)) (pad : Rat) :
    Generated.LoopsResize.resized_array_2d_from truncRat (ofNative h w src) ((h' : Int), (w' : Int))
        (ofOrigin origin) pad
      = ofNative h' w' (Impl.resizedArray2d src h w h' w' origin pad 0) :=
  resized_array_2d_from_tie truncRat half_truncRat src h w hsrc h' w' origin pad

end TieResize
