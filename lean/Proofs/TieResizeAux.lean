/-
Proofs/TieResizeAux.lean — helper lemmas for the LOOP TIES of property C14 (Proofs/TieResize.lean).
Generic facts about the numpy runtime of Model/PyRt.lean that Proofs/TieCore.lean does not have:
loop nests whose bounds are integer EXPRESSIONS (`range(y_min, y_max)` via `enumerate`), reads and
guarded writes at integer (not literally `Nat`-cast) indices, and the dead `if b … elif not b …` chains
of `resized_array_2d_from`.  Core Lean only.
-/
import Model.PyRt
import Model.Core
import Proofs.Core
import Proofs.TieCore

open Model PyRt TieCore

namespace TieResizeAux

/-- the `origin` argument as Python receives it: the default sentinel `(-1, -1)` or a pixel `(y, x)` -/
def ofOrigin (origin : Option (Nat × Nat)) : Int × Int :=
  match origin with
  | none => (-1, -1)
  | some o => ((o.1 : Int), (o.2 : Int))

/-- `for yr in range(a): for xr in range(b):` with integer bound expressions is one fold over the
    pixels of the `a.toNat × b.toNat` frame (an empty loop when a bound is negative, as in Python) -/
theorem forRange_yx_int (a b : Int) (init : σ) (body : Int → Int → σ → σ) :
    forRange 0 a init (fun y s => forRange 0 b s (fun x s => body y x s))
      = (pixels a.toNat b.toNat).foldl (fun s p => body (p.1 : Int) (p.2 : Int) s) init := by
  simp [forRange, pixels, List.foldl_flatMap, List.foldl_map]

/-- `if b: X  elif not b: X` (else: keep the old value) always yields `X` -/
theorem ite_chain (b : Bool) (x y : β) :
    (if b = true then x else (if (!b) = true then x else y)) = x := by
  cases b <;> rfl

/-- a Python tuple `(y, x)` of non-negative ints is never the sentinel `(-1, -1)` -/
theorem natCast_beq_neg_one (n : Nat) : (((n : Nat) : Int) == (-1 : Int)) = false := by
  have : ((n : Nat) : Int) ≠ -1 := by omega
  simp [this]

/-- `a[y, x]` on an embedded native array at integer indices that are in range -/
theorem get_ofNative_int [Inhabited β] (h w : Nat) (a : List β) (ha : a.length = h * w) (d : β)
    {y x : Int} (hy0 : 0 ≤ y) (hy : y < (h : Int)) (hx0 : 0 ≤ x) (hx : x < (w : Int)) :
    A2.get (ofNative h w a) y x = a.getD (y.toNat * w + x.toNat) d := by
  obtain ⟨n, rfl⟩ := Int.eq_ofNat_of_zero_le hy0
  obtain ⟨m, rfl⟩ := Int.eq_ofNat_of_zero_le hx0
  rw [get_ofNative h w a ha d (by omega) (by omega)]
  simp

/-- `out[yr, xr] = v` on an embedded native array, in range -/
theorem set_ofNative (h w : Nat) (a : List β) (v : β) {yr xr : Nat} (hy : yr < h) (hx : xr < w) :
    A2.set (ofNative h w a) (yr : Int) (xr : Int) v = ofNative h w (a.set (yr * w + xr) v) := by
  rw [A2.set_natCast _ _ _ _ (by simpa using hy) (by simpa using hx)]
  rfl

/-- the guarded write of `resized_array_2d_from`:
    `if y_resized >= 0 and y_resized < H' and x_resized >= 0 and x_resized < W': out[yr, xr] = v` -/
theorem guarded_set (h w : Nat) (a : List β) (v : β) (yr xr : Nat) :
    (if (decide (((yr : Nat) : Int) ≥ 0) && decide (((yr : Nat) : Int) < (h : Int))
          && decide (((xr : Nat) : Int) ≥ 0) && decide (((xr : Nat) : Int) < (w : Int))) = true
      then A2.set (ofNative h w a) (yr : Int) (xr : Int) v else ofNative h w a)
      = ofNative h w (if yr < h ∧ xr < w then a.set (yr * w + xr) v else a) := by
  by_cases hc : yr < h ∧ xr < w
  · have h1 : ((yr : Nat) : Int) < (h : Int) := by omega
    have h2 : ((xr : Nat) : Int) < (w : Int) := by omega
    have h3 : ((yr : Nat) : Int) ≥ 0 := by omega
    have h4 : ((xr : Nat) : Int) ≥ 0 := by omega
    simp only [h1, h2, h3, h4, hc, decide_true, Bool.and_self, and_self, if_true]
    exact set_ofNative h w a v hc.1 hc.2
  · have hn : ¬ (((yr : Nat) : Int) < (h : Int) ∧ ((xr : Nat) : Int) < (w : Int)) := by omega
    have : (decide (((yr : Nat) : Int) ≥ 0) && decide (((yr : Nat) : Int) < (h : Int))
          && decide (((xr : Nat) : Int) ≥ 0) && decide (((xr : Nat) : Int) < (w : Int))) = false := by
      by_cases h1 : ((yr : Nat) : Int) < (h : Int)
      · have h2 : ¬ ((xr : Nat) : Int) < (w : Int) := fun h2 => hn ⟨h1, h2⟩
        simp [h2]
      · simp [h1]
    rw [this, if_neg hc]
    simp

/-- the loop nest of `resized_array_2d_from` (either branch of the window test does a guarded write)
    simulates the model's loop on the flattened output, over any list of `(y_resized, x_resized)` -/
theorem resized_loop [Inhabited α] (src : List α) (h w : Nat) (hsrc : src.length = h * w)
    (h' w' : Nat) (pad zero : α) (yMin xMin : Int) (l : List (Nat × Nat)) (init : List α) :
    l.foldl (fun (s : A2 α) (p : Nat × Nat) =>
        if (decide (yMin + (p.1 : Int) ≥ 0) && decide (yMin + (p.1 : Int) < (h : Int))
              && decide (xMin + (p.2 : Int) ≥ 0) && decide (xMin + (p.2 : Int) < (w : Int))) = true then
          (if (decide (((p.1 : Nat) : Int) ≥ 0) && decide (((p.1 : Nat) : Int) < (h' : Int))
                && decide (((p.2 : Nat) : Int) ≥ 0) && decide (((p.2 : Nat) : Int) < (w' : Int))) = true
            then A2.set s (p.1 : Int) (p.2 : Int)
                   (A2.get (ofNative h w src) (yMin + (p.1 : Int)) (xMin + (p.2 : Int)))
            else s)
        else
          (if (decide (((p.1 : Nat) : Int) ≥ 0) && decide (((p.1 : Nat) : Int) < (h' : Int))
                && decide (((p.2 : Nat) : Int) ≥ 0) && decide (((p.2 : Nat) : Int) < (w' : Int))) = true
            then A2.set s (p.1 : Int) (p.2 : Int) pad
            else s))
      (ofNative h' w' init)
    = ofNative h' w' (l.foldl (fun (acc : List α) (p : Nat × Nat) =>
        if 0 ≤ yMin + (p.1 : Int) ∧ yMin + (p.1 : Int) < (h : Int)
            ∧ 0 ≤ xMin + (p.2 : Int) ∧ xMin + (p.2 : Int) < (w : Int) then
          (if p.1 < h' ∧ p.2 < w' then
            acc.set (p.1 * w' + p.2)
              (src.getD ((yMin + (p.1 : Int)).toNat * w + (xMin + (p.2 : Int)).toNat) zero)
           else acc)
        else
          (if p.1 < h' ∧ p.2 < w' then acc.set (p.1 * w' + p.2) pad else acc)) init) := by
  apply foldl_rel (fun (a : A2 α) (arr : List α) => a = ofNative h' w' arr)
  · rfl
  · intro p _ a arr hR
    subst hR
    by_cases hc : 0 ≤ yMin + (p.1 : Int) ∧ yMin + (p.1 : Int) < (h : Int)
        ∧ 0 ≤ xMin + (p.2 : Int) ∧ xMin + (p.2 : Int) < (w : Int)
    · have ⟨c1, c2, c3, c4⟩ := hc
      have hb : (decide (yMin + (p.1 : Int) ≥ 0) && decide (yMin + (p.1 : Int) < (h : Int))
              && decide (xMin + (p.2 : Int) ≥ 0) && decide (xMin + (p.2 : Int) < (w : Int))) = true := by
        simp [c1, c2, c3, c4]
      rw [if_pos hb, if_pos hc, get_ofNative_int h w src hsrc zero c1 c2 c3 c4]
      exact guarded_set h' w' arr _ p.1 p.2
    · have hb : ¬ (decide (yMin + (p.1 : Int) ≥ 0) && decide (yMin + (p.1 : Int) < (h : Int))
              && decide (xMin + (p.2 : Int) ≥ 0) && decide (xMin + (p.2 : Int) < (w : Int))) = true := by
        intro hh
        simp only [Bool.and_eq_true, decide_eq_true_eq] at hh
        exact hc ⟨hh.1.1.1, hh.1.1.2, hh.1.2, hh.2⟩
      rw [if_neg hb, if_neg hc]
      exact guarded_set h' w' arr _ p.1 p.2

end TieResizeAux
