/-
Proofs/TieResizeTrunc.lean — the truncation hypothesis of `TieResize.resized_array_2d_from_tie`
(`int(n / 2) = n // 2` for a non-negative Python int `n`, float division then truncation) is not vacuous:
it follows from the project's contract of `int()` (`Model.TruncSpec`, Proofs/Geometry.lean) over every
ordered field, hence holds for the driver's `Model.truncRat` on exact rationals.
-/
import Proofs.Geometry

open Model

namespace TieResizeAux

/-- under the `int()` contract, `int(n / 2) = n // 2` for every natural `n` -/
theorem half_of_truncSpec {α : Type} [Field α] [LinearOrder α] [IsStrictOrderedRing α]
    {trunc : α → Int} (ht : TruncSpec trunc) (n : Nat) :
    trunc ((((n : Nat) : Int) : α) / ((2 : Int) : α)) = ((n / 2 : Nat) : Int) := by
  have hdm : (n : α) = 2 * ((n / 2 : Nat) : α) + ((n % 2 : Nat) : α) := by
    exact_mod_cast (Nat.div_add_mod n 2).symm
  have h0 : (0 : α) ≤ ((n % 2 : Nat) : α) := Nat.cast_nonneg _
  have h1 : ((n % 2 : Nat) : α) ≤ 1 := by
    have : n % 2 ≤ 1 := by omega
    exact_mod_cast this
  have h2 : (0 : α) < 2 := by norm_num
  apply trunc_eq_of_mem ht
  · rw [Int.cast_natCast, Int.cast_ofNat, le_div_iff₀ h2]
    linarith
  · rw [Int.cast_natCast, Int.cast_ofNat, div_lt_iff₀ h2]
    linarith

/-- the driver's `int()` on exact rationals satisfies the hypothesis of the tie -/
theorem half_truncRat (n : Nat) :
    truncRat ((((n : Nat) : Int) : ℚ) / ((2 : Int) : ℚ)) = ((n / 2 : Nat) : Int) :=
  half_of_truncSpec truncSpec_truncRat n

end TieResizeAux
