/-
Proofs/TieShapes.lean — LOOP TIES for property C02 (pixel ↔ scaled coordinates, shape masks): the
definitions that harness/translate2.py regenerates from the current Python source
(Generated/LoopsShapes.lean) are equal, for every input and every size, to the hand-written
`Model.Impl.*` functions of Model/Geometry.lean and Model/MaskShapes.lean that the theorems of
Props/C02.lean are about.  Only `*_tie` theorems live in this file (helpers: Proofs/TieCore.lean,
Proofs/TieShapesAux.lean).  See design_notes/LOOP_TIES.md for the proof pattern and
design_notes/TIES_C02.md for what is tied.

Number type: any `DivisionRing α` (the generated code spells integers through `IntCast`, the model
through `NatCast`; a ring identifies the two).  Shapes are `Nat`s on the model side and enter the
generated definitions as the `Int`s `(↑H, ↑W)` (Python raises on negative shapes).
-/
import Generated.LoopsShapes
import Model.Geometry
import Model.MaskShapes
import Model.Slim
import Proofs.Slim
import Proofs.GeometryLoops
import Proofs.TieCore
import Proofs.TieShapesAux

open Model PyRt TieCore TieShapesAux

namespace TieShapes

/-! ### straight-line callees -/

/-- `mask_2d_util.mask_2d_centres_from` = `Impl.maskCentres` -/
theorem mask_2d_centres_from_tie {α : Type} [DivisionRing α] (shape : Nat × Nat) (s centre : α × α) :
    Generated.LoopsShapes.mask_2d_centres_from ((shape.1 : Int), (shape.2 : Int)) s centre
      = Impl.maskCentres shape s centre := by
  unfold Generated.LoopsShapes.mask_2d_centres_from Impl.maskCentres
  simp only [centralPixel1_cast]

/-- `mask_2d_util.elliptical_radius_from` = `Impl.ellRadiusCode` (definitionally) -/
theorem elliptical_radius_from_tie {α : Type} [Add α] [Mul α] [Div α] (sqrt : α → α)
    (arctan2 : α → α → α) (sin cos radians : α → α) (ys xs angle q : α) :
    Generated.LoopsShapes.elliptical_radius_from sqrt cos sin arctan2 radians ys xs angle q
      = Impl.ellRadiusCode sqrt arctan2 sin cos radians ys xs angle q := rfl

/-- `geometry_util.central_pixel_coordinates_2d_from` = `Impl.centralPixel2` -/
theorem central_pixel_coordinates_2d_from_tie {α : Type} [DivisionRing α] (shape : Nat × Nat) :
    Generated.LoopsShapes.central_pixel_coordinates_2d_from (α := α) ((shape.1 : Int), (shape.2 : Int))
      = Impl.centralPixel2 shape := by
  unfold Generated.LoopsShapes.central_pixel_coordinates_2d_from Impl.centralPixel2
  simp only [centralPixel1_cast]

/-- `geometry_util.central_scaled_coordinate_2d_from` = `Impl.centralScaled2` -/
theorem central_scaled_coordinate_2d_from_tie {α : Type} [DivisionRing α] (shape : Nat × Nat)
    (s o : α × α) :
    Generated.LoopsShapes.central_scaled_coordinate_2d_from ((shape.1 : Int), (shape.2 : Int)) s o
      = Impl.centralScaled2 shape s o := by
  unfold Generated.LoopsShapes.central_scaled_coordinate_2d_from
  rw [central_pixel_coordinates_2d_from_tie]
  rfl

/-- `geometry_util.central_pixel_coordinates_1d_from` = `Impl.centralPixel1` -/
theorem central_pixel_coordinates_1d_from_tie {α : Type} [DivisionRing α] (n : Nat) :
    Generated.LoopsShapes.central_pixel_coordinates_1d_from (α := α) (n : Int) = Impl.centralPixel1 n := by
  unfold Generated.LoopsShapes.central_pixel_coordinates_1d_from
  exact centralPixel1_cast n

/-- `geometry_util.central_scaled_coordinate_1d_from` = `Impl.centralScaled1` -/
theorem central_scaled_coordinate_1d_from_tie {α : Type} [DivisionRing α] (n : Nat) (s o : α) :
    Generated.LoopsShapes.central_scaled_coordinate_1d_from (n : Int) s o = Impl.centralScaled1 n s o := by
  unfold Generated.LoopsShapes.central_scaled_coordinate_1d_from
  rw [central_pixel_coordinates_1d_from_tie]
  rfl

/-! ### the five shape-mask constructors: `np.full(shape, True)` + conditional `mask[y, x] = False`
    = `Impl.shapeMask` with the code's own radial test (`sqrt`, `arctan2`, `sin`, `cos`, `radians`
    are parameters on both sides) -/

/-- `mask_2d_util.mask_2d_circular_from` = `Impl.shapeMask … (Impl.circularCode sqrt radius)` -/
theorem mask_2d_circular_from_tie {α : Type} [DivisionRing α] [LE α] [DecidableLE α] (sqrt : α → α)
    (shape : Nat × Nat) (s centre : α × α) (radius : α) :
    Generated.LoopsShapes.mask_2d_circular_from sqrt ((shape.1 : Int), (shape.2 : Int)) s radius centre
      = ofMask (Impl.shapeMask shape s centre (Impl.circularCode sqrt radius)) := by
  unfold Generated.LoopsShapes.mask_2d_circular_from
  simp only [A2.full_natCast, A2.shape0_eq, A2.shape1_eq, mask_2d_centres_from_tie]
  refine shape_mask_loop shape s centre _ _ ?_ ?_
  · intro p hp a
    simp only [Int.cast_natCast]
    rfl
  · intro y x a
    split <;> simp

/-- `mask_2d_util.mask_2d_circular_annular_from` = `Impl.shapeMask … (Impl.annularCode sqrt inner outer)` -/
theorem mask_2d_circular_annular_from_tie {α : Type} [DivisionRing α] [LE α] [DecidableLE α]
    (sqrt : α → α) (shape : Nat × Nat) (s centre : α × α) (inner outer : α) :
    Generated.LoopsShapes.mask_2d_circular_annular_from sqrt ((shape.1 : Int), (shape.2 : Int)) s
        inner outer centre
      = ofMask (Impl.shapeMask shape s centre (Impl.annularCode sqrt inner outer)) := by
  unfold Generated.LoopsShapes.mask_2d_circular_annular_from
  simp only [A2.full_natCast, A2.shape0_eq, A2.shape1_eq, mask_2d_centres_from_tie]
  refine shape_mask_loop shape s centre _ _ ?_ ?_
  · intro p hp a
    simp only [Int.cast_natCast]
    rfl
  · intro y x a
    split <;> simp

/-- `mask_2d_util.mask_2d_circular_anti_annular_from`
    = `Impl.shapeMask … (Impl.antiAnnularCode sqrt inner outer outer2)` -/
theorem mask_2d_circular_anti_annular_from_tie {α : Type} [DivisionRing α] [LE α] [DecidableLE α]
    (sqrt : α → α) (shape : Nat × Nat) (s centre : α × α) (inner outer outer2 : α) :
    Generated.LoopsShapes.mask_2d_circular_anti_annular_from sqrt ((shape.1 : Int), (shape.2 : Int)) s
        inner outer outer2 centre
      = ofMask (Impl.shapeMask shape s centre (Impl.antiAnnularCode sqrt inner outer outer2)) := by
  unfold Generated.LoopsShapes.mask_2d_circular_anti_annular_from
  simp only [A2.full_natCast, A2.shape0_eq, A2.shape1_eq, mask_2d_centres_from_tie]
  refine shape_mask_loop shape s centre _ _ ?_ ?_
  · intro p hp a
    simp only [Int.cast_natCast]
    rfl
  · intro y x a
    split <;> simp

/-- `mask_2d_util.mask_2d_elliptical_from`
    = `Impl.shapeMask … (Impl.ellipticalCode sqrt arctan2 sin cos radians major q angle)` -/
theorem mask_2d_elliptical_from_tie {α : Type} [DivisionRing α] [LE α] [DecidableLE α]
    (sqrt : α → α) (arctan2 : α → α → α) (sin cos radians : α → α)
    (shape : Nat × Nat) (s centre : α × α) (major q angle : α) :
    Generated.LoopsShapes.mask_2d_elliptical_from sqrt cos sin arctan2 radians
        ((shape.1 : Int), (shape.2 : Int)) s major q angle centre
      = ofMask (Impl.shapeMask shape s centre
          (Impl.ellipticalCode sqrt arctan2 sin cos radians major q angle)) := by
  unfold Generated.LoopsShapes.mask_2d_elliptical_from
  simp only [A2.full_natCast, A2.shape0_eq, A2.shape1_eq, mask_2d_centres_from_tie,
    elliptical_radius_from_tie]
  refine shape_mask_loop shape s centre _ _ ?_ ?_
  · intro p hp a
    simp only [Int.cast_natCast]
    rfl
  · intro y x a
    split <;> simp

/-- `mask_2d_util.mask_2d_elliptical_annular_from`
    = `Impl.shapeMask … (Impl.ellipticalAnnularCode sqrt arctan2 sin cos radians …)` -/
theorem mask_2d_elliptical_annular_from_tie {α : Type} [DivisionRing α] [LE α] [DecidableLE α]
    (sqrt : α → α) (arctan2 : α → α → α) (sin cos radians : α → α)
    (shape : Nat × Nat) (s centre : α × α) (innerMajor innerQ innerPhi outerMajor outerQ outerPhi : α) :
    Generated.LoopsShapes.mask_2d_elliptical_annular_from sqrt cos sin arctan2 radians
        ((shape.1 : Int), (shape.2 : Int)) s innerMajor innerQ innerPhi outerMajor outerQ outerPhi centre
      = ofMask (Impl.shapeMask shape s centre
          (Impl.ellipticalAnnularCode sqrt arctan2 sin cos radians
            innerMajor innerQ innerPhi outerMajor outerQ outerPhi)) := by
  unfold Generated.LoopsShapes.mask_2d_elliptical_annular_from
  simp only [A2.full_natCast, A2.shape0_eq, A2.shape1_eq, mask_2d_centres_from_tie,
    elliptical_radius_from_tie]
  refine shape_mask_loop shape s centre _ _ ?_ ?_
  · intro p hp a
    simp only [Int.cast_natCast]
    rfl
  · intro y x a
    split <;> simp

/-! ### the four whole-array coordinate conversions of `geometry_util.py`
    (`out = np.zeros((n, 2)); for k: out[k, 0] = …; out[k, 1] = …` = `Impl.rowLoop`) -/

/-- `geometry_util.grid_pixels_2d_slim_from` = `Impl.gridPixels2` -/
theorem grid_pixels_2d_slim_from_tie {α : Type} [DivisionRing α] [Inhabited α] (shape : Nat × Nat)
    (s o : α × α) (grid : List (α × α)) :
    Generated.LoopsShapes.grid_pixels_2d_slim_from (ofRows grid) ((shape.1 : Int), (shape.2 : Int)) s o
      = ofRows (Impl.gridPixels2 shape s o grid) := by
  unfold Generated.LoopsShapes.grid_pixels_2d_slim_from
  rw [gridPixels2_eq]
  simp only [A2.shape0_eq, ofRows_h, forRange_zero_nat, A2.zeros, A2.full, Int.toNat_natCast, toNat_two,
    central_scaled_coordinate_2d_from_tie, half_cast]
  refine row_loop (0 : α) (0, 0) (Impl.pixelsOfScaled shape s o) grid _ _ ?_
  intro k hk
  obtain ⟨e0, e1⟩ := get_ofRows grid ((0 : α), (0 : α)) hk
  rw [e0, e1]
  exact ⟨rfl, rfl⟩

/-- `geometry_util.grid_scaled_2d_slim_from` = `Impl.gridScaled2` -/
theorem grid_scaled_2d_slim_from_tie {α : Type} [DivisionRing α] [Inhabited α] (shape : Nat × Nat)
    (s o : α × α) (pix : List (α × α)) :
    Generated.LoopsShapes.grid_scaled_2d_slim_from (ofRows pix) ((shape.1 : Int), (shape.2 : Int)) s o
      = ofRows (Impl.gridScaled2 shape s o pix) := by
  unfold Generated.LoopsShapes.grid_scaled_2d_slim_from
  rw [gridScaled2_eq]
  simp only [A2.shape0_eq, ofRows_h, forRange_zero_nat, A2.zeros, A2.full, Int.toNat_natCast, toNat_two,
    central_scaled_coordinate_2d_from_tie, half_cast]
  refine row_loop (0 : α) (0, 0) (Impl.scaledOfPixels shape s o) pix _ _ ?_
  intro k hk
  obtain ⟨e0, e1⟩ := get_ofRows pix ((0 : α), (0 : α)) hk
  rw [e0, e1]
  exact ⟨rfl, rfl⟩

/-- `geometry_util.grid_pixel_centres_2d_slim_from` = `Impl.gridPixelCentres2` (the model is the
    `.astype("int")` copy; the code's float array holds the casts of the same integers) -/
theorem grid_pixel_centres_2d_slim_from_tie {α : Type} [DivisionRing α] [Inhabited α]
    (trunc : α → Int) (shape : Nat × Nat) (s o : α × α) (grid : List (α × α)) :
    Generated.LoopsShapes.grid_pixel_centres_2d_slim_from trunc (ofRows grid)
        ((shape.1 : Int), (shape.2 : Int)) s o
      = ofRows ((Impl.gridPixelCentres2 trunc shape s o grid).map
          fun c => (((c.1 : Int) : α), ((c.2 : Int) : α))) := by
  unfold Generated.LoopsShapes.grid_pixel_centres_2d_slim_from
  rw [gridPixelCentres2_eq, List.map_map]
  simp only [A2.shape0_eq, ofRows_h, forRange_zero_nat, A2.zeros, A2.full, Int.toNat_natCast, toNat_two,
    central_scaled_coordinate_2d_from_tie, half_cast]
  refine row_loop (0 : α) (0, 0) _ grid _ _ ?_
  intro k hk
  obtain ⟨e0, e1⟩ := get_ofRows grid ((0 : α), (0 : α)) hk
  rw [e0, e1]
  exact ⟨rfl, rfl⟩

/-- `geometry_util.grid_pixel_indexes_2d_slim_from` = `Impl.gridPixelIndexes2`.  The code applies
    `int()` to the float `py * W + px` of two integer-valued floats where the model computes in `Int`:
    the tie needs `int()` to be the identity on integers (`htrunc`). -/
theorem grid_pixel_indexes_2d_slim_from_tie {α : Type} [DivisionRing α] [Inhabited α]
    (trunc : α → Int) (htrunc : ∀ z : Int, trunc ((z : Int) : α) = z)
    (shape : Nat × Nat) (s o : α × α) (grid : List (α × α)) :
    Generated.LoopsShapes.grid_pixel_indexes_2d_slim_from trunc (ofRows grid)
        ((shape.1 : Int), (shape.2 : Int)) s o
      = (Impl.gridPixelIndexes2 trunc shape s o grid).map fun (z : Int) => ((z : Int) : α) := by
  unfold Generated.LoopsShapes.grid_pixel_indexes_2d_slim_from Impl.gridPixelIndexes2
  rw [grid_pixel_centres_2d_slim_from_tie, rowLoop_eq_map, List.map_map]
  generalize Impl.gridPixelCentres2 trunc shape s o grid = cs
  simp only [A2.shape0_eq, ofRows_h, List.length_map, forRange_zero_nat, A1.zeros_natCast]
  refine row_loop1 (0 : α) ((0 : Int), (0 : Int)) _ cs _ ?_
  intro k hk
  obtain ⟨e0, e1⟩ := get_ofRows_getElem
    (cs.map fun c => (((c.1 : Int) : α), ((c.2 : Int) : α))) (k := k) (by simpa using hk)
  rw [e0, e1]
  simp only [List.getElem_map, Function.comp, List.getD_eq_getElem?_getD, List.getElem?_eq_getElem hk,
    Option.getD_some]
  rw [← Int.cast_mul, ← Int.cast_add, htrunc]

/-! ### grids of a mask: write at a running `index` into `np.zeros((total_pixels, 2))` = append -/

/-- `mask_2d_util.total_pixels_2d_from` (callee of `grid_2d_slim_via_mask_from`) = `Impl.totalPixels` -/
theorem total_pixels_2d_from_tie (m : Mask) (wf : m.WF) :
    Generated.LoopsShapes.total_pixels_2d_from (ofMask m) = (Impl.totalPixels m : Int) := by
  unfold Generated.LoopsShapes.total_pixels_2d_from Impl.totalPixels
  rw [forYX_eq_foldl]
  simp only [A2.shape0_eq, A2.shape1_eq, ofMask_h, ofMask_w, forRange_yx]
  apply foldl_rel (fun (s : Int) (t : Nat) => s = (t : Int))
  · rfl
  · intro p hp s t hst
    rw [mem_pixels] at hp
    rw [get_ofMask m wf hp.1 hp.2, hst]
    split <;> simp

/-- `grid_2d_util.grid_2d_slim_via_mask_from` = `Impl.grid2dSlimViaMask` -/
theorem grid_2d_slim_via_mask_from_tie {α : Type} [DivisionRing α] (m : Mask) (wf : m.WF) (s o : α × α) :
    Generated.LoopsShapes.grid_2d_slim_via_mask_from (ofMask m) s o
      = ofRows (Impl.grid2dSlimViaMask m s o) := by
  unfold Generated.LoopsShapes.grid_2d_slim_via_mask_from
  rw [total_pixels_2d_from_tie m wf, totalPixels_eq, grid2dSlimViaMask_eq, nativeForSlim_eq]
  simp only [A2.shape0_eq, A2.shape1_eq, ofMask_h, ofMask_w, forRange_yx, A2.zeros, A2.full,
    Int.toNat_natCast, toNat_two, central_scaled_coordinate_2d_from_tie (m.h, m.w)]
  rw [foldl_congr_mem (g := fun (st : A2 α × Int) p =>
      if !m.get p.1 p.2 then
        (A2.set (A2.set st.1 st.2 0 (Impl.pixelCentreScaled (m.h, m.w) s o p).1) st.2 1
          (Impl.pixelCentreScaled (m.h, m.w) s o p).2, st.2 + 1)
      else st)]
  · have := pack_loop_rows2 (pixels m.h m.w) (fun p => !m.get p.1 p.2)
      (fun p => (Impl.pixelCentreScaled (m.h, m.w) s o p).1)
      (fun p => (Impl.pixelCentreScaled (m.h, m.w) s o p).2) (0 : α) []
    simp only [List.length_nil, Nat.zero_add, rows2_nil, List.nil_append, Nat.mul_comm 2] at this
    simp only [Spec.unmaskedPixels, Int.natCast_zero] at this ⊢
    rw [this]
    simp [ofRows]
  · intro p hp st
    rw [mem_pixels] at hp
    rw [get_ofMask m wf hp.1 hp.2]
    simp only [Int.cast_natCast]
    rfl

/-- `mask_1d_util.total_pixels_1d_from` (callee of `grid_1d_slim_via_mask_from`) = the number of
    unmasked entries -/
theorem total_pixels_1d_from_tie (mask : List Bool) :
    Generated.LoopsShapes.total_pixels_1d_from mask
      = ((((List.range mask.length).filter fun x => !mask.getD x true).length : Nat) : Int) := by
  unfold Generated.LoopsShapes.total_pixels_1d_from
  simp only [A1.len_eq, forRange_zero_nat]
  rw [foldl_congr_mem (g := fun (s : Int) x => if !mask.getD x true then s + 1 else s)]
  · simpa using count_loop (List.range mask.length) (fun x => !mask.getD x true) 0
  · intro x hx s
    rw [get_A1 mask true (by simpa using hx)]

/-- `grid_1d_util.grid_1d_slim_via_mask_from` = `Impl.grid1dSlimViaMask` -/
theorem grid_1d_slim_via_mask_from_tie {α : Type} [DivisionRing α] (mask : List Bool) (s o : α) :
    Generated.LoopsShapes.grid_1d_slim_via_mask_from mask s o = Impl.grid1dSlimViaMask mask s o := by
  unfold Generated.LoopsShapes.grid_1d_slim_via_mask_from
  rw [total_pixels_1d_from_tie, grid1dSlimViaMask_eq]
  simp only [A1.len_eq, forRange_zero_nat, A1.zeros_natCast, central_scaled_coordinate_1d_from_tie]
  rw [foldl_congr_mem (g := fun (st : A1 α × Int) (x : Nat) =>
      if !mask.getD x true then (A1.set st.1 st.2 (Impl.pixelCentreScaled1 mask.length s o x), st.2 + 1)
      else st)]
  · have := pack_loop_A1 (List.range mask.length) (fun x => !mask.getD x true)
      (fun (x : Nat) => Impl.pixelCentreScaled1 mask.length s o x) (0 : α) []
    simp only [List.length_nil, Nat.zero_add, List.nil_append, Int.natCast_zero] at this
    rw [this]
  · intro x hx st
    rw [get_A1 mask true (by simpa using hx)]
    simp only [Int.cast_natCast]
    rfl

end TieShapes
