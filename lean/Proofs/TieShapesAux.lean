/-
Proofs/TieShapesAux.lean — helper lemmas for the LOOP TIES of property C02 (Proofs/TieShapes.lean):
  * `ofRows` — a list of pairs as the `n × 2` numpy array the grid routines read and fill, with its
    read / row-write lemmas;
  * the generic loop lemmas `shape_fold` (conditional point-writes of `False` into an `A2 Bool`) and
    `row_loop` (`out = zeros((n, 2)); for k: out[k, 0] = …; out[k, 1] = …` is `Impl.rowLoop`);
  * cast lemmas: the generated code spells integers through `IntCast`, the hand model through `NatCast`.
No `*_tie` theorem lives here.
-/
import Generated.LoopsShapes
import Model.Geometry
import Model.MaskShapes
import Proofs.GeometryLoops
import Proofs.TieCore
import Mathlib.Algebra.Field.Defs
import Mathlib.Data.Int.Cast.Basic
import Mathlib.Algebra.Ring.Int.Defs

open Model PyRt TieCore

namespace TieShapesAux

/-! ### `n × 2` arrays of pairs -/

/-- a list of `(y, x)` pairs as the `n × 2` numpy array holding them row by row -/
def ofRows (l : List (β × β)) : A2 β := { h := l.length, w := 2, data := rows2 l }

@[simp] theorem ofRows_h (l : List (β × β)) : (ofRows l).h = l.length := rfl
@[simp] theorem ofRows_w (l : List (β × β)) : (ofRows l).w = 2 := rfl

theorem rows2_cons (a : β × β) (l : List (β × β)) : rows2 (a :: l) = a.1 :: a.2 :: rows2 l := by
  simp [rows2]

theorem rows2_replicate (n : Nat) (z : β) : rows2 (List.replicate n (z, z)) = List.replicate (n * 2) z := by
  induction n with
  | zero => simp
  | succ n ih =>
    rw [List.replicate_succ, rows2_cons, ih]
    have : (n + 1) * 2 = (n * 2 + 1) + 1 := by omega
    rw [this, List.replicate_succ, List.replicate_succ]

/-- `a[k, 0]`, `a[k, 1]` on an embedded list of pairs -/
theorem get_ofRows_getElem [Inhabited β] (l : List (β × β)) {k : Nat} (hk : k < l.length) :
    A2.get (ofRows l) (k : Int) 0 = l[k].1 ∧ A2.get (ofRows l) (k : Int) 1 = l[k].2 := by
  have h0 : (0 : Int) = ((0 : Nat) : Int) := rfl
  have h1 : (1 : Int) = ((1 : Nat) : Int) := rfl
  rw [h0, h1, A2.get_natCast _ _ _ (by simpa using hk) (by simp),
    A2.get_natCast _ _ _ (by simpa using hk) (by simp)]
  have := rows2_getD l default k hk
  simpa [ofRows] using this

/-- the same, in terms of the model's `getD` (whatever its default) -/
theorem get_ofRows [Inhabited β] (l : List (β × β)) (d : β × β) {k : Nat} (hk : k < l.length) :
    A2.get (ofRows l) (k : Int) 0 = (l.getD k d).1 ∧ A2.get (ofRows l) (k : Int) 1 = (l.getD k d).2 := by
  have := get_ofRows_getElem l hk
  simpa [List.getD_eq_getElem?_getD, List.getElem?_eq_getElem hk] using this

theorem rows2_set (l : List (β × β)) (k : Nat) (u v : β) :
    ((rows2 l).set (k * 2 + 0) u).set (k * 2 + 1) v = rows2 (l.set k (u, v)) := by
  induction l generalizing k with
  | nil => simp
  | cons a l ih =>
    cases k with
    | zero => simp [rows2_cons]
    | succ k =>
      have e0 : (k + 1) * 2 + 0 = (k * 2 + 0) + 1 + 1 := by omega
      have e1 : (k + 1) * 2 + 1 = (k * 2 + 1) + 1 + 1 := by omega
      rw [e0, e1]
      simp only [rows2_cons, List.set_cons_succ]
      have := ih k
      simp only [Nat.add_zero] at this ⊢
      rw [this]

/-- `a[k, 0] = u; a[k, 1] = v` on an embedded list of pairs replaces row `k` -/
theorem set_ofRows (l : List (β × β)) {k : Nat} (hk : k < l.length) (u v : β) :
    A2.set (A2.set (ofRows l) (k : Int) 0 u) (k : Int) 1 v = ofRows (l.set k (u, v)) := by
  have h0 : (0 : Int) = ((0 : Nat) : Int) := rfl
  have h1 : (1 : Int) = ((1 : Nat) : Int) := rfl
  rw [h0, h1, A2.set_natCast _ _ _ _ (by simpa using hk) (by simp),
    A2.set_natCast _ _ _ _ (by simpa using hk) (by simp)]
  simp only [ofRows, List.length_set, A2.mk.injEq, true_and]
  exact rows2_set l k u v

/-! ### loops -/

/-- the constructor loop of the shape masks: conditional point-writes of `False` into the `A2 Bool`
    are the model's `bits.set (y * W + x) false` on the row-major data -/
theorem shape_fold (H W : Nat) (c : Nat × Nat → Bool) (init : List Bool) :
    (pixels H W).foldl (fun (a : A2 Bool) p => if c p then A2.set a (p.1 : Int) (p.2 : Int) false else a)
        { h := H, w := W, data := init }
      = { h := H, w := W,
          data := (pixels H W).foldl (fun bits p => if c p then bits.set (p.1 * W + p.2) false else bits) init } := by
  apply foldl_rel (fun (a : A2 Bool) (bits : List Bool) => a = { h := H, w := W, data := bits })
  · rfl
  · intro p hp a bits hR
    rw [mem_pixels] at hp
    subst hR
    split
    · rw [A2.set_natCast _ _ _ _ hp.1 hp.2]
    · rfl

/-- an unconditional invariant of a fold -/
theorem foldl_inv {σ ι : Type} (P : σ → Prop) (l : List ι) (f : σ → ι → σ) (s : σ) (h0 : P s)
    (hstep : ∀ s i, P s → P (f s i)) : P (l.foldl f s) := by
  induction l generalizing s with
  | nil => exact h0
  | cons a l ih => exact ih _ (hstep s a h0)

/-- `forRange_yx` when the inner bound is read off the loop state (`for x in range(mask_2d.shape[1])`
    with `mask_2d` the array being written): fine as long as no step changes that bound -/
theorem forRange_yx_dep {σ : Type} (h w : Nat) (init : σ) (wd : σ → Int) (body : Int → Int → σ → σ)
    (h0 : wd init = (w : Int)) (hstep : ∀ y x s, wd (body y x s) = wd s) :
    forRange 0 (h : Int) init (fun y s => forRange 0 (wd s) s (fun x s => body y x s))
      = (pixels h w).foldl (fun s p => body (p.1 : Int) (p.2 : Int) s) init := by
  simp only [forRange_zero_nat, pixels, List.foldl_flatMap, List.foldl_map]
  have key : ∀ (ys : List Nat) (s : σ), wd s = (w : Int) →
      ys.foldl (fun s (y : Nat) => forRange 0 (wd s) s (fun x s => body (y : Int) x s)) s
        = ys.foldl (fun s (y : Nat) => (List.range w).foldl (fun s (x : Nat) => body (y : Int) (x : Int) s) s) s := by
    intro ys
    induction ys with
    | nil => intros; rfl
    | cons y ys ih =>
      intro s hs
      simp only [List.foldl_cons]
      rw [hs, forRange_zero_nat]
      apply ih
      exact foldl_inv (fun s => wd s = (w : Int)) _ _ s hs (fun s i h => by rw [hstep]; exact h)
  exact key _ init h0

/-- `out = np.zeros((n, 2)); for k in range(n): out[k, 0] = g0 k; out[k, 1] = g1 k` where row `k` of the
    result is `f (inp[k])`: the model's `rowLoop`, i.e. `map f` -/
theorem row_loop {β γ : Type} (z : γ) (dflt : β) (f : β → γ × γ) (inp : List β)
    (g0 g1 : Nat → γ)
    (hg : ∀ k, k < inp.length → g0 k = (f (inp.getD k dflt)).1 ∧ g1 k = (f (inp.getD k dflt)).2) :
    (List.range inp.length).foldl (fun (a : A2 γ) (k : Nat) =>
          A2.set (A2.set a (k : Int) 0 (g0 k)) (k : Int) 1 (g1 k))
        { h := inp.length, w := 2, data := List.replicate (inp.length * 2) z }
      = ofRows (inp.map f) := by
  rw [← rowLoop_eq_map (z, z) dflt f inp]
  unfold Impl.rowLoop
  have hinit : ({ h := inp.length, w := 2, data := List.replicate (inp.length * 2) z } : A2 γ)
      = ofRows (List.replicate inp.length (z, z)) := by
    simp [ofRows, rows2_replicate]
  rw [hinit]
  refine (foldl_rel (fun (a : A2 γ) (out : List (γ × γ)) => a = ofRows out ∧ out.length = inp.length)
    _ _ _ ?_ ?_).1
  · simp
  · intro k hk a out hR
    have hk' : k < inp.length := by simpa using hk
    obtain ⟨rfl, hlen⟩ := hR
    obtain ⟨e0, e1⟩ := hg k hk'
    rw [e0, e1, set_ofRows out (by omega)]
    simp [hlen]

/-- the 1-D twin: `out = np.zeros(n); for k in range(n): out[k] = g k` -/
theorem row_loop1 {β γ : Type} (z : γ) (dflt : β) (f : β → γ) (inp : List β) (g : Nat → γ)
    (hg : ∀ k, k < inp.length → g k = f (inp.getD k dflt)) :
    (List.range inp.length).foldl (fun (a : A1 γ) (k : Nat) => A1.set a (k : Int) (g k))
        (List.replicate inp.length z)
      = inp.map f := by
  rw [← rowLoop_eq_map z dflt f inp]
  unfold Impl.rowLoop
  apply foldl_congr_mem
  intro k hk a
  rw [A1.set_natCast, hg k (by simpa using hk)]

/-- the shared loop of the five shape-mask constructors, in the form the generated definitions take
    after `simp only [A2.full_natCast, A2.shape0_eq, A2.shape1_eq]` -/
theorem shape_mask_loop {α : Type} [Add α] [Sub α] [Mul α] [Div α] [Neg α] [NatCast α]
    (shape : Nat × Nat) (s centre : α × α) (test : α → α → Bool)
    (body : Int → Int → A2 Bool → A2 Bool)
    (hbody : ∀ p ∈ pixels shape.1 shape.2, ∀ a, body (p.1 : Int) (p.2 : Int) a
      = if test (Impl.shapeOffsets shape s centre p).1 (Impl.shapeOffsets shape s centre p).2
          then A2.set a (p.1 : Int) (p.2 : Int) false else a)
    (hw : ∀ y x a, (body y x a).w = a.w) :
    forRange 0 (shape.1 : Int)
        ({ h := shape.1, w := shape.2, data := List.replicate (shape.1 * shape.2) true } : A2 Bool)
        (fun y m => forRange 0 ((m.w : Nat) : Int) m (fun x m => body y x m))
      = ofMask (Impl.shapeMask shape s centre test) := by
  rw [forRange_yx_dep shape.1 shape.2 _ (fun m => ((m.w : Nat) : Int)) body rfl
    (fun y x a => by rw [hw])]
  rw [foldl_congr_mem _ _ _ _ (fun p hp a => hbody p hp a)]
  rw [shape_fold]
  unfold Impl.shapeMask
  rw [forYX_eq_foldl]
  rfl

/-! ### casts: `IntCast` spelling of the generated code = `NatCast` spelling of the model -/

section casts
variable {α : Type} [DivisionRing α]

theorem cast_pred (n : Nat) : ((((n : Nat) : Int) - 1 : Int) : α) = (n : α) - ((1 : Nat) : α) := by
  simp

theorem cast_two : ((2 : Int) : α) = ((2 : Nat) : α) := by simp

theorem cast_one : ((1 : Int) : α) = ((1 : Nat) : α) := by simp

theorem cast_zero : (0 : α) = ((0 : Nat) : α) := by simp

theorem centralPixel1_cast (n : Nat) :
    ((((n : Nat) : Int) - 1 : Int) : α) / ((2 : Int) : α) = Impl.centralPixel1 (α := α) n := by
  unfold Impl.centralPixel1
  rw [cast_pred, cast_two]

theorem half_cast : ((1 : Int) : α) / ((2 : Int) : α) = Impl.half (α := α) := by
  unfold Impl.half
  rw [cast_one, cast_two]

end casts

end TieShapesAux
