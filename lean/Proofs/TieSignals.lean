/-
Proofs/TieSignals.lean — LOOP TIE for property C07 (the pixel signals behind the adaptive regularization
weights): the definition that harness/translate2.py regenerates from the current Python source of
`mapper_util.adaptive_pixel_signals_from` (Generated/LoopsSignals.lean) is equal, for every input and every
size, to the hand-written `Model.Impl.adaptivePixelSignals` of Model/Regularization.lean — the function the
theorems `pixel_signals_*` / `adaptive_*` of Props/C07.lean (Spec: Model/RegularizationSignals.lean) are about.
Only `*_tie` theorems live in this file (helpers: Proofs/TieCore.lean, Proofs/TieRegAux.lean,
Proofs/TieSignalsAux.lean).  See design_notes/LOOP_TIES.md and design_notes/TIES_blocked.md.

Conventions of the statement.
* `pixel_weights` (`W`, rows of width `wW`) and `pix_indexes_for_sub_slim_index` (`T`, rows of width `wI`, the
  `-1` padding included, exactly as numpy stores it) are lists of rows embedded with `ofRows`; the model reads `T`
  through numpy's negative-index wrap `pyIdx` itself.
* `pix_size_for_sub_slim_index` (`S`) and `slim_index_for_sub_slim_index` (`slim`) are the model's natural
  numbers, stored as numpy integers.
* `pixel_signals ** signal_scale` is the oracle `rpow`; the model's `pow` parameter is `fun x => rpow x scale`.
* `TieSignalsAux.StepWF` is "Python does not raise in iteration `k`" (index / broadcasting errors).
-/
import Generated.LoopsSignals
import Model.Regularization
import Proofs.TieCore
import Proofs.TieRegAux
import Proofs.TieSignalsAux

open Model PyRt TieCore TieRegAux TieSignalsAux

namespace TieSignals

/-- `mapper_util.adaptive_pixel_signals_from` = `Impl.adaptivePixelSignals` (numpy's buffered fancy-index `+=`,
    the negative wrap of the `-1` padding, `pixel_sizes[vertices_indexes] += 1` on the whole row, `== 0 → 1`,
    the division by `np.max` and the power, for every number of pixels / sub-pixels / row width) -/
theorem adaptive_pixel_signals_from_tie {α : Type} [Add α] [Mul α] [Div α] [Zero α] [One α] [IntCast α]
    [LT α] [DecidableLT α] [DecidableEq α] [Inhabited α]
    (rpow : α → α → α) (scale : α) (pixels wI wW : Nat) (W : List (List α)) (T : List (List Int))
    (S slim : List Nat) (adapt : List α)
    (hT : ∀ r ∈ T, r.length = wI) (hW : ∀ r ∈ W, r.length = wW) (hTW : T.length ≤ W.length)
    (hwf : ∀ k < T.length, StepWF pixels wI wW T S slim adapt.length k) :
    Generated.LoopsSignals.adaptive_pixel_signals_from rpow (pixels : Int) (ofRows W.length wW W) scale
        (ofRows T.length wI T) (S.map Int.ofNat) (slim.map Int.ofNat) adapt
      = Impl.adaptivePixelSignals (fun x => rpow x scale) pixels W T S slim adapt := by
  -- 1. the generated definition is loop + tail in canonical form (this `rfl` reads the regenerated source)
  have hgen : Generated.LoopsSignals.adaptive_pixel_signals_from rpow (pixels : Int) (ofRows W.length wW W)
        scale (ofRows T.length wI T) (S.map Int.ofNat) (slim.map Int.ofNat) adapt
      = genPost rpow scale
          (forRange 0 (A2.shape0 (ofRows T.length wI T))
            (A1.zeros (α := α) (pixels : Int), A1.zeros (α := α) (pixels : Int))
            (genStep (ofRows W.length wW W) (ofRows T.length wI T) (S.map Int.ofNat) (slim.map Int.ofNat)
              adapt)) := rfl
  rw [hgen, genPost_eq]
  -- 2. the loop is the model's accumulation loop
  have hloop : forRange 0 (A2.shape0 (ofRows T.length wI T))
        (A1.zeros (α := α) (pixels : Int), A1.zeros (α := α) (pixels : Int))
        (genStep (ofRows W.length wW W) (ofRows T.length wI T) (S.map Int.ofNat) (slim.map Int.ofNat) adapt)
      = Impl.pixelSignalAccum pixels W T S slim adapt := by
    unfold Impl.pixelSignalAccum
    simp only [A2.shape0_eq, ofRows_h, forRange_zero_nat, A1.zeros_natCast]
    refine (foldl_rel (fun (s t : List α × List α) => s = t ∧ s.1.length = pixels ∧ s.2.length = pixels)
      (List.range T.length) _ _ ⟨rfl, by simp, by simp⟩ ?_).1
    intro k hk s t h
    obtain ⟨rfl, h1, h2⟩ := h
    have hk' : k < T.length := by simpa using hk
    have hlen := pixelSignalStep_length pixels W T S slim adapt s k
    rw [genStep_eq pixels wI wW W T S slim adapt hT hW hTW k hk' (hwf k hk') s h1 h2]
    exact ⟨rfl, by rw [hlen.1]; exact h1, by rw [hlen.2]; exact h2⟩
  rw [hloop]
  rfl

end TieSignals
