/-
Proofs/TieSignalsAux.lean — helper lemmas for the LOOP TIE of `mapper_util.adaptive_pixel_signals_from`
(Proofs/TieSignals.lean, property C07): the canonical form of the generated loop body / tail (`genStep`,
`genPost`), numpy's integer-array ("fancy") indexing of `Model/PyRt.lean` (Extension 4: `A1.gather`,
`A1.scatter`, `A1.setWhere`) against the model's `Impl.fancyAdd` / `pyIdx`, and the one-step simulation
`genStep_eq : genStep … = Impl.pixelSignalStep …`.  Core Lean only (no Mathlib).
-/
import Model.PyRt
import Model.Regularization
import Proofs.TieCore
import Proofs.TieRegAux

open Model PyRt TieCore TieRegAux

namespace TieSignalsAux

variable {α : Type}

/-! ### canonical forms of the generated code (the tie theorem checks them against the generated definition
    by `rfl`, so any change of the Python body shows up there) -/

/-- the body of `for sub_slim_index in range(len(pix_indexes_for_sub_slim_index))`; state =
    (`pixel_signals`, `pixel_sizes`) -/
def genStep [Add α] [Mul α] [OfNat α 1] [Inhabited α] (pw : A2 α) (pidx : A2 Int) (psz slim : A1 Int)
    (adapt : A1 α) (k : Int) (st : A1 α × A1 α) : A1 α × A1 α :=
  if decide (A1.get psz k > 1) then
    (A1.scatter st.1 (A1.slice (A2.row pidx k) 0 (A1.get psz k))
        (A1.zipWith (fun u v => u + v) (A1.gather st.1 (A1.slice (A2.row pidx k) 0 (A1.get psz k)))
          (A1.map (fun u => A1.get adapt (A1.get slim k) * u) (A2.row pw k))),
      A1.scatter st.2 (A2.row pidx k) (A1.map (fun u => u + (1 : α)) (A1.gather st.2 (A2.row pidx k))))
  else
    (A1.set st.1 (A1.get (A2.row pidx k) 0)
        (A1.get st.1 (A1.get (A2.row pidx k) 0) + A1.get adapt (A1.get slim k)),
      A1.set st.2 (A1.get (A2.row pidx k) 0) (A1.get st.2 (A1.get (A2.row pidx k) 0) + (1 : α)))

/-- the statements after the loop: `pixel_sizes[pixel_sizes == 0] = 1; pixel_signals /= pixel_sizes;
    pixel_signals /= np.max(pixel_signals); return pixel_signals ** signal_scale` -/
def genPost [Div α] [OfNat α 0] [OfNat α 1] [LT α] [DecidableLT α] [BEq α] [Inhabited α]
    (rpow : α → α → α) (scale : α) (st : A1 α × A1 α) : A1 α :=
  A1.map (fun u => rpow u scale)
    (A1.map
      (fun u => u / A1.max (A1.zipWith (fun u v => u / v) st.1
        (A1.setWhere st.2 (A1.map (fun u => u == (0 : α)) st.2) (1 : α))))
      (A1.zipWith (fun u v => u / v) st.1 (A1.setWhere st.2 (A1.map (fun u => u == (0 : α)) st.2) (1 : α))))

/-! ### 1-D reads / writes at admissible (possibly negative) indices -/

theorem set_A1_norm (b : List α) {n : Nat} (hb : b.length = n) {k : Int} (hk : InIdx n k) (v : α) :
    A1.set b k v = b.set (pyIdx n k) v := by
  unfold A1.set
  rw [hb, norm_int hk]

theorem get_A1_idx [Inhabited α] (b : List α) (d : α) {n : Nat} (hb : b.length = n) {k : Int}
    (hk : InIdx n k) : A1.get b k = b.getD (pyIdx n k) d :=
  get_A1_norm b d (by rw [hb]; exact norm_int hk)

/-- `a[k]` of an array of naturals stored as numpy integers -/
theorem get_natList (S : List Nat) (k : Nat) : A1.get (S.map Int.ofNat) (k : Int) = ((S.getD k 0 : Nat) : Int) := by
  rw [A1.get_natCast]
  simp only [List.getD_eq_getElem?_getD, List.getElem?_map]
  cases S[k]? <;> rfl

/-! ### the fancy-index store -/

/-- numpy's position-by-position assignment at admissible indices is `List.set` at the wrapped indices -/
theorem scatter_fold (n : Nat) (idx : List Int) (hin : ∀ k ∈ idx, InIdx n k) (X b : List α)
    (hb : b.length = n) :
    (List.zip idx X).foldl (fun b p => A1.set b p.1 p.2) b
      = (List.zip (idx.map (pyIdx n)) X).foldl (fun a p => a.set p.1 p.2) b := by
  induction idx generalizing X b with
  | nil => simp
  | cons k idx ih =>
    cases X with
    | nil => simp
    | cons x X =>
      simp only [List.zip_cons_cons, List.map_cons, List.foldl_cons]
      rw [set_A1_norm b hb (hin k (by simp))]
      exact ih (fun j hj => hin j (by simp [hj])) X _ (by simp [hb])

/-- the right-hand sides `a[idx] + vals`, computed from the OLD array -/
theorem news_eq [Add α] [Zero α] [Inhabited α] (arr : List α) {n : Nat} (harr : arr.length = n)
    (idx : List Int) (hin : ∀ k ∈ idx, InIdx n k) (vals : List α) :
    A1.zipWith (fun u v => u + v) (A1.gather arr idx) vals
      = List.zipWith (fun k v => arr.getD k 0 + v) (idx.map (pyIdx n)) vals := by
  unfold A1.zipWith A1.gather A1.map
  induction idx generalizing vals with
  | nil => simp
  | cons k idx ih =>
    cases vals with
    | nil => simp
    | cons v vals =>
      simp only [List.map_cons, List.zipWith_cons_cons]
      rw [get_A1_idx arr 0 harr (hin k (by simp)), ih (fun j hj => hin j (by simp [hj]))]

/-- `a[idx] += vals` (desugared) is the model's buffered `fancyAdd` -/
theorem scatter_fancy [Add α] [Zero α] [Inhabited α] (arr : List α) {n : Nat} (harr : arr.length = n)
    (idx : List Int) (hin : ∀ k ∈ idx, InIdx n k) (vals : List α) (hv : vals.length = idx.length) :
    A1.scatter arr idx (A1.zipWith (fun u v => u + v) (A1.gather arr idx) vals)
      = Impl.fancyAdd arr (idx.map (pyIdx n)) vals := by
  rw [A1.scatter_of_length _ _ _ (by simp [A1.zipWith, A1.gather, A1.map, hv]), news_eq arr harr idx hin,
    scatter_fold n idx hin _ arr harr]
  rfl

/-- `a[idx] += 1` (desugared) is `fancyAdd a idx [1, 1, …]` -/
theorem scatter_fancy_one [Add α] [Zero α] [One α] [Inhabited α] (arr : List α) {n : Nat}
    (harr : arr.length = n) (idx : List Int) (hin : ∀ k ∈ idx, InIdx n k) :
    A1.scatter arr idx (A1.map (fun u => u + (1 : α)) (A1.gather arr idx))
      = Impl.fancyAdd arr (idx.map (pyIdx n)) ((idx.map (pyIdx n)).map fun _ => 1) := by
  have h : A1.map (fun u => u + (1 : α)) (A1.gather arr idx)
      = A1.zipWith (fun u v => u + v) (A1.gather arr idx) ((idx.map (pyIdx n)).map fun _ => 1) := by
    unfold A1.zipWith A1.gather A1.map
    clear hin
    induction idx with
    | nil => simp
    | cons k idx ih =>
      simp only [List.map_cons, List.zipWith_cons_cons]
      rw [← ih]
  rw [h]
  exact scatter_fancy arr harr idx hin _ (by simp)

/-! ### one iteration of the loop -/

/-- the hypotheses of the tie on sub-pixel `k` ("Python does not raise" there): the adapt image is long enough;
    a sub-pixel with several mappings (`size > 1`) has at most `wI` of them, exactly as many weights as the
    weight table is wide, and every entry of its index row (padding included) is an admissible numpy index; a
    sub-pixel with one mapping has a non-empty row whose first entry is admissible -/
def StepWF (pixels wI wW : Nat) (T : List (List Int)) (S slim : List Nat) (nAdapt : Nat) (k : Nat) : Prop :=
  slim.getD k 0 < nAdapt
  ∧ (1 < S.getD k 0 → S.getD k 0 ≤ wI ∧ wW = S.getD k 0 ∧ ∀ j ∈ T.getD k [], InIdx pixels j)
  ∧ (¬ 1 < S.getD k 0 → 0 < wI ∧ InIdx pixels ((T.getD k []).getD 0 0))

/-- non-vacuity: a triangle row and a padded single-mapping row (`-1` padding wraps to the last pixel) meet `StepWF` -/
example : ∀ k < 2, StepWF 3 3 3 [[0, 1, 2], [2, -1, -1]] [3, 1] [0, 1] 2 k := by
  intro k hk
  have hk' : k = 0 ∨ k = 1 := by omega
  rcases hk' with rfl | rfl <;> simp [StepWF, InIdx]

/-- the generated loop body on the embedded inputs is the model's `Impl.pixelSignalStep` -/
theorem genStep_eq [Add α] [Mul α] [Zero α] [One α] [Inhabited α] (pixels wI wW : Nat)
    (W : List (List α)) (T : List (List Int)) (S slim : List Nat) (adapt : List α)
    (hT : ∀ r ∈ T, r.length = wI) (hW : ∀ r ∈ W, r.length = wW) (hTW : T.length ≤ W.length)
    (k : Nat) (hk : k < T.length) (hwf : StepWF pixels wI wW T S slim adapt.length k)
    (st : List α × List α) (h1 : st.1.length = pixels) (h2 : st.2.length = pixels) :
    genStep (ofRows W.length wW W) (ofRows T.length wI T) (S.map Int.ofNat) (slim.map Int.ofNat) adapt
        (k : Int) st
      = Impl.pixelSignalStep pixels W T S slim adapt st k := by
  obtain ⟨hslim, hbig, hsmall⟩ := hwf
  have hrowT : A2.row (ofRows T.length wI T) (k : Int) = T.getD k [] := row_ofRows ⟨rfl, hT⟩ hk
  have hrowW : A2.row (ofRows W.length wW W) (k : Int) = W.getD k [] :=
    row_ofRows ⟨rfl, hW⟩ (Nat.lt_of_lt_of_le hk hTW)
  have hTk : (T.getD k []).length = wI := RDims.row (M := T) ⟨rfl, hT⟩ hk
  have hWk : (W.getD k []).length = wW := RDims.row (M := W) ⟨rfl, hW⟩ (Nat.lt_of_lt_of_le hk hTW)
  have hadapt : A1.get adapt ((slim.getD k 0 : Nat) : Int) = adapt.getD (slim.getD k 0) 0 :=
    get_A1 adapt 0 hslim
  have h0 : (0 : Int) = ((0 : Nat) : Int) := rfl
  unfold genStep Impl.pixelSignalStep
  rw [hrowT, hrowW, get_natList, get_natList, hadapt]
  by_cases hs : 1 < S.getD k 0
  · obtain ⟨hle, hww, hin⟩ := hbig hs
    have hd : decide (((S.getD k 0 : Nat) : Int) > 1) = true := decide_eq_true (by omega)
    simp only [hd, if_true, gt_iff_lt, hs]
    rw [h0, A1.slice_natCast, List.drop_zero, Nat.sub_zero]
    have hin' : ∀ j ∈ (T.getD k []).take (S.getD k 0), InIdx pixels j :=
      fun j hj => hin j (List.mem_of_mem_take hj)
    have hlen : (A1.map (fun u => adapt.getD (slim.getD k 0) 0 * u) (W.getD k [])).length
        = ((T.getD k []).take (S.getD k 0)).length := by
      simp only [A1.map, List.length_map, List.length_take, hTk, hWk]
      omega
    rw [scatter_fancy st.1 h1 _ hin' _ hlen, scatter_fancy_one st.2 h2 _ hin, List.map_take]
    rfl
  · obtain ⟨hw0, hin0⟩ := hsmall hs
    have hd : decide (((S.getD k 0 : Nat) : Int) > 1) = false := decide_eq_false (by omega)
    have hg : A1.get (T.getD k []) (0 : Int) = (T.getD k []).getD 0 0 := by
      rw [h0]; exact get_A1 _ 0 (by omega)
    have hv : ((T.getD k []).map (pyIdx pixels)).getD 0 0 = pyIdx pixels ((T.getD k []).getD 0 0) := by
      generalize T.getD k [] = r at hTk
      cases r with
      | nil => simp at hTk; omega
      | cons a r => rfl
    simp only [hd, hs, if_false, gt_iff_lt, Bool.false_eq_true]
    rw [hg, hv, set_A1_norm _ h1 hin0, set_A1_norm _ h2 hin0, get_A1_idx _ 0 h1 hin0,
      get_A1_idx _ 0 h2 hin0]

/-- the state keeps its length -/
theorem pixelSignalStep_length [Add α] [Mul α] [Zero α] [One α] (pixels : Nat) (W : List (List α))
    (T : List (List Int)) (S slim : List Nat) (adapt : List α) (st : List α × List α) (k : Nat) :
    (Impl.pixelSignalStep pixels W T S slim adapt st k).1.length = st.1.length
      ∧ (Impl.pixelSignalStep pixels W T S slim adapt st k).2.length = st.2.length := by
  have hfold : ∀ (l : List (Nat × α)) (b : List α),
      (l.foldl (fun a p => a.set p.1 p.2) b).length = b.length := by
    intro l
    induction l with
    | nil => intro b; rfl
    | cons p l ih => intro b; simp only [List.foldl_cons]; rw [ih]; simp
  have hf : ∀ (arr : List α) (idx : List Nat) (vals : List α), (Impl.fancyAdd arr idx vals).length = arr.length := by
    intro arr idx vals
    exact hfold _ _
  unfold Impl.pixelSignalStep
  simp only []
  split
  · exact ⟨hf _ _ _, hf _ _ _⟩
  · simp

/-! ### the statements after the loop -/

/-- `a[a == 0] = 1` -/
theorem setWhere_eq_zero [Zero α] [One α] [DecidableEq α] (a : List α) :
    A1.setWhere a (A1.map (fun u => u == (0 : α)) a) (1 : α) = a.map fun s => if s = 0 then 1 else s := by
  rw [A1.setWhere_of_length _ _ _ (by simp [A1.map])]
  unfold A1.map
  induction a with
  | nil => rfl
  | cons x a ih =>
    simp only [List.map_cons, List.zipWith_cons_cons, ih]
    congr 1
    by_cases hx : x = 0 <;> simp [hx]

/-- `np.max` is the model's `npMax` wherever the quotient is taken -/
theorem map_div_max [Div α] [Zero α] [LT α] [DecidableLT α] [Inhabited α] (l : List α) :
    A1.map (fun u => u / A1.max l) l = l.map fun s => s / Impl.npMax l := by
  cases l with
  | nil => rfl
  | cons a l => rfl

/-- the tail of the generated function is the tail of `Impl.adaptivePixelSignals` -/
theorem genPost_eq [Div α] [Zero α] [One α] [LT α] [DecidableLT α] [DecidableEq α] [Inhabited α]
    (rpow : α → α → α) (scale : α) (st : List α × List α) :
    genPost rpow scale st
      = ((List.zipWith (fun s n => s / n) st.1 (st.2.map fun s => if s = 0 then 1 else s)).map
            fun s => s / Impl.npMax
              (List.zipWith (fun s n => s / n) st.1 (st.2.map fun s => if s = 0 then 1 else s))).map
          (fun x => rpow x scale) := by
  unfold genPost
  rw [setWhere_eq_zero, map_div_max]
  rfl

end TieSignalsAux
