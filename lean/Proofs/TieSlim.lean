/-
Proofs/TieSlim.lean — LOOP TIES for property C01 (slim ↔ native): the definitions that
harness/translate2.py regenerates from the current Python source (Generated/LoopsSlim.lean) are equal,
for every input and every size, to the hand-written `Model.Impl.*` functions of Model/Slim.lean that
the theorems of Props/C01.lean are about.  Only `*_tie` theorems live in this file (helpers:
Proofs/TieCore.lean).  See design_notes/LOOP_TIES.md for the proof pattern.
-/
import Generated.LoopsSlim
import Model.Slim
import Proofs.Slim
import Proofs.TieCore

open Model PyRt TieCore

namespace TieSlim

/-- `mask_2d_util.total_pixels_2d_from` = `Impl.totalPixels` -/
theorem total_pixels_2d_from_tie (m : Mask) (wf : m.WF) :
    Generated.LoopsSlim.total_pixels_2d_from (ofMask m) = (Impl.totalPixels m : Int) := by
  unfold Generated.LoopsSlim.total_pixels_2d_from Impl.totalPixels
  rw [forYX_eq_foldl]
  simp only [A2.shape0_eq, A2.shape1_eq, ofMask_h, ofMask_w, forRange_yx]
  apply foldl_rel (fun (s : Int) (t : Nat) => s = (t : Int))
  · rfl
  · intro p hp s t hst
    rw [mem_pixels] at hp
    rw [get_ofMask m wf hp.1 hp.2, hst]
    split <;> simp

/-- `mask_2d_util.native_index_for_slim_index_2d_from` = `Impl.nativeForSlim`: the code writes row
    `slim_index` of a `np.zeros((total_pixels, 2))` array and increments it; the model appends. -/
theorem native_index_for_slim_index_2d_from_tie {α : Type} [OfNat α 0] [IntCast α]
    (m : Mask) (wf : m.WF) :
    Generated.LoopsSlim.native_index_for_slim_index_2d_from (α := α) (ofMask m)
      = ofPairs (fun k => ((k : Int) : α)) (Impl.nativeForSlim m) := by
  unfold Generated.LoopsSlim.native_index_for_slim_index_2d_from
  rw [total_pixels_2d_from_tie m wf, totalPixels_eq, nativeForSlim_eq]
  simp only [A2.shape0_eq, A2.shape1_eq, ofMask_h, ofMask_w, forRange_yx, A2.zeros, A2.full,
    Int.toNat_natCast, toNat_two]
  rw [foldl_congr_mem (g := fun (st : A2 α × Int) p =>
      if !m.get p.1 p.2 then
        (A2.set (A2.set st.1 st.2 0 (((p.1 : Nat) : Int) : α)) st.2 1 (((p.2 : Nat) : Int) : α), st.2 + 1)
      else st)]
  · have := pack_loop_rows2 (pixels m.h m.w) (fun p => !m.get p.1 p.2)
      (fun p => (((p.1 : Nat) : Int) : α)) (fun p => (((p.2 : Nat) : Int) : α)) (0 : α) []
    simp only [List.length_nil, Nat.zero_add, rows2_nil, List.nil_append, Nat.mul_comm 2] at this
    simp only [Spec.unmaskedPixels, Int.natCast_zero] at this ⊢
    rw [this]
    simp [ofPairs]
  · intro p hp st
    rw [mem_pixels] at hp
    rw [get_ofMask m wf hp.1 hp.2]

/-- `array_2d_util.array_2d_slim_from` = `Impl.slimFrom` (the native array has the mask's shape) -/
theorem array_2d_slim_from_tie {α : Type} [OfNat α 0] [Inhabited α]
    (m : Mask) (wf : m.WF) (a : List α) (ha : a.length = m.h * m.w) :
    Generated.LoopsSlim.array_2d_slim_from (ofNative m.h m.w a) (ofMask m) = Impl.slimFrom m a 0 := by
  unfold Generated.LoopsSlim.array_2d_slim_from
  rw [total_pixels_2d_from_tie m wf, totalPixels_eq, slimFrom_eq]
  simp only [A2.shape0_eq, A2.shape1_eq, ofMask_h, ofMask_w, forRange_yx, A1.zeros_natCast]
  rw [foldl_congr_mem (g := fun (st : A1 α × Int) p =>
      if !m.get p.1 p.2 then (A1.set st.1 st.2 (a.getD (p.1 * m.w + p.2) 0), st.2 + 1) else st)]
  · have := pack_loop_A1 (pixels m.h m.w) (fun p => !m.get p.1 p.2)
      (fun p => a.getD (p.1 * m.w + p.2) 0) (0 : α) []
    simp only [List.length_nil, Nat.zero_add, List.nil_append] at this
    simp only [Spec.unmaskedPixels, Int.natCast_zero] at this ⊢
    rw [this]
    simp [Spec.slimFrom, Spec.unmaskedPixels, flat]
  · intro p hp st
    rw [mem_pixels] at hp
    rw [get_ofMask m wf hp.1 hp.2, get_ofNative m.h m.w a ha 0 hp.1 hp.2]

/-- `mask_2d_util.mask_slim_indexes_from` = `Impl.maskSlimIndexes`: a counting pass sizes the output,
    the fill pass writes the running `regular_index` at the running `mask_index`; the model appends. -/
theorem mask_slim_indexes_from_tie {α : Type} [OfNat α 0] [IntCast α]
    (m : Mask) (wf : m.WF) (flag : Bool) :
    Generated.LoopsSlim.mask_slim_indexes_from (α := α) (ofMask m) flag
      = (Impl.maskSlimIndexes m flag).map (fun (k : Nat) => ((k : Int) : α)) := by
  unfold Generated.LoopsSlim.mask_slim_indexes_from Impl.maskSlimIndexes
  rw [forYX_eq_foldl]
  simp only [A2.shape0_eq, A2.shape1_eq, ofMask_h, ofMask_w, forRange_yx]
  -- the counting pass
  have hcount : (pixels m.h m.w).foldl (fun (s : Int) p =>
        if (A2.get (ofMask m) (p.1 : Int) (p.2 : Int) == flag) = true then s + 1 else s) 0
      = (((pixels m.h m.w).filter fun p => m.get p.1 p.2 == flag).length : Int) := by
    rw [foldl_congr_mem (g := fun (s : Int) p => if (m.get p.1 p.2 == flag) then s + 1 else s)]
    · simpa using count_loop (pixels m.h m.w) (fun p => m.get p.1 p.2 == flag) 0
    · intro p hp s
      rw [mem_pixels] at hp
      rw [get_ofMask m wf hp.1 hp.2]
  rw [hcount]
  simp only [A1.zeros_natCast]
  -- the fill pass simulates the model's append loop
  generalize hc : (fun (p : Nat × Nat) => m.get p.1 p.2 == flag) = c
  have hsim := foldl_rel_pre
    (fun pre (s : A1 α × Int × Int) (t : List Nat × Nat) =>
      s.2.2 = (t.2 : Int) ∧ s.2.1 = (t.1.length : Int) ∧ t.1.length = (pre.filter c).length ∧
      s.1 = t.1.map (fun (k : Nat) => ((k : Int) : α))
              ++ List.replicate (((pixels m.h m.w).filter c).length - t.1.length) 0)
    (pixels m.h m.w)
    (fun (st : A1 α × Int × Int) p =>
      ((if (A2.get (ofMask m) (p.1 : Int) (p.2 : Int) == flag) = true
          then (A1.set st.1 st.2.1 ((st.2.2 : Int) : α), st.2.1 + 1) else (st.1, st.2.1)).1,
       (if (A2.get (ofMask m) (p.1 : Int) (p.2 : Int) == flag) = true
          then (A1.set st.1 st.2.1 ((st.2.2 : Int) : α), st.2.1 + 1) else (st.1, st.2.1)).2,
       st.2.2 + 1))
    (fun (acc : List Nat × Nat) p =>
      (if (m.get p.1 p.2 == flag) = true then acc.1 ++ [acc.2] else acc.1, acc.2 + 1))
    (s := (List.replicate ((pixels m.h m.w).filter c).length 0, 0, 0)) (t := ([], 0))
    (by simp)
    (by
      intro pre p post s t hl ⟨h1, h2, h3, h4⟩
      have hp : p ∈ pixels m.h m.w := by rw [hl]; simp
      rw [mem_pixels] at hp
      have hcp : (m.get p.1 p.2 == flag) = c p := by rw [← hc]
      rw [get_ofMask m wf hp.1 hp.2, hcp]
      by_cases hcc : c p = true
      · have hlt := filter_length_lt_of_split c hl hcc
        obtain ⟨d, hd⟩ : ∃ d, ((pixels m.h m.w).filter c).length - t.1.length = d + 1 :=
          ⟨((pixels m.h m.w).filter c).length - t.1.length - 1, by omega⟩
        simp only [hcc, if_true, List.filter_append, List.filter_cons, List.filter_nil,
          List.length_append, List.length_cons, List.length_nil, List.map_append, List.map_cons,
          List.map_nil]
        refine ⟨by rw [h1]; simp, by rw [h2]; simp, by omega, ?_⟩
        rw [h4, h2, h1, hd, A1.set_natCast]
        have hlen : t.1.length = (t.1.map (fun (k : Nat) => ((k : Int) : α))).length := by simp
        rw [hlen, set_pack]
        have hd' : ((pixels m.h m.w).filter c).length - ((t.1.map (fun (k : Nat) => ((k : Int) : α))).length + 1) = d := by
          simp; omega
        rw [hd']
      · simp only [hcc, Bool.false_eq_true, if_false, List.filter_append, List.filter_cons,
          List.filter_nil, List.append_nil]
        exact ⟨by rw [h1]; simp, h2, h3, h4⟩)
  obtain ⟨_, _, h3, h4⟩ := hsim
  subst hc
  rw [h4, h3]
  simp

/-- `array_2d_util.array_2d_via_indexes_from` = `Impl.nativeViaIndexes` (index table in range, one slim
    value per index) -/
theorem array_2d_via_indexes_from_tie {α : Type} [OfNat α 0] [Inhabited α]
    (h w : Nat) (idx : List (Nat × Nat)) (s : List α)
    (hidx : ∀ p ∈ idx, p.1 < h ∧ p.2 < w) (hs : idx.length ≤ s.length) :
    Generated.LoopsSlim.array_2d_via_indexes_from s ((h : Int), (w : Int))
        (ofPairs (fun k => (k : Int)) idx)
      = ofNative h w (Impl.nativeViaIndexes 0 h w idx s) := by
  unfold Generated.LoopsSlim.array_2d_via_indexes_from Impl.nativeViaIndexes
  simp only [A2.shape0_eq, ofPairs_h, forRange_zero_nat, A2.zeros_natCast]
  apply foldl_rel (fun (a : A2 α) (arr : List α) => a = ofNative h w arr)
  · rfl
  · intro k hk a arr hR
    have hk' : k < idx.length := by simpa using hk
    obtain ⟨g0, g1⟩ := get_ofPairs (fun k => (k : Int)) idx hk'
    have hb := hidx idx[k] (List.getElem_mem hk')
    rw [g0, g1, get_A1 s 0 (by omega), hR,
      A2.set_natCast _ _ _ _ (by simpa using hb.1) (by simpa using hb.2)]
    simp [ofNative, flat, List.getD_eq_getElem?_getD, List.getElem?_eq_getElem hk']

/-- `mask_1d_util.total_pixels_1d_from` = the length of `Impl.nativeForSlim1d` -/
theorem total_pixels_1d_from_tie (mask : List Bool) :
    Generated.LoopsSlim.total_pixels_1d_from mask = ((Impl.nativeForSlim1d mask).length : Int) := by
  unfold Generated.LoopsSlim.total_pixels_1d_from
  rw [nativeForSlim1d_eq]
  simp only [A1.len_eq, forRange_zero_nat]
  rw [foldl_congr_mem (g := fun (s : Int) x => if !mask.getD x true then s + 1 else s)]
  · simpa using count_loop (List.range mask.length) (fun x => !mask.getD x true) 0
  · intro x hx s
    rw [get_A1 mask true (by simpa using hx)]

/-- `mask_1d_util.native_index_for_slim_index_1d_from` = `Impl.nativeForSlim1d` -/
theorem native_index_for_slim_index_1d_from_tie {α : Type} [OfNat α 0] [IntCast α] (mask : List Bool) :
    Generated.LoopsSlim.native_index_for_slim_index_1d_from (α := α) mask
      = (Impl.nativeForSlim1d mask).map (fun (k : Nat) => ((k : Int) : α)) := by
  unfold Generated.LoopsSlim.native_index_for_slim_index_1d_from
  rw [total_pixels_1d_from_tie, nativeForSlim1d_eq]
  simp only [A1.len_eq, forRange_zero_nat, A1.zeros_natCast]
  rw [foldl_congr_mem (g := fun (st : A1 α × Int) (x : Nat) =>
      if !mask.getD x true then (A1.set st.1 st.2 (((x : Nat) : Int) : α), st.2 + 1) else st)]
  · have := pack_loop_A1 (List.range mask.length) (fun x => !mask.getD x true)
      (fun (x : Nat) => (((x : Nat) : Int) : α)) (0 : α) []
    simp only [List.length_nil, Nat.zero_add, List.nil_append, Int.natCast_zero] at this
    rw [this]
  · intro x hx st
    rw [get_A1 mask true (by simpa using hx)]

/-- `array_1d_util.array_1d_slim_from` = `Impl.slim1dFrom` (the native array covers the mask) -/
theorem array_1d_slim_from_tie {α : Type} [OfNat α 0] [Inhabited α]
    (mask : List Bool) (a : List α) (ha : mask.length ≤ a.length) :
    Generated.LoopsSlim.array_1d_slim_from a mask = Impl.slim1dFrom mask a 0 := by
  unfold Generated.LoopsSlim.array_1d_slim_from
  rw [total_pixels_1d_from_tie, slim1dFrom_eq, nativeForSlim1d_eq]
  simp only [A1.len_eq, forRange_zero_nat, A1.zeros_natCast]
  rw [foldl_congr_mem (g := fun (st : A1 α × Int) (x : Nat) =>
      if !mask.getD x true then (A1.set st.1 st.2 (a.getD x 0), st.2 + 1) else st)]
  · have := pack_loop_A1 (List.range mask.length) (fun x => !mask.getD x true)
      (fun (x : Nat) => a.getD x 0) (0 : α) []
    simp only [List.length_nil, Nat.zero_add, List.nil_append, Int.natCast_zero] at this
    rw [this]
  · intro x hx st
    have hx' : x < mask.length := by simpa using hx
    rw [get_A1 mask true hx', get_A1 a 0 (by omega)]

/-- `array_1d_util.array_1d_via_indexes_1d_from` = `Impl.native1dFrom` (one slim value per index) -/
theorem array_1d_via_indexes_1d_from_tie {α : Type} [OfNat α 0] [Inhabited α]
    (mask : List Bool) (s : List α) (hs : (Impl.nativeForSlim1d mask).length ≤ s.length) :
    Generated.LoopsSlim.array_1d_via_indexes_1d_from s (mask.length : Int)
        ((Impl.nativeForSlim1d mask).map (fun (k : Nat) => (k : Int)))
      = Impl.native1dFrom mask s 0 := by
  unfold Generated.LoopsSlim.array_1d_via_indexes_1d_from Impl.native1dFrom
  simp only [A1.len_eq, List.length_map, forRange_zero_nat, A1.zeros_natCast]
  apply foldl_rel (fun (a : A1 α) (arr : List α) => a = arr)
  · rfl
  · intro k hk a arr hR
    have hk' : k < (Impl.nativeForSlim1d mask).length := by simpa using hk
    rw [get_A1 _ (0 : Int) (by simpa using hk'), get_A1 s 0 (by omega), hR]
    simp [List.getD_eq_getElem?_getD, List.getElem?_eq_getElem hk']

end TieSlim
