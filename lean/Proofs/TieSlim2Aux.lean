/-
Proofs/TieSlim2Aux.lean — helper lemmas of Proofs/TieSlim2.lean (fill loops over numpy buffers) and the
discharge of the truncation hypothesis of `index_2d_for_index_slim_from_tie` from the `int()` contract.
-/
import Proofs.TieCore
import Proofs.SlimIndex
import Proofs.Geometry

open Model PyRt TieCore

namespace TieSlim2Aux

/-- `for i in range(n): a[i, 0] = v0 i; a[i, 1] = v1 i` over `np.zeros((n, 2))` -/
theorem fill_rows2 {β : Type} (n : Nat) (v0 v1 : Nat → β) (z : β) :
    (List.range n).foldl
        (fun (a : A2 β) (i : Nat) => A2.set (A2.set a (i : Int) 0 (v0 i)) (i : Int) 1 (v1 i))
        { h := n, w := 2, data := List.replicate (n * 2) z }
      = { h := n, w := 2, data := rows2 ((List.range n).map fun i => (v0 i, v1 i)) } := by
  suffices H : ∀ k d, (List.range k).foldl
        (fun (a : A2 β) (i : Nat) => A2.set (A2.set a (i : Int) 0 (v0 i)) (i : Int) 1 (v1 i))
        { h := k + d, w := 2, data := List.replicate ((k + d) * 2) z }
      = { h := k + d, w := 2,
          data := rows2 ((List.range k).map fun i => (v0 i, v1 i)) ++ List.replicate (2 * d) z } by
    simpa using H n 0
  intro k
  induction k with
  | zero => intro d; simp [Nat.mul_comm]
  | succ k ih =>
    intro d
    have e : k + 1 + d = k + (d + 1) := by omega
    rw [List.range_succ, List.foldl_append, e, ih (d + 1)]
    simp only [List.foldl_cons, List.foldl_nil, List.map_append, List.map_cons, List.map_nil]
    have := set_row2 ((List.range k).map fun i => (v0 i, v1 i)) d z (v0 k) (v1 k)
    simp only [List.length_map, List.length_range, List.length_append, List.length_cons,
      List.length_nil] at this
    rw [this]
    simp only [A2.mk.injEq, and_true]
    omega

/-- `for i in range(n): a[i] = v i` over `np.zeros(n)` -/
theorem fill_A1 {β : Type} (n : Nat) (v : Nat → β) (z : β) :
    (List.range n).foldl (fun (a : A1 β) (i : Nat) => A1.set a (i : Int) (v i)) (List.replicate n z)
      = (List.range n).map v := by
  simp only [A1.set_natCast]
  exact Model.fill_loop n v z

/-- under the `int()` contract, `int(k / w) = k // w` for naturals `k`, `w > 0` (float division, then
    truncation) — the hypothesis of `index_2d_for_index_slim_from_tie` is not vacuous -/
theorem div_of_truncSpec {α : Type} [Field α] [LinearOrder α] [IsStrictOrderedRing α]
    {trunc : α → Int} (ht : TruncSpec trunc) (k w : Nat) (hw : 0 < w) :
    trunc ((((k : Nat) : Int) : α) / (((w : Nat) : Int) : α)) = ((k / w : Nat) : Int) := by
  have hdm : (k : α) = (w : α) * ((k / w : Nat) : α) + ((k % w : Nat) : α) := by
    exact_mod_cast (Nat.div_add_mod k w).symm
  have h0 : (0 : α) ≤ ((k % w : Nat) : α) := Nat.cast_nonneg _
  have h1 : ((k % w : Nat) : α) < (w : α) := by
    exact_mod_cast Nat.mod_lt k hw
  have h2 : (0 : α) < (w : α) := by exact_mod_cast hw
  apply trunc_eq_of_mem ht
  · rw [Int.cast_natCast, Int.cast_natCast, le_div_iff₀ h2]
    linarith
  · rw [Int.cast_natCast, Int.cast_natCast, div_lt_iff₀ h2]
    linarith

/-- the driver's `int()` on exact rationals satisfies the hypothesis of the tie -/
theorem div_truncRat (k w : Nat) (hw : 0 < w) :
    truncRat ((((k : Nat) : Int) : ℚ) / (((w : Nat) : Int) : ℚ)) = ((k / w : Nat) : Int) :=
  div_of_truncSpec truncSpec_truncRat k w hw

end TieSlim2Aux
