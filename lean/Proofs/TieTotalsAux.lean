/-
Proofs/TieTotalsAux.lean — helper lemma for the LOOP TIE of `mapper_util.data_weight_total_for_pix_from`
(Proofs/TieDelaunay.lean, property C06): the loop `for k, w in zip(idx, ws): total[k] += w` at admissible
(possibly negative) numpy indices is the model's `Impl.addRowWeights`.  Core Lean only.
-/
import Model.PyRt
import Model.MapperTotals
import Proofs.TieCore
import Proofs.TieRegAux
import Proofs.TieSignalsAux

open Model PyRt TieCore TieRegAux TieSignalsAux

namespace TieTotalsAux

variable {α : Type}

/-- `for k, w in zip(idx, ws): total[k] += w` -/
theorem zip_accumulate [Add α] [Zero α] [Inhabited α] (n : Nat) (idx : List Int)
    (hin : ∀ k ∈ idx, InIdx n k) (ws tot : List α) (htot : tot.length = n) :
    PyRt.forEach (PyRt.zip idx ws) tot (fun p t => A1.set t p.1 (A1.get t p.1 + p.2))
      = Impl.addRowWeights n tot idx ws := by
  unfold PyRt.forEach PyRt.zip Impl.addRowWeights
  induction idx generalizing ws tot with
  | nil => simp
  | cons k idx ih =>
    cases ws with
    | nil => simp
    | cons w ws =>
      simp only [List.zip_cons_cons, List.map_cons, List.foldl_cons]
      rw [get_A1_idx tot 0 htot (hin k (by simp)), set_A1_norm tot htot (hin k (by simp))]
      exact ih (fun j hj => hin j (by simp [hj])) ws _ (by simp [htot])

end TieTotalsAux
