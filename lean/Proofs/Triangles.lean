/-
Proofs/Triangles.lean — geometry of midpoint subdivision and edge reflection over an ordered field
(property C20, clauses a and c, vertex-array form).
-/
import Model.Triangles
import Mathlib.Tactic.Ring
import Mathlib.Tactic.Linarith
import Mathlib.Tactic.FieldSimp
import Mathlib.Tactic.LinearCombination
import Mathlib.Algebra.Order.Field.Basic

set_option linter.unusedSectionVars false
set_option linter.unusedSimpArgs false

namespace Model

open Impl

section field
variable {α : Type} [Field α] [LinearOrder α] [IsStrictOrderedRing α]

/-! ### the four children, in the block order of `_up_sample_triangle` -/

def child0 (t : Tri α) : Tri α := ⟨t.v1, vhalf (vadd t.v1 t.v2), vhalf (vadd t.v0 t.v1)⟩
def child1 (t : Tri α) : Tri α := ⟨t.v2, vhalf (vadd t.v2 t.v0), vhalf (vadd t.v1 t.v2)⟩
def child2 (t : Tri α) : Tri α :=
  ⟨vhalf (vadd t.v0 t.v1), vhalf (vadd t.v1 t.v2), vhalf (vadd t.v2 t.v0)⟩
def child3 (t : Tri α) : Tri α := ⟨t.v0, vhalf (vadd t.v0 t.v1), vhalf (vadd t.v2 t.v0)⟩

def children (t : Tri α) : List (Tri α) := [child0 t, child1 t, child2 t, child3 t]

theorem upSampleRaw_eq (ts : List (Tri α)) :
    Impl.upSampleRaw ts = ts.map child0 ++ ts.map child1 ++ ts.map child2 ++ ts.map child3 := rfl

theorem mem_upSampleRaw {ts : List (Tri α)} {x : Tri α} :
    x ∈ Impl.upSampleRaw ts ↔ ∃ t ∈ ts, x ∈ children t := by
  rw [upSampleRaw_eq]
  simp only [List.mem_append, List.mem_map, children, List.mem_cons, List.not_mem_nil, or_false]
  constructor
  · rintro (((⟨t, ht, rfl⟩ | ⟨t, ht, rfl⟩) | ⟨t, ht, rfl⟩) | ⟨t, ht, rfl⟩)
    · exact ⟨t, ht, Or.inl rfl⟩
    · exact ⟨t, ht, Or.inr (Or.inl rfl)⟩
    · exact ⟨t, ht, Or.inr (Or.inr (Or.inl rfl))⟩
    · exact ⟨t, ht, Or.inr (Or.inr (Or.inr rfl))⟩
  · rintro ⟨t, ht, h | h | h | h⟩
    · exact Or.inl (Or.inl (Or.inl ⟨t, ht, h.symm⟩))
    · exact Or.inl (Or.inl (Or.inr ⟨t, ht, h.symm⟩))
    · exact Or.inl (Or.inr ⟨t, ht, h.symm⟩)
    · exact Or.inr ⟨t, ht, h.symm⟩

theorem upSampleRaw_length (ts : List (Tri α)) : (Impl.upSampleRaw ts).length = 4 * ts.length := by
  rw [upSampleRaw_eq]; simp; omega

/-! ### signed areas -/

theorem area_child0 (t : Tri α) : twiceSignedArea (child0 t) = twiceSignedArea t / 4 := by
  simp only [twiceSignedArea, child0, vhalf, vadd]; ring

theorem area_child1 (t : Tri α) : twiceSignedArea (child1 t) = twiceSignedArea t / 4 := by
  simp only [twiceSignedArea, child1, vhalf, vadd]; ring

theorem area_child2 (t : Tri α) : twiceSignedArea (child2 t) = twiceSignedArea t / 4 := by
  simp only [twiceSignedArea, child2, vhalf, vadd]; ring

theorem area_child3 (t : Tri α) : twiceSignedArea (child3 t) = twiceSignedArea t / 4 := by
  simp only [twiceSignedArea, child3, vhalf, vadd]; ring

theorem area_children {t s : Tri α} (h : s ∈ children t) :
    twiceSignedArea s = twiceSignedArea t / 4 := by
  simp only [children, List.mem_cons, List.not_mem_nil, or_false] at h
  rcases h with rfl | rfl | rfl | rfl
  · exact area_child0 t
  · exact area_child1 t
  · exact area_child2 t
  · exact area_child3 t

theorem absv_eq_abs (x : α) : Impl.absv x = |x| := by
  unfold Impl.absv
  split
  · rename_i h; rw [abs_of_neg h]
  · rename_i h; rw [abs_of_nonneg (not_lt.mp h)]

theorem absv_div4 (x : α) : Impl.absv (x / 4) = Impl.absv x / 4 := by
  rw [absv_eq_abs, absv_eq_abs, abs_div]
  congr 1
  exact abs_of_pos (by norm_num)

/-- the accumulation loop of `area` as a sum. -/
def absSum (ts : List (Tri α)) : α := (ts.map fun t => Impl.absv (twiceSignedArea t)).sum

theorem area_fold (ts : List (Tri α)) (acc : α) :
    ts.foldl (fun acc t => acc + Impl.absv (twiceSignedArea t)) acc = acc + absSum ts := by
  induction ts generalizing acc with
  | nil => simp [absSum]
  | cons t ts ih =>
    simp only [List.foldl_cons, ih, absSum, List.map_cons, List.sum_cons]
    ring

theorem area_eq (ts : List (Tri α)) : Impl.area ts = absSum ts / 2 := by
  unfold Impl.area
  rw [area_fold]; simp

theorem absSum_append (a b : List (Tri α)) : absSum (a ++ b) = absSum a + absSum b := by
  simp [absSum]

theorem absSum_map_child (ts : List (Tri α)) (f : Tri α → Tri α)
    (hf : ∀ t, twiceSignedArea (f t) = twiceSignedArea t / 4) :
    absSum (ts.map f) = absSum ts / 4 := by
  induction ts with
  | nil => simp [absSum]
  | cons t ts ih =>
    simp only [absSum, List.map_cons, List.sum_cons] at ih ⊢
    rw [ih, hf, absv_div4]
    ring

/-- total area is conserved by the subdivision. -/
theorem area_upSampleRaw (ts : List (Tri α)) : Impl.area (Impl.upSampleRaw ts) = Impl.area ts := by
  rw [area_eq, area_eq, upSampleRaw_eq, absSum_append, absSum_append, absSum_append,
    absSum_map_child ts child0 area_child0, absSum_map_child ts child1 area_child1,
    absSum_map_child ts child2 area_child2, absSum_map_child ts child3 area_child3]
  ring

/-! ### barycentric points -/

/-- the point with barycentric weights `(a,b,c)` in `t`. -/
def Tri.point (t : Tri α) (a b c : α) : α × α :=
  (a * t.v0.1 + b * t.v1.1 + c * t.v2.1, a * t.v0.2 + b * t.v1.2 + c * t.v2.2)

/-- `p` lies in the closed triangle `t`. -/
def InTri (t : Tri α) (p : α × α) : Prop :=
  ∃ a b c : α, 0 ≤ a ∧ 0 ≤ b ∧ 0 ≤ c ∧ a + b + c = 1 ∧ p = t.point a b c

/-- `p` lies on the boundary (an edge) of the closed triangle `t`. -/
def OnEdge (t : Tri α) (p : α × α) : Prop :=
  ∃ a b c : α, 0 ≤ a ∧ 0 ≤ b ∧ 0 ≤ c ∧ a + b + c = 1 ∧ p = t.point a b c ∧ (a = 0 ∨ b = 0 ∨ c = 0)

/-- barycentric weights are unique in a non-degenerate triangle. -/
theorem point_inj {t : Tri α} (hd : twiceSignedArea t ≠ 0) {a b c a' b' c' : α}
    (hs : a + b + c = 1) (hs' : a' + b' + c' = 1) (hp : t.point a b c = t.point a' b' c') :
    a = a' ∧ b = b' ∧ c = c' := by
  have h1 := congrArg Prod.fst hp
  have h2 := congrArg Prod.snd hp
  simp only [Tri.point] at h1 h2
  have hc : c = 1 - a - b := by linarith
  have hc' : c' = 1 - a' - b' := by linarith
  subst hc; subst hc'
  have hA : (a - a') * twiceSignedArea t = 0 := by
    unfold twiceSignedArea
    linear_combination (t.v1.2 - t.v2.2) * h1 - (t.v1.1 - t.v2.1) * h2
  have hB : (b - b') * twiceSignedArea t = 0 := by
    unfold twiceSignedArea
    linear_combination (t.v2.2 - t.v0.2) * h1 - (t.v2.1 - t.v0.1) * h2
  have ea : a = a' := by
    rcases mul_eq_zero.mp hA with h | h
    · linarith
    · exact absurd h hd
  have eb : b = b' := by
    rcases mul_eq_zero.mp hB with h | h
    · linarith
    · exact absurd h hd
  exact ⟨ea, eb, by rw [ea, eb]⟩

/-! ### weights of a point in the children -/

theorem child0_point (t : Tri α) (a b c : α) (hs : a + b + c = 1) :
    (child0 t).point (2 * b - 1) (2 * c) (2 * a) = t.point a b c := by
  have hc : c = 1 - a - b := by linarith
  subst hc
  simp only [Tri.point, child0, vhalf, vadd]
  ext <;> simp only <;> ring

theorem child1_point (t : Tri α) (a b c : α) (hs : a + b + c = 1) :
    (child1 t).point (2 * c - 1) (2 * a) (2 * b) = t.point a b c := by
  have hc : c = 1 - a - b := by linarith
  subst hc
  simp only [Tri.point, child1, vhalf, vadd]
  ext <;> simp only <;> ring

theorem child2_point (t : Tri α) (a b c : α) (hs : a + b + c = 1) :
    (child2 t).point (1 - 2 * c) (1 - 2 * a) (1 - 2 * b) = t.point a b c := by
  have hc : c = 1 - a - b := by linarith
  subst hc
  simp only [Tri.point, child2, vhalf, vadd]
  ext <;> simp only <;> ring

theorem child3_point (t : Tri α) (a b c : α) (hs : a + b + c = 1) :
    (child3 t).point (2 * a - 1) (2 * b) (2 * c) = t.point a b c := by
  have hc : c = 1 - a - b := by linarith
  subst hc
  simp only [Tri.point, child3, vhalf, vadd]
  ext <;> simp only <;> ring

/-- conversely, child weights `(u,v,w)` are the parent weights given here. -/
theorem child0_point' (t : Tri α) (u v w : α) :
    (child0 t).point u v w = t.point (w / 2) (u + v / 2 + w / 2) (v / 2) := by
  simp only [Tri.point, child0, vhalf, vadd]
  ext <;> simp only <;> ring

theorem child1_point' (t : Tri α) (u v w : α) :
    (child1 t).point u v w = t.point (v / 2) (w / 2) (u + v / 2 + w / 2) := by
  simp only [Tri.point, child1, vhalf, vadd]
  ext <;> simp only <;> ring

theorem child2_point' (t : Tri α) (u v w : α) :
    (child2 t).point u v w = t.point (u / 2 + w / 2) (u / 2 + v / 2) (v / 2 + w / 2) := by
  simp only [Tri.point, child2, vhalf, vadd]
  ext <;> simp only <;> ring

theorem child3_point' (t : Tri α) (u v w : α) :
    (child3 t).point u v w = t.point (u + v / 2 + w / 2) (v / 2) (w / 2) := by
  simp only [Tri.point, child3, vhalf, vadd]
  ext <;> simp only <;> ring

/-- every child lies inside its parent. -/
theorem inTri_of_child {t s : Tri α} (hs : s ∈ children t) {p : α × α} (hp : InTri s p) :
    InTri t p := by
  obtain ⟨u, v, w, hu, hv, hw, hsum, rfl⟩ := hp
  simp only [children, List.mem_cons, List.not_mem_nil, or_false] at hs
  rcases hs with rfl | rfl | rfl | rfl
  · exact ⟨_, _, _, by positivity, by positivity, by positivity, by linarith, child0_point' t u v w⟩
  · exact ⟨_, _, _, by positivity, by positivity, by positivity, by linarith, child1_point' t u v w⟩
  · exact ⟨_, _, _, by positivity, by positivity, by positivity, by linarith, child2_point' t u v w⟩
  · exact ⟨_, _, _, by positivity, by positivity, by positivity, by linarith, child3_point' t u v w⟩

/-- the children cover the parent. -/
theorem child_of_inTri (t : Tri α) {p : α × α} (hp : InTri t p) : ∃ s ∈ children t, InTri s p := by
  obtain ⟨a, b, c, ha, hb, hc, hsum, rfl⟩ := hp
  by_cases h0 : 1 ≤ 2 * b
  · exact ⟨child0 t, by simp [children],
      2 * b - 1, 2 * c, 2 * a, by linarith, by linarith, by linarith, by linarith,
      (child0_point t a b c hsum).symm⟩
  by_cases h1 : 1 ≤ 2 * c
  · exact ⟨child1 t, by simp [children],
      2 * c - 1, 2 * a, 2 * b, by linarith, by linarith, by linarith, by linarith,
      (child1_point t a b c hsum).symm⟩
  by_cases h3 : 1 ≤ 2 * a
  · exact ⟨child3 t, by simp [children],
      2 * a - 1, 2 * b, 2 * c, by linarith, by linarith, by linarith, by linarith,
      (child3_point t a b c hsum).symm⟩
  · have h0 := not_le.mp h0
    have h1 := not_le.mp h1
    have h3 := not_le.mp h3
    exact ⟨child2 t, by simp [children],
      1 - 2 * c, 1 - 2 * a, 1 - 2 * b, by linarith, by linarith, by linarith, by linarith,
      (child2_point t a b c hsum).symm⟩

/-- membership of a point of the parent (weights `(a,b,c)`) in each child, read off its weights:
    corner children iff the corresponding weight is `≥ ½`, middle child iff all are `≤ ½`. -/
theorem inTri_child_iff {t : Tri α} (hd : twiceSignedArea t ≠ 0) {a b c : α}
    (ha : 0 ≤ a) (hb : 0 ≤ b) (hc : 0 ≤ c) (hs : a + b + c = 1) :
    (InTri (child0 t) (t.point a b c) ↔ 1 ≤ 2 * b)
    ∧ (InTri (child1 t) (t.point a b c) ↔ 1 ≤ 2 * c)
    ∧ (InTri (child2 t) (t.point a b c) ↔ 2 * a ≤ 1 ∧ 2 * b ≤ 1 ∧ 2 * c ≤ 1)
    ∧ (InTri (child3 t) (t.point a b c) ↔ 1 ≤ 2 * a) := by
  refine ⟨⟨?_, ?_⟩, ⟨?_, ?_⟩, ⟨?_, ?_⟩, ⟨?_, ?_⟩⟩
  · rintro ⟨u, v, w, hu, hv, hw, hsum, hp⟩
    rw [child0_point'] at hp
    obtain ⟨e1, e2, e3⟩ := point_inj hd hs (by linarith) hp
    linarith
  · intro h
    exact ⟨2 * b - 1, 2 * c, 2 * a, by linarith, by linarith, by linarith, by linarith,
      (child0_point t a b c hs).symm⟩
  · rintro ⟨u, v, w, hu, hv, hw, hsum, hp⟩
    rw [child1_point'] at hp
    obtain ⟨e1, e2, e3⟩ := point_inj hd hs (by linarith) hp
    linarith
  · intro h
    exact ⟨2 * c - 1, 2 * a, 2 * b, by linarith, by linarith, by linarith, by linarith,
      (child1_point t a b c hs).symm⟩
  · rintro ⟨u, v, w, hu, hv, hw, hsum, hp⟩
    rw [child2_point'] at hp
    obtain ⟨e1, e2, e3⟩ := point_inj hd hs (by linarith) hp
    refine ⟨by linarith, by linarith, by linarith⟩
  · rintro ⟨h1, h2, h3⟩
    exact ⟨1 - 2 * c, 1 - 2 * a, 1 - 2 * b, by linarith, by linarith, by linarith, by linarith,
      (child2_point t a b c hs).symm⟩
  · rintro ⟨u, v, w, hu, hv, hw, hsum, hp⟩
    rw [child3_point'] at hp
    obtain ⟨e1, e2, e3⟩ := point_inj hd hs (by linarith) hp
    linarith
  · intro h
    exact ⟨2 * a - 1, 2 * b, 2 * c, by linarith, by linarith, by linarith, by linarith,
      (child3_point t a b c hs).symm⟩

/-- boundary points of the children, by parent weights. -/
theorem onEdge_child0 (t : Tri α) {a b c : α} (ha : 0 ≤ a) (hc : 0 ≤ c) (hs : a + b + c = 1)
    (hb : 1 ≤ 2 * b) (hz : 2 * b = 1 ∨ c = 0 ∨ a = 0) : OnEdge (child0 t) (t.point a b c) :=
  ⟨2 * b - 1, 2 * c, 2 * a, by linarith, by linarith, by linarith, by linarith,
    (child0_point t a b c hs).symm, by
      rcases hz with h | h | h
      · left; linarith
      · right; left; rw [h]; ring
      · right; right; rw [h]; ring⟩

theorem onEdge_child1 (t : Tri α) {a b c : α} (ha : 0 ≤ a) (hb : 0 ≤ b) (hs : a + b + c = 1)
    (hc : 1 ≤ 2 * c) (hz : 2 * c = 1 ∨ a = 0 ∨ b = 0) : OnEdge (child1 t) (t.point a b c) :=
  ⟨2 * c - 1, 2 * a, 2 * b, by linarith, by linarith, by linarith, by linarith,
    (child1_point t a b c hs).symm, by
      rcases hz with h | h | h
      · left; linarith
      · right; left; rw [h]; ring
      · right; right; rw [h]; ring⟩

theorem onEdge_child2 (t : Tri α) {a b c : α} (hs : a + b + c = 1)
    (h1 : 2 * a ≤ 1) (h2 : 2 * b ≤ 1) (h3 : 2 * c ≤ 1) (hz : 2 * c = 1 ∨ 2 * a = 1 ∨ 2 * b = 1) :
    OnEdge (child2 t) (t.point a b c) :=
  ⟨1 - 2 * c, 1 - 2 * a, 1 - 2 * b, by linarith, by linarith, by linarith, by linarith,
    (child2_point t a b c hs).symm, by
      rcases hz with h | h | h
      · left; linarith
      · right; left; linarith
      · right; right; linarith⟩

theorem onEdge_child3 (t : Tri α) {a b c : α} (hb : 0 ≤ b) (hc : 0 ≤ c) (hs : a + b + c = 1)
    (ha : 1 ≤ 2 * a) (hz : 2 * a = 1 ∨ b = 0 ∨ c = 0) : OnEdge (child3 t) (t.point a b c) :=
  ⟨2 * a - 1, 2 * b, 2 * c, by linarith, by linarith, by linarith, by linarith,
    (child3_point t a b c hs).symm, by
      rcases hz with h | h | h
      · left; linarith
      · right; left; rw [h]; ring
      · right; right; rw [h]; ring⟩


/-- two different children of a non-degenerate triangle meet only along their edges. -/
theorem overlap_on_edges {t : Tri α} (hd : twiceSignedArea t ≠ 0) :
    (children t).Pairwise fun s1 s2 =>
      ∀ p, InTri s1 p → InTri s2 p → OnEdge s1 p ∧ OnEdge s2 p := by
  have key : ∀ (s1 s2 : Tri α) (p : α × α), s1 ∈ children t → InTri s1 p →
      ∃ a b c, 0 ≤ a ∧ 0 ≤ b ∧ 0 ≤ c ∧ a + b + c = 1 ∧ p = t.point a b c := by
    intro s1 _ p hs1 hi
    exact inTri_of_child hs1 hi
  simp only [children, List.pairwise_cons, List.mem_cons, List.not_mem_nil, or_false,
    forall_eq_or_imp, forall_eq, List.Pairwise.nil, and_true, IsEmpty.forall_iff, implies_true]
  refine ⟨⟨?_, ?_, ?_⟩, ⟨?_, ?_⟩, ?_⟩
  -- (0,1)
  · intro p hi hj
    obtain ⟨a, b, c, ha, hb, hc, hs, rfl⟩ := key (child0 t) (child0 t) p (by simp [children]) hi
    obtain ⟨h0, h1, h2, h3⟩ := inTri_child_iff hd ha hb hc hs
    have := h0.mp hi; have := h1.mp hj
    exact ⟨onEdge_child0 t ha hc hs (by linarith) (Or.inl (by linarith)),
           onEdge_child1 t ha hb hs (by linarith) (Or.inl (by linarith))⟩
  -- (0,2)
  · intro p hi hj
    obtain ⟨a, b, c, ha, hb, hc, hs, rfl⟩ := key (child0 t) (child0 t) p (by simp [children]) hi
    obtain ⟨h0, h1, h2, h3⟩ := inTri_child_iff hd ha hb hc hs
    have := h0.mp hi; obtain ⟨_, _, _⟩ := h2.mp hj
    exact ⟨onEdge_child0 t ha hc hs (by linarith) (Or.inl (by linarith)),
           onEdge_child2 t hs (by linarith) (by linarith) (by linarith) (Or.inr (Or.inr (by linarith)))⟩
  -- (0,3)
  · intro p hi hj
    obtain ⟨a, b, c, ha, hb, hc, hs, rfl⟩ := key (child0 t) (child0 t) p (by simp [children]) hi
    obtain ⟨h0, h1, h2, h3⟩ := inTri_child_iff hd ha hb hc hs
    have := h0.mp hi; have := h3.mp hj
    exact ⟨onEdge_child0 t ha hc hs (by linarith) (Or.inl (by linarith)),
           onEdge_child3 t hb hc hs (by linarith) (Or.inl (by linarith))⟩
  -- (1,2)
  · intro p hi hj
    obtain ⟨a, b, c, ha, hb, hc, hs, rfl⟩ := key (child1 t) (child1 t) p (by simp [children]) hi
    obtain ⟨h0, h1, h2, h3⟩ := inTri_child_iff hd ha hb hc hs
    have := h1.mp hi; obtain ⟨_, _, _⟩ := h2.mp hj
    exact ⟨onEdge_child1 t ha hb hs (by linarith) (Or.inl (by linarith)),
           onEdge_child2 t hs (by linarith) (by linarith) (by linarith) (Or.inl (by linarith))⟩
  -- (1,3)
  · intro p hi hj
    obtain ⟨a, b, c, ha, hb, hc, hs, rfl⟩ := key (child1 t) (child1 t) p (by simp [children]) hi
    obtain ⟨h0, h1, h2, h3⟩ := inTri_child_iff hd ha hb hc hs
    have := h1.mp hi; have := h3.mp hj
    exact ⟨onEdge_child1 t ha hb hs (by linarith) (Or.inl (by linarith)),
           onEdge_child3 t hb hc hs (by linarith) (Or.inl (by linarith))⟩
  -- (2,3)
  · intro p hi hj
    obtain ⟨a, b, c, ha, hb, hc, hs, rfl⟩ := key (child2 t) (child2 t) p (by simp [children]) hi
    obtain ⟨h0, h1, h2, h3⟩ := inTri_child_iff hd ha hb hc hs
    obtain ⟨_, _, _⟩ := h2.mp hi; have := h3.mp hj
    exact ⟨onEdge_child2 t hs (by linarith) (by linarith) (by linarith) (Or.inr (Or.inl (by linarith))),
           onEdge_child3 t hb hc hs (by linarith) (Or.inl (by linarith))⟩

/-! ### reflections through the edge midpoints (`_neighborhood_triangles`) -/

def refl0 (t : Tri α) : Tri α := ⟨vsub (vadd t.v1 t.v2) t.v0, t.v1, t.v2⟩
def refl1 (t : Tri α) : Tri α := ⟨t.v0, vsub (vadd t.v0 t.v2) t.v1, t.v2⟩
def refl2 (t : Tri α) : Tri α := ⟨t.v0, t.v1, vsub (vadd t.v0 t.v1) t.v2⟩

theorem neighborhoodRaw_eq (ts : List (Tri α)) :
    Impl.neighborhoodRaw ts = ts.map refl0 ++ ts.map refl1 ++ ts.map refl2 ++ ts := rfl

theorem mem_neighborhoodRaw {ts : List (Tri α)} {x : Tri α} :
    x ∈ Impl.neighborhoodRaw ts ↔ ∃ t ∈ ts, x = t ∨ x = refl0 t ∨ x = refl1 t ∨ x = refl2 t := by
  rw [neighborhoodRaw_eq]
  simp only [List.mem_append, List.mem_map]
  constructor
  · rintro (((⟨t, ht, rfl⟩ | ⟨t, ht, rfl⟩) | ⟨t, ht, rfl⟩) | ht)
    · exact ⟨t, ht, Or.inr (Or.inl rfl)⟩
    · exact ⟨t, ht, Or.inr (Or.inr (Or.inl rfl))⟩
    · exact ⟨t, ht, Or.inr (Or.inr (Or.inr rfl))⟩
    · exact ⟨x, ht, Or.inl rfl⟩
  · rintro ⟨t, ht, rfl | rfl | rfl | rfl⟩
    · exact Or.inr ht
    · exact Or.inl (Or.inl (Or.inl ⟨t, ht, rfl⟩))
    · exact Or.inl (Or.inl (Or.inr ⟨t, ht, rfl⟩))
    · exact Or.inl (Or.inr ⟨t, ht, rfl⟩)

/-- the reflected vertex is the mirror image of the old one through the midpoint of the shared
    edge, and the reflected triangle has the opposite signed area (it lies on the other side). -/
theorem refl0_spec (t : Tri α) :
    vhalf (vadd (refl0 t).v0 t.v0) = vhalf (vadd t.v1 t.v2)
    ∧ twiceSignedArea (refl0 t) = - twiceSignedArea t := by
  constructor
  · simp only [refl0, vhalf, vadd, vsub]; ext <;> simp only <;> ring
  · simp only [twiceSignedArea, refl0, vadd, vsub]; ring

theorem refl1_spec (t : Tri α) :
    vhalf (vadd (refl1 t).v1 t.v1) = vhalf (vadd t.v0 t.v2)
    ∧ twiceSignedArea (refl1 t) = - twiceSignedArea t := by
  constructor
  · simp only [refl1, vhalf, vadd, vsub]; ext <;> simp only <;> ring
  · simp only [twiceSignedArea, refl1, vadd, vsub]; ring

theorem refl2_spec (t : Tri α) :
    vhalf (vadd (refl2 t).v2 t.v2) = vhalf (vadd t.v0 t.v1)
    ∧ twiceSignedArea (refl2 t) = - twiceSignedArea t := by
  constructor
  · simp only [refl2, vhalf, vadd, vsub]; ext <;> simp only <;> ring
  · simp only [twiceSignedArea, refl2, vadd, vsub]; ring

end field

end Model
