/-
Proofs/TrianglesCoord.lean — the integer-coordinate representation (property C20, clauses b and c):
the four integer children / three integer neighbours of a coordinate have exactly the vertices of the
midpoint children / edge reflections of the parent's vertex triangle, for both flip states, any side
length, offsets and height factor `h`.
-/
import Model.Triangles
import Proofs.Triangles
import Mathlib.Tactic.Ring
import Mathlib.Tactic.Linarith
import Mathlib.Tactic.FieldSimp
import Mathlib.Tactic.NormNum
import Mathlib.Algebra.Order.Field.Basic

set_option linter.unusedSectionVars false
set_option linter.unusedSimpArgs false

namespace Model

open Impl

/-! ### vertex re-orderings of one triangle -/

def rot1 (t : Tri α) : Tri α := ⟨t.v1, t.v2, t.v0⟩
def rot2 (t : Tri α) : Tri α := ⟨t.v2, t.v0, t.v1⟩
def swap01 (t : Tri α) : Tri α := ⟨t.v1, t.v0, t.v2⟩
def swap02 (t : Tri α) : Tri α := ⟨t.v2, t.v1, t.v0⟩
def swap12 (t : Tri α) : Tri α := ⟨t.v0, t.v2, t.v1⟩

/-- two triangles with the same three vertices (in any order). -/
def SameTri (t s : Tri α) : Prop := t.verts.Perm s.verts

theorem SameTri.refl (t : Tri α) : SameTri t t := List.Perm.refl _
theorem SameTri.symm {t s : Tri α} (h : SameTri t s) : SameTri s t := List.Perm.symm h
theorem SameTri.trans {t s r : Tri α} (h : SameTri t s) (h' : SameTri s r) : SameTri t r :=
  List.Perm.trans h h'

theorem sameTri_rot1 (t : Tri α) : SameTri (rot1 t) t := by
  unfold SameTri rot1 Tri.verts
  exact (List.Perm.cons t.v1 (List.Perm.swap t.v0 t.v2 [])).trans (List.Perm.swap t.v0 t.v1 [t.v2])

theorem sameTri_rot2 (t : Tri α) : SameTri (rot2 t) t := by
  unfold SameTri rot2 Tri.verts
  exact (List.Perm.swap t.v0 t.v2 [t.v1]).trans (List.Perm.cons t.v0 (List.Perm.swap t.v1 t.v2 []))

theorem sameTri_swap01 (t : Tri α) : SameTri (swap01 t) t := by
  unfold SameTri swap01 Tri.verts
  exact List.Perm.swap _ _ _

theorem sameTri_swap12 (t : Tri α) : SameTri (swap12 t) t := by
  unfold SameTri swap12 Tri.verts
  exact List.Perm.cons _ (List.Perm.swap _ _ _)

theorem sameTri_swap02 (t : Tri α) : SameTri (swap02 t) t := by
  unfold SameTri swap02 Tri.verts
  exact ((List.Perm.swap _ _ _).trans (List.Perm.cons _ (List.Perm.swap _ _ _))).trans
    (List.Perm.swap _ _ _)

/-! ### parity of the children / neighbours -/

theorem flipMask1_def (fl : Bool) (p : Int × Int) :
    Impl.flipMask1 fl p = (if fl then !((p.1 + p.2) % 2 != 0) else ((p.1 + p.2) % 2 != 0)) := rfl

theorem fm_even (fl : Bool) (a b : Int) (h : (a + b) % 2 = 0) : Impl.flipMask1 fl (a, b) = fl := by
  rw [flipMask1_def]; cases fl <;> simp [h]

theorem fm_odd (fl : Bool) (a b : Int) (h : (a + b) % 2 = 1) : Impl.flipMask1 fl (a, b) = !fl := by
  rw [flipMask1_def]; cases fl <;> simp [h]

/-- parity of a coordinate, from its flip bit. -/
theorem parity_of_fm {fl : Bool} {p : Int × Int} :
    (Impl.flipMask1 fl p = fl → (p.1 + p.2) % 2 = 0) ∧ (Impl.flipMask1 fl p = !fl → (p.1 + p.2) % 2 = 1) := by
  rw [flipMask1_def]
  have h2 : (p.1 + p.2) % 2 = 0 ∨ (p.1 + p.2) % 2 = 1 := by omega
  rcases h2 with h | h <;> cases fl <;> simp [h]

section field
variable {α : Type} [Field α] [LinearOrder α] [IsStrictOrderedRing α]

/-- `coordTri` only looks at side, offsets and the flip flag of the structure. -/
def coordTri' (h side xOff yOff : α) (fl : Bool) (p : Int × Int) : Tri α :=
  Impl.coordTri h { coords := [], side := side, xOff := xOff, yOff := yOff, flipped := fl } p

theorem coordTri_eq (h : α) (c : Impl.CoordTris α) (p : Int × Int) :
    Impl.coordTri h c p = coordTri' h c.side c.xOff c.yOff c.flipped p := rfl

/-- the triangle of an upright coordinate (`flip bit = false`). -/
theorem coordTri_up (h side xo yo : α) (fl : Bool) (p : Int × Int)
    (hf : Impl.flipMask1 fl p = false) :
    coordTri' h side xo yo fl p =
      ⟨(side / 2 * (p.1 : α) + xo, h * side * (p.2 : α) + yo + side / 2 * h),
       (side / 2 * (p.1 : α) + xo + side / 2, h * side * (p.2 : α) + yo - side / 2 * h),
       (side / 2 * (p.1 : α) + xo - side / 2, h * side * (p.2 : α) + yo - side / 2 * h)⟩ := by
  simp only [coordTri', Impl.coordTri, Impl.centre, hf]
  congr 1 <;> ext <;> simp <;> ring

/-- the triangle of a flipped coordinate (`flip bit = true`). -/
theorem coordTri_down (h side xo yo : α) (fl : Bool) (p : Int × Int)
    (hf : Impl.flipMask1 fl p = true) :
    coordTri' h side xo yo fl p =
      ⟨(side / 2 * (p.1 : α) + xo, h * side * (p.2 : α) + yo - side / 2 * h),
       (side / 2 * (p.1 : α) + xo - side / 2, h * side * (p.2 : α) + yo + side / 2 * h),
       (side / 2 * (p.1 : α) + xo + side / 2, h * side * (p.2 : α) + yo + side / 2 * h)⟩ := by
  simp only [coordTri', Impl.coordTri, Impl.centre, hf]
  congr 1 <;> ext <;> simp <;> ring

/-! ### clause (b): the integer children are the midpoint children -/

section kids
variable (h side xo yo : α) (fl : Bool) (p : Int × Int)

/-- the child structure's triangle of coordinate `k` (side/2, shifted y-offset, `flipped = True`). -/
abbrev kidTri (k : Int × Int) : Tri α := coordTri' h (side / 2) xo (yo + -(h * side / 4)) true k

theorem kid_up_00 (hf : Impl.flipMask1 fl p = false) :
    kidTri h side xo yo (2 * p.1 + 0, 2 * p.2 + 0) = rot1 (child2 (coordTri' h side xo yo fl p)) := by
  unfold kidTri
  rw [coordTri_up h side xo yo fl p hf,
    coordTri_down _ _ _ _ true _ (fm_even true _ _ (by omega))]
  simp only [rot1, child2, vhalf, vadd]
  push_cast
  congr 1 <;> ext <;> simp only <;> ring

theorem kid_up_10 (hf : Impl.flipMask1 fl p = false) :
    kidTri h side xo yo (2 * p.1 + 1, 2 * p.2 + 0) = rot2 (child0 (coordTri' h side xo yo fl p)) := by
  unfold kidTri
  rw [coordTri_up h side xo yo fl p hf,
    coordTri_up _ _ _ _ true _ (fm_odd true _ _ (by omega))]
  simp only [rot2, child0, vhalf, vadd]
  push_cast
  congr 1 <;> ext <;> simp only <;> ring

theorem kid_up_m10 (hf : Impl.flipMask1 fl p = false) :
    kidTri h side xo yo (2 * p.1 + -1, 2 * p.2 + 0) = rot1 (child1 (coordTri' h side xo yo fl p)) := by
  unfold kidTri
  rw [coordTri_up h side xo yo fl p hf,
    coordTri_up _ _ _ _ true _ (fm_odd true _ _ (by omega))]
  simp only [rot1, child1, vhalf, vadd]
  push_cast
  congr 1 <;> ext <;> simp only <;> ring

theorem kid_up_01 (hf : Impl.flipMask1 fl p = false) :
    kidTri h side xo yo (2 * p.1 + 0, 2 * p.2 + 1) = child3 (coordTri' h side xo yo fl p) := by
  unfold kidTri
  rw [coordTri_up h side xo yo fl p hf,
    coordTri_up _ _ _ _ true _ (fm_odd true _ _ (by omega))]
  simp only [child3, vhalf, vadd]
  push_cast
  congr 1 <;> ext <;> simp only <;> ring

theorem kid_down_00 (hf : Impl.flipMask1 fl p = true) :
    kidTri h side xo yo (2 * p.1 + 0, 2 * p.2 + 0) = child3 (coordTri' h side xo yo fl p) := by
  unfold kidTri
  rw [coordTri_down h side xo yo fl p hf,
    coordTri_down _ _ _ _ true _ (fm_even true _ _ (by omega))]
  simp only [child3, vhalf, vadd]
  push_cast
  congr 1 <;> ext <;> simp only <;> ring

theorem kid_down_11 (hf : Impl.flipMask1 fl p = true) :
    kidTri h side xo yo (2 * p.1 + 1, 2 * p.2 + 1) = rot1 (child1 (coordTri' h side xo yo fl p)) := by
  unfold kidTri
  rw [coordTri_down h side xo yo fl p hf,
    coordTri_down _ _ _ _ true _ (fm_even true _ _ (by omega))]
  simp only [rot1, child1, vhalf, vadd]
  push_cast
  congr 1 <;> ext <;> simp only <;> ring

theorem kid_down_m11 (hf : Impl.flipMask1 fl p = true) :
    kidTri h side xo yo (2 * p.1 + -1, 2 * p.2 + 1) = rot2 (child0 (coordTri' h side xo yo fl p)) := by
  unfold kidTri
  rw [coordTri_down h side xo yo fl p hf,
    coordTri_down _ _ _ _ true _ (fm_even true _ _ (by omega))]
  simp only [rot2, child0, vhalf, vadd]
  push_cast
  congr 1 <;> ext <;> simp only <;> ring

theorem kid_down_01 (hf : Impl.flipMask1 fl p = true) :
    kidTri h side xo yo (2 * p.1 + 0, 2 * p.2 + 1) = rot1 (child2 (coordTri' h side xo yo fl p)) := by
  unfold kidTri
  rw [coordTri_down h side xo yo fl p hf,
    coordTri_up _ _ _ _ true _ (fm_odd true _ _ (by omega))]
  simp only [rot1, child2, vhalf, vadd]
  push_cast
  congr 1 <;> ext <;> simp only <;> ring

/-! ### clause (c): the integer neighbours are the edge reflections -/

theorem nb_up_10 (hf : Impl.flipMask1 fl p = false) :
    coordTri' h side xo yo fl (p.1 + 1, p.2 + 0) = swap01 (refl2 (coordTri' h side xo yo fl p)) := by
  have hpar := (parity_of_fm (fl := fl) (p := p))
  have hk : Impl.flipMask1 fl (p.1 + 1, p.2 + 0) = true := by
    cases fl
    · have := hpar.1 hf; exact fm_odd false _ _ (by omega)
    · have := hpar.2 hf; exact fm_even true _ _ (by omega)
  rw [coordTri_up h side xo yo fl p hf, coordTri_down _ _ _ _ fl _ hk]
  simp only [swap01, refl2, vsub, vadd]
  push_cast
  congr 1 <;> ext <;> simp only <;> ring

theorem nb_up_m10 (hf : Impl.flipMask1 fl p = false) :
    coordTri' h side xo yo fl (p.1 + -1, p.2 + 0) = swap02 (refl1 (coordTri' h side xo yo fl p)) := by
  have hpar := (parity_of_fm (fl := fl) (p := p))
  have hk : Impl.flipMask1 fl (p.1 + -1, p.2 + 0) = true := by
    cases fl
    · have := hpar.1 hf; exact fm_odd false _ _ (by omega)
    · have := hpar.2 hf; exact fm_even true _ _ (by omega)
  rw [coordTri_up h side xo yo fl p hf, coordTri_down _ _ _ _ fl _ hk]
  simp only [swap02, refl1, vsub, vadd]
  push_cast
  congr 1 <;> ext <;> simp only <;> ring

theorem nb_up_0m1 (hf : Impl.flipMask1 fl p = false) :
    coordTri' h side xo yo fl (p.1 + 0, p.2 + -1) = swap12 (refl0 (coordTri' h side xo yo fl p)) := by
  have hpar := (parity_of_fm (fl := fl) (p := p))
  have hk : Impl.flipMask1 fl (p.1 + 0, p.2 + -1) = true := by
    cases fl
    · have := hpar.1 hf; exact fm_odd false _ _ (by omega)
    · have := hpar.2 hf; exact fm_even true _ _ (by omega)
  rw [coordTri_up h side xo yo fl p hf, coordTri_down _ _ _ _ fl _ hk]
  simp only [swap12, refl0, vsub, vadd]
  push_cast
  congr 1 <;> ext <;> simp only <;> ring

theorem nb_down_10 (hf : Impl.flipMask1 fl p = true) :
    coordTri' h side xo yo fl (p.1 + 1, p.2 + 0) = swap02 (refl1 (coordTri' h side xo yo fl p)) := by
  have hpar := (parity_of_fm (fl := fl) (p := p))
  have hk : Impl.flipMask1 fl (p.1 + 1, p.2 + 0) = false := by
    cases fl
    · have := hpar.2 hf; exact fm_even false _ _ (by omega)
    · have := hpar.1 hf; exact fm_odd true _ _ (by omega)
  rw [coordTri_down h side xo yo fl p hf, coordTri_up _ _ _ _ fl _ hk]
  simp only [swap02, refl1, vsub, vadd]
  push_cast
  congr 1 <;> ext <;> simp only <;> ring

theorem nb_down_m10 (hf : Impl.flipMask1 fl p = true) :
    coordTri' h side xo yo fl (p.1 + -1, p.2 + 0) = swap01 (refl2 (coordTri' h side xo yo fl p)) := by
  have hpar := (parity_of_fm (fl := fl) (p := p))
  have hk : Impl.flipMask1 fl (p.1 + -1, p.2 + 0) = false := by
    cases fl
    · have := hpar.2 hf; exact fm_even false _ _ (by omega)
    · have := hpar.1 hf; exact fm_odd true _ _ (by omega)
  rw [coordTri_down h side xo yo fl p hf, coordTri_up _ _ _ _ fl _ hk]
  simp only [swap01, refl2, vsub, vadd]
  push_cast
  congr 1 <;> ext <;> simp only <;> ring

theorem nb_down_01 (hf : Impl.flipMask1 fl p = true) :
    coordTri' h side xo yo fl (p.1 + 0, p.2 + 1) = swap12 (refl0 (coordTri' h side xo yo fl p)) := by
  have hpar := (parity_of_fm (fl := fl) (p := p))
  have hk : Impl.flipMask1 fl (p.1 + 0, p.2 + 1) = false := by
    cases fl
    · have := hpar.2 hf; exact fm_even false _ _ (by omega)
    · have := hpar.1 hf; exact fm_odd true _ _ (by omega)
  rw [coordTri_down h side xo yo fl p hf, coordTri_up _ _ _ _ fl _ hk]
  simp only [swap12, refl0, vsub, vadd]
  push_cast
  congr 1 <;> ext <;> simp only <;> ring

end kids

end field

end Model
