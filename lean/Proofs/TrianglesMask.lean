/-
Proofs/TrianglesMask.lean — containment masks of `shape.py` (property C20, clause d):
`Point.mask` is exactly "the point lies in the closed, non-degenerate triangle"; every other shape's
mask is a disjunction with that test at the shape's reference point.
-/
import Model.Triangles
import Proofs.Triangles
import Mathlib.Tactic.Ring
import Mathlib.Tactic.Linarith
import Mathlib.Tactic.FieldSimp
import Mathlib.Tactic.LinearCombination
import Mathlib.Algebra.Order.Field.Basic

set_option linter.unusedSectionVars false
set_option linter.unusedSimpArgs false

namespace Model

open Impl

section field
variable {α : Type} [Field α] [LinearOrder α] [IsStrictOrderedRing α]

theorem isZero_iff (d : α) : Impl.isZero d = true ↔ d = 0 := by
  simp only [Impl.isZero, Bool.and_eq_true, Bool.not_eq_true', decide_eq_false_iff_not, not_lt]
  constructor
  · rintro ⟨h1, h2⟩; exact le_antisymm h2 h1
  · rintro rfl; exact ⟨le_refl _, le_refl _⟩

theorem le_iff (a b : α) : Impl.le a b = true ↔ a ≤ b := by
  simp [Impl.le]

/-- the denominator of `Point.mask` is twice the signed area. -/
theorem pointMask_den (t : Tri α) :
    (t.v1.2 - t.v2.2) * (t.v0.1 - t.v2.1) + (t.v2.1 - t.v1.1) * (t.v0.2 - t.v2.2)
      = twiceSignedArea t := by
  unfold twiceSignedArea; ring

/-- `Point.mask` unfolded. -/
theorem pointMask_iff (px py : α) (t : Tri α) :
    Impl.pointMask px py t = true ↔
      twiceSignedArea t ≠ 0 ∧
      let a := ((t.v1.2 - t.v2.2) * (px - t.v2.1) + (t.v2.1 - t.v1.1) * (py - t.v2.2)) / twiceSignedArea t
      let b := ((t.v2.2 - t.v0.2) * (px - t.v2.1) + (t.v0.1 - t.v2.1) * (py - t.v2.2)) / twiceSignedArea t
      0 ≤ a ∧ a ≤ 1 ∧ 0 ≤ b ∧ b ≤ 1 ∧ 0 ≤ 1 - a - b ∧ 1 - a - b ≤ 1 := by
  unfold Impl.pointMask
  simp only [pointMask_den]
  by_cases hz : twiceSignedArea t = 0
  · have : Impl.isZero (twiceSignedArea t) = true := (isZero_iff _).mpr hz
    rw [if_pos this]
    simp [hz]
  · have : Impl.isZero (twiceSignedArea t) = false := by
      cases h : Impl.isZero (twiceSignedArea t) with
      | false => rfl
      | true => exact absurd ((isZero_iff _).mp h) hz
    simp only [this, Bool.false_eq_true, if_false, Bool.and_eq_true, le_iff, ne_eq, hz,
      not_false_eq_true, true_and]
    tauto

/-- (d, completeness) a point of the closed non-degenerate triangle is reported. -/
theorem pointMask_of_inTri {t : Tri α} (hd : twiceSignedArea t ≠ 0) {p : α × α} (hp : InTri t p) :
    Impl.pointMask p.1 p.2 t = true := by
  obtain ⟨a, b, c, ha, hb, hc, hs, rfl⟩ := hp
  rw [pointMask_iff]
  refine ⟨hd, ?_⟩
  have hcc : c = 1 - a - b := by linarith
  subst hcc
  have ea : ((t.v1.2 - t.v2.2) * ((t.point a b (1 - a - b)).1 - t.v2.1)
      + (t.v2.1 - t.v1.1) * ((t.point a b (1 - a - b)).2 - t.v2.2)) / twiceSignedArea t = a := by
    rw [div_eq_iff hd]
    simp only [Tri.point, twiceSignedArea]; ring
  have eb : ((t.v2.2 - t.v0.2) * ((t.point a b (1 - a - b)).1 - t.v2.1)
      + (t.v0.1 - t.v2.1) * ((t.point a b (1 - a - b)).2 - t.v2.2)) / twiceSignedArea t = b := by
    rw [div_eq_iff hd]
    simp only [Tri.point, twiceSignedArea]; ring
  simp only [ea, eb]
  refine ⟨ha, by linarith, hb, by linarith, hc, by linarith⟩

/-- (d, soundness of the point test) a reported triangle is non-degenerate and contains the point. -/
theorem inTri_of_pointMask {t : Tri α} {px py : α} (h : Impl.pointMask px py t = true) :
    twiceSignedArea t ≠ 0 ∧ InTri t (px, py) := by
  rw [pointMask_iff] at h
  obtain ⟨hd, h0a, _, h0b, _, h0c, _⟩ := h
  refine ⟨hd, _, _, _, h0a, h0b, h0c, by ring, ?_⟩
  simp only [Tri.point]
  ext
  · simp only
    field_simp
    unfold twiceSignedArea
    ring
  · simp only
    field_simp
    unfold twiceSignedArea
    ring

/-- (d) every shape's mask is true whenever its reference point lies in the closed non-degenerate
    triangle. -/
theorem shapeMask_of_ref_inTri (s : Impl.Shape α) {t : Tri α} (hd : twiceSignedArea t ≠ 0)
    (hp : InTri t s.ref) : s.mask t = true := by
  have hpm := pointMask_of_inTri hd hp
  cases s with
  | point x y => simpa [Impl.Shape.mask, Impl.Shape.ref] using hpm
  | circle x y r =>
    simp only [Impl.Shape.mask, Impl.circleMask, Bool.or_eq_true]
    right; simpa [Impl.Shape.ref] using hpm
  | square top bottom left right =>
    simp only [Impl.Shape.mask, Impl.squareMask, Bool.or_eq_true]
    right; simpa [Impl.Shape.ref] using hpm
  | polygon vs =>
    simp only [Impl.Shape.mask, Impl.polygonMask, Bool.or_eq_true]
    right; simpa [Impl.Shape.ref] using hpm

theorem mem_containingIndices (s : Impl.Shape α) (ts : List (Tri α)) (i : Nat) :
    i ∈ Impl.containingIndices s ts ↔ ∃ t, ts[i]? = some t ∧ s.mask t = true := by
  unfold Impl.containingIndices
  simp only [List.mem_filter, List.mem_range]
  constructor
  · rintro ⟨hi, h⟩
    rw [List.getElem?_eq_getElem hi] at h
    exact ⟨ts[i], List.getElem?_eq_getElem hi, h⟩
  · rintro ⟨t, ht, hm⟩
    have hi : i < ts.length := by
      by_contra hc
      rw [List.getElem?_eq_none (by omega)] at ht
      cases ht
    refine ⟨hi, ?_⟩
    rw [ht]; exact hm

end field

end Model
