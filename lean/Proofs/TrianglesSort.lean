/-
Proofs/TrianglesSort.lean — `np.unique(axis=0, return_inverse=True)` as modelled by `sortUniq` /
`indexIn`: the de-duplicated table has exactly the members of the input, and gathering through the
inverse indices gives the input back.  Hence `reindex` (the re-indexing every ArrayTriangles method
ends with) does not change the triangles.  Core Lean + order lemmas.
-/
import Model.Triangles
import Mathlib.Order.Basic
import Mathlib.Order.Defs.LinearOrder
import Mathlib.Algebra.Order.Field.Basic

set_option linter.unusedSectionVars false
set_option linter.unusedSimpArgs false

namespace Model

/-- the comparison is antisymmetric in the sense needed for de-duplication. -/
def LtAntisymm (lt : β → β → Bool) : Prop := ∀ a b, lt a b = false → lt b a = false → a = b

theorem mem_insertUniq {lt : β → β → Bool} (h : LtAntisymm lt) (x y : β) (l : List β) :
    y ∈ insertUniq lt x l ↔ y = x ∨ y ∈ l := by
  induction l with
  | nil => simp [insertUniq]
  | cons a l ih =>
    unfold insertUniq
    by_cases h1 : lt x a = true
    · simp [h1]
    · by_cases h2 : lt a x = true
      · simp only [h1, h2, if_true, Bool.false_eq_true, if_false, List.mem_cons, ih]
        constructor
        · rintro (h | h | h)
          · exact Or.inr (Or.inl h)
          · exact Or.inl h
          · exact Or.inr (Or.inr h)
        · rintro (h | h | h)
          · exact Or.inr (Or.inl h)
          · exact Or.inl h
          · exact Or.inr (Or.inr h)
      · have e : x = a := h x a (by simpa using h1) (by simpa using h2)
        simp only [h1, h2, Bool.false_eq_true, if_false, List.mem_cons]
        constructor
        · intro h; exact Or.inr h
        · rintro (h | h)
          · left; rw [h, e]
          · exact h

theorem mem_sortUniq {lt : β → β → Bool} (h : LtAntisymm lt) (y : β) (l : List β) :
    y ∈ sortUniq lt l ↔ y ∈ l := by
  induction l with
  | nil => simp [sortUniq]
  | cons a l ih =>
    have : sortUniq lt (a :: l) = insertUniq lt a (sortUniq lt l) := rfl
    rw [this, mem_insertUniq h, ih]
    simp

/-- the inverse index of a member points at that member. -/
theorem getElem?_indexIn {lt : β → β → Bool} (h : LtAntisymm lt) (hirr : ∀ a, lt a a = false)
    (x : β) (u : List β) (hx : x ∈ u) :
    u[indexIn lt x u]? = some x := by
  induction u with
  | nil => cases hx
  | cons a u ih =>
    unfold indexIn
    by_cases he : (!lt x a && !lt a x) = true
    · simp only [he, if_true, List.getElem?_cons_zero]
      simp only [Bool.and_eq_true, Bool.not_eq_true'] at he
      rw [h x a he.1 he.2]
    · simp only [he, Bool.false_eq_true, if_false, List.getElem?_cons_succ]
      rcases List.mem_cons.mp hx with rfl | hx
      · exfalso
        apply he
        simp [hirr x]
      · exact ih hx

section pairs
variable {α : Type} [LinearOrder α]

theorem ltPair_antisymm : LtAntisymm (Impl.ltPair (α := α)) := by
  intro a b h1 h2
  simp only [Impl.ltPair, Bool.or_eq_false_iff, decide_eq_false_iff_not, Bool.and_eq_false_imp,
    Bool.not_eq_true', decide_eq_false_iff_not, not_lt] at h1 h2
  have e1 : a.1 = b.1 := le_antisymm h2.1 h1.1
  have h1' := h1.2 (by simpa using h2.1)
  have h2' := h2.2 (by simpa using h1.1)
  exact Prod.ext e1 (le_antisymm (by simpa using h2') (by simpa using h1'))

theorem ltPair_irrefl (a : α × α) : Impl.ltPair a a = false := by
  simp [Impl.ltPair]

end pairs

theorem ltInt2_antisymm : LtAntisymm Impl.ltInt2 := by
  intro a b h1 h2
  simp only [Impl.ltInt2, Bool.or_eq_false_iff, decide_eq_false_iff_not, Bool.and_eq_false_imp,
    beq_iff_eq] at h1 h2
  have e1 : a.1 = b.1 := by omega
  have h1' := h1.2 e1
  have h2' := h2.2 e1.symm
  exact Prod.ext e1 (by omega)

theorem ltNat3_antisymm : LtAntisymm Impl.ltNat3 := by
  intro a b h1 h2
  obtain ⟨a1, a2, a3⟩ := a
  obtain ⟨b1, b2, b3⟩ := b
  simp only [Impl.ltNat3, Bool.or_eq_false_iff, decide_eq_false_iff_not, Bool.and_eq_false_imp,
    beq_iff_eq] at h1 h2
  have e1 : a1 = b1 := by omega
  have h1' := h1.2 e1
  have h2' := h2.2 e1.symm
  have e2 : a2 = b2 := by omega
  have e3 : a3 = b3 := by
    have := h1'.2 e2
    have := h2'.2 e2.symm
    omega
  subst e1; subst e2; subst e3; rfl

/-! ### `reindex` is faithful -/

section reindex
variable {α : Type} [Field α] [LinearOrder α]

theorem rows3_flat (f : α × α → Nat) (ts : List (Tri α)) :
    Impl.rows3 ((Impl.flatVerts ts).map f) = ts.map fun t => (f t.v0, f t.v1, f t.v2) := by
  induction ts with
  | nil => simp [Impl.flatVerts, Impl.rows3]
  | cons t ts ih =>
    have : Impl.flatVerts (t :: ts) = t.v0 :: t.v1 :: t.v2 :: Impl.flatVerts ts := by
      simp [Impl.flatVerts, Tri.verts]
    rw [this]
    simp only [List.map_cons, Impl.rows3]
    rw [ih]

/-- `vertices[indices]` of the re-indexed structure is the list of triangles that went in. -/
theorem reindex_triangles (ts : List (Tri α)) : (Impl.reindex ts).triangles = ts := by
  unfold Impl.reindex Impl.ArrTris.triangles
  simp only
  rw [rows3_flat, List.map_map]
  have hmem : ∀ t ∈ ts, ∀ v ∈ t.verts, v ∈ sortUniq Impl.ltPair (Impl.flatVerts ts) := by
    intro t ht v hv
    exact (mem_sortUniq ltPair_antisymm v _).mpr
      (List.mem_flatMap.mpr ⟨t, ht, hv⟩)
  conv => rhs; rw [← List.map_id ts]
  apply List.map_congr_left
  intro t ht
  have g : ∀ v ∈ t.verts,
      (sortUniq Impl.ltPair (Impl.flatVerts ts)).getD
        (indexIn Impl.ltPair v (sortUniq Impl.ltPair (Impl.flatVerts ts))) (0, 0) = v := by
    intro v hv
    rw [List.getD_eq_getElem?_getD,
      getElem?_indexIn ltPair_antisymm ltPair_irrefl v _ (hmem t ht v hv)]
    rfl
  simp only [Function.comp, id]
  rw [g t.v0 (by simp [Tri.verts]), g t.v1 (by simp [Tri.verts]), g t.v2 (by simp [Tri.verts])]

end reindex

end Model
