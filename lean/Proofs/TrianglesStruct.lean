/-
Proofs/TrianglesStruct.lean — the set-level structure of the ArrayTriangles / CoordinateArrayTriangles
methods (property C20): what `up_sample`, `neighborhood`, `for_indexes`, `with_vertices` return, in
terms of the raw geometric constructions of Proofs/Triangles.lean and Proofs/TrianglesCoord.lean.
-/
import Model.Triangles
import Proofs.Triangles
import Proofs.TrianglesSort
import Proofs.TrianglesCoord
import Mathlib.Algebra.Order.Field.Basic

set_option linter.unusedSectionVars false
set_option linter.unusedSimpArgs false

namespace Model

open Impl

/-! ### three-element permutations -/

theorem perm3_swap01 (x y z : β) : [y, x, z].Perm [x, y, z] := List.Perm.swap _ _ _
theorem perm3_swap12 (x y z : β) : [x, z, y].Perm [x, y, z] := List.Perm.cons _ (List.Perm.swap _ _ _)
theorem perm3_swap02 (x y z : β) : [z, y, x].Perm [x, y, z] :=
  ((List.Perm.swap _ _ _).trans (List.Perm.cons _ (List.Perm.swap _ _ _))).trans (List.Perm.swap _ _ _)
theorem perm3_rot1 (x y z : β) : [y, z, x].Perm [x, y, z] :=
  (List.Perm.cons y (List.Perm.swap x z [])).trans (List.Perm.swap x y [z])
theorem perm3_rot2 (x y z : β) : [z, x, y].Perm [x, y, z] :=
  (List.Perm.swap x z [y]).trans (List.Perm.cons x (List.Perm.swap y z []))

/-- `np.sort` of an index row only permutes it. -/
theorem sort3_perm (f : Nat → β) (r : Nat × Nat × Nat) :
    [f (Impl.sort3 r).1, f (Impl.sort3 r).2.1, f (Impl.sort3 r).2.2].Perm [f r.1, f r.2.1, f r.2.2] := by
  obtain ⟨a, b, c⟩ := r
  simp only [Impl.sort3]
  split_ifs <;>
    first
      | exact List.Perm.refl _
      | exact perm3_swap01 _ _ _
      | exact perm3_swap12 _ _ _
      | exact perm3_swap02 _ _ _
      | exact perm3_rot1 _ _ _
      | exact perm3_rot2 _ _ _

section field
variable {α : Type} [Field α] [LinearOrder α] [IsStrictOrderedRing α]

/-- `vertices[row]`. -/
def gatherTri (vs : List (α × α)) (i : Nat × Nat × Nat) : Tri α :=
  ⟨vs.getD i.1 (0, 0), vs.getD i.2.1 (0, 0), vs.getD i.2.2 (0, 0)⟩

theorem triangles_eq_map (a : Impl.ArrTris α) : a.triangles = a.indices.map (gatherTri a.vertices) := rfl

/-- (a) `ArrayTriangles.up_sample` returns exactly the four blocks of midpoint children. -/
theorem upSample_triangles (a : Impl.ArrTris α) :
    a.upSample.triangles = Impl.upSampleRaw a.triangles := reindex_triangles _

/-- (d) `ArrayTriangles.for_indexes` returns the selected triangles, in the order selected. -/
theorem forIndexes_triangles (a : Impl.ArrTris α) (idx : List Nat) (hidx : ∀ k ∈ idx, k < a.indices.length) :
    (a.forIndexes idx).triangles.map some = idx.map fun k => a.triangles[k]? := by
  unfold Impl.ArrTris.forIndexes
  rw [reindex_triangles, triangles_eq_map]
  simp only [List.map_map]
  apply List.map_congr_left
  intro k hk
  have := hidx k hk
  simp [List.getD_eq_getElem?_getD, this, gatherTri]

/-- (d) `with_vertices` keeps the index rows. -/
theorem withVertices_self (a : Impl.ArrTris α) : (a.withVertices a.vertices).triangles = a.triangles := rfl

/-- (c) `ArrayTriangles.neighborhood`: up to vertex order, its triangles are exactly the members of
    `_neighborhood_triangles` (the set together with the three reflections of each member). -/
theorem neighborhood_triangles (a : Impl.ArrTris α) (t : Tri α) :
    (∃ t' ∈ a.neighborhood.triangles, SameTri t t')
      ↔ ∃ s ∈ Impl.neighborhoodRaw a.triangles, SameTri t s := by
  have hr := reindex_triangles (Impl.neighborhoodRaw a.triangles)
  rw [triangles_eq_map] at hr
  generalize hR : Impl.reindex (Impl.neighborhoodRaw a.triangles) = R at hr
  have hN : a.neighborhood.triangles
      = (sortUniq Impl.ltNat3 (R.indices.map Impl.sort3)).map (gatherTri R.vertices) := by
    unfold Impl.ArrTris.neighborhood
    simp only [hR]
    rfl
  have hsame : ∀ i, SameTri (gatherTri R.vertices (Impl.sort3 i)) (gatherTri R.vertices i) := by
    intro i
    exact sort3_perm (fun k => R.vertices.getD k (0, 0)) i
  rw [hN, ← hr]
  constructor
  · rintro ⟨t', ht', hs⟩
    obtain ⟨j, hj, rfl⟩ := List.mem_map.mp ht'
    rw [mem_sortUniq ltNat3_antisymm] at hj
    obtain ⟨i, hi, rfl⟩ := List.mem_map.mp hj
    exact ⟨gatherTri R.vertices i, List.mem_map_of_mem hi, hs.trans (hsame i)⟩
  · rintro ⟨s, hs, hss⟩
    obtain ⟨i, hi, rfl⟩ := List.mem_map.mp hs
    refine ⟨gatherTri R.vertices (Impl.sort3 i), ?_, hss.trans (hsame i).symm⟩
    apply List.mem_map_of_mem
    rw [mem_sortUniq ltNat3_antisymm]
    exact List.mem_map_of_mem hi

/-! ### coordinate form -/

/-- the integer children of one coordinate, as `CoordinateArrayTriangles.up_sample` lists them. -/
def kids (fl : Bool) (p : Int × Int) : List (Int × Int) :=
  if Impl.flipMask1 fl p then
    [(2 * p.1 + 0, 2 * p.2 + 0), (2 * p.1 + 1, 2 * p.2 + 1), (2 * p.1 + -1, 2 * p.2 + 1), (2 * p.1 + 0, 2 * p.2 + 1)]
  else
    [(2 * p.1 + 0, 2 * p.2 + 0), (2 * p.1 + 1, 2 * p.2 + 0), (2 * p.1 + -1, 2 * p.2 + 0), (2 * p.1 + 0, 2 * p.2 + 1)]

/-- the integer neighbours (and the coordinate itself), as `neighborhood` lists them. -/
def nbs (fl : Bool) (p : Int × Int) : List (Int × Int) :=
  if Impl.flipMask1 fl p then
    [(p.1 + 0, p.2 + 0), (p.1 + 1, p.2 + 0), (p.1 + -1, p.2 + 0), (p.1 + 0, p.2 + 1)]
  else
    [(p.1 + 0, p.2 + 0), (p.1 + 1, p.2 + 0), (p.1 + -1, p.2 + 0), (p.1 + 0, p.2 + -1)]

theorem upSample_fields (h : α) (c : Impl.CoordTris α) :
    (c.upSample h).side = c.side / 2 ∧ (c.upSample h).xOff = c.xOff
      ∧ (c.upSample h).yOff = c.yOff + -(h * c.side / 4) ∧ (c.upSample h).flipped = true :=
  ⟨rfl, rfl, rfl, rfl⟩

theorem mem_upSample_coords (h : α) (c : Impl.CoordTris α) (k : Int × Int) :
    k ∈ (c.upSample h).coords ↔ ∃ p ∈ c.coords, k ∈ kids c.flipped p := by
  simp only [Impl.CoordTris.upSample, List.mem_append, List.mem_map, List.mem_filter, kids]
  constructor
  · rintro ((((⟨p, ⟨hp, hf⟩, rfl⟩ | ⟨p, ⟨hp, hf⟩, rfl⟩) | ⟨p, ⟨hp, hf⟩, rfl⟩) | ⟨p, ⟨hp, hf⟩, rfl⟩)
        | (((⟨p, ⟨hp, hf⟩, rfl⟩ | ⟨p, ⟨hp, hf⟩, rfl⟩) | ⟨p, ⟨hp, hf⟩, rfl⟩) | ⟨p, ⟨hp, hf⟩, rfl⟩)) <;>
      refine ⟨p, hp, ?_⟩ <;> simp_all
  · rintro ⟨p, hp, hk⟩
    by_cases hf : Impl.flipMask1 c.flipped p = true
    · simp only [hf, if_true, List.mem_cons, List.not_mem_nil, or_false] at hk
      right
      rcases hk with rfl | rfl | rfl | rfl
      · exact Or.inl (Or.inl (Or.inl ⟨p, ⟨hp, hf⟩, rfl⟩))
      · exact Or.inl (Or.inl (Or.inr ⟨p, ⟨hp, hf⟩, rfl⟩))
      · exact Or.inl (Or.inr ⟨p, ⟨hp, hf⟩, rfl⟩)
      · exact Or.inr ⟨p, ⟨hp, hf⟩, rfl⟩
    · have hf' : Impl.flipMask1 c.flipped p = false := by simpa using hf
      simp only [hf', Bool.false_eq_true, if_false, List.mem_cons, List.not_mem_nil, or_false] at hk
      left
      rcases hk with rfl | rfl | rfl | rfl
      · exact Or.inl (Or.inl (Or.inl ⟨p, ⟨hp, by simp [hf']⟩, rfl⟩))
      · exact Or.inl (Or.inl (Or.inr ⟨p, ⟨hp, by simp [hf']⟩, rfl⟩))
      · exact Or.inl (Or.inr ⟨p, ⟨hp, by simp [hf']⟩, rfl⟩)
      · exact Or.inr ⟨p, ⟨hp, by simp [hf']⟩, rfl⟩

theorem filter_length_add (l : List β) (f : β → Bool) :
    (l.filter fun p => !f p).length + (l.filter f).length = l.length := by
  induction l with
  | nil => simp
  | cons a l ih =>
    simp only [List.filter_cons]
    cases f a <;> simp <;> omega

/-- (a/b) the count quadruples in the coordinate form too. -/
theorem upSample_coords_length (h : α) (c : Impl.CoordTris α) :
    (c.upSample h).coords.length = 4 * c.coords.length := by
  have h1 := filter_length_add c.coords (Impl.flipMask1 c.flipped)
  have h2 : (c.coords.filter fun p => Impl.flipMask1 c.flipped p)
      = c.coords.filter (Impl.flipMask1 c.flipped) := rfl
  simp only [Impl.CoordTris.upSample, List.length_append, List.length_map, h2]
  omega

/-- (b) each integer child's triangle is one of the four midpoint children of the parent's triangle
    (same vertices), and each midpoint child arises so. -/
theorem kids_same (h : α) (c : Impl.CoordTris α) (p : Int × Int) :
    (∀ k ∈ kids c.flipped p, ∃ s ∈ children (Impl.coordTri h c p),
        SameTri (Impl.coordTri h (c.upSample h) k) s)
    ∧ (∀ s ∈ children (Impl.coordTri h c p), ∃ k ∈ kids c.flipped p,
        SameTri (Impl.coordTri h (c.upSample h) k) s) := by
  have hk : ∀ k, Impl.coordTri h (c.upSample h) k = kidTri h c.side c.xOff c.yOff k := fun k => rfl
  rw [coordTri_eq h c p]
  simp only [hk, kids, children]
  by_cases hf : Impl.flipMask1 c.flipped p = true
  · simp only [hf, if_true, List.mem_cons, List.not_mem_nil, or_false]
    have e0 := kid_down_00 h c.side c.xOff c.yOff c.flipped p hf
    have e1 := kid_down_11 h c.side c.xOff c.yOff c.flipped p hf
    have e2 := kid_down_m11 h c.side c.xOff c.yOff c.flipped p hf
    have e3 := kid_down_01 h c.side c.xOff c.yOff c.flipped p hf
    constructor
    · rintro k (rfl | rfl | rfl | rfl)
      · exact ⟨_, Or.inr (Or.inr (Or.inr rfl)), by rw [e0]; exact SameTri.refl _⟩
      · exact ⟨_, Or.inr (Or.inl rfl), by rw [e1]; exact sameTri_rot1 _⟩
      · exact ⟨_, Or.inl rfl, by rw [e2]; exact sameTri_rot2 _⟩
      · exact ⟨_, Or.inr (Or.inr (Or.inl rfl)), by rw [e3]; exact sameTri_rot1 _⟩
    · rintro s (rfl | rfl | rfl | rfl)
      · exact ⟨_, Or.inr (Or.inr (Or.inl rfl)), by rw [e2]; exact sameTri_rot2 _⟩
      · exact ⟨_, Or.inr (Or.inl rfl), by rw [e1]; exact sameTri_rot1 _⟩
      · exact ⟨_, Or.inr (Or.inr (Or.inr rfl)), by rw [e3]; exact sameTri_rot1 _⟩
      · exact ⟨_, Or.inl rfl, by rw [e0]; exact SameTri.refl _⟩
  · have hf' : Impl.flipMask1 c.flipped p = false := by simpa using hf
    simp only [hf', Bool.false_eq_true, if_false, List.mem_cons, List.not_mem_nil, or_false]
    have e0 := kid_up_00 h c.side c.xOff c.yOff c.flipped p hf'
    have e1 := kid_up_10 h c.side c.xOff c.yOff c.flipped p hf'
    have e2 := kid_up_m10 h c.side c.xOff c.yOff c.flipped p hf'
    have e3 := kid_up_01 h c.side c.xOff c.yOff c.flipped p hf'
    constructor
    · rintro k (rfl | rfl | rfl | rfl)
      · exact ⟨_, Or.inr (Or.inr (Or.inl rfl)), by rw [e0]; exact sameTri_rot1 _⟩
      · exact ⟨_, Or.inl rfl, by rw [e1]; exact sameTri_rot2 _⟩
      · exact ⟨_, Or.inr (Or.inl rfl), by rw [e2]; exact sameTri_rot1 _⟩
      · exact ⟨_, Or.inr (Or.inr (Or.inr rfl)), by rw [e3]; exact SameTri.refl _⟩
    · rintro s (rfl | rfl | rfl | rfl)
      · exact ⟨_, Or.inr (Or.inl rfl), by rw [e1]; exact sameTri_rot2 _⟩
      · exact ⟨_, Or.inr (Or.inr (Or.inl rfl)), by rw [e2]; exact sameTri_rot1 _⟩
      · exact ⟨_, Or.inl rfl, by rw [e0]; exact sameTri_rot1 _⟩
      · exact ⟨_, Or.inr (Or.inr (Or.inr rfl)), by rw [e3]; exact SameTri.refl _⟩

/-- (b) set-level statement: the triangles of the up-sampled coordinate set are, up to vertex order,
    exactly the midpoint children of the triangles of the original set. -/
theorem coord_upSample_triangles (h : α) (c : Impl.CoordTris α) (t : Tri α) :
    (∃ t' ∈ (c.upSample h).triangles h, SameTri t t')
      ↔ ∃ s ∈ Impl.upSampleRaw (c.triangles h), SameTri t s := by
  simp only [Impl.CoordTris.triangles, mem_upSampleRaw, List.mem_map]
  constructor
  · rintro ⟨t', ⟨k, hk, rfl⟩, hs⟩
    obtain ⟨p, hp, hkp⟩ := (mem_upSample_coords h c k).mp hk
    obtain ⟨s, hsm, hss⟩ := (kids_same h c p).1 k hkp
    exact ⟨s, ⟨_, ⟨p, hp, rfl⟩, hsm⟩, hs.trans hss⟩
  · rintro ⟨s, ⟨_, ⟨p, hp, rfl⟩, hsm⟩, hs⟩
    obtain ⟨k, hk, hks⟩ := (kids_same h c p).2 s hsm
    exact ⟨_, ⟨k, (mem_upSample_coords h c k).mpr ⟨p, hp, hk⟩, rfl⟩, hs.trans hks.symm⟩

theorem mem_neighborhood_coords (c : Impl.CoordTris α) (k : Int × Int) :
    k ∈ c.neighborhood.coords ↔ ∃ p ∈ c.coords, k ∈ nbs c.flipped p := by
  simp only [Impl.CoordTris.neighborhood, mem_sortUniq ltInt2_antisymm, List.mem_append, List.mem_map,
    List.mem_filter, nbs]
  constructor
  · rintro ((((⟨p, ⟨hp, hf⟩, rfl⟩ | ⟨p, ⟨hp, hf⟩, rfl⟩) | ⟨p, ⟨hp, hf⟩, rfl⟩) | ⟨p, ⟨hp, hf⟩, rfl⟩)
        | (((⟨p, ⟨hp, hf⟩, rfl⟩ | ⟨p, ⟨hp, hf⟩, rfl⟩) | ⟨p, ⟨hp, hf⟩, rfl⟩) | ⟨p, ⟨hp, hf⟩, rfl⟩)) <;>
      refine ⟨p, hp, ?_⟩ <;> simp_all
  · rintro ⟨p, hp, hk⟩
    by_cases hf : Impl.flipMask1 c.flipped p = true
    · simp only [hf, if_true, List.mem_cons, List.not_mem_nil, or_false] at hk
      right
      rcases hk with rfl | rfl | rfl | rfl
      · exact Or.inl (Or.inl (Or.inl ⟨p, ⟨hp, hf⟩, rfl⟩))
      · exact Or.inl (Or.inl (Or.inr ⟨p, ⟨hp, hf⟩, rfl⟩))
      · exact Or.inl (Or.inr ⟨p, ⟨hp, hf⟩, rfl⟩)
      · exact Or.inr ⟨p, ⟨hp, hf⟩, rfl⟩
    · have hf' : Impl.flipMask1 c.flipped p = false := by simpa using hf
      simp only [hf', Bool.false_eq_true, if_false, List.mem_cons, List.not_mem_nil, or_false] at hk
      left
      rcases hk with rfl | rfl | rfl | rfl
      · exact Or.inl (Or.inl (Or.inl ⟨p, ⟨hp, by simp [hf']⟩, rfl⟩))
      · exact Or.inl (Or.inl (Or.inr ⟨p, ⟨hp, by simp [hf']⟩, rfl⟩))
      · exact Or.inl (Or.inr ⟨p, ⟨hp, by simp [hf']⟩, rfl⟩)
      · exact Or.inr ⟨p, ⟨hp, by simp [hf']⟩, rfl⟩

/-- the triangle and its three reflections. -/
def withRefls (t : Tri α) : List (Tri α) := [t, refl0 t, refl1 t, refl2 t]

/-- (c) each integer neighbour's triangle is the parent's triangle or one of its three edge
    reflections (same vertices), and each of those arises so. -/
theorem nbs_same (h : α) (c : Impl.CoordTris α) (p : Int × Int) :
    (∀ k ∈ nbs c.flipped p, ∃ s ∈ withRefls (Impl.coordTri h c p), SameTri (Impl.coordTri h c k) s)
    ∧ (∀ s ∈ withRefls (Impl.coordTri h c p), ∃ k ∈ nbs c.flipped p, SameTri (Impl.coordTri h c k) s) := by
  have hself : Impl.coordTri h c (p.1 + 0, p.2 + 0) = Impl.coordTri h c p := by
    have : (p.1 + 0, p.2 + 0) = p := by ext <;> simp
    rw [this]
  simp only [coordTri_eq h c] at hself ⊢
  simp only [nbs, withRefls]
  by_cases hf : Impl.flipMask1 c.flipped p = true
  · simp only [hf, if_true, List.mem_cons, List.not_mem_nil, or_false]
    have e1 := nb_down_10 h c.side c.xOff c.yOff c.flipped p hf
    have e2 := nb_down_m10 h c.side c.xOff c.yOff c.flipped p hf
    have e3 := nb_down_01 h c.side c.xOff c.yOff c.flipped p hf
    constructor
    · rintro k (rfl | rfl | rfl | rfl)
      · exact ⟨_, Or.inl rfl, by rw [hself]; exact SameTri.refl _⟩
      · exact ⟨_, Or.inr (Or.inr (Or.inl rfl)), by rw [e1]; exact sameTri_swap02 _⟩
      · exact ⟨_, Or.inr (Or.inr (Or.inr rfl)), by rw [e2]; exact sameTri_swap01 _⟩
      · exact ⟨_, Or.inr (Or.inl rfl), by rw [e3]; exact sameTri_swap12 _⟩
    · rintro s (rfl | rfl | rfl | rfl)
      · exact ⟨_, Or.inl rfl, by rw [hself]; exact SameTri.refl _⟩
      · exact ⟨_, Or.inr (Or.inr (Or.inr rfl)), by rw [e3]; exact sameTri_swap12 _⟩
      · exact ⟨_, Or.inr (Or.inl rfl), by rw [e1]; exact sameTri_swap02 _⟩
      · exact ⟨_, Or.inr (Or.inr (Or.inl rfl)), by rw [e2]; exact sameTri_swap01 _⟩
  · have hf' : Impl.flipMask1 c.flipped p = false := by simpa using hf
    simp only [hf', Bool.false_eq_true, if_false, List.mem_cons, List.not_mem_nil, or_false]
    have e1 := nb_up_10 h c.side c.xOff c.yOff c.flipped p hf'
    have e2 := nb_up_m10 h c.side c.xOff c.yOff c.flipped p hf'
    have e3 := nb_up_0m1 h c.side c.xOff c.yOff c.flipped p hf'
    constructor
    · rintro k (rfl | rfl | rfl | rfl)
      · exact ⟨_, Or.inl rfl, by rw [hself]; exact SameTri.refl _⟩
      · exact ⟨_, Or.inr (Or.inr (Or.inr rfl)), by rw [e1]; exact sameTri_swap01 _⟩
      · exact ⟨_, Or.inr (Or.inr (Or.inl rfl)), by rw [e2]; exact sameTri_swap02 _⟩
      · exact ⟨_, Or.inr (Or.inl rfl), by rw [e3]; exact sameTri_swap12 _⟩
    · rintro s (rfl | rfl | rfl | rfl)
      · exact ⟨_, Or.inl rfl, by rw [hself]; exact SameTri.refl _⟩
      · exact ⟨_, Or.inr (Or.inr (Or.inr rfl)), by rw [e3]; exact sameTri_swap12 _⟩
      · exact ⟨_, Or.inr (Or.inr (Or.inl rfl)), by rw [e2]; exact sameTri_swap02 _⟩
      · exact ⟨_, Or.inr (Or.inl rfl), by rw [e1]; exact sameTri_swap01 _⟩

theorem mem_neighborhoodRaw' {ts : List (Tri α)} {x : Tri α} :
    x ∈ Impl.neighborhoodRaw ts ↔ ∃ t ∈ ts, x ∈ withRefls t := by
  rw [mem_neighborhoodRaw]
  simp [withRefls]

/-- (c) set-level statement for the coordinate form. -/
theorem coord_neighborhood_triangles (h : α) (c : Impl.CoordTris α) (t : Tri α) :
    (∃ t' ∈ c.neighborhood.triangles h, SameTri t t')
      ↔ ∃ s ∈ Impl.neighborhoodRaw (c.triangles h), SameTri t s := by
  have hc : ∀ k, Impl.coordTri h c.neighborhood k = Impl.coordTri h c k := fun k => rfl
  simp only [Impl.CoordTris.triangles, mem_neighborhoodRaw', List.mem_map]
  constructor
  · rintro ⟨t', ⟨k, hk, rfl⟩, hs⟩
    obtain ⟨p, hp, hkp⟩ := (mem_neighborhood_coords c k).mp hk
    obtain ⟨s, hsm, hss⟩ := (nbs_same h c p).1 k hkp
    exact ⟨s, ⟨_, ⟨p, hp, rfl⟩, hsm⟩, hs.trans (by rw [hc]; exact hss)⟩
  · rintro ⟨s, ⟨_, ⟨p, hp, rfl⟩, hsm⟩, hs⟩
    obtain ⟨k, hk, hks⟩ := (nbs_same h c p).2 s hsm
    exact ⟨_, ⟨k, (mem_neighborhood_coords c k).mpr ⟨p, hp, hk⟩, rfl⟩,
      hs.trans (by rw [hc]; exact hks.symm)⟩

/-- (d) the array view of a coordinate set (`_vertices_and_indices` + `with_vertices`) has exactly
    the coordinate set's triangles, in order. -/
theorem arrayView_triangles (h : α) (c : Impl.CoordTris α) :
    (c.arrayView h).triangles = c.triangles h := reindex_triangles _

/-- (d) `CoordinateArrayTriangles.for_indexes`. -/
theorem coord_forIndexes_triangles (h : α) (c : Impl.CoordTris α) (idx : List Nat)
    (hidx : ∀ k ∈ idx, k < c.coords.length) :
    ((c.forIndexes idx).triangles h).map some = idx.map fun k => (c.triangles h)[k]? := by
  have hc : ∀ k, Impl.coordTri h (c.forIndexes idx) k = Impl.coordTri h c k := fun k => rfl
  simp only [Impl.CoordTris.triangles, Impl.CoordTris.forIndexes, List.map_map]
  apply List.map_congr_left
  intro k hk
  have := hidx k hk
  simp [List.getD_eq_getElem?_getD, this]
  rfl

/-- `for_limits_and_scale` (coordinate form): the coordinate list is the full integer box
    `[x_shift, int(2·x_max/scale)] × [y_shift − 1, int(y_max/(h·scale)) + 1]`. -/
theorem mem_coordsForLimits (trunc : α → Int) (h xMin xMax yMin yMax scale : α) (k : Int × Int) :
    k ∈ Impl.coordsForLimits trunc h xMin xMax yMin yMax scale ↔
      (trunc (2 * xMin / scale) ≤ k.1 ∧ k.1 ≤ trunc (2 * xMax / scale))
      ∧ (trunc (yMin / (h * scale)) - 1 ≤ k.2 ∧ k.2 ≤ trunc (yMax / (h * scale)) + 1) := by
  obtain ⟨kx, ky⟩ := k
  simp only [Impl.coordsForLimits, List.mem_flatMap, List.mem_map, List.mem_range, Prod.mk.injEq]
  constructor
  · rintro ⟨i, hi, j, hj, rfl, rfl⟩
    simp only [Int.ofNat_eq_natCast]
    omega
  · rintro ⟨⟨h1, h2⟩, h3, h4⟩
    refine ⟨(kx - trunc (2 * xMin / scale)).toNat, by omega,
      (ky - (trunc (yMin / (h * scale)) - 1)).toNat, by omega, ?_, ?_⟩
    · simp only [Int.ofNat_eq_natCast]; omega
    · simp only [Int.ofNat_eq_natCast]; omega

end field

end Model
