/-
Proofs/WTildeMappedC06.lean — the hypothesis `WTildeMapped.Encodes` of the w-tilde mapped-data theorems
(Proofs/NNLSWTildeMapped.lean) is what C06.e proves of the real tables: the output of
`data_slim_to_pixelization_unique_from` (C06's `Impl.uniqueFrom`) encodes the output of `mapping_matrix_from`
(C06's `Impl.mappingMatrix`).  Hence the un-blurred image of the w-tilde route on a mapper's own unique
mappings is `mapping_matrix · s`.

This file lives on the C06 side (imports Proofs/MapperUnique.lean); it shares Model/WTildeMapped.lean and
Proofs/WTildeMappedUnique.lean with the C03 + C05 side but cannot be imported together with it
(`Model.Impl.centralScaled`: Model/Mapper.lean vs Model/MaskSets.lean; `Model.scatter`: Proofs/Mapper.lean vs
Model/NNLS.lean).
-/
import Proofs.WTildeMappedUnique
import Proofs.MapperUnique

namespace Model
namespace WTildeMapped

variable {α : Type} [Field α]

/-- the repeated definition is C06's, literally -/
theorem denseRowOfUnique_eq (d2p : List Int) (dw : List α) (len p : Nat) :
    WTildeMapped.denseRowOfUnique d2p dw len p = Spec.denseRowOfUnique d2p dw len p := rfl

/-- **C06.e ⇒ `Encodes`**: for any mapper tables whose used entries are source-pixel indices `< P`, the three
    arrays returned by `data_slim_to_pixelization_unique_from` encode the matrix returned by
    `mapping_matrix_from` (`subs` = per-pixel sub-size, `n = subs.length` data pixels). -/
theorem encodes_uniqueFrom (subs : List Nat) (idx : List (List Int)) (sizes : List Nat)
    (wts : List (List α)) (P : Nat)
    (hidx : ∀ sub < (Spec.slimForSubSlim subs).length, ∀ c < sizes.getD sub 0,
      ((idx.getD sub []).getD c 0).toNat < P) :
    Encodes (Impl.uniqueFrom subs.length idx sizes wts P subs).1
      (Impl.uniqueFrom subs.length idx sizes wts P subs).2.1
      (Impl.uniqueFrom subs.length idx sizes wts P subs).2.2 subs.length P
      (Impl.mappingMatrix idx sizes wts P subs.length (Spec.slimForSubSlim subs)
        (subs.map Impl.subFraction)) := by
  refine ⟨?_, ?_, ?_⟩
  · rw [uniqueFrom_rows]; simp
  · intro ip hip k hk
    obtain ⟨keys, _, hmem, hlen, htake, _, _⟩ := unique_keys subs idx sizes wts P hidx ip hip
    rw [hlen] at hk
    -- entry `k` of the row is the `k`-th key
    have hget : ∀ row : List Int, row.take keys.length = keys.map Int.ofNat →
        row.getD k (-1) = Int.ofNat (keys.getD k 0) := by
      intro row hrow
      have h1 : (row.take keys.length)[k]? = (keys.map Int.ofNat)[k]? := by rw [hrow]
      rw [List.getElem?_take_of_lt hk, List.getElem?_map, List.getElem?_eq_getElem hk] at h1
      rw [List.getD_eq_getElem?_getD, h1, List.getD_eq_getElem?_getD, List.getElem?_eq_getElem hk]
      rfl
    rw [hget _ htake]
    refine ⟨Int.natCast_nonneg _, ?_⟩
    have hkmem : keys.getD k 0 ∈ keys := by
      rw [List.getD_eq_getElem?_getD, List.getElem?_eq_getElem hk]
      exact List.getElem_mem hk
    obtain ⟨e, he, heq⟩ := List.mem_map.mp ((hmem _).mp hkmem)
    obtain ⟨sub, c, _, h2, hc, rfl⟩ := mem_entries idx sizes wts _ _ e he
    simp only [Int.toNat_natCast, Int.ofNat_eq_natCast]
    rw [← heq]
    apply hidx sub _ c hc
    rw [slimForSubSlim_length]
    have := blockStart_mono subs (Nat.succ_le_of_lt hip)
    rw [blockStart_succ] at this
    omega
  · intro ip hip p _
    rw [denseRowOfUnique_eq, unique_dense_eq subs idx sizes wts P hidx ip hip p]
    rfl

/-- the un-blurred image of the w-tilde route on a mapper's own unique mappings is `mapping_matrix · s`:
    `mapped_reconstructed_data_via_image_to_pix_unique_from(*data_slim_to_pixelization_unique_from(t), s)[ip]
      = Σ_p mapping_matrix_from(t)[ip, p] · s[p]`. -/
theorem mappedViaUnique_uniqueFrom (subs : List Nat) (idx : List (List Int)) (sizes : List Nat)
    (wts : List (List α)) (P : Nat)
    (hidx : ∀ sub < (Spec.slimForSubSlim subs).length, ∀ c < sizes.getD sub 0,
      ((idx.getD sub []).getD c 0).toNat < P)
    (s : List α) (ip : Nat) (hip : ip < subs.length) :
    (mappedViaUnique (Impl.uniqueFrom subs.length idx sizes wts P subs).1
        (Impl.uniqueFrom subs.length idx sizes wts P subs).2.1
        (Impl.uniqueFrom subs.length idx sizes wts P subs).2.2 s).getD ip 0
      = ((List.range P).map fun p =>
          ((Impl.mappingMatrix idx sizes wts P subs.length (Spec.slimForSubSlim subs)
            (subs.map Impl.subFraction)).getD ip []).getD p 0 * s.getD p 0).sum :=
  mappedViaUnique_row _ _ _ subs.length P _ (encodes_uniqueFrom subs idx sizes wts P hidx) s ip hip

/-- non-vacuity: the tables of the example of Proofs/NNLSWTildeMapped.lean ARE what the model of
    `data_slim_to_pixelization_unique_from` / `mapping_matrix_from` returns for the sub-pixel rows
    `[0,1] [1] [2,0,2] [2]`, weights `[½,½] [1] [¼,½,¼] [1]`, sub-size 1 (the same arrays the real functions
    return). -/
example :
    Impl.uniqueFrom (α := ℚ) 4 [[0, 1, -1], [1, -1, -1], [2, 0, 2], [2, -1, -1]] [2, 1, 3, 1]
        [[1/2, 1/2, 0], [1, 0, 0], [1/4, 1/2, 1/4], [1, 0, 0]] 3 [1, 1, 1, 1]
      = ([[0, 1, -1], [1, -1, -1], [2, 0, -1], [2, -1, -1]],
         [[1/2, 1/2, 0], [1, 0, 0], [1/2, 1/2, 0], [1, 0, 0]], [2, 1, 2, 1])
    ∧ Impl.mappingMatrix (α := ℚ) [[0, 1, -1], [1, -1, -1], [2, 0, 2], [2, -1, -1]] [2, 1, 3, 1]
        [[1/2, 1/2, 0], [1, 0, 0], [1/4, 1/2, 1/4], [1, 0, 0]] 3 4 (Spec.slimForSubSlim [1, 1, 1, 1])
        ([1, 1, 1, 1].map Impl.subFraction)
      = [[1/2, 1/2, 0], [0, 1, 0], [1/2, 0, 1/2], [0, 0, 1]] := by
  constructor <;> decide +kernel

end WTildeMapped
end Model
