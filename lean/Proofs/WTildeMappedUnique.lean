/-
Proofs/WTildeMappedUnique.lean — `mapped_reconstructed_data_via_image_to_pix_unique_from` on unique tables
that encode a matrix `M` returns `M · reconstruction` (the un-blurred image of the w-tilde route).

Imports only Model/WTildeMapped.lean and single Mathlib modules, so that it can be used both next to
C03 + C05 (Proofs/NNLSWTildeMapped.lean) and next to C06 (Proofs/WTildeMappedC06.lean); those two sides
cannot be imported together (`Model.Impl.centralScaled` is defined in both Model/MaskSets.lean and
Model/Mapper.lean; `Model.scatter` in both Model/NNLS.lean and Proofs/Mapper.lean).
-/
import Model.WTildeMapped
import Mathlib.Algebra.BigOperators.Group.List.Basic
import Mathlib.Algebra.BigOperators.Ring.List
import Mathlib.Tactic.Ring

namespace Model
namespace WTildeMapped

variable {α : Type} [CommRing α]

/-! ### finite sums over lists -/

theorem foldr_add_eq_sum (l : List α) : l.foldr (· + ·) 0 = l.sum := by
  induction l with
  | nil => rfl
  | cons a l ih => simp [ih]

theorem sum_map_congr {γ : Type} (l : List γ) (f g : γ → α) (h : ∀ a ∈ l, f a = g a) :
    (l.map f).sum = (l.map g).sum := by
  rw [List.map_congr_left h]

theorem sum_map_zero' {γ : Type} (l : List γ) : (l.map fun _ => (0 : α)).sum = 0 := by
  induction l with
  | nil => rfl
  | cons a l ih => simp

theorem sum_map_add' {γ : Type} (l : List γ) (f g : γ → α) :
    (l.map fun a => f a + g a).sum = (l.map f).sum + (l.map g).sum := by
  induction l with
  | nil => simp
  | cons a l ih => simp only [List.map_cons, List.sum_cons, ih]; ring

theorem sum_comm' {γ δ : Type} (l₁ : List γ) (l₂ : List δ) (F : γ → δ → α) :
    (l₁.map fun a => (l₂.map fun b => F a b).sum).sum
      = (l₂.map fun b => (l₁.map fun a => F a b).sum).sum := by
  induction l₁ with
  | nil => simp
  | cons a l₁ ih =>
    simp only [List.map_cons, List.sum_cons, ih]
    rw [← sum_map_add']

theorem sum_flatMap' {γ : Type} (l : List γ) (f : γ → List α) :
    (l.flatMap f).sum = (l.map fun a => (f a).sum).sum := by
  induction l with
  | nil => rfl
  | cons a l ih => simp [List.flatMap_cons, List.sum_append, ih]

/-- a guarded sum is the sum over the filtered list -/
theorem sum_map_ite_filter {γ : Type} (l : List γ) (c : γ → Bool) (f : γ → α) :
    (l.map fun a => if c a then f a else 0).sum = ((l.filter c).map f).sum := by
  induction l with
  | nil => rfl
  | cons a l ih =>
    by_cases h : c a = true
    · simp [h, ih]
    · simp [h, ih]

/-- `Σ_{i<n} [i = k]·f i = f k` for `k < n` -/
theorem sum_range_single (n k : Nat) (f : Nat → α) (hk : k < n) :
    ((List.range n).map fun i => if i = k then f i else 0).sum = f k := by
  induction n with
  | zero => omega
  | succ n ih =>
    rw [List.range_succ, List.map_append, List.sum_append]
    by_cases h : k = n
    · subst h
      have : ((List.range k).map fun i => if i = k then f i else 0).sum = 0 := by
        rw [sum_map_congr _ _ (fun _ => (0 : α)) (fun i hi => by
          have : i ≠ k := by have := List.mem_range.mp hi; omega
          simp [this])]
        exact sum_map_zero' _
      simp [this]
    · have hk' : k < n := by omega
      rw [ih hk']
      have : n ≠ k := fun h' => h h'.symm
      simp [this]

/-! ### the accumulate loop `out[t] += x` -/

/-- `out[t] += x` -/
def addAt (out : List α) (e : Nat × α) : List α := out.set e.1 (out.getD e.1 0 + e.2)

theorem addAt_fold_length (es : List (Nat × α)) (out : List α) :
    (es.foldl addAt out).length = out.length := by
  induction es generalizing out with
  | nil => rfl
  | cons e es ih => simp [ih, addAt]

/-- after a sequence of `out[t] += x` updates entry `t` holds its initial value plus the addends aimed at it -/
theorem addAt_fold_getD (es : List (Nat × α)) (out : List α) (t : Nat) (ht : t < out.length) :
    (es.foldl addAt out).getD t 0
      = out.getD t 0 + ((es.filter fun e => e.1 == t).map (·.2)).sum := by
  induction es generalizing out with
  | nil => simp
  | cons e es ih =>
    simp only [List.foldl_cons, List.filter_cons]
    rw [ih _ (by simpa [addAt] using ht)]
    by_cases he : e.1 = t
    · subst he
      simp only [beq_self_eq_true, if_true, List.map_cons, List.sum_cons]
      have : (addAt out e).getD e.1 0 = out.getD e.1 0 + e.2 := by
        simp [addAt, List.getD_eq_getElem?_getD, List.getElem?_set_self ht]
      rw [this]; ring
    · have hb : (e.1 == t) = false := by simpa using he
      simp only [hb, Bool.false_eq_true, if_false]
      have : (addAt out e).getD t 0 = out.getD t 0 := by
        simp [addAt, List.getD_eq_getElem?_getD, List.getElem?_set_ne he]
      rw [this]

/-! ### `mapped_reconstructed_data_via_image_to_pix_unique_from` -/

/-- a non-negative table entry equals `p` exactly when its `toNat` does -/
theorem beq_ofNat_eq (v : Int) (hv : 0 ≤ v) (p : Nat) : (v == Int.ofNat p) = decide (p = v.toNat) := by
  by_cases hp : p = v.toNat
  · have : v = Int.ofNat p := by rw [hp]; simp; omega
    rw [decide_eq_true hp]
    exact beq_iff_eq.mpr this
  · have : v ≠ Int.ofNat p := by
      intro h; apply hp; rw [h]; simp
    rw [decide_eq_false hp]
    exact beq_eq_false_iff_ne.mpr this

/-- the addend of iteration `(data_0, pix_0)` -/
def term (d2p : List (List Int)) (dw : List (List α)) (s : List α) (d0 k : Nat) : α :=
  (dw.getD d0 []).getD k 0 * s.getD ((d2p.getD d0 []).getD k (-1)).toNat 0

/-- the double loop is one long sequence of `out[data_0] += …` updates -/
theorem mappedViaUnique_eq (d2p : List (List Int)) (dw : List (List α)) (len : List Nat) (s : List α) :
    mappedViaUnique d2p dw len s
      = ((List.range d2p.length).flatMap fun d0 =>
          (List.range (len.getD d0 0)).map fun k => (d0, term d2p dw s d0 k)).foldl addAt
          (List.replicate d2p.length 0) := by
  unfold mappedViaUnique
  rw [List.foldl_flatMap]
  congr 1
  funext out d0
  rw [List.foldl_map]
  rfl

theorem mappedViaUnique_length (d2p : List (List Int)) (dw : List (List α)) (len : List Nat) (s : List α) :
    (mappedViaUnique d2p dw len s).length = d2p.length := by
  rw [mappedViaUnique_eq, addAt_fold_length, List.length_replicate]

/-- entry `ip` of the result: `Σ_{k < pix_lengths[ip]} data_weights[ip,k] · reconstruction[data_to_pix_unique[ip,k]]` -/
theorem mappedViaUnique_getD (d2p : List (List Int)) (dw : List (List α)) (len : List Nat) (s : List α)
    (ip : Nat) (hip : ip < d2p.length) :
    (mappedViaUnique d2p dw len s).getD ip 0
      = ((List.range (len.getD ip 0)).map fun k => term d2p dw s ip k).sum := by
  rw [mappedViaUnique_eq, addAt_fold_getD _ _ _ (by simpa using hip), List.filter_flatMap,
    List.map_flatMap, sum_flatMap']
  have h0 : (List.replicate d2p.length (0 : α)).getD ip 0 = 0 := by
    simp [List.getD_eq_getElem?_getD, hip]
  rw [h0, zero_add]
  have hinner : ∀ d0 : Nat,
      ((((List.range (len.getD d0 0)).map fun k => (d0, term d2p dw s d0 k)).filter
          fun e => e.1 == ip).map (·.2)).sum
        = if d0 = ip then ((List.range (len.getD d0 0)).map fun k => term d2p dw s d0 k).sum else 0 := by
    intro d0
    by_cases h : d0 = ip
    · subst h
      simp [List.filter_map, Function.comp_def]
    · have hb : (d0 == ip) = false := by simpa using h
      simp [List.filter_map, Function.comp_def, hb, h]
  rw [sum_map_congr _ _ _ (fun d0 _ => hinner d0)]
  exact sum_range_single d2p.length ip
    (fun d0 => ((List.range (len.getD d0 0)).map fun k => term d2p dw s d0 k).sum) hip

/-- **the un-blurred image of the w-tilde route is `M · s`**: on unique tables that encode the `n × P` matrix
    `M`, entry `ip` of `mapped_reconstructed_data_via_image_to_pix_unique_from` is `Σ_{p<P} M[ip,p]·s[p]`. -/
theorem mappedViaUnique_row (d2p : List (List Int)) (dw : List (List α)) (len : List Nat) (n P : Nat)
    (M : List (List α)) (hU : Encodes d2p dw len n P M) (s : List α) (ip : Nat) (hip : ip < n) :
    (mappedViaUnique d2p dw len s).getD ip 0
      = ((List.range P).map fun p => (M.getD ip []).getD p 0 * s.getD p 0).sum := by
  rw [mappedViaUnique_getD d2p dw len s ip (by rw [hU.rows]; exact hip)]
  -- every term reads `s` at one source pixel `p < P`
  have hterm : ∀ k ∈ List.range (len.getD ip 0), term d2p dw s ip k
      = ((List.range P).map fun p =>
          if (d2p.getD ip []).getD k (-1) == Int.ofNat p then (dw.getD ip []).getD k 0 * s.getD p 0
          else 0).sum := by
    intro k hk
    obtain ⟨h0, hlt⟩ := hU.inRange ip hip k (List.mem_range.mp hk)
    have hcond : ∀ p : Nat, ((d2p.getD ip []).getD k (-1) == Int.ofNat p)
        = decide (p = ((d2p.getD ip []).getD k (-1)).toNat) :=
      fun p => beq_ofNat_eq _ h0 p
    rw [sum_map_congr _ _ (fun p => if p = ((d2p.getD ip []).getD k (-1)).toNat
        then (dw.getD ip []).getD k 0 * s.getD p 0 else 0) (fun p _ => by rw [hcond p]; simp)]
    rw [sum_range_single P _ (fun p => (dw.getD ip []).getD k 0 * s.getD p 0) hlt]
    rfl
  rw [sum_map_congr _ _ _ hterm, sum_comm']
  apply sum_map_congr
  intro p hp
  rw [← hU.dense ip hip p (List.mem_range.mp hp), denseRowOfUnique, foldr_add_eq_sum]
  rw [← sum_map_ite_filter, ← List.sum_map_mul_right]
  apply sum_map_congr
  intro k _
  split <;> simp

end WTildeMapped
end Model
