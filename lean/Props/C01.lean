/-
Props/C01.lean — property C01: slim and native forms are exact, order-preserving inverses under any
mask.  All theorems quantify over every mask shape, every mask and every value list (element type
`α` arbitrary: reals, (y,x) pairs, vectors).  They are stated about the `Impl` layer (the loop
transliterations in Model/Slim.lean), which is what the driver executes against the Python.
-/
import Model.Slim
import Proofs.Slim

open Model

namespace C01

/-- (a) the slim form lists exactly the values at the unmasked pixels, in row-major order:
    `array_2d_slim_from` = map of the value-at-pixel function over the row-major filter of the frame. -/
theorem slim_lists_unmasked_row_major (m : Mask) (a : List α) (zero : α) :
    Impl.slimFrom m a zero
      = ((pixels m.h m.w).filter fun p => !m.get p.1 p.2).map fun p => a.getD (p.1 * m.w + p.2) zero := by
  rw [slimFrom_eq]; rfl

/-- (a') its length is the number of unmasked pixels, which is what `total_pixels_2d_from` counts -/
theorem slim_length (m : Mask) (a : List α) (zero : α) :
    (Impl.slimFrom m a zero).length = Impl.totalPixels m := by
  rw [slimFrom_eq, totalPixels_eq]; simp [Spec.slimFrom]

/-- (d1) `native_index_for_slim_index_2d_from`: slim index k denotes the k-th unmasked pixel in
    row-major order … -/
theorem nativeForSlim_eq_spec (m : Mask) :
    Impl.nativeForSlim m = (pixels m.h m.w).filter fun p => !m.get p.1 p.2 :=
  nativeForSlim_eq m

/-- (d2) … strictly increasing in the flattened index (hence injective), every entry in the frame and
    unmasked, and every unmasked in-frame pixel present. -/
theorem nativeForSlim_sorted (m : Mask) :
    (Impl.nativeForSlim m).Pairwise fun p q => p.1 * m.w + p.2 < q.1 * m.w + q.2 := by
  rw [nativeForSlim_eq]; exact unmaskedPixels_pairwise m

theorem nativeForSlim_mem (m : Mask) (p : Nat × Nat) :
    p ∈ Impl.nativeForSlim m ↔ p.1 < m.h ∧ p.2 < m.w ∧ m.get p.1 p.2 = false := by
  rw [nativeForSlim_eq]; exact mem_unmaskedPixels

/-- (b) the native form produced from slim values holds value k at the k-th unmasked pixel, and zero
    at every masked position; it has the frame's size. -/
theorem native_holds_values_and_zeros (m : Mask) (s : List α) (zero : α) :
    (Impl.nativeFrom m s zero).length = m.h * m.w
    ∧ (∀ k (hk : k < (Impl.nativeForSlim m).length),
        (Impl.nativeFrom m s zero)[((Impl.nativeForSlim m)[k]).1 * m.w + ((Impl.nativeForSlim m)[k]).2]?
          = some (s.getD k zero))
    ∧ (∀ y x, y < m.h → x < m.w → m.get y x = true →
        (Impl.nativeFrom m s zero)[y * m.w + x]? = some zero) := by
  refine ⟨nativeFrom_length m s zero, ?_, ?_⟩
  · intro k hk
    have hk' : k < (Spec.unmaskedPixels m).length := by rw [← nativeForSlim_eq]; exact hk
    have := nativeFrom_hit m s zero k hk'
    simp only [nativeForSlim_eq]
    exact this
  · intro y x hy hx hm
    have hj : y * m.w + x < m.h * m.w := flat_lt (p := (y, x)) (mem_pixels.mpr ⟨hy, hx⟩)
    exact nativeFrom_masked m s zero _ hj (by simpa [Mask.get] using hm)

/-- (c1) slim → native → slim is the identity on slim lists of the right length -/
theorem slim_native_slim (m : Mask) (s : List α) (zero : α)
    (hs : s.length = Impl.totalPixels m) :
    Impl.slimFrom m (Impl.nativeFrom m s zero) zero = s := by
  rw [slimFrom_eq]
  rw [totalPixels_eq] at hs
  apply List.ext_getElem
  · simp [Spec.slimFrom, hs]
  · intro k h1 h2
    have hk : k < (Spec.unmaskedPixels m).length := by simpa [Spec.slimFrom] using h1
    simp only [Spec.slimFrom, List.getElem_map]
    have := nativeFrom_hit m s zero k hk
    simp only [List.getD_eq_getElem?_getD, this, Option.getD_some, List.getElem?_eq_getElem h2]

/-- (c2) native → slim → native returns the native values with masked positions zeroed -/
theorem native_slim_native (m : Mask) (a : List α) (zero : α) :
    Impl.nativeFrom m (Impl.slimFrom m a zero) zero = Impl.applyMask m a zero := by
  apply List.ext_getElem?
  intro j
  by_cases hj : j < m.h * m.w
  · cases hm : m.bits.getD j true with
    | true =>
      rw [nativeFrom_masked m _ zero j hj hm]
      have hm' : m.bits[j]?.getD true = true := by simpa using hm
      simp [Impl.applyMask, hj, hm']
    | false =>
      obtain ⟨k, hk, hflat⟩ := exists_slim_index m j hj hm
      have := nativeFrom_hit m (Impl.slimFrom m a zero) zero k hk
      rw [hflat] at this
      rw [this, slimFrom_eq]
      have hm' : m.bits[j]?.getD true = false := by simpa using hm
      simp [Impl.applyMask, hj, hm', Spec.slimFrom, hk, hflat]
  · have h1 : (Impl.nativeFrom m (Impl.slimFrom m a zero) zero).length ≤ j := by
      rw [nativeFrom_length]; omega
    have h2 : (Impl.applyMask m a zero).length ≤ j := by simp [Impl.applyMask]; omega
    rw [List.getElem?_eq_none h1, List.getElem?_eq_none h2]

/-- (d3) the published flat index lists: `unmasked_slim` / `masked_slim` are the ascending lists of
    flat indices whose mask bit is False / True … -/
theorem maskSlimIndexes_eq_spec (m : Mask) (flag : Bool) :
    Impl.maskSlimIndexes m flag = (List.range (m.h * m.w)).filter fun k => m.bits.getD k true == flag :=
  maskSlimIndexes_eq m flag

/-- (d4) … so together they are a permutation of all flattened pixel indices, each ascending, disjoint. -/
theorem maskSlimIndexes_partition (m : Mask) :
    (Impl.maskSlimIndexes m false ++ Impl.maskSlimIndexes m true).Perm (List.range (m.h * m.w))
    ∧ (Impl.maskSlimIndexes m false).Pairwise (· < ·)
    ∧ (Impl.maskSlimIndexes m true).Pairwise (· < ·)
    ∧ (∀ k, k ∈ Impl.maskSlimIndexes m false → k ∉ Impl.maskSlimIndexes m true) := by
  simp only [maskSlimIndexes_eq]
  refine ⟨?_, List.Pairwise.filter _ List.pairwise_lt_range,
    List.Pairwise.filter _ List.pairwise_lt_range, ?_⟩
  · have := List.filter_append_perm (fun k => m.bits.getD k true == false) (List.range (m.h * m.w))
    have h2 : (List.range (m.h * m.w)).filter (fun k => !(m.bits.getD k true == false))
        = (List.range (m.h * m.w)).filter (fun k => m.bits.getD k true == true) := by
      congr 1; funext k; cases m.bits.getD k true <;> rfl
    rw [h2] at this
    exact this
  · intro k hk hk'
    simp only [List.mem_filter] at hk hk'
    have h1 := hk.2; have h2 := hk'.2
    simp only [beq_iff_eq] at h1 h2
    rw [h1] at h2
    exact Bool.noConfusion h2

/-- (d5) the unmasked flat-index list is the flattening of the slim→native table (mutual consistency) -/
theorem unmasked_slim_is_flat_nativeForSlim (m : Mask) :
    Impl.maskSlimIndexes m false = (Impl.nativeForSlim m).map fun p => p.1 * m.w + p.2 := by
  rw [maskSlimIndexes_eq, nativeForSlim_eq, ← pixels_map_flat]
  unfold Spec.unmaskedPixels
  rw [List.filter_map]
  congr 1
  apply List.filter_congr
  intro p _
  simp [Mask.get, flat, Function.comp]

/-- (e) constructor clause.  Let `aₙ` be any native array of the frame's size and `aₛ` its slim form.
    Whichever form is supplied and whichever storage mode is chosen, the structure reports
    `.slim = aₛ` and `.native = aₙ` with masked positions zeroed. -/
theorem constructor_forms_agree (m : Mask) (an : List α) (zero : α) (han : an.length = m.h * m.w)
    (inp : Impl.Input α)
    (hinp : inp = .native an ∨ inp = .slim (Impl.slimFrom m an zero)) (storeNative : Bool) :
    ∃ st, Impl.convertArray2d m inp storeNative false zero = some st
      ∧ Impl.viewSlim m st zero = some (.slim (Impl.slimFrom m an zero))
      ∧ Impl.viewNative m st zero = some (.native (Impl.applyMask m an zero)) := by
  have hlenA : (Impl.applyMask m an zero).length = m.h * m.w := by simp [Impl.applyMask]
  have hlenS : (Impl.slimFrom m an zero).length = Impl.totalPixels m := slim_length m an zero
  have hidem : Impl.applyMask m (Impl.applyMask m an zero) zero = Impl.applyMask m an zero := by
    apply List.ext_getElem
    · simp [Impl.applyMask]
    · intro k h1 h2
      have hk : k < m.h * m.w := by simpa [Impl.applyMask] using h1
      simp only [Impl.applyMask, List.getElem_map, List.getElem_range]
      split
      · rfl
      · rename_i hb
        have hb' : m.bits[k]?.getD true = false := by simpa using hb
        simp [hk, hb']
  have hslimA : Impl.slimFrom m (Impl.applyMask m an zero) zero = Impl.slimFrom m an zero := by
    rw [← native_slim_native, slim_native_slim m _ zero hlenS]
  rcases hinp with h | h <;> subst h <;> cases storeNative
  · refine ⟨.slim (Impl.slimFrom m (Impl.applyMask m an zero) zero), ?_, ?_, ?_⟩
    · simp [Impl.convertArray2d, han]
    · simp [Impl.viewSlim, Impl.convertArray2d, Impl.Stored.toInput, hslimA, hlenS]
    · simp [Impl.viewNative, Impl.convertArray2d, Impl.Stored.toInput, hslimA, hlenS,
        native_slim_native]
  · refine ⟨.native (Impl.applyMask m an zero), ?_, ?_, ?_⟩
    · simp [Impl.convertArray2d, han]
    · simp [Impl.viewSlim, Impl.convertArray2d, Impl.Stored.toInput, hlenA, hidem, hslimA]
    · simp [Impl.viewNative, Impl.convertArray2d, Impl.Stored.toInput, hlenA, hidem]
  · refine ⟨.slim (Impl.slimFrom m an zero), ?_, ?_, ?_⟩
    · simp [Impl.convertArray2d, hlenS]
    · simp [Impl.viewSlim, Impl.convertArray2d, Impl.Stored.toInput, hlenS]
    · simp [Impl.viewNative, Impl.convertArray2d, Impl.Stored.toInput, hlenS, native_slim_native]
  · refine ⟨.native (Impl.nativeFrom m (Impl.slimFrom m an zero) zero), ?_, ?_, ?_⟩
    · simp [Impl.convertArray2d, hlenS]
    · simp [Impl.viewSlim, Impl.convertArray2d, Impl.Stored.toInput, native_slim_native, hlenA,
        hidem, hslimA]
    · simp [Impl.viewNative, Impl.convertArray2d, Impl.Stored.toInput, native_slim_native, hlenA,
        hidem]

/-! ### non-vacuity: a concrete 2×3 mask with a hole pattern meets every hypothesis above -/
example :
    let m : Mask := ⟨2, 3, [false, true, false, true, true, false]⟩
    Impl.nativeForSlim m = [(0, 0), (0, 2), (1, 2)]
    ∧ Impl.slimFrom m [10, 20, 30, 40, 50, 60] 0 = [10, 30, 60]
    ∧ Impl.nativeFrom m [7, 8, 9] 0 = [7, 0, 8, 0, 0, 9]
    ∧ Impl.totalPixels m = 3
    ∧ Impl.maskSlimIndexes m false = [0, 2, 5] ∧ Impl.maskSlimIndexes m true = [1, 3, 4] := by
  decide

end C01

namespace C01

/-- (1-D, a) `array_1d_slim_from` lists the unmasked entries in increasing index order -/
theorem slim1d_lists_unmasked (mask : List Bool) (a : List α) (zero : α) :
    Impl.slim1dFrom mask a zero
      = ((List.range mask.length).filter fun x => !mask.getD x true).map fun x => a.getD x zero := by
  rw [slim1dFrom_eq, nativeForSlim1d_eq]

/-- (1-D, c1) slim → native → slim is the identity -/
theorem roundtrip_1d_slim (mask : List Bool) (s : List α) (zero : α)
    (hs : s.length = (Impl.nativeForSlim1d mask).length) :
    Impl.slim1dFrom mask (Impl.native1dFrom mask s zero) zero = s := by
  rw [slim1dFrom_eq]
  apply List.ext_getElem
  · simp [hs]
  · intro k h1 h2
    have hk : k < (Impl.nativeForSlim1d mask).length := by simpa using h1
    simp only [List.getElem_map, List.getD_eq_getElem?_getD, native1dFrom_hit mask s zero k hk,
      Option.getD_some, List.getElem?_eq_getElem h2]

/-- (1-D, c2) native → slim → native returns the native values with masked positions zeroed -/
theorem roundtrip_1d_native (mask : List Bool) (a : List α) (zero : α) :
    Impl.native1dFrom mask (Impl.slim1dFrom mask a zero) zero
      = (List.range mask.length).map fun x => if mask.getD x true then zero else a.getD x zero := by
  apply List.ext_getElem?
  intro j
  by_cases hj : j < mask.length
  · cases hm : mask.getD j true with
    | true =>
      rw [native1dFrom_masked mask _ zero j hj hm]
      have hm' : mask[j] = true := by simpa [List.getD_eq_getElem?_getD, hj] using hm
      simp [hj, hm']
    | false =>
      have hmem : j ∈ Impl.nativeForSlim1d mask := mem_nativeForSlim1d.mpr ⟨hj, hm⟩
      obtain ⟨k, hk, hkeq⟩ := List.getElem_of_mem hmem
      have := native1dFrom_hit mask (Impl.slim1dFrom mask a zero) zero k hk
      rw [hkeq] at this
      rw [this, slim1dFrom_eq]
      have hm' : mask[j] = false := by simpa [List.getD_eq_getElem?_getD, hj] using hm
      simp [hj, hm', hk, hkeq]
  · have h1 : (Impl.native1dFrom mask (Impl.slim1dFrom mask a zero) zero).length ≤ j := by
      rw [native1dFrom_length]; omega
    rw [List.getElem?_eq_none h1, List.getElem?_eq_none (by simp; omega)]

end C01

namespace C01

/-- (1-D, e) constructor clause for `Array1D` (after repair D31 a native input is zeroed under the mask):
    let `aₙ` be any native 1-D array. Supplying `aₙ` itself, or its slim form (when at least one entry is
    masked, so that the two forms are distinguishable by length — the code's own test), with either storage
    mode, yields a structure reporting `.slim = slim(aₙ)` and `.native = aₙ` with masked entries zeroed. -/
theorem constructor_forms_agree_1d (mask : List Bool) (an : List α) (zero : α)
    (han : an.length = mask.length)
    (inp : List α)
    (hinp : inp = an ∨ (inp = Impl.slim1dFrom mask an zero
      ∧ (Impl.nativeForSlim1d mask).length ≠ mask.length))
    (storeNative : Bool) :
    ∃ st, Impl.convertArray1d mask inp storeNative zero = some st
      ∧ Impl.viewSlim1d mask st zero = some (.slim (Impl.slim1dFrom mask an zero))
      ∧ Impl.viewNative1d mask st zero = some (.native (Impl.applyMask1d mask an zero)) := by
  have hlenA : (Impl.applyMask1d mask an zero).length = mask.length := by simp [Impl.applyMask1d]
  have hlenS : (Impl.slim1dFrom mask an zero).length = (Impl.nativeForSlim1d mask).length := by
    rw [slim1dFrom_eq]; simp
  have hnat : Impl.native1dFrom mask (Impl.slim1dFrom mask an zero) zero
      = Impl.applyMask1d mask an zero := roundtrip_1d_native mask an zero
  have hidem : Impl.applyMask1d mask (Impl.applyMask1d mask an zero) zero
      = Impl.applyMask1d mask an zero := by
    apply List.ext_getElem
    · simp [Impl.applyMask1d]
    · intro k h1 h2
      have hk : k < mask.length := by simpa [Impl.applyMask1d] using h1
      simp only [Impl.applyMask1d, List.getElem_map, List.getElem_range]
      split
      · rfl
      · rename_i hb
        have hb' : mask[k] = false := by simpa [List.getD_eq_getElem?_getD, hk] using hb
        simp [hk, hb']
  have hslimA : Impl.slim1dFrom mask (Impl.applyMask1d mask an zero) zero
      = Impl.slim1dFrom mask an zero := by
    rw [← hnat, roundtrip_1d_slim mask _ zero hlenS]
  -- with no masked entry the slim form IS the (masked) native form, so the length test cannot go wrong
  have hallEq : (Impl.nativeForSlim1d mask).length = mask.length →
      Impl.slim1dFrom mask an zero = Impl.applyMask1d mask an zero := by
    intro hall
    have hall' : ∀ x ∈ List.range mask.length, (!mask.getD x true) = true := by
      rw [nativeForSlim1d_eq] at hall
      have := (List.length_filter_eq_length_iff (p := fun x => !mask.getD x true)
        (l := List.range mask.length)).mp (by simpa using hall)
      exact this
    rw [slim1dFrom_eq, nativeForSlim1d_eq, List.filter_eq_self.mpr hall']
    apply List.map_congr_left
    intro x hx
    have := hall' x hx
    simp only [Bool.not_eq_true'] at this
    have this' : mask[x]?.getD true = false := by simpa using this
    simp [this']
  rcases hinp with h | ⟨h, hne⟩ <;> rw [h] <;> clear h <;> cases storeNative
  · refine ⟨.slim (Impl.slim1dFrom mask (Impl.applyMask1d mask an zero) zero), ?_, ?_, ?_⟩
    · simp [Impl.convertArray1d, han]
    · by_cases hall : (Impl.nativeForSlim1d mask).length = mask.length
      · simp [Impl.viewSlim1d, Impl.convertArray1d, Impl.Stored.values, hslimA, hlenS, hall]
        first
          | exact hallEq hall
          | (rw [hallEq hall, hidem, hslimA]; try exact hallEq hall)
      · simp [Impl.viewSlim1d, Impl.convertArray1d, Impl.Stored.values, hslimA, hlenS, hall]
    · by_cases hall : (Impl.nativeForSlim1d mask).length = mask.length
      · simp [Impl.viewNative1d, Impl.convertArray1d, Impl.Stored.values, hslimA, hlenS, hall]
        rw [hallEq hall, hidem]
      · simp [Impl.viewNative1d, Impl.convertArray1d, Impl.Stored.values, hslimA, hlenS, hall, hnat]
  · refine ⟨.native (Impl.applyMask1d mask an zero), ?_, ?_, ?_⟩
    · simp [Impl.convertArray1d, han]
    · simp [Impl.viewSlim1d, Impl.convertArray1d, Impl.Stored.values, hlenA, hidem, hslimA]
    · simp [Impl.viewNative1d, Impl.convertArray1d, Impl.Stored.values, hlenA, hidem]
  · refine ⟨.slim (Impl.slim1dFrom mask an zero), ?_, ?_, ?_⟩
    · simp [Impl.convertArray1d, hlenS, hne]
    · simp [Impl.viewSlim1d, Impl.convertArray1d, Impl.Stored.values, hlenS, hne]
    · simp [Impl.viewNative1d, Impl.convertArray1d, Impl.Stored.values, hlenS, hne, hnat]
  · refine ⟨.native (Impl.native1dFrom mask (Impl.slim1dFrom mask an zero) zero), ?_, ?_, ?_⟩
    · simp [Impl.convertArray1d, hlenS, hne]
    · simp [Impl.viewSlim1d, Impl.convertArray1d, Impl.Stored.values, hnat, hlenA, hidem, hslimA]
    · simp [Impl.viewNative1d, Impl.convertArray1d, Impl.Stored.values, hnat, hlenA, hidem]

example :
    Impl.convertArray1d [false, true, false, true] [1, 2, 3, 4] true (0 : Int)
      = some (.native [1, 0, 3, 0])
    ∧ Impl.convertArray1d [false, true, false, true] [1, 3] true (0 : Int)
      = some (.native [1, 0, 3, 0])
    ∧ (Impl.nativeForSlim1d [false, true, false, true]).length ≠ 4 := by decide

end C01
