import Model.Slim
namespace C01
theorem t1 : 1 + 1 = 2 := rfl
theorem t2 (p q : Prop) [Decidable p] : (p ∨ ¬ p) := Classical.em p
end C01
