/-
Props/C02.lean — property C02: pixel indices and scaled (y,x) coordinates are consistent inverse maps,
and the shape-based mask constructors unmask exactly the pixels whose centre satisfies the documented
radial inequality.

All theorems are about the `Impl` layer of Model/Geometry.lean and Model/MaskShapes.lean (what the driver
executes against the Python), for every shape `(H, W)`, every pair of positive pixel scales `s`, every
origin `o`, over any linearly ordered field `α` (ℚ for the driver, ℝ for the analytic statements).
`int()` is a parameter `trunc` constrained only by `TruncSpec` (`0 ≤ t → trunc t ≤ t < trunc t + 1`),
discharged below for `Model.truncRat` (the driver's instance) and for floor-based truncation in every
`FloorRing`.
-/
import Model.Geometry
import Model.MaskShapes
import Proofs.Geometry
import Proofs.GeometryLoops
import Proofs.MaskShapes
import Proofs.MaskShapesAbstract
import Proofs.MaskShapesReal

open Model

namespace C02

section geometry
variable {α : Type} [Field α] [LinearOrder α] [IsStrictOrderedRing α]

/-! ### the `int()` contract is satisfiable -/

/-- the driver's `int()` (`Model.truncRat`) meets the contract the theorems assume … -/
theorem trunc_contract_truncRat : TruncSpec (α := ℚ) truncRat := truncSpec_truncRat

/-- … and so does truncation toward zero built from `⌊·⌋` in every floor ring (ℚ, ℝ, …). -/
theorem trunc_contract_floor [FloorRing α] :
    TruncSpec (fun t : α => if 0 ≤ t then ⌊t⌋ else -⌊-t⌋) := truncSpec_floor

/-! ### (a) centre formula -/

/-- (a) pixel `(i, j)` has centre `y = o_y + ((H−1)/2 − i)·s_y`, `x = o_x + (j − (W−1)/2)·s_x`:
    `scaled_coordinates_2d_from`, the value written by `grid_2d_slim_via_mask_from`, and
    `grid_scaled_2d_slim_from` at the continuous pixel coordinate `(i + ½, j + ½)` all return it. -/
theorem a_centre_formula (shape : Nat × Nat) (s o : α × α) (hs1 : s.1 ≠ 0) (hs2 : s.2 ≠ 0)
    (p : Nat × Nat) :
    Impl.scaledCoordinates2 shape s o ((p.1 : α), (p.2 : α))
        = (o.1 + (((shape.1 : α) - 1) / 2 - (p.1 : α)) * s.1, o.2 + ((p.2 : α) - ((shape.2 : α) - 1) / 2) * s.2)
    ∧ Impl.pixelCentreScaled shape s o p
        = (o.1 + (((shape.1 : α) - 1) / 2 - (p.1 : α)) * s.1, o.2 + ((p.2 : α) - ((shape.2 : α) - 1) / 2) * s.2)
    ∧ Impl.scaledOfPixels shape s o ((p.1 : α) + 1 / 2, (p.2 : α) + 1 / 2)
        = (o.1 + (((shape.1 : α) - 1) / 2 - (p.1 : α)) * s.1, o.2 + ((p.2 : α) - ((shape.2 : α) - 1) / 2) * s.2) := by
  refine ⟨scaledCoordinates2_eq shape s o _ hs1 hs2, ?_, ?_⟩
  · rw [pixelCentreScaled_eq shape s o p hs1 hs2, pixelCentre_eq]
  · rw [scaledOfPixels_eq shape s o _ hs1 hs2]
    congr 1 <;> ring

/-! ### (b) pixel centre → index → back -/

/-- (b) converting the centre of pixel `(i, j)` (`i < H`, `j < W`) to an index gives `(i, j)` back, by both
    code variants, and the flattened index is `i·W + j`. -/
theorem b_centre_roundtrip {trunc : α → Int} (ht : TruncSpec trunc) (shape : Nat × Nat) (s o : α × α)
    (hs1 : 0 < s.1) (hs2 : 0 < s.2) (p : Nat × Nat) :
    Impl.pixelCoordinates2 trunc shape s o (Impl.scaledCoordinates2 shape s o ((p.1 : α), (p.2 : α)))
        = ((p.1 : Int), (p.2 : Int))
    ∧ Impl.gridPixelCentres2 trunc shape s o [Impl.pixelCentreScaled shape s o p] = [((p.1 : Int), (p.2 : Int))]
    ∧ Impl.gridPixelIndexes2 trunc shape s o [Impl.pixelCentreScaled shape s o p]
        = [(p.1 : Int) * (shape.2 : Int) + (p.2 : Int)] := by
  have h1 : s.1 ≠ 0 := ne_of_gt hs1
  have h2 : s.2 ≠ 0 := ne_of_gt hs2
  have hy : trunc ((p.1 : α) + 1 / 2) = (p.1 : Int) :=
    trunc_eq_of_mem ht (by linarith) (by linarith)
  have hx : trunc ((p.2 : α) + 1 / 2) = (p.2 : Int) :=
    trunc_eq_of_mem ht (by linarith) (by linarith)
  have key : Impl.pixelCoordinates2 trunc shape s o
      (o.1 + (((shape.1 : α) - 1) / 2 - (p.1 : α)) * s.1, o.2 + ((p.2 : α) - ((shape.2 : α) - 1) / 2) * s.2)
      = ((p.1 : Int), (p.2 : Int)) := by
    rw [pixelCoordinates2_eq trunc shape s o _ h1 h2]
    simp only [posY_centre _ _ _ _ h1, posX_centre _ _ _ _ h2, hy, hx]
  have hc : Impl.pixelCentreOfScaled trunc shape s o (Impl.pixelCentreScaled shape s o p)
      = ((p.1 : Int), (p.2 : Int)) := by
    rw [pixelCentreOfScaled_eq trunc shape s o _ h1 h2, pixelCentreScaled_eq shape s o p h1 h2,
      pixelCentre_eq, key]
  refine ⟨?_, ?_, ?_⟩
  · rw [scaledCoordinates2_eq shape s o _ h1 h2, key]
  · rw [gridPixelCentres2_eq]; simp [hc]
  · rw [gridPixelIndexes2_eq]; simp [hc]

/-! ### (c) containment -/

/-- (c) if `(y, x)` lies in the square of pixel `(i, j)` — with the code's half-open convention made
    explicit: the square is closed at its top and left edges, open at its bottom and right edges — then both
    code variants convert `(y, x)` to `(i, j)`, and the flattened index is `i·W + j`. -/
theorem c_containment {trunc : α → Int} (ht : TruncSpec trunc) (shape : Nat × Nat) (s o : α × α)
    (hs1 : 0 < s.1) (hs2 : 0 < s.2) (p : Nat × Nat) (y x : α)
    (hy : (Spec.pixelCentre shape s o p).1 - s.1 / 2 < y ∧ y ≤ (Spec.pixelCentre shape s o p).1 + s.1 / 2)
    (hx : (Spec.pixelCentre shape s o p).2 - s.2 / 2 ≤ x ∧ x < (Spec.pixelCentre shape s o p).2 + s.2 / 2) :
    Impl.pixelCoordinates2 trunc shape s o (y, x) = ((p.1 : Int), (p.2 : Int))
    ∧ Impl.gridPixelCentres2 trunc shape s o [(y, x)] = [((p.1 : Int), (p.2 : Int))]
    ∧ Impl.gridPixelIndexes2 trunc shape s o [(y, x)] = [(p.1 : Int) * (shape.2 : Int) + (p.2 : Int)] := by
  have h1 : s.1 ≠ 0 := ne_of_gt hs1
  have h2 : s.2 ≠ 0 := ne_of_gt hs2
  rw [pixelCentre_eq] at hy hx
  have hy' := (posY_mem_iff shape.1 s.1 o.1 y (p.1 : α) hs1).mpr hy
  have hx' := (posX_mem_iff shape.2 s.2 o.2 x (p.2 : α) hs2).mpr hx
  have ty := trunc_eq_of_mem ht hy'.1 hy'.2
  have tx := trunc_eq_of_mem ht hx'.1 hx'.2
  have key : Impl.pixelCoordinates2 trunc shape s o (y, x) = ((p.1 : Int), (p.2 : Int)) := by
    rw [pixelCoordinates2_eq trunc shape s o _ h1 h2]; simp only [ty, tx]
  have hc : Impl.pixelCentreOfScaled trunc shape s o (y, x) = ((p.1 : Int), (p.2 : Int)) := by
    rw [pixelCentreOfScaled_eq trunc shape s o _ h1 h2, key]
  refine ⟨key, ?_, ?_⟩
  · rw [gridPixelCentres2_eq]; simp [hc]
  · rw [gridPixelIndexes2_eq]; simp [hc]

/-- (c0) the two algebraic variants the code contains (`pixel_coordinates_2d_from`, which subtracts the origin
    from the coordinate, and `grid_pixel_centres_2d_slim_from`, which folds it into `centres_scaled`) agree
    on every coordinate, and `grid_pixel_indexes_2d_slim_from` is `i·W + j` of that index, for lists of any
    length. -/
theorem c_variants_agree (trunc : α → Int) (shape : Nat × Nat) (s o : α × α) (hs1 : s.1 ≠ 0) (hs2 : s.2 ≠ 0)
    (grid : List (α × α)) :
    Impl.gridPixelCentres2 trunc shape s o grid = grid.map (Impl.pixelCoordinates2 trunc shape s o)
    ∧ Impl.gridPixelIndexes2 trunc shape s o grid
        = grid.map fun p => (Impl.pixelCoordinates2 trunc shape s o p).1 * (shape.2 : Int)
            + (Impl.pixelCoordinates2 trunc shape s o p).2 := by
  constructor
  · rw [gridPixelCentres2_eq]
    exact List.map_congr_left fun p _ => pixelCentreOfScaled_eq trunc shape s o p hs1 hs2
  · rw [gridPixelIndexes2_eq]
    exact List.map_congr_left fun p _ => by rw [pixelCentreOfScaled_eq trunc shape s o p hs1 hs2]

/-- (c') every coordinate inside the extent (top and left boundary lines included, bottom and right
    excluded) converts to an in-range pixel `(i, j)` whose square contains it. -/
theorem c_inside_extent_maps_to_containing_pixel {trunc : α → Int} (ht : TruncSpec trunc)
    (shape : Nat × Nat) (s o : α × α) (hs1 : 0 < s.1) (hs2 : 0 < s.2) (y x : α)
    (hy : o.1 - (shape.1 : α) * s.1 / 2 < y ∧ y ≤ o.1 + (shape.1 : α) * s.1 / 2)
    (hx : o.2 - (shape.2 : α) * s.2 / 2 ≤ x ∧ x < o.2 + (shape.2 : α) * s.2 / 2) :
    ∃ i j : Nat, i < shape.1 ∧ j < shape.2
      ∧ Impl.pixelCoordinates2 trunc shape s o (y, x) = ((i : Int), (j : Int))
      ∧ Impl.gridPixelIndexes2 trunc shape s o [(y, x)] = [(i : Int) * (shape.2 : Int) + (j : Int)]
      ∧ ((Spec.pixelCentre shape s o (i, j)).1 - s.1 / 2 < y ∧ y ≤ (Spec.pixelCentre shape s o (i, j)).1 + s.1 / 2)
      ∧ ((Spec.pixelCentre shape s o (i, j)).2 - s.2 / 2 ≤ x ∧ x < (Spec.pixelCentre shape s o (i, j)).2 + s.2 / 2) := by
  have h1 : s.1 ≠ 0 := ne_of_gt hs1
  have h2 : s.2 ≠ 0 := ne_of_gt hs2
  have py0 : 0 ≤ posY shape.1 s.1 o.1 y := by
    unfold posY; apply div_nonneg _ (le_of_lt hs1); linarith [hy.2]
  have pyH : posY shape.1 s.1 o.1 y < (shape.1 : α) := by
    unfold posY; rw [div_lt_iff₀ hs1]; linarith [hy.1]
  have px0 : 0 ≤ posX shape.2 s.2 o.2 x := by
    unfold posX; apply div_nonneg _ (le_of_lt hs2); linarith [hx.1]
  have pxW : posX shape.2 s.2 o.2 x < (shape.2 : α) := by
    unfold posX; rw [div_lt_iff₀ hs2]; linarith [hx.2]
  obtain ⟨i, hi, ti, hi1, hi2⟩ := trunc_mem_range ht py0 pyH
  obtain ⟨j, hj, tj, hj1, hj2⟩ := trunc_mem_range ht px0 pxW
  have key : Impl.pixelCoordinates2 trunc shape s o (y, x) = ((i : Int), (j : Int)) := by
    rw [pixelCoordinates2_eq trunc shape s o _ h1 h2]; simp only [ti, tj]
  have hc : Impl.pixelCentreOfScaled trunc shape s o (y, x) = ((i : Int), (j : Int)) := by
    rw [pixelCentreOfScaled_eq trunc shape s o _ h1 h2, key]
  refine ⟨i, j, hi, hj, key, ?_, ?_, ?_⟩
  · rw [gridPixelIndexes2_eq]; simp [hc]
  · rw [pixelCentre_eq]; exact (posY_mem_iff shape.1 s.1 o.1 y (i : α) hs1).mp ⟨hi1, hi2⟩
  · rw [pixelCentre_eq]; exact (posX_mem_iff shape.2 s.2 o.2 x (j : α) hs2).mp ⟨hj1, hj2⟩

/-! ### (d) extent -/

/-- (d1) the reported extent is `(o_x − W·s_x/2, o_x + W·s_x/2, o_y − H·s_y/2, o_y + H·s_y/2)`. -/
theorem d_extent_formula (shape : Nat × Nat) (s o : α × α) :
    Impl.extent shape s o
      = (o.2 - (shape.2 : α) * s.2 / 2, o.2 + (shape.2 : α) * s.2 / 2,
         o.1 - (shape.1 : α) * s.1 / 2, o.1 + (shape.1 : α) * s.1 / 2) := by
  simp only [Impl.extent, Impl.scaledMinima, Impl.scaledMaxima, Impl.shapeNativeScaled, Nat.cast_ofNat,
    Prod.mk.injEq]
  refine ⟨by ring, by ring, by ring, by ring⟩

/-- (d2) the extent rectangle is exactly the union of the (closed) pixel squares:
    `(y, x)` lies in the closed square of some pixel `(i, j)`, `i < H`, `j < W`, iff it lies in the closed
    rectangle reported by `extent`. -/
theorem d_extent_is_union_of_pixel_squares (shape : Nat × Nat) (s o : α × α)
    (hH : 1 ≤ shape.1) (hW : 1 ≤ shape.2) (hs1 : 0 < s.1) (hs2 : 0 < s.2) (y x : α) :
    (∃ i j : Nat, i < shape.1 ∧ j < shape.2
        ∧ ((Spec.pixelCentre shape s o (i, j)).1 - s.1 / 2 ≤ y ∧ y ≤ (Spec.pixelCentre shape s o (i, j)).1 + s.1 / 2)
        ∧ ((Spec.pixelCentre shape s o (i, j)).2 - s.2 / 2 ≤ x ∧ x ≤ (Spec.pixelCentre shape s o (i, j)).2 + s.2 / 2))
    ↔ ((Impl.extent shape s o).1 ≤ x ∧ x ≤ (Impl.extent shape s o).2.1
        ∧ (Impl.extent shape s o).2.2.1 ≤ y ∧ y ≤ (Impl.extent shape s o).2.2.2) := by
  rw [d_extent_formula]
  simp only [pixelCentre_eq]
  constructor
  · rintro ⟨i, j, hi, hj, hy, hx⟩
    have hy' := (posY_mem_closed_iff shape.1 s.1 o.1 y (i : α) hs1).mpr hy
    have hx' := (posX_mem_closed_iff shape.2 s.2 o.2 x (j : α) hs2).mpr hx
    have hiH : (i : α) + 1 ≤ (shape.1 : α) := by
      have : ((i + 1 : Nat) : α) ≤ (shape.1 : α) := Nat.cast_le.mpr hi
      push_cast at this; exact this
    have hjW : (j : α) + 1 ≤ (shape.2 : α) := by
      have : ((j + 1 : Nat) : α) ≤ (shape.2 : α) := Nat.cast_le.mpr hj
      push_cast at this; exact this
    have ry := (posY_range_iff shape.1 s.1 o.1 y hs1).mp
      ⟨le_trans (Nat.cast_nonneg i) hy'.1, le_trans hy'.2 hiH⟩
    have rx := (posX_range_iff shape.2 s.2 o.2 x hs2).mp
      ⟨le_trans (Nat.cast_nonneg j) hx'.1, le_trans hx'.2 hjW⟩
    exact ⟨rx.1, rx.2, ry.1, ry.2⟩
  · rintro ⟨hx1, hx2, hy1, hy2⟩
    have ry := (posY_range_iff shape.1 s.1 o.1 y hs1).mpr ⟨hy1, hy2⟩
    have rx := (posX_range_iff shape.2 s.2 o.2 x hs2).mpr ⟨hx1, hx2⟩
    obtain ⟨i, hi, hi1, hi2⟩ := exists_unit_interval hH ry.1 ry.2
    obtain ⟨j, hj, hj1, hj2⟩ := exists_unit_interval hW rx.1 rx.2
    exact ⟨i, j, hi, hj, (posY_mem_closed_iff shape.1 s.1 o.1 y (i : α) hs1).mp ⟨hi1, hi2⟩,
      (posX_mem_closed_iff shape.2 s.2 o.2 x (j : α) hs2).mp ⟨hj1, hj2⟩⟩

/-- (d3) the pixel squares have pairwise disjoint interiors: a point strictly inside the squares of
    `(i, j)` and `(i', j')` forces `(i, j) = (i', j')`. -/
theorem d_pixel_interiors_disjoint (shape : Nat × Nat) (s o : α × α) (hs1 : 0 < s.1) (hs2 : 0 < s.2)
    (p p' : Nat × Nat) (y x : α)
    (hy : (Spec.pixelCentre shape s o p).1 - s.1 / 2 < y ∧ y < (Spec.pixelCentre shape s o p).1 + s.1 / 2)
    (hx : (Spec.pixelCentre shape s o p).2 - s.2 / 2 < x ∧ x < (Spec.pixelCentre shape s o p).2 + s.2 / 2)
    (hy' : (Spec.pixelCentre shape s o p').1 - s.1 / 2 < y ∧ y < (Spec.pixelCentre shape s o p').1 + s.1 / 2)
    (hx' : (Spec.pixelCentre shape s o p').2 - s.2 / 2 < x ∧ x < (Spec.pixelCentre shape s o p').2 + s.2 / 2) :
    p = p' := by
  simp only [pixelCentre_eq] at hy hx hy' hx'
  have e1 : (p.1 : α) < (p'.1 : α) + 1 ∧ (p'.1 : α) < (p.1 : α) + 1 := by
    constructor <;> nlinarith [hy.1, hy.2, hy'.1, hy'.2]
  have e2 : (p.2 : α) < (p'.2 : α) + 1 ∧ (p'.2 : α) < (p.2 : α) + 1 := by
    constructor <;> nlinarith [hx.1, hx.2, hx'.1, hx'.2]
  have c1 : p.1 = p'.1 := by
    have a : (p.1 : α) < ((p'.1 + 1 : Nat) : α) := by push_cast; exact e1.1
    have b : (p'.1 : α) < ((p.1 + 1 : Nat) : α) := by push_cast; exact e1.2
    have := Nat.cast_lt.mp a; have := Nat.cast_lt.mp b; omega
  have c2 : p.2 = p'.2 := by
    have a : (p.2 : α) < ((p'.2 + 1 : Nat) : α) := by push_cast; exact e2.1
    have b : (p'.2 : α) < ((p.2 + 1 : Nat) : α) := by push_cast; exact e2.2
    have := Nat.cast_lt.mp a; have := Nat.cast_lt.mp b; omega
  exact Prod.ext c1 c2

/-! ### (e) continuous conversion and its inverse -/

/-- (e) `grid_scaled_2d_slim_from ∘ grid_pixels_2d_slim_from = id` and
    `grid_pixels_2d_slim_from ∘ grid_scaled_2d_slim_from = id` on every list of coordinates. -/
theorem e_continuous_inverse (shape : Nat × Nat) (s o : α × α) (hs1 : s.1 ≠ 0) (hs2 : s.2 ≠ 0)
    (grid : List (α × α)) :
    Impl.gridScaled2 shape s o (Impl.gridPixels2 shape s o grid) = grid
    ∧ Impl.gridPixels2 shape s o (Impl.gridScaled2 shape s o grid) = grid := by
  simp only [gridScaled2_eq, gridPixels2_eq, List.map_map]
  constructor
  · conv_rhs => rw [← List.map_id grid]
    apply List.map_congr_left
    intro p _
    simp only [Function.comp, id, scaledOfPixels_eq shape s o _ hs1 hs2,
      pixelsOfScaled_eq shape s o p hs1 hs2, posY, posX]
    ext <;> simp only <;> field_simp <;> ring
  · conv_rhs => rw [← List.map_id grid]
    apply List.map_congr_left
    intro p _
    simp only [Function.comp, id, pixelsOfScaled_eq shape s o _ hs1 hs2,
      scaledOfPixels_eq shape s o p hs1 hs2, posY, posX]
    ext <;> simp only <;> field_simp <;> ring

/-! ### (f) the pixel-centre grid of a mask -/

/-- (f) `grid_2d_slim_via_mask_from` (hence `Grid2D.from_mask`, `derive_grid.unmasked`) is the list of the
    documented centres of the unmasked pixels in C01's slim order (`native_index_for_slim_index`), and
    `grid_2d_slim_via_shape_native_from` (`Grid2D.uniform`, `derive_grid.all_false`) lists the centres of all
    pixels in row-major order. -/
theorem f_grid_via_mask (m : Mask) (s o : α × α) (hs1 : s.1 ≠ 0) (hs2 : s.2 ≠ 0) :
    Impl.grid2dSlimViaMask m s o = (Impl.nativeForSlim m).map (Spec.pixelCentre (m.h, m.w) s o)
    ∧ Impl.grid2dSlimViaShape (m.h, m.w) s o = (pixels m.h m.w).map (Spec.pixelCentre (m.h, m.w) s o) := by
  constructor
  · rw [grid2dSlimViaMask_eq]
    apply List.map_congr_left
    intro p _
    exact pixelCentreScaled_eq (m.h, m.w) s o p hs1 hs2
  · rw [grid2dSlimViaShape_eq]
    apply List.map_congr_left
    intro p _
    exact pixelCentreScaled_eq (m.h, m.w) s o p hs1 hs2

/-! ### (h) one dimension -/

/-- (h1) `Grid1D.from_mask` lists `o + (x − (n−1)/2)·s` over the unmasked `x` in ascending order,
    `Grid1D.uniform` over all `x`. -/
theorem h_grid1d (mask : List Bool) (s o : α) (hs : s ≠ 0) :
    Impl.grid1dSlimViaMask mask s o
      = ((List.range mask.length).filter fun x => !mask.getD x true).map
          (fun x : Nat => o + ((x : α) - ((mask.length : α) - 1) / 2) * s)
    ∧ Impl.grid1dSlimViaShape mask.length s o
      = (List.range mask.length).map (fun x : Nat => o + ((x : α) - ((mask.length : α) - 1) / 2) * s) := by
  have hv : ∀ x : Nat, Impl.pixelCentreScaled1 mask.length s o x
      = o + ((x : α) - ((mask.length : α) - 1) / 2) * s := by
    intro x
    simp only [Impl.pixelCentreScaled1, Impl.centralScaled1, centralPixel1_eq]
    field_simp; ring
  constructor
  · rw [grid1dSlimViaMask_eq]; exact List.map_congr_left fun x _ => hv x
  · rw [grid1dSlimViaShape_eq]; exact List.map_congr_left fun x _ => hv x

/-- (h2) `Geometry1D.extent` is `(o − n·s/2, o + n·s/2)`, the union of the pixel intervals
    `[c_x − s/2, c_x + s/2]`, `x < n`. -/
theorem h_extent1 (n : Nat) (s o : α) (hn : 1 ≤ n) (hs : 0 < s) (x : α) :
    Impl.extent1 n s o = (o - (n : α) * s / 2, o + (n : α) * s / 2)
    ∧ ((∃ k : Nat, k < n ∧ o + ((k : α) - ((n : α) - 1) / 2) * s - s / 2 ≤ x
          ∧ x ≤ o + ((k : α) - ((n : α) - 1) / 2) * s + s / 2)
        ↔ ((Impl.extent1 n s o).1 ≤ x ∧ x ≤ (Impl.extent1 n s o).2)) := by
  have hE : Impl.extent1 n s o = (o - (n : α) * s / 2, o + (n : α) * s / 2) := by
    simp only [Impl.extent1, Nat.cast_ofNat, Prod.mk.injEq]
    constructor <;> ring
  refine ⟨hE, ?_⟩
  rw [hE]
  constructor
  · rintro ⟨k, hk, h1, h2⟩
    have h' := (posX_mem_closed_iff n s o x (k : α) hs).mpr ⟨h1, h2⟩
    have hkn : (k : α) + 1 ≤ (n : α) := by
      have : ((k + 1 : Nat) : α) ≤ (n : α) := Nat.cast_le.mpr hk
      push_cast at this; exact this
    exact (posX_range_iff n s o x hs).mp ⟨le_trans (Nat.cast_nonneg k) h'.1, le_trans h'.2 hkn⟩
  · intro h
    have r := (posX_range_iff n s o x hs).mpr h
    obtain ⟨k, hk, h1, h2⟩ := exists_unit_interval hn r.1 r.2
    exact ⟨k, hk, (posX_mem_closed_iff n s o x (k : α) hs).mp ⟨h1, h2⟩⟩

/-- (h3) 1-D index conversion: a coordinate in pixel `k`'s interval (closed on the left) converts to `k`,
    and the centre of pixel `k` converts back to `k`. -/
theorem h_pixel1 {trunc : α → Int} (ht : TruncSpec trunc) (n : Nat) (s o : α) (hs : 0 < s) (k : Nat) (x : α)
    (hx : o + ((k : α) - ((n : α) - 1) / 2) * s - s / 2 ≤ x ∧ x < o + ((k : α) - ((n : α) - 1) / 2) * s + s / 2) :
    Impl.pixelCoordinates1 trunc n s o x = (k : Int)
    ∧ Impl.pixelCoordinates1 trunc n s o (Impl.scaledCoordinates1 n s o (k : α)) = (k : Int) := by
  have h0 : s ≠ 0 := ne_of_gt hs
  have e : ∀ x : α, Impl.pixelCoordinates1 trunc n s o x = trunc (posX n s o x) := by
    intro x
    simp only [Impl.pixelCoordinates1, centralPixel1_eq, half_eq, posX]
    congr 1; field_simp; ring
  have c : Impl.scaledCoordinates1 n s o (k : α) = o + ((k : α) - ((n : α) - 1) / 2) * s := by
    simp only [Impl.scaledCoordinates1, Impl.centralScaled1, centralPixel1_eq]
    field_simp; ring
  constructor
  · rw [e]
    have h' := (posX_mem_iff n s o x (k : α) hs).mpr hx
    exact trunc_eq_of_mem ht h'.1 h'.2
  · rw [c, e, posX_centre n s o (k : α) h0]
    exact trunc_eq_of_mem ht (by linarith) (by linarith)

end geometry

/-! ### (g) shape-based mask constructors -/

section shapes
variable {α : Type} [Field α] [LinearOrder α] [IsStrictOrderedRing α]

/-- (g0) the offset the constructors test is the documented pixel centre *measured from the mask origin*
    (origin `(0,0)` in the centre formula of clause (a)) minus the requested `centre`; the constructors
    never see the mask's `origin`. -/
theorem g_offset_measured_from_mask_origin (shape : Nat × Nat) (s centre : α × α) (p : Nat × Nat) :
    Spec.centreOffset shape s centre p
      = ((Spec.pixelCentre shape s ((0 : α), (0 : α)) p).1 - centre.1,
         (Spec.pixelCentre shape s ((0 : α), (0 : α)) p).2 - centre.2) := by
  rw [centreOffset_eq, pixelCentre_eq]; simp

/-- (g1) `Mask2D.circular`: an `H×W` mask in which pixel `(i, j)` is unmasked iff `dx² + dy² ≤ r²`
    (and `r ≥ 0`; for `r < 0` nothing is unmasked), `(dy, dx)` the offset of its centre from `centre`. -/
theorem g_circular (shape : Nat × Nat) (s centre : α × α) (hs1 : s.1 ≠ 0) (hs2 : s.2 ≠ 0) (r : α)
    {i j : Nat} (hi : i < shape.1) (hj : j < shape.2) {dy dx : α}
    (hd : Spec.centreOffset shape s centre (i, j) = (dy, dx)) :
    (Impl.maskCircular shape s centre r).WF
    ∧ ((Impl.maskCircular shape s centre r).get i j = false ↔ (0 ≤ r ∧ dx * dx + dy * dy ≤ r * r)) := by
  refine ⟨shapeMask_wf _ _ _ _, ?_⟩
  unfold Impl.maskCircular
  rw [shapeMask_unmasked_iff shape s centre _ hs1 hs2 hi hj hd]
  simp only [Impl.circularPoly, sqrtLe_iff, r2_neg]

/-- (g2) `Mask2D.circular_annular`: unmasked iff `inner ≤ √(dx²+dy²) ≤ outer`, in polynomial form. -/
theorem g_annular (shape : Nat × Nat) (s centre : α × α) (hs1 : s.1 ≠ 0) (hs2 : s.2 ≠ 0) (inner outer : α)
    {i j : Nat} (hi : i < shape.1) (hj : j < shape.2) {dy dx : α}
    (hd : Spec.centreOffset shape s centre (i, j) = (dy, dx)) :
    (Impl.maskAnnular shape s centre inner outer).WF
    ∧ ((Impl.maskAnnular shape s centre inner outer).get i j = false
        ↔ ((0 ≤ outer ∧ dx * dx + dy * dy ≤ outer * outer)
            ∧ (inner ≤ 0 ∨ inner * inner ≤ dx * dx + dy * dy))) := by
  refine ⟨shapeMask_wf _ _ _ _, ?_⟩
  unfold Impl.maskAnnular
  rw [shapeMask_unmasked_iff shape s centre _ hs1 hs2 hi hj hd]
  simp only [Impl.annularPoly, Bool.and_eq_true, sqrtLe_iff, leSqrt_iff, r2_neg]

/-- (g3) `Mask2D.circular_anti_annular`: unmasked iff `√(dx²+dy²) ≤ inner` or
    `outer ≤ √(dx²+dy²) ≤ outer2`, in polynomial form. -/
theorem g_anti_annular (shape : Nat × Nat) (s centre : α × α) (hs1 : s.1 ≠ 0) (hs2 : s.2 ≠ 0)
    (inner outer outer2 : α) {i j : Nat} (hi : i < shape.1) (hj : j < shape.2) {dy dx : α}
    (hd : Spec.centreOffset shape s centre (i, j) = (dy, dx)) :
    (Impl.maskAntiAnnular shape s centre inner outer outer2).WF
    ∧ ((Impl.maskAntiAnnular shape s centre inner outer outer2).get i j = false
        ↔ ((0 ≤ inner ∧ dx * dx + dy * dy ≤ inner * inner)
            ∨ ((0 ≤ outer2 ∧ dx * dx + dy * dy ≤ outer2 * outer2)
                ∧ (outer ≤ 0 ∨ outer * outer ≤ dx * dx + dy * dy)))) := by
  refine ⟨shapeMask_wf _ _ _ _, ?_⟩
  unfold Impl.maskAntiAnnular
  rw [shapeMask_unmasked_iff shape s centre _ hs1 hs2 hi hj hd]
  simp only [Impl.antiAnnularPoly, Bool.or_eq_true, Bool.and_eq_true, sqrtLe_iff, leSqrt_iff, r2_neg]

/-- (g4) `Mask2D.elliptical` with `cs = (cos φ, sin φ)`: unmasked iff
    `(dx·cosφ + dy·sinφ)² + ((−dx·sinφ + dy·cosφ)/q)² ≤ R²` (and `R ≥ 0`). -/
theorem g_elliptical (shape : Nat × Nat) (s centre : α × α) (hs1 : s.1 ≠ 0) (hs2 : s.2 ≠ 0)
    (major q : α) (cs : α × α) {i j : Nat} (hi : i < shape.1) (hj : j < shape.2) {dy dx : α}
    (hd : Spec.centreOffset shape s centre (i, j) = (dy, dx)) :
    (Impl.maskElliptical shape s centre major q cs).WF
    ∧ ((Impl.maskElliptical shape s centre major q cs).get i j = false
        ↔ (0 ≤ major
            ∧ (dx * cs.1 + dy * cs.2) * (dx * cs.1 + dy * cs.2)
                + ((-dx * cs.2 + dy * cs.1) / q) * ((-dx * cs.2 + dy * cs.1) / q) ≤ major * major)) := by
  refine ⟨shapeMask_wf _ _ _ _, ?_⟩
  unfold Impl.maskElliptical
  rw [shapeMask_unmasked_iff shape s centre _ hs1 hs2 hi hj hd]
  simp only [Impl.ellipticalPoly, sqrtLe_iff, ellR2_neg]

/-- (g5) `Mask2D.elliptical_annular`: unmasked iff outside-or-on the inner ellipse and inside-or-on the
    outer ellipse, each with its own axis ratio and rotation. -/
theorem g_elliptical_annular (shape : Nat × Nat) (s centre : α × α) (hs1 : s.1 ≠ 0) (hs2 : s.2 ≠ 0)
    (innerMajor innerQ : α) (innerCS : α × α) (outerMajor outerQ : α) (outerCS : α × α)
    {i j : Nat} (hi : i < shape.1) (hj : j < shape.2) {dy dx : α}
    (hd : Spec.centreOffset shape s centre (i, j) = (dy, dx)) :
    (Impl.maskEllipticalAnnular shape s centre innerMajor innerQ innerCS outerMajor outerQ outerCS).WF
    ∧ ((Impl.maskEllipticalAnnular shape s centre innerMajor innerQ innerCS outerMajor outerQ outerCS).get i j
          = false
        ↔ ((innerMajor ≤ 0
              ∨ innerMajor * innerMajor
                  ≤ (dx * innerCS.1 + dy * innerCS.2) * (dx * innerCS.1 + dy * innerCS.2)
                    + ((-dx * innerCS.2 + dy * innerCS.1) / innerQ) * ((-dx * innerCS.2 + dy * innerCS.1) / innerQ))
            ∧ (0 ≤ outerMajor
              ∧ (dx * outerCS.1 + dy * outerCS.2) * (dx * outerCS.1 + dy * outerCS.2)
                  + ((-dx * outerCS.2 + dy * outerCS.1) / outerQ) * ((-dx * outerCS.2 + dy * outerCS.1) / outerQ)
                ≤ outerMajor * outerMajor))) := by
  refine ⟨shapeMask_wf _ _ _ _, ?_⟩
  unfold Impl.maskEllipticalAnnular
  rw [shapeMask_unmasked_iff shape s centre _ hs1 hs2 hi hj hd]
  simp only [Impl.ellipticalAnnularPoly, Bool.and_eq_true, sqrtLe_iff, leSqrt_iff, ellR2_neg]

end shapes

/-! ### (g, analytic form) over ℝ the code's own `sqrt / arctan2 / sin / cos / radians` tests produce the same
    masks as the polynomial tests the driver executes, and the inequality is the documented one. -/

/-- (g6a) for ANY `sqrt, arctan2, sin, cos` meeting the contract `LibmSpec` (sqrt is the non-negative root on
    non-negatives; `r·cos(arctan2 y x) = x`, `r·sin(arctan2 y x) = y`; angle-addition formulas) and any
    `radians`, over any ordered field, each constructor run with the code's test equals the constructor run
    with the polynomial test at `(cos (radians φ), sin (radians φ))`. -/
theorem g_code_form_eq_polynomial_form_of_contract {α : Type} [Field α] [LinearOrder α]
    [IsStrictOrderedRing α] {sqrt : α → α} {arctan2 : α → α → α} {sin cos : α → α}
    (L : LibmSpec sqrt arctan2 sin cos) (radians : α → α) (shape : Nat × Nat) (s centre : α × α) :
    (∀ r, Impl.shapeMask shape s centre (Impl.circularCode sqrt r) = Impl.maskCircular shape s centre r)
    ∧ (∀ a b, Impl.shapeMask shape s centre (Impl.annularCode sqrt a b) = Impl.maskAnnular shape s centre a b)
    ∧ (∀ a b c, Impl.shapeMask shape s centre (Impl.antiAnnularCode sqrt a b c)
        = Impl.maskAntiAnnular shape s centre a b c)
    ∧ (∀ major q angle,
        Impl.shapeMask shape s centre (Impl.ellipticalCode sqrt arctan2 sin cos radians major q angle)
          = Impl.maskElliptical shape s centre major q (cos (radians angle), sin (radians angle)))
    ∧ (∀ ri qi ai ro qo ao,
        Impl.shapeMask shape s centre
            (Impl.ellipticalAnnularCode sqrt arctan2 sin cos radians ri qi ai ro qo ao)
          = Impl.maskEllipticalAnnular shape s centre ri qi (cos (radians ai), sin (radians ai))
              ro qo (cos (radians ao), sin (radians ao))) := by
  refine ⟨fun r => ?_, fun a b => ?_, fun a b c => ?_, fun major q angle => ?_,
    fun ri qi ai ro qo ao => ?_⟩
  · unfold Impl.maskCircular; congr 1; funext ys xs; exact L.circular r ys xs
  · unfold Impl.maskAnnular; congr 1; funext ys xs; exact L.annular a b ys xs
  · unfold Impl.maskAntiAnnular; congr 1; funext ys xs; exact L.antiAnnular a b c ys xs
  · unfold Impl.maskElliptical; congr 1; funext ys xs; exact L.elliptical radians major q angle ys xs
  · unfold Impl.maskEllipticalAnnular; congr 1; funext ys xs
    exact L.ellipticalAnnular radians ri qi ai ro qo ao ys xs

/-- (g6b) the contract is met by `Real.sqrt`, `arctan2 y x := Complex.arg ⟨x, y⟩`, `Real.sin`, `Real.cos`. -/
theorem libm_contract_real : LibmSpec Real.sqrt realArctan2 Real.sin Real.cos := libmSpec_real

/-- (g6) with `sqrt := Real.sqrt`, `arctan2 y x := Complex.arg ⟨x, y⟩`, `sin/cos := Real.sin/Real.cos`,
    `radians a := a·π/180`, each constructor run with the code's test equals the constructor run with the
    polynomial test at `(cos φ, sin φ)`. -/
theorem g_code_form_eq_polynomial_form (shape : Nat × Nat) (s centre : ℝ × ℝ) :
    (∀ r, Impl.shapeMask shape s centre (Impl.circularCode Real.sqrt r) = Impl.maskCircular shape s centre r)
    ∧ (∀ a b, Impl.shapeMask shape s centre (Impl.annularCode Real.sqrt a b) = Impl.maskAnnular shape s centre a b)
    ∧ (∀ a b c, Impl.shapeMask shape s centre (Impl.antiAnnularCode Real.sqrt a b c)
        = Impl.maskAntiAnnular shape s centre a b c)
    ∧ (∀ major q angle,
        Impl.shapeMask shape s centre
            (Impl.ellipticalCode Real.sqrt realArctan2 Real.sin Real.cos realRadians major q angle)
          = Impl.maskElliptical shape s centre major q (realCS angle))
    ∧ (∀ ri qi ai ro qo ao,
        Impl.shapeMask shape s centre
            (Impl.ellipticalAnnularCode Real.sqrt realArctan2 Real.sin Real.cos realRadians ri qi ai ro qo ao)
          = Impl.maskEllipticalAnnular shape s centre ri qi (realCS ai) ro qo (realCS ao)) := by
  refine ⟨fun r => ?_, fun a b => ?_, fun a b c => ?_, fun major q angle => ?_,
    fun ri qi ai ro qo ao => ?_⟩
  · unfold Impl.maskCircular; congr 1; funext ys xs; exact circularCode_eq_poly r ys xs
  · unfold Impl.maskAnnular; congr 1; funext ys xs; exact annularCode_eq_poly a b ys xs
  · unfold Impl.maskAntiAnnular; congr 1; funext ys xs; exact antiAnnularCode_eq_poly a b c ys xs
  · unfold Impl.maskElliptical; congr 1; funext ys xs; exact ellipticalCode_eq_poly major q angle ys xs
  · unfold Impl.maskEllipticalAnnular; congr 1; funext ys xs
    exact ellipticalAnnularCode_eq_poly ri qi ai ro qo ao ys xs

/-- (g7) the circular constructor as the code computes it (with `Real.sqrt`) unmasks exactly the pixels
    with `√(dx² + dy²) ≤ r`. -/
theorem g_circular_real (shape : Nat × Nat) (s centre : ℝ × ℝ) (hs1 : s.1 ≠ 0) (hs2 : s.2 ≠ 0) (r : ℝ)
    {i j : Nat} (hi : i < shape.1) (hj : j < shape.2) {dy dx : ℝ}
    (hd : Spec.centreOffset shape s centre (i, j) = (dy, dx)) :
    (Impl.shapeMask shape s centre (Impl.circularCode Real.sqrt r)).get i j = false
      ↔ Real.sqrt (dx * dx + dy * dy) ≤ r := by
  rw [(g_code_form_eq_polynomial_form shape s centre).1 r,
    (g_circular shape s centre hs1 hs2 r hi hj hd).2, sqrt_le_iff_poly]

/-- (g8) the elliptical constructor as the code computes it unmasks exactly the pixels whose elliptical
    radius `√((dx·cosφ + dy·sinφ)² + ((−dx·sinφ + dy·cosφ)/q)²)` is at most the major-axis radius, `φ` the
    angle in degrees counter-clockwise from the positive x-axis. -/
theorem g_elliptical_real (shape : Nat × Nat) (s centre : ℝ × ℝ) (hs1 : s.1 ≠ 0) (hs2 : s.2 ≠ 0)
    (major q angle : ℝ) {i j : Nat} (hi : i < shape.1) (hj : j < shape.2) {dy dx : ℝ}
    (hd : Spec.centreOffset shape s centre (i, j) = (dy, dx)) :
    (Impl.shapeMask shape s centre
        (Impl.ellipticalCode Real.sqrt realArctan2 Real.sin Real.cos realRadians major q angle)).get i j = false
      ↔ Real.sqrt
          ((dx * Real.cos (angle * Real.pi / 180) + dy * Real.sin (angle * Real.pi / 180))
              * (dx * Real.cos (angle * Real.pi / 180) + dy * Real.sin (angle * Real.pi / 180))
            + ((-dx * Real.sin (angle * Real.pi / 180) + dy * Real.cos (angle * Real.pi / 180)) / q)
              * ((-dx * Real.sin (angle * Real.pi / 180) + dy * Real.cos (angle * Real.pi / 180)) / q))
        ≤ major := by
  rw [(g_code_form_eq_polynomial_form shape s centre).2.2.2.1 major q angle,
    (g_elliptical shape s centre hs1 hs2 major q (realCS angle) hi hj hd).2, sqrt_le_iff_poly]
  simp only [realCS, realRadians]

/-- (g9) annular, anti-annular and elliptical-annular constructors as the code computes them, in the
    documented square-root form. -/
theorem g_annular_family_real (shape : Nat × Nat) (s centre : ℝ × ℝ) (hs1 : s.1 ≠ 0) (hs2 : s.2 ≠ 0)
    {i j : Nat} (hi : i < shape.1) (hj : j < shape.2) {dy dx : ℝ}
    (hd : Spec.centreOffset shape s centre (i, j) = (dy, dx)) :
    (∀ inner outer,
      (Impl.shapeMask shape s centre (Impl.annularCode Real.sqrt inner outer)).get i j = false
        ↔ (inner ≤ Real.sqrt (dx * dx + dy * dy) ∧ Real.sqrt (dx * dx + dy * dy) ≤ outer))
    ∧ (∀ inner outer outer2,
      (Impl.shapeMask shape s centre (Impl.antiAnnularCode Real.sqrt inner outer outer2)).get i j = false
        ↔ (Real.sqrt (dx * dx + dy * dy) ≤ inner
            ∨ (outer ≤ Real.sqrt (dx * dx + dy * dy) ∧ Real.sqrt (dx * dx + dy * dy) ≤ outer2)))
    ∧ (∀ ri qi ai ro qo ao,
      (Impl.shapeMask shape s centre
          (Impl.ellipticalAnnularCode Real.sqrt realArctan2 Real.sin Real.cos realRadians ri qi ai ro qo ao)).get
          i j = false
        ↔ (ri ≤ Real.sqrt (Impl.ellR2 (realCS ai) qi (-dy) dx)
            ∧ Real.sqrt (Impl.ellR2 (realCS ao) qo (-dy) dx) ≤ ro)) := by
  refine ⟨fun inner outer => ?_, fun inner outer outer2 => ?_, fun ri qi ai ro qo ao => ?_⟩
  · rw [(g_code_form_eq_polynomial_form shape s centre).2.1 inner outer,
      (g_annular shape s centre hs1 hs2 inner outer hi hj hd).2, sqrt_le_iff_poly, le_sqrt_iff_poly]
    exact and_comm
  · rw [(g_code_form_eq_polynomial_form shape s centre).2.2.1 inner outer outer2,
      (g_anti_annular shape s centre hs1 hs2 inner outer outer2 hi hj hd).2, sqrt_le_iff_poly,
      sqrt_le_iff_poly, le_sqrt_iff_poly]
    constructor
    · rintro (h | ⟨h1, h2⟩)
      · exact Or.inl h
      · exact Or.inr ⟨h2, h1⟩
    · rintro (h | ⟨h1, h2⟩)
      · exact Or.inl h
      · exact Or.inr ⟨h2, h1⟩
  · rw [(g_code_form_eq_polynomial_form shape s centre).2.2.2.2 ri qi ai ro qo ao,
      (g_elliptical_annular shape s centre hs1 hs2 ri qi (realCS ai) ro qo (realCS ao) hi hj hd).2,
      sqrt_le_iff_poly, le_sqrt_iff_poly, ellR2_neg, ellR2_neg]

/-! ### non-vacuity: concrete instances meeting every hypothesis above (3×4 frame, anisotropic scales
    (1/2, 2), origin (1, −3), the driver's `truncRat`) -/
example :
    Impl.pixelCoordinates2 truncRat (3, 4) ((1 / 2 : Rat), 2) (1, -3) (6 / 5, -2) = (1, 2)
    ∧ Impl.gridPixelIndexes2 truncRat (3, 4) ((1 / 2 : Rat), 2) (1, -3) [(6 / 5, -2), (3 / 10, 1 / 10)] = [6, 11]
    ∧ Impl.scaledCoordinates2 (3, 4) ((1 / 2 : Rat), 2) (1, -3) (1, 2) = (1, -2)
    ∧ Impl.extent (3, 4) ((1 / 2 : Rat), 2) (1, -3) = (-7, 1, 1 / 4, 7 / 4)
    ∧ Impl.grid2dSlimViaMask ⟨2, 2, [false, true, false, false]⟩ ((1 / 2 : Rat), 2) (1, -3)
        = [(5 / 4, -4), (3 / 4, -4), (3 / 4, -2)] := by
  decide +kernel

/-- a 5×4 frame with scales (1/2, 1), centre (1/5, 1/10), radius 11/10: a non-trivial circular mask; an
    elliptical mask with axis ratio 1/2 rotated by the (rational) rotation (3/5, 4/5). -/
example :
    Impl.maskCircular (5, 4) ((1 / 2 : Rat), 1) (1 / 5, 1 / 10) (11 / 10)
      = ⟨5, 4, [true, false, false, true, true, false, false, true, true, false, false, true,
                true, false, false, true, true, true, true, true]⟩
    ∧ Spec.centreOffset (5, 4) ((1 / 2 : Rat), 1) (1 / 5, 1 / 10) (1, 2) = (3 / 10, 2 / 5)
    ∧ (Impl.maskElliptical (3, 3) ((1 : Rat), 1) (0, 0) (3 / 2) (1 / 2) (3 / 5, 4 / 5)).bits
      = [true, false, false, true, false, true, false, false, true] := by
  decide +kernel

end C02
