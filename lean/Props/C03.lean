/-
Props/C03.lean — property C03 (work in progress: theorems are being added).
-/
import Model.Convolution

open Model

namespace C03

/-- even-sized kernels are rejected by the convolver, never blurred with -/
theorem even_kernel_rejected (m : Mask) (K : Kernel Rat) (h : K.h % 2 = 0 ∨ K.w % 2 = 0) :
    Impl.convolver m K = .error .evenKernel := by
  unfold Impl.convolver
  rcases h with h | h <;> simp [h]

end C03
