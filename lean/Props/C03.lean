/-
Props/C03.lean — property C03: masked PSF blurring equals the true 2-D convolution restricted to
the mask.  Every theorem quantifies over all frame shapes, all masks, all kernels of any odd shape
(non-square, asymmetric, signed) and all images / blurring images / mapping matrices with entries
in an arbitrary commutative ring `α` (ℝ, ℚ, …).  They are stated about the `Impl` layer of
Model/Convolution.lean (loop transliterations of `Convolver.__init__`, `frame_at_coordinates_jit`,
`convolve_jit`, `convolve_no_blurring_jit`, `convolve_matrix_jit` WITH repair D1), which the driver
executes against the Python on every run.

`Spec.conv2 h w K a p = Σ_{i<K.h} Σ_{j<K.w} a[p + (K.h/2, K.w/2) − (i,j)] · K[i,j]` with `a` read as
zero outside the `h×w` frame: the full 2-D convolution with the flipped, centred kernel.
The hypothesis `Impl.convolver m K = .ok cv` says the `Convolver` was constructed without an
exception; by `convolver_defined_iff` that is: odd kernel and every footprint inside the frame.
-/
import Model.Convolution
import Proofs.ConvolutionMain
import Proofs.ConvolutionLinear
import Proofs.ConvolutionPipeline

open Model

namespace C03

variable {α : Type} [CommRing α]

/-! ## (b, first half) when a convolver exists -/

/-- even-sized kernels are rejected — `KernelException`, never a value. -/
theorem even_kernel_rejected (m : Mask) (K : Kernel α) (h : K.h % 2 = 0 ∨ K.w % 2 = 0) :
    Impl.convolver m K = .error .evenKernel := by
  unfold Impl.convolver
  rcases h with h | h <;> simp [h]

/-- for an odd kernel the `Convolver` is constructed exactly when the kernel footprint of every
    unmasked pixel stays inside the frame; otherwise the blurring-mask error is raised. -/
theorem convolver_defined_iff (m : Mask) (K : Kernel α) (hh : K.h % 2 = 1) (hw : K.w % 2 = 1) :
    ((∃ cv, Impl.convolver m K = .ok cv) ↔
        ∀ p : Nat × Nat, p.1 < m.h → p.2 < m.w → m.get p.1 p.2 = false →
          Spec.footprintInside m.h m.w K.h K.w p)
    ∧ ((¬ ∃ cv, Impl.convolver m K = .ok cv) → Impl.convolver m K = .error .footprintOutside) := by
  have hodd : (K.h % 2 == 0 || K.w % 2 == 0) = false := by simp [hh, hw]
  have hsome := blurringBits_isSome_iff m hh hw
  cases hb : Impl.blurringBits m K.h K.w with
  | none =>
    rw [hb] at hsome
    have hres : Impl.convolver m K = .error .footprintOutside := by
      simp only [Impl.convolver, hodd, hb, Bool.false_eq_true, if_false]
    rw [hres]
    refine ⟨⟨fun h => ?_, fun h => ?_⟩, fun _ => rfl⟩
    · obtain ⟨cv, h⟩ := h; cases h
    · exact absurd (hsome.mpr h) (by simp)
  | some b =>
    rw [hb] at hsome
    have hres : ∃ cv, Impl.convolver m K = .ok cv := by
      simp only [Impl.convolver, hodd, hb, Bool.false_eq_true, if_false]
      exact ⟨_, rfl⟩
    exact ⟨⟨fun _ => hsome.mp rfl, fun _ => hres⟩, fun h => absurd hres h⟩

/-! ## (a) the blurred image is the true convolution of the combined native image -/

/-- (a) `convolve_image(image, blurring_image)`: the result has one value per unmasked pixel and the
    value at the k-th unmasked pixel `p` (slim order = `native_for_slim`) is the full 2-D convolution
    at `p` of the combined native image — `image` scattered to the mask's unmasked pixels plus
    `blurring_image` scattered to the blurring mask's unmasked pixels, zero elsewhere. -/
theorem convolve_eq_true_convolution (m : Mask) (K : Kernel α) (cv : Impl.Convolver α)
    (hcv : Impl.convolver m K = .ok cv) (img blur : List α)
    (himg : img.length = Impl.totalPixels m)
    (hblur : blur.length = Impl.totalPixels cv.blurringMask) :
    (Impl.convolve cv img blur).length = Impl.totalPixels m
    ∧ ∀ k (hk : k < (Impl.nativeForSlim m).length),
        (Impl.convolve cv img blur).getD k 0
          = Spec.conv2 m.h m.w K
              (Spec.addNative (Impl.nativeFrom m img 0) (Impl.nativeFrom cv.blurringMask blur 0))
              ((Impl.nativeForSlim m)[k]) := by
  rw [totalPixels_eq] at himg hblur
  refine ⟨by rw [convolve_length, himg, totalPixels_eq], ?_⟩
  intro k hk
  simp only [nativeForSlim_eq] at hk ⊢
  exact convolve_getD m K cv hcv img blur himg hblur k hk

/-- (a') `convolve_image_no_blurring(image)`: the same with no blurring-region light — the true
    convolution of the masked image alone. -/
theorem convolve_no_blurring_eq_true_convolution (m : Mask) (K : Kernel α) (cv : Impl.Convolver α)
    (hcv : Impl.convolver m K = .ok cv) (img : List α) (himg : img.length = Impl.totalPixels m) :
    (Impl.convolveNoBlurring cv img).length = Impl.totalPixels m
    ∧ ∀ k (hk : k < (Impl.nativeForSlim m).length),
        (Impl.convolveNoBlurring cv img).getD k 0
          = Spec.conv2 m.h m.w K (Impl.nativeFrom m img 0) ((Impl.nativeForSlim m)[k]) := by
  rw [totalPixels_eq] at himg
  refine ⟨by rw [convolveNoBlurring_length, himg, totalPixels_eq], ?_⟩
  intro k hk
  simp only [nativeForSlim_eq] at hk ⊢
  exact convolveNoBlurring_getD m K cv hcv img himg k hk

/-! ## (e) agreement with the whole-frame convolution, hence (b) non-interference -/

/-- (e) take ANY native image `a` of the frame.  Blurring its masked part together with its
    blurring-region part gives, at every unmasked pixel, the value of the whole-frame convolution
    of `a` itself (`scipy.signal.convolve2d(a, K, mode="same")` under its contract `Spec.convSame`,
    which is what `Kernel2D.convolved_array_from` and `SimulatorImaging` compute). -/
theorem whole_frame_agrees (m : Mask) (K : Kernel α) (cv : Impl.Convolver α)
    (hcv : Impl.convolver m K = .ok cv) (a same : List α)
    (hsame : Spec.convSame m.h m.w K a = some same) :
    ∀ k (hk : k < (Impl.nativeForSlim m).length),
      (Impl.convolve cv (Impl.slimFrom m a 0) (Impl.slimFrom cv.blurringMask a 0)).getD k 0
        = same.getD (((Impl.nativeForSlim m)[k]).1 * m.w + ((Impl.nativeForSlim m)[k]).2) 0 := by
  intro k hk
  simp only [nativeForSlim_eq] at hk ⊢
  rw [whole_frame m K cv hcv a k hk]
  unfold Spec.convSame at hsame
  split at hsame
  · cases hsame
  · simp only [Option.some.injEq] at hsame
    subst hsame
    have hmem := mem_unmaskedPixels.mp (List.getElem_mem hk)
    have hpix := pixels_getElem?_flat (mem_pixels.mpr ⟨hmem.1, hmem.2.1⟩)
    rw [List.getD_eq_getElem?_getD, List.getElem?_map, hpix]
    rfl

/-- (e, corollary) a noise-free simulated image is fitted with zero residual by the image that
    generated it: data = whole-frame convolution gathered at the mask, model = masked blurring of
    the generating image. -/
theorem simulated_zero_residual (m : Mask) (K : Kernel α) (cv : Impl.Convolver α)
    (hcv : Impl.convolver m K = .ok cv) (a same : List α)
    (hsame : Spec.convSame m.h m.w K a = some same) :
    ∀ k, k < Impl.totalPixels m →
      (Impl.slimFrom m same 0).getD k 0
        - (Impl.convolve cv (Impl.slimFrom m a 0) (Impl.slimFrom cv.blurringMask a 0)).getD k 0 = 0 := by
  intro k hk
  rw [totalPixels_eq] at hk
  have hk' : k < (Impl.nativeForSlim m).length := by rw [nativeForSlim_eq]; exact hk
  rw [whole_frame_agrees m K cv hcv a same hsame k hk', slimFrom_eq]
  simp only [nativeForSlim_eq]
  simp [Spec.slimFrom, List.getD_eq_getElem?_getD, hk, flat]

/-- (b) values outside the mask and its blurring region never influence the result: two native
    images that agree on every pixel unmasked in the mask or in the blurring mask blur identically. -/
theorem non_interference (m : Mask) (K : Kernel α) (cv : Impl.Convolver α)
    (hcv : Impl.convolver m K = .ok cv) (a a' : List α)
    (hagree : ∀ y x, y < m.h → x < m.w →
      (m.get y x = false ∨ cv.blurringMask.get y x = false) →
        a.getD (y * m.w + x) 0 = a'.getD (y * m.w + x) 0) :
    Impl.convolve cv (Impl.slimFrom m a 0) (Impl.slimFrom cv.blurringMask a 0)
      = Impl.convolve cv (Impl.slimFrom m a' 0) (Impl.slimFrom cv.blurringMask a' 0) := by
  have spec := convolver_ok m K cv hcv
  have hshape : cv.blurringMask.h = m.h ∧ cv.blurringMask.w = m.w := by
    obtain ⟨h1, h2, _, _⟩ := C10_blurring_spec m spec.oddH spec.oddW spec.blur
    exact ⟨h1, h2⟩
  have h1 : Impl.slimFrom m a 0 = Impl.slimFrom m a' 0 := by
    rw [slimFrom_eq, slimFrom_eq]
    apply List.map_congr_left
    intro p hp
    have := mem_unmaskedPixels.mp hp
    exact hagree p.1 p.2 this.1 this.2.1 (Or.inl this.2.2)
  have h2 : Impl.slimFrom cv.blurringMask a 0 = Impl.slimFrom cv.blurringMask a' 0 := by
    rw [slimFrom_eq, slimFrom_eq]
    apply List.map_congr_left
    intro p hp
    have := mem_unmaskedPixels.mp hp
    rw [hshape.1, hshape.2] at this
    simp only [flat, hshape.2]
    exact hagree p.1 p.2 this.1 this.2.1 (Or.inr this.2.2)
  rw [h1, h2]

/-- the blurring mask a constructed convolver uses is the one characterised by C10.a (same shape as
    the mask). -/
theorem convolver_blurring_mask (m : Mask) (K : Kernel α) (cv : Impl.Convolver α)
    (hcv : Impl.convolver m K = .ok cv) :
    Impl.blurringFrom m K.h K.w = .ok cv.blurringMask
    ∧ cv.blurringMask.h = m.h ∧ cv.blurringMask.w = m.w := by
  have spec := convolver_ok m K cv hcv
  obtain ⟨h1, h2, _, _⟩ := C10_blurring_spec m spec.oddH spec.oddW spec.blur
  exact ⟨spec.blur, h1, h2⟩

/-! ## (c) blurring a mapping matrix = the same operator applied to each column -/

/-- (c) `convolve_mapping_matrix(M)` (repaired code: entries are skipped only when exactly zero):
    column `c` of the result is `convolve_image_no_blurring` applied to column `c` of `M` — for every
    real-valued matrix (any sign, any sparsity). -/
theorem convolve_matrix_columnwise [DecidableEq α] (cv : Impl.Convolver α) (nrows ncols : Nat)
    (M : List (List α)) (c : Nat) (hc : c < ncols) :
    (Impl.convolveMatrix cv nrows ncols M).map (fun row => row.getD c 0)
      = Impl.convolveNoBlurring cv ((List.range nrows).map fun s => (M.getD s []).getD c 0) := by
  have := convolveMatrixWith_col (fun v : α => v != 0) cv nrows ncols M c hc
    (fun s _ h => by simpa using h)
  exact this

/-- (c, pre-repair code) with the original test `value > 0` the statement holds only when every
    entry of the column is positive or zero … -/
theorem convolve_matrix_columnwise_as_is_partial [LT α] [DecidableLT α] (cv : Impl.Convolver α)
    (nrows ncols : Nat) (M : List (List α)) (c : Nat) (hc : c < ncols)
    (hpos : ∀ s, s < nrows → ¬ (0 < (M.getD s []).getD c 0) → (M.getD s []).getD c 0 = 0) :
    (Impl.convolveMatrixAsIs cv nrows ncols M).map (fun row => row.getD c 0)
      = Impl.convolveNoBlurring cv ((List.range nrows).map fun s => (M.getD s []).getD c 0) := by
  have := convolveMatrixWith_col (fun v : α => decide (0 < v)) cv nrows ncols M c hc
    (fun s hs h => hpos s hs (by simpa using h))
  exact this

/-- … and fails on a negative entry (defect D1, repaired): 1×3 mask strip with two unmasked pixels,
    kernel (1,3) = [1,2,3], matrix column (−1, 0): the pre-repair loop returns zeros, the operator
    (and the repaired loop) returns (−2, −3). -/
theorem d1_pre_repair_witness :
    let m : Mask := ⟨3, 5, [true, true, true, true, true, true, false, false, true, true,
                            true, true, true, true, true]⟩
    let K : Kernel Int := ⟨1, 3, [1, 2, 3]⟩
    ∃ cv, Impl.convolver m K = .ok cv
      ∧ Impl.convolveMatrixAsIs cv 2 1 [[-1], [0]] = [[0], [0]]
      ∧ Impl.convolveMatrix cv 2 1 [[-1], [0]] = [[-2], [-3]]
      ∧ Impl.convolveNoBlurring cv [-1, 0] = [-2, -3] := by
  refine ⟨_, rfl, ?_, ?_, ?_⟩ <;> decide

/-! ## (d) linearity of the three operators -/

/-- (d1) `convolve_image` is linear: for `z = a·x + y`, `bz = a·bx + by` (entry-wise, equal
    lengths) the result is `a·convolve(x,bx) + convolve(y,by)` entry-wise. -/
theorem convolve_is_linear (cv : Impl.Convolver α) (a : α) (x y z bx by' bz : List α)
    (hx : x.length = z.length) (hy : y.length = z.length)
    (hz : ∀ s, z.getD s 0 = a * x.getD s 0 + y.getD s 0)
    (hbx : bx.length = bz.length) (hby : by'.length = bz.length)
    (hbz : ∀ s, bz.getD s 0 = a * bx.getD s 0 + by'.getD s 0) :
    ∀ t, t < z.length →
      (Impl.convolve cv z bz).getD t 0
        = a * (Impl.convolve cv x bx).getD t 0 + (Impl.convolve cv y by').getD t 0 :=
  fun t ht => convolve_linear cv a x y z bx by' bz hx hy hz hbx hby hbz t ht

/-- (d2) `convolve_image_no_blurring` is linear. -/
theorem convolve_no_blurring_is_linear (cv : Impl.Convolver α) (a : α) (x y z : List α)
    (hx : x.length = z.length) (hy : y.length = z.length)
    (hz : ∀ s, z.getD s 0 = a * x.getD s 0 + y.getD s 0) :
    ∀ t, t < z.length →
      (Impl.convolveNoBlurring cv z).getD t 0
        = a * (Impl.convolveNoBlurring cv x).getD t 0 + (Impl.convolveNoBlurring cv y).getD t 0 :=
  fun t ht => convolveNoBlurring_linear cv a x y z hx hy hz t ht

/-- (d3) `convolve_mapping_matrix` is linear in the matrix, column by column: if column `c` of `L`
    is `a·(column c of M) + (column c of M')` then so is column `c` of the blurred matrices. -/
theorem convolve_matrix_is_linear [DecidableEq α] (cv : Impl.Convolver α) (nrows ncols : Nat)
    (a : α) (L M M' : List (List α)) (c : Nat) (hc : c < ncols)
    (hL : ∀ s, s < nrows →
      (L.getD s []).getD c 0 = a * (M.getD s []).getD c 0 + (M'.getD s []).getD c 0) :
    ∀ t, t < nrows →
      ((Impl.convolveMatrix cv nrows ncols L).map (fun row => row.getD c 0)).getD t 0
        = a * ((Impl.convolveMatrix cv nrows ncols M).map (fun row => row.getD c 0)).getD t 0
          + ((Impl.convolveMatrix cv nrows ncols M').map (fun row => row.getD c 0)).getD t 0 := by
  intro t ht
  rw [convolve_matrix_columnwise cv nrows ncols L c hc, convolve_matrix_columnwise cv nrows ncols M c hc,
    convolve_matrix_columnwise cv nrows ncols M' c hc]
  apply convolveNoBlurring_linear cv a
  · simp
  · simp
  · intro s
    by_cases hs : s < nrows
    · simp only [List.getD_eq_getElem?_getD, List.getElem?_map, List.getElem?_range hs, Option.map_some,
        Option.getD_some]
      have := hL s hs
      simp only [List.getD_eq_getElem?_getD] at this
      exact this
    · have h1 : ∀ N : List (List α),
          ((List.range nrows).map fun s => (N.getD s []).getD c 0).getD s 0 = 0 := by
        intro N
        rw [List.getD_eq_getElem?_getD, List.getElem?_eq_none (by simp; omega)]
        rfl
      rw [h1, h1, h1]; ring
  · simpa using ht

/-! ## (e, end to end) simulate → mask → fit, as the code composes it

`Impl.simulateAndFit` (Model/ConvolutionPipeline.lean) composes the transliterations of
`SimulatorImaging.__init__` / `via_image_from` (noise switches off, background sky added and
subtracted), `Kernel2D.__init__` normalisation, `Kernel2D.convolved_array_from`, `Imaging.__init__`,
`Imaging.apply_mask`, `Imaging.convolver` and `Convolver.convolve_image`, WITH repair D153.
`scipy.signal.convolve2d(mode="same")` is the parameter `scipy`; its contract is the hypothesis
`Conv2dSameContract scipy`, satisfied by `Spec.convSameFn` (`convSameFn_contract`). -/

section Pipeline
variable {F : Type} [Field F]

/-- (e, full strength) for every image, every odd kernel (any shape, any sign; normalised by the
    simulator or not — if it is, its entries must not sum to zero), every mask whose kernel
    footprints stay inside the frame, every background sky level / exposure time: the dataset
    simulated noise-free from the image and then masked is fitted with EXACTLY zero residual by
    `convolver.convolve_image(image on the mask, image on the blurring mask)`.  Moreover the simulated
    data are the whole-frame convolution with the pipeline's one PSF `kernel2d K normalize_psf`, the
    masked data are its gather at the mask, and that PSF is the one the masked dataset holds. -/
theorem pipeline_zero_residual (scipy : Conv2dSame F) (hscipy : Conv2dSameContract scipy)
    (exposureTime backgroundSky noiseLevel : F) (K : Kernel F) (normalizePsf : Bool)
    (hkh : K.h % 2 = 1) (hkw : K.w % 2 = 1)
    (hsum : normalizePsf = true → Impl.kernelSum K ≠ 0) (mask : Mask) (image : List F)
    (hin : ∀ p : Nat × Nat, p.1 < mask.h → p.2 < mask.w → mask.get p.1 p.2 = false →
      Spec.footprintInside mask.h mask.w K.h K.w p) :
    ∃ obs, Impl.simulateAndFit scipy exposureTime backgroundSky true K normalizePsf noiseLevel mask image
        = .ok obs
      ∧ obs.psf = Impl.kernel2d K normalizePsf
      ∧ obs.simulated = (pixels mask.h mask.w).map
          (fun p => Spec.conv2 mask.h mask.w (Impl.kernel2d K normalizePsf) image p)
      ∧ obs.data = Impl.slimFrom mask obs.simulated 0
      ∧ obs.residual.length = Impl.totalPixels mask
      ∧ ∀ k, obs.residual.getD k 0 = 0 := by
  rw [totalPixels_eq]
  exact simulateAndFit_spec scipy hscipy exposureTime backgroundSky noiseLevel K normalizePsf hkh hkw
    hsum mask image hin

/-- normalisation is applied exactly once along the pipeline: the code normalises at up to three
    places (`SimulatorImaging.__init__`, `Imaging.__init__` in `via_image_from`, `Imaging.__init__` in
    `apply_mask`), yet the simulator, the simulated dataset and the masked dataset all hold the same
    PSF `kernel2d K normalize_psf` — `K / ΣK` when `normalize_psf`, `K` itself otherwise — because
    re-normalising a normalised kernel is the identity and the flag is forwarded. -/
theorem pipeline_psf_normalised_once (scipy : Conv2dSame F) (hscipy : Conv2dSameContract scipy)
    (exposureTime backgroundSky noiseLevel : F) (K : Kernel F) (normalizePsf : Bool)
    (hkh : K.h % 2 = 1) (hkw : K.w % 2 = 1)
    (hsum : normalizePsf = true → Impl.kernelSum K ≠ 0) (mask : Mask) (image : List F)
    (hin : ∀ p : Nat × Nat, p.1 < mask.h → p.2 < mask.w → mask.get p.1 p.2 = false →
      Spec.footprintInside mask.h mask.w K.h K.w p) :
    (normalizePsf = true →
        Impl.kernelSum (Impl.kernel2d K true) = 1
        ∧ Impl.kernel2d (Impl.kernel2d K true) true = Impl.kernel2d K true)
    ∧ (Impl.simulatorInit exposureTime backgroundSky true K normalizePsf noiseLevel).psf
        = Impl.kernel2d K normalizePsf
    ∧ ∃ ds, Impl.viaImageFrom scipy
          (Impl.simulatorInit exposureTime backgroundSky true K normalizePsf noiseLevel)
          mask.h mask.w image = .ok ds
        ∧ ds.psf = Impl.kernel2d K normalizePsf
        ∧ ∃ masked, Impl.applyMaskDs ds mask = .ok masked
            ∧ masked.psf = Impl.kernel2d K normalizePsf
            ∧ masked.useNormalizedPsf = normalizePsf := by
  refine ⟨fun h => ⟨kernelSum_normalized K (hsum h), kernel2d_idem K (hsum h)⟩, ?_, ?_⟩
  · cases normalizePsf <;> rfl
  · have hh : (Impl.kernel2d K normalizePsf).h % 2 = 1 := by rw [kernel2d_h]; exact hkh
    have hw : (Impl.kernel2d K normalizePsf).w % 2 = 1 := by rw [kernel2d_w]; exact hkw
    have hin' : ∀ p : Nat × Nat, p.1 < mask.h → p.2 < mask.w → mask.get p.1 p.2 = false →
        Spec.footprintInside mask.h mask.w (Impl.kernel2d K normalizePsf).h
          (Impl.kernel2d K normalizePsf).w p := by
      rw [kernel2d_h, kernel2d_w]; exact hin
    refine ⟨_, viaImageFrom_ok scipy hscipy exposureTime backgroundSky noiseLevel K normalizePsf hkh hkw
      hsum mask.h mask.w image, rfl, ?_⟩
    refine ⟨_, applyMask_ok _ mask mask.h mask.w rfl (by simp [pixels_length]) (by simp)
      (blurringFrom_ok_of_inside mask hh hw hin'), ?_, rfl⟩
    exact kernel2d_idem' K normalizePsf hsum

/-- an even kernel side is rejected by the simulator's whole-frame convolution — the pipeline
    yields the `KernelException`, never a dataset. -/
theorem pipeline_even_kernel_rejected (scipy : Conv2dSame F) (exposureTime backgroundSky noiseLevel : F)
    (subtract : Bool) (K : Kernel F) (normalizePsf : Bool) (h : K.h % 2 = 0 ∨ K.w % 2 = 0)
    (mask : Mask) (image : List F) :
    Impl.simulateAndFit scipy exposureTime backgroundSky subtract K normalizePsf noiseLevel mask image
      = .error .evenKernel := by
  have hpsf : ∀ b, (Impl.simulatorInit exposureTime backgroundSky subtract K b noiseLevel).psf
      = Impl.kernel2d K b := by intro b; cases b <;> rfl
  have hev : ((Impl.kernel2d K normalizePsf).h % 2 == 0 || (Impl.kernel2d K normalizePsf).w % 2 == 0)
      = true := by
    rw [kernel2d_h, kernel2d_w]
    rcases h with h | h <;> simp [h]
  unfold Impl.simulateAndFit Impl.simulateAndFitWith Impl.viaImageFromWith Impl.convolvedArrayFrom
  simp only [hpsf, hev, if_true]

end Pipeline

/-- the contract hypothesis is satisfiable: the instance the driver executes meets it. -/
example : Conv2dSameContract (Spec.convSameFn (α := Rat)) := convSameFn_contract

/-- defect D153 (repaired): pre-repair plumbing (`use_normalized_psf` left at its default `True` in
    `via_image_from` and in `apply_mask`) with `normalize_psf=False` and a kernel summing to 2: the
    data are simulated with `K = [2]` but the masked dataset holds `K/2 = [1]`, the residual is the
    image itself; the repaired plumbing keeps `[2]` and the residual vanishes.  (Evaluated over ℤ,
    where the single division 2/2 is exact.) -/
theorem d153_pre_repair_witness :
    let m : Mask := ⟨1, 2, [false, true]⟩
    let K : Kernel Int := ⟨1, 1, [2]⟩
    (∃ obs, Impl.simulateAndFitWith false Spec.convSameFn 1 100 true K false 0 m [3, 5] = .ok obs
        ∧ obs.simulated = [6, 10] ∧ obs.psf.vals = [1] ∧ obs.model = [3] ∧ obs.residual = [3])
    ∧ (∃ obs, Impl.simulateAndFit Spec.convSameFn 1 100 true K false 0 m [3, 5] = .ok obs
        ∧ obs.simulated = [6, 10] ∧ obs.psf.vals = [2] ∧ obs.model = [6] ∧ obs.residual = [0]) := by
  refine ⟨⟨_, rfl, ?_, ?_, ?_, ?_⟩, ⟨_, rfl, ?_, ?_, ?_, ?_⟩⟩ <;> decide

/-! ## non-vacuity: a concrete signed, non-square, asymmetric instance meets every hypothesis -/

example :
    let m : Mask := ⟨3, 5, [true, true, true, true, true, true, false, false, true, true,
                            true, true, true, true, true]⟩
    let K : Kernel Int := ⟨1, 3, [1, 2, 3]⟩
    ∃ cv, Impl.convolver m K = .ok cv
      ∧ cv.blurringMask.bits = [true, true, true, true, true, false, true, true, false, true,
                                true, true, true, true, true]
      ∧ Impl.convolve cv [5, 7] [4, -2] = [29, 27]
      ∧ Impl.convolveNoBlurring cv [5, 7] = [17, 29]
      ∧ Spec.convSame 3 5 K [0, 0, 0, 0, 0, 4, 5, 7, -2, 0, 0, 0, 0, 0, 0]
          = some [0, 0, 0, 0, 0, 13, 29, 27, 17, -6, 0, 0, 0, 0, 0] := by
  refine ⟨_, rfl, ?_, ?_, ?_, ?_⟩ <;> decide

/-- even kernels and footprints leaving the frame are errors -/
example :
    Impl.convolver ⟨3, 3, [true, true, true, true, false, true, true, true, true]⟩
        (⟨2, 3, [1, 1, 1, 1, 1, 1]⟩ : Kernel Int) = .error .evenKernel
    ∧ Impl.convolver ⟨3, 3, [true, true, true, true, false, true, true, true, true]⟩
        (⟨5, 3, List.replicate 15 1⟩ : Kernel Int) = .error .footprintOutside := by
  constructor <;> rfl

end C03
