/-
Props/C04.lean — property C04: the data vector and the curvature matrix of an imaging inversion equal the
normal equations `Bᵀ N⁻¹ d`, `Bᵀ N⁻¹ B (+ ε on unregularised diagonal entries)` in the mapping-matrix
formalism and in the w-tilde formalism, for every mask, every (square or not, signed or not) PSF, every
noise map that is positive on the mask, every list of linear objects.

All theorems are about the `Impl` layer of Model/NormalEq.lean (the loop transliterations the driver
executes against the Python), over an arbitrary linearly ordered field `α`; sizes, masks, kernels and values
are universally quantified.  Notation: `idx = unmaskedPixels m` (= `native_index_for_slim_index`),
`N = idx.length`, `P[d,a] = Spec.pMat K idx d a = K[idx d − idx a + half]`, `σ = noise` (slim).
The modelled code is the repaired one (fixes D1, D2, D3 of DESIGN §6).
-/
import Proofs.NormalEqPadded

open Model Model.Spec

namespace C04

variable {α : Type} [Field α] [LinearOrder α] [IsStrictOrderedRing α]

/-! ## (a) mapping formalism = normal equations -/

/-- (a1) `data_vector_via_blurred_mapping_matrix_from`: `D[p] = Σ_d d_d · B[d,p] / σ_d²`, length = #columns -/
theorem a_data_vector_mapping (B : Mat α) (image noise : List α) :
    (Impl.dataVectorMapping B image noise).size = B.c ∧
    ∀ p, p < B.c → (Impl.dataVectorMapping B image noise).get p
      = sumRange B.r fun d => vget image d * B.get d p / (vget noise d * vget noise d) :=
  dataVectorMapping_spec B image noise

/-- (a2) `curvature_matrix_via_mapping_matrix_from`: `F[i,j] = Σ_d (B[d,i]/σ_d)(B[d,j]/σ_d)` plus exactly
    `value` on the diagonal entries listed (once) in `no_regularization_index_list`, nothing elsewhere. -/
theorem a_curvature_mapping (B : Mat α) (noise : List α) (noReg : List Nat) (hnd : noReg.Nodup)
    (value : α) :
    (Impl.curvatureMapping B noise true noReg value).r = B.c ∧
    (Impl.curvatureMapping B noise true noReg value).c = B.c ∧
    ∀ i j, i < B.c → j < B.c → (Impl.curvatureMapping B noise true noReg value).get i j
      = (sumRange B.r fun d => B.get d i / vget noise d * (B.get d j / vget noise d))
        + if i = j ∧ i ∈ noReg then value else 0 := by
  obtain ⟨h1, h2, h3⟩ := curvatureMapping_spec B noise true noReg value
  refine ⟨h1, h2, fun i j hi hj => ?_⟩
  rw [h3 i j hi hj, if_pos rfl, diag_term_nodup noReg hnd value i j]

/-- (a3) the curvature matrix is symmetric -/
theorem a_curvature_symmetric (B : Mat α) (noise : List α) (addDiag : Bool) (noReg : List Nat)
    (value : α) (i j : Nat) (hi : i < B.c) (hj : j < B.c) :
    (Impl.curvatureMapping B noise addDiag noReg value).get i j
      = (Impl.curvatureMapping B noise addDiag noReg value).get j i := by
  obtain ⟨_, _, h3⟩ := curvatureMapping_spec B noise addDiag noReg value
  rw [h3 i j hi hj, h3 j i hj hi]
  congr 1
  · apply sumRange_congr; intro d _; ring
  · congr 1
    apply sum_map_congr
    intro x _
    by_cases h : i = x ∧ j = x
    · simp [h.1, h.2]
    · have : ¬ (j = x ∧ i = x) := fun h' => h ⟨h'.2, h'.1⟩
      simp [h, this]

/-- (a4) what `B` is: `Convolver.convolve_mapping_matrix` returns `P · M` — column by column the PSF
    blurring of the mapping matrix, for mapping matrices of any sign. -/
theorem a_operated_mapping_matrix (m : Mask) (K : Kernel α) (M : Mat α)
    (hr : M.r = (unmaskedPixels m).length) :
    (Impl.convolveMatrix (Impl.frames m K) M).r = M.r ∧
    (Impl.convolveMatrix (Impl.frames m K) M).c = M.c ∧
    ∀ t p, t < M.r → p < M.c → (Impl.convolveMatrix (Impl.frames m K) M).get t p
      = sumRange (unmaskedPixels m).length fun a => pMat K (unmaskedPixels m) t a * M.get a p :=
  ⟨(convolveMatrix_spec _ M).1, (convolveMatrix_spec _ M).2.1,
    fun t p ht hp => operated_eq_blurred m K M hr t p ht hp⟩

/-! ## (b) the w-tilde data term -/

/-- (b1) `w_tilde_data_imaging_from`: `w̃_d[a] = Σ_d K[d−a+half] · d_d/σ_d²`, for every kernel shape -/
theorem b_w_tilde_data (m : Mask) (K : Kernel α) (data noise : List α) (hf : Footprint m K)
    (a : Nat) (ha : a < (unmaskedPixels m).length) :
    vget (Impl.wTildeData m.w (Impl.nativeFrom m data 0) (Impl.nativeFrom m noise 0) K
        (unmaskedPixels m)) a
      = sumRange (unmaskedPixels m).length fun d =>
          pMat K (unmaskedPixels m) d a * (vget data d / (vget noise d * vget noise d)) :=
  wTildeData_spec m K data noise hf a ha

/-- (b2) `data_vector_via_w_tilde_data_imaging_from` through a unique-mapping table that encodes `M`
    equals the mapping-formalism data vector of `B = P·M`. -/
theorem b_data_vector_agrees (m : Mask) (K : Kernel α) (data noise : List α) (hf : Footprint m K)
    (hpos : ∀ k, k < (unmaskedPixels m).length → 0 < vget noise k)
    (U : Rows α) (M : Mat α) (hU : Encodes U M) (hr : M.r = (unmaskedPixels m).length)
    (p : Nat) (hp : p < M.c) :
    (Impl.dataVectorWTilde
        (Impl.wTildeData m.w (Impl.nativeFrom m data 0) (Impl.nativeFrom m noise 0) K
          (unmaskedPixels m)) U M.c).get p
      = (Impl.dataVectorMapping (Impl.convolveMatrix (Impl.frames m K) M) data noise).get p :=
  dataVector_agree m K data noise hf hpos U M hU hr p hp

/-! ## (c) the noise-weighted PSF overlap -/

/-- (c1) `w_tilde_curvature_value_from(a, b) = Σ_d P[d,a] P[d,b] / σ_d² = (Pᵀ N⁻¹ P)[a,b]`
    (square or non-square kernel, any signs; the `value > 0` test on the noise image selects exactly the
    unmasked pixels). -/
theorem c_w_tilde_value (m : Mask) (K : Kernel α) (noise : List α) (hf : Footprint m K)
    (hpos : ∀ k, k < (unmaskedPixels m).length → 0 < vget noise k)
    (a b : Nat) (ha : a < (unmaskedPixels m).length) (hb : b < (unmaskedPixels m).length) :
    Impl.wTildeCurvatureValue m.w (Impl.nativeFrom m noise 0) K
        ((unmaskedPixels m).getD a (0, 0)) ((unmaskedPixels m).getD b (0, 0))
      = sumRange (unmaskedPixels m).length fun d =>
          pMat K (unmaskedPixels m) d a * pMat K (unmaskedPixels m) d b
            * (1 / vget noise d * (1 / vget noise d)) :=
  wTildeCurvatureValue_spec m K noise hf hpos a b ha hb

/-- (c2) `w_tilde_curvature_preload_imaging_from`: the rows encode a matrix `Ũ` with `Ũ + Ũᵀ = Pᵀ N⁻¹ P`
    (upper triangle, diagonal halved, zeros omitted — negative overlaps kept). -/
theorem c_preload_represents_w_tilde (m : Mask) (K : Kernel α) (noise : List α) (hf : Footprint m K)
    (hpos : ∀ k, k < (unmaskedPixels m).length → 0 < vget noise k)
    (a b : Nat) (ha : a < (unmaskedPixels m).length) (hb : b < (unmaskedPixels m).length) :
    rowsMat (Impl.wTildePreload m.w (Impl.nativeFrom m noise 0) K (unmaskedPixels m)) a b
      + rowsMat (Impl.wTildePreload m.w (Impl.nativeFrom m noise 0) K (unmaskedPixels m)) b a
      = wTilde K (unmaskedPixels m) noise a b :=
  wTildePreload_represents m K noise hf hpos a b ha hb

/-! ## (d) curvature matrix from a preload -/

/-- (d1) `curvature_matrix_via_w_tilde_curvature_preload_imaging_from` = `Mᵀ W M` for ANY preload rows
    that encode `Ũ` with `Ũ + Ũᵀ = W` (no assumption on where `W` comes from). -/
theorem d_curvature_from_preload (pre U : Rows α) (n : Nat) (W : Nat → Nat → α)
    (hlen : pre.length = U.length)
    (hW : ∀ a b, a < U.length → b < U.length → rowsMat pre a b + rowsMat pre b a = W a b) :
    (Impl.curvatureFromPreload pre U n).r = n ∧ (Impl.curvatureFromPreload pre U n).c = n ∧
    ∀ p0 p1, p0 < n → p1 < n → (Impl.curvatureFromPreload pre U n).get p0 p1
      = sumRange U.length fun a => sumRange U.length fun b =>
          rowsMat U a p0 * W a b * rowsMat U b p1 :=
  curvatureFromPreload_spec pre U n W hlen hW

/-- (d2) the mapper–mapper off-diagonal block `off_diag_0 + off_diag_1.T` = `M₀ᵀ W M₁` -/
theorem d_offdiag_block (pre U0 U1 : Rows α) (n0 n1 : Nat) (W : Nat → Nat → α)
    (hlen0 : pre.length = U0.length) (hlen1 : pre.length = U1.length)
    (hW : ∀ a b, a < pre.length → b < pre.length → rowsMat pre a b + rowsMat pre b a = W a b)
    (p0 p1 : Nat) (hp0 : p0 < n0) (hp1 : p1 < n1) :
    (Mat.plus (Impl.offDiagPreload pre U0 n0 U1 n1)
        (Mat.transpose (Impl.offDiagPreload pre U1 n1 U0 n0))).get p0 p1
      = sumRange pre.length fun a => sumRange pre.length fun b =>
          rowsMat U0 a p0 * W a b * rowsMat U1 b p1 :=
  offDiagBlock_spec pre U0 U1 n0 n1 W hlen0 hlen1 hW p0 p1 hp0 hp1

/-- (d3) the mapper–function-list block: with `P = frameMat frames`, the triple loop returns
    `(P · M)ᵀ · curvature_weights`. -/
theorem d_mapper_func_block (U : Rows α) (n : Nat) (cw : Mat α) (fr : Rows α) :
    (Impl.offDiagMapperFunc U n cw fr).r = n ∧ (Impl.offDiagMapperFunc U n cw fr).c = cw.c ∧
    ∀ p l, p < n → l < cw.c → (Impl.offDiagMapperFunc U n cw fr).get p l
      = sumRange cw.r fun t =>
          (sumRange U.length fun d0 => frameMat fr t d0 * rowsMat U d0 p) * cw.get t l :=
  offDiagMapperFunc_spec U n cw fr

/-! ## (e) the two formalisms agree, block by block -/

/-- (e1) diagonal block of a mapper: w-tilde curvature = `Bᵀ N⁻¹ B` with `B = P·M` -/
theorem e_mapper_block_agrees (m : Mask) (K : Kernel α) (noise : List α) (hf : Footprint m K)
    (hpos : ∀ k, k < (unmaskedPixels m).length → 0 < vget noise k)
    (U : Rows α) (M : Mat α) (hU : Encodes U M) (hr : M.r = (unmaskedPixels m).length)
    (p0 p1 : Nat) (hp0 : p0 < M.c) (hp1 : p1 < M.c) :
    (Impl.curvatureFromPreload
        (Impl.wTildePreload m.w (Impl.nativeFrom m noise 0) K (unmaskedPixels m)) U M.c).get p0 p1
      = sumRange (unmaskedPixels m).length fun d =>
          (Impl.convolveMatrix (Impl.frames m K) M).get d p0 / vget noise d
            * ((Impl.convolveMatrix (Impl.frames m K) M).get d p1 / vget noise d) :=
  curvatureFromPreload_agree m K noise hf hpos U M hU hr p0 p1 hp0 hp1

/-- (e2) off-diagonal block of two mappers -/
theorem e_offdiag_block_agrees (m : Mask) (K : Kernel α) (noise : List α) (hf : Footprint m K)
    (hpos : ∀ k, k < (unmaskedPixels m).length → 0 < vget noise k)
    (U0 U1 : Rows α) (M0 M1 : Mat α) (hU0 : Encodes U0 M0) (hU1 : Encodes U1 M1)
    (hr0 : M0.r = (unmaskedPixels m).length) (hr1 : M1.r = (unmaskedPixels m).length)
    (p0 p1 : Nat) (hp0 : p0 < M0.c) (hp1 : p1 < M1.c) :
    (Mat.plus
        (Impl.offDiagPreload
          (Impl.wTildePreload m.w (Impl.nativeFrom m noise 0) K (unmaskedPixels m)) U0 M0.c U1 M1.c)
        (Mat.transpose (Impl.offDiagPreload
          (Impl.wTildePreload m.w (Impl.nativeFrom m noise 0) K (unmaskedPixels m))
          U1 M1.c U0 M0.c))).get p0 p1
      = sumRange (unmaskedPixels m).length fun d =>
          (Impl.convolveMatrix (Impl.frames m K) M0).get d p0 / vget noise d
            * ((Impl.convolveMatrix (Impl.frames m K) M1).get d p1 / vget noise d) :=
  offDiagBlock_agree m K noise hf hpos U0 U1 M0 M1 hU0 hU1 hr0 hr1 p0 p1 hp0 hp1

/-- (e3) mapper–function-list block -/
theorem e_mapper_func_block_agrees (m : Mask) (K : Kernel α) (noise : List α) (U : Rows α)
    (M Bf : Mat α) (hU : Encodes U M) (hr : M.r = (unmaskedPixels m).length)
    (hrf : Bf.r = (unmaskedPixels m).length) (p l : Nat) (hp : p < M.c) (hl : l < Bf.c) :
    (Impl.offDiagMapperFunc U M.c
        (Mat.ofFn Bf.r Bf.c fun d l => Bf.get d l / (vget noise d * vget noise d))
        (Impl.frames m K)).get p l
      = sumRange (unmaskedPixels m).length fun d =>
          (Impl.convolveMatrix (Impl.frames m K) M).get d p / vget noise d
            * (Bf.get d l / vget noise d) :=
  mapperFuncBlock_agree m K noise U M Bf hU hr hrf p l hp hl

/-! ## object order and the whole inversion

An object list is written `P ++ o :: Q`: the parameters of `o` are the indices `totalParams P + li`,
`li < o.params`; `opOf ds o` is `o`'s own blurred mapping matrix `P·M_o`. -/

/-- (a5) blocks follow the order of the linear objects: the columns of `operated_mapping_matrix` that
    belong to `o` are the columns of `o`'s blurred mapping matrix, at offset `totalParams P`. -/
theorem a_operated_columns_in_object_order (ds : Dataset α) (P : List (LinObj α)) (o : LinObj α)
    (Q : List (LinObj α)) :
    (Impl.operatedMappingMatrix ds (P ++ o :: Q)).r = (Impl.nativeForSlim ds.mask).length ∧
    (Impl.operatedMappingMatrix ds (P ++ o :: Q)).c = Impl.totalParams (P ++ o :: Q) ∧
    ∀ d li, d < (Impl.nativeForSlim ds.mask).length → li < o.params →
      (Impl.operatedMappingMatrix ds (P ++ o :: Q)).get d (Impl.totalParams P + li)
        = (opOf ds o).get d li :=
  operatedMappingMatrix_block ds P o Q

/-- (a6) `InversionImagingMapping.data_vector`: the entries of object `o` are `B_oᵀ N⁻¹ d` -/
theorem a_inversion_data_vector (ds : Dataset α) (P : List (LinObj α)) (o : LinObj α)
    (Q : List (LinObj α)) (li : Nat) (hli : li < o.params) :
    (Impl.dataVectorMap ds (P ++ o :: Q)).get (Impl.totalParams P + li)
      = sumRange (Impl.nativeForSlim ds.mask).length fun d =>
          vget ds.data d * (opOf ds o).get d li / (vget ds.noise d * vget ds.noise d) :=
  dataVectorMap_block ds P o Q li hli

/-- (a7) `InversionImagingMapping.curvature_matrix`: the block of the ordered pair `(o, o')` is
    `B_oᵀ N⁻¹ B_o'`, plus `value` exactly on the diagonal entries of objects without regularization. -/
theorem a_inversion_curvature (ds : Dataset α) (value : α) (objs P : List (LinObj α)) (o : LinObj α)
    (Q P' : List (LinObj α)) (o' : LinObj α) (Q' : List (LinObj α))
    (h : objs = P ++ o :: Q) (h' : objs = P' ++ o' :: Q')
    (li lj : Nat) (hli : li < o.params) (hlj : lj < o'.params) :
    (Impl.curvatureMap ds objs value).get (Impl.totalParams P + li) (Impl.totalParams P' + lj)
      = (sumRange (Impl.nativeForSlim ds.mask).length fun d =>
          (opOf ds o).get d li / vget ds.noise d * ((opOf ds o').get d lj / vget ds.noise d))
        + if Impl.totalParams P + li = Impl.totalParams P' + lj ∧ o.hasReg = false then value else 0 := by
  rw [curvatureMap_block ds value objs P o Q P' o' Q' h h' li lj hli hlj]
  congr 1
  have hnr := noRegOf_ranged objs 0
  rw [noRegIndexList_eq, diag_term_nodup _ hnr.2.1]
  have hmem := hnr.2.2 P o Q li h hli
  rw [Nat.zero_add] at hmem
  by_cases hc : Impl.totalParams P + li = Impl.totalParams P' + lj ∧ o.hasReg = false
  · rw [if_pos hc, if_pos ⟨hc.1, hmem.mpr hc.2⟩]
  · rw [if_neg hc, if_neg (fun hh => hc ⟨hh.1, hmem.mp hh.2⟩)]

/-- (b3) the unique mappings of a mapper encode its mapping matrix (C06.e), given the over-sampler's
    contract on `slim_index_for_sub_slim_index` / `sub_size` -/
theorem b_unique_mappings_encode (t : MapperTables α) (n : Nat) (hb : BlocksOK t n) :
    Encodes (Impl.uniqueFrom t n) (Impl.mappingMatrixFrom t n) :=
  uniqueFrom_encodes t n hb

/-- (e4) object order in the w-tilde curvature matrix before mirroring: rows of `o`, columns of `o'` hold
    the block computed for the ordered pair (zeros where the code writes none) -/
theorem e_w_tilde_blocks_in_object_order (ds : Dataset α) (objs P : List (LinObj α)) (o : LinObj α)
    (Q P' : List (LinObj α)) (o' : LinObj α) (Q' : List (LinObj α))
    (h : objs = P ++ o :: Q) (h' : objs = P' ++ o' :: Q')
    (li lj : Nat) (hli : li < o.params) (hlj : lj < o'.params) :
    (assembledWT ds objs).get (Impl.totalParams P + li) (Impl.totalParams P' + lj)
      = match Impl.blockWT ds (Impl.wTildePreloadOf ds) (Impl.frames ds.mask ds.kernel)
          (Impl.nativeForSlim ds.mask).length P.length P'.length o o' with
        | some blk => blk.get li lj
        | none => 0 :=
  (assembledWT_block ds objs P o Q P' o' Q' h h' li lj hli hlj).2.2

/-- the property's hypotheses hold as soon as every mapper's tables satisfy the over-sampler's contract -/
theorem admissible_of_blocks (ds : Dataset α) (objs : List (LinObj α))
    (hf : Footprint ds.mask ds.kernel)
    (hpos : ∀ k, k < (unmaskedPixels ds.mask).length → 0 < vget ds.noise k)
    (hb : ∀ t b, LinObj.mapper t b ∈ objs → BlocksOK t (unmaskedPixels ds.mask).length) :
    Admissible ds objs :=
  ⟨hf, hpos, fun t b hm => uniqueFrom_encodes t _ (hb t b hm)⟩

/-- **(e5) the two formalisms return the same curvature matrix and the same data vector**, for every
    dataset (mask with the footprint inside the frame, any odd-or-not, square-or-not, signed-or-not PSF,
    positive noise, any data), every ordered list of mappers and function lists, every diagonal value. -/
theorem e_formalisms_agree (ds : Dataset α) (objs : List (LinObj α))
    (hf : Footprint ds.mask ds.kernel)
    (hpos : ∀ k, k < (unmaskedPixels ds.mask).length → 0 < vget ds.noise k)
    (hb : ∀ t b, LinObj.mapper t b ∈ objs → BlocksOK t (unmaskedPixels ds.mask).length)
    (value : α) :
    Impl.curvatureWT ds objs value = Impl.curvatureMap ds objs value ∧
    Impl.dataVectorWT ds objs = Impl.dataVectorMap ds objs :=
  formalisms_agree ds objs (admissible_of_blocks ds objs hf hpos hb) value

/-- (e6) hence equal reconstructions for any deterministic solver of `(F + H) s = D` -/
theorem e_any_solver_agrees {β : Type} (solver : Mat α → Vec α → β) (ds : Dataset α)
    (objs : List (LinObj α)) (hf : Footprint ds.mask ds.kernel)
    (hpos : ∀ k, k < (unmaskedPixels ds.mask).length → 0 < vget ds.noise k)
    (hb : ∀ t b, LinObj.mapper t b ∈ objs → BlocksOK t (unmaskedPixels ds.mask).length)
    (value : α) :
    solver (Impl.curvatureWT ds objs value) (Impl.dataVectorWT ds objs)
      = solver (Impl.curvatureMap ds objs value) (Impl.dataVectorMap ds objs) := by
  obtain ⟨h1, h2⟩ := e_formalisms_agree ds objs hf hpos hb value
  rw [h1, h2]

/-- (e7) and equal mapped reconstructed data: mapping back through the unique mappings and blurring with
    `convolve_image_no_blurring` equals multiplying the blurred mapping matrix by the reconstruction. -/
theorem e_mapped_reconstructed_data_agrees (fr U : Rows α) (M : Mat α) (hU : Encodes U M) (s : List α)
    (hs : s.length = M.c) (t : Nat) (ht : t < M.r) :
    (Impl.convolveNoBlurring fr (Impl.mappedViaUnique U s).toList).get t
      = (Impl.mappedViaMatrix (Impl.convolveMatrix fr M) s).get t :=
  mappedData_agree fr U M hU s hs t ht

/-- (e8) the w-tilde curvature matrix is symmetric -/
theorem e_w_tilde_curvature_symmetric (ds : Dataset α) (objs : List (LinObj α))
    (hf : Footprint ds.mask ds.kernel)
    (hpos : ∀ k, k < (unmaskedPixels ds.mask).length → 0 < vget ds.noise k)
    (hb : ∀ t b, LinObj.mapper t b ∈ objs → BlocksOK t (unmaskedPixels ds.mask).length)
    (value : α) (i j : Nat) (hi : i < Impl.totalParams objs) (hj : j < Impl.totalParams objs) :
    (Impl.curvatureWT ds objs value).get i j = (Impl.curvatureWT ds objs value).get j i := by
  rw [(e_formalisms_agree ds objs hf hpos hb value).1]
  have hc : (Impl.operatedMappingMatrix ds objs).c = Impl.totalParams objs := by
    unfold Impl.operatedMappingMatrix Impl.hstack Mat.ofLists
    simp only [Mat.ofFn_c]
    exact operatedList_width ds objs
  exact a_curvature_symmetric _ _ _ _ _ i j (by rw [hc]; exact hi) (by rw [hc]; exact hj)

/-! ## the code's own branch structure

`Impl.dataVectorWTDispatch` / `Impl.curvatureWTDispatch` transliterate the dispatch of
`InversionImagingWTilde.data_vector` / `.curvature_matrix` (on `has(AbstractLinearObjFuncList)` and on the
number of mappers) and the separate passes `_data_vector_mapper`, `_data_vector_x1_mapper`,
`_data_vector_multi_mapper`, `_data_vector_func_list_and_mapper`, `_curvature_matrix_mapper_diag`
(= `_x1_mapper`), `_curvature_matrix_multi_mapper`, `_curvature_matrix_func_list_and_mapper`; `none` models
the Python failing on `None` when the list has no mapper (a case the factory never sends to this class). -/

/-- (e9) every branch of the dispatchers computes the general object-pair assembly (no hypothesis on the
    dataset; the list must contain a mapper, which is when the factory selects the w-tilde inversion) -/
theorem e_w_tilde_dispatch_is_general_assembly (ds : Dataset α) (objs : List (LinObj α))
    (hm : objs.any LinObj.isMapper = true) (value : α) :
    Impl.curvatureWTDispatch ds objs value = some (Impl.curvatureWT ds objs value) ∧
    Impl.dataVectorWTDispatch ds objs = some (Impl.dataVectorWT ds objs) :=
  ⟨curvatureWTDispatch_eq ds objs hm value, dataVectorWTDispatch_eq ds objs hm⟩

/-- **(e10) the transliterated w-tilde dispatcher agrees with the mapping formalism**: same curvature
    matrix and data vector as `InversionImagingMapping`, for every dataset and ordered object list meeting
    the property's hypotheses. -/
theorem e_w_tilde_dispatch_agrees (ds : Dataset α) (objs : List (LinObj α))
    (hf : Footprint ds.mask ds.kernel)
    (hpos : ∀ k, k < (unmaskedPixels ds.mask).length → 0 < vget ds.noise k)
    (hb : ∀ t b, LinObj.mapper t b ∈ objs → BlocksOK t (unmaskedPixels ds.mask).length)
    (hm : objs.any LinObj.isMapper = true) (value : α) :
    Impl.curvatureWTDispatch ds objs value = some (Impl.curvatureMap ds objs value) ∧
    Impl.dataVectorWTDispatch ds objs = some (Impl.dataVectorMap ds objs) := by
  obtain ⟨h1, h2⟩ := e_formalisms_agree ds objs hf hpos hb value
  rw [curvatureWTDispatch_eq ds objs hm value, dataVectorWTDispatch_eq ds objs hm, h1, h2]
  exact ⟨rfl, rfl⟩

/-! ## the tables as the code stores them

`Impl.Padded` = `(data_to_pix_unique, data_weights, pix_lengths)` (second axis padded with `-1` / `0`),
`Impl.PreloadFlat` = `(curvature_preload, curvature_indexes, curvature_lengths)` (flat, walked with the running
`curvature_index`); `toRows` reads them through their length column; the `…P` functions are the consumers'
loops over the stored forms; `…DispatchP` are the dispatchers over the stored forms (what the driver runs). -/

/-- (f1) reading a stored table through its length column gives back the rows it was built from, for any
    width and padding: the unique mappings and the flattened preload -/
theorem f_stored_tables_read_back (width : Nat) (rows : Rows α) :
    Impl.Padded.toRows (Impl.Padded.ofRows width rows) = rows ∧
    Impl.PreloadFlat.toRows (Impl.PreloadFlat.ofRows rows) = rows :=
  ⟨Padded.toRows_ofRows width rows, PreloadFlat.toRows_ofRows rows⟩

/-- (f2) every consumer loop over the stored arrays (`for k in range(pix_lengths[d])`,
    `curvature_index += 1`) equals the consumer over the rows read through the length columns — for ANY
    stored arrays (whatever the padding holds), so theorems b, d, e apply to what the code stores -/
theorem f_consumers_over_stored_tables (wtd : List α) (q : Impl.PreloadFlat α) (p p1 : Impl.Padded α)
    (n n1 : Nat) (cw : Mat α) (fr : Rows α) (recon : List α) :
    Impl.dataVectorWTildeP wtd p n = Impl.dataVectorWTilde wtd (Impl.Padded.toRows p) n ∧
    Impl.offDiagPreloadP q p n p1 n1
      = Impl.offDiagPreload (Impl.PreloadFlat.toRows q) (Impl.Padded.toRows p) n
          (Impl.Padded.toRows p1) n1 ∧
    Impl.curvatureFromPreloadP q p n
      = Impl.curvatureFromPreload (Impl.PreloadFlat.toRows q) (Impl.Padded.toRows p) n ∧
    Impl.offDiagMapperFuncP p n cw fr = Impl.offDiagMapperFunc (Impl.Padded.toRows p) n cw fr ∧
    Impl.mappedViaUniqueP p recon = Impl.mappedViaUnique (Impl.Padded.toRows p) recon :=
  ⟨dataVectorWTildeP_eq wtd p n, offDiagPreloadP_eq q p n p1 n1, curvatureFromPreloadP_eq q p n,
    offDiagMapperFuncP_eq p n cw fr, mappedViaUniqueP_eq p recon⟩

/-- **(e11) the dispatcher over the stored tables agrees with the mapping formalism** — the statement of
    C04.e for the code path the driver executes: transliterated dispatch, padded unique mappings, flat
    preload with running index. -/
theorem e_w_tilde_dispatch_stored_agrees (ds : Dataset α) (objs : List (LinObj α))
    (hf : Footprint ds.mask ds.kernel)
    (hpos : ∀ k, k < (unmaskedPixels ds.mask).length → 0 < vget ds.noise k)
    (hb : ∀ t b, LinObj.mapper t b ∈ objs → BlocksOK t (unmaskedPixels ds.mask).length)
    (hm : objs.any LinObj.isMapper = true) (value : α) :
    Impl.curvatureWTDispatchP ds objs value = some (Impl.curvatureMap ds objs value) ∧
    Impl.dataVectorWTDispatchP ds objs = some (Impl.dataVectorMap ds objs) := by
  rw [curvatureWTDispatchP_eq, dataVectorWTDispatchP_eq]
  exact e_w_tilde_dispatch_agrees ds objs hf hpos hb hm value

/-! ## non-vacuity

A concrete dataset meeting every hypothesis: 3×5 frame with three unmasked pixels, a non-square (1×3) kernel
with a negative entry, unequal noise, a function list (without regularization) placed BEFORE a mapper whose
second data pixel maps to two mesh pixels.  The main theorem instantiates on it (so its hypotheses are
jointly satisfiable); `#eval` of both sides gives
`F = [[153/4, -33/4, 25/4], [-33/4, 81/16, 11/16], [25/4, 11/16, 57/16]]` for noise `[1, 2, 1/2]`. -/

def exMask : Mask :=
  ⟨3, 5, [true, true, true, true, true,  true, false, false, false, true,  true, true, true, true, true]⟩
def exKernel : Kernel Rat := ⟨1, 3, [2, 1, -1]⟩
def exDataset : Dataset Rat := ⟨exMask, exKernel, [1, -2, 3], [1, 2, 4]⟩
def exTables : MapperTables Rat :=
  { pixels := 2, subRows := [[(0, 1)], [(1, 1), (0, 2)], [(1, 1)]], slimForSub := [0, 1, 2],
    subFraction := [1, 1, 1], subSize := [1, 1, 1] }
def exObjs : List (LinObj Rat) := [.funcList 1 [[1], [-1], [2]] false, .mapper exTables true]

instance (m : Mask) (K : Kernel Rat) : Decidable (Footprint m K) := by unfold Footprint; infer_instance

example : Impl.curvatureWT exDataset exObjs (1 / 4) = Impl.curvatureMap exDataset exObjs (1 / 4) ∧
    Impl.dataVectorWT exDataset exObjs = Impl.dataVectorMap exDataset exObjs :=
  e_formalisms_agree exDataset exObjs (by decide) (by decide)
    (by
      intro t b hm
      simp only [exObjs, List.mem_cons, List.mem_nil_iff, or_false, reduceCtorEq, false_or,
        LinObj.mapper.injEq] at hm
      obtain ⟨rfl, rfl⟩ := hm
      unfold BlocksOK
      decide) _

end C04
