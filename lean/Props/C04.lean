/-
Props/C04.lean — property C04 (placeholder while the proofs are being developed; see Proofs/NormalEq*.lean).
-/
import Model.NormalEq

open Model

namespace C04

/-- `Mat.zeros` has the requested shape (first building block; replaced by the clause theorems). -/
theorem zeros_shape (r c : Nat) : (Mat.zeros (α := Rat) r c).r = r ∧ (Mat.zeros (α := Rat) r c).c = c :=
  ⟨rfl, rfl⟩

end C04
