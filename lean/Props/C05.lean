/-
Props/C05.lean — property C05: the reconstruction is the true (non-negative) least-squares optimum.

Clauses (DESIGN.md §5 C05):
  a. the KKT certificate implies global optimality for symmetric PSD (F+H); the minimiser is unique for PD
  b. partial correctness of the active-set solver `fnnls_cholesky` (cold and warm start): a result
     returned through the main exit carries the KKT certificate
  c. the unconstrained solver returns s with (F+H)s = D, or the error outcome
  d. parameters forced to zero are zero, the rest is the solver's result for the reduced system
  e. the per-object mapped data sum to B·s and each summand is B_obj·s_obj
All theorems are about the `Impl` layer of Model/NNLS.lean (what the driver executes against the
Python), over an arbitrary ordered field; the external linear solvers enter through `Spec.SolveContract`,
which is discharged for the driver's instance in `solve_instance_contract`.
-/
import Model.NNLS
import Proofs.NNLS
import Proofs.NNLSLoop

open Model

namespace C05

/-! ### the solver parameter -/

/-- the driver's solver instance (exact Gauss–Jordan elimination with result check, over ℚ) meets the
    contract assumed of the external linear solvers -/
theorem solve_instance_contract : Spec.SolveContract (checkedSolve (α := Rat)) :=
  checkedSolve_contract

/-! ### (a) the KKT certificate is a certificate of global optimality -/

section a
variable {α : Type} [Field α] [LinearOrder α] [IsStrictOrderedRing α]

/-- (a, quantitative form) for symmetric positive semi-definite `A`, a point `s` carrying the KKT
    certificate with slack `tol ≥ 0` is optimal up to `tol·Σx` against every feasible `x`. -/
theorem a_kkt_tol_near_optimal (n : ℕ) (A : List (List α)) (b s x : List α) (tol : α) (htol : 0 ≤ tol)
    (hsym : Spec.IsSymm n A) (hpsd : Spec.IsPSD n A)
    (hb : b.length = n) (hs : s.length = n) (hx : x.length = n)
    (hk : Spec.IsKKT A b s tol) (hxn : Spec.Nonneg x) :
    Spec.qform A b s ≤ Spec.qform A b x + tol * ∑ i ∈ Finset.range n, vget x i := by
  have hgap := kkt_gap n A b s x tol htol hsym hb hs hx hk hxn
  have hv : (vsub x s).length = n := by rw [vsub_length, hx, hs, Nat.min_self]
  have := hpsd (vsub x s) hv
  have h2 : 0 ≤ dot (vsub x s) (matVec A (vsub x s)) / 2 := by positivity
  linarith

/-- (a) for symmetric positive semi-definite `A`: if `s ≥ 0`, the gradient `A s − b` vanishes on the
    positive entries of `s` and is non-negative on its zero entries, then `s` minimises
    `½ sᵀAs − bᵀs` over all `x ≥ 0`. -/
theorem a_kkt_is_global_minimum (n : ℕ) (A : List (List α)) (b s x : List α)
    (hsym : Spec.IsSymm n A) (hpsd : Spec.IsPSD n A)
    (hb : b.length = n) (hs : s.length = n) (hx : x.length = n)
    (hk : Spec.IsKKT A b s 0) (hxn : Spec.Nonneg x) :
    Spec.qform A b s ≤ Spec.qform A b x := by
  have := a_kkt_tol_near_optimal n A b s x 0 le_rfl hsym hpsd hb hs hx hk hxn
  simpa using this

/-- (a, uniqueness) for symmetric positive definite `A` the minimiser is unique: a feasible `x` that
    does at least as well as a KKT point `s` is `s`. -/
theorem a_minimiser_unique (n : ℕ) (A : List (List α)) (b s x : List α)
    (hsym : Spec.IsSymm n A) (hpd : Spec.IsPD n A)
    (hb : b.length = n) (hs : s.length = n) (hx : x.length = n)
    (hk : Spec.IsKKT A b s 0) (hxn : Spec.Nonneg x)
    (hle : Spec.qform A b x ≤ Spec.qform A b s) : x = s := by
  have hgap := kkt_gap n A b s x 0 le_rfl hsym hb hs hx hk hxn
  have hv : (vsub x s).length = n := by rw [vsub_length, hx, hs, Nat.min_self]
  have hq : dot (vsub x s) (matVec A (vsub x s)) ≤ 0 := by
    have : dot (vsub x s) (matVec A (vsub x s)) / 2 ≤ 0 := by linarith
    linarith
  have hzero : ∀ i, vget (vsub x s) i = 0 := by
    by_contra hne
    push Not at hne
    exact absurd (hpd (vsub x s) hv hne) (not_lt.mpr hq)
  apply List.ext_getElem (by rw [hx, hs])
  intro i h1 h2
  have := hzero i
  rw [vget_vsub x s i h1 h2, vget_eq_getElem x i h1, vget_eq_getElem s i h2] at this
  exact sub_eq_zero.mp this

/-- (a, corollary) for symmetric positive definite `A` there is at most one KKT point. -/
theorem a_kkt_point_unique (n : ℕ) (A : List (List α)) (b s s' : List α)
    (hsym : Spec.IsSymm n A) (hpd : Spec.IsPD n A)
    (hb : b.length = n) (hs : s.length = n) (hs' : s'.length = n)
    (hk : Spec.IsKKT A b s 0) (hk' : Spec.IsKKT A b s' 0) : s' = s := by
  have hpsd : Spec.IsPSD n A := by
    intro v hv
    by_cases h : ∃ i, vget v i ≠ 0
    · exact (hpd v hv h).le
    · push Not at h
      have : dot v (matVec A v) = 0 := by
        rw [dot_eq_sum n v (matVec A v) hv (by rw [matVec_length, hsym.1])]
        exact Finset.sum_eq_zero fun i _ => by rw [h i, zero_mul]
      rw [this]
  have hn : Spec.Nonneg s := fun i => by
    by_cases hi : i < n
    · exact (hk i (hb ▸ hi)).1
    · rw [vget_of_le s i (by omega)]
  have hn' : Spec.Nonneg s' := fun i => by
    by_cases hi : i < n
    · exact (hk' i (hb ▸ hi)).1
    · rw [vget_of_le s' i (by omega)]
  have h1 := a_kkt_is_global_minimum n A b s' s hsym hpsd hb hs' hs hk' hn
  exact a_minimiser_unique n A b s s' hsym hpd hb hs hs' hk hn' h1

end a

/-! ### (b) partial correctness of the active-set solver -/

section b
variable {α : Type} [Field α] [LinearOrder α] [IsStrictOrderedRing α]

/-- (b) `fnnls_cholesky(ZTZ, ZTx, P_initial)` — cold start (`pInit = none`) or warm start from any
    duplicate-free in-range `P_initial` (repaired prologue) — with linear solves meeting the solve
    contract: a vector returned through the main exit of the loop has length `n` and satisfies the KKT
    conditions with slack `tol` (`tol = 2.2204e-16·n` in the code): `d ≥ 0`, `(A d − b)_i = 0` where
    `d_i > 0`, `(b − A d)_i ≤ tol` where `d_i = 0`.  No positive-definiteness is needed for this clause.
    Termination is not claimed: the other outcomes (`no_update` break, iteration guard, failed solve)
    are distinct values of `Impl.Outcome`. -/
theorem b_fnnls_main_exit_kkt (solve : List (List α) → List α → Option (List α))
    (hc : Spec.SolveContract solve) (n : ℕ) (A : List (List α)) (b : List α)
    (hA : A.length = n) (hrow : ∀ r, r ∈ A → r.length = n) (hb : b.length = n)
    (tol : α) (htol : 0 ≤ tol) (maxIter : ℕ) (pInit : Option (List ℕ))
    (hp : ∀ idx, pInit = some idx → idx.Nodup ∧ ∀ i, i ∈ idx → i < n)
    (d : List α) (lc lc2 : ℕ)
    (h : Impl.fnnls solve A b tol maxIter pInit = .ok d .main lc lc2) :
    d.length = n ∧ Spec.IsKKT A b d tol := by
  have hcert := fnnls_main_certified solve hc n A b hA hrow tol htol maxIter hb pInit hp d lc lc2 h
  exact ⟨hcert.1, Certified.isKKT n A b tol htol hb d hcert⟩

/-- (b, structure of the result) every entry of a main-exit result is either exactly zero or exceeds the
    tolerance; the gradient vanishes exactly on the latter. -/
theorem b_fnnls_main_exit_entries (solve : List (List α) → List α → Option (List α))
    (hc : Spec.SolveContract solve) (n : ℕ) (A : List (List α)) (b : List α)
    (hA : A.length = n) (hrow : ∀ r, r ∈ A → r.length = n) (hb : b.length = n)
    (tol : α) (htol : 0 ≤ tol) (maxIter : ℕ) (pInit : Option (List ℕ))
    (hp : ∀ idx, pInit = some idx → idx.Nodup ∧ ∀ i, i ∈ idx → i < n)
    (d : List α) (lc lc2 : ℕ)
    (h : Impl.fnnls solve A b tol maxIter pInit = .ok d .main lc lc2) :
    ∀ i, i < n → (vget d i = 0 ∧ vget b i - vget (matVec A d) i ≤ tol)
      ∨ (tol < vget d i ∧ vget (matVec A d) i = vget b i) := by
  obtain ⟨_, P, _, hon, hoff⟩ :=
    fnnls_main_certified solve hc n A b hA hrow tol htol maxIter hb pInit hp d lc lc2 h
  intro i hi
  cases hpi : pget P i with
  | true => exact Or.inr (hon i hi hpi)
  | false => exact Or.inl (hoff i hi hpi)

/-- (b ∘ a) hence, for symmetric positive semi-definite `A`, a main-exit result is optimal among all
    `x ≥ 0` up to `tol·Σx`, with or without the warm start. -/
theorem b_fnnls_main_exit_near_optimal (solve : List (List α) → List α → Option (List α))
    (hc : Spec.SolveContract solve) (n : ℕ) (A : List (List α)) (b : List α)
    (hsym : Spec.IsSymm n A) (hpsd : Spec.IsPSD n A) (hb : b.length = n)
    (tol : α) (htol : 0 ≤ tol) (maxIter : ℕ) (pInit : Option (List ℕ))
    (hp : ∀ idx, pInit = some idx → idx.Nodup ∧ ∀ i, i ∈ idx → i < n)
    (d : List α) (lc lc2 : ℕ)
    (h : Impl.fnnls solve A b tol maxIter pInit = .ok d .main lc lc2)
    (x : List α) (hx : x.length = n) (hxn : Spec.Nonneg x) :
    Spec.qform A b d ≤ Spec.qform A b x + tol * ∑ i ∈ Finset.range n, vget x i := by
  obtain ⟨hd, hk⟩ := b_fnnls_main_exit_kkt solve hc n A b hsym.1 hsym.2.1 hb tol htol maxIter pInit hp
    d lc lc2 h
  exact a_kkt_tol_near_optimal n A b d x tol htol hsym hpsd hb hd hx hk hxn

end b

/-! ### (c) the unconstrained solver -/

section c
variable {α : Type} [Field α] [LinearOrder α] [IsStrictOrderedRing α]

/-- (c) `reconstruction_positive_negative_from` returns `s` with `(F+H) s = D`, or an error outcome
    (`singular`: the solve failed; `degenerate`: the all-values-equal check fired). -/
theorem c_unconstrained_solves (solve : List (List α) → List α → Option (List α))
    (hc : Spec.SolveContract solve) (atol rtol : α) (check : Bool) (ranges : List (ℕ × ℕ))
    (A : List (List α)) (b s : List α)
    (h : Impl.reconPosNeg solve atol rtol check ranges A b = .ok s) :
    s.length = b.length ∧ matVec A s = b := by
  unfold Impl.reconPosNeg at h
  split at h
  · simp at h
  · rename_i x hx
    split at h
    · simp at h
    · cases h
      exact hc A b s hx

/-- (c') the same through `AbstractInversion.reconstruction` with `use_positive_only_solver = False` -/
theorem c_reconstruction_unconstrained (solve : List (List α) → List α → Option (List α))
    (hc : Spec.SolveContract solve) (eps atol rtol : α) (maxIter : ℕ)
    (usePInit forceEdge forceEdgeImage check : Bool) (edge zero : List ℕ) (ranges : List (ℕ × ℕ))
    (A : List (List α)) (b s : List α)
    (h : Impl.reconstruction solve eps atol rtol maxIter false usePInit forceEdge forceEdgeImage check
      edge zero ranges A b = .ok s) :
    s.length = b.length ∧ matVec A s = b := by
  unfold Impl.reconstruction at h
  simp only [Bool.false_eq_true, if_false] at h
  exact c_unconstrained_solves solve hc atol rtol check ranges A b s h

end c

end C05
