/-
Props/C05.lean — property C05: the reconstruction is the true (non-negative) least-squares optimum.

Clauses (DESIGN.md §5 C05):
  a. the KKT certificate implies global optimality for symmetric PSD (F+H); the minimiser is unique for PD
  b. partial correctness of the active-set solver `fnnls_cholesky` (cold and warm start): a result
     returned through the main exit carries the KKT certificate
  c. the unconstrained solver returns s with (F+H)s = D, or the error outcome
  d. parameters forced to zero are zero, the rest is the solver's result for the reduced system
  e. the per-object mapped data sum to B·s and each summand is B_obj·s_obj
All theorems are about the `Impl` layer of Model/NNLS.lean (what the driver executes against the
Python), over an arbitrary ordered field; the external linear solvers enter through `Spec.SolveContract`,
which is discharged for the driver's instance in `solve_instance_contract`.
-/
import Model.NNLS
import Proofs.NNLS

open Model

namespace C05

/-! ### the solver parameter -/

/-- the driver's solver instance (exact Gauss–Jordan elimination with result check, over ℚ) meets the
    contract assumed of the external linear solvers -/
theorem solve_instance_contract : Spec.SolveContract (checkedSolve (α := Rat)) :=
  checkedSolve_contract

/-! ### (a) the KKT certificate is a certificate of global optimality -/

section a
variable {α : Type} [Field α] [LinearOrder α] [IsStrictOrderedRing α]

/-- (a, quantitative form) for symmetric positive semi-definite `A`, a point `s` carrying the KKT
    certificate with slack `tol ≥ 0` is optimal up to `tol·Σx` against every feasible `x`. -/
theorem a_kkt_tol_near_optimal (n : ℕ) (A : List (List α)) (b s x : List α) (tol : α) (htol : 0 ≤ tol)
    (hsym : Spec.IsSymm n A) (hpsd : Spec.IsPSD n A)
    (hb : b.length = n) (hs : s.length = n) (hx : x.length = n)
    (hk : Spec.IsKKT A b s tol) (hxn : Spec.Nonneg x) :
    Spec.qform A b s ≤ Spec.qform A b x + tol * ∑ i ∈ Finset.range n, vget x i := by
  have hgap := kkt_gap n A b s x tol htol hsym hb hs hx hk hxn
  have hv : (vsub x s).length = n := by rw [vsub_length, hx, hs, Nat.min_self]
  have := hpsd (vsub x s) hv
  have h2 : 0 ≤ dot (vsub x s) (matVec A (vsub x s)) / 2 := by positivity
  linarith

/-- (a) for symmetric positive semi-definite `A`: if `s ≥ 0`, the gradient `A s − b` vanishes on the
    positive entries of `s` and is non-negative on its zero entries, then `s` minimises
    `½ sᵀAs − bᵀs` over all `x ≥ 0`. -/
theorem a_kkt_is_global_minimum (n : ℕ) (A : List (List α)) (b s x : List α)
    (hsym : Spec.IsSymm n A) (hpsd : Spec.IsPSD n A)
    (hb : b.length = n) (hs : s.length = n) (hx : x.length = n)
    (hk : Spec.IsKKT A b s 0) (hxn : Spec.Nonneg x) :
    Spec.qform A b s ≤ Spec.qform A b x := by
  have := a_kkt_tol_near_optimal n A b s x 0 le_rfl hsym hpsd hb hs hx hk hxn
  simpa using this

/-- (a, uniqueness) for symmetric positive definite `A` the minimiser is unique: a feasible `x` that
    does at least as well as a KKT point `s` is `s`. -/
theorem a_minimiser_unique (n : ℕ) (A : List (List α)) (b s x : List α)
    (hsym : Spec.IsSymm n A) (hpd : Spec.IsPD n A)
    (hb : b.length = n) (hs : s.length = n) (hx : x.length = n)
    (hk : Spec.IsKKT A b s 0) (hxn : Spec.Nonneg x)
    (hle : Spec.qform A b x ≤ Spec.qform A b s) : x = s := by
  have hgap := kkt_gap n A b s x 0 le_rfl hsym hb hs hx hk hxn
  have hv : (vsub x s).length = n := by rw [vsub_length, hx, hs, Nat.min_self]
  have hq : dot (vsub x s) (matVec A (vsub x s)) ≤ 0 := by
    have : dot (vsub x s) (matVec A (vsub x s)) / 2 ≤ 0 := by linarith
    linarith
  have hzero : ∀ i, vget (vsub x s) i = 0 := by
    by_contra hne
    push Not at hne
    exact absurd (hpd (vsub x s) hv hne) (not_lt.mpr hq)
  apply List.ext_getElem (by rw [hx, hs])
  intro i h1 h2
  have := hzero i
  rw [vget_vsub x s i h1 h2, vget_eq_getElem x i h1, vget_eq_getElem s i h2] at this
  exact sub_eq_zero.mp this

/-- (a, corollary) for symmetric positive definite `A` there is at most one KKT point. -/
theorem a_kkt_point_unique (n : ℕ) (A : List (List α)) (b s s' : List α)
    (hsym : Spec.IsSymm n A) (hpd : Spec.IsPD n A)
    (hb : b.length = n) (hs : s.length = n) (hs' : s'.length = n)
    (hk : Spec.IsKKT A b s 0) (hk' : Spec.IsKKT A b s' 0) : s' = s := by
  have hpsd : Spec.IsPSD n A := by
    intro v hv
    by_cases h : ∃ i, vget v i ≠ 0
    · exact (hpd v hv h).le
    · push Not at h
      have : dot v (matVec A v) = 0 := by
        rw [dot_eq_sum n v (matVec A v) hv (by rw [matVec_length, hsym.1])]
        exact Finset.sum_eq_zero fun i _ => by rw [h i, zero_mul]
      rw [this]
  have hn : Spec.Nonneg s := fun i => by
    by_cases hi : i < n
    · exact (hk i (hb ▸ hi)).1
    · rw [vget_of_le s i (by omega)]
  have hn' : Spec.Nonneg s' := fun i => by
    by_cases hi : i < n
    · exact (hk' i (hb ▸ hi)).1
    · rw [vget_of_le s' i (by omega)]
  have h1 := a_kkt_is_global_minimum n A b s' s hsym hpsd hb hs' hs hk' hn
  exact a_minimiser_unique n A b s s' hsym hpd hb hs hs' hk hn' h1

end a

end C05
