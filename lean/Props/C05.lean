/-
Props/C05.lean — property C05: the reconstruction is the true (non-negative) least-squares optimum.

Clauses (DESIGN.md §5 C05):
  a. the KKT certificate implies global optimality for symmetric PSD (F+H); the minimiser is unique for PD
  b. partial correctness of the active-set solver `fnnls_cholesky` (cold and warm start): a result
     returned through the main exit carries the KKT certificate
  c. the unconstrained solver returns s with (F+H)s = D, or the error outcome
  d. parameters forced to zero are zero, the rest is the solver's result for the reduced system
  e. the per-object mapped data sum to B·s and each summand is B_obj·s_obj
All theorems are about the `Impl` layer of Model/NNLS.lean (what the driver executes against the
Python), over an arbitrary ordered field; the external linear solvers enter through `Spec.SolveContract`,
which is discharged for the driver's instance in `solve_instance_contract`.

Section `chol` (Model/Cholesky.lean): the Cholesky bookkeeping of `fnnls_cholesky` — `_cholupdate`,
`cholinsertlast`, `choldeleteindexes` of util/cholesky_funcs.py and the substitutions of `cho_solve` — is
modelled and proved exact over an ordered field with only `sqrt` assumed (`Spec.SqrtContract`, discharged
for `Real.sqrt`); `Spec.SolveContract` is thereby INSTANTIATED by the code's own passive-set solve
(`chol_solve_instance_contract`), clause (b) holds for `Impl.fnnls (Impl.cholSolve sqrt)`
(`chol_fnnls_main_exit_kkt`), and on symmetric positive-definite systems that solve never fails, which closes
the open disjunct of `b_terminates_exact` (`chol_terminates_exact`).
-/
import Model.NNLS
import Model.Cholesky
import Proofs.Cholesky
import Proofs.CholeskySolve
import Proofs.CholeskyDelete
import Proofs.CholeskyPD
import Proofs.CholeskyNNLS
import Proofs.CholeskyExact
import Mathlib.Analysis.Real.Sqrt
import Proofs.NNLS
import Proofs.NNLSLoop
import Proofs.NNLSRecon
import Proofs.NNLSTerm
import Proofs.NNLSDescent
import Proofs.NNLSCount
import Proofs.NNLSWTildeMapped
import Mathlib.Algebra.Order.Field.Rat
import Mathlib.Tactic.NormNum
import Mathlib.Tactic.IntervalCases

open Model

namespace C05

/-! ### the solver parameter -/

/-- the driver's solver instance (exact Gauss–Jordan elimination with result check, over ℚ) meets the
    contract assumed of the external linear solvers -/
theorem solve_instance_contract : Spec.SolveContract (checkedSolve (α := Rat)) :=
  checkedSolve_contract

/-! ### (a) the KKT certificate is a certificate of global optimality -/

section a
variable {α : Type} [Field α] [LinearOrder α] [IsStrictOrderedRing α]

/-- (a, quantitative form) for symmetric positive semi-definite `A`, a point `s` carrying the KKT
    certificate with slack `tol ≥ 0` is optimal up to `tol·Σx` against every feasible `x`. -/
theorem a_kkt_tol_near_optimal (n : ℕ) (A : List (List α)) (b s x : List α) (tol : α) (htol : 0 ≤ tol)
    (hsym : Spec.IsSymm n A) (hpsd : Spec.IsPSD n A)
    (hb : b.length = n) (hs : s.length = n) (hx : x.length = n)
    (hk : Spec.IsKKT A b s tol) (hxn : Spec.Nonneg x) :
    Spec.qform A b s ≤ Spec.qform A b x + tol * ∑ i ∈ Finset.range n, vget x i := by
  have hgap := kkt_gap n A b s x tol htol hsym hb hs hx hk hxn
  have hv : (vsub x s).length = n := by rw [vsub_length, hx, hs, Nat.min_self]
  have := hpsd (vsub x s) hv
  have h2 : 0 ≤ dot (vsub x s) (matVec A (vsub x s)) / 2 := by positivity
  linarith

/-- (a) for symmetric positive semi-definite `A`: if `s ≥ 0`, the gradient `A s − b` vanishes on the
    positive entries of `s` and is non-negative on its zero entries, then `s` minimises
    `½ sᵀAs − bᵀs` over all `x ≥ 0`. -/
theorem a_kkt_is_global_minimum (n : ℕ) (A : List (List α)) (b s x : List α)
    (hsym : Spec.IsSymm n A) (hpsd : Spec.IsPSD n A)
    (hb : b.length = n) (hs : s.length = n) (hx : x.length = n)
    (hk : Spec.IsKKT A b s 0) (hxn : Spec.Nonneg x) :
    Spec.qform A b s ≤ Spec.qform A b x := by
  have := a_kkt_tol_near_optimal n A b s x 0 le_rfl hsym hpsd hb hs hx hk hxn
  simpa using this

/-- (a, uniqueness) for symmetric positive definite `A` the minimiser is unique: a feasible `x` that
    does at least as well as a KKT point `s` is `s`. -/
theorem a_minimiser_unique (n : ℕ) (A : List (List α)) (b s x : List α)
    (hsym : Spec.IsSymm n A) (hpd : Spec.IsPD n A)
    (hb : b.length = n) (hs : s.length = n) (hx : x.length = n)
    (hk : Spec.IsKKT A b s 0) (hxn : Spec.Nonneg x)
    (hle : Spec.qform A b x ≤ Spec.qform A b s) : x = s := by
  have hgap := kkt_gap n A b s x 0 le_rfl hsym hb hs hx hk hxn
  have hv : (vsub x s).length = n := by rw [vsub_length, hx, hs, Nat.min_self]
  have hq : dot (vsub x s) (matVec A (vsub x s)) ≤ 0 := by
    have : dot (vsub x s) (matVec A (vsub x s)) / 2 ≤ 0 := by linarith
    linarith
  have hzero : ∀ i, vget (vsub x s) i = 0 := by
    by_contra hne
    push Not at hne
    exact absurd (hpd (vsub x s) hv hne) (not_lt.mpr hq)
  apply List.ext_getElem (by rw [hx, hs])
  intro i h1 h2
  have := hzero i
  rw [vget_vsub x s i h1 h2, vget_eq_getElem x i h1, vget_eq_getElem s i h2] at this
  exact sub_eq_zero.mp this

/-- (a, corollary) for symmetric positive definite `A` there is at most one KKT point. -/
theorem a_kkt_point_unique (n : ℕ) (A : List (List α)) (b s s' : List α)
    (hsym : Spec.IsSymm n A) (hpd : Spec.IsPD n A)
    (hb : b.length = n) (hs : s.length = n) (hs' : s'.length = n)
    (hk : Spec.IsKKT A b s 0) (hk' : Spec.IsKKT A b s' 0) : s' = s := by
  have hpsd : Spec.IsPSD n A := by
    intro v hv
    by_cases h : ∃ i, vget v i ≠ 0
    · exact (hpd v hv h).le
    · push Not at h
      have : dot v (matVec A v) = 0 := by
        rw [dot_eq_sum n v (matVec A v) hv (by rw [matVec_length, hsym.1])]
        exact Finset.sum_eq_zero fun i _ => by rw [h i, zero_mul]
      rw [this]
  have hn : Spec.Nonneg s := fun i => by
    by_cases hi : i < n
    · exact (hk i (hb ▸ hi)).1
    · rw [vget_of_le s i (by omega)]
  have hn' : Spec.Nonneg s' := fun i => by
    by_cases hi : i < n
    · exact (hk' i (hb ▸ hi)).1
    · rw [vget_of_le s' i (by omega)]
  have h1 := a_kkt_is_global_minimum n A b s' s hsym hpsd hb hs' hs hk' hn
  exact a_minimiser_unique n A b s s' hsym hpd hb hs hs' hk hn' h1

/-- the executable certificate check that the driver evaluates on every model result (`kkt`, `kkt0` in
    the `c05.fnnls` response) is sound for `Spec.IsKKT` -/
theorem a_executable_certificate_sound (A : List (List α)) (b s : List α) (tol : α)
    (h : Spec.isKKTb A b s tol = true) : Spec.IsKKT A b s tol :=
  isKKTb_sound A b s tol h

end a

/-! ### (b) partial correctness of the active-set solver -/

section b
variable {α : Type} [Field α] [LinearOrder α] [IsStrictOrderedRing α]

/-- (b) `fnnls_cholesky(ZTZ, ZTx, P_initial)` — cold start (`pInit = none`) or warm start from any
    duplicate-free in-range `P_initial` (repaired prologue) — with linear solves meeting the solve
    contract: a vector returned through the main exit of the loop has length `n` and satisfies the KKT
    conditions with slack `tol` (`tol = 2.2204e-16·n` in the code): `d ≥ 0`, `(A d − b)_i = 0` where
    `d_i > 0`, `(b − A d)_i ≤ tol` where `d_i = 0`.  No positive-definiteness is needed for this clause.
    Termination is not claimed: the other outcomes (`no_update` break, iteration guard, failed solve)
    are distinct values of `Impl.Outcome`. -/
theorem b_fnnls_main_exit_kkt (solve : List (List α) → List α → Option (List α))
    (hc : Spec.SolveContract solve) (n : ℕ) (A : List (List α)) (b : List α)
    (hA : A.length = n) (hrow : ∀ r, r ∈ A → r.length = n) (hb : b.length = n)
    (tol : α) (htol : 0 ≤ tol) (maxIter : ℕ) (pInit : Option (List ℕ))
    (hp : ∀ idx, pInit = some idx → idx.Nodup ∧ ∀ i, i ∈ idx → i < n)
    (d : List α) (lc lc2 : ℕ)
    (h : Impl.fnnls solve A b tol maxIter pInit = .ok d .main lc lc2) :
    d.length = n ∧ Spec.IsKKT A b d tol := by
  have hcert := fnnls_main_certified solve hc n A b hA hrow tol htol maxIter hb pInit hp d lc lc2 h
  exact ⟨hcert.1, Certified.isKKT n A b tol htol hb d hcert⟩

/-- (b, structure of the result) every entry of a main-exit result is either exactly zero or exceeds the
    tolerance; the gradient vanishes exactly on the latter. -/
theorem b_fnnls_main_exit_entries (solve : List (List α) → List α → Option (List α))
    (hc : Spec.SolveContract solve) (n : ℕ) (A : List (List α)) (b : List α)
    (hA : A.length = n) (hrow : ∀ r, r ∈ A → r.length = n) (hb : b.length = n)
    (tol : α) (htol : 0 ≤ tol) (maxIter : ℕ) (pInit : Option (List ℕ))
    (hp : ∀ idx, pInit = some idx → idx.Nodup ∧ ∀ i, i ∈ idx → i < n)
    (d : List α) (lc lc2 : ℕ)
    (h : Impl.fnnls solve A b tol maxIter pInit = .ok d .main lc lc2) :
    ∀ i, i < n → (vget d i = 0 ∧ vget b i - vget (matVec A d) i ≤ tol)
      ∨ (tol < vget d i ∧ vget (matVec A d) i = vget b i) := by
  obtain ⟨_, P, _, hon, hoff⟩ :=
    fnnls_main_certified solve hc n A b hA hrow tol htol maxIter hb pInit hp d lc lc2 h
  intro i hi
  cases hpi : pget P i with
  | true => exact Or.inr (hon i hi hpi)
  | false => exact Or.inl (hoff i hi hpi)

/-- (b, any exit) whatever way the loop is left (main exit or the `no_update` break), the returned vector
    has length `n`, is non-negative — every entry is exactly zero or exceeds the tolerance — and the
    gradient vanishes exactly on its non-zero entries. Only the sign condition on the zero entries is
    specific to the main exit. -/
theorem b_fnnls_any_exit_primal (solve : List (List α) → List α → Option (List α))
    (hc : Spec.SolveContract solve) (n : ℕ) (A : List (List α)) (b : List α)
    (hA : A.length = n) (hrow : ∀ r, r ∈ A → r.length = n) (hb : b.length = n)
    (tol : α) (htol : 0 ≤ tol) (maxIter : ℕ) (pInit : Option (List ℕ))
    (hp : ∀ idx, pInit = some idx → idx.Nodup ∧ ∀ i, i ∈ idx → i < n)
    (d : List α) (ex : Impl.Exit) (lc lc2 : ℕ)
    (h : Impl.fnnls solve A b tol maxIter pInit = .ok d ex lc lc2) :
    d.length = n ∧ ∀ i, i < n → vget d i = 0 ∨ (tol < vget d i ∧ vget (matVec A d) i = vget b i) := by
  obtain ⟨hd, P, _, hon, hoff⟩ :=
    fnnls_certified solve hc n A b hA hrow tol htol maxIter hb pInit hp d ex lc lc2 h
  refine ⟨hd, fun i hi => ?_⟩
  cases hpi : pget P i with
  | true => exact Or.inr (hon i hi hpi)
  | false => exact Or.inl (hoff i hi hpi).1

/-- (b ∘ a) hence, for symmetric positive semi-definite `A`, a main-exit result is optimal among all
    `x ≥ 0` up to `tol·Σx`, with or without the warm start. -/
theorem b_fnnls_main_exit_near_optimal (solve : List (List α) → List α → Option (List α))
    (hc : Spec.SolveContract solve) (n : ℕ) (A : List (List α)) (b : List α)
    (hsym : Spec.IsSymm n A) (hpsd : Spec.IsPSD n A) (hb : b.length = n)
    (tol : α) (htol : 0 ≤ tol) (maxIter : ℕ) (pInit : Option (List ℕ))
    (hp : ∀ idx, pInit = some idx → idx.Nodup ∧ ∀ i, i ∈ idx → i < n)
    (d : List α) (lc lc2 : ℕ)
    (h : Impl.fnnls solve A b tol maxIter pInit = .ok d .main lc lc2)
    (x : List α) (hx : x.length = n) (hxn : Spec.Nonneg x) :
    Spec.qform A b d ≤ Spec.qform A b x + tol * ∑ i ∈ Finset.range n, vget x i := by
  obtain ⟨hd, hk⟩ := b_fnnls_main_exit_kkt solve hc n A b hsym.1 hsym.2.1 hb tol htol maxIter pInit hp
    d lc lc2 h
  exact a_kkt_tol_near_optimal n A b d x tol htol hsym hpsd hb hd hx hk hxn

/-- (b, progress of the inner loop) one pass of `fix_constraint_cholesky` made under the inner-loop guard
    `np.any(P) and np.min(s_chol[P]) <= tolerance` removes at least one index from the passive set: the
    index attaining the minimum step ratio `alpha` lands on `d + alpha (s − d) ≤ tolerance`. This holds
    for ANY linear solver (no contract needed) and any state whose arrays have length `n`. -/
theorem b_fix_constraint_shrinks_passive_set (solve : List (List α) → List α → Option (List α))
    (A : List (List α)) (b : List α) (n : ℕ) (tol : α) (htol : 0 ≤ tol) (st st' : Impl.St α)
    (hP : st.P.length = n) (hs : st.s.length = n) (hd : st.d.length = n)
    (hg : Impl.anyPassiveBelow st.s st.P tol = true)
    (h : Impl.fixConstraint solve A b tol st = some st') :
    st'.P.count true < st.P.count true :=
  (fixConstraint_shrinks solve A b n tol htol st st' hP hs hd hg h).1

/-- (b, termination of the inner loop) the inner `while np.any(P) and np.min(s_chol[P]) <= tolerance`
    loop of the state machine needs no fuel: run with any budget larger than the current size of the
    passive set (e.g. `|P| + 1`) it never leaves through the `fuel` outcome, and when it returns it has
    made at most `|P|` passes (`loop_count2` grows by at most the number of indices removed). For every
    ordered field, every linear solver, every state with arrays of length `n`. (The other outcomes — a
    failed solve, the code's own cumulative `loop_count2 > 10000` guard — remain possible.) -/
theorem b_inner_loop_terminates (solve : List (List α) → List α → Option (List α))
    (A : List (List α)) (b : List α) (n : ℕ) (tol : α) (htol : 0 ≤ tol) (maxIter : ℕ)
    (st : Impl.St α) (hP : st.P.length = n) (hs : st.s.length = n) (hd : st.d.length = n)
    (fuel : ℕ) (hfuel : st.P.count true < fuel) :
    Impl.innerLoop solve A b tol maxIter fuel st ≠ .error .fuel
    ∧ ∀ st', Impl.innerLoop solve A b tol maxIter fuel st = .ok st' →
        st'.loopCount2 + st'.P.count true ≤ st.loopCount2 + st.P.count true :=
  innerLoop_terminates solve A b n tol htol maxIter fuel st hP hs hd hfuel

/-- (b, progress of the outer loop, exact arithmetic) For symmetric positive definite `A`, tolerance 0 and
    linear solves meeting the contract: from any state satisfying the loop-head invariant `OInv` (`P` and
    `P_inorder` in sync, `d = s_chol` is `> 0` on `P`, `0` off `P`, solves the passive-set system, `w` is
    the gradient at `d` — established by the prologue, `initState_inv`, and re-established by every
    iteration), one iteration of the outer loop — enter `argmax (w * ~P)`, solve, run the inner loop —
    strictly decreases the objective: `q(s_chol after the inner loop) < q(d before)`. Hence no passive set
    can recur (`d` is the unique minimiser on its face), which is the classical finite-termination
    argument; the counting step (at most `2^n` iterations) is not formalised. -/
theorem b_outer_step_decreases_objective (solve : List (List α) → List α → Option (List α))
    (hc : Spec.SolveContract solve) (n : ℕ) (A : List (List α)) (b : List α)
    (hsym : Spec.IsSymm n A) (hpd : Spec.IsPD n A) (hb : b.length = n) (maxIter : ℕ)
    (st : Impl.St α) (ho : OInv n A b 0 st) (hg : Impl.anyActiveAbove st.w st.P 0 = true)
    (x : List α)
    (hx : Impl.solveOn solve A b (st.Pin ++ [Impl.argmax (Impl.maskActive st.w st.P)]) = some x)
    (fuel : ℕ) (st2 : Impl.St α)
    (hin : Impl.innerLoop solve A b 0 maxIter fuel
      { st with P := st.P.set (Impl.argmax (Impl.maskActive st.w st.P)) true,
                Pin := st.Pin ++ [Impl.argmax (Impl.maskActive st.w st.P)],
                s := scatter st.s (st.Pin ++ [Impl.argmax (Impl.maskActive st.w st.P)]) x } = .ok st2) :
    Spec.qform A b st2.s < Spec.qform A b st.d :=
  outer_step_decreases solve hc n A b hsym hpd hb maxIter st ho hg x hx fuel st2 hin

/-- (b, the same along the whole run) in exact arithmetic the vector `fnnls_cholesky` returns — through
    either exit, cold or warm start — is never worse than the prologue's starting point, and strictly
    better as soon as the loop body runs once. -/
theorem b_outer_loop_objective_decreases (solve : List (List α) → List α → Option (List α))
    (hc : Spec.SolveContract solve) (n : ℕ) (A : List (List α)) (b : List α)
    (hsym : Spec.IsSymm n A) (hpd : Spec.IsPD n A) (hb : b.length = n) (maxIter : ℕ)
    (pInit : Option (List ℕ)) (hp : ∀ idx, pInit = some idx → idx.Nodup ∧ ∀ i, i ∈ idx → i < n)
    (st0 : Impl.St α) (h0 : Impl.initState solve A b 0 pInit = some st0)
    (d : List α) (ex : Impl.Exit) (lc lc2 : ℕ)
    (h : Impl.fnnls solve A b 0 maxIter pInit = .ok d ex lc lc2) :
    Spec.qform A b d ≤ Spec.qform A b st0.d
      ∧ (Impl.anyActiveAbove st0.w st0.P 0 = true → Spec.qform A b d < Spec.qform A b st0.d) := by
  unfold Impl.fnnls at h
  rw [h0] at h
  exact outerLoop_objective solve hc n A b hsym hpd hb maxIter _ st0 d ex lc lc2
    (initState_inv solve hc n A b hsym.1 hsym.2.1 0 pInit hp st0 h0) h

/-- (b, termination and total correctness in exact arithmetic) For symmetric positive definite `A`,
    tolerance 0, linear solves meeting the contract, cold start or any duplicate-free in-range warm start,
    and `2^n + n ≤ maxIter` — so that the code's two iteration guards (`loop_count > maxIter`,
    `loop_count2 > maxIter`) cannot fire before the argument below is exhausted (for the code's constant
    10000 this is `n ≤ 13`; the model's own recursion budget is `maxIter + 2 > 2^n`):
    `fnnls_cholesky` leaves its loop through the MAIN exit — never through the fuel outcome, the iteration
    guards or the `no_update` break — and the vector it returns satisfies the exact KKT conditions and is a
    global minimiser of `½ xᵀAx − bᵀx` over `x ≥ 0` (the unique one, `a_minimiser_unique`); the only
    alternative is that one of the linear solves it requested failed (`solveOn … = none`, which an exact
    solver does not do on a principal submatrix of a PD matrix — solver completeness is not part of the
    contract).  Argument: strict descent (`b_outer_step_decreases_objective`) + uniqueness of the
    stationary point of a face ⇒ the passive sets seen at the loop head are pairwise different ⇒ at most
    `2^n` iterations; each inner pass removes an index (`b_inner_loop_terminates`) ⇒ at most `2^n + n`
    inner passes in total; `P` changes in every iteration ⇒ `no_update` stays 0. -/
theorem b_terminates_exact (solve : List (List α) → List α → Option (List α))
    (hc : Spec.SolveContract solve) (n : ℕ) (A : List (List α)) (b : List α)
    (hsym : Spec.IsSymm n A) (hpd : Spec.IsPD n A) (hb : b.length = n)
    (maxIter : ℕ) (hmax : 2 ^ n + n ≤ maxIter) (pInit : Option (List ℕ))
    (hp : ∀ idx, pInit = some idx → idx.Nodup ∧ ∀ i, i ∈ idx → i < n) :
    (∃ d lc lc2, Impl.fnnls solve A b 0 maxIter pInit = .ok d .main lc lc2
        ∧ d.length = n ∧ Spec.IsKKT A b d 0
        ∧ ∀ x : List α, x.length = n → Spec.Nonneg x → Spec.qform A b d ≤ Spec.qform A b x)
    ∨ (Impl.fnnls solve A b 0 maxIter pInit = .err .singular
        ∧ ∃ idx, Impl.solveOn solve A b idx = none) := by
  rcases fnnls_exact solve hc n A b hsym hpd hb maxIter hmax pInit hp with ⟨d, lc, lc2, h⟩ | h
  · left
    obtain ⟨hd, hk⟩ := b_fnnls_main_exit_kkt solve hc n A b hsym.1 hsym.2.1 hb 0 le_rfl maxIter pInit hp
      d lc lc2 h
    exact ⟨d, lc, lc2, h, hd, hk, fun x hx hxn =>
      a_kkt_is_global_minimum n A b d x hsym (isPSD_of_isPD n A hsym.1 hpd) hb hd hx hk hxn⟩
  · exact Or.inr h

/-- (b, the same for an explicit recursion budget) from any loop-head state of a run — invariant `OInv`,
    `visited` = the pairwise different passive sets seen so far, each with a larger objective — the outer
    loop with `fuel + |visited| > 2^n` ends through the main exit or in a failed solve. -/
theorem b_outer_loop_terminates_exact (solve : List (List α) → List α → Option (List α))
    (hc : Spec.SolveContract solve) (n : ℕ) (A : List (List α)) (b : List α)
    (hsym : Spec.IsSymm n A) (hpd : Spec.IsPD n A) (hb : b.length = n)
    (maxIter : ℕ) (hmax : 2 ^ n + n ≤ maxIter) (fuel : ℕ) (st : Impl.St α)
    (visited : List (List Bool)) (ho : OInv n A b 0 st) (hnd : visited.Nodup)
    (hl : ∀ V, V ∈ visited → V.length = n)
    (hdesc : ∀ V, V ∈ visited → ∀ x, FaceMin n A b V x → Spec.qform A b st.d < Spec.qform A b x)
    (hlc : st.loopCount ≤ visited.length)
    (hlc2 : st.loopCount2 + st.P.count true ≤ st.loopCount + n)
    (hf : 2 ^ n < fuel + visited.length) :
    (∃ d lc lc2, Impl.outerLoop solve A b 0 maxIter fuel st = .ok d .main lc lc2)
      ∨ (Impl.outerLoop solve A b 0 maxIter fuel st = .err .singular
          ∧ ∃ idx, Impl.solveOn solve A b idx = none) :=
  outerLoop_exact solve hc n A b hsym hpd hb maxIter hmax fuel st visited ho hnd hl hdesc hlc hlc2 hf

end b

/-! ### (c) the unconstrained solver -/

section c
variable {α : Type} [Field α] [LinearOrder α] [IsStrictOrderedRing α]

/-- (c) `reconstruction_positive_negative_from` returns `s` with `(F+H) s = D`, or an error outcome
    (`singular`: the solve failed; `degenerate`: the all-values-equal check fired). -/
theorem c_unconstrained_solves (solve : List (List α) → List α → Option (List α))
    (hc : Spec.SolveContract solve) (atol rtol : α) (check : Bool) (ranges : List (ℕ × ℕ))
    (A : List (List α)) (b s : List α)
    (h : Impl.reconPosNeg solve atol rtol check ranges A b = .ok s) :
    s.length = b.length ∧ matVec A s = b := by
  unfold Impl.reconPosNeg at h
  split at h
  · simp at h
  · rename_i x hx
    split at h
    · simp at h
    · cases h
      exact hc A b s hx

/-- (c') the same through `AbstractInversion.reconstruction` with `use_positive_only_solver = False` -/
theorem c_reconstruction_unconstrained (solve : List (List α) → List α → Option (List α))
    (hc : Spec.SolveContract solve) (eps atol rtol : α) (maxIter : ℕ)
    (usePInit forceEdge forceEdgeImage check : Bool) (edge zero : List ℕ) (ranges : List (ℕ × ℕ))
    (A : List (List α)) (b s : List α)
    (h : Impl.reconstruction solve eps atol rtol maxIter false usePInit forceEdge forceEdgeImage check
      edge zero ranges A b = .ok s) :
    s.length = b.length ∧ matVec A s = b := by
  unfold Impl.reconstruction at h
  simp only [Bool.false_eq_true, if_false] at h
  exact c_unconstrained_solves solve hc atol rtol check ranges A b s h

end c

/-! ### (b') and (d): the positive-only entry points, forced zeros -/

section d
variable {α : Type} [Field α] [LinearOrder α] [IsStrictOrderedRing α]

/-- (b') `reconstruction_positive_only_from`, with `positive_only_uses_p_initial` on or off: a main-exit
    result satisfies the KKT conditions of the system it was given (slack `eps·n`, the code's tolerance). -/
theorem b_reconPosOnly_main_exit_kkt (solve : List (List α) → List α → Option (List α))
    (hc : Spec.SolveContract solve) (n : ℕ) (A : List (List α)) (b : List α) (hA : A.length = n)
    (hrow : ∀ r, r ∈ A → r.length = n) (hb : b.length = n) (eps : α) (heps : 0 ≤ eps) (maxIter : ℕ)
    (usePInit : Bool) (d : List α) (lc lc2 : ℕ)
    (h : Impl.reconPosOnly solve eps maxIter usePInit A b = .ok d .main lc lc2) :
    d.length = n ∧ Spec.IsKKT A b d (eps * (n : α)) := by
  have hcert := reconPosOnly_main_certified solve hc n A b hA hrow hb eps heps maxIter usePInit d lc lc2 h
  exact ⟨hcert.1, Certified.isKKT n A b _ (mul_nonneg heps (Nat.cast_nonneg n)) hb d hcert⟩

/-- (d) `AbstractInversion.reconstruction` with the positive-only solver and
    `force_edge_pixels_to_zeros`: the result is the embedding (`solutions = zeros(n);
    solutions[values_to_solve] = …`) of the positive-only solver's result `y` for the reduced system
    (rows/columns of the forced indices removed); every forced parameter is exactly zero; the kept entries
    of `s` are the entries of `y`; and when `y` left the solver through its main exit it satisfies the KKT
    conditions of the reduced system. -/
theorem d_forced_zeros (solve : List (List α) → List α → Option (List α))
    (hc : Spec.SolveContract solve) (eps atol rtol : α) (heps : 0 ≤ eps) (maxIter : ℕ)
    (usePInit forceEdgeImage check : Bool) (edge zero : List ℕ) (ranges : List (ℕ × ℕ))
    (n : ℕ) (A : List (List α)) (b s : List α) (hA : A.length = n)
    (h : Impl.reconstruction solve eps atol rtol maxIter true usePInit true forceEdgeImage check
      edge zero ranges A b = .ok s) :
    let ids := Impl.idsZeros forceEdgeImage edge zero
    let keep := (List.range n).filter fun i => !(ids.contains i)
    ∃ y ex lc lc2,
      Impl.reconPosOnly solve eps maxIter usePInit (subMat A keep) (gather b keep) = .ok y ex lc lc2
      ∧ s = scatter (zeros n) keep y
      ∧ s.length = n
      ∧ (∀ i, i < n → i ∈ ids → vget s i = 0)
      ∧ y.length = keep.length
      ∧ (∀ k (hk : k < keep.length), vget s keep[k] = vget y k)
      ∧ (ex = .main → Spec.IsKKT (subMat A keep) (gather b keep) y (eps * (keep.length : α))) := by
  intro ids keep
  unfold Impl.reconstruction at h
  simp only [if_true, hA] at h
  split at h
  · simp at h
  · rename_i y ex lc lc2 hy
    cases h
    have hyl : y.length = keep.length :=
      (reconPosOnly_certified solve hc keep.length (subMat A keep) (gather b keep)
        (subMat_length A keep) (subMat_row_length A keep) (gather_length b keep) eps heps maxIter usePInit
        y ex lc lc2 hy).1
    refine ⟨y, ex, lc, lc2, hy, rfl, by rw [scatter_length, zeros_length], ?_, hyl, ?_, ?_⟩
    · intro i hi hmem
      have hnk : i ∉ keep := by
        intro hk
        have := (List.mem_filter.mp hk).2
        have hc' : ids.contains i = true := List.contains_iff_mem.mpr hmem
        rw [hc'] at this
        simp at this
      rw [vget_scatter_not_mem _ _ _ _ hnk, vget_zeros]
    · intro k hk'
      exact vget_scatter_mem (zeros n) keep y (List.nodup_range.filter _)
        (fun i hi => by rw [zeros_length]; exact List.mem_range.mp (List.mem_filter.mp hi).1) hyl k hk'
    · intro hex
      subst hex
      exact (b_reconPosOnly_main_exit_kkt solve hc keep.length (subMat A keep) (gather b keep)
        (subMat_length A keep) (subMat_row_length A keep) (gather_length b keep) eps heps maxIter usePInit
        y lc lc2 hy).2

/-- (d') without `force_edge_pixels_to_zeros` the positive-only reconstruction is the solver's result for
    the full system. -/
theorem d_no_forced_zeros (solve : List (List α) → List α → Option (List α))
    (hc : Spec.SolveContract solve) (eps atol rtol : α) (heps : 0 ≤ eps) (maxIter : ℕ)
    (usePInit forceEdgeImage check : Bool) (edge zero : List ℕ) (ranges : List (ℕ × ℕ))
    (n : ℕ) (A : List (List α)) (b s : List α) (hA : A.length = n)
    (hrow : ∀ r, r ∈ A → r.length = n) (hb : b.length = n)
    (h : Impl.reconstruction solve eps atol rtol maxIter true usePInit false forceEdgeImage check
      edge zero ranges A b = .ok s) :
    ∃ ex lc lc2, Impl.reconPosOnly solve eps maxIter usePInit A b = .ok s ex lc lc2
      ∧ (ex = .main → s.length = n ∧ Spec.IsKKT A b s (eps * (n : α))) := by
  unfold Impl.reconstruction at h
  simp only [if_true, Bool.false_eq_true, if_false] at h
  split at h
  · simp at h
  · rename_i y ex lc lc2 hy
    cases h
    refine ⟨ex, lc, lc2, hy, fun hex => ?_⟩
    subst hex
    exact b_reconPosOnly_main_exit_kkt solve hc n A b hA hrow hb eps heps maxIter usePInit s lc lc2 hy

end d

/-! ### (e) mapped reconstructed data -/

section e
variable {α : Type} [Field α] [LinearOrder α] [IsStrictOrderedRing α]

/-- (e1) the data returned for each linear object is its blurred mapping matrix times its slice of the
    reconstruction (`mapped_reconstructed_data_dict` of the mapping formalism: slices taken consecutively
    by `source_quantity_dict_from`, the double loop of `mapped_reconstructed_data_via_mapping_matrix_from`). -/
theorem e_mapped_data_each (m : ℕ) (hm : 0 < m) (Bs : List (List (List α))) (ss : List (List α))
    (hsh : ShapesOK m Bs ss) :
    Impl.mappedDataDict Bs ss.flatten = List.zipWith matVec Bs ss :=
  mappedDataDict_eq m hm Bs ss hsh

/-- (e2) `mapped_reconstructed_data = sum(dict.values())`: entry `i` of the total is the sum over the
    objects of entry `i` of their mapped data, which is entry `i` of `B·s` for the full blurred mapping
    matrix `B = hstack(B_obj)` and the full reconstruction `s = concat(s_obj)`. -/
theorem e_mapped_data_sum (m : ℕ) (hm : 0 < m) (Bs : List (List (List α))) (ss : List (List α))
    (hsh : ShapesOK m Bs ss) :
    (Impl.mappedData m (Impl.mappedDataDict Bs ss.flatten)).length = m
    ∧ ∀ i, i < m →
        vget (Impl.mappedData m (Impl.mappedDataDict Bs ss.flatten)) i
            = (List.zipWith (fun B sk => vget (matVec B sk) i) Bs ss).sum
        ∧ vget (Impl.mappedData m (Impl.mappedDataDict Bs ss.flatten)) i
            = vget (matVec (Impl.hstack m Bs) ss.flatten) i := by
  rw [mappedDataDict_eq m hm Bs ss hsh]
  have himgs : ∀ v, v ∈ List.zipWith matVec Bs ss → v.length = m := by
    intro v hv
    induction hsh with
    | nil => simp at hv
    | @cons B sk Bs' ss' hd _ ih =>
      simp only [List.zipWith_cons_cons, List.mem_cons] at hv
      rcases hv with rfl | hv
      · rw [matVec_length, hd.1]
      · exact ih hv
  obtain ⟨h1, h2⟩ := mappedData_fold m (List.zipWith matVec Bs ss) (List.replicate m 0) (by simp) himgs
  refine ⟨h1, fun i hi => ?_⟩
  have hsum : (List.map (fun v => vget v i) (List.zipWith matVec Bs ss)).sum
      = (List.zipWith (fun B sk => vget (matVec B sk) i) Bs ss).sum := by
    rw [List.map_zipWith]
  have hzero : vget (List.replicate m (0 : α)) i = 0 := vget_zeros m i
  have htot : vget (Impl.mappedData m (List.zipWith matVec Bs ss)) i
      = (List.zipWith (fun B sk => vget (matVec B sk) i) Bs ss).sum := by
    unfold Impl.mappedData
    rw [h2 i hi, hzero, zero_add, hsum]
  exact ⟨htot, by rw [htot, hstack_row_dot m Bs ss hsh i hi]⟩

end e

/-! ### e (w-tilde formalism): `InversionImagingWTilde.mapped_reconstructed_data_dict`

The w-tilde route maps a mapper's slice of `s` through the sparse unique-mapping tables
(`mapped_reconstructed_data_via_image_to_pix_unique_from`) and blurs the image with
`convolve_image_no_blurring`; function lists use their operated matrix. For every mask / odd kernel
(any `cv`), every table that `Encodes` a mapping matrix `M` (C06.e: `Proofs/WTildeMappedC06.lean` shows
`Impl.uniqueFrom` produces such tables), every mix and order of objects and every reconstruction, this
equals `B_obj · s_obj` with `B_obj = convolveMatrix M` — the value the mapping formalism returns — and
the per-object images sum to `hstack(B) · s`. -/
section e_wtilde
variable {α : Type} [Field α] [LinearOrder α] [IsStrictOrderedRing α]

theorem e_w_tilde_mapped_data_each (cv : Impl.Convolver α) (m : ℕ) (hm : 0 < m)
    (objs : List (WTildeMapped.LinObj α)) (Bs : List (List (List α))) (ss : List (List α))
    (hB : List.Forall₂ (WTildeMapped.IsBlurredOf cv m) objs Bs) (hsh : ShapesOK m Bs ss) :
    WTildeMapped.mappedDataDict (Impl.convolveNoBlurring cv) objs ss.flatten = List.zipWith matVec Bs ss
    ∧ WTildeMapped.mappedDataDict (Impl.convolveNoBlurring cv) objs ss.flatten
        = Impl.mappedDataDict Bs ss.flatten :=
  WTildeMapped.e_w_tilde_mapped_data_each cv m hm objs Bs ss hB hsh

theorem e_w_tilde_mapped_data_sum (cv : Impl.Convolver α) (m : ℕ) (hm : 0 < m)
    (objs : List (WTildeMapped.LinObj α)) (Bs : List (List (List α))) (ss : List (List α))
    (hB : List.Forall₂ (WTildeMapped.IsBlurredOf cv m) objs Bs) (hsh : ShapesOK m Bs ss) :
    (Impl.mappedData m
        (WTildeMapped.mappedDataDict (Impl.convolveNoBlurring cv) objs ss.flatten)).length = m
    ∧ ∀ i, i < m →
        vget (Impl.mappedData m
            (WTildeMapped.mappedDataDict (Impl.convolveNoBlurring cv) objs ss.flatten)) i
          = (List.zipWith (fun B sk => vget (matVec B sk) i) Bs ss).sum
        ∧ vget (Impl.mappedData m
            (WTildeMapped.mappedDataDict (Impl.convolveNoBlurring cv) objs ss.flatten)) i
          = vget (matVec (Impl.hstack m Bs) ss.flatten) i :=
  WTildeMapped.e_w_tilde_mapped_data_sum cv m hm objs Bs ss hB hsh

theorem e_w_tilde_mapper_route [DecidableEq α] (cv : Impl.Convolver α) (n P : ℕ)
    (d2p : List (List Int)) (dw : List (List α)) (len : List ℕ) (M : List (List α))
    (hU : WTildeMapped.Encodes d2p dw len n P M) (s : List α) (hs : s.length = P) :
    Impl.convolveNoBlurring cv (WTildeMapped.mappedViaUnique d2p dw len s)
      = matVec (Impl.convolveMatrix cv n P M) s :=
  WTildeMapped.mapper_route_eq cv n P d2p dw len M hU s hs

end e_wtilde

/-! ### the Cholesky bookkeeping of `fnnls_cholesky` (util/cholesky_funcs.py), with only `sqrt` assumed -/

section chol
variable {α : Type} [Field α] [LinearOrder α] [IsStrictOrderedRing α]

/-- the contract assumed of the libm square root is met by the real square root -/
theorem chol_sqrt_contract_real : Spec.SqrtContract Real.sqrt :=
  fun x hx => ⟨Real.sqrt_nonneg x, Real.mul_self_sqrt hx⟩

/-- (chol-a) `_cholupdate(U, x)` is the rank-one update of the factor: for an upper-triangular n×n `U` with
    non-zero diagonal and `x` of length `n`, the result `U'` is upper triangular with POSITIVE diagonal and
    `U'ᵀU' = UᵀU + x xᵀ`.  All sizes. -/
theorem chol_update_rank_one (sqrt : α → α) (hs : Spec.SqrtContract sqrt) (n : ℕ) (U : List (List α))
    (x : List α) (hU : Spec.IsUpper n U) (hd : ∀ i, i < n → mget U i i ≠ 0) (hx : x.length = n) :
    Spec.IsUpper n (Impl.cholupdate sqrt U x) ∧ Spec.PosDiag n (Impl.cholupdate sqrt U x)
      ∧ ∀ i j, i < n → j < n →
          Spec.gram (Impl.cholupdate sqrt U x) i j = Spec.gram U i j + vget x i * vget x j :=
  cholupdate_spec sqrt hs n U x hU hd hx

/-- (chol-b, on arrays) `cholinsertlast(U, x)`: `U` the exact factor of the n×n `M`; `M'` an (n+1)×(n+1) array
    with leading block `M` whose last row and last column are `x`; Schur complement `x[n] − ‖S12‖² > 0`
    (`S12` = the forward substitution `solve_triangular(U, x[:n], trans=1)`): the call returns the exact factor
    of `M'` — upper triangular, positive diagonal, `SᵀS = M'`. -/
theorem chol_insertlast_exact (sqrt : α → α) (hs : Spec.SqrtContract sqrt) (n : ℕ) (U M M' : List (List α))
    (x : List α) (hf : Spec.IsCholFactor n U M) (hx : x.length = n + 1)
    (hlead : ∀ a b, a < n → b < n → mget M' a b = mget M a b)
    (hrow : ∀ j, j ≤ n → mget M' n j = vget x j) (hcol : ∀ j, j ≤ n → mget M' j n = vget x j)
    (hschur : 0 < vget x n - dot (Impl.solveUT U (x.take n)) (Impl.solveUT U (x.take n))) :
    ∃ S, Impl.cholinsertlast sqrt U x = some S ∧ Spec.IsCholFactor (n + 1) S M' :=
  cholinsertlast_spec sqrt hs n U M M' x hf hx hlead hrow hcol hschur

/-- (chol-b, as `fnnls_cholesky` calls it) `U` the exact factor of `ZTZ[P][:, P]` for the ordered passive list
    `P`, `i` the entering index, `ZTZ` symmetric: if the Schur complement is positive,
    `cholinsertlast(U, ZTZ[i][P ++ [i]])` is the exact factor of `ZTZ[P ++ [i]][:, P ++ [i]]` — in the order of
    `P_inorder ++ [i]`. -/
theorem chol_insertlast_passive_list (sqrt : α → α) (hs : Spec.SqrtContract sqrt) (n : ℕ)
    (A : List (List α)) (hsym : Spec.IsSymm n A) (P : List ℕ) (i : ℕ) (U : List (List α))
    (hf : Spec.IsCholFactor P.length U (subMat A P))
    (hschur : 0 < vget (gather (A.getD i []) (P ++ [i])) P.length
      - dot (Impl.solveUT U ((gather (A.getD i []) (P ++ [i])).take P.length))
            (Impl.solveUT U ((gather (A.getD i []) (P ++ [i])).take P.length))) :
    ∃ S, Impl.cholinsertlast sqrt U (gather (A.getD i []) (P ++ [i])) = some S
      ∧ Spec.IsCholFactor (P ++ [i]).length S (subMat A (P ++ [i])) :=
  cholinsertlast_subMat sqrt hs n A hsym P i U hf hschur

/-- (chol-c) `choldeleteindexes(U, indexes)`: `U` the exact factor of `A[P][:, P]`; `indexes` a duplicate-free
    list of POSITIONS of `P` in any order (the code sorts them descending): the result is the exact factor of
    the principal submatrix for the remaining ordered list `np.delete(P, indexes)`.  Covers deleting the last
    position (no `_cholupdate`), several at once, unsorted lists. -/
theorem chol_deleteindexes_exact (sqrt : α → α) (hs : Spec.SqrtContract sqrt) (A : List (List α))
    (P : List ℕ) (U : List (List α)) (hf : Spec.IsCholFactor P.length U (subMat A P))
    (dels : List ℕ) (hnd : dels.Nodup) (hr : ∀ d, d ∈ dels → d < P.length) :
    Spec.IsCholFactor (Impl.npDelete P dels).length (Impl.choldeleteindexes sqrt U dels)
      (subMat A (Impl.npDelete P dels)) :=
  choldeleteindexes_spec sqrt hs A P U hf dels hnd hr

/-- (chol-c') one pass of its loop: deleting position `d` from the exact factor of the (n+1)×(n+1) `M` gives
    the exact factor of `M` without row and column `d`. -/
theorem chol_delete_one_exact (sqrt : α → α) (hs : Spec.SqrtContract sqrt) (n : ℕ) (U M M' : List (List α))
    (d : ℕ) (hf : Spec.IsCholFactor (n + 1) U M) (hd : d ≤ n)
    (hM' : ∀ i j, i < n → j < n → mget M' i j = mget M (skip d i) (skip d j)) :
    Spec.IsCholFactor n (Impl.cholDelete1 sqrt U d) M' :=
  cholDelete1_spec sqrt hs n U M M' d hf hd hM'

/-- (chol-c'') the list the code keeps next to the factor: `np.delete(P_inorder, np.where(d[P_inorder] <=
    tolerance)[0])` is the passive list `fcPin` of the active-set model (Model/NNLS.lean). -/
theorem chol_passive_list_delete (tol : α) (d : List α) (Pin : List ℕ) :
    Impl.npDelete Pin (Impl.fcIdDelete tol Pin d) = Impl.fcPin tol Pin d :=
  npDelete_fcIdDelete tol d Pin

/-- (chol-d) `cho_solve((U, False), b)` (forward then back substitution) returns `x` with `UᵀU x = b` for an
    upper-triangular `U` with non-zero diagonal. -/
theorem chol_cho_solve_solves (n : ℕ) (U : List (List α)) (b : List α) (hU : Spec.IsUpper n U)
    (hb : b.length = n) (hd : ∀ i, i < n → mget U i i ≠ 0) :
    (Impl.choSolve U b).length = n ∧ ∀ i, i < n →
      ∑ j ∈ Finset.range n, Spec.gram U i j * vget (Impl.choSolve U b) j = vget b i :=
  choSolve_gram n U b hU hb hd

/-- (chol-d') hence through an exact factor of `M` it returns the solution of `M x = b`. -/
theorem chol_cho_solve_factor (n : ℕ) (U M : List (List α)) (b : List α) (hf : Spec.IsCholFactor n U M)
    (hM : Spec.IsSquare n M) (hb : b.length = n) :
    (Impl.choSolve U b).length = n ∧ matVec M (Impl.choSolve U b) = b :=
  choSolve_spec n U M b hf hM hb

/-- (chol-e, solver completeness of one insertion) on a symmetric positive-definite `ZTZ` every Schur
    complement met by `cholinsertlast` is positive: for a duplicate-free in-range `P ++ [i]` and the exact
    factor `U` of `ZTZ[P][:, P]` the call succeeds and returns the exact factor of
    `ZTZ[P ++ [i]][:, P ++ [i]]`.  The factorisation never fails in exact arithmetic. -/
theorem chol_insertlast_never_fails_pd (sqrt : α → α) (hs : Spec.SqrtContract sqrt) (n : ℕ)
    (A : List (List α)) (hsym : Spec.IsSymm n A) (hpd : Spec.IsPD n A) (P : List ℕ) (i : ℕ)
    (hnd : (P ++ [i]).Nodup) (hr : ∀ j, j ∈ P ++ [i] → j < n) (U : List (List α))
    (hf : Spec.IsCholFactor P.length U (subMat A P)) :
    0 < vget (gather (A.getD i []) (P ++ [i])) P.length
        - dot (Impl.solveUT U ((gather (A.getD i []) (P ++ [i])).take P.length))
              (Impl.solveUT U ((gather (A.getD i []) (P ++ [i])).take P.length))
    ∧ ∃ S, Impl.cholinsertlast sqrt U (gather (A.getD i []) (P ++ [i])) = some S
        ∧ Spec.IsCholFactor (P ++ [i]).length S (subMat A (P ++ [i])) :=
  ⟨schur_pos_of_pd n A hsym hpd P i hnd hr U hf, cholinsertlast_pd sqrt hs n A hsym hpd P i hnd hr U hf⟩

/-- (chol-e') the whole passive-set solve (`Impl.cholSolve`: the factor built by successive insertions +
    `cho_solve`) never fails on a principal subsystem of a symmetric positive-definite matrix. -/
theorem chol_solver_complete_pd (sqrt : α → α) (hs : Spec.SqrtContract sqrt) (n : ℕ) (A : List (List α))
    (hsym : Spec.IsSymm n A) (hpd : Spec.IsPD n A) (P : List ℕ) (hnd : P.Nodup) (hr : ∀ i, i ∈ P → i < n)
    (r : List α) : ∃ x, Impl.cholSolve sqrt (subMat A P) r = some x :=
  cholSolve_pd sqrt hs n A hsym hpd P hnd hr r

/-- (chol-f, the contract on symmetric systems) whenever the Cholesky path returns, it returns the solution:
    for symmetric n×n `M`, `Impl.cholSolve sqrt M r = some x` ⇒ `M x = r`. -/
theorem chol_solve_sound (sqrt : α → α) (hs : Spec.SqrtContract sqrt) (n : ℕ) (M : List (List α))
    (hsym : Spec.IsSymm n M) (r : List α) (hr : r.length = n) (x : List α)
    (h : Impl.cholSolve sqrt M r = some x) : x.length = n ∧ matVec M x = r :=
  cholSolve_sound sqrt hs n M hsym r hr x h

/-- (chol-f, the instance) the contract `Spec.SolveContract` assumed by clauses (b)–(d) — cf.
    `solve_instance_contract` for the driver's Gauss–Jordan instance — is met by the Cholesky path itself
    (behind the guard "the system is symmetric", which `fnnls` never trips on a symmetric input:
    `chol_fnnls_guard_invisible`), with nothing assumed but `sqrt`. -/
theorem chol_solve_instance_contract (sqrt : α → α) (hs : Spec.SqrtContract sqrt) :
    Spec.SolveContract (cholSolveG sqrt) :=
  cholSolveG_contract sqrt hs

theorem chol_fnnls_guard_invisible (sqrt : α → α) (n : ℕ) (A : List (List α)) (hsym : Spec.IsSymm n A)
    (b : List α) (tol : α) (maxIter : ℕ) (pInit : Option (List ℕ)) :
    Impl.fnnls (cholSolveG sqrt) A b tol maxIter pInit = Impl.fnnls (Impl.cholSolve sqrt) A b tol maxIter pInit :=
  fnnls_cholSolveG_eq sqrt n A hsym b tol maxIter pInit

/-- (chol-f ∘ b) clause (b) for the Cholesky path: `fnnls_cholesky` with its OWN passive-set solves (carried
    factor + `cho_solve`, `Impl.cholSolve sqrt`), symmetric `ZTZ`, cold or any duplicate-free in-range warm
    start: a vector returned through the main exit has length `n` and satisfies the KKT conditions with slack
    `tol`, and for PSD `ZTZ` is optimal among all `x ≥ 0` up to `tol·Σx`.  Only `sqrt` is assumed. -/
theorem chol_fnnls_main_exit_kkt (sqrt : α → α) (hs : Spec.SqrtContract sqrt) (n : ℕ) (A : List (List α))
    (b : List α) (hsym : Spec.IsSymm n A) (hb : b.length = n) (tol : α) (htol : 0 ≤ tol) (maxIter : ℕ)
    (pInit : Option (List ℕ)) (hp : ∀ idx, pInit = some idx → idx.Nodup ∧ ∀ i, i ∈ idx → i < n)
    (d : List α) (lc lc2 : ℕ)
    (h : Impl.fnnls (Impl.cholSolve sqrt) A b tol maxIter pInit = .ok d .main lc lc2) :
    d.length = n ∧ Spec.IsKKT A b d tol
      ∧ (Spec.IsPSD n A → ∀ x : List α, x.length = n → Spec.Nonneg x →
          Spec.qform A b d ≤ Spec.qform A b x + tol * ∑ i ∈ Finset.range n, vget x i) := by
  rw [← chol_fnnls_guard_invisible sqrt n A hsym b tol maxIter pInit] at h
  have hc := chol_solve_instance_contract sqrt hs
  obtain ⟨hd, hk⟩ := b_fnnls_main_exit_kkt (cholSolveG sqrt) hc n A b hsym.1 hsym.2.1 hb tol htol maxIter
    pInit hp d lc lc2 h
  exact ⟨hd, hk, fun hpsd x hx hxn => a_kkt_tol_near_optimal n A b d x tol htol hsym hpsd hb hd hx hk hxn⟩

/-- (chol-f ∘ b, total correctness in exact arithmetic — solver completeness closed) symmetric
    positive-definite `ZTZ`, tolerance 0, `2^n + n ≤ maxIter`, cold or any valid warm start: `fnnls_cholesky`
    with its own passive-set solves returns through the MAIN exit the exact KKT point, the global minimiser of
    `½ xᵀAx − bᵀx` over `x ≥ 0`.  Unlike `b_terminates_exact` there is no "or a linear solve failed"
    alternative: by (chol-e) the Cholesky path never fails on the passive lists the solver visits. -/
theorem chol_terminates_exact (sqrt : α → α) (hs : Spec.SqrtContract sqrt) (n : ℕ) (A : List (List α))
    (b : List α) (hsym : Spec.IsSymm n A) (hpd : Spec.IsPD n A) (hb : b.length = n)
    (maxIter : ℕ) (hmax : 2 ^ n + n ≤ maxIter) (pInit : Option (List ℕ))
    (hp : ∀ idx, pInit = some idx → idx.Nodup ∧ ∀ i, i ∈ idx → i < n) :
    ∃ d lc lc2, Impl.fnnls (Impl.cholSolve sqrt) A b 0 maxIter pInit = .ok d .main lc lc2
      ∧ d.length = n ∧ Spec.IsKKT A b d 0
      ∧ ∀ x : List α, x.length = n → Spec.Nonneg x → Spec.qform A b d ≤ Spec.qform A b x := by
  obtain ⟨d, lc, lc2, h⟩ := fnnls_cholesky_exact n A b hsym hpd hb sqrt hs maxIter hmax pInit hp
  obtain ⟨hd, hk, _⟩ := chol_fnnls_main_exit_kkt sqrt hs n A b hsym hb 0 le_rfl maxIter pInit hp d lc lc2 h
  exact ⟨d, lc, lc2, h, hd, hk, fun x hx hxn =>
    a_kkt_is_global_minimum n A b d x hsym (isPSD_of_isPD n A hsym.1 hpd) hb hd hx hk hxn⟩

/-- (chol-f, the carried factor) every factor `fnnls_cholesky` can be carrying — reached from the empty factor
    by `cholinsertlast(U, ZTZ[i][P_inorder])` calls (with a positive new pivot) and
    `choldeleteindexes(U, id_delete)` calls, `P_inorder` updated alongside (`CholReach`) — is the exact factor
    of `ZTZ[P_inorder][:, P_inorder]` (symmetric `ZTZ`), so `cho_solve` through it meets the contract of the
    passive-set solve: `ZTZ[P][:, P] x = ZTx[P]`. -/
theorem chol_carried_factor_exact (sqrt : α → α) (hs : Spec.SqrtContract sqrt) (n : ℕ) (A : List (List α))
    (hsym : Spec.IsSymm n A) (b : List α) (P : List ℕ) (U : List (List α)) (h : CholReach sqrt A P U) :
    Spec.IsCholFactor P.length U (subMat A P)
      ∧ (Impl.choSolve U (gather b P)).length = P.length
      ∧ matVec (subMat A P) (Impl.choSolve U (gather b P)) = gather b P := by
  have hf := CholReach.factor sqrt hs n A hsym P U h
  have := choSolve_spec P.length U (subMat A P) (gather b P) hf
    ⟨subMat_length A P, subMat_row_length A P⟩ (gather_length b P)
  exact ⟨hf, this.1, this.2⟩

/-- (chol-f, carried = rebuilt) on a symmetric positive-definite `ZTZ`, for a duplicate-free in-range passive
    list the solve through ANY carried factor is the very value `Impl.fnnls (Impl.cholSolve sqrt)` computes at
    that point (`solveOn`), although the model rebuilds the factor by successive insertions. -/
theorem chol_carried_factor_solve (sqrt : α → α) (hs : Spec.SqrtContract sqrt) (n : ℕ) (A : List (List α))
    (hsym : Spec.IsSymm n A) (hpd : Spec.IsPD n A) (b : List α) (P : List ℕ) (U : List (List α))
    (hnd : P.Nodup) (hr : ∀ i, i ∈ P → i < n) (h : CholReach sqrt A P U) :
    Impl.solveOn (Impl.cholSolve sqrt) A b P = some (Impl.choSolve U (gather b P)) :=
  CholReach.solve_eq sqrt hs n A hsym hpd b P U hnd hr h

end chol

/-! ### the defect D4, formally: the warm-start prologue as it was before the repair -/

/-- the witness system of harness/corpus/C05/d4_warm_start.json -/
def A3 : List (List ℚ) := [[4, 0, -2], [0, 3, 1], [-2, 1, 3]]
def b3 : List ℚ := [-1, -3, 1]

/-- D4: with the warm start of the production path (`P_initial` = sign pattern `[T, F, T]` of the
    unconstrained solution `(1/5, −13/10, 9/10)`) the prologue as written before fixes/D4 makes the
    solver return `[0, 0, 1/4]` through its `no_update` break, which is not a KKT point (the optimum is
    `[0, 0, 1/3]`). Replayed on the real code by the corpus witness. -/
theorem d4_legacy_warm_start_not_optimal :
    (match Impl.fnnlsLegacy checkedSolve A3 b3 (1 / 1000000000000000) 10000 [0, 2] with
      | .ok d _ _ _ => d == [0, 0, 1 / 4] && !(Spec.isKKTb A3 b3 d (1 / 1000000000000000))
      | .err _ => false) = true := by decide +kernel

/-! ### non-vacuity: the hypotheses are met by a concrete non-trivial instance -/

/-- the repaired solver, same warm start, same system: main exit with the optimum, exactly -/
example : (match Impl.fnnls checkedSolve A3 b3 (1 / 1000000000000000) 10000 (some [0, 2]) with
    | .ok d .main _ _ => d == [0, 0, 1 / 3] && Spec.isKKTb A3 b3 d 0
    | _ => false) = true := by decide +kernel

/-- cold start -/
example : (match Impl.fnnls checkedSolve A3 b3 (1 / 1000000000000000) 10000 none with
    | .ok d .main _ _ => d == [0, 0, 1 / 3]
    | _ => false) = true := by decide +kernel

/-- exact arithmetic (`tol = 0`, the setting of `b_outer_step_decreases_objective` /
    `b_outer_loop_objective_decreases`): the prologue's state has an active index with `w > 0`, the run
    returns the optimum through the main exit, and its objective `−1/6` is below the start's `0` -/
example : (match Impl.initState checkedSolve A3 b3 0 none with
    | some st0 => Impl.anyActiveAbove st0.w st0.P 0 && decide (Spec.qform A3 b3 st0.d = 0)
    | none => false) = true := by decide +kernel

example : (match Impl.fnnls checkedSolve A3 b3 0 10000 none with
    | .ok d .main _ _ => d == [0, 0, 1 / 3] && decide (Spec.qform A3 b3 d = -1 / 6)
    | _ => false) = true := by decide +kernel

/-- `b_terminates_exact` on the witness system: `2^3 + 3 ≤ 10000`, the solver never fails, main exit -/
example : 2 ^ 3 + 3 ≤ 10000 ∧ (match Impl.fnnls checkedSolve A3 b3 0 10000 (some [0, 2]) with
    | .ok d .main lc _ => d == [0, 0, 1 / 3] && decide (lc ≤ 2 ^ 3)
    | _ => false) = true := ⟨by norm_num, by decide +kernel⟩

/-- a state on which the inner-loop guard holds, and the inner loop run with fuel `|P| + 1 = 3` -/
example : (let st : Impl.St ℚ := { P := [true, false, true], Pin := [0, 2], s := [1 / 5, 0, -1], d := [1, 0, 1],
                                   w := [0, 0, 0], noUpdate := 0, loopCount := 0, loopCount2 := 0 }
    Impl.anyPassiveBelow st.s st.P 0 &&
    (match Impl.innerLoop checkedSolve A3 b3 0 10000 3 st with
      | .ok st' => decide (st'.P.count true < 2) | .error _ => false)) = true := by decide +kernel

/-- a warm start that is accepted (passive-set solution strictly positive) and continued -/
example : (match Impl.fnnls checkedSolve A3 [2, 3, 1] (1 / 1000000000000000) 10000 (some [1]) with
    | .ok d .main _ _ => Spec.isKKTb A3 [2, 3, 1] d 0 && d.all (fun v => decide (0 < v))
    | _ => false) = true := by decide +kernel

/-- forced zeros through `Impl.reconstruction` (parameter 1 forced to zero) and the unconstrained path -/
example : (match Impl.reconstruction checkedSolve (1 / 1000000000000000) (1 / 100000000) (1 / 100000)
      10000 true true true false true [1] [] [] A3 [2, 3, 1] with
    | .ok s => s == [1, 0, 1] | .error _ => false) = true := by decide +kernel

example : (match Impl.reconstruction checkedSolve (1 / 1000000000000000) (1 / 100000000) (1 / 100000)
      10000 false true true false true [] [] [(0, 3)] A3 b3 with
    | .ok s => s == [1 / 5, -13 / 10, 9 / 10] | .error _ => false) = true := by decide +kernel

/-- mapped data of two objects (2 data points; 2 + 1 parameters) -/
example : ShapesOK (α := ℚ) 2 [[[1, 2], [3, 4]], [[1], [1]]] [[1, 1], [5]] := by
  refine List.Forall₂.cons ⟨rfl, ?_⟩ (List.Forall₂.cons ⟨rfl, ?_⟩ List.Forall₂.nil)
  · intro r hr; simp at hr; rcases hr with rfl | rfl <;> rfl
  · intro r hr; simp at hr; rcases hr with rfl; rfl

example : Impl.mappedData 2 (Impl.mappedDataDict [[[1, 2], [3, 4]], [[1], [1]]] ([1, 1, 5] : List ℚ))
    = [8, 12] := by decide +kernel

/-- `A3` is symmetric and positive definite, `[0, 0, 1/3]` carries the exact KKT certificate: the
    hypotheses of clause (a) hold together -/
example : Spec.IsSymm 3 A3 := by
  refine ⟨rfl, ?_, ?_⟩
  · intro r hr; simp [A3] at hr; rcases hr with rfl | rfl | rfl <;> rfl
  · intro i j hi hj
    interval_cases i <;> interval_cases j <;> rfl

example : Spec.IsPD 3 A3 := by
  intro v hv hne
  match v, hv with
  | [x, y, z], _ =>
    have hne' : x ≠ 0 ∨ y ≠ 0 ∨ z ≠ 0 := by
      obtain ⟨i, hi⟩ := hne
      match i with
      | 0 => left; simpa [vget] using hi
      | 1 => right; left; simpa [vget] using hi
      | 2 => right; right; simpa [vget] using hi
      | (k+3) => simp [vget] at hi
    simp only [A3, matVec, dot, List.map]
    have key : 4 * x * x + 3 * y * y + 3 * z * z - 4 * x * z + 2 * y * z
        = (2 * x - z) ^ 2 + 2 * (z + y / 2) ^ 2 + (5 / 2) * y ^ 2 := by ring
    have : 0 < (2 * x - z) ^ 2 + 2 * (z + y / 2) ^ 2 + (5 / 2) * y ^ 2 := by
      rcases hne' with h | h | h
      · by_contra hle
        have h1 := sq_nonneg (2 * x - z); have h2 := sq_nonneg (z + y / 2); have h3 := sq_nonneg y
        have e1 : (2 * x - z) ^ 2 = 0 := by nlinarith
        have e2 : (z + y / 2) ^ 2 = 0 := by nlinarith
        have e3 : y ^ 2 = 0 := by nlinarith
        have y0 : y = 0 := by simpa using e3
        have z0 : z = 0 := by
          have := pow_eq_zero_iff (n := 2) (by norm_num) |>.mp e2; rw [y0] at this; linarith
        have x0 : x = 0 := by
          have := pow_eq_zero_iff (n := 2) (by norm_num) |>.mp e1; rw [z0] at this; linarith
        exact h x0
      · have : 0 < y ^ 2 := by positivity
        nlinarith [sq_nonneg (2 * x - z), sq_nonneg (z + y / 2)]
      · by_contra hle
        have h1 := sq_nonneg (2 * x - z); have h2 := sq_nonneg (z + y / 2); have h3 := sq_nonneg y
        have e2 : (z + y / 2) ^ 2 = 0 := by nlinarith
        have e3 : y ^ 2 = 0 := by nlinarith
        have y0 : y = 0 := by simpa using e3
        have z0 : z = 0 := by
          have := pow_eq_zero_iff (n := 2) (by norm_num) |>.mp e2; rw [y0] at this; linarith
        exact h z0
    nlinarith [this, key]

example : Spec.IsKKT A3 b3 [0, 0, 1 / 3] 0 := by
  intro i hi
  have hi' : i < 3 := hi
  interval_cases i <;> simp [vget, A3, b3, matVec, dot] <;> norm_num

/-! ### non-vacuity of the Cholesky section -/

/-- an exact square root on the rationals that are squares (0 elsewhere) — for evaluating the model on
    systems built as `RᵀR` from a rational `R`, as the correspondence run does -/
def qsqrt (x : ℚ) : ℚ :=
  let r (n : ℕ) : ℕ := ((List.range (n + 1)).find? fun k => k * k == n).getD 0
  mkRat (r x.num.toNat) (r x.den)

/-- `R4ᵀ R4` for the rational upper-triangular `R4` -/
def R4 : List (List ℚ) := [[2, 1, 3, 1], [0, 1, 2, 5], [0, 0, 3, 1], [0, 0, 0, 2]]
def A4 : List (List ℚ) := [[4, 2, 6, 2], [2, 2, 5, 6], [6, 5, 22, 16], [2, 6, 16, 31]]

/-- successive `cholinsertlast` calls rebuild `R4` from `A4 = R4ᵀR4`; `cho_solve` through it solves `A4 x = b` -/
example : Impl.cholFactor qsqrt A4 = some R4 := by decide +kernel

example : (Impl.cholSolve qsqrt A4 [1, 2, 3, 4]).map (matVec A4) = some [1, 2, 3, 4] := by decide +kernel

/-- `choldeleteindexes` on the factor `[[1,4,0],[0,3,0],[0,0,2]]` of `[[1,4,0],[4,25,0],[0,0,4]]`: deleting
    position 0 (one `_cholupdate` with `sqrt(9 + 16)`), the last position (no update), both (unsorted) -/
example : Impl.choldeleteindexes qsqrt [[1, 4, 0], [0, 3, 0], [0, 0, 2]] [0] = [[5, 0], [0, 2]] := by
  decide +kernel

example : Impl.choldeleteindexes qsqrt [[1, 4, 0], [0, 3, 0], [0, 0, 2]] [2] = [[1, 4], [0, 3]] := by
  decide +kernel

example : Impl.choldeleteindexes qsqrt [[1, 4, 0], [0, 3, 0], [0, 0, 2]] [0, 2] = [[5]] := by decide +kernel

example : Impl.npDelete [7, 8, 9] [0, 2] = [8] ∧ Impl.fcIdDelete (0 : ℚ) [2, 0, 1] [1, -1, 0] = [0, 2] := by
  decide +kernel

/-- the hypotheses of (chol-a)…(chol-d) are met: `[[1,4],[0,3]]` is the exact factor of `[[1,4],[4,25]]` -/
example : Spec.IsCholFactor 2 [[1, 4], [0, 3]] ([[1, 4], [4, 25]] : List (List ℚ)) := by
  refine ⟨⟨⟨rfl, ?_⟩, ?_⟩, ?_, ?_⟩
  · intro r hr; simp at hr; rcases hr with rfl | rfl <;> rfl
  · intro i j hji hi; interval_cases i <;> interval_cases j <;> first | omega | simp [mget]
  · intro i hi; interval_cases i <;> simp [mget]
  · intro i j hi hj
    interval_cases i <;> interval_cases j <;> simp [Spec.gram, Spec.col, dot, vget, mget] <;> norm_num

/-- an fnnls run through the Cholesky path (`A = RᵀR`, `R = [[2,1],[0,1]]`, `b = A·(1,1)`: index 0 enters
    first, then index 1, so every square root met is rational): main exit at the exact optimum `(1, 1)` -/
example : (match Impl.fnnls (Impl.cholSolve qsqrt) [[4, 2], [2, 2]] [6, 4] 0 10000 none with
    | .ok d .main _ _ => d == [1, 1] && Spec.isKKTb [[4, 2], [2, 2]] [6, 4] d 0
    | _ => false) = true := by decide +kernel

end C05
