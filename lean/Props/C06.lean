/-
Props/C06.lean — property C06: mapping matrices conserve flux and encode the claimed interpolation.

All theorems are about the `Impl` layer of Model/Mapper.lean (the loop transliterations executed by the
driver against the Python) and quantify over every table / mask / sub-size map / coordinate set /
mesh shape, over any ordered field `α` (instantiated at `ℚ`, which contains every double, in the
non-vacuity examples).  Helper lemmas live in Proofs/Mapper*.lean.

Clauses (DESIGN.md §5 C06):
  a  entry formula of `mapping_matrix_from`
  b  rows ≥ 0 and sum to one
  c  Delaunay: area-ratio weights = barycentric coordinates in vertex order; outside the hull the
     first nearest vertex with weight 1
  d  rectangular: the index is the cell containing the point; `overlay_grid` strictly contains the grid
  e  the unique (sparse) tables encode the same matrix; keys distinct; `pix_lengths` = their number
  f  neighbour tables: rectangular = 4-connectivity (symmetric); Delaunay = share-a-simplex (symmetric)
Not proved (inputs with a contract, checked by the harness on every case): Qhull's `simplices`,
`find_simplex`, `vertex_neighbor_vertices`.
-/
import Model.Mapper
import Proofs.Mapper
import Proofs.MapperUnique
import Proofs.MapperDelaunay
import Proofs.MapperRect
import Proofs.MapperRectNeighbors
import Proofs.MapperEndToEnd

open Model

namespace C06

variable {α : Type} [Field α]

/-! ## (a) dense accumulation -/

/-- (a0) `mapping_matrix_from` returns `total_mask_pixels` rows of `pixels` columns. -/
theorem mappingMatrix_shape (idx : List (List Int)) (sizes : List Nat) (wts : List (List α))
    (pixels total : Nat) (slimFor : List Nat) (frac : List α) :
    (Impl.mappingMatrix idx sizes wts pixels total slimFor frac).length = total ∧
    ∀ r ∈ Impl.mappingMatrix idx sizes wts pixels total slimFor frac, r.length = pixels :=
  mappingMatrix_isMat idx sizes wts pixels total slimFor frac

/-- (a) entry (i,p) is the sum, over the sub-pixels whose image pixel is `i`, of `sub_fraction[i]`
    times the sum of the interpolation weights of that sub-pixel's mappings to source pixel `p`.
    Hypotheses = the index ranges numpy would otherwise wrap or reject. -/
theorem mappingMatrix_entry (idx : List (List Int)) (sizes : List Nat) (wts : List (List α))
    (pixels total : Nat) (slimFor : List Nat) (frac : List α)
    (hslim : ∀ s ∈ slimFor, s < total)
    (hidx : ∀ sub < slimFor.length, ∀ c < sizes.getD sub 0,
      ((idx.getD sub []).getD c 0).toNat < pixels) (i p : Nat) :
    ((Impl.mappingMatrix idx sizes wts pixels total slimFor frac).getD i []).getD p 0
      = (((List.range slimFor.length).filter fun sub => slimFor.getD sub 0 == i).map fun sub =>
          frac.getD i 0 *
            (((List.range (sizes.getD sub 0)).filter fun c =>
                ((idx.getD sub []).getD c 0).toNat == p).map fun c => (wts.getD sub []).getD c 0).sum).sum :=
  Model.mappingMatrix_entry idx sizes wts pixels total slimFor frac hslim hidx i p

/-- (a') the slim index of every sub-pixel produced by the over-sampler's double loop over the mask is
    "pixel i repeated sub_size_i² times", whatever the mask. -/
theorem slimForSubSlim_blocks (m : Mask) (sub : List Nat) (h : sub.length = Impl.totalPixels m) :
    Impl.slimForSubSlim m sub
      = (List.range sub.length).flatMap fun i => List.replicate (sub.getD i 0 * sub.getD i 0) i :=
  slimForSubSlim_eq m sub h

/-! ## (b) rows are non-negative and sum to one -/

section ordered
variable [LinearOrder α] [IsStrictOrderedRing α]

/-- (b) if every sub-pixel's used weights are ≥ 0 and sum to 1 (true of both mesh types, clauses c/d)
    and pixel i owns `sub_size_i²` sub-pixels weighted `1/sub_size_i²`, every row of the mapping
    matrix is entrywise ≥ 0 and sums to exactly 1 — for every per-pixel sub-size map. -/
theorem mappingMatrix_rows_sum_one (subs : List Nat) (hpos : ∀ s ∈ subs, 1 ≤ s)
    (idx : List (List Int)) (sizes : List Nat) (wts : List (List α)) (pixels : Nat)
    (hidx : ∀ sub < (Spec.slimForSubSlim subs).length, ∀ c < sizes.getD sub 0,
      ((idx.getD sub []).getD c 0).toNat < pixels)
    (hw0 : ∀ sub < (Spec.slimForSubSlim subs).length, ∀ c < sizes.getD sub 0,
      0 ≤ (wts.getD sub []).getD c 0)
    (hw1 : ∀ sub < (Spec.slimForSubSlim subs).length,
      ((List.range (sizes.getD sub 0)).map fun c => (wts.getD sub []).getD c 0).sum = 1) :
    let M := Impl.mappingMatrix idx sizes wts pixels subs.length (Spec.slimForSubSlim subs)
      (subs.map Impl.subFraction)
    (∀ r ∈ M, ∀ x ∈ r, 0 ≤ x) ∧ (∀ i < subs.length, (M.getD i []).sum = 1) :=
  rows_of_tables subs hpos idx sizes wts pixels hidx hw0 hw1

/-! ## (c) Delaunay interpolation -/

/-- (c1) for a non-degenerate triangle `v0 v1 v2` and a point of the closed triangle — a convex
    combination `l0·v0 + l1·v1 + l2·v2` — the absolute-area-ratio weights of
    `pixel_weights_delaunay_from` are exactly `[l0, l1, l2]`: the barycentric coordinates, weight k
    attached to vertex k (no permutation).  Hence they are ≥ 0, sum to 1 and reproduce the point. -/
theorem barycentric_weights (v0 v1 v2 : α × α) (l0 l1 l2 : α)
    (h0 : 0 ≤ l0) (h1 : 0 ≤ l1) (h2 : 0 ≤ l2) (hs : l0 + l1 + l2 = 1)
    (hD : v0.1 * v1.2 + v1.1 * v2.2 + v2.1 * v0.2 - v1.1 * v0.2 - v2.1 * v1.2 - v0.1 * v2.2 ≠ 0) :
    Impl.baryWeights v0 v1 v2
        (l0 * v0.1 + l1 * v1.1 + l2 * v2.1, l0 * v0.2 + l1 * v1.2 + l2 * v2.2)
      = [l0, l1, l2] :=
  baryWeights_combo v0 v1 v2 l0 l1 l2 h0 h1 h2 hs hD

/-- (c2) every point is the affine combination of a non-degenerate triangle's vertices whose
    coefficients are the signed-area ratios (they sum to 1); so "in the closed triangle" is exactly
    "all three ratios ≥ 0", the hypothesis of (c1). -/
theorem barycentric_coordinates_exist (v0 v1 v2 p : α × α) (hD : det3 v0 v1 v2 ≠ 0) :
    p = combo v0 v1 v2 (det3 v1 v2 p / det3 v0 v1 v2) (-(det3 v0 v2 p) / det3 v0 v1 v2)
          (det3 v0 v1 p / det3 v0 v1 v2)
    ∧ det3 v1 v2 p / det3 v0 v1 v2 + -(det3 v0 v2 p) / det3 v0 v1 v2
        + det3 v0 v1 p / det3 v0 v1 v2 = 1 :=
  combo_signed_ratios v0 v1 v2 p hD

/-- (c3) `np.argmin`, as used for points outside the hull, returns an index of the list whose value is
    ≤ every value and < every earlier value: the first nearest vertex. -/
theorem nearest_vertex_first_argmin (d : List α) (hd : d ≠ []) :
    Impl.argminFirst d < d.length ∧
    ∃ m, d[Impl.argminFirst d]? = some m ∧ (∀ (j : Nat) x, d[j]? = some x → m ≤ x) ∧
      (∀ (j : Nat) x, j < Impl.argminFirst d → d[j]? = some x → m < x) :=
  ⟨argminFirst_lt d hd, argminFirst_spec d hd⟩

/-- (c4) `MapperDelaunay.pix_sub_weights`, located sub-pixel: given that Qhull put sub-pixel `i` in
    simplex `s = [a,b,c]` and the point lies in that closed triangle, row `i` is the vertex triple,
    size 3, with the barycentric coordinates in the same order. -/
theorem delaunay_row_located (grid mesh : List (α × α)) (simplexFor : List Int)
    (simplices : List (List Int)) (i : Nat) (hi : i < grid.length)
    (s : Nat) (hs : simplexFor.getD i (-1) = (s : Int)) (a b c : Nat)
    (hrow : simplices.getD s [-1, -1, -1] = [(a : Int), (b : Int), (c : Int)])
    (l0 l1 l2 : α) (h0 : 0 ≤ l0) (h1 : 0 ≤ l1) (h2 : 0 ≤ l2) (hsum : l0 + l1 + l2 = 1)
    (hD : det3 (mesh.getD a (0, 0)) (mesh.getD b (0, 0)) (mesh.getD c (0, 0)) ≠ 0)
    (hp : grid.getD i (0, 0)
      = combo (mesh.getD a (0, 0)) (mesh.getD b (0, 0)) (mesh.getD c (0, 0)) l0 l1 l2) :
    (Impl.delaunayPixSubWeights grid mesh simplexFor simplices).mappings.getD i []
        = [(a : Int), (b : Int), (c : Int)] ∧
    (Impl.delaunayPixSubWeights grid mesh simplexFor simplices).sizes.getD i 0 = 3 ∧
    (Impl.delaunayPixSubWeights grid mesh simplexFor simplices).weights.getD i [] = [l0, l1, l2] :=
  delaunayPixSubWeights_located grid mesh simplexFor simplices i hi s hs a b c hrow l0 l1 l2 h0 h1 h2
    hsum hD hp

/-- (c5) unlocated sub-pixel (`find_simplex = -1`, outside the hull): one mapping, to the first
    nearest vertex, weight 1. -/
theorem delaunay_row_outside (grid mesh : List (α × α)) (simplexFor : List Int)
    (simplices : List (List Int)) (i : Nat) (hi : i < grid.length)
    (hs : simplexFor.getD i (-1) = -1) :
    (Impl.delaunayPixSubWeights grid mesh simplexFor simplices).mappings.getD i []
        = [Int.ofNat (Impl.argminFirst (mesh.map (Impl.sqDist (grid.getD i (0, 0))))), -1, -1] ∧
    (Impl.delaunayPixSubWeights grid mesh simplexFor simplices).sizes.getD i 0 = 1 ∧
    (Impl.delaunayPixSubWeights grid mesh simplexFor simplices).weights.getD i [] = [1, 0, 0] :=
  delaunayPixSubWeights_outside grid mesh simplexFor simplices i hi hs

/-! ## (d) rectangular cells -/

/-- (d1) `grid_pixel_indexes_2d_slim_from` on a mesh geometry: a point whose real-valued pixel
    coordinates lie in `[0,H)×[0,W)` gets the flattened index `yp·W + xp` of the half-open cell that
    contains it (rows counted downward from the top edge, columns rightward from the left edge).
    `trunc` is Python's `int()`; only its behaviour on non-negative reals (floor) is used. -/
theorem rect_cell_contains_point (trunc : α → Int) (ht : IsTrunc trunc) (g : Impl.RectGeom α)
    (p : α × α) (hh : 1 ≤ g.h) (hw : 1 ≤ g.w) (hsy : 0 < g.sy) (hsx : 0 < g.sx)
    (hy0 : 0 ≤ (Impl.pixelCoord g p).1) (hy1 : (Impl.pixelCoord g p).1 < (g.h : α))
    (hx0 : 0 ≤ (Impl.pixelCoord g p).2) (hx1 : (Impl.pixelCoord g p).2 < (g.w : α)) :
    ∃ yp xp : Nat, yp < g.h ∧ xp < g.w ∧
      Impl.gridPixelIndexes trunc g [p] = [((yp * g.w + xp : Nat) : Int)] ∧
      yTop g - ((yp : α) + 1) * g.sy < p.1 ∧ p.1 ≤ yTop g - (yp : α) * g.sy ∧
      xLeft g + (xp : α) * g.sx ≤ p.2 ∧ p.2 < xLeft g + ((xp : α) + 1) * g.sx :=
  rect_cell_contains trunc ht g p hh hw hsy hsx hy0 hy1 hx0 hx1

/-- (d2) the mesh `overlay_grid` lays over a grid with a positive buffer has positive pixel scales and
    strictly contains every grid point: all pixel coordinates are in `(0,H)×(0,W)` — the hypothesis of
    (d1), so no point of the grid can fall in a wrong or out-of-range cell, for any shape. -/
theorem overlay_grid_contains (h w : Nat) (hh : 1 ≤ h) (hw : 1 ≤ w) (grid : List (α × α)) (b : α)
    (hb : 0 < b) (p : α × α) (hp : p ∈ grid) :
    0 < (Impl.overlayGrid h w grid b).sy ∧ 0 < (Impl.overlayGrid h w grid b).sx ∧
    0 < (Impl.pixelCoord (Impl.overlayGrid h w grid b) p).1 ∧
    (Impl.pixelCoord (Impl.overlayGrid h w grid b) p).1 < (h : α) ∧
    0 < (Impl.pixelCoord (Impl.overlayGrid h w grid b) p).2 ∧
    (Impl.pixelCoord (Impl.overlayGrid h w grid b) p).2 < (w : α) :=
  overlay_contains h w hh hw grid b hb p hp

/-! ## (b)+(c)+(d) end to end: flux conservation of the two mappers -/

/-- (bd) rectangular mapper, end to end: for every mesh shape, every grid, every positive buffer and
    every per-pixel sub-size map (≥ 1), the mapping matrix built from
    `MapperRectangular.pix_sub_weights` on the mesh `overlay_grid` lays over that grid has all
    entries ≥ 0 and every row summing to one (and every index is a valid cell: no out-of-range). -/
theorem rect_mapper_rows_sum_one (trunc : α → Int) (ht : IsTrunc trunc) (h w : Nat) (hh : 1 ≤ h)
    (hw : 1 ≤ w) (grid : List (α × α)) (b : α) (hb : 0 < b) (subs : List Nat)
    (hpos : ∀ s ∈ subs, 1 ≤ s) (hlen : grid.length = (Spec.slimForSubSlim subs).length) :
    let psw := Impl.rectPixSubWeights trunc (Impl.overlayGrid h w grid b) grid
    let M := Impl.mappingMatrix psw.mappings psw.sizes psw.weights (h * w) subs.length
      (Spec.slimForSubSlim subs) (subs.map Impl.subFraction)
    (∀ r ∈ M, ∀ x ∈ r, 0 ≤ x) ∧ (∀ i < subs.length, (M.getD i []).sum = 1) :=
  rect_mapper_rows trunc ht h w hh hw grid b hb subs hpos hlen

/-- (bc) Delaunay mapper, end to end, under Qhull's contract `QhullLocates` (each sub-pixel is either
    unlocated, or located in a non-degenerate simplex of mesh vertices whose closed triangle contains
    it): all entries ≥ 0 and every row sums to one — points outside the hull included. -/
theorem delaunay_mapper_rows_sum_one (grid mesh : List (α × α)) (hmesh : mesh ≠ [])
    (simplexFor : List Int) (simplices : List (List Int)) (subs : List Nat)
    (hpos : ∀ s ∈ subs, 1 ≤ s) (hlen : grid.length = (Spec.slimForSubSlim subs).length)
    (hq : ∀ i < grid.length, QhullLocates grid mesh simplexFor simplices i) :
    let psw := Impl.delaunayPixSubWeights grid mesh simplexFor simplices
    let M := Impl.mappingMatrix psw.mappings psw.sizes psw.weights mesh.length subs.length
      (Spec.slimForSubSlim subs) (subs.map Impl.subFraction)
    (∀ r ∈ M, ∀ x ∈ r, 0 ≤ x) ∧ (∀ i < subs.length, (M.getD i []).sum = 1) :=
  delaunay_mapper_rows grid mesh hmesh simplexFor simplices subs hpos hlen hq

end ordered

/-- (d3) the `int()` the driver executes on exact rationals satisfies the contract used in (d1). -/
theorem trunc_contract_rat : IsTrunc (α := ℚ) Model.truncRat := isTrunc_truncRat

/-! ## (e) the sparse unique tables encode the same matrix -/

/-- (e1) reading row `ip` of (`data_to_pix_unique`, `data_weights`, `pix_lengths`) the way the w-tilde
    routines do — `for k < pix_lengths[ip]: out[data_to_pix_unique[ip,k]] += data_weights[ip,k]` —
    gives exactly entry (ip, p) of `mapping_matrix_from`, for every source pixel `p`. -/
theorem unique_encodes_mapping_matrix (subs : List Nat) (idx : List (List Int)) (sizes : List Nat)
    (wts : List (List α)) (P : Nat)
    (hidx : ∀ sub < (Spec.slimForSubSlim subs).length, ∀ c < sizes.getD sub 0,
      ((idx.getD sub []).getD c 0).toNat < P)
    (ip : Nat) (hip : ip < subs.length) (p : Nat) :
    Spec.denseRowOfUnique
        ((Impl.uniqueFrom subs.length idx sizes wts P subs).1.getD ip [])
        ((Impl.uniqueFrom subs.length idx sizes wts P subs).2.1.getD ip [])
        ((Impl.uniqueFrom subs.length idx sizes wts P subs).2.2.getD ip 0) p
      = ((Impl.mappingMatrix idx sizes wts P subs.length (Spec.slimForSubSlim subs)
          (subs.map Impl.subFraction)).getD ip []).getD p 0 :=
  unique_dense_eq subs idx sizes wts P hidx ip hip p

/-- (e2) the first `pix_lengths[ip]` entries of row `ip` of `data_to_pix_unique` are pairwise distinct
    and are exactly the source pixels that data pixel `ip`'s sub-pixels map to, so `pix_lengths[ip]`
    is the number of distinct ones; everything after is padding (-1 / 0). -/
theorem unique_rows_distinct (subs : List Nat) (idx : List (List Int)) (sizes : List Nat)
    (wts : List (List α)) (P : Nat)
    (hidx : ∀ sub < (Spec.slimForSubSlim subs).length, ∀ c < sizes.getD sub 0,
      ((idx.getD sub []).getD c 0).toNat < P)
    (ip : Nat) (hip : ip < subs.length) :
    ∃ keys : List Nat,
      keys.Nodup ∧
      (∀ q, q ∈ keys ↔ q ∈ (Spec.entries idx sizes wts (blockStart subs ip)
          (subs.getD ip 0 * subs.getD ip 0)).map (·.1)) ∧
      (Impl.uniqueFrom subs.length idx sizes wts P subs).2.2.getD ip 0 = keys.length ∧
      ((Impl.uniqueFrom subs.length idx sizes wts P subs).1.getD ip []).take keys.length
        = keys.map Int.ofNat ∧
      (∀ x ∈ ((Impl.uniqueFrom subs.length idx sizes wts P subs).1.getD ip []).drop keys.length,
        x = -1) ∧
      (∀ x ∈ ((Impl.uniqueFrom subs.length idx sizes wts P subs).2.1.getD ip []).drop keys.length,
        x = 0) :=
  unique_keys subs idx sizes wts P hidx ip hip

/-! ## (f) neighbour tables -/

/-- (f1) `rectangular_neighbors_from`, modelled phase by phase (corners, four edges, centre), yields for
    every shape with H, W ≥ 2 (the code requires ≥ 3) exactly the table whose row k lists the
    4-neighbours of pixel k in ascending order (up, left, right, down), padded with -1, and whose
    size column is their number. -/
theorem rectNeighbors_eq_spec (H W : Nat) (hH : 2 ≤ H) (hW : 2 ≤ W) :
    Impl.rectNeighbors H W = Spec.rectNeighbors H W :=
  Model.rectNeighbors_eq_spec H W hH hW

/-- (f2) that table is the 4-connectivity: pixel (y',x') is listed for pixel (y,x) iff the two differ
    by one step along exactly one axis. -/
theorem rect_neighbors_four_connectivity (H W y x y' x' : Nat) (hx : x < W) (hx' : x' < W)
    (hy : y < H) (hy' : y' < H) :
    ((y' * W + x' : Nat) : Int) ∈ Spec.fourNeighbors H W (y * W + x)
      ↔ (y' = y ∧ (x' + 1 = x ∨ x + 1 = x')) ∨ (x' = x ∧ (y' + 1 = y ∨ y + 1 = y')) :=
  mem_fourNeighbors_flat H W y x y' x' hx hx' hy hy'

/-- (f3) and it is symmetric. -/
theorem rect_neighbors_symmetric (H W k j : Nat) (hW : 0 < W) (hk : k < H * W) (hj : j < H * W) :
    (j : Int) ∈ Spec.fourNeighbors H W k ↔ (k : Int) ∈ Spec.fourNeighbors H W j :=
  fourNeighbors_symm H W k j hW hk hj

/-- (f4) the neighbour relation derived from a simplex list: `j` is listed for `k` iff `j ≠ k` and
    some simplex contains both (two vertices of a triangle span one of its edges); lists ascending. -/
theorem delaunay_neighbors_share_edge (n : Nat) (simplices : List (List Nat)) (k j : Nat)
    (hk : k < n) :
    (j ∈ (Spec.neighborsFromSimplices n simplices).getD k []
      ↔ j < n ∧ j ≠ k ∧ ∃ s ∈ simplices, k ∈ s ∧ j ∈ s) ∧
    ((Spec.neighborsFromSimplices n simplices).getD k []).Pairwise (· < ·) :=
  ⟨mem_neighborsFromSimplices n simplices k j hk, neighborsFromSimplices_sorted n simplices k⟩

/-- (f5) that relation is symmetric. -/
theorem delaunay_neighbors_symmetric (n : Nat) (simplices : List (List Nat)) (k j : Nat)
    (hk : k < n) (hj : j < n) :
    j ∈ (Spec.neighborsFromSimplices n simplices).getD k []
      ↔ k ∈ (Spec.neighborsFromSimplices n simplices).getD j [] :=
  neighborsFromSimplices_symm n simplices k j hk hj

/-- (f6) `Mesh2DDelaunay.neighbors` copies Qhull's CSR slices: row k is
    `indices[indptr[k]:indptr[k+1]]` followed only by -1, and `sizes[k] = indptr[k+1] - indptr[k]`.
    (That the slices equal the edge relation (f4) is Qhull's contract, checked by the harness.) -/
theorem delaunay_neighbors_from_csr (indptr indices : List Nat) (n k : Nat) (hk : k < n) :
    (Impl.delaunayNeighbors indptr indices n).2.getD k 0
        = indptr.getD (k + 1) 0 - indptr.getD k 0 ∧
    ∃ pad : Nat, (Impl.delaunayNeighbors indptr indices n).1.getD k []
        = (((indices.drop (indptr.getD k 0)).take (indptr.getD (k + 1) 0 - indptr.getD k 0)).map
            Int.ofNat) ++ List.replicate pad (-1) :=
  delaunayNeighbors_row indptr indices n k hk

/-- (f7) hence, under Qhull's contract (the CSR slice of k lists exactly the vertices sharing a simplex
    with k), the used part of row k of `Mesh2DDelaunay.neighbors` contains j iff j and k share a
    simplex (an edge of the triangulation), and the published relation is symmetric. -/
theorem delaunay_neighbors_adjacency (indptr indices : List Nat) (n : Nat)
    (simplices : List (List Nat))
    (hfull : ∀ k < n, (csrSlice indptr indices k).length = indptr.getD (k + 1) 0 - indptr.getD k 0)
    (hcontract : ∀ k < n, ∀ j, j ∈ csrSlice indptr indices k ↔
      (j < n ∧ j ≠ k ∧ ∃ s ∈ simplices, k ∈ s ∧ j ∈ s))
    (k j : Nat) (hk : k < n) (hj : j < n) :
    let used := fun k => ((Impl.delaunayNeighbors indptr indices n).1.getD k []).take
      ((Impl.delaunayNeighbors indptr indices n).2.getD k 0)
    (Int.ofNat j ∈ used k ↔ (j ≠ k ∧ ∃ s ∈ simplices, k ∈ s ∧ j ∈ s)) ∧
    (Int.ofNat j ∈ used k ↔ Int.ofNat k ∈ used j) :=
  delaunayNeighbors_adjacency indptr indices n simplices hfull hcontract k j hk hj

/-! ## non-vacuity: concrete instances meeting the hypotheses above -/

/-- `QhullLocates` is satisfiable in both branches: point 0 is the centroid-like combination
    (1/2,1/4,1/4) of triangle 0-1-2, point 1 is unlocated. -/
example :
    let mesh : List (ℚ × ℚ) := [(0, 0), (4, 0), (0, 4)]
    let grid : List (ℚ × ℚ) := [(1, 1), (9, 9)]
    QhullLocates grid mesh [0, -1] [[0, 1, 2]] 0 ∧ QhullLocates grid mesh [0, -1] [[0, 1, 2]] 1 := by
  refine ⟨Or.inr ⟨0, 0, 1, 2, 1/2, 1/4, 1/4, by decide, by decide, by decide, by decide, by decide,
    by norm_num, by norm_num, by norm_num, by norm_num, ?_, ?_⟩, Or.inl (by decide)⟩
  · simp [det3]
  · simp [combo]


/-- two image pixels with sub-sizes 1 and 2, a 3-pixel mesh, Delaunay-like rows (sizes 3 and 1):
    index ranges hold, weights are ≥ 0 and sum to 1 per sub-pixel; the matrix, its row sums and the
    unique tables are as the theorems say. -/
example :
    let subs := [1, 2]
    let idx : List (List Int) := [[0, 1, 2], [2, -1, -1], [1, 2, 0], [2, -1, -1], [0, -1, -1]]
    let sizes := [3, 1, 3, 1, 1]
    let wts : List (List ℚ) := [[1/2, 1/4, 1/4], [1, 0, 0], [1/8, 3/8, 1/2], [1, 0, 0], [1, 0, 0]]
    Spec.slimForSubSlim subs = [0, 1, 1, 1, 1]
    ∧ Impl.mappingMatrix idx sizes wts 3 2 (Spec.slimForSubSlim subs) (subs.map Impl.subFraction)
        = [[1/2, 1/4, 1/4], [3/8, 1/32, 19/32]]
    ∧ Impl.uniqueFrom 2 idx sizes wts 3 subs
        = ([[0, 1, 2, -1, -1, -1, -1, -1, -1, -1, -1, -1], [2, 1, 0, -1, -1, -1, -1, -1, -1, -1, -1, -1]],
           [[1/2, 1/4, 1/4, 0, 0, 0, 0, 0, 0, 0, 0, 0], [19/32, 1/32, 3/8, 0, 0, 0, 0, 0, 0, 0, 0, 0]],
           [3, 3]) := by
  decide +kernel

/-- a non-degenerate triangle, an interior point and the three weights (clause c);
    the overlay of a 3×4 mesh on two points and the cell of one of them (clause d). -/
example :
    Impl.baryWeights ((0 : ℚ), (0 : ℚ)) (4, 0) (0, 4) (1, 1) = [1/2, 1/4, 1/4]
    ∧ Impl.argminFirst [(5 : ℚ), 2, 7, 2] = 1
    ∧ (Impl.overlayGrid 3 4 [((0 : ℚ), (0 : ℚ)), (1, 2)] (1/100000000)).sy = 16666667/50000000
    ∧ Impl.gridPixelIndexes truncRat (Impl.overlayGrid 3 4 [((0 : ℚ), (0 : ℚ)), (1, 2)] (1/100000000))
        [((0 : ℚ), (0 : ℚ)), (1, 2)] = [8, 3] := by
  decide +kernel

/-- a mask with a masked pixel and sub-sizes 2,1 (clause a'); neighbour tables (clause f). -/
example :
    Impl.slimForSubSlim ⟨1, 3, [false, true, false]⟩ [2, 1] = [0, 0, 0, 0, 1]
    ∧ Impl.rectNeighbors 3 3 = Spec.rectNeighbors 3 3
    ∧ (Impl.rectNeighbors 3 3).1.getD 4 [] = [1, 3, 5, 7]
    ∧ Spec.neighborsFromSimplices 4 [[0, 1, 2], [1, 2, 3]] = [[1, 2], [0, 2, 3], [0, 1, 3], [1, 2]]
    ∧ Impl.delaunayNeighbors [0, 2, 5, 8, 10] [1, 2, 0, 2, 3, 0, 1, 3, 1, 2] 4
        = ([[1, 2, -1], [0, 2, 3], [0, 1, 3], [1, 2, -1]], [2, 3, 3, 2]) := by
  decide +kernel

end C06
