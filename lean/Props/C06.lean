/-
Props/C06.lean — property C06 (work in progress: theorems are added as they are proved).
-/
import Model.Mapper

open Model

namespace C06

/-- sanity: a 2×2 rectangular mesh's table is the 4-connectivity table -/
theorem rectNeighbors_2x2 : Impl.rectNeighbors 2 2 = Spec.rectNeighbors 2 2 := by decide

end C06
