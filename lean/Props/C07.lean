/- Props/C07.lean — under construction (theorems follow). -/
import Model.Regularization

open Model

namespace C07

/-- `np.zeros((n, m))` has n rows (placeholder while the development is in progress) -/
theorem zeros_rows (n m : Nat) : (Mat.zeros (α := Int) n m).length = n := by
  simp [Mat.zeros]

end C07
